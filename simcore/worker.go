package simcore

import (
	"encoding/json"
	"flag"
	"fmt"
	"os"
	"os/signal"
	"path/filepath"
	"sort"
	"strings"
	"syscall"
	"testing"
	"time"
)

var (
	fSeed     = flag.Uint64("sim.seed", 1, "batch seed (VERIF_SEED)")
	fStart    = flag.Uint64("sim.start", 0, "first run index")
	fCount    = flag.Uint64("sim.count", 1, "number of runs")
	fTier     = flag.String("sim.tier", "quick", "quick|thorough")
	fProp     = flag.String("sim.prop", "", "property whose oracles are active")
	fOut      = flag.String("sim.out", "", "result file (JSON lines)")
	fDeadline = flag.Int64("sim.deadline", 0, "unix time after which no new run is started")
	fReplay   = flag.String("sim.replay", "", "replay file")
	fRepDir   = flag.String("sim.replaydir", "", "where replay files are written")
	fKnown    = flag.String("sim.known", "", "comma separated prop/sig of known findings")
	fMinSec   = flag.Int("sim.minbudget", 30, "seconds allowed for minimisation")
	fLog      = flag.Bool("sim.log", false, "print the event log of every run")
	fDigests  = flag.Bool("sim.digests", false, "print 'DIGEST run seed digest' lines (determinism self-test)")
	fKeepOn   = flag.Bool("sim.keepgoing", false, "do not stop the worker at the first violation")
)

// ReplayFile is the on-disk form of a (minimised) failing run.
type ReplayFile struct {
	Harness   string     `json:"harness"`
	Property  string     `json:"property"`
	Tier      string     `json:"tier"`
	BatchSeed uint64     `json:"batch_seed"`
	RunIndex  uint64     `json:"run_index"`
	Seed      string     `json:"seed"` // decimal, uint64
	Cfg       Op         `json:"cfg"`
	Ops       []Op       `json:"ops"`
	Violation *Violation `json:"violation"`
	OrigOps   int        `json:"orig_ops"`
	MinTries  int        `json:"minimise_tries"`
	Notes     []string   `json:"notes,omitempty"`
}

type runLine struct {
	Run     uint64     `json:"run"`
	Seed    string     `json:"seed"`
	Ops     int        `json:"ops"`
	Skipped int        `json:"skipped,omitempty"`
	Digest  string     `json:"digest"`
	SimMs   int64      `json:"sim_ms"`
	WallUs  int64      `json:"wall_us"`
	Viol    *Violation `json:"viol,omitempty"`
	Replay  string     `json:"replay,omitempty"`
	Panic   string     `json:"panic,omitempty"`
}

type summaryLine struct {
	Summary bool             `json:"summary"`
	Harness string           `json:"harness"`
	Runs    int              `json:"runs"`
	Ops     int64            `json:"ops"`
	SimMs   int64            `json:"sim_ms"`
	Stats   map[string]int64 `json:"stats"`
	States  []uint64         `json:"states"`
	Digests []string         `json:"digests"`
	Samples []any            `json:"samples"`
	Real    []string         `json:"real"`
	Stub    []string         `json:"stub"`
	Assume  []string         `json:"assumptions"`
}

// InitProcess must be called from TestMain before any bubble exists: the first
// signal.Notify of a process must happen outside a bubble (autofile registers SIGHUP).
func InitProcess() {
	c := make(chan os.Signal, 1)
	signal.Notify(c, syscall.SIGHUP)
}

// Main is the body of the single test function of a harness binary.
func Main(t *testing.T, h *Harness) {
	known := map[string]bool{}
	for _, k := range strings.Split(*fKnown, ",") {
		if k != "" {
			known[k] = true
		}
	}
	if *fReplay != "" {
		os.Exit(replayMain(t, h, known))
	}
	os.Exit(batchMain(t, h, known))
}

func replayMain(t *testing.T, h *Harness, known map[string]bool) int {
	b, err := os.ReadFile(*fReplay)
	if err != nil {
		fmt.Fprintln(os.Stderr, "replay:", err)
		return 2
	}
	var rf ReplayFile
	if err := json.Unmarshal(b, &rf); err != nil {
		fmt.Fprintln(os.Stderr, "replay:", err)
		return 2
	}
	var seed uint64
	fmt.Sscanf(rf.Seed, "%d", &seed)
	spec := RunSpec{BatchSeed: rf.BatchSeed, RunIndex: rf.RunIndex, Seed: seed, Tier: rf.Tier, Prop: rf.Property, Cfg: rf.Cfg, Ops: rf.Ops, Replay: true, KeepLog: true, Known: known}
	r := RunOne(t, h, spec)
	if *fLog {
		for _, l := range r.Log {
			fmt.Println(l)
		}
	}
	fmt.Printf("REPLAY harness=%s seed=%d ops=%d skipped=%d digest=%s\n", h.Name, seed, len(r.Ops), r.Skipped, r.Digest)
	if r.Panic != "" {
		fmt.Fprintf(os.Stderr, "replay: unexpected panic: %s\n", r.Panic)
		return 2
	}
	if r.Viol == nil {
		fmt.Println("REPLAY-RESULT no violation")
		if rf.Violation != nil {
			return 3
		}
		return 0
	}
	fmt.Printf("REPLAY-RESULT violation property=%s sig=%s step=%d detail=%s\n", r.Viol.Property, r.Viol.Sig, r.Viol.Step, r.Viol.Detail)
	if rf.Violation != nil && (rf.Violation.Property != r.Viol.Property || rf.Violation.Sig != r.Viol.Sig) {
		return 3
	}
	return 1
}

func batchMain(t *testing.T, h *Harness, known map[string]bool) int {
	var out *os.File
	if *fOut != "" {
		f, err := os.Create(*fOut)
		if err != nil {
			fmt.Fprintln(os.Stderr, err)
			return 2
		}
		defer f.Close()
		out = f
	}
	emit := func(v any) {
		if out != nil {
			b, _ := json.Marshal(v)
			out.Write(append(b, '\n'))
		}
	}
	sum := summaryLine{Summary: true, Harness: h.Name, Stats: map[string]int64{}, Real: h.Real, Stub: h.Stub, Assume: h.Assumptions}
	states := map[uint64]struct{}{}
	digests := map[string]struct{}{}
	code := 0
	for k := *fStart; k < *fStart+*fCount; k++ {
		if *fDeadline != 0 && time.Now().Unix() >= *fDeadline {
			break
		}
		seed := Mix(*fSeed, k)
		spec := RunSpec{BatchSeed: *fSeed, RunIndex: k, Seed: seed, Tier: *fTier, Prop: *fProp, Known: known, KeepLog: *fLog}
		w0 := time.Now()
		r := RunOne(t, h, spec)
		wall := time.Since(w0)
		line := runLine{Run: k, Seed: fmt.Sprint(seed), Ops: len(r.Ops), Skipped: r.Skipped, Digest: r.Digest, SimMs: r.SimTime.Milliseconds(), WallUs: wall.Microseconds(), Viol: r.Viol}
		if *fLog {
			for _, l := range r.Log {
				fmt.Println(l)
			}
		}
		if *fDigests {
			fmt.Printf("DIGEST %d %d %s\n", k, seed, r.Digest)
		}
		sum.Runs++
		sum.Ops += int64(len(r.Ops))
		sum.SimMs += r.SimTime.Milliseconds()
		for n, v := range r.Stats {
			sum.Stats[n] += v
		}
		if len(states) < 500000 {
			for s := range r.States {
				states[s] = struct{}{}
			}
		}
		if len(digests) < 200000 {
			digests[r.Digest] = struct{}{}
		}
		if len(sum.Samples) < 2 && r.Panic == "" {
			ops := r.Ops
			if len(ops) > 25 {
				ops = ops[:25]
			}
			sum.Samples = append(sum.Samples, map[string]any{"run": k, "seed": fmt.Sprint(seed), "cfg": r.Cfg, "first_ops": ops, "total_ops": len(r.Ops), "notes": r.Notes})
		}
		if r.Panic != "" {
			line.Panic = r.Panic
			emit(line)
			fmt.Fprintf(os.Stderr, "PANIC harness=%s run=%d seed=%d: %s\n", h.Name, k, seed, r.Panic)
			code = 2
			break
		}
		if r.Viol != nil {
			rf := ReplayFile{Harness: h.Name, Property: r.Viol.Property, Tier: *fTier, BatchSeed: *fSeed, RunIndex: k, Seed: fmt.Sprint(seed), OrigOps: len(r.Ops)}
			min, tries := Minimize(t, h, spec, r, time.Duration(*fMinSec)*time.Second)
			rf.Cfg, rf.Ops, rf.Violation, rf.MinTries, rf.Notes = min.Cfg, min.Ops, min.Viol, tries, min.Notes
			dir := *fRepDir
			if dir == "" {
				dir = "."
			}
			os.MkdirAll(dir, 0o755)
			path := filepath.Join(dir, fmt.Sprintf("%s-%s-%d.json", r.Viol.Property, h.Name, seed))
			b, _ := json.MarshalIndent(rf, "", " ")
			if err := os.WriteFile(path, b, 0o644); err != nil {
				fmt.Fprintln(os.Stderr, err)
				return 2
			}
			line.Replay = path
			emit(line)
			fmt.Printf("FOUND property=%s sig=%s run=%d seed=%d ops=%d->%d replay=%s detail=%s\n", r.Viol.Property, r.Viol.Sig, k, seed, len(r.Ops), len(min.Ops), path, r.Viol.Detail)
			code = 1
			if !*fKeepOn {
				break
			}
			continue
		}
		emit(line)
	}
	for s := range states {
		sum.States = append(sum.States, s)
	}
	sort.Slice(sum.States, func(i, j int) bool { return sum.States[i] < sum.States[j] })
	for d := range digests {
		sum.Digests = append(sum.Digests, d)
	}
	sort.Strings(sum.Digests)
	emit(sum)
	return code
}
