package simcore

import (
	"crypto/sha256"
	"encoding/hex"
	"fmt"
	"hash"
	"hash/fnv"
	"os"
	"sort"
	"sync"
	"testing"
	"testing/synctest"
	"time"
)

// Violation is what an oracle reports. Sig names the specific failing input / call
// site / history class; (Property, Sig) is the "violation class" that minimisation
// preserves and that KNOWN_FINDINGS.txt refers to.
type Violation struct {
	Property string `json:"property"`
	Sig      string `json:"sig"`
	Detail   string `json:"detail"`
	Step     int    `json:"step"`
}

type violationPanic struct{}

// Env is the per-run environment handed to a harness.
type Env struct {
	T     *testing.T
	Seed  uint64
	Tier  string
	Prop  string // property whose oracles are active in this run
	Dir   string // per-run scratch directory (tmpfs), removed after the run
	Start time.Time
	// BatchSeed (VERIF_SEED) and RunIndex let a harness enumerate systematically across the
	// runs of a batch (e.g. crash point k of workload w) instead of sampling.
	BatchSeed uint64
	RunIndex  uint64

	mu      sync.Mutex
	known   map[string]bool
	stats   map[string]int64
	states  map[uint64]struct{}
	logHash hash.Hash
	keepLog bool
	lines   []string
	viol    *Violation
	step    int
	notes   []string
}

func newEnv(t *testing.T, seed uint64, tier, prop string, known map[string]bool, keepLog bool) *Env {
	return &Env{T: t, Seed: seed, Tier: tier, Prop: prop, known: known,
		stats: map[string]int64{}, states: map[uint64]struct{}{}, logHash: sha256.New(), keepLog: keepLog}
}

// Checking reports whether oracles of property p are active in this run.
func (e *Env) Checking(p string) bool { return e.Prop == p || e.Prop == "" || e.Prop == "all" }

// Thorough reports whether the run belongs to the thorough tier.
func (e *Env) Thorough() bool { return e.Tier == "thorough" }

// Settle blocks until every other goroutine of the bubble is durably blocked.
func (e *Env) Settle() { synctest.Wait() }

// Count adds to a named statistic (fault kinds fired, probes reached, operations).
func (e *Env) Count(name string) { e.Add(name, 1) }

func (e *Env) Add(name string, n int64) {
	e.mu.Lock()
	e.stats[name] += n
	e.mu.Unlock()
}

// Stat reads a statistic of this run.
func (e *Env) Stat(name string) int64 {
	e.mu.Lock()
	defer e.mu.Unlock()
	return e.stats[name]
}

// State records one abstract state (distinct-state reach measure).
func (e *Env) State(parts ...any) {
	h := fnv.New64a()
	fmt.Fprint(h, parts...)
	e.mu.Lock()
	e.states[h.Sum64()] = struct{}{}
	e.mu.Unlock()
}

// Logf appends to the run's event log. The log is hashed into the run digest that
// the determinism self-test compares; it must not contain wall-clock values,
// addresses, or anything drawn from an unseeded source.
func (e *Env) Logf(format string, a ...any) {
	s := fmt.Sprintf(format, a...)
	e.mu.Lock()
	e.logHash.Write([]byte(s))
	e.logHash.Write([]byte{'\n'})
	if e.keepLog {
		e.lines = append(e.lines, s)
	}
	e.mu.Unlock()
}

// Note keeps a line for the replay file / evidence sample without hashing it.
func (e *Env) Note(format string, a ...any) {
	e.mu.Lock()
	if len(e.notes) < 200 {
		e.notes = append(e.notes, fmt.Sprintf(format, a...))
	}
	e.mu.Unlock()
}

func (e *Env) digest() string {
	e.mu.Lock()
	defer e.mu.Unlock()
	return hex.EncodeToString(e.logHash.Sum(nil))[:16]
}

// IsKnown reports whether sig is a listed known finding for property prop.
func (e *Env) IsKnown(prop, sig string) bool { return e.known[prop+"/"+sig] }

// Report records a violation (first one wins) without unwinding; usable from any
// goroutine. It returns false when the violation class is a listed known finding (then
// only a counter is bumped and the caller should carry on).
func (e *Env) Report(prop, sig, format string, a ...any) bool {
	if !e.Checking(prop) {
		e.Count("inactive_oracle." + prop + "." + sig)
		return false
	}
	if e.known[prop+"/"+sig] {
		e.Count("known_finding." + prop + "/" + sig)
		return false
	}
	e.mu.Lock()
	if e.viol == nil {
		e.viol = &Violation{Property: prop, Sig: sig, Detail: fmt.Sprintf(format, a...), Step: e.step}
	}
	e.mu.Unlock()
	return true
}

// Fail records a violation and unwinds the driver goroutine. Only call it on the
// goroutine that runs Next/Apply/Finish.
func (e *Env) Fail(prop, sig, format string, a ...any) {
	if e.Report(prop, sig, format, a...) {
		panic(violationPanic{})
	}
}

// Failed reports whether a violation has been recorded.
func (e *Env) Failed() bool {
	e.mu.Lock()
	defer e.mu.Unlock()
	return e.viol != nil
}

func (e *Env) violation() *Violation {
	e.mu.Lock()
	defer e.mu.Unlock()
	return e.viol
}

func (e *Env) sortedStats() []string {
	e.mu.Lock()
	defer e.mu.Unlock()
	keys := make([]string, 0, len(e.stats))
	for k := range e.stats {
		keys = append(keys, k)
	}
	sort.Strings(keys)
	return keys
}

// MkScratch creates the run's scratch directory on tmpfs.
func (e *Env) MkScratch() string {
	if e.Dir == "" {
		base := "/dev/shm"
		if _, err := os.Stat(base); err != nil {
			base = os.TempDir()
		}
		d, err := os.MkdirTemp(base, fmt.Sprintf("verif-%d-", os.Getpid()))
		if err != nil {
			panic(err)
		}
		e.Dir = d
	}
	return e.Dir
}
