package simcore

import (
	"encoding/hex"
	"encoding/json"
	"fmt"
	"sort"
	"strings"
)

// Op is one semantic action record of a trace (or a run configuration). It is plain
// JSON so that replay files are human-readable and delta-debuggable. The key "a"
// names the action kind.
type Op map[string]any

func (o Op) Kind() string { return o.Str("a") }

func (o Op) Has(k string) bool { _, ok := o[k]; return ok }

func (o Op) Str(k string) string {
	if v, ok := o[k].(string); ok {
		return v
	}
	return ""
}

func (o Op) Int(k string) int { return int(o.Int64(k)) }

func (o Op) Int64(k string) int64 {
	switch v := o[k].(type) {
	case float64:
		return int64(v)
	case int:
		return int64(v)
	case int64:
		return v
	case uint64:
		return int64(v)
	case json.Number:
		n, _ := v.Int64()
		return n
	case bool:
		if v {
			return 1
		}
	}
	return 0
}

// U64 reads a uint64 that was stored as a decimal string (JSON numbers lose bits).
func (o Op) U64(k string) uint64 {
	switch v := o[k].(type) {
	case string:
		var x uint64
		fmt.Sscanf(v, "%d", &x)
		return x
	case uint64:
		return v
	}
	return uint64(o.Int64(k))
}

func (o Op) Float(k string) float64 {
	switch v := o[k].(type) {
	case float64:
		return v
	case int:
		return float64(v)
	case int64:
		return float64(v)
	}
	return 0
}

func (o Op) Bool(k string) bool {
	switch v := o[k].(type) {
	case bool:
		return v
	case float64:
		return v != 0
	case int:
		return v != 0
	}
	return false
}

// Hex reads a byte slice stored as hex.
func (o Op) Hex(k string) []byte {
	b, _ := hex.DecodeString(o.Str(k))
	return b
}

func HexStr(b []byte) string { return hex.EncodeToString(b) }

// Ints reads a list of ints.
func (o Op) Ints(k string) []int {
	switch v := o[k].(type) {
	case []int:
		return v
	case []any:
		out := make([]int, 0, len(v))
		for _, x := range v {
			switch y := x.(type) {
			case float64:
				out = append(out, int(y))
			case int:
				out = append(out, y)
			case int64:
				out = append(out, int(y))
			}
		}
		return out
	}
	return nil
}

// Strs reads a list of strings.
func (o Op) Strs(k string) []string {
	switch v := o[k].(type) {
	case []string:
		return v
	case []any:
		out := make([]string, 0, len(v))
		for _, x := range v {
			if s, ok := x.(string); ok {
				out = append(out, s)
			}
		}
		return out
	}
	return nil
}

// Sub reads a nested record.
func (o Op) Sub(k string) Op {
	switch v := o[k].(type) {
	case Op:
		return v
	case map[string]any:
		return Op(v)
	}
	return nil
}

// Subs reads a list of nested records.
func (o Op) Subs(k string) []Op {
	switch v := o[k].(type) {
	case []Op:
		return v
	case []any:
		out := make([]Op, 0, len(v))
		for _, x := range v {
			if m, ok := x.(map[string]any); ok {
				out = append(out, Op(m))
			}
		}
		return out
	}
	return nil
}

// String renders the record with sorted keys (stable, used in event logs).
func (o Op) String() string {
	keys := make([]string, 0, len(o))
	for k := range o {
		keys = append(keys, k)
	}
	sort.Strings(keys)
	var sb strings.Builder
	sb.WriteByte('{')
	for i, k := range keys {
		if i > 0 {
			sb.WriteByte(' ')
		}
		b, _ := json.Marshal(o[k])
		sb.WriteString(k)
		sb.WriteByte('=')
		sb.Write(b)
	}
	sb.WriteByte('}')
	return sb.String()
}

// Normalize round-trips the record through JSON so that generation mode and replay
// mode hand byte-identical records to Apply.
func (o Op) Normalize() Op {
	b, err := json.Marshal(o)
	if err != nil {
		panic(fmt.Sprintf("simcore: op not serialisable: %v", err))
	}
	var out Op
	if err := json.Unmarshal(b, &out); err != nil {
		panic(err)
	}
	return out
}
