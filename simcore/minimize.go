package simcore

import (
	"testing"
	"time"
)

// Minimize shrinks a failing trace by delta debugging while the same violation class
// (property, sig) persists. It returns the reduced run (always a failing one).
func Minimize(t *testing.T, h *Harness, spec RunSpec, orig Result, budget time.Duration) (Result, int) {
	deadline := time.Now().Add(budget)
	best := orig
	tries := 0
	same := func(r Result) bool {
		return r.Viol != nil && r.Viol.Property == orig.Viol.Property && r.Viol.Sig == orig.Viol.Sig
	}
	try := func(ops []Op) (Result, bool) {
		tries++
		s := spec
		s.Replay = true
		s.Cfg = orig.Cfg
		s.Ops = ops
		s.KeepLog = false
		r := RunOne(t, h, s)
		if !same(r) {
			return r, false
		}
		for k := 1; k < h.MinimizeReps; k++ {
			if r2 := RunOne(t, h, s); !same(r2) {
				return r2, false
			}
		}
		return r, true
	}
	// First: the applied ops of the original run, replayed (drops skipped/trailing ones).
	if r, ok := try(best.Ops); ok {
		best = r
	} else {
		// not reproducible in-process: keep the original, caller will notice at fresh replay
		return orig, tries
	}
	n := 2
	for len(best.Ops) >= 1 && time.Now().Before(deadline) {
		ops := best.Ops
		if n > len(ops) {
			n = len(ops)
		}
		if n == 0 {
			break
		}
		chunk := (len(ops) + n - 1) / n
		reduced := false
		for i := 0; i < len(ops) && time.Now().Before(deadline); i += chunk {
			j := i + chunk
			if j > len(ops) {
				j = len(ops)
			}
			cand := append(append([]Op{}, ops[:i]...), ops[j:]...)
			if r, ok := try(cand); ok {
				best = r
				if n > 2 {
					n--
				}
				reduced = true
				break
			}
		}
		if !reduced {
			if chunk == 1 {
				break
			}
			n *= 2
		}
	}
	return best, tries
}
