// Package simcore is the substrate shared by every simulation harness in /verif:
// seeded PRNG, semantic action traces, the one-bubble-per-run driver, replay,
// delta-debugging minimiser, statistics and the worker command line.
package simcore

// RNG is a splitmix64 stream. Every random decision of a run is drawn from one RNG
// seeded from (VERIF_SEED, run index); logging never draws from it.
type RNG struct{ s uint64 }

func NewRNG(seed uint64) *RNG { return &RNG{s: seed} }

func (r *RNG) Uint64() uint64 {
	r.s += 0x9e3779b97f4a7c15
	z := r.s
	z = (z ^ (z >> 30)) * 0xbf58476d1ce4e5b9
	z = (z ^ (z >> 27)) * 0x94d049bb133111eb
	return z ^ (z >> 31)
}

// Mix derives the seed of run k of a batch.
func Mix(seed, k uint64) uint64 {
	r := RNG{s: seed ^ (k+1)*0xd1342543de82ef95}
	r.Uint64()
	return r.Uint64()
}

// Intn returns a value in [0,n). n<=0 returns 0.
func (r *RNG) Intn(n int) int {
	if n <= 1 {
		return 0
	}
	return int(r.Uint64() % uint64(n))
}

// Range returns a value in [lo,hi].
func (r *RNG) Range(lo, hi int) int {
	if hi <= lo {
		return lo
	}
	return lo + r.Intn(hi-lo+1)
}

func (r *RNG) Int63() int64 { return int64(r.Uint64() >> 1) }

func (r *RNG) Float64() float64 { return float64(r.Uint64()>>11) / (1 << 53) }

// Bool is true with probability p.
func (r *RNG) Bool(p float64) bool { return r.Float64() < p }

// Bytes returns n pseudo-random bytes.
func (r *RNG) Bytes(n int) []byte {
	b := make([]byte, n)
	for i := 0; i < n; i += 8 {
		v := r.Uint64()
		for j := 0; j < 8 && i+j < n; j++ {
			b[i+j] = byte(v >> (8 * j))
		}
	}
	return b
}

// Perm returns a permutation of [0,n).
func (r *RNG) Perm(n int) []int {
	p := make([]int, n)
	for i := range p {
		p[i] = i
	}
	for i := n - 1; i > 0; i-- {
		j := r.Intn(i + 1)
		p[i], p[j] = p[j], p[i]
	}
	return p
}

// Weighted picks an index with probability proportional to w[i] (all w>=0, some >0).
func (r *RNG) Weighted(w []int) int {
	t := 0
	for _, x := range w {
		t += x
	}
	if t <= 0 {
		return 0
	}
	v := r.Intn(t)
	for i, x := range w {
		if v < x {
			return i
		}
		v -= x
	}
	return len(w) - 1
}

// Fork returns an independent stream (used for per-run sub-generators whose
// number of draws must not perturb the main stream).
func (r *RNG) Fork() *RNG { return NewRNG(r.Uint64()) }
