package simcore

import (
	"fmt"
	"os"
	"runtime"
	"runtime/debug"
	"testing"
	"testing/synctest"
	"time"

	mrand "math/rand"

	tmrand "github.com/tendermint/tendermint/libs/rand"
)

// Sim is one simulated run of a harness.
type Sim interface {
	// Next draws the next action from the PRNG given the current simulated state; nil ends
	// the run. Next must not change the system, Apply must not draw from any PRNG.
	Next(rng *RNG) Op
	// Apply performs one action through a seam and settles. It returns false when the
	// action is not enabled in the current state (replay of a reduced trace); then it must
	// have had no effect.
	Apply(op Op) bool
	// Finish runs the end-of-run checks over the recorded history.
	Finish()
	// Close stops every goroutine and timer the run created.
	Close()
}

// Harness describes one simulation harness (one test binary).
type Harness struct {
	Name  string
	Props []string
	// Config draws the swarm configuration of a run (sizes, enabled fault kinds, rates…).
	Config func(rng *RNG, env *Env) Op
	// New builds the system under test inside the bubble.
	New func(env *Env, cfg Op) Sim
	// MaxOps caps the actions of one run.
	MaxOps int
	// RunTimeout is the real-time watchdog for one run (default 120 s).
	RunTimeout time.Duration
	// NoBubble runs the harness without a synctest bubble (harnesses with no goroutines, timers or clocks of their own).
	NoBubble bool
	// MinimizeReps > 1: a reduced trace is kept by the minimiser only if it shows the same violation
	// class in that many consecutive replays (for systems under test whose behaviour depends on an
	// unseeded source such as Go map iteration order). 0 or 1 = one replay decides.
	MinimizeReps int
	// Real lists what is real code / what is stubbed, for the evidence file.
	Real, Stub []string
	// Assumptions for the evidence file.
	Assumptions []string
}

// RunSpec selects generation (Ops == nil) or replay.
type RunSpec struct {
	BatchSeed uint64
	RunIndex  uint64
	Seed    uint64
	Tier    string
	Prop    string
	Cfg     Op
	Ops     []Op
	Replay  bool
	KeepLog bool
	Known   map[string]bool
}

// Result of one run.
type Result struct {
	Seed     uint64
	Cfg      Op
	Ops      []Op
	Skipped  int
	Viol     *Violation
	Panic    string // unexpected panic on the driver goroutine (infrastructure)
	Digest   string
	Stats    map[string]int64
	States   map[uint64]struct{}
	SimTime  time.Duration
	Wall     time.Duration
	Log      []string
	Notes    []string
	TimedOut bool
}

// RunOne executes one run in its own bubble, under a real-time watchdog.
func RunOne(t *testing.T, h *Harness, spec RunSpec) Result {
	timeout := h.RunTimeout
	if timeout == 0 {
		timeout = 120 * time.Second
	}
	resCh := make(chan Result, 1)
	go func() {
		var res Result
		defer func() {
			// the end-of-bubble "blocked goroutines remain" panic lands here; the run's
			// result was already produced.
			if r := recover(); r != nil {
				if res.Digest == "" && res.Panic == "" {
					res.Panic = fmt.Sprintf("bubble: %v", r)
				}
			}
			resCh <- res
		}()
		if h.NoBubble {
			res = runInside(t, h, spec)
			return
		}
		synctest.Test(t, func(t *testing.T) {
			res = runInside(t, h, spec)
		})
	}()
	wd := time.NewTimer(timeout)
	defer wd.Stop()
	select {
	case r := <-resCh:
		return r
	case <-wd.C:
		buf := make([]byte, 1<<22)
		n := runtime.Stack(buf, true)
		fmt.Fprintf(os.Stderr, "WATCHDOG: harness=%s seed=%d run exceeded %v real time; goroutines:\n%s\n", h.Name, spec.Seed, timeout, buf[:n])
		os.Exit(2)
	}
	panic("unreachable")
}

func runInside(t *testing.T, h *Harness, spec RunSpec) (res Result) {
	wall := time.Now() // fake inside a bubble; real wall is measured by the caller
	_ = wall
	env := newEnv(t, spec.Seed, spec.Tier, spec.Prop, spec.Known, spec.KeepLog)
	env.Start = time.Now()
	env.BatchSeed, env.RunIndex = spec.BatchSeed, spec.RunIndex
	res.Seed = spec.Seed
	// Every unseeded-by-default random source inside tendermint is re-seeded per run.
	mrand.Seed(int64(spec.Seed >> 1))
	tmrand.Seed(int64(spec.Seed >> 1))
	rng := NewRNG(spec.Seed)
	cfg := spec.Cfg
	if cfg == nil {
		cfg = h.Config(rng.Fork(), env).Normalize()
	} else {
		rng.Fork()
	}
	res.Cfg = cfg
	env.Logf("cfg %s", cfg.String())
	var sim Sim
	finish := func() {
		res.Viol = env.violation()
		res.Digest = env.digest()
		res.SimTime = time.Since(env.Start)
		env.mu.Lock()
		res.Stats = env.stats
		res.States = env.states
		res.Log = env.lines
		res.Notes = env.notes
		env.mu.Unlock()
	}
	func() {
		defer func() {
			if r := recover(); r != nil {
				if _, ok := r.(violationPanic); !ok {
					res.Panic = fmt.Sprintf("%v\n%s", r, debug.Stack())
				}
			}
		}()
		sim = h.New(env, cfg)
		maxOps := h.MaxOps
		if maxOps == 0 {
			maxOps = 5000
		}
		if !spec.Replay {
			for i := 0; i < maxOps && !env.Failed(); i++ {
				op := sim.Next(rng)
				if op == nil {
					break
				}
				op = op.Normalize()
				env.step = i
				env.Logf("op %d %s", i, op.String())
				// recorded before Apply so that an action whose oracle fails is part of the trace
				res.Ops = append(res.Ops, op)
				if !sim.Apply(op) {
					res.Ops = res.Ops[:len(res.Ops)-1]
					res.Skipped++
					env.Logf("skipped")
				}
			}
		} else {
			for i, op := range spec.Ops {
				if env.Failed() {
					break
				}
				env.step = i
				env.Logf("op %d %s", i, op.String())
				// recorded before Apply so that an action whose oracle fails is part of the trace
				res.Ops = append(res.Ops, op)
				if !sim.Apply(op) {
					res.Ops = res.Ops[:len(res.Ops)-1]
					res.Skipped++
					env.Logf("skipped")
				}
			}
		}
		if !env.Failed() {
			env.step = len(res.Ops)
			sim.Finish()
		}
	}()
	finish()
	func() {
		defer func() {
			if r := recover(); r != nil && res.Panic == "" && res.Viol == nil {
				res.Panic = fmt.Sprintf("close: %v\n%s", r, debug.Stack())
			}
		}()
		if sim != nil {
			sim.Close()
		}
	}()
	if env.Dir != "" {
		os.RemoveAll(env.Dir)
	}
	return res
}
