package consim

import (
	"time"

	"github.com/tendermint/tendermint/crypto/tmhash"
	sm "github.com/tendermint/tendermint/state"
	"github.com/tendermint/tendermint/types"
)

// blockMutations are the single-field perturbations a Byzantine proposer applies to an
// otherwise valid block. Dependent hashes are recomputed so that only the named field is
// wrong. Every one of them makes the block invalid by the property's rule (a header field
// no longer equals the value derived from state, a content hash does not match, the last
// commit is not a valid +2/3 commit), except "proposer-other", which names another member
// of the validator set and stays acceptable.
var blockMutations = []string{
	"chainid", "height", "time+1ns", "time-1ns", "time-prev", "lastblockid", "lastcommithash", "datahash",
	"valhash", "nextvalhash", "conshash", "apphash", "resultshash", "evidencehash", "proposer-unknown",
	"proposer-other", "version", "commit-badsig", "commit-dropquorum", "commit-round", "commit-forged-nil", "commit-nil-padded", "first-lastcommit",
}

var validMutations = map[string]bool{"proposer-other": true}

func flip(b []byte) []byte {
	if len(b) == 0 {
		return tmhash.Sum([]byte("x"))
	}
	c := append([]byte{}, b...)
	c[len(c)/2] ^= 0x40
	return c
}

// mutateBlock applies the perturbation in place; false if it does not apply to this block.
//
// sign returns a signature of the validator with that address over msg, or nil if the simulator
// does not hold its key (only Byzantine validators' keys are held).
func mutateBlock(b *types.Block, mut string, st sm.State, salt int, chainID string, sign func(types.Address, []byte) []byte) bool {
	first := b.Height == st.InitialHeight
	switch mut {
	case "chainid":
		b.ChainID += "x"
	case "height":
		b.Height++
	case "time+1ns":
		b.Time = b.Time.Add(1)
	case "time-1ns":
		b.Time = b.Time.Add(-1)
	case "time-prev":
		if first {
			return false
		}
		b.Time = st.LastBlockTime
	case "lastblockid":
		if first {
			return false
		}
		b.LastBlockID.Hash = flip(b.LastBlockID.Hash)
	case "lastcommithash":
		b.LastCommitHash = flip(b.LastCommitHash)
	case "datahash":
		b.DataHash = flip(b.DataHash)
	case "valhash":
		b.ValidatorsHash = flip(b.ValidatorsHash)
	case "nextvalhash":
		b.NextValidatorsHash = flip(b.NextValidatorsHash)
	case "conshash":
		b.ConsensusHash = flip(b.ConsensusHash)
	case "apphash":
		b.AppHash = flip(b.AppHash)
	case "resultshash":
		b.LastResultsHash = flip(b.LastResultsHash)
	case "evidencehash":
		b.EvidenceHash = flip(b.EvidenceHash)
	case "proposer-unknown":
		b.ProposerAddress = tmhash.SumTruncated([]byte("nobody"))
	case "proposer-other":
		if st.Validators.Size() < 2 {
			return false
		}
		for _, v := range st.Validators.Validators {
			if string(v.Address) != string(b.ProposerAddress) {
				b.ProposerAddress = v.Address
				break
			}
		}
	case "version":
		b.Version.Block++
	case "first-lastcommit":
		// the chain's first block must carry an empty last commit; here it has entries
		if !first {
			return false
		}
		sigs := []types.CommitSig{types.NewCommitSigAbsent()}
		if salt%2 == 0 && st.Validators.Size() > 0 {
			v := st.Validators.Validators[0]
			sigs = []types.CommitSig{{BlockIDFlag: types.BlockIDFlagNil, ValidatorAddress: v.Address, Timestamp: b.Time, Signature: append(tmhash.Sum([]byte("made-up")), tmhash.Sum([]byte("made-up-2"))...)}}
		}
		b.LastCommit = types.NewCommit(0, 0, types.BlockID{}, sigs)
		b.LastCommitHash = nil
		b.Hash() // refill
	case "commit-badsig", "commit-dropquorum", "commit-round", "commit-forged-nil", "commit-nil-padded":
		if first || b.LastCommit == nil || len(b.LastCommit.Signatures) == 0 {
			return false
		}
		sigs := make([]types.CommitSig, len(b.LastCommit.Signatures))
		copy(sigs, b.LastCommit.Signatures)
		round := b.LastCommit.Round
		switch mut {
		case "commit-badsig":
			k := -1
			for i, s := range sigs {
				if s.ForBlock() {
					k = i
					if salt%2 == 0 {
						break
					}
				}
			}
			if k < 0 {
				return false
			}
			sigs[k].Signature = flip(sigs[k].Signature)
		case "commit-dropquorum":
			// mark signers absent until at most 2/3 remain
			total := st.LastValidators.TotalVotingPower()
			var have int64
			for i, s := range sigs {
				if s.ForBlock() {
					have += st.LastValidators.Validators[i].VotingPower
				}
			}
			for i, s := range sigs {
				if have*3 <= total*2 {
					break
				}
				if s.ForBlock() {
					have -= st.LastValidators.Validators[i].VotingPower
					sigs[i] = types.NewCommitSigAbsent()
				}
			}
		case "commit-round":
			round++
		case "commit-nil-padded":
			// genuine precommits FOR NIL of the validators whose keys the adversary holds, and so
			// many for-block signers dropped that at most 2/3 of the power signed the block while
			// more than 2/3 "signed something": not a commit for the block
			total := st.LastValidators.TotalVotingPower()
			padded := false
			for i, v := range st.LastValidators.Validators {
				c := types.NewCommit(b.LastCommit.Height, round, b.LastCommit.BlockID, sigs)
				cand := types.CommitSig{BlockIDFlag: types.BlockIDFlagNil, ValidatorAddress: v.Address, Timestamp: b.Time.Add(-time.Millisecond)}
				keep := c.Signatures[i]
				c.Signatures[i] = cand
				sg := sign(v.Address, c.VoteSignBytes(chainID, int32(i)))
				c.Signatures[i] = keep
				if sg == nil {
					continue
				}
				cand.Signature = sg
				sigs[i] = cand
				padded = true
			}
			if !padded {
				return false
			}
			var have int64
			for i, s := range sigs {
				if s.ForBlock() {
					have += st.LastValidators.Validators[i].VotingPower
				}
			}
			for i, s := range sigs {
				if have*3 <= total*2 {
					break
				}
				if s.ForBlock() {
					have -= st.LastValidators.Validators[i].VotingPower
					sigs[i] = types.NewCommitSigAbsent()
				}
			}
		case "commit-forged-nil":
			// a made-up "validator k precommitted nil" entry with a garbage signature: replaces
			// an absent or nil entry, or a for-block entry that the quorum can spare
			total := st.LastValidators.TotalVotingPower()
			var have int64
			for i, s := range sigs {
				if s.ForBlock() {
					have += st.LastValidators.Validators[i].VotingPower
				}
			}
			k := -1
			for i, s := range sigs {
				if !s.ForBlock() {
					k = i
					break
				}
			}
			if k < 0 {
				for i := range sigs {
					if (have-st.LastValidators.Validators[i].VotingPower)*3 > total*2 {
						k = i
						break
					}
				}
			}
			if k < 0 {
				return false
			}
			v := st.LastValidators.Validators[k]
			sigs[k] = types.CommitSig{BlockIDFlag: types.BlockIDFlagNil, ValidatorAddress: v.Address,
				Timestamp: b.Time.Add(-time.Millisecond), Signature: tmhash.Sum([]byte("forged"))[:32]}
			sigs[k].Signature = append(sigs[k].Signature, sigs[k].Signature...)
		}
		b.LastCommit = types.NewCommit(b.LastCommit.Height, round, b.LastCommit.BlockID, sigs)
		b.LastCommitHash = nil
		if mut == "commit-nil-padded" {
			// keep the rest of the header consistent with the commit it carries, so that the commit
			// is the only thing wrong with the block
			if t := sm.MedianTime(b.LastCommit, st.LastValidators); t.After(st.LastBlockTime) {
				b.Time = t
			}
		}
		b.Hash() // refill
	default:
		return false
	}
	return true
}

var _ = time.Now
