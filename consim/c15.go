package consim

import (
	"fmt"
	"strings"

	cstypes "github.com/tendermint/tendermint/consensus/types"
)

// rsSummary is what C15's last sentence quantifies over: height, round, step, lock and
// vote sets a node had reached.
type rsSummary struct {
	h       int64
	r       int32
	step    cstypes.RoundStepType
	lockedR int32
	lockedH string
	votes   map[string]string // "round/type" -> bit array string
	// the incarnation that reached this state had repaired its WAL at start: OnStart then
	// replays the WAL a second time over the state left by the first pass
	afterRepair bool
	// the incarnation that reached this state had started without the end-of-height marker of
	// the previous height in its WAL and is still in the height it started in
	noMarker  bool
	markerCut bool
}

func summarize(rs *cstypes.RoundState) *rsSummary {
	d := &rsSummary{h: rs.Height, r: rs.Round, step: rs.Step, lockedR: rs.LockedRound, votes: map[string]string{}}
	if rs.LockedBlock != nil {
		d.lockedH = fmt.Sprintf("%X", []byte(rs.LockedBlock.Hash()))
	}
	if rs.Votes != nil {
		for r := int32(0); r <= rs.Round+1; r++ {
			if v := rs.Votes.Prevotes(r); v != nil {
				d.votes[fmt.Sprintf("%d/1", r)] = v.BitArray().String()
			}
			if v := rs.Votes.Precommits(r); v != nil {
				d.votes[fmt.Sprintf("%d/2", r)] = v.BitArray().String()
			}
		}
	}
	return d
}

// checkReplayedState: after a restart, replaying the WAL must bring the node back to (at
// least) the height, round, step, lock and vote sets it had reached when its WAL was last
// durably synced.
func (m *monitor) checkReplayedState(n *simNode) {
	e := m.s.env
	d := n.durable
	if !e.Checking("C15") || d == nil || !n.isAlive() {
		return
	}
	rs := n.cs.GetRoundState()
	e.Count("probe.replayed_state_checked")
	if rs.Height > d.h {
		return // the handshake finished a commit that was in flight
	}
	if rs.Height < d.h {
		e.Fail("C15", "replay-height-regressed", "node %d restarted at height %d although its synced WAL had reached height %d", n.idx, rs.Height, d.h)
	}
	if d.markerCut && n.noMarkerAtBoot && rs.Height == d.h && (rs.Round < d.r || (rs.Round == d.r && rs.Step < d.step)) {
		// known finding (KNOWN_FINDINGS.txt)
		e.Fail("C15", "replay-regressed-marker-cut-by-repair-at-older-tear", "node %d restarted at %d/%d/%d; an earlier start that could not replay left a torn tail in the WAL head, #ENDHEIGHT %d and the records of height %d were appended behind it, and a later repair cut the head at the old tear: the previous incarnation had reached %d/%d/%d, none of which the WAL can give back", n.idx, rs.Height, rs.Round, rs.Step, d.h-1, d.h, d.h, d.r, d.step)
		return
	}
	if d.noMarker && n.noMarkerAtBoot && rs.Height == d.h && (rs.Round < d.r || (rs.Round == d.r && rs.Step < d.step)) {
		// known finding (KNOWN_FINDINGS.txt)
		e.Fail("C15", "replay-regressed-endheight-marker-missing", "node %d restarted at %d/%d/%d; the previous incarnation had started without #ENDHEIGHT %d in its WAL (crash between saving that block and logging the marker) and had reached %d/%d/%d, none of which the WAL can give back", n.idx, rs.Height, rs.Round, rs.Step, d.h-1, d.h, d.r, d.step)
		return
	}
	if rs.Round < d.r || (rs.Round == d.r && rs.Step < d.step) {
		e.Fail("C15", "replay-step-regressed", "node %d restarted at %d/%d/%d although its synced WAL had reached %d/%d/%d", n.idx, rs.Height, rs.Round, rs.Step, d.h, d.r, d.step)
	}
	if rs.Round == d.r && d.step >= cstypes.RoundStepPrecommit {
		h := ""
		if rs.LockedBlock != nil {
			h = fmt.Sprintf("%X", []byte(rs.LockedBlock.Hash()))
		}
		claimed := false
		for k := range m.claims {
			if strings.HasPrefix(k, fmt.Sprintf("%d/%d/%d/%s/", n.idx, d.h, d.lockedR, d.lockedH)) {
				claimed = true
			}
		}
		if (rs.LockedRound != d.lockedR || h != d.lockedH) && claimed && d.lockedR >= 0 {
			// known finding: the polka behind the lock needed a vote admitted through a peer's
			// maj23 claim, which the WAL does not record
			e.Fail("C15", "replay-lock-lost-maj23-claim-not-in-wal", "node %d restarted in %d/%d with lock (round %d, %.12s) but had (round %d, %.12s) when its WAL was last synced; a peer's +2/3 claim for that block had been accepted in round %d", n.idx, rs.Height, rs.Round, rs.LockedRound, h, d.lockedR, d.lockedH, d.lockedR)
		} else if rs.LockedRound != d.lockedR || h != d.lockedH {
			e.Fail("C15", "replay-lock-lost", "node %d restarted in %d/%d with lock (round %d, %.12s) but had (round %d, %.12s) when its WAL was last synced", n.idx, rs.Height, rs.Round, rs.LockedRound, h, d.lockedR, d.lockedH)
		}
	}
	for k, bits := range d.votes {
		var r int32
		var typ int
		fmt.Sscanf(k, "%d/%d", &r, &typ)
		vs := voteSetOf(rs, r, typ)
		now := ""
		if vs != nil {
			now = vs.BitArray().String()
		}
		if !bitsSuperset(now, bits) {
			e.Fail("C15", "replay-votes-lost", "node %d restarted in %d/%d/%d with votes %s for round %d type %d, its synced WAL held %s", n.idx, rs.Height, rs.Round, rs.Step, now, r, typ, bits)
		}
	}
}

// bitsSuperset compares BitArray.String() renderings ("BA{4:xx__}").
func bitsSuperset(now, old string) bool {
	if old == "" || old == "nil-BitArray" {
		return true
	}
	for i := range old {
		if old[i] == 'x' && (i >= len(now) || now[i] != 'x') {
			return false
		}
	}
	return true
}
