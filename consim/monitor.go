package consim

import (
	"bytes"
	"fmt"
	"os"
	"math/big"
	"strings"
	"sync"

	cs "github.com/tendermint/tendermint/consensus"
	cstypes "github.com/tendermint/tendermint/consensus/types"
	"github.com/tendermint/tendermint/mempool"
	tmproto "github.com/tendermint/tendermint/proto/tendermint/types"
	"github.com/tendermint/tendermint/types"

	"verif/simapp"
)

func mempoolTxInfo() mempool.TxInfo { return mempool.TxInfo{} }

type signRec struct {
	inc   int
	h     int64
	r     int32
	typ   int // 1 prevote 2 precommit 32 proposal
	block string
	pol   int32
	ts    int64
	sig   string
	step  int // op index
	dup   bool
}

// monitor holds the oracles of the consensus-network simulation.
type monitor struct {
	inCommit map[int]int64 // node -> incarnation<<40|height while it sits in the commit step
	s  *sim
	mu sync.Mutex // onSigned is called from node goroutines (several at once in real-ticker mode)

	decided   map[int64][]byte // height -> decided block hash (first decision seen)
	decidedBy map[int64]int
	audited   map[int]int64 // node -> highest height whose commit was audited

	signs  map[int][]signRec
	claims map[string]bool // node/height/round/block: a peer's "+2/3 prevotes seen" claim was accepted (not logged in the WAL)
	altEnc map[string]bool // part-set hashes of Byzantine alternative encodings of a block

	// C05 automaton per node
	c05 map[int]*c05state

	invalid map[string]string // block id -> perturbation that makes it invalid (ground truth)

	// C02: prevotes each node has been given, per height/round/value, by validator address
	recv     map[int]map[string]map[string]bool // node -> "h/r/blockkey" -> set of validator addresses
	vals     map[int64]*types.ValidatorSet      // height -> validator set
	signSeen map[int]int                        // node -> number of sign records already judged

	// C06: state bytes per height (first replica) for the cross-replica comparison
	stateBytes map[int64][]byte
	stateFrom  map[int64]int
	stateSeen  map[int]int64

	// C11: evidence hashes committed so far
	evCommitted map[string]int64
	auditAt     map[int]int64
	assembled   map[string]bool
	hdrs        map[int64]*hdrRec
}

type c05state struct {
	pos     int   // journal entries consumed
	last    int64 // last committed height (0 = none)
	inBlock bool
	curH    int64
	curInc  int
	curTxs  []string
	endSeen bool
}

func newMonitor(s *sim) *monitor {
	return &monitor{s: s, decided: map[int64][]byte{}, decidedBy: map[int64]int{}, audited: map[int]int64{}, signs: map[int][]signRec{}, altEnc: map[string]bool{}, claims: map[string]bool{}, c05: map[int]*c05state{}, invalid: map[string]string{},
		recv: map[int]map[string]map[string]bool{}, vals: map[int64]*types.ValidatorSet{}, signSeen: map[int]int{},
		stateBytes: map[int64][]byte{}, stateFrom: map[int64]int{}, stateSeen: map[int]int64{}, evCommitted: map[string]int64{}, auditAt: map[int]int64{}, assembled: map[string]bool{}, hdrs: map[int64]*hdrRec{}}
}

func (m *monitor) onCrash(n *simNode, ci *crashInfo) {}
func (m *monitor) onRestart(n *simNode) {
	e := m.s.env
	if !n.isAlive() {
		if e.Checking("C05") || e.Checking("C04") || e.Checking("C15") || e.Checking("C18") {
			f := n.failureMsg()
			n.mu.Lock()
			crashed := n.crashed != nil
			n.mu.Unlock()
			if f != "" && !crashed {
				e.Fail(e.Prop, "restart-failed", "node %d cannot restart from its durable state: %s", n.idx, f)
			}
		}
		return
	}
	m.checkReplayedState(n)
	if e.Checking("C05") {
		st, err := n.sstore.Load()
		if err != nil {
			e.Fail("C05", "state-load", "node %d: state store load after restart: %v", n.idx, err)
		}
		S, B, A := st.LastBlockHeight, n.bstore.Height(), n.app.CommittedHeight()
		if !(S == B && A == S) {
			e.Fail("C05", "stores-disagree", "node %d after restart: state height %d, block store height %d, app height %d", n.idx, S, B, A)
		}
		if S > 0 && !bytes.Equal(st.AppHash, n.app.CommittedHash()) {
			e.Fail("C05", "apphash-disagree", "node %d after restart at height %d: state app hash %X, application %X", n.idx, S, st.AppHash, n.app.CommittedHash())
		}
		e.Count("probe.restart_checked")
	}
}

func (m *monitor) onByzProposal(p *byzProposal) {
	if p.mut != "" && !validMutations[p.mut] {
		m.invalid[bidStr(p.prop.BlockID)] = p.mut
	}
}

// onMaj23Claim: a VoteSetMaj23 claim lets the node count a vote that conflicts with one it
// already holds from that validator. The claim itself is never written to the WAL.
func (m *monitor) onMaj23Claim(n *simNode, h int64, r int32, typ int, bid types.BlockID) {
	if typ == 1 {
		m.claims[fmt.Sprintf("%d/%d/%d/%s", n.idx, h, r, blockKey(bid))] = true
	}
}

func (m *monitor) onDeliverProposal(n *simNode, p *types.Proposal)  {}
func (m *monitor) onDeliverPart(n *simNode, h int64, p *types.Part) {}
func (m *monitor) onDeliverVote(n *simNode, v *types.Vote) {
	if v.Type != tmproto.PrevoteType {
		return
	}
	m.notePrevote(n.idx, v.Height, v.Round, blockKey(v.BlockID), v.ValidatorAddress)
}

func blockKey(b types.BlockID) string {
	if len(b.Hash) == 0 {
		return "nil"
	}
	return fmt.Sprintf("%X/%d/%X", []byte(b.Hash), b.PartSetHeader.Total, []byte(b.PartSetHeader.Hash))
}

func (m *monitor) notePrevote(node int, h int64, r int32, key string, addr []byte) {
	if m.recv[node] == nil {
		m.recv[node] = map[string]map[string]bool{}
	}
	k := fmt.Sprintf("%d/%d/%s", h, r, key)
	if m.recv[node][k] == nil {
		m.recv[node][k] = map[string]bool{}
	}
	m.recv[node][k][string(addr)] = true
}

// polkaFor reports whether the prevotes given to the node for (h, r, value) come from
// validators holding more than two thirds of the power.
func (m *monitor) polkaFor(node int, h int64, r int32, key string) bool {
	vals := m.vals[h]
	if vals == nil {
		return true // unknown set: cannot judge
	}
	total, got := new(big.Int), new(big.Int)
	set := m.recv[node][fmt.Sprintf("%d/%d/%s", h, r, key)]
	for _, v := range vals.Validators {
		total.Add(total, big.NewInt(v.VotingPower))
		if set[string(v.Address)] {
			got.Add(got, big.NewInt(v.VotingPower))
		}
	}
	return new(big.Int).Mul(got, big.NewInt(3)).Cmp(new(big.Int).Mul(total, big.NewInt(2))) > 0
}

// judgeSignatures applies the justification rules of C02 to the signatures released since
// the last step.
func (m *monitor) judgeSignatures(n *simNode) {
	e := m.s.env
	recs := m.signs[n.idx]
	from := m.signSeen[n.idx]
	m.signSeen[n.idx] = len(recs)
	if !e.Checking("C02") {
		return
	}
	for i := from; i < len(recs); i++ {
		rec := recs[i]
		if rec.dup {
			continue // judged when it was first released
		}
		switch {
		case rec.typ == int(tmproto.PrevoteType):
			m.notePrevote(n.idx, rec.h, rec.r, recKey(rec), n.addr)
			// R3: latest earlier round of this height with a precommit for a block
			var lockR int32 = -1
			lockB := ""
			for _, o := range recs[:i] {
				if o.h == rec.h && o.typ == int(tmproto.PrecommitType) && o.block != nilBlock && o.r < rec.r && o.r > lockR {
					lockR, lockB = o.r, o.block
				}
			}
			// votes are counted per block id (hash and part-set header): that is the identity of
			// what was precommitted (a faulty proposer can ship one block as two part sets)
			if lockR >= 0 && rec.block != lockB {
				justified := false
				for k := range m.recv[n.idx] {
					var kh int64
					var kr int32
					var kb string
					if _, err := fmt.Sscanf(k, "%d/%d/", &kh, &kr); err != nil {
						continue
					}
					kb = k[len(fmt.Sprintf("%d/%d/", kh, kr)):]
					if kh == rec.h && kr > lockR && normKey(kb) != lockB && m.polkaFor(n.idx, kh, kr, kb) {
						justified = true
					}
				}
				if !justified {
					sig := "prevote-against-lock"
					if lockInc(recs[:i], rec.h, lockR) != rec.inc && m.claims[fmt.Sprintf("%d/%d/%d/%s", n.idx, rec.h, lockR, lockB)] {
						// the lock was taken by an earlier incarnation on a polka that needed a vote
						// admitted through a peer's maj23 claim; claims are not in the WAL, so the
						// replay refuses that vote and cannot rebuild the lock (known finding)
						sig = "prevote-against-lock-after-crash-maj23-claim-not-in-wal"
					}
					if n.walPoisoned && lockInc(recs[:i], rec.h, lockR) != rec.inc {
						// the lock was taken by an earlier incarnation whose WAL records cannot be
						// replayed (known finding, see KNOWN_FINDINGS.txt)
						sig = "prevote-against-lock-after-endheight-marker-loss"
					}
					e.Report("C02", sig, "node %d precommitted %s in round %d of height %d and then prevoted %s in round %d without having been given a +2/3 prevote quorum for anything else in a round after %d", n.idx, short(lockB), lockR, rec.h, short(rec.block), rec.r, lockR)
				}
			}
			e.Count("probe.c02_prevote_judged")
		case rec.typ == int(tmproto.PrecommitType) && rec.block != nilBlock:
			if !m.polkaFor(n.idx, rec.h, rec.r, denorm(rec.block)) {
				e.Report("C02", "precommit-without-polka", "node %d precommitted %s in round %d of height %d without having been given prevotes for it from more than 2/3 of the power in that round", n.idx, short(rec.block), rec.r, rec.h)
			}
			if n.isAlive() {
				rs := n.cs.GetRoundState()
				holds := rs.Height > rec.h
				if rs.Height == rec.h {
					for _, b := range []*types.Block{rs.LockedBlock, rs.ProposalBlock, rs.ValidBlock} {
						if b != nil && fmt.Sprintf("%X", []byte(b.Hash())) == rec.block[:64] {
							holds = true
						}
					}
				}
				if !holds {
					e.Report("C02", "precommit-without-block", "node %d precommitted %s in round %d of height %d but does not hold that block", n.idx, short(rec.block), rec.r, rec.h)
				}
			}
			e.Count("probe.c02_precommit_judged")
		}
	}
}

const nilBlock = "/0/"

func recKey(r signRec) string { return denorm(r.block) }

// sign records render a nil block id as "/0/"; the delivery tally uses "nil".
func denorm(b string) string {
	if b == nilBlock {
		return "nil"
	}
	return b
}
func normKey(k string) string {
	if k == "nil" {
		return nilBlock
	}
	return k
}
func short(b string) string {
	if b == nilBlock || b == "nil" {
		return "nil"
	}
	if len(b) > 12 {
		return b[:12]
	}
	return b
}

// onWALWrite sees every record the state machine hands to its WAL.
func (s *sim) onWALWrite(n *simNode, msg cs.WALMessage, synced bool) {}

// onSigned sees every signature the node's key releases.
func (s *sim) onSigned(n *simNode, chainID string, v *tmproto.Vote, p *tmproto.Proposal) {
	m := s.mon
	m.mu.Lock()
	defer m.mu.Unlock()
	rec := signRec{inc: n.inc}
	if v != nil {
		rec.h, rec.r, rec.typ = v.Height, v.Round, int(v.Type)
		rec.block = fmt.Sprintf("%X/%d/%X", v.BlockID.Hash, v.BlockID.PartSetHeader.Total, v.BlockID.PartSetHeader.Hash)
		rec.ts, rec.sig = v.Timestamp.UnixNano(), fmt.Sprintf("%X", v.Signature)
	} else {
		rec.h, rec.r, rec.typ = p.Height, p.Round, 32
		rec.block = fmt.Sprintf("%X/%d/%X", p.BlockID.Hash, p.BlockID.PartSetHeader.Total, p.BlockID.PartSetHeader.Hash)
		rec.pol = p.PolRound
		rec.ts, rec.sig = p.Timestamp.UnixNano(), fmt.Sprintf("%X", p.Signature)
	}
	s.env.Count("probe.signed")
	if v != nil && len(v.BlockID.Hash) > 0 {
		bid := fmt.Sprintf("%x/%d/%x", v.BlockID.Hash, v.BlockID.PartSetHeader.Total, v.BlockID.PartSetHeader.Hash)
		if mut, bad := m.invalid[bid]; bad {
			s.env.Report("C06", "invalid-block-accepted", "node %d signed a %v for a block that differs from a valid one only in '%s' (height %d round %d)", n.idx, v.Type, mut, v.Height, v.Round)
		}
	}
	for _, o := range m.signs[n.idx] {
		if o.h != rec.h || o.r != rec.r || o.typ != rec.typ {
			continue
		}
		prop := "C04"
		if o.inc == rec.inc {
			prop = "C02"
		}
		if !s.env.Checking(prop) {
			if s.env.Checking("C02") {
				prop = "C02"
			} else if s.env.Checking("C04") {
				prop = "C04"
			}
		}
		if o.block != rec.block || o.pol != rec.pol {
			s.env.Report(prop, "conflicting-signature", "node %d signed two different messages for h=%d r=%d type=%d: %s (incarnation %d) and %s (incarnation %d)", n.idx, rec.h, rec.r, rec.typ, o.block, o.inc, rec.block, rec.inc)
		} else if o.ts != rec.ts || o.sig != rec.sig {
			s.env.Report(prop, "resigned-with-new-timestamp", "node %d released two signatures for h=%d r=%d type=%d differing in timestamp/signature (incarnations %d, %d): the earlier one must be reused", n.idx, rec.h, rec.r, rec.typ, o.inc, rec.inc)
		} else {
			s.env.Count("probe.signature_reused")
			rec.dup = true // the very same signed message released again (WAL replay, re-signing after a crash)
		}
	}
	m.signs[n.idx] = append(m.signs[n.idx], rec)
}

// afterStep runs the per-step invariants.
func (m *monitor) afterStep() {
	s := m.s
	e := s.env
	for _, n := range s.nodes {
		if n.bstore == nil {
			continue
		}
		n.mu.Lock()
		usable := n.alive && n.crashed == nil
		n.mu.Unlock()
		if !usable {
			continue
		}
		bh, base := n.bstore.Height(), n.bstore.Base()
		from := m.audited[n.idx] + 1
		if from < base {
			from = base
		}
		for h := from; h <= bh && h > 0; h++ {
			meta := n.bstore.LoadBlockMeta(h)
			if meta == nil {
				break
			}
			hash := meta.BlockID.Hash
			if d, ok := m.decided[h]; ok {
				if !bytes.Equal(d, hash) {
					e.Fail("C01", "disagreement", "height %d: node %d decided %X, node %d decided %X", h, m.decidedBy[h], d, n.idx, hash)
				}
			} else {
				m.decided[h] = append([]byte{}, hash...)
				m.decidedBy[h] = n.idx
				e.Count("probe.height_decided")
			}
			if e.Checking("C01") {
				m.checkCommitQuorum(n, h, meta)
			}
			if _, first := m.decidedBy[h]; first && m.decidedBy[h] == n.idx {
				m.checkDecidedBlock(n, h, meta)
			}
			m.audited[n.idx] = h
		}
		n.lastHeight = bh
		if n.cs != nil && n.isAlive() {
			rs := n.cs.GetRoundState()
			if m.vals[rs.Height] == nil && rs.Validators != nil {
				m.vals[rs.Height] = rs.Validators.Copy()
			}
			m.checkReplica(n)
			m.checkAssembled(n, rs)
			ck := int64(n.inc)<<40 | rs.Height
			if rs.Step == cstypes.RoundStepCommit {
				if m.inCommit == nil {
					m.inCommit = map[int]int64{}
				}
				if m.inCommit[n.idx] != ck && rs.ProposalBlock == nil {
					e.Count("probe.commit_step_without_block")
				}
				m.inCommit[n.idx] = ck
			} else if m.inCommit[n.idx] == ck {
				// knew the decision of this height, waits for the block - and moved to another round
				delete(m.inCommit, n.idx)
				e.Count("probe.left_commit_step_without_deciding")
			}
			if e.Checking("C18") && (m.auditAt[n.idx] != bh*1000+int64(n.inc)) {
				m.auditAt[n.idx] = bh*1000 + int64(n.inc)
				m.auditStores(n, "live")
			}
			e.State(n.idx, rs.Height-s.genDoc.InitialHeight, rs.Round, rs.Step, rs.LockedRound >= 0, rs.ValidRound >= 0, n.inc > 0)
		}
		if f := n.failureMsg(); f != "" && (e.Checking("C03") || e.Checking("C05")) {
			e.Fail(e.Prop, "consensus-failure", "node %d halted: %s", n.idx, f)
		} else if f != "" {
			e.Count("probe.consensus_failure")
		}
	}
	for _, n := range s.nodes {
		m.judgeSignatures(n)
	}
	for _, n := range s.nodes {
		m.judgeRejections(n)
	}
	if e.Checking("C05") {
		for _, n := range s.nodes {
			m.stepC05(n)
		}
	}
}

// judgeRejections (C06, "a block built by a correct proposer ... always passes this check"): a
// node whose prevote step declares the complete proposal block of round (h, r) invalid is wrong
// when that proposal was signed by a correct validator - nobody else can produce a proposal that
// SetProposal accepts for that round, and the parts are bound to it by their Merkle proofs.
func (m *monitor) judgeRejections(n *simNode) {
	n.mu.Lock()
	rjs := n.rejects
	n.rejects = nil
	n.mu.Unlock()
	e := m.s.env
	for _, rj := range rjs {
		e.Count("probe.proposal_block_rejected")
		if !e.Checking("C06") {
			continue
		}
		for _, p := range m.s.nodes {
			for _, rec := range m.signs[p.idx] {
				if rec.typ == 32 && rec.h == rj.h && rec.r == rj.r && !rec.dup {
					e.Count("probe.correct_proposal_rejected")
					sig := "correct-proposal-rejected:" + errClass(rj.err)
					if p.evReplayed && strings.Contains(rj.err, "evidence was already committed") {
						// known finding (consequence of C11 committed-still-pending-after-apply-crash)
						sig = "correct-proposal-rejected-committed-evidence-after-apply-crash"
					}
					outside := false
					if strings.Contains(rj.err, "not greater than last block time") {
						// known finding (WeightedMedian selects the entry below the middle of an odd-sized
						// multiset): only when the spec's median of the very commit in the refused block
						// would have been later than the previous block
						blk, lastVals := rj.blk, rj.lastVals
						prev := m.hdrs[rj.h-1]
						if blk != nil && blk.LastCommit != nil && lastVals != nil && prev != nil {
							var byzPow int64
							for _, val := range lastVals.Validators {
								if m.s.isByzAddr(val.Address) {
									byzPow += val.VotingPower
								}
							}
							if 3*byzPow >= lastVals.TotalVotingPower() {
								// validator updates have taken the faulty validators to a third of the power or
								// more: outside the fault model under which block time is defined
								outside = true
							}
							mt, below, ok := refMedianTime(blk.LastCommit, lastVals)
							if debugLog {
								fmt.Fprintf(os.Stderr, "TIMEREJ h=%d blk.Time=%v median=%v below=%v last=%v\n", rj.h, blk.Time, mt, below, prev.time)
								for i, cs := range blk.LastCommit.Signatures {
									_, v := lastVals.GetByIndex(int32(i))
									fmt.Fprintf(os.Stderr, "   sig %d flag=%d power=%d ts=%v byz=%v\n", i, cs.BlockIDFlag, v.VotingPower, cs.Timestamp, m.s.isByzAddr(v.Address))
								}
							}
							if ok && below.Equal(blk.Time) && !mt.Equal(below) && mt.After(prev.time) {
								sig = "correct-proposal-rejected:block-time-median-below-middle"
							}
						}
					}
					if outside {
						e.Count("probe.block_time_refusal_with_faulty_power_ge_third")
						continue
					}
					e.Fail("C06", sig, "node %d refused (prevoted nil for) the block that the correct validator %d proposed at height %d round %d: %s", n.idx, p.idx, rj.h, rj.r, rj.err)
				}
			}
		}
	}
}

// errClass keeps the words of a validation error up to the first digit or colon.
func errClass(s string) string {
	out := []rune{}
	for _, c := range s {
		if (c >= '0' && c <= '9') || c == ':' || c == '{' || len(out) >= 40 {
			break
		}
		if c == ' ' {
			c = '-'
		}
		out = append(out, c)
	}
	return strings.Trim(string(out), "-.")
}

// checkReplica: cross-replica determinism (C06). After the same height every correct node
// must hold byte-identical state; also after crash/restart/handshake replay and catch-up.
func (m *monitor) checkReplica(n *simNode) {
	e := m.s.env
	if !e.Checking("C06") {
		return
	}
	st := n.cs.GetState()
	h := st.LastBlockHeight
	if h == 0 || m.stateSeen[n.idx] == h {
		return
	}
	m.stateSeen[n.idx] = h
	b := st.Bytes()
	if ref, ok := m.stateBytes[h]; ok {
		if !bytes.Equal(ref, b) {
			e.Fail("C06", "replica-state-divergence", "after height %d node %d and node %d hold different states although they decided the same block (app hash %X vs state of first replica)", h, m.stateFrom[h], n.idx, st.AppHash)
		}
		e.Count("probe.replica_state_compared")
	} else {
		m.stateBytes[h] = b
		m.stateFrom[h] = n.idx
	}
}

// checkCommitQuorum: the commit the node stored for the block it decided must contain, in
// one round and for exactly that block id, valid signatures of distinct validators holding
// more than two thirds of the voting power of the validator set of that height.
func (m *monitor) checkCommitQuorum(n *simNode, h int64, meta *types.BlockMeta) {
	e := m.s.env
	var commit *types.Commit
	if h == n.bstore.Height() {
		commit = n.bstore.LoadSeenCommit(h)
	} else {
		commit = n.bstore.LoadBlockCommit(h)
	}
	if commit == nil {
		e.Fail("C01", "commit-missing", "node %d decided height %d but stored no commit for it", n.idx, h)
	}
	vals, err := n.sstore.LoadValidators(h)
	if err != nil {
		e.Fail("C01", "commit-valset", "node %d: validators of height %d unavailable: %v", n.idx, h, err)
	}
	if commit.Height != h || !commit.BlockID.Equals(meta.BlockID) {
		e.Fail("C01", "commit-wrong-block", "node %d height %d: stored commit is for %v at height %d, decided block is %v", n.idx, h, commit.BlockID, commit.Height, meta.BlockID)
	}
	total, got := new(big.Int), new(big.Int)
	for _, v := range vals.Validators {
		total.Add(total, big.NewInt(v.VotingPower))
	}
	seen := map[string]bool{}
	for i, sig := range commit.Signatures {
		if !sig.ForBlock() {
			continue
		}
		if i >= len(vals.Validators) {
			continue
		}
		val := vals.Validators[i]
		if !bytes.Equal(val.Address, sig.ValidatorAddress) || seen[string(val.Address)] {
			continue
		}
		vote := commit.GetVote(int32(i))
		if !val.PubKey.VerifySignature(types.VoteSignBytes(m.s.chainID, vote.ToProto()), sig.Signature) {
			continue
		}
		seen[string(val.Address)] = true
		got.Add(got, big.NewInt(val.VotingPower))
	}
	l, r := new(big.Int).Mul(got, big.NewInt(3)), new(big.Int).Mul(total, big.NewInt(2))
	if l.Cmp(r) <= 0 {
		e.Fail("C01", "commit-no-quorum", "node %d decided height %d with a commit carrying valid precommits for the block of only %v of %v voting power (round %d)", n.idx, h, got, total, commit.Round)
	}
	e.Count("probe.commit_quorum_checked")
}

// stepC05 advances the automaton over the node's consensus-connection journal.
func (m *monitor) stepC05(n *simNode) {
	e := m.s.env
	st := m.c05[n.idx]
	if st == nil {
		st = &c05state{}
		m.c05[n.idx] = st
	}
	j := n.app.Journal
	ih := m.s.genDoc.InitialHeight
	for ; st.pos < len(j); st.pos++ {
		c := j[st.pos]
		if c.Conn != "consensus" {
			continue
		}
		if st.inBlock && c.Inc != st.curInc {
			// a crash cut the block in progress; the application forgot it
			st.inBlock = false
			e.Count("probe.c05_block_cut_by_crash")
		}
		switch c.Name {
		case "InitChain":
			if st.last != 0 {
				e.Fail("C05", "initchain-after-commit", "node %d: InitChain although the application had committed height %d", n.idx, st.last)
			}
		case "BeginBlock":
			want := st.last + 1
			if st.last == 0 {
				want = ih
			}
			if st.inBlock {
				e.Fail("C05", "begin-inside-block", "node %d: BeginBlock(%d) while block %d is still being executed", n.idx, c.Height, st.curH)
			}
			if c.Height < want {
				e.Fail("C05", "block-reexecuted", "node %d: BeginBlock(%d) although the application already committed height %d", n.idx, c.Height, st.last)
			}
			if c.Height > want {
				e.Fail("C05", "height-skipped", "node %d: BeginBlock(%d) but the next height is %d", n.idx, c.Height, want)
			}
			st.inBlock, st.curH, st.curInc, st.curTxs, st.endSeen = true, c.Height, c.Inc, nil, false
		case "DeliverTx":
			if !st.inBlock || st.endSeen {
				e.Fail("C05", "delivertx-outside-block", "node %d: DeliverTx outside BeginBlock..EndBlock (height %d)", n.idx, c.Height)
			}
			st.curTxs = append(st.curTxs, c.Tx)
		case "EndBlock":
			if !st.inBlock || st.endSeen || c.Height != st.curH {
				e.Fail("C05", "endblock-misplaced", "node %d: EndBlock(%d) does not close block %d", n.idx, c.Height, st.curH)
			}
			st.endSeen = true
		case "Commit":
			if !st.inBlock || !st.endSeen {
				e.Fail("C05", "commit-misplaced", "node %d: Commit without a complete BeginBlock..EndBlock sequence", n.idx)
			}
			// the transactions executed must be the decided block's, in block order
			if blk := m.blockAt(st.curH); blk != nil {
				if len(blk.Txs) != len(st.curTxs) {
					e.Fail("C05", "txs-mismatch", "node %d height %d: application executed %d txs, block has %d", n.idx, st.curH, len(st.curTxs), len(blk.Txs))
				}
				for i := range blk.Txs {
					if string(blk.Txs[i]) != st.curTxs[i] {
						e.Fail("C05", "txs-mismatch", "node %d height %d: tx %d executed out of block order", n.idx, st.curH, i)
					}
				}
			}
			st.last, st.inBlock = st.curH, false
			e.Count("probe.c05_block_committed")
		}
	}
}

// blockAt finds the decided block of height h in any live node's store.
func (m *monitor) blockAt(h int64) *types.Block {
	for _, n := range m.s.nodes {
		if n.bstore != nil && n.isAlive() && h >= n.bstore.Base() && h <= n.bstore.Height() {
			if b := n.bstore.LoadBlock(h); b != nil {
				return b
			}
		}
	}
	return nil
}

func (m *monitor) finish() {
	m.afterStep()
}

var _ simapp.Call

// checkDecidedBlock: per decided block (once): size limit (C06), evidence rules (C11).
func (m *monitor) checkDecidedBlock(n *simNode, h int64, meta *types.BlockMeta) {
	e := m.s.env
	blk := n.bstore.LoadBlock(h)
	if blk == nil {
		return
	}
	if e.Checking("C06") {
		m.checkDecidedHeader(n, h, blk, meta)
		if params, err := n.sstore.LoadConsensusParams(h); err == nil && params.Block.MaxBytes > 0 {
			if int64(meta.BlockSize) > params.Block.MaxBytes {
				e.Fail("C06", "block-over-size-limit", "decided block %d is %d bytes, the limit in force is %d", h, meta.BlockSize, params.Block.MaxBytes)
			}
		}
	}
	if e.Checking("C11") {
		seen := map[string]bool{}
		for _, ev := range blk.Evidence.Evidence {
			k := fmt.Sprintf("%X", ev.Hash())
			if seen[k] {
				e.Fail("C11", "evidence-twice-in-block", "block %d carries evidence %s twice", h, k[:12])
			}
			seen[k] = true
			if prev, ok := m.evCommitted[k]; ok && prev != h {
				e.Fail("C11", "evidence-in-two-blocks", "evidence %s is committed in block %d and again in block %d", k[:12], prev, h)
			}
			m.evCommitted[k] = h
			if dve, ok := ev.(*types.DuplicateVoteEvidence); ok {
				genuine := false
				for _, b := range m.s.byz {
					if bytes.Equal(b.addr, dve.VoteA.ValidatorAddress) {
						genuine = true
					}
				}
				if !genuine || dve.VoteA.BlockID.Equals(dve.VoteB.BlockID) || dve.VoteA.Height != dve.VoteB.Height || dve.VoteA.Round != dve.VoteB.Round || dve.VoteA.Type != dve.VoteB.Type || !bytes.Equal(dve.VoteA.ValidatorAddress, dve.VoteB.ValidatorAddress) {
					e.Fail("C11", "bogus-evidence-committed", "block %d carries duplicate-vote evidence against %X that does not show two conflicting votes of a validator that equivocated", h, dve.VoteA.ValidatorAddress)
				}
			}
			e.Count("probe.evidence_committed")
		}
	}
}

// auditStores is the C18 audit: everything between the block store's base and height can
// be loaded and agrees with itself, and the state store can produce the validator set and
// consensus parameters of every height in that range (and of the next height).
func (m *monitor) auditStores(n *simNode, ctx string) {
	e := m.s.env
	bs, ss := n.bstore, n.sstore
	base, height := bs.Base(), bs.Height()
	if height == 0 {
		return
	}
	if base <= 0 || base > height {
		e.Fail("C18", "bad-range", "%s: node %d block store reports base %d height %d", ctx, n.idx, base, height)
	}
	for h := base; h <= height; h++ {
		meta := bs.LoadBlockMeta(h)
		if meta == nil {
			e.Fail("C18", "meta-missing", "%s: node %d: no block meta at height %d (base %d, height %d)", ctx, n.idx, h, base, height)
		}
		blk := bs.LoadBlock(h)
		if blk == nil {
			e.Fail("C18", "block-missing", "%s: node %d: block %d cannot be loaded (base %d, height %d)", ctx, n.idx, h, base, height)
		}
		if !bytes.Equal(blk.Hash(), meta.BlockID.Hash) {
			e.Fail("C18", "block-hash-mismatch", "%s: node %d: block %d hashes to %X, its meta says %X", ctx, n.idx, h, blk.Hash(), meta.BlockID.Hash)
		}
		for i := 0; i < int(meta.BlockID.PartSetHeader.Total); i++ {
			if bs.LoadBlockPart(h, i) == nil {
				e.Fail("C18", "part-missing", "%s: node %d: part %d of block %d missing", ctx, n.idx, i, h)
			}
		}
		if byHash := bs.LoadBlockByHash(meta.BlockID.Hash); byHash == nil || byHash.Height != h {
			e.Fail("C18", "hash-index-missing", "%s: node %d: block %d cannot be found by its hash", ctx, n.idx, h)
		}
		var commit *types.Commit
		if h == height {
			commit = bs.LoadSeenCommit(h)
		} else {
			commit = bs.LoadBlockCommit(h)
		}
		if commit == nil {
			e.Fail("C18", "commit-missing", "%s: node %d: no commit for block %d (tip %d)", ctx, n.idx, h, height)
		}
		if commit.Height != h || !commit.BlockID.Equals(meta.BlockID) {
			e.Fail("C18", "commit-mismatch", "%s: node %d: commit stored for block %d is for %v at height %d", ctx, n.idx, h, commit.BlockID, commit.Height)
		}
		vals, err := ss.LoadValidators(h)
		if err != nil {
			e.Fail("C18", "validators-missing", "%s: node %d: validator set of retained height %d unavailable: %v", ctx, n.idx, h, err)
		}
		if !bytes.Equal(vals.Hash(), blk.ValidatorsHash) {
			e.Fail("C18", "validators-wrong", "%s: node %d: validator set loaded for height %d does not hash to the block's validators hash", ctx, n.idx, h)
		}
		params, err := ss.LoadConsensusParams(h)
		if err != nil {
			e.Fail("C18", "params-missing", "%s: node %d: consensus params of retained height %d unavailable: %v", ctx, n.idx, h, err)
		}
		if !bytes.Equal(types.HashConsensusParams(params), blk.ConsensusHash) {
			e.Fail("C18", "params-wrong", "%s: node %d: consensus params loaded for height %d do not hash to the block's consensus hash", ctx, n.idx, h)
		}
	}
	// the state store may be one block behind the block store only while a commit is in
	// flight; at quiescence of a live node it has caught up, and the next height's set exists
	if st, err := ss.Load(); err == nil && st.LastBlockHeight == height {
		if _, err := ss.LoadValidators(height + 1); err != nil {
			e.Fail("C18", "validators-missing", "%s: node %d: validator set of the next height %d unavailable: %v", ctx, n.idx, height+1, err)
		}
	}
	if base > 1 {
		e.Count("probe.audit_pruned_store")
		left := bs.LoadBlock(base-1) != nil || bs.LoadBlockMeta(base-1) != nil
		if left && base <= n.leakFloor {
			e.Count("probe.garbage_below_base_after_interrupted_prune")
		} else if left {
			e.Fail("C18", "pruned-still-loadable", "%s: node %d: block %d is below the base %d but still loadable", ctx, n.idx, base-1, base)
		}
	}
	e.Count("probe.store_audit")
}

// lockInc returns the incarnation that signed the precommit of round r at height h.
func lockInc(recs []signRec, h int64, r int32) int {
	for _, o := range recs {
		if o.h == h && o.r == r && o.typ == int(tmproto.PrecommitType) && o.block != nilBlock {
			return o.inc
		}
	}
	return -1
}

func (s *sim) isByzAddr(a []byte) bool {
	for _, b := range s.byz {
		if bytes.Equal(b.addr, a) {
			return true
		}
	}
	return false
}
