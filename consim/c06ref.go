package consim

import (
	"bytes"
	"crypto/sha256"
	"encoding/binary"
	"encoding/hex"
	"fmt"
	"sort"
	"time"

	"github.com/tendermint/tendermint/types"
)

// Reference derivations of header fields (C06: "every header field equals the value derived
// from its own state"). Written from the spec (spec/core/data_structures.md, spec/consensus/
// bft-time.md, RFC 6962), not from the functions that build or validate blocks: proposer and
// validators share those functions, so a defect in them is invisible to cross-replica checks.

// rfc6962 root over leaves (empty tree = hash of the empty string).
func refMerkle(leaves [][]byte) []byte {
	switch len(leaves) {
	case 0:
		h := sha256.Sum256(nil)
		return h[:]
	case 1:
		h := sha256.Sum256(append([]byte{0}, leaves[0]...))
		return h[:]
	}
	k := 1
	for k*2 < len(leaves) {
		k *= 2
	}
	l, r := refMerkle(leaves[:k]), refMerkle(leaves[k:])
	h := sha256.Sum256(append(append([]byte{1}, l...), r...))
	return h[:]
}

func pbVarint(field int, v uint64) []byte {
	if v == 0 {
		return nil
	}
	b := binary.AppendUvarint(nil, uint64(field<<3|0))
	return binary.AppendUvarint(b, v)
}

func pbBytes(field int, v []byte) []byte {
	if len(v) == 0 {
		return nil
	}
	b := binary.AppendUvarint(nil, uint64(field<<3|2))
	b = binary.AppendUvarint(b, uint64(len(v)))
	return append(b, v...)
}

// refResultsHash: Merkle root over the deterministic fields (code=1, data=2, gas_wanted=5,
// gas_used=6) of the DeliverTx responses, proto-encoded.
func refResultsHash(codes []uint32, datas [][]byte) []byte {
	var leaves [][]byte
	for i := range codes {
		var b []byte
		b = append(b, pbVarint(1, uint64(codes[i]))...)
		b = append(b, pbBytes(2, datas[i])...)
		b = append(b, pbVarint(5, 1)...) // the recording app reports gas wanted/used 1
		b = append(b, pbVarint(6, 1)...)
		leaves = append(leaves, b)
	}
	return refMerkle(leaves)
}

// refMedianTime: the voting-power-weighted median of the timestamps of the non-absent
// entries of the commit (BFT time, spec/consensus/bft-time.md: "the median of the Vote.Time
// fields, where the value of Vote.Time is counted a number of times proportional to the voting
// power"): the middle element of that multiset, the lower of the two middle ones when its size
// is even. The second result is the element one position lower when the size is odd (what an
// integer "total/2" threshold selects), used only to classify a mismatch.
func refMedianTime(commit *types.Commit, vals *types.ValidatorSet) (time.Time, time.Time, bool) {
	type wt struct {
		t time.Time
		w int64
	}
	var ws []wt
	var total int64
	for _, sig := range commit.Signatures {
		if sig.BlockIDFlag == types.BlockIDFlagAbsent {
			continue
		}
		for _, v := range vals.Validators {
			if bytes.Equal(v.Address, sig.ValidatorAddress) {
				ws = append(ws, wt{sig.Timestamp, v.VotingPower})
				total += v.VotingPower
			}
		}
	}
	if len(ws) == 0 {
		return time.Time{}, time.Time{}, false
	}
	sort.SliceStable(ws, func(i, j int) bool { return ws[i].t.Before(ws[j].t) })
	at := func(pos int64) time.Time { // pos: 1-based position in the multiset
		if pos < 1 {
			pos = 1
		}
		var cum int64
		for _, x := range ws {
			cum += x.w
			if cum >= pos {
				return x.t
			}
		}
		return ws[len(ws)-1].t
	}
	return at((total + 1) / 2), at(total / 2), true
}

// checkDecidedHeader compares the header of the block decided at h with values derived
// from the previous decided block, the genesis document and the recording application.
func (m *monitor) checkDecidedHeader(n *simNode, h int64, blk *types.Block, meta *types.BlockMeta) {
	e := m.s.env
	fail := func(field, format string, a ...any) {
		e.Fail("C06", "header-field-"+field, "decided block %d (first decided by node %d): "+format, append([]any{h, n.idx}, a...)...)
	}
	gd := m.s.genDoc
	if blk.ChainID != gd.ChainID {
		fail("chainid", "chain id %q, genesis says %q", blk.ChainID, gd.ChainID)
	}
	if blk.Height != h {
		fail("height", "header height %d", blk.Height)
	}
	// data hash: Merkle root over the transaction hashes
	var txh [][]byte
	for _, tx := range blk.Data.Txs {
		s := sha256.Sum256(tx)
		txh = append(txh, s[:])
	}
	if !bytes.Equal(blk.DataHash, refMerkle(txh)) {
		fail("datahash", "data hash %X is not the Merkle root of its %d transactions", blk.DataHash, len(txh))
	}
	vals, err := n.sstore.LoadValidators(h)
	if err == nil && !vals.HasAddress(blk.ProposerAddress) {
		fail("proposer", "proposer %X is not a member of the validator set of that height", blk.ProposerAddress)
	}
	first := h == gd.InitialHeight
	prev := m.hdrs[h-1]
	switch {
	case first:
		if !blk.Time.Equal(gd.GenesisTime) {
			fail("time", "first block time %v, genesis time %v", blk.Time, gd.GenesisTime)
		}
		if !blk.LastBlockID.IsZero() {
			fail("lastblockid", "first block names a previous block")
		}
	case prev != nil:
		if !blk.LastBlockID.Equals(prev.id) {
			fail("lastblockid", "previous block id %v, decided block %d has id %v", blk.LastBlockID, h-1, prev.id)
		}
		if !blk.Time.After(prev.time) {
			fail("time", "block time %v is not after the previous block's %v", blk.Time, prev.time)
		}
		if pv, err := n.sstore.LoadValidators(h - 1); err == nil {
			if mt, below, ok := refMedianTime(blk.LastCommit, pv); ok && !mt.Equal(blk.Time) {
				if below.Equal(blk.Time) {
					// known finding: the element below the middle one of an odd-sized multiset
					fail("time-median-below-middle", "block time %v is the entry below the middle of the previous commit's weighted timestamps (odd total power); the weighted median is %v", blk.Time, mt)
				} else {
					fail("time", "block time %v, weighted median of the previous commit is %v", blk.Time, mt)
				}
			}
		}
		if !bytes.Equal(blk.ValidatorsHash, prev.nextValsHash) {
			fail("valhash", "validators hash differs from the previous block's next-validators hash")
		}
	}
	// application hash and results hash from the deciding node's application journal
	if !first || true {
		var appHash string
		var codes []uint32
		var datas [][]byte
		var haveBlock bool
		for _, c := range n.app.Journal {
			if c.Conn != "consensus" {
				continue
			}
			switch c.Name {
			case "InitChain":
				if first {
					appHash = c.Hash
				}
			case "BeginBlock":
				if c.Height == h-1 {
					codes, datas, haveBlock = nil, nil, true
				}
			case "DeliverTx":
				if c.Height == h-1 {
					codes = append(codes, c.Code)
					datas = append(datas, []byte(fmt.Sprintf("r%d", len(c.Tx))))
				}
			case "Commit":
				if c.Height == h-1 {
					appHash = c.Hash
				}
			}
		}
		if appHash != "" && hex.EncodeToString(blk.AppHash) != appHash {
			fail("apphash", "app hash %X, the application returned %s for the state before this block", blk.AppHash, appHash)
		}
		if first {
			if !bytes.Equal(blk.LastResultsHash, refMerkle(nil)) {
				fail("resultshash", "first block's last-results hash is not the empty root")
			}
		} else if haveBlock && !bytes.Equal(blk.LastResultsHash, refResultsHash(codes, datas)) {
			fail("resultshash", "last-results hash %X is not the root over the %d results of block %d", blk.LastResultsHash, len(codes), h-1)
		}
	}
	m.hdrs[h] = &hdrRec{id: meta.BlockID, time: blk.Time, nextValsHash: append([]byte{}, blk.NextValidatorsHash...)}
	e.Count("probe.header_reference_checked")
}

type hdrRec struct {
	id           types.BlockID
	time         time.Time
	nextValsHash []byte
}
