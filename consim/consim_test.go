package consim

import (
	"os"
	"testing"

	"verif/simcore"
)

func TestMain(m *testing.M) {
	simcore.InitProcess()
	os.Exit(m.Run())
}

func TestSim(t *testing.T) { simcore.Main(t, harness) }

var harness = &simcore.Harness{
	Name:   "consim",
	Props:  []string{"C01", "C02", "C03", "C04", "C05", "C06", "C08", "C10", "C11", "C15", "C18"},
	Config: genConfig,
	New:    newSim,
	MaxOps: 9000,
	Real: []string{"node.NewNode wiring incl. genesis/state loading and consensus.Handshaker", "consensus.State (receiveRoutine, handleMsg, enterX, finalizeCommit, catchupReplay, WAL repair)",
		"consensus.BaseWAL + autofile on tmpfs files", "state.BlockExecutor, state.Store, store.BlockStore (over simdisk.CrashDB)", "privval.FilePV + libs/tempfile on tmpfs files",
		"mempool v0/v1, evidence.Pool, types.EventBus, txindex IndexerService + kv indexers", "proxy.AppConns with local ABCI clients"},
	Stub: []string{"consensus reactor / p2p / mempool+evidence reactors: replaced by simulated state-based gossip", "consensus timeout ticker: simulator-controlled (TimeoutTicker interface)",
		"goleveldb: MemDB + journal (simdisk.CrashDB)", "application: recording app (simapp.RecApp)", "Byzantine validators: simulator-held keys"},
	Assumptions: []string{"DB model: synced writes survive, a prefix of unsynced write groups survives, batches atomic", "WAL disk model as in walsim", "priv-validator state file replaced atomically (tempfile + rename)"},
}
