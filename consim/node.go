// Package consim: whole-node consensus network simulation (Engine A of DESIGN.md).
// n simulated nodes, each built by the real node.NewNode over simulated storage
// (simdisk.CrashDB, real WAL and priv-validator files on a tmpfs scratch root), a
// recording application, a simulated timeout ticker and simulated, state-based gossip
// instead of the p2p reactors. Crash = runtime.Goexit at a persistence point.
package consim

import (
	"bytes"
	"fmt"
	"io"
	"os"
	"path/filepath"
	"runtime"
	"sort"
	"strings"
	"sync"
	"time"

	cfg "github.com/tendermint/tendermint/config"
	cs "github.com/tendermint/tendermint/consensus"
	cstypes "github.com/tendermint/tendermint/consensus/types"
	"github.com/tendermint/tendermint/crypto"
	"github.com/tendermint/tendermint/crypto/ed25519"
	"github.com/tendermint/tendermint/libs/log"
	nd "github.com/tendermint/tendermint/node"
	"github.com/tendermint/tendermint/p2p"
	"github.com/tendermint/tendermint/privval"
	tmproto "github.com/tendermint/tendermint/proto/tendermint/types"
	sm "github.com/tendermint/tendermint/state"
	"github.com/tendermint/tendermint/store"
	"github.com/tendermint/tendermint/types"
	dbm "github.com/tendermint/tm-db"

	"verif/simapp"
	"verif/simcore"
	"verif/simdisk"
)

// ---------------------------------------------------------------- logger

// simLogger discards everything except consensus failures, which it records.
type simLogger struct {
	n  *simNode
	kv []interface{}
}

// reject is one "ProposalBlock is invalid" verdict of a node's prevote step.
type reject struct {
	h        int64
	r        int32
	err      string
	blk      *types.Block        // the refused block and the validator set of its last commit, read on
	lastVals *types.ValidatorSet // the consensus goroutine at the moment of the refusal
}

var debugLog = os.Getenv("CONSIM_DEBUG") != ""

func (l simLogger) Debug(msg string, kv ...interface{}) {
	if debugLog && os.Getenv("CONSIM_DEBUG") == "2" {
		fmt.Fprintln(os.Stderr, "D", l.n.name, msg, fmt.Sprint(kv...))
	}
}
func (l simLogger) Info(msg string, kv ...interface{}) {
	if debugLog {
		fmt.Fprintln(os.Stderr, "I", l.n.name, msg, fmt.Sprint(kv...))
	}
}
func (l simLogger) Error(msg string, kv ...interface{}) {
	if debugLog {
		fmt.Fprintln(os.Stderr, "E", l.n.name, msg, fmt.Sprint(kv...))
	}
	if msg == "prevote step: ProposalBlock is invalid" {
		// consensus/state.go defaultDoPrevote: the node refuses the complete proposal block of this
		// round (its logger carries height and round)
		rj := reject{h: -1, r: -1}
		all := append(append([]interface{}{}, l.kv...), kv...)
		for i := 0; i+1 < len(all); i += 2 {
			switch k, _ := all[i].(string); k {
			case "height":
				if v, ok := all[i+1].(int64); ok {
					rj.h = v
				}
			case "round":
				if v, ok := all[i+1].(int32); ok {
					rj.r = v
				}
			case "err":
				rj.err = fmt.Sprint(all[i+1])
			}
		}
		if cs := l.n.cs; cs != nil {
			// same goroutine as the state machine (the log call comes from defaultDoPrevote)
			rj.blk, rj.lastVals = cs.ProposalBlock, cs.LastValidators
		}
		l.n.mu.Lock()
		l.n.rejects = append(l.n.rejects, rj)
		l.n.mu.Unlock()
	}
	if strings.HasPrefix(msg, "CONSENSUS FAILURE") {
		s := ""
		for i := 0; i+1 < len(kv); i += 2 {
			if k, _ := kv[i].(string); k == "err" {
				s = fmt.Sprint(kv[i+1])
			}
		}
		l.n.mu.Lock()
		if l.n.failure == "" {
			l.n.failure = s
		}
		l.n.mu.Unlock()
	}
}
func (l simLogger) With(kv ...interface{}) log.Logger {
	return simLogger{n: l.n, kv: append(append([]interface{}{}, l.kv...), kv...)}
}

// ---------------------------------------------------------------- ticker

// simTicker implements consensus.TimeoutTicker. It keeps the shipped ticker's rule
// (a timeout for an earlier height/round/step than the pending one is ignored) and hands
// the pending timeout to the simulator, which decides when it fires.
type simTicker struct {
	mu     sync.Mutex
	ch     chan cs.VerifTimeoutInfo
	ref    cs.VerifTimeoutInfo // last accepted schedule (the shipped ticker's `ti`)
	armed  bool
	setAt  time.Time // fake time at which the pending timeout was scheduled
	nSched int
}

func newSimTicker() *simTicker { return &simTicker{ch: make(chan cs.VerifTimeoutInfo, 10)} }

func (t *simTicker) Start() error                     { return nil }
func (t *simTicker) Stop() error                      { return nil }
func (t *simTicker) SetLogger(log.Logger)             {}
func (t *simTicker) Chan() <-chan cs.VerifTimeoutInfo { return t.ch }

func (t *simTicker) ScheduleTimeout(ti cs.VerifTimeoutInfo) {
	t.mu.Lock()
	defer t.mu.Unlock()
	p := t.ref
	// same rule as timeoutTicker.timeoutRoutine: ignore tickers for old height/round/step
	if ti.Height < p.Height {
		return
	} else if ti.Height == p.Height {
		if ti.Round < p.Round {
			return
		} else if ti.Round == p.Round {
			if p.Step > 0 && ti.Step <= p.Step {
				return
			}
		}
	}
	t.ref = ti
	t.armed = true
	t.setAt = time.Now()
	t.nSched++
}

// Pending returns the timeout waiting to fire, if any.
func (t *simTicker) Pending() (cs.VerifTimeoutInfo, time.Time, bool) {
	t.mu.Lock()
	defer t.mu.Unlock()
	return t.ref, t.setAt, t.armed
}

// Fire delivers the pending timeout to the state machine.
func (t *simTicker) Fire() bool {
	t.mu.Lock()
	if !t.armed {
		t.mu.Unlock()
		return false
	}
	ti := t.ref
	t.armed = false
	t.mu.Unlock()
	t.ch <- ti
	return true
}

// ---------------------------------------------------------------- WAL wrapper

// walWrap wraps the real BaseWAL: persistence points, tracking of the acknowledged-synced
// length of the head file, and the crash image of the WAL directory.
type walWrap struct {
	n          *simNode
	inner      cs.WAL
	path       string // head file
	headSynced int64
	headIdx    int
	syncs      int
}

func (w *walWrap) headSize() int64 {
	st, err := os.Stat(w.path)
	if err != nil {
		return 0
	}
	return st.Size()
}

func (w *walWrap) groupIdx() int {
	if bw, ok := w.inner.(*cs.BaseWAL); ok {
		return bw.Group().MaxIndex()
	}
	return 0
}

func (w *walWrap) noteSync() {
	sz := w.headSize()
	idx := w.groupIdx()
	w.n.mu.Lock()
	w.headSynced = sz
	w.headIdx = idx
	w.syncs++
	w.n.mu.Unlock()
}

// syncedLen returns the acknowledged-synced length of the CURRENT head file (0 if the head
// was rotated since the last acknowledged sync: the rotated file is complete and synced, the
// new head holds nothing acknowledged yet).
func (w *walWrap) syncedLen() int64 {
	idx := w.groupIdx()
	w.n.mu.Lock()
	defer w.n.mu.Unlock()
	if idx != w.headIdx {
		return 0
	}
	return w.headSynced
}

func (w *walWrap) Write(m cs.WALMessage) error {
	if w.n.ctl.Dead() {
		return nil
	}
	w.n.point("wal:Write:pre")
	if w.n.ctl.Dead() {
		return nil
	}
	err := w.inner.Write(m)
	w.n.sim.onWALWrite(w.n, m, false)
	w.n.point("wal:Write:post")
	return err
}

func (w *walWrap) WriteSync(m cs.WALMessage) error {
	if w.n.ctl.Dead() {
		return nil
	}
	w.n.point("wal:WriteSync:pre")
	if w.n.ctl.Dead() {
		return nil
	}
	if err := w.inner.Write(m); err != nil {
		return err
	}
	err := w.inner.FlushAndSync()
	// the bytes have reached the file but the fsync is not yet acknowledged: a crash here
	// may leave any prefix of the record
	w.n.point("wal:WriteSync:mid")
	if w.n.ctl.Dead() {
		return nil
	}
	if err == nil {
		w.noteSync()
	}
	w.n.sim.onWALWrite(w.n, m, true)
	w.n.point("wal:WriteSync:post")
	return err
}

func (w *walWrap) FlushAndSync() error {
	if w.n.ctl.Dead() {
		return nil
	}
	w.n.point("wal:FlushAndSync:pre")
	if w.n.ctl.Dead() {
		return nil
	}
	err := w.inner.FlushAndSync()
	w.n.point("wal:FlushAndSync:mid")
	if w.n.ctl.Dead() {
		return nil
	}
	if err == nil {
		w.noteSync()
	}
	return err
}

func (w *walWrap) SearchForEndHeight(h int64, o *cs.WALSearchOptions) (rd io.ReadCloser, found bool, err error) {
	return w.inner.SearchForEndHeight(h, o)
}

func (w *walWrap) Start() error { return w.inner.Start() }
func (w *walWrap) Stop() error {
	if w.n.ctl.Dead() {
		return nil // the simulator tears the inner WAL down itself
	}
	return w.inner.Stop()
}
func (w *walWrap) Wait() {
	if w.n.ctl.Dead() {
		return
	}
	w.inner.Wait()
}

// ---------------------------------------------------------------- signer wrapper

// pvWrap wraps the real FilePV: persistence points and the record of every released
// signature.
type pvWrap struct {
	n     *simNode
	inner *privval.FilePV
}

func (p *pvWrap) GetPubKey() (crypto.PubKey, error) { return p.inner.GetPubKey() }

func (p *pvWrap) SignVote(chainID string, vote *tmproto.Vote) error {
	if p.n.ctl.Dead() {
		return fmt.Errorf("node is dead")
	}
	p.n.point("pv:SignVote:pre")
	err := p.inner.SignVote(chainID, vote)
	if p.n.ctl.Dead() {
		return fmt.Errorf("node is dead")
	}
	if err == nil {
		p.n.sim.onSigned(p.n, chainID, vote, nil)
	} else {
		p.n.sim.env.Count("probe.sign_refused")
		p.n.sim.noteRefusal(p.n, vote.Height, vote.Round, int(vote.Type))
	}
	p.n.point("pv:SignVote:post")
	return err
}

func (p *pvWrap) SignProposal(chainID string, prop *tmproto.Proposal) error {
	if p.n.ctl.Dead() {
		return fmt.Errorf("node is dead")
	}
	p.n.point("pv:SignProposal:pre")
	err := p.inner.SignProposal(chainID, prop)
	if p.n.ctl.Dead() {
		return fmt.Errorf("node is dead")
	}
	if err == nil {
		p.n.sim.onSigned(p.n, chainID, nil, prop)
	} else {
		p.n.sim.env.Count("probe.sign_refused")
		p.n.sim.noteRefusal(p.n, prop.Height, prop.Round, 0)
	}
	p.n.point("pv:SignProposal:post")
	return err
}

// ---------------------------------------------------------------- node

type crashInfo struct {
	label string
	point int
	wal   map[string][]byte // WAL directory as the OS had it at the crash instant
	hs    int64             // acknowledged-synced length of the head at that instant
}

// simNode is one simulated node: its durable image (DB images, WAL and key files under
// root, application) and the current incarnation built from it.
type simNode struct {
	sim   *sim
	idx   int
	name  string
	key   crypto.PrivKey
	addr  types.Address
	peer  p2p.ID
	root  string
	app   *simapp.RecApp
	image map[string]map[string][]byte // DB name -> durable image

	mu      sync.Mutex
	inc     int
	alive   bool
	failure string // consensus failure or start-up error of this incarnation
	exited  string // tmos.Exit message
	ctl     *simdisk.Ctl
	dbs     map[string]*simdisk.CrashDB
	nd      *nd.Node
	cs      *cs.State
	ticker  *simTicker
	wal     *walWrap
	pv      *pvWrap
	bstore  *store.BlockStore
	sstore  sm.Store

	crashAt        int // persistence point index at which to crash (0 = not armed)
	crashed        *crashInfo
	starting       bool
	replayRefused  []refusal // signatures refused during the current WAL replay
	skew           time.Duration
	lastHeight     int64
	startFails     int
	bootHeight     int64
	sweepCrashAt   int
	evReplayed     bool     // some incarnation's handshake applied a block that carries evidence
	rejects        []reject // proposal blocks this node's prevote step found invalid (drained by the monitor)
	walPoisoned    bool
	tearIdx        int  // 1 + index of the head file in which a start left a torn tail unrepaired (0: none)
	markerCut      bool // a later repair cut that head at the old tear, removing the #ENDHEIGHT marker behind it
	poisonIdx      int
	leakFloor      int64      // base of the block store when this incarnation booted after an earlier one
	noMarkerAtBoot bool       // this incarnation started although its WAL lacked the marker of the previous height
	repairedAtBoot bool       // this incarnation went through OnStart's WAL repair (which replays the WAL twice)
	durable        *rsSummary // round state as of the last event that ended with an acknowledged WAL sync
}

func (n *simNode) point(label string) { n.ctl.Point(label) }

func peerID(i int) p2p.ID { return p2p.ID(fmt.Sprintf("%040x", i+1)) }

func newSimNode(s *sim, idx int, validator bool) *simNode {
	n := &simNode{sim: s, idx: idx, name: fmt.Sprintf("n%d", idx), peer: peerID(idx), image: map[string]map[string][]byte{}}
	n.key = ed25519.GenPrivKeyFromSecret([]byte(fmt.Sprintf("consim-node-%d", idx)))
	n.addr = n.key.PubKey().Address()
	n.root = filepath.Join(s.env.MkScratch(), n.name)
	os.MkdirAll(filepath.Join(n.root, "config"), 0o700)
	os.MkdirAll(filepath.Join(n.root, "data"), 0o700)
	n.app = simapp.NewRecApp(s.cfg.Int("hash_len"))
	n.app.Point = func(label string) { n.point(label) }
	// the key file and an empty sign-state file, as `tendermint init` would leave them
	pv := privval.NewFilePV(n.key, n.keyFile(), n.stateFile())
	pv.Save()
	return n
}

func (n *simNode) keyFile() string { return filepath.Join(n.root, "config", "priv_validator_key.json") }
func (n *simNode) stateFile() string {
	return filepath.Join(n.root, "data", "priv_validator_state.json")
}
func (n *simNode) walFile() string { return filepath.Join(n.root, "data", "cs.wal", "wal") }

func (n *simNode) config() *cfg.Config {
	c := cfg.TestConfig()
	c.SetRoot(n.root)
	s := n.sim
	c.Consensus.WalPath = filepath.Join("data", "cs.wal", "wal")
	c.Consensus.SkipTimeoutCommit = s.cfg.Bool("skip_timeout_commit")
	c.Consensus.CreateEmptyBlocks = true
	c.Consensus.DoubleSignCheckHeight = 0
	c.Consensus.TimeoutPropose = 400 * time.Millisecond
	c.Consensus.TimeoutProposeDelta = 100 * time.Millisecond
	c.Consensus.TimeoutPrevote = 200 * time.Millisecond
	c.Consensus.TimeoutPrevoteDelta = 100 * time.Millisecond
	c.Consensus.TimeoutPrecommit = 200 * time.Millisecond
	c.Consensus.TimeoutPrecommitDelta = 100 * time.Millisecond
	c.Consensus.TimeoutCommit = 100 * time.Millisecond
	c.Mempool.Version = s.cfg.Str("mempool")
	c.Mempool.Size = 50
	c.Mempool.CacheSize = 100
	c.TxIndex.Indexer = "kv"
	c.P2P.PexReactor = false
	c.StateSync.Enable = false
	c.FastSyncMode = false
	c.BaseConfig.DBBackend = "memdb"
	c.Instrumentation.Prometheus = false
	return c
}

func (n *simNode) dbProvider(ctx *nd.DBContext) (dbm.DB, error) {
	ctl := n.ctl
	if ctx.ID == "tx_index" {
		// the indexer service writes from its own goroutine, concurrently with the consensus
		// goroutine: it gets its own point counter so that the numbering of the node's
		// persistence points stays deterministic.
		ctl = n.ixCtl()
	}
	db := simdisk.NewCrashDB(ctx.ID, n.image[ctx.ID], ctl)
	n.dbs[ctx.ID] = db
	return db, nil
}

var _ = sort.Strings
var _ = runtime.Goexit
var _ = cstypes.RoundStepNewHeight
var _ simcore.Op

func (n *simNode) ixCtl() *simdisk.Ctl {
	return &simdisk.Ctl{} // counts points, never crashes; dies with the node via n.ixDead
}

// onPoint is the persistence-point callback of the node's Ctl.
func (n *simNode) onPoint(label string, idx int) {
	n.mu.Lock()
	at := n.crashAt
	if at != 0 && idx >= at && n.sim.driverInNode {
		// the driver goroutine itself is inside node code (mempool / evidence call): do not
		// unwind it, crash at the next point reached by a node goroutine
		n.crashAt = idx + 1
		n.mu.Unlock()
		return
	}
	if at == 0 || idx != at {
		n.mu.Unlock()
		return
	}
	n.crashAt = 0
	ci := &crashInfo{label: label, point: idx}
	n.crashed = ci
	w := n.wal
	n.mu.Unlock()
	if w != nil {
		ci.hs = w.syncedLen()
	}
	ci.wal = snapshotDir(filepath.Dir(n.walFile()))
	n.ctl.Kill()
	runtime.Goexit()
}

func snapshotDir(dir string) map[string][]byte {
	img := map[string][]byte{}
	ents, _ := os.ReadDir(dir)
	for _, en := range ents {
		if b, err := os.ReadFile(filepath.Join(dir, en.Name())); err == nil {
			img[en.Name()] = b
		}
	}
	return img
}

func restoreDir(dir string, img map[string][]byte) {
	os.RemoveAll(dir)
	os.MkdirAll(dir, 0o700)
	for name, b := range img {
		if err := os.WriteFile(filepath.Join(dir, name), b, 0o600); err != nil {
			panic(err)
		}
	}
}

// boot builds a fresh incarnation from the durable image. It runs on a goroutine of its
// own so that a crash point hit during handshake / WAL replay can end it with Goexit.
func (n *simNode) boot() {
	s := n.sim
	defer func() {
		if r := recover(); r != nil {
			n.mu.Lock()
			if n.failure == "" {
				n.failure = fmt.Sprintf("panic during start: %v", r)
			}
			n.mu.Unlock()
		}
		n.mu.Lock()
		n.starting = false
		n.mu.Unlock()
		func() {
			defer func() { _ = recover() }()
			s.settleReplayRefusals(n)
		}()
	}()
	config := n.config()
	if debugLog {
		dumpWAL(n)
	}
	// durable heights before the handshake touches anything
	storeAhead := false
	{
		bs := store.NewBlockStore(simdisk.NewCrashDB("ro", n.image["blockstore"], nil))
		if st, err := sm.NewStore(simdisk.NewCrashDB("ro", n.image["state"], nil), sm.StoreOptions{}).Load(); err == nil {
			storeAhead = bs.Height() > 0 && bs.Height() > st.LastBlockHeight
			if st.LastBlockHeight > 0 && s.cfg.Bool("stale_statesync") {
				config.StateSync.Enable = true
				s.env.Count("probe.restart_with_statesync_enabled_and_state")
			}
			if storeAhead {
				if blk := bs.LoadBlock(bs.Height()); blk != nil && len(blk.Evidence.Evidence) > 0 {
					// the handshake applies this block with an EmptyEvidencePool: the real pool never
					// learns that its evidence is committed (known finding C11)
					n.evReplayed = true
					s.env.Count("probe.evidence_block_applied_by_handshake")
				}
			}
		}
	}
	fpv := privval.LoadFilePV(n.keyFile(), n.stateFile())
	n.pv = &pvWrap{n: n, inner: fpv}
	nodeKey := &p2p.NodeKey{PrivKey: ed25519.GenPrivKeyFromSecret([]byte("nodekey-" + n.name))}
	gen := func() (*types.GenesisDoc, error) { return s.genDocCopy(), nil }
	var pvArg types.PrivValidator = n.pv
	node, err := nd.NewNode(config, pvArg, nodeKey, n.app.ClientCreator(), gen, n.dbProvider,
		nd.DefaultMetricsProvider(config.Instrumentation), simLogger{n: n})
	if err != nil {
		n.mu.Lock()
		n.failure = "NewNode: " + err.Error()
		n.mu.Unlock()
		return
	}
	n.nd = node
	n.cs = node.ConsensusState()
	n.bstore = node.BlockStore()
	if n.inc > 0 {
		// A prune interrupted by the crash moved the base first and never deletes the rest of
		// its batch (later prunes start at the new base): heights below this base may be left
		// behind; the reported range [base,height] is what C18 is about (DESIGN 13.4).
		n.leakFloor = n.bstore.Base()
	}
	n.sstore = sm.NewStore(n.dbs["state"], sm.StoreOptions{})
	if !s.cfg.Bool("real_ticker") {
		n.ticker = newSimTicker()
		n.cs.SetTimeoutTicker(n.ticker)
	}
	if n.inc == 0 && s.cfg.Bool("torn_initial") {
		// disk image of a node that was killed inside the very first write of its WAL (the
		// initial #ENDHEIGHT marker that BaseWAL.OnStart logs into an empty head)
		var buf bytes.Buffer
		if err := cs.NewWALEncoder(&buf).Encode(&cs.TimedWALMessage{Time: time.Now().UTC(), Msg: cs.EndHeightMessage{Height: 0}}); err == nil && buf.Len() > 2 {
			k := 1 + int(s.cfg.Int("torn_initial_k"))%(buf.Len()-1)
			if err := os.MkdirAll(filepath.Dir(n.walFile()), 0o700); err == nil {
				if _, serr := os.Stat(n.walFile()); os.IsNotExist(serr) {
					_ = os.WriteFile(n.walFile(), buf.Bytes()[:k], 0o600)
					s.env.Count("fault.wal_torn_initial_marker")
				}
			}
		}
	}
	inner, err := cs.NewWAL(n.walFile(), s.walOptions()...)
	if err != nil {
		n.failure = "NewWAL: " + err.Error()
		return
	}
	inner.SetLogger(simLogger{n: n})
	inner.SetFlushInterval(2*time.Second + 7)
	if err := inner.Start(); err != nil {
		n.failure = "WAL start: " + err.Error()
		return
	}
	n.wal = &walWrap{n: n, inner: inner, path: n.walFile()}
	n.wal.noteSync()
	n.cs.VerifSetWAL(n.wal)
	if debugLog {
		fi, _ := os.Stat(n.walFile())
		var sz int64 = -1
		if fi != nil {
			sz = fi.Size()
		}
		fmt.Fprintf(os.Stderr, "PRESTART %s wal=%s size=%d torn=%v\n", n.name, n.walFile(), sz, headHasTear(n.walFile()))
	}
	if err := n.cs.Start(); err != nil {
		n.mu.Lock()
		n.failure = "consensus start: " + err.Error()
		n.mu.Unlock()
		inner.Stop()
		return
	}
	if w := n.cs.VerifWAL(); w != cs.WAL(n.wal) {
		// the repair path of OnStart replaced the WAL by a fresh BaseWAL: wrap it again
		s.env.Count("probe.wal_repair_on_start")
		n.repairedAtBoot = true
		n.wal = &walWrap{n: n, inner: w, path: n.walFile()}
		n.wal.noteSync()
		n.cs.VerifSetWAL(n.wal)
	}
	// Does the WAL hold the end-of-height marker that the next catchup replay will look for?
	{
		st := n.cs.GetState()
		prev := st.LastBlockHeight
		if n.cs.GetRoundState().Height == st.InitialHeight {
			prev = 0
		}
		rd, found, err := n.wal.inner.SearchForEndHeight(prev, &cs.WALSearchOptions{IgnoreDataCorruptionErrors: true})
		if rd != nil {
			rd.Close()
		}
		n.noMarkerAtBoot = err == nil && !found
		n.bootHeight = n.cs.GetRoundState().Height
		if n.noMarkerAtBoot && storeAhead {
			// the block was saved, its #ENDHEIGHT never became durable: from here on the WAL of
			// this node cannot be searched (known finding) until its head rotates
			n.walPoisoned = true
			n.poisonIdx = n.wal.groupIdx()
			s.env.Count("probe.endheight_marker_lost_by_crash")
		} else if n.walPoisoned && !n.noMarkerAtBoot {
			n.walPoisoned = false
		}
		if n.noMarkerAtBoot {
			s.env.Count("probe.boot_without_endheight_marker")
		}
		// A start that cannot replay never reads the head to its end, so a torn tail is not
		// repaired and later records (and markers) are appended behind it. The first repair that
		// does happen cuts the head at that old tear and takes everything synced since with it.
		idx := n.wal.groupIdx()
		if n.noMarkerAtBoot && !n.repairedAtBoot && headHasTear(n.walFile()) {
			n.tearIdx = idx + 1
			s.env.Count("probe.unrepaired_tear_left_in_wal_head")
		}
		if n.tearIdx != idx+1 {
			n.tearIdx = 0
		}
		if n.noMarkerAtBoot && !storeAhead && n.tearIdx == idx+1 && (n.repairedAtBoot || n.markerCut) {
			if !n.markerCut {
				s.env.Count("probe.endheight_marker_cut_by_late_repair")
			}
			n.markerCut, n.walPoisoned, n.poisonIdx = true, true, idx
		} else if !n.noMarkerAtBoot {
			n.markerCut = false
		}
	}
	if rs := n.cs.GetRoundState(); n.inc > 0 && rs.Round >= 1 {
		s.env.Count("probe.restart_into_round_ge1")
		if s.cfg.Bool("real_ticker") {
			s.env.Count("probe.restart_into_round_ge1_real_ticker")
		}
	}
	if debugLog {
		rs := n.cs.GetRoundState()
		fmt.Fprintf(os.Stderr, "BOOTED %s at %d/%d/%d locked=%d\n", n.name, rs.Height, rs.Round, rs.Step, rs.LockedRound)
	}
	n.mu.Lock()
	n.alive = true
	n.mu.Unlock()
}

// start launches a new incarnation and settles.
func (n *simNode) start() {
	n.mu.Lock()
	n.ctl = &simdisk.Ctl{OnPoint: n.onPoint}
	n.dbs = map[string]*simdisk.CrashDB{}
	n.failure, n.exited, n.crashed = "", "", nil
	n.repairedAtBoot, n.noMarkerAtBoot = false, false
	if n.sweepCrashAt > 0 && n.inc == 0 {
		n.crashAt = n.sweepCrashAt
	}
	n.starting = true
	n.alive = false
	n.nd, n.cs, n.ticker, n.wal, n.pv = nil, nil, nil, nil, nil
	n.mu.Unlock()
	n.sim.cur = n
	go n.boot()
	n.sim.env.Settle()
	n.sim.cur = nil
}

// teardown stops what is left of the incarnation (best effort, never waits on cs.done).
func (n *simNode) teardown() {
	if n.cs != nil && n.cs.IsRunning() {
		n.cs.Stop()
	}
	n.sim.env.Settle()
	if n.wal != nil {
		if bw, ok := n.wal.inner.(*cs.BaseWAL); ok && bw.IsRunning() {
			bw.Stop()
		}
	}
	if n.nd != nil {
		if eb := n.nd.EventBus(); eb != nil && eb.IsRunning() {
			eb.Stop()
		}
		if pa := n.nd.ProxyApp(); pa != nil && pa.IsRunning() {
			pa.Stop()
		}
	}
	n.sim.env.Settle()
}

// finishCrash completes a crash that a persistence point started: tears the zombie down
// and computes the durable image (DB prefix cuts, WAL tail cut/garbage) from the action's
// parameters.
func (n *simNode) finishCrash(op simcore.Op) {
	ci := n.crashed
	n.teardown()
	dbNames := make([]string, 0, len(n.dbs))
	for name := range n.dbs {
		dbNames = append(dbNames, name)
	}
	sort.Strings(dbNames)
	for _, name := range dbNames {
		db := n.dbs[name]
		u := db.Unsynced()
		keep := u * op.Int("db_keep") / 1000
		if u > 0 && keep < u {
			n.sim.env.Count("fault.db_lost_unsynced")
		}
		n.image[name] = db.Image(keep)
	}
	if ci != nil && ci.wal != nil {
		head := ci.wal["wal"]
		hs := ci.hs
		if hs > int64(len(head)) {
			hs = int64(len(head))
		}
		keep := hs + (int64(len(head))-hs)*int64(op.Int("wal_keep"))/1000
		if keep < int64(len(head)) {
			n.sim.env.Count("fault.wal_torn_tail")
		}
		if debugLog {
			fmt.Fprintf(os.Stderr, "CRASH %s at=%s hs=%d headlen=%d keep=%d files=%d\n", n.name, ci.label, hs, len(head), keep, len(ci.wal))
		}
		head = append([]byte{}, head[:keep]...)
		if gl := op.Int("wal_garb"); gl > 0 && keep > hs {
			at := hs + int64(op.Int("wal_garb_at"))%(keep-hs)
			for i := at; i < at+int64(gl) && i < keep; i++ {
				head[i] ^= byte(1 + op.Int("wal_garb_x")%255)
			}
			n.sim.env.Count("fault.wal_garbage_tail")
		}
		img := map[string][]byte{}
		for k, v := range ci.wal {
			img[k] = v
		}
		img["wal"] = head
		restoreDir(filepath.Dir(n.walFile()), img)
	}
	n.app.Crash()
	n.mu.Lock()
	n.alive = false
	n.inc++
	n.crashed = nil
	n.mu.Unlock()
}

// stopClean shuts the incarnation down gracefully: everything written becomes durable.
func (n *simNode) stopClean() {
	if n.cs != nil && n.cs.IsRunning() {
		n.cs.Stop()
		n.sim.env.Settle()
	}
	n.teardown()
	for name, db := range n.dbs {
		n.image[name] = db.Image(-1)
	}
	n.mu.Lock()
	n.alive = false
	n.inc++
	n.mu.Unlock()
}

func (n *simNode) isAlive() bool {
	n.mu.Lock()
	defer n.mu.Unlock()
	return n.alive && n.crashed == nil && n.failure == "" && n.exited == ""
}

// headHasTear reports whether the WAL head file holds an undecodable record.
func headHasTear(path string) bool {
	f, err := os.Open(path)
	if err != nil {
		return false
	}
	defer f.Close()
	dec := cs.NewWALDecoder(f)
	for {
		if _, err := dec.Decode(); err == io.EOF {
			return false
		} else if err != nil {
			return true
		}
	}
}

func dumpWAL(n *simNode) {
	dir := filepath.Dir(n.walFile())
	ents, _ := os.ReadDir(dir)
	var names []string
	for _, e := range ents {
		names = append(names, e.Name())
	}
	sort.Strings(names)
	if len(names) == 0 {
		return
	}
	// rotated files sort after "wal" lexicographically ("wal.000"); print head last
	order := append(append([]string{}, names[1:]...), names[0])
	for _, name := range order {
		f, err := os.Open(filepath.Join(dir, name))
		if err != nil {
			continue
		}
		dec := cs.NewWALDecoder(f)
		fmt.Fprintf(os.Stderr, "WALDUMP %s file %s:\n", n.name, name)
		for {
			m, err := dec.Decode()
			if err != nil {
				fmt.Fprintf(os.Stderr, "   -- %v\n", err)
				break
			}
			switch x := m.Msg.(type) {
			case cs.VerifMsgInfo:
				fmt.Fprintf(os.Stderr, "   msg %T peer=%q %v\n", x.Msg, x.PeerID, x.Msg)
			default:
				fmt.Fprintf(os.Stderr, "   %T %v\n", x, x)
			}
		}
		f.Close()
	}
}
