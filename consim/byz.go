package consim

import (
	cstypes "github.com/tendermint/tendermint/consensus/types"
	"github.com/tendermint/tendermint/crypto"
	"github.com/tendermint/tendermint/crypto/ed25519"
	"github.com/tendermint/tendermint/types"

	"fmt"

	"verif/simcore"
)

// byzVal is a Byzantine validator: only a key held by the simulator.
type byzVal struct {
	s    *sim
	idx  int
	name string
	key  crypto.PrivKey
	addr types.Address
}

func newByzVal(s *sim, idx int) *byzVal {
	b := &byzVal{s: s, idx: idx, name: fmt.Sprintf("byz%d", idx)}
	b.key = ed25519.GenPrivKeyFromSecret([]byte(fmt.Sprintf("consim-byz-%d", idx)))
	b.addr = b.key.PubKey().Address()
	return b
}

func (s *sim) byzDeliverables(rss map[int]*cstypes.RoundState) []item { return nil }
func (s *sim) byzDeliver(it item) bool                                    { return false }
func (s *sim) nextByz(rng *simcore.RNG, roll int) simcore.Op             { return nil }
func (s *sim) applyByz(op simcore.Op) bool                                { return false }
