package consim

import (
	"encoding/hex"
	"fmt"
	"github.com/gogo/protobuf/proto"
	"github.com/tendermint/tendermint/crypto/merkle"
	"sort"
	"time"

	cstypes "github.com/tendermint/tendermint/consensus/types"
	"github.com/tendermint/tendermint/crypto"
	"github.com/tendermint/tendermint/crypto/ed25519"
	"github.com/tendermint/tendermint/crypto/tmhash"
	tmproto "github.com/tendermint/tendermint/proto/tendermint/types"
	"github.com/tendermint/tendermint/types"

	"verif/simcore"
)

// byzVal is a Byzantine validator: only a key held by the simulator. It never runs the
// state machine; the simulator signs arbitrary well-formed messages with its key.
type byzVal struct {
	s    *sim
	idx  int // global index (after the correct nodes)
	name string
	key  crypto.PrivKey
	addr types.Address
}

func newByzVal(s *sim, idx int) *byzVal {
	b := &byzVal{s: s, idx: idx, name: fmt.Sprintf("byz%d", idx)}
	b.key = ed25519.GenPrivKeyFromSecret([]byte(fmt.Sprintf("consim-byz-%d", idx)))
	b.addr = b.key.PubKey().Address()
	return b
}

// byzProposal is a proposal (with its block) a Byzantine proposer offers to a subset of
// the correct nodes.
type byzProposal struct {
	id      string
	b       int
	h       int64
	r       int32
	block   *types.Block
	parts   *types.PartSet
	prop    *types.Proposal
	targets map[int]bool // nil = everybody
	mut     string       // perturbation applied to the block ("" = valid)
	op      simcore.Op   // the action that made it (a twin re-uses its parameters)
	enc     int          // > 0: the block's bytes carry an extra unknown protobuf field: same block, same hash, other part set
}

// byzVote is a vote a Byzantine validator offers to a subset of the correct nodes.
type byzVote struct {
	id      string
	b       int
	vote    *types.Vote
	targets map[int]bool
	bad     string // "" = properly signed; otherwise what the signature was made over instead
}

type byzState struct {
	props []*byzProposal
	votes []*byzVote
	seq   int
}

func targetsOf(op simcore.Op) map[int]bool {
	if !op.Has("targets") {
		return nil
	}
	m := map[int]bool{}
	for _, t := range op.Ints("targets") {
		m[t] = true
	}
	return m
}

func (s *sim) byzByIdx(b int) *byzVal {
	if b < 0 || b >= len(s.byz) {
		return nil
	}
	return s.byz[b]
}

// proposerAt computes who proposes round r of the height node n is working on.
func proposerAt(n *simNode, r int32) (types.Address, int64) {
	st := n.cs.GetState()
	vals := st.Validators
	if r > 0 {
		vals = vals.CopyIncrementProposerPriority(r)
	}
	return vals.GetProposer().Address, n.cs.GetRoundState().Height
}

// ---------------------------------------------------------------- generation

func (s *sim) nextByz(rng *simcore.RNG, roll int) simcore.Op {
	if len(s.byz) == 0 {
		return nil
	}
	live := s.alive()
	if len(live) == 0 {
		return nil
	}
	rate := 60
	if s.gst {
		rate = 30
	}
	if s.cfg.Bool("oneval") {
		rate = 400 // the adversary is most of the network
	}
	if rng.Intn(1000) >= rate {
		return nil
	}
	b := rng.Intn(len(s.byz))
	via := live[rng.Intn(len(live))]
	rs := via.cs.GetRoundState()
	// candidate: propose when the Byzantine validator is the proposer of the current or next round
	for _, r := range []int32{rs.Round, rs.Round + 1} {
		addr, h := proposerAt(via, r)
		if string(addr) != string(s.byz[b].addr) {
			continue
		}
		n := 0
		for _, p := range s.bz.props {
			if p.h == h && p.r == r {
				n++
			}
		}
		if n == 1 && rng.Bool(0.4) {
			// the same block once more under another encoding (an unknown field appended to its
			// bytes): same block hash, different part-set header, offered to the other nodes
			for _, p := range s.bz.props {
				if p.h == h && p.r == r && p.b == b && p.mut == "" && p.enc == 0 && p.op != nil {
					op := simcore.Op{"a": "byz", "k": "propose", "b": b, "via": via.idx, "h": h, "r": r, "pol": p.op.Int("pol"), "ntx": p.op.Int("ntx"), "salt": p.op.Int("salt"), "enc": 1 + rng.Intn(5)}
					var t []int
					for i := range s.nodes {
						if p.targets != nil && !p.targets[i] {
							t = append(t, i)
						}
					}
					if len(t) == 0 {
						t = []int{rng.Intn(len(s.nodes))}
					}
					op["targets"] = t
					return op
				}
			}
		}
		if n >= 2 || rng.Bool(0.3) {
			continue
		}
		op := simcore.Op{"a": "byz", "k": "propose", "b": b, "via": via.idx, "h": h, "r": r, "pol": -1, "ntx": rng.Intn(3), "salt": rng.Intn(1 << 20)}
		if r > 0 && rng.Bool(0.4) {
			op["pol"] = rng.Intn(int(r))
		}
		if rng.Bool(0.6) && len(s.nodes) > 1 {
			// split brain: only a subset sees this variant
			var t []int
			for i := range s.nodes {
				if rng.Bool(0.5) {
					t = append(t, i)
				}
			}
			if len(t) == 0 {
				t = []int{rng.Intn(len(s.nodes))}
			}
			op["targets"] = t
		}
		if s.env.Checking("C06") && rng.Bool(0.5) {
			op["mut"] = blockMutations[rng.Intn(len(blockMutations))]
		}
		return op
	}
	if ids := s.knownBlockIDs(rs.Height); len(ids) > 0 && rng.Bool(0.08) {
		// claim a +2/3 majority for some block: makes the node track conflicting votes for it
		return simcore.Op{"a": "byz", "k": "maj23", "b": b, "to": via.idx, "h": rs.Height, "r": int(rs.Round) - rng.Intn(2), "t": 1 + rng.Intn(2), "blk": ids[rng.Intn(len(ids))]}
	}
	// otherwise a vote
	op := simcore.Op{"a": "byz", "k": "vote", "b": b, "h": rs.Height, "r": int(rs.Round) + rng.Intn(3) - 1, "t": 1 + rng.Intn(2)}
	if op.Int("r") < 0 {
		op["r"] = 0
	}
	ids := s.knownBlockIDs(rs.Height)
	if rs.Step == cstypes.RoundStepNewHeight && rs.LastCommit == nil && rng.Bool(0.5) {
		// the chain's first height has no previous commit: a "late precommit" for the height
		// before it must simply be ignored
		op["h"], op["r"], op["t"] = rs.Height-1, 0, 2
		ids = nil
	}
	if rs.Step == cstypes.RoundStepNewHeight && rs.LastCommit != nil && rng.Bool(0.5) {
		// a late precommit for the height just decided: it lands in LastCommit, from which the
		// next proposer builds the commit of its block
		if maj, ok := rs.LastCommit.TwoThirdsMajority(); ok {
			op["h"], op["r"], op["t"] = rs.Height-1, int(rs.LastCommit.GetRound()), 2
			ids = []string{bidStr(maj)}
		}
	}
	if s.cfg.Bool("oneval") && rs.LockedBlock != nil && rs.LockedBlockParts != nil && op.Int64("h") == rs.Height && rng.Bool(0.35) {
		// keep feeding quorums for the block the validator is locked on (re-locks in later rounds)
		// next to quorums for other blocks in earlier rounds: the lock-round bookkeeping decides
		// which of them may unlock it
		op["blk"] = bidStr(types.BlockID{Hash: rs.LockedBlock.Hash(), PartSetHeader: rs.LockedBlockParts.Header()})
		op["t"] = 1
		return s.finishByzVote(rng, op)
	}
	switch k := rng.Intn(12); {
	case k < 2 || len(ids) == 0 && k < 8:
		op["blk"] = "nil"
	case k < 9 && len(ids) > 0:
		op["blk"] = ids[rng.Intn(len(ids))]
	case k < 11 && len(ids) > 0:
		// the hash of a known block under another part-set header: a different BlockID
		bid, _ := parseBid(ids[rng.Intn(len(ids))])
		if rng.Bool(0.5) {
			bid.PartSetHeader.Total++
		} else {
			bid.PartSetHeader.Hash = tmhash.Sum(bid.PartSetHeader.Hash)
		}
		op["blk"] = bidStr(bid)
	default:
		hsh := tmhash.Sum([]byte(fmt.Sprint("unseen", rng.Intn(1000))))
		op["blk"] = fmt.Sprintf("%x/1/%x", hsh, hsh)
	}
	return s.finishByzVote(rng, op)
}

// unevenPartSet splits data into pieces with an empty one in the middle and builds the part
// set a proposer would commit to for exactly those pieces.
func unevenPartSet(data []byte, salt int) *types.PartSet {
	if len(data) < 8 {
		return nil
	}
	cut := len(data) / 2
	if salt%2 == 1 {
		cut = len(data) / 3
	}
	pieces := [][]byte{data[:cut], {}, data[cut:]}
	for _, pc := range pieces {
		if len(pc) > int(types.BlockPartSizeBytes) {
			return nil
		}
	}
	root, proofs := merkle.ProofsFromByteSlices(pieces)
	ps := types.NewPartSetFromHeader(types.PartSetHeader{Total: uint32(len(pieces)), Hash: root})
	for i, pc := range pieces {
		if ok, err := ps.AddPart(&types.Part{Index: uint32(i), Bytes: pc, Proof: *proofs[i]}); !ok || err != nil {
			return nil
		}
	}
	return ps
}

// finishByzVote draws the recipients and the optional signature defect of a Byzantine vote.
func (s *sim) finishByzVote(rng *simcore.RNG, op simcore.Op) simcore.Op {
	if s.cfg.Bool("byz_old_ts") && rng.Bool(0.5) {
		op["tsback"] = rng.Range(1, 3600000) // milliseconds before now
	}
	if rng.Bool(0.6) && len(s.nodes) > 1 {
		var t []int
		for i := range s.nodes {
			if rng.Bool(0.5) {
				t = append(t, i)
			}
		}
		if len(t) == 0 {
			t = []int{rng.Intn(len(s.nodes))}
		}
		op["targets"] = t
	}
	if rng.Bool(0.1) {
		op["bad"] = []string{"chain", "height", "round", "type", "block", "key"}[rng.Intn(6)]
	}
	return op
}

// knownBlockIDs lists the block ids proposed so far at height h (by anybody), as strings.
func (s *sim) knownBlockIDs(h int64) []string {
	set := map[string]bool{}
	for _, n := range s.alive() {
		rs := n.cs.GetRoundState()
		if rs.Height == h && rs.Proposal != nil {
			set[bidStr(rs.Proposal.BlockID)] = true
		}
		if rs.Height == h && rs.LockedBlock != nil {
			set[bidStr(types.BlockID{Hash: rs.LockedBlock.Hash(), PartSetHeader: rs.LockedBlockParts.Header()})] = true
		}
	}
	for _, p := range s.bz.props {
		if p.h == h {
			set[bidStr(p.prop.BlockID)] = true
		}
	}
	var out []string
	for k := range set {
		out = append(out, k)
	}
	sort.Strings(out)
	return out
}

func bidStr(b types.BlockID) string {
	return fmt.Sprintf("%x/%d/%x", []byte(b.Hash), b.PartSetHeader.Total, []byte(b.PartSetHeader.Hash))
}

func parseBid(s string) (types.BlockID, bool) {
	if s == "nil" || s == "" {
		return types.BlockID{}, true
	}
	var hs, ps string
	var total uint32
	for i, f := range splitSlash(s) {
		switch i {
		case 0:
			hs = f
		case 1:
			fmt.Sscanf(f, "%d", &total)
		case 2:
			ps = f
		}
	}
	h, err1 := hex.DecodeString(hs)
	p, err2 := hex.DecodeString(ps)
	if err1 != nil || err2 != nil || len(h) != tmhash.Size || len(p) != tmhash.Size {
		return types.BlockID{}, false
	}
	return types.BlockID{Hash: h, PartSetHeader: types.PartSetHeader{Total: total, Hash: p}}, true
}

func splitSlash(s string) []string {
	var out []string
	cur := ""
	for _, c := range s {
		if c == '/' {
			out = append(out, cur)
			cur = ""
		} else {
			cur += string(c)
		}
	}
	return append(out, cur)
}

// ---------------------------------------------------------------- apply

func (s *sim) applyByz(op simcore.Op) bool {
	b := s.byzByIdx(op.Int("b"))
	if b == nil {
		return false
	}
	switch op.Str("k") {
	case "propose":
		via := op.Int("via")
		if via < 0 || via >= len(s.nodes) || !s.nodes[via].isAlive() {
			return false
		}
		n := s.nodes[via]
		r := int32(op.Int("r"))
		addr, h := proposerAt(n, r)
		if h != op.Int64("h") || string(addr) != string(b.addr) {
			return false
		}
		st := n.cs.GetState()
		rs := n.cs.GetRoundState()
		var commit *types.Commit
		switch {
		case h == st.InitialHeight:
			commit = types.NewCommit(0, 0, types.BlockID{}, nil)
		case rs.LastCommit != nil && rs.LastCommit.HasTwoThirdsMajority():
			commit = rs.LastCommit.MakeCommit()
		default:
			return false
		}
		var txs []types.Tx
		for i := 0; i < op.Int("ntx"); i++ {
			txs = append(txs, types.Tx(fmt.Sprintf("byz%d-%d=%d", h, op.Int("salt"), i)))
		}
		block, _ := st.MakeBlock(h, txs, commit, nil, b.addr)
		mut := op.Str("mut")
		if mut != "" {
			held := func(addr types.Address, msg []byte) []byte {
				for _, bb := range s.byz {
					if string(bb.addr) == string(addr) {
						sg, err := bb.key.Sign(msg)
						if err != nil {
							panic(err)
						}
						return sg
					}
				}
				return nil
			}
			if !mutateBlock(block, mut, st, op.Int("salt"), s.chainID, held) {
				mut = ""
			}
		}
		parts := block.MakePartSet(types.BlockPartSizeBytes)
		enc := op.Int("enc")
		if enc > 0 && mut == "" {
			pb, err := block.ToProto()
			if err != nil {
				panic(err)
			}
			bz, err := proto.Marshal(pb)
			if err != nil {
				panic(err)
			}
			bz = append(bz, 0x78, byte(enc)) // field 15, varint: unknown to tmproto.Block, skipped by the decoder
			parts = types.NewPartSetFromData(bz, types.BlockPartSizeBytes)
			if enc >= 4 {
				// ... cut into uneven pieces with an EMPTY piece in the middle: AddPart and
				// Part.ValidateBasic accept it, the reader must walk over it
				if ps := unevenPartSet(bz, enc); ps != nil {
					parts = ps
					s.env.Count("fault.byz_proposal_empty_part")
				}
			}
			s.mon.altEnc[string(parts.Hash())] = true
			s.env.Count("fault.byz_proposal_alt_encoding")
		} else {
			enc = 0
		}
		bid := types.BlockID{Hash: block.Hash(), PartSetHeader: parts.Header()}
		prop := types.NewProposal(h, r, int32(op.Int("pol")), bid)
		prop.Timestamp = time.Now().UTC()
		pp := prop.ToProto()
		sig, err := b.key.Sign(types.ProposalSignBytes(s.chainID, pp))
		if err != nil {
			panic(err)
		}
		prop.Signature = sig
		s.bz.seq++
		p := &byzProposal{id: fmt.Sprintf("bp%d", s.bz.seq), b: op.Int("b"), h: h, r: r, block: block, parts: parts, prop: prop, targets: targetsOf(op), mut: mut, op: op, enc: enc}
		s.bz.props = append(s.bz.props, p)
		s.mon.onByzProposal(p)
		s.env.Count("fault.byz_proposal")
		if mut != "" {
			s.env.Count("fault.byz_invalid_block." + mut)
		}
		if p.targets != nil {
			s.env.Count("fault.byz_split_proposal")
		}
		return true
	case "maj23":
		bid, ok := parseBid(op.Str("blk"))
		to := op.Int("to")
		if !ok || to < 0 || to >= len(s.nodes) || !s.nodes[to].isAlive() || op.Int("r") < 0 {
			return false
		}
		n := s.nodes[to]
		rs := n.cs.GetRoundState()
		if rs.Height != op.Int64("h") {
			return false
		}
		typ := tmproto.PrevoteType
		if op.Int("t") == 2 {
			typ = tmproto.PrecommitType
		}
		if err := rs.Votes.SetPeerMaj23(int32(op.Int("r")), typ, peerID(b.idx), bid); err != nil {
			s.env.Count("probe.maj23_claim_rejected")
		} else {
			s.mon.onMaj23Claim(n, op.Int64("h"), int32(op.Int("r")), op.Int("t"), bid)
		}
		s.env.Count("fault.byz_maj23_claim")
		return true
	case "vote":
		bid, ok := parseBid(op.Str("blk"))
		if !ok {
			return false
		}
		h := op.Int64("h")
		// the validator's index in the set of that height, as a live node sees it
		var vals *types.ValidatorSet
		for _, n := range s.alive() {
			if rs := n.cs.GetRoundState(); rs.Height == h {
				vals = rs.Validators
				break
			}
		}
		if vals == nil {
			for _, n := range s.alive() {
				if rs := n.cs.GetRoundState(); rs.Height == h+1 && rs.LastValidators != nil {
					vals = rs.LastValidators
					if vals.Size() == 0 {
						vals = rs.Validators // first height of the chain
					}
					break
				}
			}
		}
		if vals == nil {
			return false
		}
		vi, _ := vals.GetByAddress(b.addr)
		if vi < 0 {
			return false
		}
		typ := tmproto.PrevoteType
		if op.Int("t") == 2 {
			typ = tmproto.PrecommitType
		}
		// timestamps that keep block time (the weighted median of the commit) increasing
		ts := time.Now().UTC().Add(time.Duration(h-s.genDoc.InitialHeight+1)*time.Second + time.Duration(op.Int("r"))*time.Millisecond)
		if tb := op.Int("tsback"); tb > 0 {
			ts = time.Now().UTC().Add(-time.Duration(tb) * time.Millisecond)
			s.env.Count("fault.byz_vote_backdated")
		}
		v := &types.Vote{Type: typ, Height: h, Round: int32(op.Int("r")), BlockID: bid, Timestamp: ts, ValidatorAddress: b.addr, ValidatorIndex: vi}
		signed := v.Copy()
		chain := s.chainID
		key := b.key
		bad := op.Str("bad")
		switch bad {
		case "chain":
			chain = s.chainID + "x"
		case "height":
			signed.Height++
		case "round":
			signed.Round++
		case "type":
			if typ == tmproto.PrevoteType {
				signed.Type = tmproto.PrecommitType
			} else {
				signed.Type = tmproto.PrevoteType
			}
		case "block":
			hsh := tmhash.Sum([]byte("other-block"))
			signed.BlockID = types.BlockID{Hash: hsh, PartSetHeader: types.PartSetHeader{Total: 1, Hash: hsh}}
		case "key":
			key = ed25519.GenPrivKeyFromSecret([]byte("not-the-validator"))
		}
		sig, err := key.Sign(types.VoteSignBytes(chain, signed.ToProto()))
		if err != nil {
			panic(err)
		}
		v.Signature = sig
		s.bz.seq++
		bv := &byzVote{id: fmt.Sprintf("bv%d", s.bz.seq), b: op.Int("b"), vote: v, targets: targetsOf(op), bad: bad}
		s.bz.votes = append(s.bz.votes, bv)
		s.env.Count("fault.byz_vote")
		if bad != "" {
			s.env.Count("fault.byz_forged_vote." + bad)
		}
		return true
	}
	return false
}

// ---------------------------------------------------------------- gossip of Byzantine items

func (s *sim) byzDeliverables(rss map[int]*cstypes.RoundState) []item {
	var out []item
	for _, n := range s.alive() {
		rs := rss[n.idx]
		if rs == nil {
			continue
		}
		st := fmt.Sprintf("%d:%s", n.inc, stamp(rs))
		add := func(it item) {
			if s.tried[it.key()] == st {
				return
			}
			out = append(out, it)
		}
		for _, p := range s.bz.props {
			if p.h != rs.Height || (p.targets != nil && !p.targets[n.idx]) {
				continue
			}
			if p.r == rs.Round && rs.Proposal == nil {
				add(item{kind: "bprop", from: -1 - p.b, to: n.idx, h: p.h, r: p.r, id: p.id})
			}
			if rs.ProposalBlockParts != nil && rs.ProposalBlockParts.HasHeader(p.parts.Header()) && !rs.ProposalBlockParts.IsComplete() {
				ba := rs.ProposalBlockParts.BitArray()
				for i := 0; i < int(p.parts.Total()); i++ {
					if !ba.GetIndex(i) {
						add(item{kind: "bpart", from: -1 - p.b, to: n.idx, h: p.h, r: p.r, part: i, id: p.id})
					}
				}
			}
		}
		for _, v := range s.bz.votes {
			typ := 1
			if v.vote.Type == tmproto.PrecommitType {
				typ = 2
			}
			if v.vote.Height == rs.Height-1 && typ == 2 && rs.Step == cstypes.RoundStepNewHeight &&
				(rs.LastCommit == nil || rs.LastCommit.GetRound() == v.vote.Round) && (v.targets == nil || v.targets[n.idx]) {
				// late precommit for the decided height (consensus adds it to LastCommit)
				if rs.LastCommit == nil || rs.LastCommit.GetByIndex(v.vote.ValidatorIndex) == nil || s.tried["once/"+v.id+fmt.Sprint(n.idx, n.inc)] == "" {
					add(item{kind: "bvote", from: -1 - v.b, to: n.idx, h: v.vote.Height, r: v.vote.Round, typ: typ, id: v.id})
				}
				continue
			}
			if v.vote.Height != rs.Height || (v.targets != nil && !v.targets[n.idx]) {
				continue
			}
			if vs := voteSetOf(rs, v.vote.Round, typ); vs != nil && vs.GetByIndex(v.vote.ValidatorIndex) != nil && v.bad == "" {
				// the node already holds a vote of this validator for that round/type; a conflicting
				// one is offered once
				if s.tried["once/"+v.id+fmt.Sprint(n.idx, n.inc)] != "" {
					continue
				}
			}
			add(item{kind: "bvote", from: -1 - v.b, to: n.idx, h: v.vote.Height, r: v.vote.Round, typ: typ, id: v.id})
		}
	}
	return out
}

func (s *sim) byzDeliver(it item) bool {
	if it.to < 0 || it.to >= len(s.nodes) {
		return false
	}
	n := s.nodes[it.to]
	if !n.isAlive() {
		return false
	}
	rs := n.cs.GetRoundState()
	if rs.Height != it.h && !(it.kind == "bvote" && it.typ == 2 && rs.Height == it.h+1 && rs.Step == cstypes.RoundStepNewHeight) {
		return false
	}
	b := -1 - it.from
	if s.byzByIdx(b) == nil {
		return false
	}
	peer := peerID(s.byz[b].idx)
	s.tried[it.key()] = fmt.Sprintf("%d:%s", n.inc, stamp(rs))
	switch it.kind {
	case "bprop", "bpart":
		var p *byzProposal
		for _, q := range s.bz.props {
			if q.id == it.id {
				p = q
			}
		}
		if p == nil || (p.targets != nil && !p.targets[n.idx]) {
			return false
		}
		if it.kind == "bprop" {
			pr := *p.prop
			s.mon.onDeliverProposal(n, &pr)
			s.with(n, func() { n.cs.SetProposal(&pr, peer) })
		} else {
			part := p.parts.GetPart(it.part)
			if part == nil {
				return false
			}
			s.mon.onDeliverPart(n, it.h, part)
			s.with(n, func() { n.cs.AddProposalBlockPart(it.h, it.r, part, peer) })
		}
	case "bvote":
		var v *byzVote
		for _, q := range s.bz.votes {
			if q.id == it.id {
				v = q
			}
		}
		if v == nil || (v.targets != nil && !v.targets[n.idx]) {
			return false
		}
		s.tried["once/"+v.id+fmt.Sprint(n.idx, n.inc)] = "x"
		if v.bad == "" {
			s.mon.onDeliverVote(n, v.vote)
		}
		s.with(n, func() { n.cs.AddVote(v.vote.Copy(), peer) })
		if v.bad != "" && n.isAlive() {
			// a vote whose signature does not bind (chain, height, round, type, block, key) must never be counted
			rs2 := n.cs.GetRoundState()
			if rs2.Height == v.vote.Height {
				if vs := voteSetOf(rs2, v.vote.Round, it.typ); vs != nil {
					if got := vs.GetByIndex(v.vote.ValidatorIndex); got != nil && string(got.Signature) == string(v.vote.Signature) {
						s.env.Fail("C01", "forged-vote-accepted", "node %d counted a vote of validator %d whose signature was made over a different %s", n.idx, v.vote.ValidatorIndex, v.bad)
					}
				}
			}
		}
	default:
		return false
	}
	s.env.Count("op.deliver." + it.kind)
	return true
}
