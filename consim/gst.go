package consim

import "verif/simcore"

func (s *sim) nextSync(rng *simcore.RNG) simcore.Op { return nil }
func (s *sim) applyGST() bool                        { return false }
