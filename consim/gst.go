package consim

import (
	"fmt"
	"sort"
	"time"

	"verif/simcore"
)

// applyGST switches the run to its synchronous suffix: partitions healed, clocks not
// behind, crashed nodes restarted, no more crashes; from now on nextSync delivers every
// message a correct node holds to every other correct node before any timeout fires.
func (s *sim) applyGST() bool {
	if s.gst {
		return false
	}
	s.gst = true
	for i := range s.group {
		s.group[i] = 0
	}
	for _, n := range s.nodes {
		n.skew = 0
		n.mu.Lock()
		n.crashAt = 0
		n.mu.Unlock()
	}
	s.armed = map[int]simcore.Op{}
	s.env.Count("op.gst")
	if s.opsLeft < 4000 {
		s.opsLeft = 4000
	}
	return true
}

// recordGST fixes the termination bound once every correct node is up again.
func (s *sim) recordGST() {
	gi := &gstInfo{rmin: 1 << 30}
	for _, n := range s.nodes {
		rs := n.cs.GetRoundState()
		if rs.Height > gi.height {
			gi.height = rs.Height
		}
	}
	for _, n := range s.nodes {
		rs := n.cs.GetRoundState()
		r := int32(0)
		if rs.Height == gi.height {
			r = rs.Round
		}
		if r > gi.rmax {
			gi.rmax = r
		}
		if r < gi.rmin {
			gi.rmin = r
		}
	}
	f := int32(len(s.byz))
	// see DESIGN.md C03/13.4: a deliberately loose bound, not a tight one. A correct validator
	// that is locked on a block the others do not hold keeps prevoting it, and when every
	// correct vote is needed for a polka the height is only decided once THAT validator
	// proposes (it re-proposes its valid block with its POL round). With weighted rotation a
	// low-power validator's turn can be total/power rounds away, so the bound is: the first
	// round after rmax by which every correct validator has been proposer once, plus the slack
	// for round spread and pre-GST pollution.
	allTurn := gi.rmax + 2*(f+1)
	for _, n := range s.nodes {
		if rs := n.cs.GetRoundState(); rs.Height == gi.height {
			base := n.cs.GetState().Validators
			need := map[string]bool{}
			for _, m := range s.nodes {
				need[string(m.addr)] = true
			}
			for r := gi.rmax + 1; r < gi.rmax+400 && len(need) > 0; r++ {
				p := base.CopyIncrementProposerPriority(r).GetProposer()
				delete(need, string(p.Address))
				if r > allTurn {
					allTurn = r
				}
			}
			break
		}
	}
	gi.deadline = allTurn + 2*(gi.rmax-gi.rmin) + 2
	s.gstInfo = gi
	s.env.Logf("gst height=%d rmax=%d rmin=%d bound=%d", gi.height, gi.rmax, gi.rmin, gi.deadline)
}

// nextSync is the scheduler of the synchronous suffix: deterministic given the state,
// except for what the Byzantine validators do.
func (s *sim) nextSync(rng *simcore.RNG) simcore.Op {
	for _, n := range s.nodes {
		if !n.isAlive() {
			n.mu.Lock()
			starting := n.starting
			n.mu.Unlock()
			if !starting && n.startFails < 3 {
				return simcore.Op{"a": "restart", "node": n.idx}
			}
			if !starting {
				// it fails at every start (reported as consensus-failure / restart-failed where the
				// property is about that): the run ends instead of restarting it for ever
				s.env.Count("probe.node_given_up_after_failed_starts")
				return nil
			}
		}
	}
	if s.gstInfo == nil {
		s.recordGST()
	}
	gi := s.gstInfo
	done := true
	unr := s.unreachable()
	for _, n := range s.nodes {
		if n.bstore.Height() < gi.height && !unr[n.idx] {
			done = false
		}
	}
	if done {
		return nil
	}
	if len(s.inflight) > 0 {
		return simcore.Op{"a": "arrive", "id": s.inflight[0].id}
	}
	if bop := s.nextByz(rng, rng.Intn(1000)); bop != nil {
		return bop
	}
	items := s.deliverables()
	if len(items) > 0 {
		sort.Slice(items, func(i, j int) bool { return items[i].key() < items[j].key() })
		return items[0].op()
	}
	// nothing left to deliver: the earliest timeout fires
	var best *simNode
	var bestAt time.Time
	for _, n := range s.nodes {
		if n.ticker == nil {
			continue
		}
		ti, at, ok := n.ticker.Pending()
		if !ok {
			continue
		}
		exp := at.Add(ti.Duration)
		if best == nil || exp.Before(bestAt) {
			best, bestAt = n, exp
		}
	}
	if best != nil {
		dt := time.Until(bestAt)
		if dt < 0 {
			dt = 0
		}
		return simcore.Op{"a": "timeout", "node": best.idx, "dt": int(dt / time.Millisecond)}
	}
	if s.cfg.Bool("real_ticker") {
		// the shipped tickers run on the fake clock: let it advance; the oracle declares a
		// stall only after a long simulated time without any change of any node's H/R/S
		if s.stalledFor() > 150*time.Second {
			return nil
		}
		return simcore.Op{"a": "sleep", "ms": 50, "idle": true}
	}
	s.idleNext++
	if s.idleNext > 6 {
		return nil // nothing will ever happen again (the oracle has judged the stall)
	}
	return simcore.Op{"a": "sleep", "ms": 100, "idle": true}
}

// checkTermination is the C03 oracle, evaluated after every step of the synchronous suffix.
func (s *sim) checkTermination(idle bool) {
	if s.gstInfo == nil {
		for _, n := range s.nodes {
			if !n.isAlive() {
				return
			}
		}
		s.recordGST()
	}
	gi := s.gstInfo
	prop := "C03"
	if !s.env.Checking("C03") {
		prop = "C05" // "after any restart ... the node goes on committing"
	}
	if gi == nil || !s.env.Checking(prop) {
		return
	}
	all := true
	unr := s.unreachable()
	for _, n := range s.nodes {
		if !n.isAlive() {
			return
		}
		if n.bstore.Height() < gi.height && !unr[n.idx] {
			all = false
		}
	}
	if all {
		s.env.Count("probe.terminated_after_gst")
		return
	}
	// Precondition of the property: validators with more than two thirds of the power are
	// correct. A node whose signer refused a signature at this height (it had signed
	// something else before a crash and lost the record of why) is mute for those rounds:
	// it counts as faulty here.
	// the validator set of the height in question, as a node working on that height sees it
	vals := s.nodes[0].cs.GetRoundState().Validators
	for _, n := range s.nodes {
		if rs := n.cs.GetRoundState(); rs.Height == gi.height {
			vals = rs.Validators
			break
		}
	}
	var faulty, total int64
	nf := int32(len(s.byz))
	for _, v := range vals.Validators {
		total += v.VotingPower
		for _, b := range s.byz {
			if string(b.addr) == string(v.Address) {
				faulty += v.VotingPower
			}
		}
		for _, n := range s.nodes {
			if string(n.addr) == string(v.Address) && (s.refused[n.idx][gi.height] || unr[n.idx]) {
				faulty += v.VotingPower
				nf++
			}
		}
	}
	// A node that lost the WAL records of this height (known finding: #ENDHEIGHT marker lost
	// by a crash, see KNOWN_FINDINGS.txt) restarts with amnesia: it is not a correct process
	// in the sense of C03; for C05 ("after any restart ... the node goes on committing") a
	// stall it causes is reported under its own signature.
	sigSuffix := ""
	for _, n := range s.nodes {
		if n.walPoisoned {
			if prop == "C03" {
				for _, v := range vals.Validators {
					if string(n.addr) == string(v.Address) && !s.refused[n.idx][gi.height] {
						faulty += v.VotingPower
						nf++
					}
				}
			} else {
				sigSuffix = "-after-endheight-marker-loss"
			}
		}
	}
	if 3*faulty >= total {
		s.env.Count("probe.liveness_precondition_unmet")
		return
	}
	bound := gi.rmax + 2*(gi.rmax-gi.rmin) + 2*(nf+1) + 2
	if bound > gi.deadline {
		gi.deadline = bound
	}
	for _, n := range s.nodes {
		rs := n.cs.GetRoundState()
		if rs.Height == gi.height && rs.Round > gi.deadline {
			s.env.Fail(prop, "no-termination"+sigSuffix, "node %d entered round %d of height %d after the synchrony point (rounds at GST: max %d min %d, %d Byzantine validators, bound %d) and height %d is still undecided at some correct node", n.idx, rs.Round, gi.height, gi.rmax, gi.rmin, len(s.byz), gi.deadline, gi.height)
		}
	}
	if s.cfg.Bool("real_ticker") {
		if s.stalledFor() > 120*time.Second {
			desc := ""
			for _, n := range s.nodes {
				rs := n.cs.GetRoundState()
				desc += fmt.Sprintf(" n%d:%d/%d/%d(store %d)", n.idx, rs.Height, rs.Round, rs.Step, n.bstore.Height())
			}
			s.env.Fail(prop, "stall"+sigSuffix, "after the synchrony point no correct node changed height/round/step for 120 simulated seconds, but height %d is undecided at some correct node:%s", gi.height, desc)
		}
		return
	}
	if idle {
		// verify idleness here: a replayed (reduced) trace must not be trusted on it
		if len(s.deliverables()) > 0 {
			idle = false
		}
		for _, n := range s.nodes {
			if n.ticker != nil {
				if _, _, ok := n.ticker.Pending(); ok {
					idle = false
				}
			}
		}
	}
	if idle {
		s.idleSteps++
		if s.idleSteps > 3 {
			desc := ""
			for _, n := range s.nodes {
				rs := n.cs.GetRoundState()
				desc += fmt.Sprintf(" n%d:%d/%d/%d(store %d", n.idx, rs.Height, rs.Round, rs.Step, n.bstore.Height())
				if pv := rs.Votes.Prevotes(rs.Round); pv != nil {
					desc += " pv=" + pv.BitArray().String()
				}
				if pc := rs.Votes.Precommits(rs.Round); pc != nil {
					desc += " pc=" + pc.BitArray().String()
				}
				desc += fmt.Sprintf(" refused=%v)", s.refused[n.idx][rs.Height])
			}
			s.deliverables()
			sk := s.lastSkipped
			if len(sk) > 6 {
				sk = sk[:6]
			}
			s.env.Fail(prop, "stall"+sigSuffix, "after the synchrony point nothing is deliverable and no timeout is pending, but height %d is undecided at some correct node:%s (offered before without effect: %d items, e.g. %v)", gi.height, desc, len(s.lastSkipped), sk)
		}
	} else {
		s.idleSteps = 0
	}
}

// noteRefusal records that a node's signer refused to sign at a height (typ 0: a proposal).
func (s *sim) noteRefusal(n *simNode, h int64, r int32, typ int) {
	n.mu.Lock()
	starting := n.starting
	if starting {
		n.replayRefused = append(n.replayRefused, refusal{h, r, typ})
	}
	n.mu.Unlock()
	if starting {
		// WAL replay re-derives the votes of earlier rounds and the signer refuses them as
		// regressions; normally the votes themselves are in the WAL and are replayed, nobody is
		// muted. Whether that is so is judged when the replay is over (settleReplayRefusals).
		s.env.Count("probe.sign_refused_during_replay")
		return
	}
	s.markRefused(n, h)
}

type refusal struct {
	h   int64
	r   int32
	typ int
}

func (s *sim) markRefused(n *simNode, h int64) {
	if s.refused == nil {
		s.refused = map[int]map[int64]bool{}
	}
	if s.refused[n.idx] == nil {
		s.refused[n.idx] = map[int64]bool{}
	}
	s.refused[n.idx][h] = true
}

// settleReplayRefusals: a signature refused during the WAL replay leaves the node mute for
// that round unless the replay also brought the node's own message back (the crash fell
// between the signer's state write and the WAL write: the signer remembers, the WAL does not).
func (s *sim) settleReplayRefusals(n *simNode) {
	n.mu.Lock()
	rr := n.replayRefused
	n.replayRefused = nil
	n.mu.Unlock()
	if len(rr) == 0 || n.cs == nil || !n.isAlive() {
		return
	}
	rs := n.cs.GetRoundState()
	for _, x := range rr {
		have := x.h < rs.Height
		if x.h == rs.Height {
			if x.typ == 0 {
				have = x.r < rs.Round || rs.Proposal != nil
			} else if vs := voteSetOf(rs, x.r, x.typ); vs != nil {
				have = vs.GetByAddress(n.addr) != nil
			}
		}
		if !have {
			s.env.Count("probe.replay_refusal_left_node_mute")
			s.markRefused(n, x.h)
		}
	}
}

// stalledFor returns how long (simulated) no live node has changed its height/round/step.
func (s *sim) stalledFor() time.Duration {
	sig := ""
	for _, n := range s.nodes {
		if n.isAlive() {
			rs := n.cs.GetRoundState()
			sig += fmt.Sprintf("%d/%d/%d;", rs.Height, rs.Round, rs.Step)
		}
	}
	if sig != s.lastHRS || s.lastHRSAt.IsZero() {
		s.lastHRS, s.lastHRSAt = sig, time.Now()
	}
	return time.Since(s.lastHRSAt)
}

// unreachable reports nodes that have fallen behind the base of every other node's block
// store (the application asked to prune): consensus gossip cannot serve them any more (a
// real node would block-sync or state-sync), so they are not live participants.
func (s *sim) unreachable() map[int]bool {
	out := map[int]bool{}
	for _, n := range s.nodes {
		if !n.isAlive() {
			continue
		}
		h := n.cs.GetRoundState().Height
		// nodes ahead of n are the only ones that can bring it up; if all of them have pruned
		// height h, nobody can
		ahead, served := 0, false
		for _, m := range s.nodes {
			if m == n || !m.isAlive() || m.cs.GetRoundState().Height <= h {
				continue
			}
			ahead++
			if m.bstore.Base() <= h {
				served = true
			}
		}
		if ahead > 0 && !served {
			out[n.idx] = true
		}
	}
	return out
}
