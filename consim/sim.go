package consim

import (
	"bytes"
	"fmt"
	"os"
	"sort"
	"time"

	abci "github.com/tendermint/tendermint/abci/types"
	cs "github.com/tendermint/tendermint/consensus"
	cstypes "github.com/tendermint/tendermint/consensus/types"
	auto "github.com/tendermint/tendermint/libs/autofile"
	"github.com/tendermint/tendermint/libs/fail"
	tmos "github.com/tendermint/tendermint/libs/os"
	"github.com/tendermint/tendermint/libs/tempfile"
	"github.com/tendermint/tendermint/p2p"
	tmproto "github.com/tendermint/tendermint/proto/tendermint/types"
	"github.com/tendermint/tendermint/types"
	tmtime "github.com/tendermint/tendermint/types/time"

	"runtime"

	"verif/simcore"
)

// sim is one consim run.
type sim struct {
	env *simcore.Env
	cfg simcore.Op

	chainID string
	genDoc  *types.GenesisDoc
	nodes   []*simNode
	nVals   int
	byz     []*byzVal // Byzantine validators (simulator-held keys)
	bz      byzState
	powers  []int64 // genesis powers, validators 0..nVals-1 then byz

	cur          *simNode // node being stimulated (for the global hooks)
	driverInNode bool
	group        []int // partition group id per node
	gst          bool
	gstInfo      *gstInfo
	opsLeft      int
	maxRound     int32
	txSeq        int
	tried        map[string]string // (receiver,item) -> receiver state stamp at last delivery
	claimed      map[string]string // (receiver incarnation, holder>receiver, h/r/type) -> block id of the majority claim made
	armed        map[int]simcore.Op
	earlyDone    bool
	targetH      int64
	idleSteps    int
	idleNext     int
	refused      map[int]map[int64]bool
	dir          *forkDirector
	wrng         *simcore.RNG
	lastHRS      string
	lastSkipped  []string
	starved      int   // commit_starve: the node that waited in the commit step, its height and commit round
	starvedH     int64
	starvedR     int32
	starvedLeft  bool
	inflight     []*inflightMsg
	inflightSeq  int
	lastHRSAt    time.Time

	mon *monitor
}

// inflightMsg is a message that left its sender but has not arrived yet: it is delivered
// later whatever round the receiver has reached by then (asynchrony: late messages from
// old rounds).
type inflightMsg struct {
	id   int
	kind string // proposal | part | vote
	to   int
	peer p2p.ID
	h    int64
	r    int32
	prop *types.Proposal
	part *types.Part
	vote *types.Vote
}

type gstInfo struct {
	at       int // op index
	height   int64
	rmax     int32
	rmin     int32
	deadline int32 // round bound
}

func (s *sim) genDocCopy() *types.GenesisDoc {
	g := *s.genDoc
	g.Validators = append([]types.GenesisValidator{}, s.genDoc.Validators...)
	cp := *s.genDoc.ConsensusParams
	g.ConsensusParams = &cp
	return &g
}

func (s *sim) walOptions() []func(*auto.Group) {
	if hl := s.cfg.Int("wal_head_limit"); hl > 0 {
		return []func(*auto.Group){auto.GroupHeadSizeLimit(int64(hl)), auto.GroupCheckDuration(1 * time.Second)}
	}
	return nil
}

// ---------------------------------------------------------------- configuration

// sweepGroup is the number of crash points enumerated per workload in sweep mode.
const sweepGroup = 384

func genConfig(rng *simcore.RNG, env *simcore.Env) simcore.Op {
	prop := env.Prop
	crashy := prop == "C04" || prop == "C05" || prop == "C15" || prop == "C18"
	// Crash-point enumeration (fault_enumeration claim): in the thorough tier every second
	// run belongs to a sweep: workload w = index/sweepGroup (schedule drawn from a PRNG that
	// depends only on w), crashed at persistence point k = index%sweepGroup+1 of the chosen
	// node's first incarnation, with one of three durable-image variants.
	if crashy && (env.Thorough() || env.RunIndex%8 == 0) && env.RunIndex%2 == 0 {
		idx := env.RunIndex / 2
		w, k := idx/sweepGroup, idx%sweepGroup+1
		c := baseConfig(simcore.NewRNG(simcore.Mix(env.BatchSeed^0x5eed5eed, w)), env)
		c["sweep_w"], c["sweep_k"] = w, k
		c["crash"], c["partition"], c["skew"], c["gst"], c["nemesis"] = false, false, false, true, "none"
		if c.Int("heights") > 3 {
			c["heights"] = 3
		}
		return c
	}
	return baseConfig(rng, env)
}

func baseConfig(rng *simcore.RNG, env *simcore.Env) simcore.Op {
	c := simcore.Op{}
	prop := env.Prop
	nv := rng.Range(1, 4)
	nbyz := 0
	switch prop {
	case "C04", "C05", "C15", "C18":
		nv = rng.Range(1, 3)
	case "C01", "C03", "C06", "C10", "C11":
		nv = rng.Range(3, 5)
		if rng.Bool(0.7) {
			nbyz = 1
		}
	case "C02":
		nv = rng.Range(3, 4)
		nbyz = 1
		if rng.Bool(0.5) {
			// one real validator; the adversary holds every other key, with unconstrained power
			nv, nbyz = 1, rng.Range(1, 3)
			c["oneval"] = true
		}
	}
	if env.Thorough() && rng.Bool(0.3) {
		nv++
	}
	c["nvals"] = nv
	c["nbyz"] = nbyz
	// powers: byz power must stay < 1/3 of the total
	var pw []int
	tot := 0
	for i := 0; i < nv; i++ {
		p := rng.Range(1, 10)
		if rng.Bool(0.5) {
			p = 10
		}
		pw = append(pw, p)
		tot += p
	}
	for i := 0; i < nbyz && c.Bool("oneval"); i++ {
		pw = append(pw, []int{1, 3, 10, 40, 100}[rng.Intn(5)])
	}
	for i := 0; i < nbyz && !c.Bool("oneval"); i++ {
		max := (tot - 1) / 2 // b < (tot+b)/3  <=>  2b < tot
		if max < 1 {
			max = 1
		}
		b := rng.Range(1, max)
		if rng.Bool(0.5) {
			b = max // as close to 1/3 as allowed
		}
		if 2*b >= tot {
			b = 0
		}
		pw = append(pw, b)
	}
	c["powers"] = pw
	c["hash_len"] = []int{1, 8, 20, 32}[rng.Intn(4)]
	c["mempool"] = []string{"v0", "v1"}[rng.Intn(2)]
	c["skip_timeout_commit"] = nv > 1 && rng.Bool(0.5)
	// the shipped consensus/ticker.go on the fake clock instead of the simulator's ticker
	c["real_ticker"] = (prop == "C03" && rng.Bool(0.4)) || (prop != "C03" && rng.Bool(0.1))
	c["heights"] = rng.Range(2, 5)
	c["nops"] = rng.Range(150, 700)
	if env.Thorough() {
		c["heights"] = rng.Range(2, 9)
		c["nops"] = rng.Range(200, 1500)
	}
	c["initial_height"] = []int{1, 1, 1, 7, 100000 - 2}[rng.Intn(5)]
	c["timeout_rate"] = []int{2, 5, 10, 25}[rng.Intn(4)] // percent of steps that fire a timeout while messages are deliverable
	c["tx_rate"] = []int{0, 3, 8}[rng.Intn(3)]
	c["valtx"] = rng.Bool(0.4)
	c["partition"] = rng.Bool(0.4)
	crashy := prop == "C04" || prop == "C05" || prop == "C15" || prop == "C18"
	// C03: "regardless of what happened before that moment" includes crashes and restarts in the
	// middle of later rounds (the restarted node's timers must be right)
	c["crash"] = (crashy && rng.Bool(0.9)) || (!crashy && rng.Bool(0.25)) || (prop == "C03" && rng.Bool(0.35))
	c["crash_rate"] = []int{1, 2, 4}[rng.Intn(3)]
	c["wal_garbage"] = rng.Bool(0.4)
	c["early_crash"] = rng.Bool(0.25)
	c["torn_initial"] = rng.Bool(0.15)
	c["torn_initial_k"] = rng.Intn(64)
	// operators leave statesync.enable = true in the config of a node that has long had state:
	// it must be ignored there (restarts only, see node.go)
	c["stale_statesync"] = rng.Bool(0.3)
	c["wal_head_limit"] = []int{0, 0, 2000, 20000}[rng.Intn(4)]
	c["skew"] = rng.Bool(0.3)
	c["gst"] = prop == "C03" || rng.Bool(0.3)
	c["max_bytes"] = []int{0, 0, 4000, 22020096}[rng.Intn(4)]
	c["prune"] = (prop == "C18" && rng.Bool(0.7)) || rng.Bool(0.1)
	if c.Bool("prune") && c.Int("tx_rate") == 0 {
		c["tx_rate"] = 8
	}
	c["corrupt_parts"] = prop == "C10" || rng.Bool(0.1)
	c["big_txs"] = prop == "C10" && rng.Bool(0.8)
	if c.Bool("big_txs") && c.Int("tx_rate") == 0 {
		c["tx_rate"] = 8
	}
	c["inflight"] = rng.Bool(0.5) // messages may stay in flight and arrive rounds later
	c["nemesis"] = "none"
	if (prop == "C01" || prop == "C02") && rng.Bool(0.6) {
		c["nemesis"] = "fork"
		if rng.Bool(0.7) {
			c["crash"] = false
		}
	}
	// a faulty validator's vote timestamps are its own business: also far in the past
	// (both dimensions in C06 runs only: they were added in the last hours of the build and the
	// other properties' oracles have not been swept with them)
	c["byz_old_ts"] = prop == "C06" && rng.Bool(0.3)
	// equal voting powers of 1: quorum and median arithmetic at its smallest numbers
	if prop == "C06" && nbyz > 0 && !c.Bool("oneval") && nv >= 3 && rng.Bool(0.12) {
		up := make([]int, len(pw))
		for i := range up {
			up[i] = 1
		}
		c["powers"] = up
		c["unit_powers"] = true
	}
	c["relay_ahead"] = rng.Bool(0.4) // peers also relay votes of rounds the receiver has not reached
	// "a decision seen without its block": while a node sits in the commit step without the
	// block, the network withholds the block from it and the decisive precommits from the others
	c["commit_starve"] = rng.Bool(0.3)
	if c.Bool("commit_starve") {
		c["relay_ahead"] = true
		c["starve_victim"] = rng.Intn(8)
	}
	return c
}

// ---------------------------------------------------------------- construction

func newSim(env *simcore.Env, cfg simcore.Op) simcore.Sim {
	s := &sim{env: env, cfg: cfg, chainID: "consim-chain", tried: map[string]string{}, claimed: map[string]string{}, armed: map[int]simcore.Op{}}
	s.nVals = cfg.Int("nvals")
	for _, p := range cfg.Ints("powers") {
		s.powers = append(s.powers, int64(p))
	}
	s.opsLeft = cfg.Int("nops")
	s.mon = newMonitor(s)
	installHooks(s)
	for i := 0; i < s.nVals; i++ {
		s.nodes = append(s.nodes, newSimNode(s, i, true))
	}
	for i := 0; i < cfg.Int("nbyz"); i++ {
		s.byz = append(s.byz, newByzVal(s, s.nVals+i))
	}
	ih := int64(cfg.Int("initial_height"))
	if ih <= 0 {
		ih = 1
	}
	gd := &types.GenesisDoc{ChainID: s.chainID, InitialHeight: ih, GenesisTime: time.Now().UTC(), ConsensusParams: types.DefaultConsensusParams()}
	if mb := cfg.Int("max_bytes"); mb > 0 {
		gd.ConsensusParams.Block.MaxBytes = int64(mb)
		if gd.ConsensusParams.Evidence.MaxBytes > int64(mb)/3 {
			gd.ConsensusParams.Evidence.MaxBytes = int64(mb) / 3
		}
	}
	if cfg.Bool("prune") {
		// evidence older than 3 blocks is expired (both limits must be passed: the duration is 1ns)
		gd.ConsensusParams.Evidence.MaxAgeNumBlocks = 3
		gd.ConsensusParams.Evidence.MaxAgeDuration = 1
	}
	for i, n := range s.nodes {
		if s.powers[i] > 0 {
			gd.Validators = append(gd.Validators, types.GenesisValidator{Address: n.addr, PubKey: n.key.PubKey(), Power: s.powers[i], Name: n.name})
		}
	}
	for i, b := range s.byz {
		if p := s.powers[s.nVals+i]; p > 0 {
			gd.Validators = append(gd.Validators, types.GenesisValidator{Address: b.addr, PubKey: b.key.PubKey(), Power: p, Name: b.name})
		}
	}
	if err := gd.ValidateAndComplete(); err != nil {
		panic(err)
	}
	s.genDoc = gd
	s.targetH = ih + int64(cfg.Int("heights")) - 1
	s.group = make([]int, len(s.nodes))
	if cfg.Str("nemesis") == "fork" {
		s.dir = &forkDirector{}
	}
	sweepNode := -1
	if cfg.Has("sweep_k") {
		w := cfg.U64("sweep_w")
		s.wrng = simcore.NewRNG(simcore.Mix(env.BatchSeed^0xabcdef, w))
		sweepNode = int(w % uint64(len(s.nodes)))
		k := cfg.Int("sweep_k")
		keep := []int{1000, 0, 500}[k%3]
		s.armed[sweepNode] = simcore.Op{"db_keep": keep, "wal_keep": []int{1000, 0, 500}[(k/3)%3]}
		env.Count("probe.sweep_run")
	}
	for _, n := range s.nodes {
		if n.idx == sweepNode {
			n.sweepCrashAt = cfg.Int("sweep_k")
		}
		n.start()
		s.afterStimulus(n)
		if f := n.failureMsg(); f != "" {
			panic("consim: node failed to start: " + f)
		}
	}
	return s
}

func (n *simNode) failureMsg() string {
	n.mu.Lock()
	defer n.mu.Unlock()
	if n.failure != "" {
		return n.failure
	}
	return n.exited
}

// installHooks points the global verif hooks of /repo at this run.
func installHooks(s *sim) {
	fail.VerifFail = func() {
		if n := s.cur; n != nil {
			n.point("fail:Fail")
		}
	}
	tempfile.VerifPoint = func(label string) {
		if n := s.cur; n != nil {
			n.point(label)
		}
	}
	tmos.VerifExit = func(msg string) {
		if n := s.cur; n != nil {
			n.mu.Lock()
			n.exited = "exit: " + msg
			n.mu.Unlock()
			n.ctl.Kill()
			runtime.Goexit()
		}
		panic("tmos.Exit outside a simulated node: " + msg)
	}
	tmtime.VerifNow = func() (time.Time, bool) {
		if n := s.cur; n != nil && n.skew != 0 {
			return time.Now().Add(n.skew), true
		}
		return time.Time{}, false
	}
}

// ---------------------------------------------------------------- stimulate

// with runs f as the single stimulus of node n and settles.
func (s *sim) with(n *simNode, f func()) {
	s.cur = n
	syncs := -1
	var h0 int64
	if n != nil && n.wal != nil {
		n.mu.Lock()
		syncs = n.wal.syncs
		n.mu.Unlock()
		h0 = n.cs.GetRoundState().Height
	}
	f()
	s.env.Settle()
	if n != nil && n.cs != nil {
		n.cs.VerifDrainStats()
	}
	s.cur = nil
	if n != nil && n.wal != nil && n.isAlive() {
		n.mu.Lock()
		adv := n.wal.syncs != syncs
		n.mu.Unlock()
		if adv {
			rs := n.cs.GetRoundState()
			if rs.Height != h0 {
				// the height was finished in this event: what the node did in the new height
				// afterwards rests on records of the old height, which are not replayed; only
				// "it is in the new height" is durable
				n.durable = &rsSummary{h: rs.Height, r: 0, step: cstypes.RoundStepNewHeight, lockedR: -1, votes: map[string]string{}}
			} else {
				n.durable = summarize(rs)
			}
			n.durable.afterRepair = n.repairedAtBoot
			n.durable.noMarker = n.walPoisoned
			n.durable.markerCut = n.markerCut
		}
	}
	s.afterStimulus(n)
}

// afterStimulus completes crashes that the stimulus triggered.
func (s *sim) afterStimulus(n *simNode) {
	for _, m := range s.nodes {
		m.mu.Lock()
		crashed := m.crashed != nil
		m.mu.Unlock()
		if crashed {
			op := s.armed[m.idx]
			delete(s.armed, m.idx)
			if op == nil {
				op = simcore.Op{"db_keep": 1000, "wal_keep": 1000}
			}
			s.env.Count("fault.crash")
			s.env.Count("fault.crash_at." + pointClass(m.crashed.label))
			s.env.Logf("crash node=%d at=%s point=%d", m.idx, m.crashed.label, m.crashed.point)
			s.mon.onCrash(m, m.crashed)
			m.finishCrash(op)
		}
	}
}

func pointClass(label string) string {
	// db:<name>:<op>:pre|post  wal:<op>:<phase>  pv:..  abci:<Call>:pre|post  fail:Fail  tempfile:..
	for i := len(label) - 1; i >= 0; i-- {
		if label[i] == ':' {
			tail := label[i+1:]
			if tail == "pre" || tail == "post" || tail == "mid" {
				return label[:i]
			}
			break
		}
	}
	return label
}

func (s *sim) connected(i, j int) bool { return s.group[i] == s.group[j] }

func (s *sim) alive() []*simNode {
	var out []*simNode
	for _, n := range s.nodes {
		if n.isAlive() {
			out = append(out, n)
		}
	}
	return out
}

// ---------------------------------------------------------------- gossip items

type item struct {
	kind string // proposal | part | vote | cpart (catch-up part) | cvote (catch-up commit vote)
	from int    // holder (node index; -1-b for Byzantine validator b)
	to   int
	h    int64
	r    int32
	typ  int // 1 prevote 2 precommit
	val  int // validator index
	part int
	id   string // Byzantine item id
	mut  string // corruption applied in transit (block parts)
}

func (it item) key() string {
	return fmt.Sprintf("%s/%d>%d/%d/%d/%d/%d/%d/%s", it.kind, it.from, it.to, it.h, it.r, it.typ, it.val, it.part, it.id)
}

func (it item) op() simcore.Op {
	op := simcore.Op{"a": "deliver", "k": it.kind, "from": it.from, "to": it.to, "h": it.h, "r": it.r, "t": it.typ, "v": it.val, "p": it.part}
	if it.id != "" {
		op["id"] = it.id
	}
	if it.mut != "" {
		op["mut"] = it.mut
	}
	return op
}

func itemFromOp(op simcore.Op) item {
	return item{kind: op.Str("k"), from: op.Int("from"), to: op.Int("to"), h: op.Int64("h"), r: int32(op.Int("r")), typ: op.Int("t"), val: op.Int("v"), part: op.Int("p"), id: op.Str("id"), mut: op.Str("mut")}
}

func stamp(rs *cstypes.RoundState) string {
	return fmt.Sprintf("%d/%d/%d", rs.Height, rs.Round, rs.Step)
}

func voteSetOf(rs *cstypes.RoundState, r int32, typ int) *types.VoteSet {
	if rs.Votes == nil {
		return nil
	}
	if typ == 1 {
		return rs.Votes.Prevotes(r)
	}
	return rs.Votes.Precommits(r)
}

// deliverables enumerates what the production reactors could move between connected,
// live, correct nodes right now (state-based gossip).
func (s *sim) deliverables() []item {
	var out []item
	s.lastSkipped = s.lastSkipped[:0]
	live := s.alive()
	rss := map[int]*cstypes.RoundState{}
	for _, n := range live {
		rss[n.idx] = n.cs.GetRoundState()
		if rss[n.idx].Round > s.maxRound {
			s.maxRound = rss[n.idx].Round
		}
	}
	for _, a := range live {
		ra := rss[a.idx]
		for _, b := range live {
			if a == b || !s.connected(a.idx, b.idx) {
				continue
			}
			rb := rss[b.idx]
			st := fmt.Sprintf("%d:%s", b.inc, stamp(rb))
			add := func(it item) {
				if s.tried[it.key()] == st {
					s.lastSkipped = append(s.lastSkipped, it.key())
					return
				}
				out = append(out, it)
			}
			switch {
			case ra.Height == rb.Height:
				if ra.Proposal != nil && rb.Proposal == nil && ra.Round == rb.Round {
					add(item{kind: "proposal", from: a.idx, to: b.idx, h: ra.Height, r: ra.Round})
				}
				if ra.ProposalBlockParts != nil && rb.ProposalBlockParts != nil && ra.ProposalBlockParts.HasHeader(rb.ProposalBlockParts.Header()) && !rb.ProposalBlockParts.IsComplete() {
					ha, hb := ra.ProposalBlockParts.BitArray(), rb.ProposalBlockParts.BitArray()
					for i := 0; i < int(ra.ProposalBlockParts.Total()); i++ {
						if ha.GetIndex(i) && !hb.GetIndex(i) {
							add(item{kind: "part", from: a.idx, to: b.idx, h: ra.Height, r: ra.Round, part: i})
						}
					}
				}
				// Votes: what consensus/reactor.go gossipVotesForHeight relays to a peer of the
				// same height — the votes of the RECEIVER's round (if the holder has reached that
				// round) and the prevotes of the receiver's proposal POL round. Relaying more
				// (votes of rounds the receiver has not reached) would spend the receiver's
				// per-peer catch-up-round quota (HeightVoteSet) in a way production never does.
				rounds := map[int32]bool{}
				if rb.Round <= ra.Round {
					rounds[rb.Round] = true
				}
				polRound := int32(-1)
				if rb.Proposal != nil && rb.Proposal.POLRound >= 0 {
					polRound = rb.Proposal.POLRound
					rounds[polRound] = true
				}
				// After the synchrony point the property's premise is idealised gossip ("every message
				// a correct node holds reaches every other correct node, majority claims included"):
				// the precommits of a round in which the holder has +2/3 for a block - a decision
				// certificate - reach the others whatever round they are in. (Production relays votes
				// of the receiver's round only; a node that sits in the commit step of an earlier
				// round and peers that have moved on can then wait for each other for ever - outside
				// C03's premise, noted in DESIGN 13.3.)
				certRound := int32(-1)
				if s.gst {
					for r := int32(0); r <= ra.Round; r++ {
						if pc := ra.Votes.Precommits(r); pc != nil {
							if id, ok := pc.TwoThirdsMajority(); ok && len(id.Hash) > 0 {
								certRound = r
							}
						}
					}
					if certRound >= 0 {
						rounds[certRound] = true
					}
				}
				// Votes of a round the receiver has not reached. The shipped gossip routine never
				// sends them, but any peer may: "every message a correct node holds reaches every
				// other correct node" after the synchrony point, and before it a (faulty or merely
				// differently built) peer relaying genuine votes is ordinary asynchrony. They are what
				// round skipping (+2/3-any of a later round) exists for.
				aheadRound := int32(-1)
				if ra.Round > rb.Round && (s.gst || s.cfg.Bool("relay_ahead")) {
					aheadRound = ra.Round
					rounds[aheadRound] = true
				}
				for r := int32(0); r <= s.maxRound+2; r++ {
					if !rounds[r] {
						continue
					}
					for typ := 1; typ <= 2; typ++ {
						if r == polRound && r != rb.Round && typ == 2 && r != certRound && r != aheadRound {
							continue
						}
						if r == certRound && r != rb.Round && r != polRound && r != aheadRound && typ == 1 {
							continue
						}
						va := voteSetOf(ra, r, typ)
						if va == nil {
							continue
						}
						vb := voteSetOf(rb, r, typ)
						// majority claim (reactor: queryMaj23Routine / VoteSetMaj23): lets the
						// receiver count votes for that block that conflict with ones it already holds
						maj, hasMaj := va.TwoThirdsMajority()
						claimed := hasMaj && s.claimed[fmt.Sprintf("%d/%d>%d/%d/%d/%d", b.inc, a.idx, b.idx, ra.Height, r, typ)] == bidStr(maj)
						if hasMaj && vb != nil && !claimed {
							add(item{kind: "maj23", from: a.idx, to: b.idx, h: ra.Height, r: r, typ: typ})
						}
						var byBlock interface{ GetIndex(int) bool }
						if claimed && vb != nil {
							if ba := vb.BitArrayByBlockID(maj); ba != nil {
								byBlock = ba
							}
						}
						for v := 0; v < ra.Validators.Size(); v++ {
							vote := va.GetByIndex(int32(v))
							if vote == nil {
								continue
							}
							if vb != nil && vb.GetByIndex(int32(v)) != nil {
								// the receiver holds a vote of this validator; after a majority claim a
								// vote for the claimed block that it does not count yet is still wanted
								if !(claimed && vote.BlockID.Equals(maj) && (byBlock == nil || !byBlock.GetIndex(v))) {
									continue
								}
							}
							add(item{kind: "vote", from: a.idx, to: b.idx, h: ra.Height, r: r, typ: typ, val: v})
						}
					}
				}
			case rb.Height < ra.Height:
				// catch-up: commit precommits and block parts of the receiver's height
				commit := s.commitFor(a, ra, rb.Height)
				if debugLog {
					fmt.Fprintf(os.Stderr, "CATCHUP %d->%d h=%d commit=%v lastcommit=%v\n", a.idx, b.idx, rb.Height, commit != nil, ra.LastCommit != nil)
					if commit != nil {
						fmt.Fprintf(os.Stderr, "   round=%d sigs=%v vb=%v\n", commit.Round, commit.BitArray(), voteSetOf(rb, commit.Round, 2) != nil)
					}
				}
				if commit != nil {
					vb := voteSetOf(rb, commit.Round, 2)
					claimed := s.claimed[fmt.Sprintf("%d/%d>%d/%d/%d/%d", b.inc, a.idx, b.idx, rb.Height, commit.Round, 2)] == bidStr(commit.BlockID)
					if vb != nil && !claimed {
						add(item{kind: "cmaj23", from: a.idx, to: b.idx, h: rb.Height, r: commit.Round, typ: 2})
					}
					var byBlock interface{ GetIndex(int) bool }
					if claimed && vb != nil {
						if ba := vb.BitArrayByBlockID(commit.BlockID); ba != nil {
							byBlock = ba
						}
					}
					for v, sig := range commit.Signatures {
						if sig.Absent() {
							continue
						}
						if vb != nil && vb.GetByIndex(int32(v)) != nil {
							if !(claimed && sig.ForBlock() && (byBlock == nil || !byBlock.GetIndex(v))) {
								continue
							}
						}
						add(item{kind: "cvote", from: a.idx, to: b.idx, h: rb.Height, r: commit.Round, typ: 2, val: v})
					}
				}
				if rb.ProposalBlockParts != nil && !rb.ProposalBlockParts.IsComplete() {
					if meta := a.bstore.LoadBlockMeta(rb.Height); meta != nil && rb.ProposalBlockParts.HasHeader(meta.BlockID.PartSetHeader) {
						hb := rb.ProposalBlockParts.BitArray()
						for i := 0; i < int(meta.BlockID.PartSetHeader.Total); i++ {
							if !hb.GetIndex(i) {
								add(item{kind: "cpart", from: a.idx, to: b.idx, h: rb.Height, r: rb.Round, part: i})
							}
						}
					}
				}
			}
		}
	}
	out = append(out, s.byzDeliverables(rss)...)
	return out
}

// Commit-starve bias (asynchrony before the synchrony point; "a decision seen without its
// block"). One correct node, the victim, never receives a block while at least two other
// correct nodes work on the same height; the others are denied every precommit that would
// complete a +2/3 majority for a block at them (and all precommits of faulty validators), so
// the victim is the first to know the decision - without the block - while the others only see
// +2/3 of any precommits, time out into later rounds and vote there. Those later-round votes
// are relayed to the victim (relay_ahead). Once the victim has left the commit step without
// deciding, or has decided, the withheld precommits flow again. starveFilter removes the
// withheld items, starveSteer prefers the deliveries and timeouts that drive the scenario.
func (s *sim) starveScene() (v int, rss map[int]*cstypes.RoundState, ok bool) {
	v = s.cfg.Int("starve_victim") % len(s.nodes)
	rss = s.roundStates()
	rv := rss[v]
	if rv == nil {
		return v, rss, false
	}
	same := 0
	for i, rs := range rss {
		if i != v && rs.Height == rv.Height {
			same++
		}
	}
	return v, rss, same >= 2
}

func (s *sim) starveFilter(items []item) []item {
	v, rss, ok := s.starveScene()
	if !ok {
		return items
	}
	rv := rss[v]
	released := s.starvedH == rv.Height && s.starvedLeft
	if rv.Step == cstypes.RoundStepCommit && rv.ProposalBlock == nil {
		s.starved, s.starvedH, s.starvedR, s.starvedLeft = v, rv.Height, rv.CommitRound, false
	} else if s.starvedH == rv.Height && !s.starvedLeft && rv.Step != cstypes.RoundStepCommit {
		s.starvedLeft = true // it left the commit step without deciding
		released = true
	}
	total := rv.Validators.TotalVotingPower()
	var out []item
	for _, it := range items {
		if it.to == v && it.h == rv.Height && (it.kind == "part" || it.kind == "cpart" || it.kind == "proposal" || it.kind == "bprop" || it.kind == "bpart") {
			continue
		}
		if !released && it.to != v && it.to >= 0 && it.h == rv.Height && it.typ == 2 {
			if it.from < 0 || it.kind == "maj23" || it.kind == "cmaj23" {
				continue
			}
			if it.kind == "vote" && it.from < len(s.nodes) {
				ro, ra := rss[it.to], rss[it.from]
				if ro != nil && ra != nil && ra.Height == it.h && ro.Height == it.h {
					if va := voteSetOf(ra, it.r, 2); va != nil {
						if vote := va.GetByIndex(int32(it.val)); vote != nil && len(vote.BlockID.Hash) > 0 {
							have := int64(0)
							if vo := voteSetOf(ro, it.r, 2); vo != nil {
								for i, val := range ro.Validators.Validators {
									if x := vo.GetByIndex(int32(i)); x != nil && x.BlockID.Equals(vote.BlockID) {
										have += val.VotingPower
									}
								}
							}
							_, val := ra.Validators.GetByIndex(int32(it.val))
							if val != nil && 3*(have+val.VotingPower) > 2*total {
								continue
							}
						}
					}
				}
			}
		}
		out = append(out, it)
	}
	s.env.Count("probe.commit_starve_active")
	return out
}

func (s *sim) starveSteer(rng *simcore.RNG, items []item, pend []*simNode) simcore.Op {
	v, rss, ok := s.starveScene()
	if !ok || !rng.Bool(0.6) {
		return nil
	}
	rv := rss[v]
	pick := func(f func(it item) bool) simcore.Op {
		var sel []item
		for _, it := range items {
			if f(it) {
				sel = append(sel, it)
			}
		}
		if len(sel) == 0 {
			return nil
		}
		return sel[rng.Intn(len(sel))].op()
	}
	if s.starvedH == rv.Height && s.starvedLeft {
		// the others now learn the decision and move on
		return pick(func(it item) bool {
			return it.to != v && it.from >= 0 && it.h == rv.Height && it.typ == 2 && it.r == s.starvedR && it.kind == "vote"
		})
	}
	if rv.Step != cstypes.RoundStepCommit {
		// the victim learns the others' votes first
		if op := pick(func(it item) bool { return it.to == v && it.h == rv.Height && it.kind == "vote" }); op != nil {
			return op
		}
		return nil
	}
	if op := pick(func(it item) bool { return it.to == v && it.kind == "vote" && it.h == rv.Height && it.r > rv.Round }); op != nil {
		return op
	}
	if s.cfg.Bool("real_ticker") {
		return nil
	}
	var others []*simNode
	for _, n := range pend {
		if rs := rss[n.idx]; n.idx != v && rs != nil && rs.Height == rv.Height && rs.Step != cstypes.RoundStepCommit {
			others = append(others, n)
		}
	}
	if len(others) > 0 {
		n := others[rng.Intn(len(others))]
		ti, _, _ := n.ticker.Pending()
		return simcore.Op{"a": "timeout", "node": n.idx, "dt": rng.Intn(int(ti.Duration/time.Millisecond) + 1)}
	}
	return nil
}

// commitFor returns the commit for height h as node a can serve it.
func (s *sim) commitFor(a *simNode, ra *cstypes.RoundState, h int64) *types.Commit {
	if h == ra.Height-1 && ra.LastCommit != nil && ra.LastCommit.HasTwoThirdsMajority() {
		return ra.LastCommit.MakeCommit()
	}
	if h < a.bstore.Base() || h > a.bstore.Height() {
		return nil
	}
	if h == a.bstore.Height() {
		return a.bstore.LoadSeenCommit(h)
	}
	return a.bstore.LoadBlockCommit(h)
}

// deliver applies one gossip item; false if it is not (any longer) enabled.
func (s *sim) deliver(it item) bool {
	if it.from < 0 {
		return s.byzDeliver(it)
	}
	if it.from >= len(s.nodes) || it.to < 0 || it.to >= len(s.nodes) || it.from == it.to {
		return false
	}
	a, b := s.nodes[it.from], s.nodes[it.to]
	if !a.isAlive() || !b.isAlive() || !s.connected(a.idx, b.idx) {
		return false
	}
	ra, rb := a.cs.GetRoundState(), b.cs.GetRoundState()
	if rb.Height != it.h {
		return false
	}
	s.tried[it.key()] = fmt.Sprintf("%d:%s", b.inc, stamp(rb))
	switch it.kind {
	case "proposal":
		if ra.Height != it.h || ra.Round != it.r || ra.Proposal == nil {
			return false
		}
		p := *ra.Proposal
		s.mon.onDeliverProposal(b, &p)
		s.with(b, func() { b.cs.SetProposal(&p, a.peer) })
	case "part":
		if ra.Height != it.h || ra.ProposalBlockParts == nil {
			return false
		}
		part := ra.ProposalBlockParts.GetPart(it.part)
		if part == nil {
			return false
		}
		if it.mut != "" {
			return s.deliverMutatedPart(a, b, ra.ProposalBlockParts, rb, it, part)
		}
		s.mon.onDeliverPart(b, it.h, part)
		s.with(b, func() { b.cs.AddProposalBlockPart(it.h, it.r, part, a.peer) })
	case "vote":
		if ra.Height != it.h {
			return false
		}
		vs := voteSetOf(ra, it.r, it.typ)
		if vs == nil {
			return false
		}
		v := vs.GetByIndex(int32(it.val))
		if v == nil {
			return false
		}
		s.mon.onDeliverVote(b, v)
		s.with(b, func() { b.cs.AddVote(v.Copy(), a.peer) })
	case "maj23", "cmaj23":
		var bid types.BlockID
		if it.kind == "maj23" {
			if ra.Height != it.h {
				return false
			}
			vs := voteSetOf(ra, it.r, it.typ)
			if vs == nil {
				return false
			}
			m, ok := vs.TwoThirdsMajority()
			if !ok {
				return false
			}
			bid = m
		} else {
			commit := s.commitFor(a, ra, it.h)
			if commit == nil || commit.Round != it.r {
				return false
			}
			bid = commit.BlockID
		}
		typ := tmproto.PrevoteType
		if it.typ == 2 {
			typ = tmproto.PrecommitType
		}
		if err := rb.Votes.SetPeerMaj23(it.r, typ, a.peer, bid); err != nil {
			s.env.Count("probe.maj23_claim_refused")
		} else {
			s.mon.onMaj23Claim(b, it.h, it.r, it.typ, bid)
		}
		s.claimed[fmt.Sprintf("%d/%d>%d/%d/%d/%d", b.inc, a.idx, b.idx, it.h, it.r, it.typ)] = bidStr(bid)
	case "cvote":
		commit := s.commitFor(a, ra, it.h)
		if commit == nil || it.val >= len(commit.Signatures) || commit.Signatures[it.val].Absent() {
			return false
		}
		v := commit.GetVote(int32(it.val))
		s.mon.onDeliverVote(b, v)
		s.with(b, func() { b.cs.AddVote(v, a.peer) })
	case "cpart":
		if it.h < a.bstore.Base() || it.h > a.bstore.Height() {
			return false
		}
		part := a.bstore.LoadBlockPart(it.h, it.part)
		if part == nil {
			return false
		}
		s.mon.onDeliverPart(b, it.h, part)
		s.with(b, func() { b.cs.AddProposalBlockPart(it.h, rb.Round, part, a.peer) })
	default:
		return false
	}
	s.env.Count("op.deliver." + it.kind)
	return true
}

// ---------------------------------------------------------------- action generation

func (s *sim) minHeight() int64 {
	min := int64(-1)
	for _, n := range s.nodes {
		h := n.committedHeight()
		if min < 0 || h < min {
			min = h
		}
	}
	return min
}

func (n *simNode) committedHeight() int64 {
	if n.bstore != nil && n.isAlive() {
		return n.bstore.Height()
	}
	return n.lastHeight
}

func (s *sim) Next(rng *simcore.RNG) simcore.Op {
	if s.wrng != nil {
		rng = s.wrng // sweep mode: the schedule depends only on the workload number
	}
	if s.opsLeft <= 0 {
		if s.cfg.Bool("gst") && !s.gst {
			return simcore.Op{"a": "gst"}
		}
		if s.gst {
			s.env.Count("probe.gst_budget_exhausted")
		}
		return nil
	}
	s.opsLeft--
	if s.gst {
		return s.nextSync(rng)
	}
	// done when every node reached the target height
	if s.minHeight() >= s.targetH && len(s.alive()) == len(s.nodes) {
		if s.cfg.Bool("gst") && s.gstInfo == nil {
			return simcore.Op{"a": "gst"}
		}
		return nil
	}
	if s.cfg.Bool("crash") && s.cfg.Bool("early_crash") && !s.earlyDone && s.wrng == nil && len(s.armed) == 0 && len(s.alive()) == len(s.nodes) {
		// a crash inside a node's very first persistent writes (the WAL's initial marker, the
		// first sign-state write): a state that later restarts build on
		s.earlyDone = true
		n := s.nodes[rng.Intn(len(s.nodes))]
		return simcore.Op{"a": "crash", "node": n.idx, "after": rng.Range(1, 4), "db_keep": rng.Intn(1001), "wal_keep": rng.Intn(1001)}
	}
	dirActive := false
	if s.dir != nil && s.dir.phase != 9 {
		if op := s.dir.next(s, rng); op != nil {
			return op
		}
		dirActive = s.dir.phase >= 1 && s.dir.phase <= 4
	}
	items := s.deliverables()
	if s.cfg.Bool("commit_starve") {
		items = s.starveFilter(items)
	}
	var pend []*simNode
	for _, n := range s.alive() {
		if n.ticker != nil {
			if _, _, ok := n.ticker.Pending(); ok {
				pend = append(pend, n)
			}
		}
	}
	var dead []*simNode
	for _, n := range s.nodes {
		if !n.isAlive() && n.startFails < 2 {
			dead = append(dead, n)
		}
	}
	if s.cfg.Bool("commit_starve") && !dirActive {
		if op := s.starveSteer(rng, items, pend); op != nil {
			return op
		}
	}
	roll := rng.Intn(1000)
	switch {
	case len(dead) > 0 && roll < 60:
		return simcore.Op{"a": "restart", "node": dead[rng.Intn(len(dead))].idx}
	case !dirActive && s.cfg.Bool("crash") && roll < 60+5*s.cfg.Int("crash_rate") && len(s.alive()) > 0 && len(s.armed) == 0:
		n := s.alive()[rng.Intn(len(s.alive()))]
		op := simcore.Op{"a": "crash", "node": n.idx, "after": rng.Range(1, 40), "db_keep": rng.Intn(1001), "wal_keep": rng.Intn(1001)}
		if rng.Bool(0.3) {
			op["db_keep"] = []int{0, 1000}[rng.Intn(2)]
		}
		if rng.Bool(0.3) {
			op["wal_keep"] = []int{0, 1000}[rng.Intn(2)]
		}
		if s.cfg.Bool("wal_garbage") && rng.Bool(0.3) {
			op["wal_garb"] = rng.Range(1, 30)
			op["wal_garb_at"] = rng.Intn(100000)
			op["wal_garb_x"] = rng.Intn(255)
		}
		return op
	case !dirActive && s.cfg.Bool("partition") && roll < 100 && len(s.nodes) > 1:
		g := make([]int, len(s.nodes))
		if rng.Bool(0.5) {
			for i := range g {
				g[i] = rng.Intn(2)
			}
		}
		return simcore.Op{"a": "partition", "groups": g}
	case roll < 100+10*s.cfg.Int("tx_rate") && len(s.alive()) > 0:
		n := s.alive()[rng.Intn(len(s.alive()))]
		s.txSeq++
		tx := fmt.Sprintf("k%d=v%d", s.txSeq, rng.Intn(100))
		if s.cfg.Bool("big_txs") && rng.Bool(0.5) {
			tx = fmt.Sprintf("big%d=%d", s.txSeq, rng.Range(20000, 70000))
		}
		if s.cfg.Bool("prune") && rng.Bool(0.15) {
			// ABCI: retain_height must leave what evidence verification needs; the genesis of
			// pruning runs sets the evidence age to 3 blocks, the application keeps at least 4
			tx = fmt.Sprintf("retain:%d", rng.Range(4, 7))
			if rng.Bool(0.2) {
				// a retain height beyond the tip: the node must refuse it and prune nothing
				tx = fmt.Sprintf("retainover:%d", s.txSeq)
			}
		}
		if s.cfg.Bool("valtx") && rng.Bool(0.08) {
			// a consensus-parameter update returned by EndBlock (in force from the next height on)
			tx = fmt.Sprintf("param:maxbytes:%d", []int{3000000, 8000000, 22020096}[rng.Intn(3)]+s.txSeq)
		} else if s.cfg.Bool("valtx") && rng.Bool(0.3) {
			vi := rng.Intn(len(s.nodes))
			tx = fmt.Sprintf("val:%x:%d", s.nodes[vi].key.PubKey().Bytes(), rng.Range(1, 12))
		}
		return simcore.Op{"a": "tx", "node": n.idx, "tx": tx}
	case s.cfg.Bool("skew") && roll < 140 && len(s.nodes) > 0:
		return simcore.Op{"a": "skew", "node": rng.Intn(len(s.nodes)), "ms": rng.Range(-2000, 2000)}
	}
	if !dirActive {
		if bop := s.nextByz(rng, roll); bop != nil {
			return bop
		}
	}
	if s.cfg.Bool("real_ticker") && (len(items) == 0 || rng.Intn(100) < s.cfg.Int("timeout_rate")) {
		// time is the only thing that fires the shipped ticker
		return simcore.Op{"a": "sleep", "ms": []int{1, 20, 100, 250, 600}[rng.Intn(5)]}
	}
	fireTimeout := len(pend) > 0 && (len(items) == 0 || rng.Intn(100) < s.cfg.Int("timeout_rate"))
	if fireTimeout {
		n := pend[rng.Intn(len(pend))]
		ti, _, _ := n.ticker.Pending()
		return simcore.Op{"a": "timeout", "node": n.idx, "dt": rng.Intn(int(ti.Duration/time.Millisecond) + 1)}
	}
	if s.cfg.Bool("inflight") && len(s.inflight) > 0 && rng.Bool(0.12) {
		return simcore.Op{"a": "arrive", "id": s.inflight[rng.Intn(len(s.inflight))].id}
	}
	if len(items) > 0 {
		it := items[rng.Intn(len(items))]
		if s.cfg.Bool("inflight") && len(s.inflight) < 40 && (it.kind == "vote" || it.kind == "proposal" || it.kind == "part") && rng.Bool(0.15) {
			op := it.op()
			op["a"] = "delay"
			return op
		}
		if s.cfg.Bool("corrupt_parts") && it.kind == "part" && rng.Bool(0.5) {
			it.mut = partMutations[rng.Intn(len(partMutations))]
		}
		return it.op()
	}
	if len(dead) > 0 {
		return simcore.Op{"a": "restart", "node": dead[rng.Intn(len(dead))].idx}
	}
	if s.group != nil {
		for _, g := range s.group {
			if g != 0 {
				return simcore.Op{"a": "partition", "groups": make([]int, len(s.nodes))}
			}
		}
	}
	// nothing to do: let the clock run (commit timeouts etc.)
	return simcore.Op{"a": "sleep", "ms": 50}
}

// ---------------------------------------------------------------- apply

func (s *sim) Apply(op simcore.Op) bool {
	ok := s.apply(op)
	if ok {
		s.mon.afterStep()
		if s.gst {
			s.checkTermination(op.Bool("idle"))
		}
	}
	return ok
}

func (s *sim) nodeOf(op simcore.Op) *simNode {
	i := op.Int("node")
	if i < 0 || i >= len(s.nodes) {
		return nil
	}
	return s.nodes[i]
}

func (s *sim) apply(op simcore.Op) bool {
	switch op.Kind() {
	case "deliver":
		return s.deliver(itemFromOp(op))
	case "timeout":
		n := s.nodeOf(op)
		if n == nil || !n.isAlive() || n.ticker == nil {
			return false
		}
		if _, _, ok := n.ticker.Pending(); !ok {
			return false
		}
		if dt := op.Int("dt"); dt > 0 {
			time.Sleep(time.Duration(dt) * time.Millisecond)
			s.env.Settle()
			s.afterStimulus(nil)
			if !n.isAlive() {
				return true
			}
		}
		s.with(n, func() { n.ticker.Fire() })
		s.env.Count("op.timeout")
		return true
	case "sleep":
		time.Sleep(time.Duration(op.Int("ms")) * time.Millisecond)
		s.env.Settle()
		for _, n := range s.nodes {
			if n.cs != nil && n.isAlive() {
				n.cs.VerifDrainStats()
			}
		}
		s.afterStimulus(nil)
		s.env.Count("op.sleep")
		return true
	case "tx":
		n := s.nodeOf(op)
		if n == nil || !n.isAlive() {
			return false
		}
		// mempool v1 orders equal-priority transactions by arrival timestamp: keep them distinct
		time.Sleep(time.Millisecond)
		s.env.Settle()
		s.afterStimulus(nil)
		if !n.isAlive() {
			return true
		}
		s.driverInNode = true
		s.cur = n
		txb := []byte(op.Str("tx"))
		if len(txb) > 3 && string(txb[:3]) == "big" {
			// "big<seq>=<n>": padded to n bytes so that blocks span several parts
			var seq, sz int
			fmt.Sscanf(string(txb), "big%d=%d", &seq, &sz)
			if sz > 0 && sz < 200000 {
				txb = append(txb, bytes.Repeat([]byte{'.'}, sz)...)
			}
		}
		err := n.nd.Mempool().CheckTx(types.Tx(txb), func(*abci.Response) {}, mempoolTxInfo())
		s.env.Settle()
		s.cur = nil
		s.driverInNode = false
		_ = err
		s.afterStimulus(n)
		s.env.Count("op.tx")
		return true
	case "crash":
		n := s.nodeOf(op)
		if n == nil || !n.isAlive() || len(s.armed) > 0 {
			return false
		}
		n.mu.Lock()
		n.crashAt = n.ctl.Points() + op.Int("after")
		n.mu.Unlock()
		s.armed[n.idx] = op
		s.env.Count("op.crash_armed")
		return true
	case "restart":
		n := s.nodeOf(op)
		if n == nil || n.isAlive() {
			return false
		}
		n.mu.Lock()
		starting := n.starting
		n.mu.Unlock()
		if starting {
			return false
		}
		if n.failureMsg() != "" || n.alive {
			// a failed (halted) incarnation: stop it first; everything it wrote is durable
			n.stopClean()
			n.app.Crash()
		}
		n.start()
		s.afterStimulus(n)
		if f := n.failureMsg(); f != "" {
			n.startFails++
			s.env.Count("probe.start_failed")
			s.env.Note("node %d start failed: %s", n.idx, f)
			s.env.Logf("start failed node=%d: %s", n.idx, f)
		}
		s.mon.onRestart(n)
		s.env.Count("op.restart")
		return true
	case "partition":
		g := op.Ints("groups")
		if len(g) != len(s.nodes) {
			return false
		}
		s.group = g
		split := false
		for _, x := range g {
			if x != g[0] {
				split = true
			}
		}
		if split {
			s.env.Count("fault.partition")
		} else {
			s.env.Count("op.heal")
		}
		return true
	case "skew":
		n := s.nodeOf(op)
		if n == nil {
			return false
		}
		n.skew = time.Duration(op.Int("ms")) * time.Millisecond
		s.env.Count("fault.clock_skew")
		return true
	case "delay":
		return s.delay(itemFromOp(op))
	case "arrive":
		return s.arrive(op.Int("id"))
	case "gst":
		return s.applyGST()
	case "byz":
		return s.applyByz(op)
	}
	return false
}

// ---------------------------------------------------------------- finish / close

func (s *sim) Finish() { s.mon.finish() }

func (s *sim) Close() {
	for _, n := range s.nodes {
		n.mu.Lock()
		n.crashAt = 0
		n.mu.Unlock()
		if n.cs != nil {
			n.teardown()
		}
	}
	fail.VerifFail, tempfile.VerifPoint, tmos.VerifExit, tmtime.VerifNow = nil, nil, nil, nil
}

var _ = bytes.Equal
var _ = sort.Ints
var _ = tmproto.PrevoteType
var _ cs.WAL

// delay takes a deliverable item off the holder now but lets it arrive later.
func (s *sim) delay(it item) bool {
	if it.from < 0 || it.from >= len(s.nodes) || it.to < 0 || it.to >= len(s.nodes) || it.from == it.to {
		return false
	}
	a, b := s.nodes[it.from], s.nodes[it.to]
	if !a.isAlive() || !b.isAlive() || !s.connected(a.idx, b.idx) {
		return false
	}
	ra := a.cs.GetRoundState()
	if ra.Height != it.h {
		return false
	}
	m := &inflightMsg{kind: it.kind, to: it.to, peer: a.peer, h: it.h, r: it.r}
	switch it.kind {
	case "proposal":
		if ra.Round != it.r || ra.Proposal == nil {
			return false
		}
		p := *ra.Proposal
		m.prop = &p
	case "part":
		if ra.ProposalBlockParts == nil {
			return false
		}
		m.part = ra.ProposalBlockParts.GetPart(it.part)
		if m.part == nil {
			return false
		}
	case "vote":
		vs := voteSetOf(ra, it.r, it.typ)
		if vs == nil {
			return false
		}
		v := vs.GetByIndex(int32(it.val))
		if v == nil {
			return false
		}
		m.vote = v.Copy()
	default:
		return false
	}
	s.inflightSeq++
	m.id = s.inflightSeq
	s.inflight = append(s.inflight, m)
	s.tried[it.key()] = fmt.Sprintf("%d:%s", b.inc, stamp(b.cs.GetRoundState()))
	s.env.Count("fault.msg_delayed_in_flight")
	return true
}

// arrive delivers an in-flight message.
func (s *sim) arrive(id int) bool {
	k := -1
	for i, m := range s.inflight {
		if m.id == id {
			k = i
		}
	}
	if k < 0 {
		return false
	}
	m := s.inflight[k]
	s.inflight = append(s.inflight[:k], s.inflight[k+1:]...)
	b := s.nodes[m.to]
	if !b.isAlive() {
		return true // lost with the receiver's crash
	}
	rb := b.cs.GetRoundState()
	if rb.Height == m.h && rb.Round > m.r {
		s.env.Count("fault.msg_arrived_rounds_late")
	}
	switch m.kind {
	case "proposal":
		s.mon.onDeliverProposal(b, m.prop)
		s.with(b, func() { b.cs.SetProposal(m.prop, m.peer) })
	case "part":
		s.mon.onDeliverPart(b, m.h, m.part)
		s.with(b, func() { b.cs.AddProposalBlockPart(m.h, m.r, m.part, m.peer) })
	case "vote":
		s.mon.onDeliverVote(b, m.vote)
		s.with(b, func() { b.cs.AddVote(m.vote, m.peer) })
	}
	s.env.Count("op.arrive")
	return true
}
