package consim

import (
	"sort"

	cstypes "github.com/tendermint/tendermint/consensus/types"
	"github.com/tendermint/tendermint/types"

	"verif/simcore"
)

// forkDirector is a goal-directed scheduling policy ("nemesis"): it steers one height
// towards the situation in which agreement is most fragile — a fast subset of the correct
// nodes sees a polka for block X and locks it, one of them (the decider) is helped to
// decide X by the Byzantine validator and is then cut off, the slow nodes precommit nil,
// and in the next round another block Y is pushed with the Byzantine validator's votes.
// It only emits the ordinary actions (deliver, timeout, byz, partition), so traces replay
// and shrink like any other; with correct code the run simply continues.
type forkDirector struct {
	phase  int
	h      int64
	r      int32
	fast   map[int]bool
	slow   map[int]bool
	d      int
	x      string
	steps  int
	waited int
	sent   map[string]bool
	free   int
}

func (s *sim) roundStates() map[int]*cstypes.RoundState {
	m := map[int]*cstypes.RoundState{}
	for _, n := range s.alive() {
		m[n.idx] = n.cs.GetRoundState()
	}
	return m
}

func (s *sim) timeoutOp(n *simNode) simcore.Op {
	if n.ticker == nil {
		return nil
	}
	if _, _, ok := n.ticker.Pending(); !ok {
		return nil
	}
	return simcore.Op{"a": "timeout", "node": n.idx, "dt": 1}
}

func (d *forkDirector) next(s *sim, rng *simcore.RNG) simcore.Op {
	if d.phase == 9 {
		return nil
	}
	d.steps++
	if d.steps > 900 {
		return d.giveUp(s)
	}
	rss := s.roundStates()
	if len(rss) != len(s.nodes) {
		if d.phase == 0 {
			return nil
		}
		return d.giveUp(s)
	}
	switch d.phase {
	case 0:
		// wait for a fresh round shared by all correct nodes
		var h int64 = -1
		var r int32
		for _, i := range sortedKeys(rss) {
			rs := rss[i]
			if h == -1 {
				h, r = rs.Height, rs.Round
			}
			if rs.Height != h || rs.Round != r || rs.Step > cstypes.RoundStepPropose || rs.Proposal != nil {
				d.waited++
				if d.waited > 400 {
					d.phase = 9
				}
				return nil
			}
		}
		d.h, d.r = h, r
		d.fast, d.slow, d.sent = map[int]bool{}, map[int]bool{}, map[string]bool{}
		perm := rng.Perm(len(s.nodes))
		nf := 1 + rng.Intn(len(s.nodes))
		if nf == len(s.nodes) && len(s.nodes) > 1 {
			nf--
		}
		for i, p := range perm {
			if i < nf {
				d.fast[p] = true
			} else {
				d.slow[p] = true
			}
		}
		d.d = perm[0]
		d.phase = 1
		s.env.Count("probe.nemesis_fork_started")
		fallthrough
	case 1:
		// every correct node gets the complete proposal of (h, r)
		all := true
		for _, i := range sortedKeys(rss) {
			rs := rss[i]
			if rs.Height != d.h || rs.Round != d.r {
				return d.giveUp(s)
			}
			if rs.Step < cstypes.RoundStepPropose {
				if op := s.timeoutOp(s.nodes[i]); op != nil {
					return op
				}
			}
			if rs.ProposalBlock == nil {
				all = false
			}
		}
		if all {
			for _, i := range sortedKeys(rss) {
				rs := rss[i]
				d.x = bidStr(types.BlockID{Hash: rs.ProposalBlock.Hash(), PartSetHeader: rs.ProposalBlockParts.Header()})
				break
			}
			d.phase = 2
			return d.next(s, rng)
		}
		if len(s.byz) > 0 {
			addr, _ := proposerAt(s.nodes[0], d.r)
			for bi, b := range s.byz {
				if string(addr) == string(b.addr) && !d.sent["prop"] {
					d.sent["prop"] = true
					return simcore.Op{"a": "byz", "k": "propose", "b": bi, "via": 0, "h": d.h, "r": d.r, "pol": -1, "ntx": 1, "salt": rng.Intn(1 << 20)}
				}
			}
		}
		for _, it := range s.deliverables() {
			if it.h == d.h && (it.kind == "proposal" || it.kind == "part" || it.kind == "bprop" || it.kind == "bpart") {
				return it.op()
			}
		}
		// the proposer may not have proposed yet: let its timers run
		for _, i := range sortedKeys(rss) {
			if op := s.timeoutOp(s.nodes[i]); op != nil && rss[i].Step < cstypes.RoundStepPropose {
				return op
			}
		}
		return d.giveUp(s)
	case 2:
		// prevotes: fast nodes see the polka for X, slow nodes only +2/3-any
		if len(s.byz) > 0 {
			if !d.sent["pvX"] {
				d.sent["pvX"] = true
				return simcore.Op{"a": "byz", "k": "vote", "b": 0, "h": d.h, "r": d.r, "t": 1, "blk": d.x, "targets": keys(d.fast)}
			}
			if !d.sent["pvNil"] && len(d.slow) > 0 {
				d.sent["pvNil"] = true
				return simcore.Op{"a": "byz", "k": "vote", "b": 0, "h": d.h, "r": d.r, "t": 1, "blk": "nil", "targets": keys(d.slow)}
			}
		}
		items := s.deliverables()
		for _, it := range items {
			if it.h == d.h && it.r == d.r && it.typ == 1 && (it.kind == "vote" || it.kind == "bvote") && d.fast[it.to] {
				return it.op()
			}
		}
		for _, it := range items {
			if it.h == d.h && it.r == d.r && it.typ == 1 && d.slow[it.to] {
				if it.kind == "bvote" || (it.kind == "vote" && d.slow[it.from]) {
					return it.op()
				}
			}
		}
		// the prevotes of the fast nodes for the slow ones leave now but stay in flight: they
		// arrive in the next round (a stale polka)
		if s.cfg.Bool("inflight") {
			for _, it := range items {
				if it.h == d.h && it.r == d.r && it.typ == 1 && it.kind == "vote" && d.slow[it.to] && d.fast[it.from] && !d.sent["hold"+it.key()] {
					d.sent["hold"+it.key()] = true
					op := it.op()
					op["a"] = "delay"
					return op
				}
			}
		}
		done := true
		for _, i := range keys(d.slow) {
			rs := rss[i]
			if rs.Step >= cstypes.RoundStepPrecommit {
				continue
			}
			done = false
			pv := rs.Votes.Prevotes(d.r)
			if pv != nil && pv.HasTwoThirdsAny() {
				if op := s.timeoutOp(s.nodes[i]); op != nil {
					return op
				}
				continue
			}
			// not enough votes for the timeout: one more prevote from a fast node
			for _, it := range items {
				if it.to == i && it.h == d.h && it.r == d.r && it.typ == 1 && it.kind == "vote" {
					return it.op()
				}
			}
			if op := s.timeoutOp(s.nodes[i]); op != nil {
				return op
			}
		}
		for _, i := range keys(d.fast) {
			if rss[i].Step < cstypes.RoundStepPrecommit {
				done = false
				if op := s.timeoutOp(s.nodes[i]); op != nil && rss[i].Step == cstypes.RoundStepPrevoteWait {
					return op
				}
			}
		}
		if !done {
			d.free++
			if d.free > 40 {
				return d.giveUp(s)
			}
			return nil
		}
		d.phase = 3
		return d.next(s, rng)
	case 3:
		// precommits: only the decider sees +2/3 for X
		if len(s.byz) > 0 {
			if !d.sent["pcX"] {
				d.sent["pcX"] = true
				return simcore.Op{"a": "byz", "k": "vote", "b": 0, "h": d.h, "r": d.r, "t": 2, "blk": d.x, "targets": []int{d.d}}
			}
			if !d.sent["pcNil"] && len(s.nodes) > 1 {
				d.sent["pcNil"] = true
				var others []int
				for i := range s.nodes {
					if i != d.d {
						others = append(others, i)
					}
				}
				return simcore.Op{"a": "byz", "k": "vote", "b": 0, "h": d.h, "r": d.r, "t": 2, "blk": "nil", "targets": others}
			}
		}
		items := s.deliverables()
		if rss[d.d].Height == d.h {
			for _, it := range items {
				if it.to == d.d && it.h == d.h && it.r == d.r && it.typ == 2 && (it.kind == "vote" || it.kind == "bvote") {
					return it.op()
				}
			}
		}
		// the decider is now cut off, whatever it achieved
		if !d.sent["cut"] {
			d.sent["cut"] = true
			if rss[d.d].Height > d.h || s.nodes[d.d].bstore.Height() >= d.h {
				s.env.Count("probe.nemesis_decider_decided")
			}
			g := make([]int, len(s.nodes))
			g[d.d] = 1
			return simcore.Op{"a": "partition", "groups": g}
		}
		// the others: nil precommits and the Byzantine nil, then the timeout
		for _, it := range items {
			if it.to != d.d && it.h == d.h && it.r == d.r && it.typ == 2 && (it.kind == "bvote" || (it.kind == "vote" && d.slow[it.from])) {
				return it.op()
			}
		}
		moved := true
		for _, i := range sortedKeys(rss) {
			rs := rss[i]
			if i == d.d || rs.Height != d.h || rs.Round > d.r {
				continue
			}
			moved = false
			pc := rs.Votes.Precommits(d.r)
			if pc != nil && pc.HasTwoThirdsAny() {
				if op := s.timeoutOp(s.nodes[i]); op != nil {
					return op
				}
			}
			for _, it := range items {
				if it.to == i && it.h == d.h && it.r == d.r && it.typ == 2 && it.kind == "vote" {
					return it.op()
				}
			}
			if op := s.timeoutOp(s.nodes[i]); op != nil {
				return op
			}
		}
		if !moved {
			d.free++
			if d.free > 80 {
				return d.giveUp(s)
			}
			return nil
		}
		d.phase = 4
		d.free = 0
		s.env.Count("probe.nemesis_next_round_reached")
		return d.next(s, rng)
	case 4:
		// next round: push another block with the Byzantine votes; the ordinary scheduler
		// moves the messages among the remaining nodes
		d.free++
		if d.free > 260 {
			return d.giveUp(s)
		}
		r1 := d.r + 1
		if len(s.inflight) > 0 && d.free > 6 && rng.Bool(0.5) {
			return simcore.Op{"a": "arrive", "id": s.inflight[0].id}
		}
		if len(s.byz) > 0 {
			if !d.sent["prop1"] {
				addr, h := proposerAt(s.nodes[(d.d+1)%len(s.nodes)], r1)
				if h == d.h && string(addr) == string(s.byz[0].addr) {
					d.sent["prop1"] = true
					return simcore.Op{"a": "byz", "k": "propose", "b": 0, "via": (d.d + 1) % len(s.nodes), "h": d.h, "r": r1, "pol": -1, "ntx": 1, "salt": rng.Intn(1 << 20)}
				}
			}
			// vote for whatever other block is on the table in round r+1
			var y string
			for _, i := range sortedKeys(rss) {
				rs := rss[i]
				if i != d.d && rs.Height == d.h && rs.Round == r1 && rs.Proposal != nil {
					if id := bidStr(rs.Proposal.BlockID); id != d.x {
						y = id
					}
				}
			}
			if y != "" {
				if !d.sent["pvY"] {
					d.sent["pvY"] = true
					return simcore.Op{"a": "byz", "k": "vote", "b": 0, "h": d.h, "r": r1, "t": 1, "blk": y}
				}
				if !d.sent["pcY"] {
					d.sent["pcY"] = true
					return simcore.Op{"a": "byz", "k": "vote", "b": 0, "h": d.h, "r": r1, "t": 2, "blk": y}
				}
			}
		}
		return nil
	}
	return nil
}

func (d *forkDirector) giveUp(s *sim) simcore.Op {
	d.phase = 9
	for _, g := range s.group {
		if g != 0 {
			return simcore.Op{"a": "partition", "groups": make([]int, len(s.nodes))}
		}
	}
	return nil
}

func keys(m map[int]bool) []int {
	var out []int
	for k := range m {
		out = append(out, k)
	}
	sort.Ints(out)
	return out
}

func sortedKeys(m map[int]*cstypes.RoundState) []int {
	var out []int
	for k := range m {
		out = append(out, k)
	}
	sort.Ints(out)
	return out
}
