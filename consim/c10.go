package consim

import (
	"bytes"

	cstypes "github.com/tendermint/tendermint/consensus/types"
	"github.com/tendermint/tendermint/crypto/merkle"
	"github.com/tendermint/tendermint/types"
)

// partMutations are the corruptions applied to a genuine block part in transit.
var partMutations = []string{"index", "transplant", "bytes", "leafhash", "aunt", "total", "swap", "truncate", "aunt64"}

func copyPart(p *types.Part) *types.Part {
	c := &types.Part{Index: p.Index, Bytes: append([]byte{}, p.Bytes...)}
	c.Proof = merkle.Proof{Total: p.Proof.Total, Index: p.Proof.Index, LeafHash: append([]byte{}, p.Proof.LeafHash...)}
	for _, a := range p.Proof.Aunts {
		c.Proof.Aunts = append(c.Proof.Aunts, append([]byte{}, a...))
	}
	return c
}

// deliverMutatedPart delivers a corrupted copy of a genuine part and checks that the
// receiver did not admit it (C10): a part is accepted at position i only if it is the i-th
// piece of the data committed to by the header.
func (s *sim) deliverMutatedPart(a, b *simNode, src *types.PartSet, rb *cstypes.RoundState, it item, genuine *types.Part) bool {
	total := int(src.Total())
	p := copyPart(genuine)
	other := (it.part + 1) % total
	switch it.mut {
	case "index":
		if total < 2 {
			return false
		}
		p.Index = uint32(other)
	case "transplant":
		if total < 2 {
			return false
		}
		p.Index, p.Proof.Index = uint32(other), int64(other)
	case "bytes":
		if len(p.Bytes) == 0 {
			return false
		}
		p.Bytes[len(p.Bytes)/2] ^= 1
	case "leafhash":
		p.Proof.LeafHash[0] ^= 1
	case "aunt":
		if len(p.Proof.Aunts) == 0 {
			return false
		}
		p.Proof.Aunts[0][0] ^= 1
	case "total":
		p.Proof.Total++
	case "swap":
		if total < 2 {
			return false
		}
		o := src.GetPart(other)
		if o == nil {
			return false
		}
		p = copyPart(o)
		p.Index = uint32(it.part) // genuine bytes+proof of another position, presented at this one
	case "truncate":
		if len(p.Bytes) < 2 {
			return false
		}
		p.Bytes = p.Bytes[:len(p.Bytes)-1]
	case "aunt64":
		// forged bytes at a position of the root's right subtree; the top aunt (the root's left
		// child L) is replaced by the 64 bytes L||R (R = root's right child, known from part 0's
		// proof) and the leaf hash is that of the forged bytes: an inner-hash that silently
		// truncates over-long children would recompute the genuine root whatever the leaf is
		split := 1
		for split*2 < total {
			split *= 2
		}
		p0 := src.GetPart(0)
		if total < 2 || it.part < split || p0 == nil || len(p0.Proof.Aunts) == 0 || len(p.Proof.Aunts) == 0 {
			return false
		}
		if len(p.Bytes) == 0 {
			return false
		}
		top := len(p.Proof.Aunts) - 1
		p.Proof.Aunts[top] = append(p.Proof.Aunts[top], p0.Proof.Aunts[len(p0.Proof.Aunts)-1]...)
		p.Bytes[len(p.Bytes)/2] ^= 1
		p.Proof.LeafHash = merkle.HashFromByteSlices([][]byte{p.Bytes})
	default:
		return false
	}
	claimed := int(p.Index)
	if rb.ProposalBlockParts == nil {
		return false
	}
	had := rb.ProposalBlockParts.BitArray().GetIndex(claimed)
	s.with(b, func() { b.cs.AddProposalBlockPart(it.h, it.r, p, a.peer) })
	s.env.Count("fault.part_corrupted." + it.mut)
	if !b.isAlive() {
		return true
	}
	rs2 := b.cs.GetRoundState()
	if rs2.Height == it.h && rs2.ProposalBlockParts != nil && rs2.ProposalBlockParts.HasHeader(src.Header()) && !had {
		if rs2.ProposalBlockParts.BitArray().GetIndex(claimed) {
			got := rs2.ProposalBlockParts.GetPart(claimed)
			want := src.GetPart(claimed)
			if got != nil && (want == nil || !bytes.Equal(got.Bytes, want.Bytes)) {
				s.env.Fail("C10", "mutated-part-accepted", "node %d admitted a part at position %d of the part set that is not the genuine piece of that position (corruption: %s)", b.idx, claimed, it.mut)
			}
		}
	}
	return true
}

// checkAssembled: a completed part set reassembles to exactly the bytes the header commits to.
func (m *monitor) checkAssembled(n *simNode, rs *cstypes.RoundState) {
	e := m.s.env
	if !e.Checking("C10") || rs.ProposalBlockParts == nil || !rs.ProposalBlockParts.IsComplete() {
		return
	}
	key := string(rs.ProposalBlockParts.Hash())
	if rs.ProposalBlock == nil {
		if m.altEnc[key] && !m.assembled["nil/"+key] {
			// the Byzantine proposer's pieces are the bytes of a well-formed block: a node that holds
			// all of them must have reassembled it
			m.assembled["nil/"+key] = true
			e.Fail("C10", "complete-part-set-not-reassembled", "node %d holds every part of a part set whose pieces are the bytes of a well-formed block (round %d) but did not reassemble the block", n.idx, rs.Round)
		}
		return
	}
	if m.assembled[key] {
		return
	}
	m.assembled[key] = true
	re := rs.ProposalBlock.MakePartSet(types.BlockPartSizeBytes)
	if m.altEnc[key] {
		// a Byzantine proposer's non-canonical encoding of the block: the parts reassemble to its
		// bytes, which do not equal the canonical re-encoding (and need not)
		e.Count("probe.alt_encoded_block_assembled")
	} else if !re.HasHeader(rs.ProposalBlockParts.Header()) {
		e.Fail("C10", "reassembly-mismatch", "node %d: the block reassembled from a complete part set does not split back into the part set the header committed to", n.idx)
	}
	if rs.Proposal != nil && rs.Proposal.BlockID.PartSetHeader.Equals(rs.ProposalBlockParts.Header()) && !bytes.Equal(rs.Proposal.BlockID.Hash, rs.ProposalBlock.Hash()) {
		e.Fail("C10", "reassembly-hash-mismatch", "node %d: completed proposal block hashes to %X, the proposal named %X", n.idx, rs.ProposalBlock.Hash(), rs.Proposal.BlockID.Hash)
	}
	if rs.ProposalBlockParts.Total() > 1 {
		e.Count("probe.multipart_block_assembled")
	}
	e.Count("probe.block_assembled")
}
