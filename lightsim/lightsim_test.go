// Package lightsim: deterministic simulation of the real light client (light.Client with
// verifier, bisection, detector, trusted store over MemDB) against simulated providers
// whose replies are parked and released one at a time by the simulator. Decides C09.
package lightsim

import (
	"bytes"
	"context"
	"crypto/sha256"
	"errors"
	"fmt"
	"math/big"
	"os"
	"runtime/debug"
	"sort"
	"strings"
	"sync"
	"testing"
	"time"

	"github.com/tendermint/tendermint/libs/log"
	tmmath "github.com/tendermint/tendermint/libs/math"
	"github.com/tendermint/tendermint/light"
	"github.com/tendermint/tendermint/light/provider"
	lstore "github.com/tendermint/tendermint/light/store"
	dbs "github.com/tendermint/tendermint/light/store/db"
	"github.com/tendermint/tendermint/types"
	dbm "github.com/tendermint/tm-db"

	"verif/chaingen"
	"verif/simcore"
)

func TestMain(m *testing.M) {
	simcore.InitProcess()
	os.Exit(m.Run())
}

func TestSim(t *testing.T) { simcore.Main(t, harness) }

var harness = &simcore.Harness{
	Name:   "lightsim",
	Props:  []string{"C09"},
	Config: genConfig,
	New:    newSim,
	MaxOps: 600,
	Real: []string{"light.Client (NewClient, NewClientFromTrustedStore, VerifyLightBlockAtHeight, Update, VerifyHeader; sequential and skipping verification, backwards verification, findNewPrimary, detector: detectDivergence / compareNewHeaderWithWitness / handleConflictingHeaders / examineConflictingHeaderAgainstTrace)",
		"light.Verify / VerifyAdjacent / VerifyNonAdjacent / VerifyBackwards, types.ValidatorSet.VerifyCommitLight(Trusting)",
		"light/store/db over tm-db MemDB", "canonical chain: real blocks, commits, validator updates produced by chaingen (real BlockExecutor)"},
	Stub: []string{"provider.Provider: simulator objects; every LightBlock request parks on a channel and is answered by a simulator action (honest block, error, forged block signed with real validator keys, malformed block)",
		"the client's clock: explicit `now` arguments drawn by the simulator; the detector's time.Sleep runs on the bubble's fake clock"},
	Assumptions: []string{"providers deliver light blocks whose pointers are non-nil (the http provider guarantees this); blocks violating the other provider-side checks (chain id, validator hash, height) are only sent when the `raw` fault is enabled",
		"trust-level boundary (signed power exactly equal to the trust level fraction) is accepted either way by the soundness oracle and not required by the completeness oracle",
		"backwards verification is decided by the hash link only (spec LCV-FUNC-BACKWARDS.2); no witness confirmation is demanded for it"},
}

var genesis = time.Date(2000, 1, 1, 0, 0, 0, 0, time.UTC)

func offT(ns int64) time.Time { return genesis.Add(time.Duration(ns)) }
func tOff(t time.Time) int64  { return int64(t.Sub(genesis)) }

// ---------------------------------------------------------------- block info (reference side)

type sigEnt struct {
	idx   int
	addr  string
	pub   string // public key the validity bit refers to
	ok    bool
	power int64
}

// binfo is everything the reference predicates need to know about one light block. It is
// computed once per distinct block (all signatures are checked individually with the
// validator's public key over types.VoteSignBytes; no tendermint verification routine is used).
type binfo struct {
	lb        *types.LightBlock
	key       string // identity of header+commit+validator set
	hash      string // header hash
	h         int64
	t         time.Time
	wf        bool
	why       string
	total     *big.Int
	signed    *big.Int
	own23     bool
	allSigsOK bool
	dupSig    bool // the commit carries two block votes under the same validator address
	sigs      []sigEnt
	canon     bool
	extra     map[string]bool // lazily verified (idx|pub) pairs
}

func computeInfo(chainID string, lb *types.LightBlock) *binfo {
	b := &binfo{lb: lb, total: new(big.Int), signed: new(big.Int), extra: map[string]bool{}}
	if lb == nil || lb.SignedHeader == nil || lb.Header == nil || lb.Commit == nil || lb.ValidatorSet == nil {
		b.why = "nil part"
		b.key = fmt.Sprintf("nil-%p", lb)
		return b
	}
	b.h, b.t = lb.Height, lb.Time
	hh := lb.Header.Hash()
	b.hash = string(hh)
	pb, err := lb.ToProto()
	if err != nil {
		b.why = "not serialisable: " + err.Error()
		b.key = fmt.Sprintf("bad-%p", lb)
		return b
	}
	bz, _ := pb.Marshal()
	sum := sha256.Sum256(bz)
	b.key = string(sum[:])
	vals := lb.ValidatorSet.Validators
	for _, v := range vals {
		b.total.Add(b.total, big.NewInt(v.VotingPower))
	}
	switch {
	case len(hh) == 0:
		b.why = "header has no hash"
	case lb.Height <= 0:
		b.why = "non-positive height"
	case lb.ChainID != chainID:
		b.why = "other chain id"
	case len(vals) == 0:
		b.why = "empty validator set"
	case lb.Commit.Height != lb.Height:
		b.why = "commit height differs from header height"
	case !bytes.Equal(lb.Commit.BlockID.Hash, hh):
		b.why = "commit is not for this header"
	case !bytes.Equal(lb.ValidatorsHash, lb.ValidatorSet.Hash()):
		b.why = "validator set does not match ValidatorsHash"
	default:
		b.wf = true
	}
	b.allSigsOK = true
	oneToOne := len(lb.Commit.Signatures) == len(vals)
	if !oneToOne {
		b.allSigsOK = false
		if b.wf {
			b.wf, b.why = false, "commit size differs from validator set size"
		}
	}
	for i, cs := range lb.Commit.Signatures {
		if cs.BlockIDFlag != types.BlockIDFlagCommit {
			continue
		}
		e := sigEnt{idx: i, addr: string(cs.ValidatorAddress)}
		for _, prev := range b.sigs {
			if prev.addr == e.addr {
				b.dupSig = true
			}
		}
		if oneToOne && vals[i].PubKey != nil {
			e.pub = string(vals[i].PubKey.Bytes())
			e.power = vals[i].VotingPower
			e.ok = vals[i].PubKey.VerifySignature(lb.Commit.VoteSignBytes(chainID, int32(i)), cs.Signature)
			if e.ok {
				b.signed.Add(b.signed, big.NewInt(e.power))
			}
		}
		if !e.ok {
			b.allSigsOK = false
		}
		b.sigs = append(b.sigs, e)
	}
	// more than two thirds: signed*3 > total*2
	l := new(big.Int).Mul(b.signed, big.NewInt(3))
	r := new(big.Int).Mul(b.total, big.NewInt(2))
	b.own23 = oneToOne && l.Cmp(r) > 0
	return b
}

// overlap: voting power of the members of T's validator set that validly signed B's commit.
func overlap(chainID string, T, B *binfo) *big.Int {
	sum := new(big.Int)
	if T.lb == nil || T.lb.ValidatorSet == nil || B.lb == nil || B.lb.Commit == nil {
		return sum
	}
	counted := map[string]bool{}
	for _, v := range T.lb.ValidatorSet.Validators {
		if v.PubKey == nil || counted[string(v.Address)] {
			continue // a key counts once, however often the (possibly forged) trusted set lists it
		}
		addr, pub := string(v.Address), string(v.PubKey.Bytes())
		for _, e := range B.sigs {
			if e.addr != addr {
				continue
			}
			ok := e.ok && e.pub == pub
			if !ok && e.pub != pub {
				k := fmt.Sprintf("%d|%s", e.idx, pub)
				if r, seen := B.extra[k]; seen {
					ok = r
				} else {
					ok = v.PubKey.VerifySignature(B.lb.Commit.VoteSignBytes(chainID, int32(e.idx)), B.lb.Commit.Signatures[e.idx].Signature)
					B.extra[k] = ok
				}
			}
			if ok {
				sum.Add(sum, big.NewInt(v.VotingPower))
				counted[addr] = true
				break
			}
		}
	}
	return sum
}

// stepCtx holds the parameters of the reference step predicates for one client call.
type stepCtx struct {
	chainID       string
	now           time.Time
	drift, period time.Duration
	num, den      int64
	exact         int  // number of evaluated steps that sat exactly on the trust level
	strictAll     bool // reachable() uses the strict boundary
}

func (sc *stepCtx) expired(T *binfo) bool { return !T.t.Add(sc.period).After(sc.now) }

// fwd: may B be trusted in one forward step from the trusted block T? strict=false accepts
// "exactly the trust level", strict=true demands strictly more (what the spec says).
func (sc *stepCtx) fwd(T, B *binfo, strict bool) (bool, string) {
	if !B.wf {
		return false, "malformed (" + B.why + ")"
	}
	if T.lb == nil || T.lb.ValidatorSet == nil {
		return false, "trusted block unusable"
	}
	if B.h <= T.h {
		return false, "height not increasing"
	}
	if !B.t.After(T.t) {
		return false, "time not increasing"
	}
	if !B.t.Before(sc.now.Add(sc.drift)) {
		return false, "header from the future"
	}
	if sc.expired(T) {
		return false, "trusted header outside the trusting period"
	}
	if !B.own23 {
		return false, fmt.Sprintf("own validator set signed %v of %v (not more than 2/3)", B.signed, B.total)
	}
	if B.h == T.h+1 {
		if !bytes.Equal(T.lb.NextValidatorsHash, B.lb.ValidatorsHash) {
			return false, "adjacent but NextValidatorsHash differs"
		}
		return true, ""
	}
	ov := overlap(sc.chainID, T, B)
	l := new(big.Int).Mul(ov, big.NewInt(sc.den))
	r := new(big.Int).Mul(T.total, big.NewInt(sc.num))
	c := l.Cmp(r)
	if c == 0 {
		sc.exact++
	}
	if c > 0 || (c == 0 && !strict) {
		return true, ""
	}
	return false, fmt.Sprintf("trusted set signed %v of %v (trust level %d/%d)", ov, T.total, sc.num, sc.den)
}

// back: B is the header T links to with LastBlockID (one backwards step).
func back(T, B *binfo) bool {
	if T.lb == nil || T.lb.Header == nil || B.hash == "" {
		return false
	}
	return B.h < T.h && bytes.Equal(T.lb.LastBlockID.Hash, []byte(B.hash))
}

// reachable decides whether target can be trusted starting from roots through candidate
// blocks using forward steps (lenient boundary) and backwards hash links.
func (sc *stepCtx) reachable(target *binfo, roots, cands []*binfo) (bool, string) {
	isRoot := map[string]bool{}
	for _, r := range roots {
		isRoot[r.key] = true
	}
	all := append(append([]*binfo{}, roots...), cands...)
	memo := map[string]int{} // 1 yes, 2 no/in progress
	var reasons []string
	var dfs func(b *binfo, depth int) bool
	dfs = func(b *binfo, depth int) bool {
		if isRoot[b.key] {
			return true
		}
		if m := memo[b.key]; m != 0 {
			return m == 1
		}
		memo[b.key] = 2
		for _, x := range all {
			if x.key == b.key {
				continue
			}
			var ok bool
			var why string
			if x.h < b.h {
				ok, why = sc.fwd(x, b, sc.strictAll)
			} else if x.h > b.h {
				ok = back(x, b) && b.wf
				why = "no hash link"
			}
			if depth == 0 && isRoot[x.key] && len(reasons) < 6 {
				if !ok {
					reasons = append(reasons, fmt.Sprintf("from trusted %d: %s", x.h, why))
				}
			}
			if ok && dfs(x, depth+1) {
				memo[b.key] = 1
				return true
			}
		}
		return false
	}
	ok := dfs(target, 0)
	return ok, strings.Join(reasons, "; ")
}

// ---------------------------------------------------------------- canonical chains (cached per process)

const nVariants = 12

type chainData struct {
	variant      int
	chainID      string
	initial, tip int64
	lbs          map[int64]*types.LightBlock
	info         map[int64]*binfo
	keyIdx       map[string]int // validator address -> key index
	nkeys        int
}

var (
	chainMu    sync.Mutex
	chainCache = map[int]*chainData{}
)

func (c *chainData) timeOf(h int64) time.Time {
	if h > c.tip {
		return c.lbs[c.tip].Time.Add(time.Duration(h-c.tip) * time.Second)
	}
	if h < c.initial {
		h = c.initial
	}
	return c.lbs[h].Time
}

// getChain builds (once per process) canonical chain number v. The chain is a pure
// function of v: all draws come from a PRNG seeded with v.
func getChain(v int) *chainData {
	chainMu.Lock()
	defer chainMu.Unlock()
	if c, ok := chainCache[v]; ok {
		return c
	}
	r := simcore.NewRNG(0xC09000 + uint64(v)*7919)
	nv := r.Range(3, 7)
	powers := make([]int64, nv)
	for i := range powers {
		powers[i] = int64(r.Range(1, 30))
	}
	maxKeys := nv + r.Range(2, 5)
	churn := []float64{0.25, 0.5, 0.8, 1.0}[r.Intn(4)]
	burst := []float64{0.2, 0.6}[r.Intn(2)]
	n := r.Range(20, 60)
	initial := int64(1)
	if r.Bool(0.25) {
		initial = int64(r.Range(2, 9))
	}
	cd := &chainData{variant: v, chainID: fmt.Sprintf("lightsim-%d", v), initial: initial, lbs: map[int64]*types.LightBlock{},
		info: map[int64]*binfo{}, keyIdx: map[string]int{}, nkeys: maxKeys}
	c := chaingen.New(chaingen.Opts{ChainID: cd.chainID, InitialHeight: initial, Powers: powers, Genesis: genesis})
	for i := 0; i < maxKeys; i++ {
		c.KnowKey(i)
		cd.keyIdx[string(chaingen.Key(i).PubKey().Address())] = i
	}
	for j := 0; j < n; j++ {
		var s chaingen.BlockSpec
		h := c.Height() + 1
		for t := r.Intn(3); t > 0; t-- {
			s.Txs = append(s.Txs, []byte(fmt.Sprintf("k%d-%d=v%d", h, t, r.Intn(1000))))
		}
		if r.Bool(churn) {
			nchg := 1
			if r.Bool(burst) {
				nchg = r.Range(2, 4)
			}
			for x := 0; x < nchg; x++ {
				pw := int64(0)
				if r.Bool(0.6) {
					pw = int64(r.Range(1, 40))
				}
				s.Txs = append(s.Txs, chaingen.ValTx(r.Intn(maxKeys), pw))
			}
		}
		if r.Bool(0.2) {
			s.Round = int32(r.Intn(3))
		}
		vals := c.State.Validators
		total := vals.TotalVotingPower()
		var gone int64
		s.Absent = map[int]bool{}
		for i, val := range vals.Validators {
			if r.Bool(0.15) && (gone+val.VotingPower)*3 < total {
				s.Absent[i] = true
				gone += val.VotingPower
			}
		}
		c.Next(s)
	}
	cd.tip = c.Height()
	for h := initial; h <= cd.tip; h++ {
		pb, err := c.LightBlock(h).ToProto()
		if err != nil {
			panic(err)
		}
		lb, err := types.LightBlockFromProto(pb)
		if err != nil {
			panic(err)
		}
		lb.ValidatorSet.TotalVotingPower()
		cd.lbs[h] = lb
		bi := computeInfo(cd.chainID, lb)
		bi.canon = true
		if !bi.wf || !bi.own23 {
			panic(fmt.Sprintf("lightsim: canonical block %d fails the reference predicates: %s", h, bi.why))
		}
		cd.info[h] = bi
	}
	c.Stop()
	chainCache[v] = cd
	return cd
}

// ---------------------------------------------------------------- forks (forged chains)

// fork describes a forged continuation of the canonical chain after height c. Every field
// is explicit in the configuration / in the mkfork action, so a forged block is a pure
// function of (fork, height).
type fork struct {
	id    int
	c     int64   // common height: heights <= c are canonical
	shape string  // lun | eqv | amn
	keys  []int   // coalition: key indices that sign
	pw    []int64 // their powers when they form the forged validator set
	vs    string  // coal | canon : validator set of the forged blocks
	extra int64   // power of an additional validator that never signs (vs=coal)
	tmode string  // shift | rev | same
	dt    int64   // ns added to the canonical time (tmode shift)
	rd    int     // round offset (amn)
	top   int64   // height served for "latest"
	bs    bool    // non-coalition validators carry bogus signatures instead of being absent
	nvh   string  // self | canon : NextValidatorsHash of forged headers (lun, vs=coal)
	ghost []int   // vs=coal: further validators (power 1 each) whose "signatures" are bogus bytes
	nilv  bool    // non-coalition validators carry VALID precommits for nil (as a failed round leaves behind)
	dup   int     // vs=coal: every coalition member is listed dup extra times in the forged set (same key, signed slot each)
	th    int64   // tmode=tip: the fork's top block carries the time of canonical height th (+dt); lower forged heights 1ms earlier each
	cache map[int64]*types.LightBlock
}

func forkFromOp(o simcore.Op) *fork {
	f := &fork{id: o.Int("id"), c: o.Int64("c"), shape: o.Str("shape"), keys: o.Ints("keys"), vs: o.Str("vs"),
		extra: o.Int64("extra"), tmode: o.Str("tmode"), dt: o.Int64("dt"), rd: o.Int("rd"), top: o.Int64("top"),
		bs: o.Bool("bs"), nilv: o.Bool("nil"), nvh: o.Str("nvh"), ghost: o.Ints("ghost"), dup: o.Int("dup"), th: o.Int64("th"), cache: map[int64]*types.LightBlock{}}
	for _, p := range o.Ints("pw") {
		f.pw = append(f.pw, int64(p))
	}
	return f
}

func (f *fork) valid() bool {
	if len(f.keys) == 0 || len(f.keys) > 64 {
		return false
	}
	if f.vs == "coal" && len(f.pw) != len(f.keys) {
		return false
	}
	for _, p := range f.pw {
		if p <= 0 || p > 1<<40 {
			return false
		}
	}
	seen := map[int]bool{}
	for _, k := range append(append([]int{}, f.keys...), f.ghost...) {
		if k < 0 || k > 5000 || seen[k] {
			return false
		}
		seen[k] = true
	}
	if len(f.ghost) > 64 || f.dup < 0 || f.dup > 4 || f.th < 0 {
		return false
	}
	return f.extra >= 0 && f.extra < 1<<40 && f.c >= 0
}

func detBytes(n int, parts ...any) []byte {
	out := []byte{}
	for i := 0; len(out) < n; i++ {
		s := sha256.Sum256([]byte(fmt.Sprint(append([]any{i}, parts...)...)))
		out = append(out, s[:]...)
	}
	return out[:n]
}

// block returns the light block of fork f at height h (canonical at or below c).
func (f *fork) block(ch *chainData, h int64) *types.LightBlock {
	if h <= f.c || h < ch.initial {
		return ch.lbs[h]
	}
	if lb, ok := f.cache[h]; ok {
		return lb
	}
	baseH := h
	if baseH > ch.tip {
		baseH = ch.tip
	}
	base := ch.lbs[baseH]
	hdr := *base.Header // copy
	hdr.Height = h
	hdr.Time = ch.timeOf(h)
	cAt := f.c
	if cAt < ch.initial {
		cAt = ch.initial
	}
	switch f.tmode {
	case "rev":
		hdr.Time = ch.timeOf(cAt).Add(-time.Duration(h-f.c) * time.Second)
	case "same":
		hdr.Time = ch.timeOf(cAt)
	case "tip":
		th := f.th
		if th < ch.initial {
			th = ch.initial
		}
		if th > ch.tip {
			th = ch.tip
		}
		hdr.Time = ch.timeOf(th).Add(time.Duration(f.dt) - time.Duration(f.top-h)*time.Millisecond)
	default:
		hdr.Time = hdr.Time.Add(time.Duration(f.dt))
	}
	coalAddr := map[string]int{}
	for _, k := range f.keys {
		coalAddr[string(chaingen.Key(k).PubKey().Address())] = k
	}
	var vset *types.ValidatorSet
	round := base.Commit.Round
	switch f.shape {
	case "lun":
		hdr.AppHash = detBytes(len(hdr.AppHash)+1, "app", f.id, h)
	default: // eqv, amn: same validator sets, another block id
		hdr.DataHash = detBytes(32, "data", f.id, h)
		if f.shape == "amn" {
			round += int32(f.rd)
		}
	}
	if f.shape == "lun" && f.vs == "coal" {
		var vals []*types.Validator
		for i, k := range f.keys {
			vals = append(vals, types.NewValidator(chaingen.Key(k).PubKey(), f.pw[i]))
		}
		if f.extra > 0 {
			vals = append(vals, types.NewValidator(chaingen.Key(9000+f.id).PubKey(), f.extra))
		}
		for _, k := range f.ghost {
			vals = append(vals, types.NewValidator(chaingen.Key(k).PubKey(), 1))
		}
		vset = types.NewValidatorSet(vals)
		if f.dup > 0 {
			// the same coalition keys listed several times: NewValidatorSet refuses duplicates, but
			// neither ValidatorSetFromProto nor ValidateBasic does, so a provider can deliver this
			list := []*types.Validator{}
			for _, v := range vset.Validators {
				list = append(list, v.Copy())
				if _, member := coalAddr[string(v.Address)]; member {
					for d := 0; d < f.dup; d++ {
						list = append(list, v.Copy())
					}
				}
			}
			vset = &types.ValidatorSet{Validators: list, Proposer: list[0].Copy()}
		}
		hdr.ValidatorsHash = vset.Hash()
		if f.nvh != "canon" {
			hdr.NextValidatorsHash = vset.Hash()
		}
	} else {
		vset = base.ValidatorSet.Copy()
	}
	vset.TotalVotingPower()
	bid := types.BlockID{Hash: hdr.Hash(), PartSetHeader: types.PartSetHeader{Total: 1, Hash: detBytes(32, "psh", f.id, h)}}
	commit := &types.Commit{Height: h, Round: round, BlockID: bid}
	keyOf := map[string]int{}
	for _, k := range f.keys {
		keyOf[string(chaingen.Key(k).PubKey().Address())] = k
	}
	isGhost := map[string]bool{}
	if f.shape == "lun" && f.vs == "coal" {
		for _, k := range f.ghost {
			isGhost[string(chaingen.Key(k).PubKey().Address())] = true
		}
	}
	for i, v := range vset.Validators {
		k, in := keyOf[string(v.Address)]
		ts := hdr.Time.Add(time.Second + time.Duration(i)*time.Millisecond)
		switch {
		case in:
			cs := types.CommitSig{BlockIDFlag: types.BlockIDFlagCommit, ValidatorAddress: v.Address, Timestamp: ts}
			commit.Signatures = append(commit.Signatures, cs)
			sig, err := chaingen.Key(k).Sign(commit.VoteSignBytes(ch.chainID, int32(i)))
			if err != nil {
				panic(err)
			}
			commit.Signatures[i].Signature = sig
		case f.nilv && !isGhost[string(v.Address)] && nilKey(ch, f, v.Address) >= 0:
			// a genuine signature of a validator outside the coalition - for nil: it proves nothing
			// about this block and must not count towards any threshold
			commit.Signatures = append(commit.Signatures, types.CommitSig{BlockIDFlag: types.BlockIDFlagNil, ValidatorAddress: v.Address, Timestamp: ts})
			sig, err := chaingen.Key(nilKey(ch, f, v.Address)).Sign(commit.VoteSignBytes(ch.chainID, int32(i)))
			if err != nil {
				panic(err)
			}
			commit.Signatures[i].Signature = sig
		case f.bs || isGhost[string(v.Address)]:
			commit.Signatures = append(commit.Signatures, types.CommitSig{BlockIDFlag: types.BlockIDFlagCommit, ValidatorAddress: v.Address,
				Timestamp: ts, Signature: detBytes(64, "bogus", f.id, h, i)})
		default:
			commit.Signatures = append(commit.Signatures, types.NewCommitSigAbsent())
		}
	}
	lb := &types.LightBlock{SignedHeader: &types.SignedHeader{Header: &hdr, Commit: commit}, ValidatorSet: vset}
	f.cache[h] = lb
	return lb
}

// nilKey returns the key index of a validator outside the coalition whose key the simulator
// holds (a canonical validator, or the fork's silent extra validator), -1 otherwise.
func nilKey(ch *chainData, f *fork, addr []byte) int {
	if k, ok := ch.keyIdx[string(addr)]; ok {
		return k
	}
	if f.extra > 0 && bytes.Equal(chaingen.Key(9000+f.id).PubKey().Address(), addr) {
		return 9000 + f.id
	}
	return -1
}

// pickSubset chooses validators of vals whose power sum falls in the requested class
// relative to num/den of the total.
func pickSubset(rng *simcore.RNG, vals []*types.Validator, class string, num, den int64) []int {
	n := len(vals)
	if n > 12 {
		n = 12
	}
	var total int64
	for _, v := range vals {
		total += v.VotingPower
	}
	best, bestSum := 0, int64(-1)
	for m := 1; m < 1<<n; m++ {
		var s int64
		for i := 0; i < n; i++ {
			if m>>i&1 == 1 {
				s += vals[i].VotingPower
			}
		}
		l, r := new(big.Int).Mul(big.NewInt(s), big.NewInt(den)), new(big.Int).Mul(big.NewInt(total), big.NewInt(num))
		c := l.Cmp(r)
		switch class {
		case "below":
			if c < 0 && s > bestSum {
				best, bestSum = m, s
			}
		case "at":
			if c == 0 {
				best, bestSum = m, s
			}
		case "above":
			if c > 0 && (bestSum < 0 || s < bestSum) {
				best, bestSum = m, s
			}
		case "atmost":
			if c <= 0 && s > bestSum {
				best, bestSum = m, s
			}
		}
	}
	if best == 0 {
		best = 1 + rng.Intn(1<<n-1)
	}
	var idx []int
	for i := 0; i < n; i++ {
		if best>>i&1 == 1 {
			idx = append(idx, i)
		}
	}
	return idx
}

// drawFork draws the parameters of a fork aimed at a client whose trusted validator set is
// the canonical one at height ref.
func drawFork(rng *simcore.RNG, ch *chainData, id int, ref int64, num, den int64) simcore.Op {
	if ref < ch.initial {
		ref = ch.initial
	}
	if ref > ch.tip {
		ref = ch.tip
	}
	vals := ch.lbs[ref].ValidatorSet.Validators
	o := simcore.Op{"id": id}
	class := []string{"below", "at", "above", "all", "rand", "above23", "atmost23"}[rng.Weighted([]int{20, 15, 25, 15, 8, 12, 5})]
	var keys []int
	var pw []int64
	add := func(idx []int) {
		for _, i := range idx {
			keys = append(keys, ch.keyIdx[string(vals[i].Address)])
			pw = append(pw, vals[i].VotingPower)
		}
	}
	switch class {
	case "all":
		inSet := map[int]int64{}
		for _, v := range vals {
			inSet[ch.keyIdx[string(v.Address)]] = v.VotingPower
		}
		for k := 0; k < ch.nkeys; k++ {
			keys = append(keys, k)
			if p, ok := inSet[k]; ok {
				pw = append(pw, p)
			} else {
				pw = append(pw, int64(rng.Range(1, 10)))
			}
		}
	case "rand":
		var idx []int
		for i := range vals {
			if rng.Bool(0.5) {
				idx = append(idx, i)
			}
		}
		if len(idx) == 0 {
			idx = []int{rng.Intn(len(vals))}
		}
		add(idx)
	case "above23":
		add(pickSubset(rng, vals, "above", 2, 3))
	case "atmost23":
		add(pickSubset(rng, vals, "atmost", 2, 3))
	default:
		add(pickSubset(rng, vals, class, num, den))
	}
	o["class"] = class
	o["keys"] = keys
	o["pw"] = pw
	span := int(ch.tip - ch.initial)
	var c int64
	switch rng.Weighted([]int{45, 20, 20, 15}) {
	case 0:
		c = ref
	case 1:
		c = ref + int64(rng.Range(1, 5))
	case 2:
		c = ch.initial + int64(rng.Intn(span))
	default:
		c = ref - int64(rng.Range(1, 5))
	}
	if c < ch.initial-1 {
		c = ch.initial - 1
	}
	if c > ch.tip-1 {
		c = ch.tip - 1
	}
	o["c"] = c
	shape := []string{"lun", "eqv", "amn"}[rng.Weighted([]int{55, 25, 20})]
	o["shape"] = shape
	o["vs"] = "canon"
	o["nvh"] = "self"
	o["extra"] = 0
	if shape == "lun" {
		if rng.Bool(0.75) {
			o["vs"] = "coal"
			if rng.Bool(0.3) {
				var s int64
				for _, p := range pw {
					s += p
				}
				// own-set fraction of the signers: above / exactly / below two thirds
				switch rng.Intn(3) {
				case 0:
					o["extra"] = (s+1)/2 - 1
				case 1:
					o["extra"] = s / 2
					if s%2 == 1 {
						o["extra"] = s/2 + 1
					}
				default:
					o["extra"] = s/2 + 1 + int64(rng.Intn(3))
				}
			}
			if rng.Bool(0.2) {
				o["nvh"] = "canon"
			}
			pd := 0.2
			if class == "below" || class == "at" {
				pd = 0.6 // below the trust level the copies are what could push the tally over it
			}
			if rng.Bool(pd) {
				o["dup"] = rng.Range(1, 3) // coalition members listed 2..4 times in the forged set
			}
			if (class == "below" || class == "at" || class == "rand") && rng.Bool(0.4) {
				// members of the reference set outside the coalition appear with forged signatures
				in := map[int]bool{}
				for _, k := range keys {
					in[k] = true
				}
				var ghost []int
				for _, v := range vals {
					if k := ch.keyIdx[string(v.Address)]; !in[k] {
						ghost = append(ghost, k)
					}
				}
				if len(ghost) > 0 {
					o["ghost"] = ghost
				}
			}
		}
	}
	if shape == "amn" {
		o["rd"] = rng.Range(1, 3)
	}
	o["tmode"] = "shift"
	o["dt"] = 0
	switch rng.Weighted([]int{80, 6, 4, 5, 5}) {
	case 1:
		o["dt"] = int64(rng.Range(1, 900)) * int64(time.Millisecond)
	case 2:
		o["dt"] = int64(time.Hour) * int64(rng.Range(1, 100))
	case 3:
		o["tmode"] = "rev"
	case 4:
		o["tmode"] = "same"
	}
	top := ch.tip
	switch rng.Weighted([]int{65, 20, 15}) {
	case 1:
		top = ch.tip + int64(rng.Range(1, 3))
	case 2:
		top = c + 1 + int64(rng.Intn(int(ch.tip-c)))
	}
	o["top"] = top
	o["bs"] = rng.Bool(0.15)
	o["nil"] = rng.Bool(0.25)
	return o
}

// drawTipFork draws a forward-lunatic fork: canonical up to height th (the head of an honest,
// possibly lagging provider), forged above it, and the fork's top header carries exactly the
// time of canonical block th (or 1ns around it). A lagging honest witness asked for the top
// height answers "too high" and then presents block th, which conflicts by time.
func drawTipFork(rng *simcore.RNG, ch *chainData, id int, ref int64, num, den int64, th int64) simcore.Op {
	var o simcore.Op
	for try := 0; try < 5; try++ {
		o = drawFork(rng, ch, id, ref, num, den)
		if cl := o.Str("class"); cl == "above" || cl == "all" || cl == "above23" {
			break
		}
	}
	if th > ch.tip {
		th = ch.tip
	}
	if th < ch.initial {
		th = ch.initial
	}
	o["c"] = th
	o["th"] = th
	o["top"] = th + int64(rng.Range(1, 3))
	o["tmode"] = "tip"
	o["dt"] = []int64{0, 0, 0, 0, -1, 1, -int64(rng.Range(2, 2000)), int64(rng.Range(2, 2000))}[rng.Intn(8)]
	return o
}

// ---------------------------------------------------------------- configuration

func genConfig(rng *simcore.RNG, env *simcore.Env) simcore.Op {
	c := simcore.Op{}
	v := rng.Intn(nVariants)
	ch := getChain(v)
	c["variant"] = v
	span := int(ch.tip - ch.initial)
	var root int64
	switch rng.Intn(4) {
	case 0:
		root = ch.initial
	case 1, 2:
		root = ch.initial + int64(rng.Intn(span/3+1))
	default:
		root = ch.initial + int64(rng.Intn(span-3))
	}
	c["root"] = root
	c["mode"] = "skip"
	if rng.Bool(0.3) {
		c["mode"] = "seq"
	}
	tl := [][2]int64{{1, 3}, {1, 3}, {2, 3}, {1, 2}, {1, 1}, {2, 5}, {3, 4}, {34, 100}, {9, 10}}[rng.Intn(9)]
	chainNs := int64(ch.lbs[ch.tip].Time.Sub(ch.lbs[ch.initial].Time))
	var period int64
	switch rng.Weighted([]int{40, 20, 15, 10, 5, 10}) {
	case 0:
		period = chainNs * 10
	case 1:
		period = chainNs * 2
	case 2:
		period = int64(time.Hour)
	case 3:
		period = chainNs / 2
	case 4:
		period = chainNs/4 + 1
	default:
		period = int64(ch.lbs[ch.tip].Time.Sub(ch.lbs[root].Time)) + int64(rng.Range(-2, 2))*int64(time.Millisecond)
	}
	if period <= 0 {
		period = int64(time.Second)
	}
	c["period"] = period
	c["drift"] = []int64{1e6, 5e8, 1e9, 3e9, 1e10}[rng.Intn(5)]
	c["lag"] = []int64{1e9, 3e9, 1e10}[rng.Intn(3)]
	c["prune"] = []int{0, 0, 1000, 1, 2, 3, 5}[rng.Intn(7)]
	c["retries"] = rng.Range(1, 5)
	np := rng.Range(2, 5)
	scen := []string{"honest", "byzprim", "byzwit", "mixed", "allbyz"}[rng.Weighted([]int{15, 25, 25, 25, 10})]
	c["scen"] = scen
	prim := rng.Intn(np)
	var provs []simcore.Op
	anyByz := false
	for i := 0; i < np; i++ {
		k := "hon"
		switch scen {
		case "honest":
			if rng.Bool(0.3) {
				k = "flaky"
			}
		case "byzprim":
			if i == prim {
				k = "byz"
			} else if rng.Bool(0.25) {
				k = []string{"flaky", "byz"}[rng.Intn(2)]
			}
		case "byzwit":
			if i != prim && (rng.Bool(0.6) || i == (prim+1)%np) {
				k = "byz"
			}
		case "mixed":
			k = []string{"hon", "flaky", "byz"}[rng.Intn(3)]
		case "allbyz":
			k = "byz"
		}
		if k == "byz" {
			anyByz = true
		}
		p := simcore.Op{"k": k, "lag": 0, "base": 0, "everr": rng.Bool(0.1), "erate": []int{5, 15, 40}[rng.Intn(3)]}
		if k != "byz" && rng.Bool(0.3) {
			p["lag"] = rng.Range(1, 6)
		}
		if k != "byz" && rng.Bool(0.15) {
			p["base"] = int(ch.initial) + rng.Intn(span/2+1)
		}
		provs = append(provs, p)
	}
	c["provs"] = provs
	c["prim"] = prim
	var wit []int
	for i := 0; i < np; i++ {
		if i != prim && (len(wit) == 0 || rng.Bool(0.85)) {
			wit = append(wit, i)
		}
	}
	c["wit"] = wit
	var forks []simcore.Op
	if anyByz {
		nf := rng.Range(2, 5)
		for i := 0; i < nf; i++ {
			forks = append(forks, drawFork(rng, ch, i, root, tl[0], tl[1]))
		}
		// sometimes make the trust level exactly the power fraction of one coalition in the root set
		if rng.Bool(0.3) {
			f := forks[rng.Intn(len(forks))]
			inSet := map[int]int64{}
			var total, s int64
			for _, val := range ch.lbs[root].ValidatorSet.Validators {
				inSet[ch.keyIdx[string(val.Address)]] = val.VotingPower
				total += val.VotingPower
			}
			for _, k := range f.Ints("keys") {
				s += inSet[k]
			}
			if s*3 >= total && s <= total && s > 0 {
				tl = [2]int64{s, total}
			}
		}
	}
	if anyByz && rng.Bool(0.5) {
		th := ch.tip
		var hon []int
		for i, p := range provs {
			if p.Str("k") == "hon" && i != prim {
				hon = append(hon, i)
			}
		}
		if len(hon) > 0 {
			th = ch.tip - int64(provs[hon[rng.Intn(len(hon))]].Int("lag"))
		}
		forks = append(forks, drawTipFork(rng, ch, len(forks), root, tl[0], tl[1], th))
	}
	c["forks"] = forks
	c["tl_num"], c["tl_den"] = tl[0], tl[1]
	c["ncalls"] = rng.Range(3, 8)
	if env.Thorough() {
		c["ncalls"] = rng.Range(4, 14)
	}
	c["raw"] = rng.Bool(0.15)
	c["cancel"] = rng.Bool(0.1)
	c["collude"] = []int{0, 50, 90}[rng.Intn(3)]
	c["mkfork"] = anyByz && rng.Bool(0.6)
	return c
}

// ---------------------------------------------------------------- simulator state

type provCfg struct {
	kind  string
	lag   int64
	base  int64
	everr bool
	erate int
}

type request struct {
	prov int
	h    int64
	ch   chan answer
}

type answer struct {
	lb  *types.LightBlock
	err error
}

type reply struct {
	prov int
	reqH int64
	blk  *binfo // nil when an error was returned
	err  string
	late bool // released after the client call had returned
}

type evRec struct {
	prov int
	ev   *types.LightClientAttackEvidence
}

type call struct {
	kind   string // init | vh | up | hdr
	h      int64
	now    time.Time
	src    int
	ctx    context.Context
	cancel context.CancelFunc

	done       bool
	retLB      *types.LightBlock
	retErr     error
	panicked   string
	replies    []reply
	evid       []evRec
	primBefore int
	cancelled  bool
	leadFork   int
	stuck      int
	returned   bool // the call has returned; witness requests still parked are answered late
	drain      int
}

type sim struct {
	env *simcore.Env
	cfg simcore.Op
	ch  *chainData

	period, drift, lag time.Duration
	num, den           int64
	seq                bool
	root               int64

	provCfgs []provCfg
	provs    []*prov
	curFork  []int
	grown    int64
	forks    map[int]*fork
	nextFork int

	db     dbm.DB
	store  lstore.Store
	client *light.Client

	mu   sync.Mutex // guards pend, call result fields, evidence (never held while parked)
	pend []*request
	call *call

	trusted   map[int64]*binfo // model of the trusted store after the last completed call
	byPtr     map[*types.LightBlock]*binfo
	byKey     map[string]*binfo
	callsLeft int
	initTries int
	lastNow   int64
	ended     bool
}

type prov struct {
	s   *sim
	idx int
}

func (p *prov) ChainID() string { return p.s.ch.chainID }

// LightBlock parks the caller until the simulator releases an answer (or the context ends).
func (p *prov) LightBlock(ctx context.Context, height int64) (*types.LightBlock, error) {
	if err := ctx.Err(); err != nil {
		return nil, err
	}
	r := &request{prov: p.idx, h: height, ch: make(chan answer, 1)}
	p.s.mu.Lock()
	p.s.pend = append(p.s.pend, r)
	p.s.mu.Unlock()
	select {
	case a := <-r.ch:
		return a.lb, a.err
	case <-ctx.Done():
		p.s.mu.Lock()
		for i, x := range p.s.pend {
			if x == r {
				p.s.pend = append(p.s.pend[:i], p.s.pend[i+1:]...)
				break
			}
		}
		p.s.mu.Unlock()
		return nil, ctx.Err()
	}
}

func (p *prov) ReportEvidence(ctx context.Context, ev types.Evidence) error {
	p.s.mu.Lock()
	defer p.s.mu.Unlock()
	if c := p.s.call; c != nil {
		lca, _ := ev.(*types.LightClientAttackEvidence)
		c.evid = append(c.evid, evRec{prov: p.idx, ev: lca})
	}
	if p.s.provCfgs[p.idx].everr {
		return errors.New("evidence rejected")
	}
	return nil
}

func newSim(env *simcore.Env, cfg simcore.Op) simcore.Sim {
	s := &sim{env: env, cfg: cfg, ch: getChain(cfg.Int("variant") % nVariants), forks: map[int]*fork{},
		byPtr: map[*types.LightBlock]*binfo{}, byKey: map[string]*binfo{}, trusted: map[int64]*binfo{}}
	s.period = time.Duration(cfg.Int64("period"))
	s.drift = time.Duration(cfg.Int64("drift"))
	s.lag = time.Duration(cfg.Int64("lag"))
	s.num, s.den = cfg.Int64("tl_num"), cfg.Int64("tl_den")
	s.seq = cfg.Str("mode") == "seq"
	if s.seq {
		s.num, s.den = 1, 3 // the client's default trust level applies to the detector's replays
	}
	s.root = cfg.Int64("root")
	if s.root < s.ch.initial || s.root > s.ch.tip {
		s.root = s.ch.initial
	}
	for i, p := range cfg.Subs("provs") {
		s.provCfgs = append(s.provCfgs, provCfg{kind: p.Str("k"), lag: p.Int64("lag"), base: p.Int64("base"), everr: p.Bool("everr"), erate: p.Int("erate")})
		s.provs = append(s.provs, &prov{s: s, idx: i})
		s.curFork = append(s.curFork, -1)
	}
	for _, fo := range cfg.Subs("forks") {
		f := forkFromOp(fo)
		if f.valid() {
			s.forks[f.id] = f
			if f.id >= s.nextFork {
				s.nextFork = f.id + 1
			}
		}
	}
	s.db = dbm.NewMemDB()
	s.store = dbs.New(s.db, "ls")
	s.callsLeft = cfg.Int("ncalls")
	s.lastNow = tOff(s.ch.lbs[s.root].Time)
	for _, bi := range s.ch.info {
		s.byKey[bi.key] = bi
		s.byPtr[bi.lb] = bi
	}
	return s
}

func (s *sim) infoOf(lb *types.LightBlock) *binfo {
	if bi, ok := s.byPtr[lb]; ok {
		return bi
	}
	bi := computeInfo(s.ch.chainID, lb)
	if old, ok := s.byKey[bi.key]; ok {
		s.byPtr[lb] = old
		return old
	}
	s.byPtr[lb] = bi
	s.byKey[bi.key] = bi
	return bi
}

func (s *sim) options() []light.Option {
	o := []light.Option{light.Logger(log.NewNopLogger()), light.MaxClockDrift(s.drift), light.MaxBlockLag(s.lag),
		light.MaxRetryAttempts(uint16(s.cfg.Int("retries"))), light.PruningSize(uint16(s.cfg.Int("prune")))}
	if s.seq {
		o = append(o, light.SequentialVerification())
	} else {
		o = append(o, light.SkippingVerification(tmmath.Fraction{Numerator: uint64(s.cfg.Int64("tl_num")), Denominator: uint64(s.cfg.Int64("tl_den"))}))
	}
	return o
}

func (s *sim) provList(prim int, wit []int) (provider.Provider, []provider.Provider, bool) {
	if prim < 0 || prim >= len(s.provs) || len(wit) == 0 {
		return nil, nil, false
	}
	seen := map[int]bool{prim: true}
	var ws []provider.Provider
	for _, w := range wit {
		if w < 0 || w >= len(s.provs) || seen[w] {
			return nil, nil, false
		}
		seen[w] = true
		ws = append(ws, s.provs[w])
	}
	return s.provs[prim], ws, true
}

func (s *sim) provIndex(p provider.Provider) int {
	if x, ok := p.(*prov); ok {
		return x.idx
	}
	return -1
}

func (s *sim) sortedPend() []*request {
	s.mu.Lock()
	out := append([]*request{}, s.pend...)
	s.mu.Unlock()
	sort.Slice(out, func(i, j int) bool {
		if out[i].prov != out[j].prov {
			return out[i].prov < out[j].prov
		}
		return out[i].h < out[j].h
	})
	return out
}

func (s *sim) callDone() bool {
	s.mu.Lock()
	defer s.mu.Unlock()
	return s.call != nil && s.call.done
}

func (s *sim) heights() []int64 {
	hs := make([]int64, 0, len(s.trusted))
	for h := range s.trusted {
		hs = append(hs, h)
	}
	sort.Slice(hs, func(i, j int) bool { return hs[i] < hs[j] })
	return hs
}

// ---------------------------------------------------------------- action generation

func (s *sim) Next(rng *simcore.RNG) simcore.Op {
	if s.ended {
		return nil
	}
	if s.call != nil {
		pend := s.sortedPend()
		if len(pend) == 0 {
			// the call is neither finished nor waiting for a provider: a witness routine sleeps
			return simcore.Op{"a": "tick", "d": int64(2*s.drift+s.lag) + 1, "grow": rng.Intn(3)}
		}
		if s.cfg.Bool("cancel") && rng.Bool(0.02) && !s.call.returned {
			return simcore.Op{"a": "cancel"}
		}
		r := pend[rng.Intn(len(pend))]
		return s.drawReply(rng, r)
	}
	if s.client == nil {
		if s.initTries >= 3 {
			return nil
		}
		return simcore.Op{"a": "init"}
	}
	if s.callsLeft <= 0 {
		return nil
	}
	nw := len(s.client.Witnesses())
	if nw == 0 || rng.Bool(0.06) {
		np := len(s.provs)
		prim := rng.Intn(np)
		var wit []int
		for i := 0; i < np; i++ {
			if i != prim && (len(wit) == 0 || rng.Bool(0.85)) {
				wit = append(wit, i)
			}
		}
		return simcore.Op{"a": "restart", "prim": prim, "wit": wit}
	}
	if s.cfg.Bool("mkfork") && rng.Bool(0.12) {
		hs := s.heights()
		var o simcore.Op
		if rng.Bool(0.3) {
			th := s.ch.tip
			var hon []int
			for i, pc := range s.provCfgs {
				if pc.kind == "hon" {
					hon = append(hon, i)
				}
			}
			if len(hon) > 0 {
				th = s.ch.tip - s.provCfgs[hon[rng.Intn(len(hon))]].lag + s.grown
			}
			o = drawTipFork(rng, s.ch, s.nextFork, hs[len(hs)-1], s.num, s.den, th)
		} else {
			o = drawFork(rng, s.ch, s.nextFork, hs[len(hs)-1], s.num, s.den)
		}
		o["a"] = "mkfork"
		return o
	}
	if rng.Bool(0.04) {
		return simcore.Op{"a": "tick", "d": int64(time.Second), "grow": rng.Range(1, 4)}
	}
	return s.drawCall(rng)
}

func (s *sim) drawCall(rng *simcore.RNG) simcore.Op {
	hs := s.heights()
	first, latest := hs[0], hs[len(hs)-1]
	tip := s.ch.tip
	o := simcore.Op{"a": "call", "k": []string{"vh", "up", "hdr"}[rng.Weighted([]int{70, 20, 10})], "src": -1}
	var h int64
	for try := 0; try < 8; try++ {
		switch rng.Weighted([]int{10, 10, 30, 15, 4, 10, 14, 3, 9}) {
		case 0:
			h = latest + 1
		case 1:
			h = latest + 2
		case 2:
			if tip > latest {
				h = latest + int64(rng.Range(1, int(tip-latest)))
			}
		case 3:
			h = tip
		case 4:
			h = tip + int64(rng.Range(1, 3))
		case 5:
			if latest-first >= 2 {
				h = first + int64(rng.Range(1, int(latest-first-1)))
			}
		case 6:
			if first > s.ch.initial {
				h = first - int64(rng.Range(1, int(first-s.ch.initial)))
			}
		case 7:
			h = hs[rng.Intn(len(hs))]
		case 8:
			if ids := s.forkIDs(); len(ids) > 0 {
				h = s.forks[ids[rng.Intn(len(ids))]].top
			}
		}
		if h > 0 {
			break
		}
	}
	if h <= 0 {
		h = latest + 1
	}
	o["h"] = h
	if o.Str("k") == "hdr" && len(s.forks) > 0 && rng.Bool(0.4) {
		ids := s.forkIDs()
		o["src"] = ids[rng.Intn(len(ids))]
	}
	// the trusted block a forward verification of h would start from
	var t0 *binfo
	for _, x := range hs {
		if x < h {
			t0 = s.trusted[x]
		}
	}
	if t0 == nil {
		t0 = s.trusted[first]
	}
	tt := s.ch.timeOf(h)
	base := s.lastNow
	if x := tOff(s.trusted[latest].t); x > base {
		base = x
	}
	var now int64
	mode := rng.Weighted([]int{22, 40, 8, 3, 8, 3, 16})
	o["adv"] = mode == 0 || mode == 1 || mode == 6
	switch mode {
	case 0:
		now = base + int64(rng.Range(0, 3000))*int64(time.Millisecond)
	case 1:
		now = tOff(s.ch.timeOf(tip)) + int64(rng.Range(1, 5000))*int64(time.Millisecond)
	case 2: // expiry boundary of the starting block
		now = tOff(t0.t) + int64(s.period) + int64(rng.Range(-1, 1))
	case 3:
		now = tOff(t0.t) + int64(s.period)*int64(rng.Range(2, 5))
	case 4: // "from the future" boundary of the target
		now = tOff(tt) - int64(s.drift) + int64(rng.Range(-1, 1))
	case 5:
		now = tOff(tt) - int64(s.drift) - int64(rng.Range(1, 20))*int64(time.Second)
	default:
		now = tOff(tt) + int64(rng.Range(1, 2000))*int64(time.Millisecond)
	}
	if now < 1 {
		now = 1
	}
	o["now"] = now
	return o
}

func (s *sim) forkIDs() []int {
	ids := make([]int, 0, len(s.forks))
	for id := range s.forks {
		ids = append(ids, id)
	}
	sort.Ints(ids)
	return ids
}

var errKinds = []string{"nr", "nf", "hi", "bad", "other"}

// drawReply decides what provider r.prov answers to request r.
func (s *sim) drawReply(rng *simcore.RNG, r *request) simcore.Op {
	pc := s.provCfgs[r.prov]
	o := simcore.Op{"a": "rel", "p": r.prov, "h": r.h}
	tipP := s.ch.tip - pc.lag + s.grown
	if tipP > s.ch.tip {
		tipP = s.ch.tip
	}
	if tipP < s.ch.initial {
		tipP = s.ch.initial
	}
	honest := func() simcore.Op {
		switch {
		case r.h == 0:
			o["b"], o["hh"] = "ok", tipP
		case r.h > tipP:
			o["b"], o["e"] = "err", "hi"
		case r.h < pc.base || r.h < s.ch.initial:
			o["b"], o["e"] = "err", "nf"
		default:
			o["b"], o["hh"] = "ok", r.h
		}
		return o
	}
	isInit := s.call != nil && s.call.kind == "init"
	switch pc.kind {
	case "hon":
		return honest()
	case "flaky":
		rate := float64(pc.erate) / 100
		if isInit {
			rate /= 3
		}
		if rng.Bool(rate) {
			o["b"], o["e"] = "err", errKinds[rng.Intn(len(errKinds))]
			return o
		}
		return honest()
	}
	// byzantine
	if isInit && rng.Bool(0.85) {
		return honest()
	}
	ids := s.forkIDs()
	serveFork := func(id int) simcore.Op {
		f := s.forks[id]
		hh := r.h
		if hh == 0 {
			hh = f.top
		}
		o["b"], o["f"], o["hh"] = "fork", id, hh
		if s.cfg.Bool("raw") && rng.Bool(0.05) {
			o["b"], o["g"] = "raw", []string{"chain", "vals", "commit", "height"}[rng.Intn(4)]
		}
		return o
	}
	if len(ids) > 0 && r.prov == s.call.primBefore && s.call.leadFork < 0 {
		// a forging primary asked for its head (or for the very height a forward-lunatic fork tops
		// out at) likes to present that fork
		var tips []int
		for _, id := range ids {
			if f := s.forks[id]; f.tmode == "tip" && (r.h == 0 || r.h == f.top) {
				tips = append(tips, id)
			}
		}
		if len(tips) > 0 && rng.Bool(0.5) {
			return serveFork(tips[rng.Intn(len(tips))])
		}
	}
	if len(ids) > 0 {
		if lf := s.call.leadFork; lf >= 0 && s.forks[lf] != nil && rng.Intn(100) < s.cfg.Int("collude") {
			return serveFork(lf)
		}
		if cf := s.curFork[r.prov]; cf >= 0 && s.forks[cf] != nil && rng.Bool(0.8) {
			return serveFork(cf)
		}
	}
	w := []int{30, 40, 20, 10}
	if len(ids) == 0 {
		w[1] = 0
	}
	if !s.cfg.Bool("raw") {
		w[3] = 0
	}
	switch rng.Weighted(w) {
	case 0:
		pc.lag, pc.base = 0, 0
		tipP = s.ch.tip
		return honest()
	case 1:
		return serveFork(ids[rng.Intn(len(ids))])
	case 2:
		o["b"], o["e"] = "err", errKinds[rng.Intn(len(errKinds))]
		return o
	default:
		hh := r.h
		if hh == 0 {
			hh = s.ch.tip
		}
		o["b"], o["f"], o["hh"], o["g"] = "raw", -1, hh, []string{"chain", "vals", "commit", "height"}[rng.Intn(4)]
		return o
	}
}

// ---------------------------------------------------------------- actions

func (s *sim) Apply(op simcore.Op) bool {
	e := s.env
	if s.ended {
		return false
	}
	switch op.Kind() {
	case "init":
		if s.client != nil || s.call != nil {
			return false
		}
		prim, wit, ok := s.provList(s.cfg.Int("prim"), s.cfg.Ints("wit"))
		if !ok {
			s.ended = true
			return false
		}
		s.initTries++
		to := light.TrustOptions{Period: s.period, Height: s.root, Hash: s.ch.lbs[s.root].Hash()}
		c := s.newCall("init", s.root, time.Time{}, -1)
		c.primBefore = s.cfg.Int("prim")
		s.start(c, func(ctx context.Context) (*types.LightBlock, error) {
			cl, err := light.NewClient(ctx, s.ch.chainID, to, prim, wit, s.store, s.options()...)
			if err == nil {
				s.mu.Lock()
				s.client = cl
				s.mu.Unlock()
			}
			return nil, err
		})
	case "call":
		if s.client == nil || s.call != nil || s.callsLeft <= 0 {
			return false
		}
		k, h := op.Str("k"), op.Int64("h")
		if h <= 0 || h > s.ch.tip+1000 || op.Int64("now") <= 0 {
			return false
		}
		now := offT(op.Int64("now"))
		c := s.newCall(k, h, now, op.Int("src"))
		c.primBefore = s.provIndex(s.client.Primary())
		cl := s.client
		switch k {
		case "vh":
			s.start(c, func(ctx context.Context) (*types.LightBlock, error) { return cl.VerifyLightBlockAtHeight(ctx, h, now) })
		case "up":
			s.start(c, func(ctx context.Context) (*types.LightBlock, error) { return cl.Update(ctx, now) })
		case "hdr":
			var hdr *types.Header
			if f := s.forks[c.src]; f != nil {
				if lb := f.block(s.ch, h); lb != nil {
					hdr = lb.Header
				}
			} else if lb := s.ch.lbs[h]; lb != nil {
				hdr = lb.Header
			}
			if hdr == nil {
				c.cancel()
				return false
			}
			s.start(c, func(ctx context.Context) (*types.LightBlock, error) { return nil, cl.VerifyHeader(ctx, hdr, now) })
		default:
			c.cancel()
			return false
		}
		s.callsLeft--
		if op.Bool("adv") && op.Int64("now") > s.lastNow {
			s.lastNow = op.Int64("now")
		}
	case "rel":
		if s.call == nil {
			return false
		}
		p := op.Int("p")
		var r *request
		for _, x := range s.sortedPend() {
			if x.prov == p {
				r = x
				break
			}
		}
		if r == nil || (op.Has("h") && op.Int64("h") != r.h) {
			return false // a reply drawn for another request (reduced trace)
		}
		lb, err, ok := s.makeReply(op, r)
		if !ok {
			return false
		}
		rec := reply{prov: p, reqH: r.h, late: s.call.returned}
		if s.call.returned {
			s.call.drain++
			e.Count("probe.late_reply")
		}
		if err != nil {
			rec.err = err.Error()
			e.Count("fault.err_" + op.Str("e"))
		} else {
			rec.blk = s.infoOf(lb)
			if !rec.blk.canon {
				e.Count("fault.reply_" + op.Str("b"))
			}
		}
		s.mu.Lock()
		s.call.replies = append(s.call.replies, rec)
		for i, x := range s.pend {
			if x == r {
				s.pend = append(s.pend[:i], s.pend[i+1:]...)
				break
			}
		}
		s.mu.Unlock()
		if op.Str("b") == "fork" || (op.Str("b") == "raw" && op.Int("f") >= 0) {
			s.curFork[p] = op.Int("f")
			if p == s.call.primBefore && s.call.leadFork < 0 {
				s.call.leadFork = op.Int("f")
			}
		} else if op.Str("b") == "ok" {
			s.curFork[p] = -1
		}
		s.call.stuck = 0
		r.ch <- answer{lb: lb, err: err}
		s.step()
	case "tick":
		d := op.Int64("d")
		if d <= 0 || d > int64(24*time.Hour) {
			return false
		}
		s.grown += op.Int64("grow")
		wasStuck := s.call != nil && len(s.sortedPend()) == 0
		time.Sleep(time.Duration(d))
		s.step()
		if wasStuck && s.call != nil && len(s.sortedPend()) == 0 {
			s.call.stuck++
			if s.call.stuck >= 4 {
				c := s.call
				s.abandon()
				e.Fail("C09", "call-stuck", "client call %s(h=%d) neither returns nor waits for a provider or a timer", c.kind, c.h)
			}
		}
	case "cancel":
		if s.call == nil || s.call.cancelled || s.call.returned {
			return false
		}
		s.call.cancelled = true
		s.call.cancel()
		e.Count("fault.cancel")
		s.step()
	case "restart":
		if s.client == nil || s.call != nil {
			return false
		}
		prim, wit, ok := s.provList(op.Int("prim"), op.Ints("wit"))
		if !ok {
			return false
		}
		cl, err := light.NewClientFromTrustedStore(s.ch.chainID, s.period, prim, wit, s.store, s.options()...)
		if err != nil {
			e.Fail("C09", "restart-failed", "NewClientFromTrustedStore over a non-empty store failed: %v", err)
		}
		s.client = cl
		s.checkStoreUnchanged("restart")
	case "mkfork":
		if s.call != nil {
			return false
		}
		f := forkFromOp(op)
		if !f.valid() || s.forks[f.id] != nil || len(s.forks) > 40 {
			return false
		}
		for _, k := range append(append([]int{}, f.keys...), f.ghost...) {
			if k >= s.ch.nkeys {
				return false
			}
		}
		s.forks[f.id] = f
		if f.id >= s.nextFork {
			s.nextFork = f.id + 1
		}
	default:
		return false
	}
	e.Count("op." + op.Kind())
	return true
}

func (s *sim) newCall(kind string, h int64, now time.Time, src int) *call {
	ctx, cancel := context.WithCancel(context.Background())
	return &call{kind: kind, h: h, now: now, src: src, ctx: ctx, cancel: cancel, leadFork: -1, primBefore: -1}
}

func (s *sim) start(c *call, f func(ctx context.Context) (*types.LightBlock, error)) {
	s.call = c
	go func() {
		defer func() {
			if r := recover(); r != nil {
				s.mu.Lock()
				c.panicked = fmt.Sprintf("%v\n%s", r, debug.Stack())
				c.done = true
				s.mu.Unlock()
			}
		}()
		lb, err := f(c.ctx)
		s.mu.Lock()
		c.retLB, c.retErr, c.done = lb, err, true
		s.mu.Unlock()
	}()
	s.step()
}

// step: wait until every goroutine is parked, log the set of parked requests (the state the
// next action is drawn from) and evaluate the oracles if the call has returned.
func (s *sim) step() {
	s.env.Settle()
	if s.call == nil {
		return
	}
	var sb strings.Builder
	for _, r := range s.sortedPend() {
		fmt.Fprintf(&sb, " %d:%d", r.prov, r.h)
	}
	s.env.Logf("pend%s done=%v", sb.String(), s.callDone())
	if s.callDone() {
		// requests still parked when the call returns are answered late (bounded), then the
		// oracles run over everything that was answered
		c := s.call
		if n := len(s.sortedPend()); n > 0 && !c.cancelled && c.kind != "init" && c.drain < 2*len(s.provs) {
			c.returned = true
			return
		}
		s.finishCall()
	}
}

// abandon releases everything a stuck call holds.
func (s *sim) abandon() {
	if s.call != nil {
		s.call.cancel()
		s.env.Settle()
		s.call = nil
	}
	s.ended = true
}

func mutateRaw(ch *chainData, lb *types.LightBlock, g string) *types.LightBlock {
	pb, err := lb.ToProto()
	if err != nil {
		return lb
	}
	cp, err := types.LightBlockFromProto(pb)
	if err != nil {
		return lb
	}
	switch g {
	case "chain":
		cp.Header.ChainID = "other-" + cp.Header.ChainID
	case "vals":
		vals := []*types.Validator{}
		for i, v := range cp.ValidatorSet.Validators {
			nv := types.NewValidator(v.PubKey, v.VotingPower)
			if i == 0 {
				nv.VotingPower += 7
			}
			vals = append(vals, nv)
		}
		cp.ValidatorSet = &types.ValidatorSet{Validators: vals, Proposer: vals[0].Copy()} // (the set may list a key twice)
		cp.ValidatorSet.TotalVotingPower()
	case "commit":
		h := append([]byte{}, cp.Commit.BlockID.Hash...)
		h[0] ^= 0x55
		cp.Commit.BlockID.Hash = h
	}
	return cp
}

// makeReply builds the answer described by a release action for request r.
func (s *sim) makeReply(op simcore.Op, r *request) (*types.LightBlock, error, bool) {
	hh := op.Int64("hh")
	get := func(h int64) (*types.LightBlock, error) {
		if h > s.ch.tip+8 || h < 0 {
			return nil, provider.ErrHeightTooHigh
		}
		var lb *types.LightBlock
		if f := s.forks[op.Int("f")]; f != nil && op.Has("f") && op.Str("b") != "ok" {
			lb = f.block(s.ch, h)
		} else if h > s.ch.tip {
			return nil, provider.ErrHeightTooHigh
		} else {
			lb = s.ch.lbs[h]
		}
		if lb == nil {
			return nil, provider.ErrLightBlockNotFound
		}
		return lb, nil
	}
	switch op.Str("b") {
	case "ok":
		if hh > s.ch.tip {
			return nil, provider.ErrHeightTooHigh, true
		}
		lb, err := get(hh)
		return lb, err, true
	case "err":
		switch op.Str("e") {
		case "nr":
			return nil, provider.ErrNoResponse, true
		case "nf":
			return nil, provider.ErrLightBlockNotFound, true
		case "hi":
			return nil, provider.ErrHeightTooHigh, true
		case "bad":
			return nil, provider.ErrBadLightBlock{Reason: errors.New("remote sent a malformed light block")}, true
		case "other":
			return nil, errors.New("connection reset by peer"), true
		}
		return nil, nil, false
	case "fork":
		if s.forks[op.Int("f")] == nil {
			return nil, nil, false
		}
		lb, err := get(hh)
		return lb, err, true
	case "raw":
		if op.Int("f") >= 0 && s.forks[op.Int("f")] == nil {
			return nil, nil, false
		}
		g := op.Str("g")
		if g == "height" {
			if hh > s.ch.initial && (r.h+hh)%2 == 0 {
				hh--
			} else {
				hh++
			}
		}
		lb, err := get(hh)
		if err != nil || g == "height" {
			return lb, err, true
		}
		return mutateRaw(s.ch, lb, g), nil, true
	}
	return nil, nil, false
}

// ---------------------------------------------------------------- oracles

func (s *sim) readStore() map[int64]*binfo {
	post := map[int64]*binfo{}
	first, err1 := s.store.FirstLightBlockHeight()
	last, err2 := s.store.LastLightBlockHeight()
	if err1 != nil || err2 != nil {
		s.env.Fail("C09", "store-error", "trusted store iteration failed: %v %v", err1, err2)
	}
	if first <= 0 {
		return post
	}
	if last-first > 100000 {
		s.env.Fail("C09", "store-range", "trusted store spans heights %d..%d", first, last)
	}
	for h := first; h <= last; h++ {
		lb, err := s.store.LightBlock(h)
		if err == nil && lb != nil {
			post[h] = s.infoOf(lb)
		}
	}
	return post
}

func (s *sim) checkStoreUnchanged(ctx string) {
	post := s.readStore()
	for h, b := range post {
		if p, ok := s.trusted[h]; !ok || p.key != b.key {
			s.env.Fail("C09", "store-changed", "%s: height %d appeared/changed in the trusted store without a verifying call", ctx, h)
		}
	}
}

func hx(s string) string {
	if len(s) > 6 {
		s = s[:6]
	}
	return fmt.Sprintf("%X", s)
}

// cleanProvider: during this call provider x answered every request with a block, the
// blocks are a function of the height, agree with the starting block t0 and, above t0, are
// individually valid (well formed, all signatures genuine, +2/3 of their own set, strictly
// increasing time below now+drift, consecutive heights linked by NextValidatorsHash). For
// such a provider every verification between its blocks can only stall on the trust level,
// never fail, so it "can back" whatever it served.
func (s *sim) cleanProvider(c *call, x int, t0 *binfo, sc *stepCtx, pendAtEnd map[int]bool) (map[int64]*binfo, bool) {
	if pendAtEnd[x] || sc.expired(t0) {
		return nil, false
	}
	byH := map[int64]*binfo{}
	n := 0
	for _, r := range c.replies {
		if r.prov != x {
			continue
		}
		n++
		if r.blk == nil || (r.reqH != 0 && r.blk.h != r.reqH) {
			return nil, false
		}
		if prev, ok := byH[r.blk.h]; ok && prev.key != r.blk.key {
			return nil, false
		}
		byH[r.blk.h] = r.blk
	}
	if n == 0 {
		return nil, false
	}
	hs := make([]int64, 0, len(byH))
	for h := range byH {
		hs = append(hs, h)
	}
	sort.Slice(hs, func(i, j int) bool { return hs[i] < hs[j] })
	prev := t0
	for _, h := range hs {
		b := byH[h]
		if h < t0.h {
			return nil, false
		}
		if h == t0.h {
			if b.hash != t0.hash {
				return nil, false
			}
			continue
		}
		if !b.wf || !b.own23 || !b.allSigsOK || b.dupSig || !b.t.After(prev.t) || !b.t.Before(sc.now.Add(sc.drift)) {
			return nil, false
		}
		if b.h == prev.h+1 && !bytes.Equal(prev.lb.NextValidatorsHash, b.lb.ValidatorsHash) {
			return nil, false
		}
		prev = b
	}
	return byH, true
}

func (s *sim) finishCall() {
	e := s.env
	c := s.call
	pendAtEnd := map[int]bool{}
	for _, r := range s.sortedPend() {
		pendAtEnd[r.prov] = true
	}
	c.cancel()
	e.Settle()
	s.mu.Lock()
	s.pend = nil
	s.mu.Unlock()
	s.call = nil
	if c.panicked != "" {
		e.Fail("C09", "client-panic", "light client panicked in %s(h=%d): %s", c.kind, c.h, c.panicked)
	}
	errS := "<nil>"
	if c.retErr != nil {
		errS = c.retErr.Error()
		if len(errS) > 160 {
			errS = errS[:160]
		}
		errS = strings.ReplaceAll(errS, "\n", " ")
	}
	post := s.readStore()
	pre := s.trusted
	var newHs []int64
	for h, b := range post {
		if p, ok := pre[h]; !ok || p.key != b.key {
			newHs = append(newHs, h)
		}
	}
	sort.Slice(newHs, func(i, j int) bool { return newHs[i] < newHs[j] })
	e.Logf("call %s h=%d -> err=%s new=%v stored=%d", c.kind, c.h, errS, newHs, len(post))
	defer func() { s.trusted = post }()
	attack := c.retErr != nil && errors.Is(c.retErr, light.ErrLightClientAttack)

	if c.kind == "init" {
		for _, h := range newHs {
			b := post[h]
			if h != s.root || b.hash != string(s.ch.lbs[s.root].Hash()) || !b.wf {
				e.Fail("C09", "init-wrong-root", "NewClient stored height %d hash %s (wf=%v %s) but the trust root is height %d hash %X",
					h, hx(b.hash), b.wf, b.why, s.root, s.ch.lbs[s.root].Hash()[:3])
			}
		}
		if s.client != nil && len(post) == 0 {
			e.Fail("C09", "init-wrong-root", "NewClient succeeded without storing the trust root")
		}
		if s.client != nil {
			e.Count("probe.init_ok")
		} else {
			e.Count("probe.init_failed")
		}
		e.State("init", s.client != nil, len(c.replies))
		return
	}

	sc := &stepCtx{chainID: s.ch.chainID, now: c.now, drift: s.drift, period: s.period, num: s.num, den: s.den}
	var roots, cands []*binfo
	minPre, maxPre := int64(1<<62), int64(-1)
	for h, b := range pre {
		roots = append(roots, b)
		if h < minPre {
			minPre = h
		}
		if h > maxPre {
			maxPre = h
		}
	}
	sort.Slice(roots, func(i, j int) bool { return roots[i].h > roots[j].h })
	seen := map[string]bool{}
	for _, r := range c.replies {
		if r.blk != nil && !seen[r.blk.key] {
			seen[r.blk.key] = true
			cands = append(cands, r.blk)
		}
	}
	for h := s.ch.tip; h >= s.ch.initial; h-- {
		if b := s.ch.info[h]; !seen[b.key] {
			seen[b.key] = true
			cands = append(cands, b)
		}
	}
	sort.SliceStable(cands, func(i, j int) bool { return cands[i].h > cands[j].h })

	// the primary's answer for the target of this call
	prim := c.primBefore
	primAfter := s.provIndex(s.client.Primary())
	var target *binfo
	for _, r := range c.replies {
		if r.prov == prim && ((c.kind == "up" && r.reqH == 0) || (c.kind != "up" && r.reqH == c.h)) {
			target = r.blk
			break
		}
	}
	if target != nil && c.kind == "hdr" {
		var want []byte
		if f := s.forks[c.src]; f != nil {
			want = f.block(s.ch, c.h).Hash()
		} else {
			want = s.ch.lbs[c.h].Hash()
		}
		if target.hash != string(want) {
			target = nil
		}
	}
	var t0 *binfo
	if target != nil {
		if _, have := pre[target.h]; have || (c.kind == "up" && target.h <= maxPre) {
			target = nil
		} else {
			for _, r := range roots {
				if r.h < target.h && (t0 == nil || r.h > t0.h) {
					t0 = r
				}
			}
		}
	}

	// 1. soundness: everything newly stored is reachable by reference steps, and confirmed
	for _, h := range newHs {
		b := post[h]
		backwards := h < minPre
		if !b.wf {
			sig := "stored-malformed"
			if backwards {
				sig = "backwards-stored-malformed"
			}
			e.Fail("C09", sig, "call %s(h=%d): light block %d stored as trusted is malformed: %s", c.kind, c.h, h, b.why)
			continue
		}
		ok, why := sc.reachable(b, roots, cands)
		if !ok {
			sig := "stored-unverifiable"
			if backwards {
				sig = "stored-bad-hashlink"
				// was another copy of that height (one that is hash-linked) fetched in this call?
				for _, r := range c.replies {
					if r.blk != nil && r.blk.h == h && r.blk.hash != b.hash {
						if ok2, _ := sc.reachable(r.blk, roots, cands); ok2 {
							sig = "backwards-stored-other-copy"
						}
					}
				}
			}
			e.Fail("C09", sig, "call %s(h=%d now=%v): header %d (%s, canonical=%v) was stored as trusted but no chain of valid steps leads to it from the trusted set %v: %s",
				c.kind, c.h, tOff(c.now), h, hx(b.hash), b.canon, s.heights(), why)
			continue
		}
		if !b.canon {
			e.Count("probe.forged_header_trusted_legitimately")
		}
		if backwards {
			e.Count("probe.backwards_ok")
			continue
		}
		servers := map[int]int{}
		conflicting := false
		for _, r := range c.replies {
			if r.blk == nil {
				continue
			}
			if r.blk.hash == b.hash && !r.late {
				servers[r.prov]++
			}
		}
		for _, r := range c.replies {
			if differs(r, b) {
				conflicting = true
			}
		}
		if len(servers) < 2 {
			sig, self, who := "confirmed-without-witness", false, -1
			for p, n := range servers {
				self, who = n >= 2, p
			}
			switch {
			case self && who == primAfter:
				sig = "confirmed-only-by-itself" // the provider is primary and witness at once
			case self:
				sig = "confirmed-only-by-demoted-primary" // it supplied the header as primary and vouched for it as witness
			case conflicting:
				sig = "confirmed-by-conflicting-witness"
			}
			e.Fail("C09", sig, "call %s(h=%d): header %d (%s) became trusted although only %d provider(s) returned that header during the call (replies: %s)",
				c.kind, c.h, h, hx(b.hash), len(servers), replySummary(c, h))
		} else {
			e.Count("probe.confirmed_by_witness")
		}
	}
	if sc.exact > 0 {
		// what does the code do when the signed power equals the trust level exactly?
		e.Count("probe.trust_level_exact_step_seen")
		sc.strictAll = true
		for _, h := range newHs {
			if b := post[h]; b.wf && h > minPre {
				if ok, _ := sc.reachable(b, roots, cands); !ok {
					e.Count("probe.tl_boundary_accepted_only_with_equality")
				}
			}
		}
		sc.strictAll = false
		if target != nil && t0 != nil && target.h > t0.h+1 && !s.seq {
			okL, _ := sc.fwd(t0, target, false)
			okS, _ := sc.fwd(t0, target, true)
			if okL && !okS {
				direct := true // did the primary serve anything between t0 and the target?
				for _, r := range c.replies {
					if r.reqH > t0.h && r.reqH < target.h {
						direct = false
					}
				}
				if _, stored := post[target.h]; stored && direct {
					e.Count("probe.tl_boundary_direct_step_accepted")
				} else if !direct {
					e.Count("probe.tl_boundary_direct_step_bisected")
				}
			}
		}
	}
	if c.retErr == nil && c.retLB != nil && c.kind != "hdr" {
		if b, ok := post[c.retLB.Height]; ok && b.hash != string(c.retLB.Hash()) {
			e.Fail("C09", "returned-differs-from-store", "call %s(h=%d) returned header %X but the store holds %s at that height", c.kind, c.h, c.retLB.Hash()[:3], hx(b.hash))
		}
		if _, ok := post[c.retLB.Height]; !ok && s.cfg.Int("prune") == 0 {
			e.Fail("C09", "returned-not-stored", "call %s(h=%d) returned a verified light block %d that is not in the trusted store", c.kind, c.h, c.retLB.Height)
		}
	}

	// 2. evidence bookkeeping
	served := func(p int, hash string) bool {
		for _, r := range c.replies {
			if r.prov == p && r.blk != nil && r.blk.hash == hash {
				return true
			}
		}
		return false
	}
	servedByOther := func(p int, hash string) bool {
		for _, r := range c.replies {
			if r.prov != p && r.blk != nil && r.blk.hash == hash {
				return true
			}
		}
		return false
	}
	for _, ev := range c.evid {
		if ev.ev == nil || ev.ev.ConflictingBlock == nil || ev.ev.ConflictingBlock.SignedHeader == nil {
			e.Fail("C09", "evidence-malformed", "provider %d received evidence without a conflicting block", ev.prov)
		}
		hash := string(ev.ev.ConflictingBlock.Hash())
		// the block named must come from the other side: served during this call, and not the
		// (only) answer of the receiver for that height
		own := served(ev.prov, hash)
		if own {
			for _, r := range c.replies {
				if r.prov == ev.prov && r.blk != nil && r.blk.h == ev.ev.ConflictingBlock.Height && r.blk.hash != hash {
					own = false // the receiver answered that height in two ways; the other answer is its side
				}
			}
		}
		if prim != primAfter {
			own = false // providers changed roles during the call: "sides" are not well defined
		}
		if own || !(served(ev.prov, hash) || servedByOther(ev.prov, hash)) {
			e.Fail("C09", "evidence-wrong-side", "provider %d received evidence whose conflicting block %s is its own / was never served by the other side", ev.prov, hx(hash))
		}
		if !attack && !c.cancelled {
			e.Fail("C09", "evidence-without-attack-error", "evidence was reported to provider %d but the call returned %s", ev.prov, errS)
		}
	}
	if attack {
		e.Count("probe.attack_error")
		if len(c.evid) == 0 {
			e.Fail("C09", "attack-without-evidence", "call %s(h=%d) returned ErrLightClientAttack but no provider received evidence", c.kind, c.h)
		}
		if len(newHs) > 0 {
			e.Fail("C09", "attack-but-stored", "call %s(h=%d) returned ErrLightClientAttack and stored %v", c.kind, c.h, newHs)
		}
	}

	// 3. a witness that can back a different header => attack error + evidence for both sides
	if target != nil && t0 != nil && !c.cancelled && prim == primAfter && prim >= 0 {
		if vp, ok := s.cleanProvider(c, prim, t0, sc, pendAtEnd); ok {
			for w := range s.provs {
				if w == prim {
					continue
				}
				idx, first := -1, -1
				for i, r := range c.replies {
					if r.prov != prim && differs(r, target) {
						if first < 0 {
							first = i // earliest differing answer of any witness (whatever its height)
						}
						if r.prov == w && idx < 0 && r.reqH == target.h && r.blk.h == target.h && !r.late {
							idx = i
						}
					}
				}
				if idx < 0 {
					continue
				}
				if _, ok := s.cleanProvider(c, w, t0, sc, pendAtEnd); !ok {
					continue
				}
				e.Count("probe.backed_conflict")
				masked := first < idx
				if !attack {
					sig := "attack-undetected"
					if masked {
						sig = "attack-undetected-masked"
					}
					e.Fail("C09", sig, "call %s(h=%d): primary %d and witness %d returned different headers for height %d (%s vs %s), both chains verify from trusted height %d, but the call returned %s (replies: %s)",
						c.kind, c.h, prim, w, target.h, hx(target.hash), hx(c.replies[idx].blk.hash), t0.h, errS, replySummary(c, target.h))
					break
				}
				// evidence: some witness got a block of the primary, the primary got a block of that witness
				okW, okP := false, false
				for _, ev := range c.evid {
					hash := string(ev.ev.ConflictingBlock.Hash())
					if ev.prov != prim {
						for _, b := range vp {
							if b.hash == hash {
								okW = true
							}
						}
					} else if servedByOther(prim, hash) {
						okP = true
					}
				}
				if !okW {
					e.Fail("C09", "evidence-missing-witness", "attack detected between primary %d and a witness, but no witness received evidence naming the primary's block", prim)
				}
				// The evidence for the primary is built by replaying the accusing witness's trace
				// against the primary. That replay is only guaranteed to find the divergence when the
				// accusing witness kept the provider contract "the block returned has the height
				// requested" (light/provider/http enforces it before the client sees the block). A
				// witness that answered height h with a block of height h+-1 (fault `raw`/`height`)
				// yields a trace whose heights do not line up with the primary's block; the replay
				// then ends with "no divergence" and, as the spec allows, only the attack error and
				// the witness-side evidence remain.
				accuserOffContract := false
				for _, ev := range c.evid {
					if ev.prov == prim {
						continue
					}
					for _, r := range c.replies {
						if r.prov == ev.prov && r.blk != nil && r.reqH != 0 && r.blk.h != r.reqH {
							accuserOffContract = true
						}
					}
				}
				if !okP && accuserOffContract {
					e.Count("probe.attack_by_height_lying_witness")
					break
				}
				if !okP {
					e.Fail("C09", "evidence-missing-primary", "attack detected between primary %d and a witness (both fully responsive), but the primary received no evidence naming the witness's block", prim)
				}
				e.Count("probe.attack_evidence_both_sides")
				break
			}
		}
	}

	// 3b. an honest, fully stocked witness answered the target height with the canonical header
	// (possibly after the call had already returned) while the client trusted another header
	if target != nil && t0 != nil && !c.cancelled && prim == primAfter && c.retErr == nil && !target.canon && t0.canon && !sc.expired(t0) {
		if b, ok := post[target.h]; ok && b.hash == target.hash && target.h <= s.ch.tip && s.ch.info[target.h].t.Before(c.now.Add(s.drift)) {
			first := -1
			for i, r := range c.replies {
				if r.prov == prim || !differs(r, target) {
					continue
				}
				if first < 0 {
					first = i
				}
				pc := s.provCfgs[r.prov]
				if pc.kind == "hon" && r.blk.canon && r.reqH == target.h && r.blk.h == target.h && pc.base <= t0.h {
					sig := "attack-undetected"
					if first < i {
						sig = "attack-undetected-masked"
					}
					e.Fail("C09", sig, "call %s(h=%d): the client trusted the forged header %d (%s) from primary %d although the honest witness %d answered that height with the canonical header (late=%v) and holds the whole canonical chain from trusted height %d (replies: %s)",
						c.kind, c.h, target.h, hx(target.hash), prim, r.prov, r.late, t0.h, replySummary(c, target.h))
					break
				}
			}
		}
	}

	if target != nil {
		for _, r := range c.replies {
			if r.prov != prim && r.blk != nil && r.reqH == 0 && r.blk.canon && r.blk.h < target.h && !target.canon && !r.blk.t.Before(target.t) {
				e.Count("probe.lagging_witness_time_conflict")
				if r.blk.t.Equal(target.t) {
					e.Count("probe.lagging_witness_time_conflict_equal")
				}
				break
			}
		}
	}

	// 3c. forward lunatic: the client trusted a forged header above the head of an honest witness
	// although that witness, asked for its latest block, presented a canonical block that is
	// not older than the forged header (the spec's and the detector's time conflict), lies above
	// the trusted block, is verifiable now, and the witness holds the chain from the trusted
	// block up to it
	if target != nil && t0 != nil && !c.cancelled && prim == primAfter && c.retErr == nil && !target.canon && t0.canon && !sc.expired(t0) {
		if b, ok := post[target.h]; ok && b.hash == target.hash {
			first := -1
			for i, r := range c.replies {
				if r.prov == prim || !differs(r, target) {
					continue
				}
				if first < 0 {
					first = i
				}
				pc := s.provCfgs[r.prov]
				if pc.kind == "hon" && r.blk.canon && r.reqH == 0 && r.blk.h < target.h && r.blk.h > t0.h && pc.base <= t0.h &&
					r.blk.t.Before(c.now.Add(s.drift)) {
					_ = first
					e.Fail("C09", "attack-undetected", "call %s(h=%d): the client trusted the forged header %d (%s, time %d) from primary %d although the honest witness %d, whose head is below that height, presented its latest canonical block %d with time %d (not older, late=%v) and holds the canonical chain from trusted height %d (replies: %s)",
						c.kind, c.h, target.h, hx(target.hash), tOff(target.t), prim, r.prov, r.blk.h, tOff(r.blk.t), r.late, t0.h, replySummary(c, target.h))
					break
				}
			}
		}
	}

	// 4. completeness: honest responsive primary, only canonical answers, a witness with the header
	if target != nil && !c.cancelled && prim == primAfter && target.canon {
		allCanon, primOK, witness := true, true, false
		for _, r := range c.replies {
			if r.blk != nil && !r.blk.canon {
				allCanon = false
			}
			if r.blk != nil && r.reqH != 0 && r.blk.h != r.reqH {
				// a (canonical) block of another height than the one asked for: outside the provider
				// contract (light/provider/http rejects it); the detector takes it for a diverging
				// header and may legitimately end the call with an attack error
				allCanon = false
			}
			if r.prov == prim && (r.blk == nil || (r.reqH != 0 && r.blk.h != r.reqH)) {
				primOK = false
			}
			if r.prov != prim && r.blk != nil && !r.late && r.blk.key == target.key {
				witness = true
			}
		}
		if pendAtEnd[prim] {
			primOK = false
		}
		future := !target.t.Before(c.now.Add(s.drift))
		switch {
		case !allCanon || !primOK || future:
		case target.h < minPre:
			if pre[minPre].canon {
				e.Count("probe.complete_backwards")
				if c.retErr != nil {
					e.Fail("C09", "honest-call-failed", "backwards verification of canonical height %d from %d with an honest responsive primary failed: %s", target.h, minPre, errS)
				}
			}
		case t0 != nil && t0.canon && !sc.expired(t0) && witness:
			e.Count("probe.complete_forward")
			if c.retErr != nil {
				e.Fail("C09", "honest-call-failed", "call %s(h=%d now=%d): honest responsive primary, a witness returned the same canonical header %d, trusted height %d not expired, yet the call failed: %s (replies: %s)",
					c.kind, c.h, tOff(c.now), target.h, t0.h, errS, replySummary(c, target.h))
			}
			if b, ok := post[target.h]; (ok && b.hash != target.hash) || (!ok && s.cfg.Int("prune") == 0) {
				e.Fail("C09", "honest-call-wrong-block", "successful honest call did not leave canonical header %d in the trusted store", target.h)
			}
		}
	}

	// statistics / reach
	if prim != primAfter {
		e.Count("probe.primary_replaced")
	}
	bis := false
	if target != nil && t0 != nil && !s.seq {
		for _, r := range c.replies {
			if r.reqH > t0.h && r.reqH < target.h {
				bis = true
			}
		}
	}
	if bis {
		e.Count("probe.bisection")
	}
	if c.retErr == nil {
		e.Count("probe.call_ok")
	} else {
		e.Count("probe.call_err")
		var exp light.ErrOldHeaderExpired
		if errors.As(c.retErr, &exp) {
			e.Count("probe.err_expired")
		}
		if strings.Contains(errS, "from the future") {
			e.Count("probe.err_future")
		}
		if errors.Is(c.retErr, light.ErrFailedHeaderCrossReferencing) {
			e.Count("probe.err_no_cross_reference")
		}
		if errors.Is(c.retErr, light.ErrNoWitnesses) {
			e.Count("probe.err_no_witnesses")
		}
	}
	e.State(c.kind, c.retErr == nil, attack, len(newHs), bis, prim != primAfter, len(c.replies) > 6, s.seq, len(s.client.Witnesses()))
}

// differs: does this answer of a witness conflict with header b of height b.h? Either it was
// asked for that height and returned something else, or it was asked for its latest block
// and returned another block of that height or a lower block that is not older.
func differs(r reply, b *binfo) bool {
	if r.blk == nil || r.blk.hash == b.hash {
		return false
	}
	if r.reqH == b.h {
		return true
	}
	return r.reqH == 0 && (r.blk.h == b.h || (r.blk.h < b.h && !r.blk.t.Before(b.t)))
}

func replySummary(c *call, h int64) string {
	var sb strings.Builder
	for _, r := range c.replies {
		if r.blk != nil {
			fmt.Fprintf(&sb, "[p%d req%d->%d:%s]", r.prov, r.reqH, r.blk.h, hx(r.blk.hash))
		} else {
			fmt.Fprintf(&sb, "[p%d req%d->%s]", r.prov, r.reqH, r.err)
		}
		if sb.Len() > 700 {
			sb.WriteString("...")
			break
		}
	}
	return sb.String()
}

func (s *sim) Finish() {
	if s.call != nil || s.client == nil {
		return
	}
	s.checkStoreUnchanged("end of run")
	if lb, err := s.client.TrustedLightBlock(0); err == nil {
		hs := s.heights()
		if b := s.trusted[hs[len(hs)-1]]; b.hash != string(lb.Hash()) {
			s.env.Fail("C09", "latest-differs-from-store", "TrustedLightBlock(0) is not the highest stored block")
		}
	}
}

func (s *sim) Close() {
	if s.call != nil {
		s.call.cancel()
		s.env.Settle()
		for i := 0; i < 3 && !s.callDone(); i++ {
			time.Sleep(2*s.drift + s.lag + time.Second)
			s.env.Settle()
		}
		s.call = nil
	}
}
