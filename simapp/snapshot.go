package simapp

import abci "github.com/tendermint/tendermint/abci/types"

// AppSnapshot is an opaque copy of the whole application (durable and working state,
// pending EndBlock data, incarnation counter, journal length). Used by crash-point sweeps
// that run the same operation many times from the same starting point.
type AppSnapshot struct {
	com, work     *snapshotState
	inc           int
	seq           int
	journalLen    int
	pendingVals   []abci.ValidatorUpdate
	pendingParams *abci.ConsensusParams
	curHeight     int64
}

// Snapshot copies the application state.
func (a *RecApp) Snapshot() *AppSnapshot {
	a.mu.Lock()
	defer a.mu.Unlock()
	s := &AppSnapshot{com: a.com.clone(), work: a.work.clone(), inc: a.inc, seq: *a.seq, journalLen: len(a.Journal),
		pendingVals: append([]abci.ValidatorUpdate{}, a.pendingVals...), curHeight: a.curHeight}
	if a.pendingParams != nil {
		p := *a.pendingParams
		s.pendingParams = &p
	}
	return s
}

// Restore puts the application back to a snapshot taken earlier on the same application
// (the journal is truncated to its length at that time).
func (a *RecApp) Restore(s *AppSnapshot) {
	a.mu.Lock()
	defer a.mu.Unlock()
	a.com, a.work, a.inc, a.curHeight = s.com.clone(), s.work.clone(), s.inc, s.curHeight
	*a.seq = s.seq
	if len(a.Journal) > s.journalLen {
		a.Journal = a.Journal[:s.journalLen]
	}
	a.pendingVals = append([]abci.ValidatorUpdate{}, s.pendingVals...)
	a.pendingParams = nil
	if s.pendingParams != nil {
		p := *s.pendingParams
		a.pendingParams = &p
	}
}
