// Package simapp holds the recording ABCI application used by the simulations: a
// deterministic KV/hash-chain state machine with validator-update, parameter-update and
// retain-height transactions that journals every call with the connection it arrived on.
// Its committed state survives simulated crashes (atomically as of the last Commit); the
// working state of an unfinished block is discarded by Crash().
package simapp

import (
	"bytes"
	"crypto/sha256"
	"encoding/hex"
	"fmt"
	"sort"
	"strconv"
	"strings"
	"sync"

	abcicli "github.com/tendermint/tendermint/abci/client"
	abci "github.com/tendermint/tendermint/abci/types"
	"github.com/tendermint/tendermint/crypto/ed25519"
	cryptoenc "github.com/tendermint/tendermint/crypto/encoding"
	tmsync "github.com/tendermint/tendermint/libs/sync"
	tmproto "github.com/tendermint/tendermint/proto/tendermint/types"
	"github.com/tendermint/tendermint/proxy"
)

// Call is one journal entry.
type Call struct {
	Seq    int    // global order of arrival at the application
	Inc    int    // node incarnation (number of crashes before it)
	Conn   string // query | snapshot | mempool | consensus
	Name   string // Info, InitChain, BeginBlock, DeliverTx, EndBlock, Commit, CheckTx, ...
	Height int64  // block height the call refers to (BeginBlock/EndBlock/Commit/Info result)
	Tx     string // transaction for DeliverTx / CheckTx
	Code   uint32 // response code
	Hash   string // hex: block hash (BeginBlock) or app hash (Commit / Info)
	Type   int    // CheckTx type (0 new, 1 recheck)
}

type snapshotState struct {
	Height    int64
	Hash      []byte            // hash chain over everything executed
	KV        map[string]string // current key-values
	Vals      map[string]int64  // hex pubkey -> power
	Committed map[string]bool   // "once:" txs already committed
	Retain    int64             // retain distance (0 = keep everything)
	Over      bool              // answer the next Commit with retain_height = height+1 (beyond the tip: tendermint must refuse to prune)
	InitDone  bool
}

func (s *snapshotState) clone() *snapshotState {
	c := &snapshotState{Height: s.Height, Hash: append([]byte{}, s.Hash...), KV: map[string]string{}, Vals: map[string]int64{}, Committed: map[string]bool{}, Retain: s.Retain, Over: s.Over, InitDone: s.InitDone}
	for k, v := range s.KV {
		c.KV[k] = v
	}
	for k, v := range s.Vals {
		c.Vals[k] = v
	}
	for k, v := range s.Committed {
		c.Committed[k] = v
	}
	return c
}

// Point is called around every consensus-connection call ("abci:<Call>:pre|post"); it may
// crash the node.
type PointFunc func(label string)

// RecApp is the recording application. One RecApp is one node's application process plus
// its disk: it outlives node incarnations.
type RecApp struct {
	mu sync.Mutex

	HashLen int // app hash length (1..64)
	Point   PointFunc

	com  *snapshotState // durable, as of last Commit
	work *snapshotState // working state of the block in progress
	inc  int
	seq  *int // shared sequence counter (may be shared between apps of several nodes)

	Journal []Call

	pendingVals   []abci.ValidatorUpdate
	pendingParams *abci.ConsensusParams
	curHeight     int64

	// CheckTxFn overrides the CheckTx verdict when set.
	CheckTxFn func(tx []byte, committed map[string]bool) abci.ResponseCheckTx

	// AppHashFn, when set, replaces the app hash derived from the hash chain (used by
	// harnesses that need a Merkle-provable application state, e.g. lightrpcsim). It is
	// called with the application lock held (it must not call back into the application),
	// possibly several times for the same height; kv must be treated as read-only and
	// copied if kept. chain is the hash chain over everything executed. nil = default.
	AppHashFn func(height int64, kv map[string]string, chain []byte) []byte
	// QueryFn, when set, answers Query (after the call was journalled); committed is the
	// height of the last Commit. nil = default behaviour.
	QueryFn func(req abci.RequestQuery, committed int64) abci.ResponseQuery

	// InitVals, when non-nil, is the validator set the application returns from InitChain
	// (replacing the genesis validators; it also becomes the application's own validator
	// view). InitParams, when non-nil, are the consensus parameter updates returned from
	// InitChain. nil = the application accepts what the genesis document says.
	InitVals   []abci.ValidatorUpdate
	InitParams *abci.ConsensusParams
}

func NewRecApp(hashLen int) *RecApp {
	if hashLen <= 0 {
		hashLen = 8
	}
	st := &snapshotState{KV: map[string]string{}, Vals: map[string]int64{}, Committed: map[string]bool{}}
	n := 0
	return &RecApp{HashLen: hashLen, com: st, work: st.clone(), seq: &n}
}

// Crash discards the working state: the application restarts from its last Commit.
func (a *RecApp) Crash() {
	a.mu.Lock()
	a.work = a.com.clone()
	a.pendingVals, a.pendingParams = nil, nil
	a.inc++
	a.mu.Unlock()
}

// CommittedHeight returns the height of the last Commit.
func (a *RecApp) CommittedHeight() int64 {
	a.mu.Lock()
	defer a.mu.Unlock()
	return a.com.Height
}

// CommittedHash returns the app hash of the last Commit.
func (a *RecApp) CommittedHash() []byte {
	a.mu.Lock()
	defer a.mu.Unlock()
	return a.appHash(a.com)
}

// Validators returns the application's view of the validator set (hex pubkey -> power).
func (a *RecApp) Validators() map[string]int64 {
	a.mu.Lock()
	defer a.mu.Unlock()
	out := map[string]int64{}
	for k, v := range a.com.Vals {
		out[k] = v
	}
	return out
}

func (a *RecApp) appHash(s *snapshotState) []byte {
	if !s.InitDone && s.Height == 0 && len(s.Hash) == 0 {
		return nil
	}
	if a.AppHashFn != nil {
		return a.AppHashFn(s.Height, s.KV, s.Hash)
	}
	out := make([]byte, 0, a.HashLen)
	h := s.Hash
	for len(out) < a.HashLen {
		sum := sha256.Sum256(h)
		h = sum[:]
		out = append(out, h...)
	}
	return out[:a.HashLen]
}

func (a *RecApp) record(conn string, c Call) {
	*a.seq++
	c.Seq, c.Inc, c.Conn = *a.seq, a.inc, conn
	a.Journal = append(a.Journal, c)
}

func (a *RecApp) point(conn, label string) {
	if conn == "consensus" && a.Point != nil {
		a.Point("abci:" + label)
	}
}

// ---- the per-connection view

type connApp struct {
	abci.BaseApplication
	a    *RecApp
	conn string
}

// ClientCreator returns a proxy.ClientCreator whose four clients (query, snapshot,
// mempool, consensus - the order multiAppConn creates them in) tag calls with their
// connection.
func (a *RecApp) ClientCreator() proxy.ClientCreator {
	return &creator{a: a, mtx: new(tmsync.Mutex)}
}

type creator struct {
	a   *RecApp
	mtx *tmsync.Mutex
	n   int
}

func (c *creator) NewABCIClient() (abcicli.Client, error) {
	names := []string{"query", "snapshot", "mempool", "consensus"}
	name := names[c.n%4]
	c.n++
	return abcicli.NewLocalClient(c.mtx, &connApp{a: c.a, conn: name}), nil
}

// Conn returns the application as seen through one named connection (for harnesses that
// wire clients themselves).
func (a *RecApp) Conn(name string) abci.Application { return &connApp{a: a, conn: name} }

func (c *connApp) Info(req abci.RequestInfo) abci.ResponseInfo {
	a := c.a
	a.mu.Lock()
	defer a.mu.Unlock()
	res := abci.ResponseInfo{Data: "recapp", Version: "1", AppVersion: 1, LastBlockHeight: a.com.Height, LastBlockAppHash: a.appHash(a.com)}
	a.record(c.conn, Call{Name: "Info", Height: a.com.Height, Hash: hex.EncodeToString(res.LastBlockAppHash)})
	return res
}

func (c *connApp) InitChain(req abci.RequestInitChain) abci.ResponseInitChain {
	a := c.a
	a.point(c.conn, "InitChain:pre")
	a.mu.Lock()
	for _, v := range req.Validators {
		pk, err := cryptoenc.PubKeyFromProto(v.PubKey)
		if err == nil {
			a.work.Vals[hex.EncodeToString(pk.Bytes())] = v.Power
		}
	}
	if a.InitVals != nil {
		a.work.Vals = map[string]int64{}
		for _, v := range a.InitVals {
			if pk, err := cryptoenc.PubKeyFromProto(v.PubKey); err == nil && v.Power > 0 {
				a.work.Vals[hex.EncodeToString(pk.Bytes())] = v.Power
			}
		}
	}
	sum := sha256.Sum256(append([]byte("init:"+req.ChainId+":"), req.AppStateBytes...))
	a.work.Hash = sum[:]
	a.work.InitDone = true
	// InitChain state is durable on its own (an app persists genesis state)
	a.com = a.work.clone()
	a.record(c.conn, Call{Name: "InitChain", Height: req.InitialHeight, Hash: hex.EncodeToString(a.appHash(a.com))})
	res := abci.ResponseInitChain{AppHash: a.appHash(a.com)}
	if a.InitVals != nil {
		res.Validators = append([]abci.ValidatorUpdate{}, a.InitVals...)
	}
	if a.InitParams != nil {
		p := *a.InitParams
		res.ConsensusParams = &p
	}
	a.mu.Unlock()
	a.point(c.conn, "InitChain:post")
	return res
}

func (c *connApp) BeginBlock(req abci.RequestBeginBlock) abci.ResponseBeginBlock {
	a := c.a
	a.point(c.conn, "BeginBlock:pre")
	a.mu.Lock()
	a.curHeight = req.Header.Height
	a.pendingVals, a.pendingParams = nil, nil
	a.work = a.com.clone()
	a.chain([]byte(fmt.Sprintf("begin:%d:", req.Header.Height)), req.Hash)
	for _, ev := range req.ByzantineValidators {
		a.chain([]byte(fmt.Sprintf("byz:%d:%x", ev.Height, ev.Validator.Address)))
	}
	a.record(c.conn, Call{Name: "BeginBlock", Height: req.Header.Height, Hash: hex.EncodeToString(req.Hash)})
	a.mu.Unlock()
	a.point(c.conn, "BeginBlock:post")
	return abci.ResponseBeginBlock{Events: []abci.Event{{Type: "begin", Attributes: []abci.EventAttribute{{Key: []byte("h"), Value: []byte(strconv.FormatInt(req.Header.Height, 10)), Index: true}}}}}
}

func (a *RecApp) chain(parts ...[]byte) {
	h := sha256.New()
	h.Write(a.work.Hash)
	for _, p := range parts {
		h.Write(p)
	}
	a.work.Hash = h.Sum(nil)
}

// TxVerdict is the deterministic delivery verdict of a transaction.
func TxVerdict(tx []byte) uint32 {
	if bytes.HasPrefix(tx, []byte("fail")) {
		return 2
	}
	return 0
}

func (c *connApp) DeliverTx(req abci.RequestDeliverTx) abci.ResponseDeliverTx {
	a := c.a
	a.point(c.conn, "DeliverTx:pre")
	a.mu.Lock()
	tx := string(req.Tx)
	code := TxVerdict(req.Tx)
	a.chain([]byte("tx:"), req.Tx, []byte{byte(code)})
	var events []abci.Event
	if code == 0 {
		switch {
		case strings.HasPrefix(tx, "val:"):
			f := strings.Split(tx, ":")
			if len(f) >= 3 {
				if pkb, err := hex.DecodeString(f[1]); err == nil && len(pkb) == ed25519.PubKeySize {
					if pw, err := strconv.ParseInt(f[2], 10, 64); err == nil && pw >= 0 {
						a.stageValUpdate(f[1], pkb, pw)
					}
				}
			}
		case strings.HasPrefix(tx, "valraw:"):
			// valraw:<ed25519|secp256k1>:<hexpk>:<power> - a misbehaving application: the entry
			// goes into the EndBlock batch exactly as given (any key type, any power, also
			// negative), in transaction order, unfiltered, and the application's own validator
			// view is not touched.
			f := strings.Split(tx, ":")
			if len(f) >= 4 && (f[1] == "ed25519" || f[1] == "secp256k1") {
				pkb, err1 := hex.DecodeString(f[2])
				pw, err2 := strconv.ParseInt(f[3], 10, 64)
				if err1 == nil && err2 == nil && ((f[1] == "ed25519" && len(pkb) == ed25519.PubKeySize) || (f[1] == "secp256k1" && len(pkb) == 33)) {
					a.pendingVals = append(a.pendingVals, abci.UpdateValidator(pkb, pw, f[1]))
				}
			}
		case strings.HasPrefix(tx, "param:"):
			f := strings.Split(tx, ":")
			if len(f) >= 3 {
				if n, err := strconv.ParseInt(f[2], 10, 64); err == nil && n > 0 {
					if a.pendingParams == nil {
						a.pendingParams = &abci.ConsensusParams{}
					}
					switch f[1] {
					case "maxbytes":
						a.pendingParams.Block = &abci.BlockParams{MaxBytes: n, MaxGas: -1}
					case "evage":
						a.pendingParams.Evidence = &tmproto.EvidenceParams{MaxAgeNumBlocks: n, MaxAgeDuration: 1e9 * 3600, MaxBytes: 10000}
					}
				}
			}
		case strings.HasPrefix(tx, "retain:"):
			if n, err := strconv.ParseInt(tx[7:], 10, 64); err == nil && n >= 0 {
				a.work.Retain = n
			}
		case strings.HasPrefix(tx, "retainover:"):
			a.work.Over = true
		case strings.HasPrefix(tx, "once:"):
			a.work.Committed[tx] = true
		default:
			if i := strings.IndexByte(tx, '='); i > 0 {
				a.work.KV[tx[:i]] = tx[i+1:]
				events = append(events, abci.Event{Type: "app", Attributes: []abci.EventAttribute{
					{Key: []byte("key"), Value: []byte(tx[:i]), Index: true},
					{Key: []byte("val"), Value: []byte(tx[i+1:]), Index: true}}})
			}
		}
	}
	a.record(c.conn, Call{Name: "DeliverTx", Height: a.curHeight, Tx: tx, Code: code})
	a.mu.Unlock()
	a.point(c.conn, "DeliverTx:post")
	return abci.ResponseDeliverTx{Code: code, Data: []byte(fmt.Sprintf("r%d", len(req.Tx))), GasWanted: 1, GasUsed: 1, Events: events}
}

// stageValUpdate keeps only updates the validator set will accept: no duplicates in one
// block, no removal of unknown validators, never an empty set.
func (a *RecApp) stageValUpdate(hexpk string, pkb []byte, power int64) {
	for _, u := range a.pendingVals {
		if bytes.Equal(u.PubKey.GetEd25519(), pkb) {
			return
		}
	}
	cur, known := a.work.Vals[hexpk]
	if power == 0 {
		if !known {
			return
		}
		n := 0
		for _, p := range a.work.Vals {
			if p > 0 {
				n++
			}
		}
		if n <= 1 {
			return
		}
		delete(a.work.Vals, hexpk)
	} else {
		if known && cur == power {
			return
		}
		a.work.Vals[hexpk] = power
	}
	a.pendingVals = append(a.pendingVals, abci.Ed25519ValidatorUpdate(pkb, power))
}

func (c *connApp) EndBlock(req abci.RequestEndBlock) abci.ResponseEndBlock {
	a := c.a
	a.point(c.conn, "EndBlock:pre")
	a.mu.Lock()
	res := abci.ResponseEndBlock{ValidatorUpdates: a.pendingVals, ConsensusParamUpdates: a.pendingParams}
	a.chain([]byte(fmt.Sprintf("end:%d:%d", req.Height, len(a.pendingVals))))
	a.record(c.conn, Call{Name: "EndBlock", Height: req.Height})
	a.mu.Unlock()
	a.point(c.conn, "EndBlock:post")
	return res
}

func (c *connApp) Commit() abci.ResponseCommit {
	a := c.a
	a.point(c.conn, "Commit:pre")
	a.mu.Lock()
	a.work.Height = a.curHeight
	a.com = a.work.clone()
	res := abci.ResponseCommit{Data: a.appHash(a.com)}
	if a.com.Retain > 0 && a.com.Height > a.com.Retain {
		res.RetainHeight = a.com.Height - a.com.Retain
	}
	if a.com.Over {
		res.RetainHeight = a.com.Height + 1
		a.work.Over = false
	}
	a.record(c.conn, Call{Name: "Commit", Height: a.com.Height, Hash: hex.EncodeToString(res.Data)})
	a.mu.Unlock()
	a.point(c.conn, "Commit:post")
	return res
}

func (c *connApp) CheckTx(req abci.RequestCheckTx) abci.ResponseCheckTx {
	a := c.a
	a.mu.Lock()
	defer a.mu.Unlock()
	var res abci.ResponseCheckTx
	if a.CheckTxFn != nil {
		res = a.CheckTxFn(req.Tx, a.com.Committed)
	} else {
		tx := string(req.Tx)
		switch {
		case strings.HasPrefix(tx, "bad"):
			res.Code = 1
		case strings.HasPrefix(tx, "once:") && a.com.Committed[tx]:
			res.Code = 3
		}
		res.GasWanted = 1
	}
	a.record(c.conn, Call{Name: "CheckTx", Tx: string(req.Tx), Code: res.Code, Type: int(req.Type), Height: a.com.Height})
	return res
}

func (c *connApp) Query(req abci.RequestQuery) abci.ResponseQuery {
	a := c.a
	a.mu.Lock()
	defer a.mu.Unlock()
	v, ok := a.com.KV[string(req.Data)]
	a.record(c.conn, Call{Name: "Query", Tx: string(req.Data)})
	if a.QueryFn != nil {
		return a.QueryFn(req, a.com.Height)
	}
	if !ok {
		return abci.ResponseQuery{Code: 0, Key: req.Data, Height: a.com.Height, Log: "does not exist"}
	}
	return abci.ResponseQuery{Key: req.Data, Value: []byte(v), Height: a.com.Height, Log: "exists"}
}

// ConsensusJournal returns the calls that arrived on the consensus connection.
func (a *RecApp) ConsensusJournal() []Call {
	a.mu.Lock()
	defer a.mu.Unlock()
	var out []Call
	for _, c := range a.Journal {
		if c.Conn == "consensus" {
			out = append(out, c)
		}
	}
	return out
}

// SortedVals renders the app's validator view deterministically.
func (a *RecApp) SortedVals() []string {
	m := a.Validators()
	var out []string
	for k, v := range m {
		out = append(out, fmt.Sprintf("%s:%d", k[:8], v))
	}
	sort.Strings(out)
	return out
}
