// Package syncsim: deterministic simulation of block sync (blockchain/v0 reactor + pool)
// against simulated peers that serve a canonical chain honestly or lie about it.
// Decides C13.
package syncsim

import (
	"bytes"
	"crypto/sha256"
	"fmt"
	"math/big"
	"net"
	"os"
	"runtime"
	"sort"
	"strings"
	"sync"
	"testing"
	"time"

	"github.com/gogo/protobuf/proto"

	v0 "github.com/tendermint/tendermint/blockchain/v0"
	"github.com/tendermint/tendermint/config"
	"github.com/tendermint/tendermint/consensus"
	"github.com/tendermint/tendermint/crypto/ed25519"
	"github.com/tendermint/tendermint/libs/log"
	"github.com/tendermint/tendermint/libs/service"
	mempl "github.com/tendermint/tendermint/mempool/mock"
	"github.com/tendermint/tendermint/p2p"
	tmconn "github.com/tendermint/tendermint/p2p/conn"
	bcproto "github.com/tendermint/tendermint/proto/tendermint/blockchain"
	tmproto "github.com/tendermint/tendermint/proto/tendermint/types"
	"github.com/tendermint/tendermint/proxy"
	sm "github.com/tendermint/tendermint/state"
	"github.com/tendermint/tendermint/store"
	"github.com/tendermint/tendermint/types"
	dbm "github.com/tendermint/tm-db"

	"verif/chaingen"
	"verif/simapp"
	"verif/simcore"
	"verif/simdisk"
)

func TestMain(m *testing.M) {
	simcore.InitProcess()
	os.Exit(m.Run())
}

func TestSim(t *testing.T) { simcore.Main(t, harness) }

var harness = &simcore.Harness{
	Name:         "syncsim",
	Props:        []string{"C13", "C05"},
	Config:       genConfig,
	New:          newSim,
	MaxOps:       420,
	MinimizeReps: 2,
	Real: []string{
		"blockchain/v0 BlockchainReactor (Receive/ReceiveEnvelope, AddPeer/RemovePeer, poolRoutine, request/error routine, all tickers) and BlockPool (requesters, peer timeouts, retry timers) on the bubble's fake clock",
		"state.BlockExecutor (ValidateBlock, ApplyBlock), store.BlockStore, state.Store over MemDB, consensus.Handshaker (InitChain), proxy.AppConns over the recording application",
		"p2p.Switch (never started, transport never listens): peer set, StopPeerForError/stopAndRemovePeer, BroadcastEnvelope, Reactor lookup",
		"types.ValidatorSet.VerifyCommitLight / VerifyCommit, types.BlockFromProto (wire decoding of every response)",
		"consensus.NewState (reconstructLastCommit + updateToState) on the synced stores at the hand-over and at simulated restarts",
		"canonical chain: chaingen (real executor, real commits signed with known keys, validator churn)",
		"crash mode (30% of runs, all runs for C05): block store and state store on simdisk.CrashDB, the pool routine is killed (runtime.Goexit) at the k-th persistence point of SaveBlock/ApplyBlock (database write pre/post, ABCI call pre/post), optionally a second crash inside the restart's handshake; restart as node.NewNode: stores reopened from the crash images, real consensus.Handshaker over the real application connection, consensus.NewState, new reactor, peers reconnect",
	},
	Stub: []string{
		"peers: simulator objects implementing p2p.Peer; no MConnection/SecretConnection (see mconnsim/secconnsim)",
		"consensus reactor: a recorder registered as \"CONSENSUS\" that captures SwitchToConsensus(state, skipWAL); the consensus state machine is constructed but not started",
		"blockchain/v1 and v2 reactors are out of scope (v0 is the default fastsync.version)",
		"hook H8 (blockchain/v0/pool_verif.go): the requester-spawning loop sleeps 2ms when idle instead of busy-spinning",
	},
	Assumptions: []string{
		"crash model: per database the durable image plus a prefix of its unsynced write groups survives (the two databases independently); the application's state is durable as of its last Commit",
		"at most 2/3 of the voting power of any height signs a foreign block that would pass validation; the only thing a larger coalition (all keys) signs is a block that is invalid against the state (behaviour byz_invalid/byz_commit), which the node must still refuse; validators may have signed genuine precommits for nil at any height/round (behaviours nil_flip, nil_fab/nil_carrier), which never count as power for a block",
		"multi-eligible-peer runs depend on Go map iteration order inside BlockPool; a violation found there is reported only if an immediate in-process re-run of the same trace shows it again (otherwise counted as probe.unreproduced)",
		"a switch to consensus with the store at (highest advertised height - 2) counts as having reached the tip: IsCaughtUp needs block H+1 to verify H, and the last verified block may still be unprocessed when the 1s ticker fires",
	},
}

const chainLen = 60 // heights generated per canonical chain

// ---------------------------------------------------------------- configuration

var lieKinds = []string{"alt", "hdr", "pad_after", "pad_nil", "pad_before", "trunc", "extend", "reorder",
	"wrong_hash", "wrong_psh", "wrong_round", "wrong_height", "coal_other", "subset_ok", "subset_low",
	"inconsistent", "garbage", "other_height", "byz_invalid", "nil_flip", "nil_fab"}

func genConfig(rng *simcore.RNG, env *simcore.Env) simcore.Op {
	c := simcore.Op{}
	mode := "strict"
	if rng.Bool(0.25) {
		mode = "multi"
	}
	c["mode"] = mode
	c["cseed"] = rng.Intn(3)
	c["nvals"] = []int{1, 3, 4, 4, 7}[rng.Intn(5)]
	c["init"] = []int{1, 1, 1, 4}[rng.Intn(4)]
	c["churn"] = []int{0, 30}[rng.Intn(2)]
	nn := rng.Range(8, 40)
	if env.Thorough() {
		nn = rng.Range(8, 57)
	}
	if mode == "multi" {
		nn = rng.Range(6, 18)
	}
	c["nn"] = nn
	var ends []int
	for pos := 0; pos < nn; {
		pos += rng.Range(3, 16)
		if pos > nn {
			pos = nn
		}
		ends = append(ends, pos)
	}
	c["segs"] = ends
	c["prefill"] = 0
	if rng.Bool(0.3) {
		c["prefill"] = rng.Range(1, nn/2)
	}
	c["lie"] = []int{0, 10, 25, 50}[rng.Intn(4)]
	c["maxlies"] = rng.Range(1, 3)
	c["tiplie"] = []int{0, 30, 70}[rng.Intn(3)]
	var kinds []string
	for _, k := range lieKinds {
		if rng.Bool(0.5) {
			kinds = append(kinds, k)
		}
	}
	if len(kinds) == 0 {
		kinds = append(kinds, lieKinds[rng.Intn(len(lieKinds))])
	}
	c["kinds"] = kinds
	c["bseed"] = rng.Intn(1 << 30)
	c["nops"] = rng.Range(40, 160+4*nn)
	c["statuslie"] = []int{0, 10, 30}[rng.Intn(3)]
	c["longticks"] = rng.Bool(0.3)
	c["drain"] = []string{"remove", "remove", "silent"}[rng.Intn(3)]
	c["npeers"] = rng.Range(2, 5) // multi mode: initial full-range peers
	// crash mode: stores on crashable databases, the node is killed at a persistence point of
	// the save/execute pipeline and restarted the way node.NewNode starts (always when the
	// run is for C05, whose subject is that pipeline)
	c["crash"] = rng.Bool(0.3) || env.Prop == "C05"
	return c
}

// ---------------------------------------------------------------- canonical chain (cached per process)

type canon struct {
	ch      *chaingen.Chain
	init    int64
	last    int64
	chainID string
}

var (
	canonMu    sync.Mutex
	canonCache = map[string]*canon{}
)

// getCanon returns the canonical chain, a pure function of (cseed, nvals, init, churn).
func getCanon(cfg simcore.Op) *canon {
	key := fmt.Sprintf("c%d-v%d-i%d-u%d", cfg.Int("cseed"), cfg.Int("nvals"), cfg.Int("init"), cfg.Int("churn"))
	canonMu.Lock()
	defer canonMu.Unlock()
	if c, ok := canonCache[key]; ok {
		return c
	}
	rng := simcore.NewRNG(uint64(cfg.Int("cseed"))*7919 + uint64(cfg.Int("nvals"))*131 + uint64(cfg.Int("init"))*17 + uint64(cfg.Int("churn")) + 99)
	nv := cfg.Int("nvals")
	powers := make([]int64, nv)
	equal := rng.Bool(0.5)
	for i := range powers {
		powers[i] = 10
		if !equal {
			powers[i] = int64(rng.Range(1, 20))
		}
	}
	ch := chaingen.New(chaingen.Opts{ChainID: "syncsim-" + key, InitialHeight: int64(cfg.Int("init")), Powers: powers})
	growChain(ch, rng, chainLen, nv+3, float64(cfg.Int("churn"))/100)
	ch.Stop()
	c := &canon{ch: ch, init: int64(cfg.Int("init")), last: ch.Height(), chainID: ch.GenDoc.ChainID}
	canonCache[key] = c
	return c
}

// growChain is chaingen.Grow with parameter changes kept above the evidence size bound.
func growChain(c *chaingen.Chain, rng *simcore.RNG, n, maxKeys int, churn float64) {
	for i := 0; i < maxKeys; i++ {
		c.KnowKey(i)
	}
	for j := 0; j < n; j++ {
		var s chaingen.BlockSpec
		h := c.Height() + 1
		for t, nt := 0, rng.Intn(4); t < nt; t++ {
			s.Txs = append(s.Txs, []byte(fmt.Sprintf("k%d-%d=v%d", h, t, rng.Intn(1000))))
		}
		if rng.Bool(churn) {
			pw := int64(0)
			if rng.Bool(0.7) {
				pw = int64(rng.Range(1, 30))
			}
			s.Txs = append(s.Txs, chaingen.ValTx(rng.Intn(maxKeys), pw))
		}
		if rng.Bool(0.04) {
			s.Txs = append(s.Txs, []byte(fmt.Sprintf("param:maxbytes:%d", 4000000+rng.Intn(1000000))))
		}
		if rng.Bool(0.2) {
			s.Round = int32(rng.Intn(3))
		}
		vals := c.State.Validators
		total := vals.TotalVotingPower()
		var gone int64
		s.Absent, s.Nil = map[int]bool{}, map[int]bool{}
		for i, v := range vals.Validators {
			if rng.Bool(0.2) && (gone+v.VotingPower)*3 < total {
				if rng.Bool(0.25) {
					s.Nil[i] = true
				} else {
					s.Absent[i] = true
				}
				gone += v.VotingPower
			}
		}
		c.Next(s)
	}
}

// vals returns the validator set that signs height h.
func (c *canon) vals(h int64) *types.ValidatorSet { return c.ch.States[h-1].Validators }

func (c *canon) blockID(h int64) types.BlockID {
	return types.BlockID{Hash: c.ch.Blocks[h].Hash(), PartSetHeader: c.ch.Parts[h].Header()}
}

func (c *canon) cloneBlock(h int64) *types.Block {
	pb, err := c.ch.Blocks[h].ToProto()
	if err != nil {
		panic(err)
	}
	b, err := types.BlockFromProto(pb)
	if err != nil {
		panic(err)
	}
	return b
}

// checkCommit is the reference verification of a commit for height h: it must name exactly
// the canonical block id of h, have one slot per validator of h, every non-absent slot must
// carry that validator's address and a valid ed25519 signature over the canonical vote, and
// the slots voting for the block must hold more than 2/3 of the power (big integers).
func (c *canon) checkCommit(cm *types.Commit, h int64) (power bool, allValid bool, detail string) {
	if cm == nil {
		return false, false, "nil commit"
	}
	vals := c.vals(h)
	bid := c.blockID(h)
	if cm.Height != h {
		return false, false, fmt.Sprintf("commit height %d != %d", cm.Height, h)
	}
	if !bytes.Equal(cm.BlockID.Hash, bid.Hash) || cm.BlockID.PartSetHeader.Total != bid.PartSetHeader.Total ||
		!bytes.Equal(cm.BlockID.PartSetHeader.Hash, bid.PartSetHeader.Hash) {
		return false, false, "commit is for another block id"
	}
	if len(cm.Signatures) != len(vals.Validators) {
		return false, false, fmt.Sprintf("%d signature slots for %d validators", len(cm.Signatures), len(vals.Validators))
	}
	total, tally := new(big.Int), new(big.Int)
	allValid = true
	for i, v := range vals.Validators {
		total.Add(total, big.NewInt(v.VotingPower))
		sig := cm.Signatures[i]
		if sig.BlockIDFlag == types.BlockIDFlagAbsent {
			continue
		}
		vote := &tmproto.Vote{Type: tmproto.PrecommitType, Height: h, Round: cm.Round, Timestamp: sig.Timestamp,
			ValidatorAddress: sig.ValidatorAddress, ValidatorIndex: int32(i)}
		switch sig.BlockIDFlag {
		case types.BlockIDFlagCommit:
			vote.BlockID = bid.ToProto()
		case types.BlockIDFlagNil:
		default:
			allValid = false
			detail = fmt.Sprintf("slot %d: unknown flag %d", i, sig.BlockIDFlag)
			continue
		}
		if !bytes.Equal(sig.ValidatorAddress, v.Address) {
			allValid = false
			detail = fmt.Sprintf("slot %d carries address %X, validator is %X", i, sig.ValidatorAddress, v.Address)
			continue
		}
		if !v.PubKey.VerifySignature(types.VoteSignBytes(c.chainID, vote), sig.Signature) {
			allValid = false
			detail = fmt.Sprintf("slot %d (flag %d): signature does not verify for validator %X", i, sig.BlockIDFlag, v.Address)
			continue
		}
		if sig.BlockIDFlag == types.BlockIDFlagCommit {
			tally.Add(tally, big.NewInt(v.VotingPower))
		}
	}
	l := new(big.Int).Mul(tally, big.NewInt(3))
	r := new(big.Int).Mul(total, big.NewInt(2))
	power = l.Cmp(r) > 0
	if !power && detail == "" {
		detail = fmt.Sprintf("valid signatures for the block hold %v of %v", tally, total)
	}
	return power, allValid, detail
}

// ---------------------------------------------------------------- forging

func copySigs(in []types.CommitSig) []types.CommitSig {
	out := make([]types.CommitSig, len(in))
	for i, s := range in {
		out[i] = s
		out[i].ValidatorAddress = append([]byte{}, s.ValidatorAddress...)
		out[i].Signature = append([]byte{}, s.Signature...)
	}
	return out
}

// mutateCommit derives a lying variant of the canonical commit for height h.
func (c *canon) mutateCommit(h int64, kind string, x int) *types.Commit {
	old := c.ch.Commits[h]
	vals := c.vals(h)
	sigs := copySigs(old.Signatures)
	r := simcore.NewRNG(uint64(x)*2654435761 + uint64(h) + 3)
	bid := old.BlockID
	height, round := old.Height, old.Round
	var total int64
	for _, v := range vals.Validators {
		total += v.VotingPower
	}
	istar, cum := len(sigs)-1, int64(0)
	for i, s := range sigs {
		if s.BlockIDFlag == types.BlockIDFlagCommit {
			cum += vals.Validators[i].VotingPower
			if 3*cum > 2*total {
				istar = i
				break
			}
		}
	}
	ts := c.ch.Blocks[h].Time.Add(time.Second)
	var absent, after []int
	for i, s := range sigs {
		if s.BlockIDFlag == types.BlockIDFlagAbsent {
			absent = append(absent, i)
		}
		if i > istar {
			after = append(after, i)
		}
	}
	pick := func(l []int) int { return l[r.Intn(len(l))] }
	garbage := func(j int, flag types.BlockIDFlag) {
		sigs[j] = types.CommitSig{BlockIDFlag: flag, ValidatorAddress: append([]byte{}, vals.Validators[j].Address...), Timestamp: ts, Signature: r.Bytes(64)}
	}
	if (kind == "trunc" || kind == "reorder") && len(sigs) < 2 {
		kind = "wrong_round"
	}
	switch kind {
	case "pad_after":
		switch {
		case len(after) > 0:
			garbage(pick(after), types.BlockIDFlagCommit)
		case len(absent) > 0:
			garbage(pick(absent), types.BlockIDFlagNil)
		default:
			garbage(len(sigs)-1, types.BlockIDFlagCommit)
		}
	case "pad_nil":
		switch {
		case len(absent) > 0:
			garbage(pick(absent), types.BlockIDFlagNil)
		case len(after) > 0:
			garbage(pick(after), types.BlockIDFlagNil)
		default:
			garbage(len(sigs)-1, types.BlockIDFlagNil)
		}
	case "pad_before":
		var cand []int
		for i := 0; i <= istar && i < len(sigs); i++ {
			if sigs[i].BlockIDFlag == types.BlockIDFlagCommit {
				cand = append(cand, i)
			}
		}
		if len(cand) == 0 {
			cand = []int{0}
		}
		garbage(pick(cand), types.BlockIDFlagCommit)
	case "trunc":
		sigs = sigs[:len(sigs)-1]
	case "extend":
		extra := sigs[r.Intn(len(sigs))]
		if r.Bool(0.5) {
			extra = types.CommitSig{BlockIDFlag: types.BlockIDFlagCommit, ValidatorAddress: r.Bytes(20), Timestamp: ts, Signature: r.Bytes(64)}
		}
		sigs = append(sigs, extra)
	case "reorder":
		i := r.Intn(len(sigs))
		j := (i + 1 + r.Intn(len(sigs)-1)) % len(sigs)
		sigs[i], sigs[j] = sigs[j], sigs[i]
	case "wrong_hash":
		bid.Hash = append([]byte{}, bid.Hash...)
		bid.Hash[r.Intn(len(bid.Hash))] ^= 0x40
	case "wrong_psh":
		if r.Bool(0.5) {
			bid.PartSetHeader.Total++
		} else {
			ph := append([]byte{}, bid.PartSetHeader.Hash...)
			ph[r.Intn(len(ph))] ^= 0x01
			bid.PartSetHeader.Hash = ph
		}
	case "wrong_round":
		round++
	case "wrong_height":
		height++
	case "coal_other", "subset_ok", "subset_low":
		// a coalition of real keys: for a foreign block (at most 2/3 of the power), or a
		// subset of the genuine signers just above / at or below 2/3
		order := r.Perm(len(sigs))
		chosen := map[int]bool{}
		var p int64
		for _, i := range order {
			pw := vals.Validators[i].VotingPower
			if kind != "coal_other" && sigs[i].BlockIDFlag != types.BlockIDFlagCommit {
				continue
			}
			if kind == "subset_ok" {
				if 3*p > 2*total {
					break
				}
			} else if 3*(p+pw) > 2*total {
				continue
			}
			chosen[i] = true
			p += pw
		}
		if kind == "coal_other" {
			fh := sha256.Sum256([]byte(fmt.Sprintf("foreign-%d-%d", h, x)))
			bid = types.BlockID{Hash: fh[:], PartSetHeader: types.PartSetHeader{Total: 1, Hash: fh[:]}}
		}
		for i := range sigs {
			if !chosen[i] {
				sigs[i] = types.NewCommitSigAbsent()
				continue
			}
			if kind == "coal_other" {
				v := vals.Validators[i]
				vote := &types.Vote{Type: tmproto.PrecommitType, Height: height, Round: round, BlockID: bid,
					Timestamp: ts.Add(time.Duration(i) * time.Millisecond), ValidatorAddress: v.Address, ValidatorIndex: int32(i)}
				sig, err := c.ch.Keys[string(v.Address)].Sign(types.VoteSignBytes(c.chainID, vote.ToProto()))
				if err != nil {
					panic(err)
				}
				sigs[i] = types.CommitSig{BlockIDFlag: types.BlockIDFlagCommit, ValidatorAddress: v.Address, Timestamp: vote.Timestamp, Signature: sig}
			}
		}
	case "inconsistent":
		garbage(len(sigs)-1, types.BlockIDFlagCommit)
	case "nil_flip":
		// the right block id, but for-block slots are replaced by GENUINE nil precommits of the
		// same validators (their sign-bytes do not mention any block) until the power that
		// signed FOR the block is at most 2/3; every signature in the commit verifies
		var forP int64
		for i, sg := range sigs {
			if sg.BlockIDFlag == types.BlockIDFlagCommit {
				forP += vals.Validators[i].VotingPower
			}
		}
		for _, i := range r.Perm(len(sigs)) {
			switch sigs[i].BlockIDFlag {
			case types.BlockIDFlagCommit:
				if 3*forP > 2*total {
					forP -= vals.Validators[i].VotingPower
					sigs[i] = c.signNil(vals, i, height, round, ts)
				}
			case types.BlockIDFlagAbsent:
				if x%2 == 0 {
					sigs[i] = c.signNil(vals, i, height, round, ts)
				}
			}
		}
	}
	return types.NewCommit(height, round, bid, sigs)
}

// signNil is validator i's genuine precommit for nil at (height, round).
func (c *canon) signNil(vals *types.ValidatorSet, i int, height int64, round int32, ts time.Time) types.CommitSig {
	v := vals.Validators[i]
	vote := &types.Vote{Type: tmproto.PrecommitType, Height: height, Round: round,
		Timestamp: ts.Add(time.Duration(i) * time.Millisecond), ValidatorAddress: v.Address, ValidatorIndex: int32(i)}
	sig, err := c.ch.Keys[string(v.Address)].Sign(types.VoteSignBytes(c.chainID, vote.ToProto()))
	if err != nil {
		panic(err)
	}
	return types.CommitSig{BlockIDFlag: types.BlockIDFlagNil, ValidatorAddress: v.Address, Timestamp: vote.Timestamp, Signature: sig}
}

// nilCommit is a commit naming bid at height h in which every validator's slot verifies but
// at most 2/3 of the power (none when x is even) signed FOR bid; the rest are genuine nil precommits.
func (c *canon) nilCommit(h int64, bid types.BlockID, x int) *types.Commit {
	vals := c.vals(h)
	round := c.ch.Commits[h].Round
	ts := c.ch.Blocks[h].Time.Add(time.Second)
	var total, forP int64
	for _, v := range vals.Validators {
		total += v.VotingPower
	}
	sigs := make([]types.CommitSig, len(vals.Validators))
	for i, v := range vals.Validators {
		if x%2 == 1 && 3*(forP+v.VotingPower) <= 2*total {
			forP += v.VotingPower
			vote := &types.Vote{Type: tmproto.PrecommitType, Height: h, Round: round, BlockID: bid,
				Timestamp: ts.Add(time.Duration(i) * time.Millisecond), ValidatorAddress: v.Address, ValidatorIndex: int32(i)}
			sig, err := c.ch.Keys[string(v.Address)].Sign(types.VoteSignBytes(c.chainID, vote.ToProto()))
			if err != nil {
				panic(err)
			}
			sigs[i] = types.CommitSig{BlockIDFlag: types.BlockIDFlagCommit, ValidatorAddress: v.Address, Timestamp: vote.Timestamp, Signature: sig}
			continue
		}
		sigs[i] = c.signNil(vals, i, h, round, ts)
	}
	return types.NewCommit(h, round, bid, sigs)
}

// byzInvalid is a block for height h that does not pass validation against the state
// (wrong app hash, a LastCommit with a slot that does not verify, or a wrong time); a
// coalition of all validators of h signs it (see "byz_commit"). A pure function of h.
func (c *canon) byzInvalid(h int64) *types.Block {
	b := c.cloneBlock(h)
	v := h % 3
	if h == c.init {
		v = 0
	}
	switch v {
	case 0:
		ah := append([]byte{}, b.AppHash...)
		if len(ah) == 0 {
			ah = []byte{1}
		}
		ah[0] ^= 0x80
		b.AppHash = ah
	case 1:
		nc := c.mutateCommit(h-1, "pad_after", int(h))
		b.LastCommit = nc
		b.LastCommitHash = nc.Hash()
	case 2:
		b.Time = b.Time.Add(time.Second)
	}
	return b
}

// forge builds the block a peer sends for height h under behaviour kind. The result of
// "garbage" is signalled by a nil LastCommit in the wire form (undecodable).
func (c *canon) forge(h int64, kind string, x int) *types.Block {
	switch kind {
	case "honest":
		return c.ch.Blocks[h]
	case "other_height":
		d := int64(1 + x%3)
		h2 := h + d
		if x%2 == 0 && h-d >= c.init {
			h2 = h - d
		}
		if h2 > c.last {
			h2 = h - 1
		}
		if h2 < c.init {
			h2 = c.init
		}
		return c.ch.Blocks[h2]
	}
	if kind == "byz_invalid" {
		return c.byzInvalid(h)
	}
	if kind == "byz_commit" {
		if h == c.init {
			return c.ch.Blocks[h]
		}
		// the next block, carrying a commit of ALL real keys for the invalid block below it
		x := c.byzInvalid(h - 1)
		xid := types.BlockID{Hash: x.Hash(), PartSetHeader: x.MakePartSet(types.BlockPartSizeBytes).Header()}
		b := c.cloneBlock(h)
		nc := c.ch.SignCommit(c.chainID, c.vals(h-1), xid, h-1, 0, x.Time, chaingen.BlockSpec{})
		b.LastCommit = nc
		b.LastCommitHash = nc.Hash()
		b.LastBlockID = xid
		return b
	}
	if kind == "nil_fab" {
		// a fabricated block that passes validation against the state (only its transactions
		// differ); nobody signed for it, see "nil_carrier"
		return c.forge(h, "alt", 0)
	}
	if kind == "nil_carrier" {
		if h == c.init {
			return c.ch.Blocks[h]
		}
		f := c.forge(h-1, "alt", 0)
		fid := types.BlockID{Hash: f.Hash(), PartSetHeader: f.MakePartSet(types.BlockPartSizeBytes).Header()}
		b := c.cloneBlock(h)
		nc := c.nilCommit(h-1, fid, x)
		b.LastCommit = nc
		b.LastCommitHash = nc.Hash()
		b.LastBlockID = fid
		return b
	}
	b := c.cloneBlock(h)
	vals := c.vals(h)
	if kind == "hdr" && len(vals.Validators) < 2 {
		kind = "alt"
	}
	if kind != "hdr" && kind != "alt" && kind != "garbage" && h == c.init {
		kind = "alt" // the first block carries no commit to forge
	}
	switch kind {
	case "garbage":
		// handled at encoding time
	case "alt":
		txs := append(types.Txs{}, b.Data.Txs...)
		txs = append(txs, types.Tx(fmt.Sprintf("forged%d=%d", h, x)))
		b.Data = types.Data{Txs: txs}
		b.DataHash = b.Data.Hash()
	case "hdr":
		for _, v := range vals.Validators {
			if !bytes.Equal(v.Address, b.ProposerAddress) {
				b.ProposerAddress = append([]byte{}, v.Address...)
				break
			}
		}
	default:
		nc := c.mutateCommit(h-1, kind, x)
		b.LastCommit = nc
		if kind != "inconsistent" {
			b.LastCommitHash = nc.Hash()
		}
	}
	return b
}

// ---------------------------------------------------------------- simulated peers, recorder reactor

type simPeer struct {
	*service.BaseService
	s    *sim
	inc  int
	idx  int
	id   p2p.ID
	addr *p2p.NetAddress
	mu   sync.Mutex
	kv   map[string]interface{}
}

func newSimPeer(s *sim, idx int) *simPeer {
	id := p2p.ID(fmt.Sprintf("%040x", idx+1))
	ip := net.IPv4(10, 1, byte(idx>>8), byte(idx))
	addr := p2p.NewNetAddressIPPort(ip, 26656)
	addr.ID = id
	sp := &simPeer{s: s, inc: s.inc, idx: idx, id: id, addr: addr, kv: map[string]interface{}{}}
	sp.BaseService = service.NewBaseService(nil, "simPeer", sp)
	return sp
}

func (p *simPeer) FlushStop()           { _ = p.Stop() }
func (p *simPeer) ID() p2p.ID           { return p.id }
func (p *simPeer) RemoteIP() net.IP     { return p.addr.IP }
func (p *simPeer) RemoteAddr() net.Addr { return &net.TCPAddr{IP: p.addr.IP, Port: 26656} }
func (p *simPeer) IsOutbound() bool     { return p.idx%2 == 0 }
func (p *simPeer) IsPersistent() bool   { return false }
func (p *simPeer) CloseConn() error     { return nil }
func (p *simPeer) NodeInfo() p2p.NodeInfo {
	return p2p.DefaultNodeInfo{DefaultNodeID: p.id, ListenAddr: p.addr.DialString()}
}
func (p *simPeer) Status() tmconn.ConnectionStatus { return tmconn.ConnectionStatus{} }
func (p *simPeer) SocketAddr() *p2p.NetAddress     { return p.addr }
func (p *simPeer) SetRemovalFailed()               {}
func (p *simPeer) GetRemovalFailed() bool          { return false }
func (p *simPeer) Set(k string, v interface{})     { p.mu.Lock(); p.kv[k] = v; p.mu.Unlock() }
func (p *simPeer) Get(k string) interface{}        { p.mu.Lock(); defer p.mu.Unlock(); return p.kv[k] }

func (p *simPeer) Send(ch byte, bz []byte) bool { return p.TrySend(ch, bz) }
func (p *simPeer) TrySend(ch byte, bz []byte) bool {
	if !p.IsRunning() {
		return false
	}
	m := &bcproto.Message{}
	if err := proto.Unmarshal(bz, m); err != nil {
		p.s.noteSent(p, nil)
		return true
	}
	uw, _ := m.Unwrap()
	p.s.noteSent(p, uw)
	return true
}
func (p *simPeer) SendEnvelope(e p2p.Envelope) bool {
	if !p.IsRunning() {
		return false
	}
	p.s.noteSent(p, e.Message)
	return true
}
func (p *simPeer) TrySendEnvelope(e p2p.Envelope) bool { return p.SendEnvelope(e) }

// recorder stands in for the consensus reactor: the blockchain reactor finds it under the
// name "CONSENSUS" and hands the synced state over to it. As a reactor of the switch it
// also learns the reason of every peer removal.
type recorder struct {
	p2p.BaseReactor
	s   *sim
	inc int
}

func (r *recorder) SwitchToConsensus(state sm.State, skipWAL bool) {
	if r.inc != r.s.inc {
		return
	}
	r.s.mu.Lock()
	if r.s.swRec == nil {
		r.s.swRec = &switchRec{state: state.Copy(), skipWAL: skipWAL, at: time.Now()}
	} else {
		r.s.swTwice = true
	}
	r.s.mu.Unlock()
}

func (r *recorder) RemovePeer(peer p2p.Peer, reason interface{}) {
	sp, ok := peer.(*simPeer)
	if !ok || r.inc != r.s.inc {
		return
	}
	r.s.mu.Lock()
	r.s.stopq = append(r.s.stopq, stopRec{p: sp.idx, reason: fmt.Sprint(reason), at: time.Now()})
	r.s.mu.Unlock()
}

type switchRec struct {
	state   sm.State
	skipWAL bool
	at      time.Time
}

type stopRec struct {
	p      int
	reason string
	at     time.Time
}

type sentRec struct {
	p    int
	kind string // req | sreq | sres | other
	h    int64
	base int64
	at   time.Time
}

// ---------------------------------------------------------------- the simulation

type peerM struct {
	idx        int
	sp         *simPeer
	seg        int   // strict mode: segment it serves; -1: whole chain
	rb, rh     int64 // range it really has
	live       bool
	hasStatus  bool
	sb, sh     int64 // last delivered status
	honest     bool  // the drain-phase honest peer
	stopReason string
}

type reqM struct {
	peer   int
	at     time.Time
	held   bool
	bad    bool // the block held differs from the canonical block of that height
	heldAt time.Time
}

type sim struct {
	env  *simcore.Env
	cfg  simcore.Op
	c    *canon
	mode string
	init int64
	n    int64 // height honest peers advertise ("the tip")
	segs [][2]int64

	app        *simapp.RecApp
	proxyApp   proxy.AppConns
	stateStore sm.Store
	bs         *store.BlockStore
	blockExec  *sm.BlockExecutor
	bcR        *v0.BlockchainReactor
	sw         *p2p.Switch
	rec        *recorder
	t0         time.Time
	prefill    int64

	mu      sync.Mutex
	inbox   []sentRec
	stopq   []stopRec
	swRec   *switchRec
	swTwice bool

	peers    map[int]*peerM
	nextIdx  int
	req      map[int64]*reqM
	attempts map[int64]int
	nstops   int
	lowered  bool // some peer advertised a lower height than it had advertised before
	newStops []int

	checked    int64 // store heights verified so far
	journalPos int
	switched   bool
	handedOver bool
	opsLeft    int
	simBudget  time.Duration
	planned    time.Duration
	pendProp   string
	pendSig    string
	pendMsg    string

	// crash mode
	crashMode   bool
	inc         int // node incarnation
	ctl         *simdisk.Ctl
	bdb, sdb    *simdisk.CrashDB
	armK        int // crash at the armK-th persistence point from now (0 = not armed)
	armOp       simcore.Op
	crashAt     string
	inHS        bool
	crashes     int
	crashPlan   int
	restarting  bool
	startH      int64 // block store height when the current incarnation\'s reactor started
	j05         c05state
	dead        bool // multi mode: an unreproduced alarm ended the run
	rerun       bool // this sim is the in-process re-run of a multi-mode alarm
	rerunSig    string
	applied     []simcore.Op
	inFinish    bool
	lastNodeSB  int64
	lastNodeSH  int64
	sawNodeStat bool
}

type rerunHit struct{ sig string }

func newSim(env *simcore.Env, cfg simcore.Op) simcore.Sim { return buildSim(env, cfg, false) }

func buildSim(env *simcore.Env, cfg simcore.Op, rerun bool) *sim {
	c := getCanon(cfg)
	s := &sim{env: env, cfg: cfg, c: c, mode: cfg.Str("mode"), init: c.init, rerun: rerun,
		peers: map[int]*peerM{}, req: map[int64]*reqM{}, attempts: map[int64]int{}, opsLeft: cfg.Int("nops")}
	nn := int64(cfg.Int("nn"))
	if nn < 3 {
		nn = 3
	}
	if nn > chainLen-2 {
		nn = chainLen - 2
	}
	s.n = c.init + nn - 1
	prev := c.init
	for _, e := range cfg.Ints("segs") {
		end := c.init + int64(e) - 1
		if end > s.n {
			end = s.n
		}
		if end >= prev {
			s.segs = append(s.segs, [2]int64{prev, end})
			prev = end + 1
		}
	}
	if prev <= s.n {
		s.segs = append(s.segs, [2]int64{prev, s.n})
	}
	s.simBudget = 45 * time.Second

	// the syncing node: fresh application, empty stores, real handshake
	s.crashMode = cfg.Bool("crash")
	s.app = simapp.NewRecApp(c.ch.Opts.HashLen)
	s.app.Point = func(l string) { s.ctl.Point(l) } // nil-safe: not in crash mode
	s.openStores(nil, nil)
	if err, pv := s.handshake(); err != nil || pv != nil {
		panic(fmt.Sprint("initial handshake: ", err, pv))
	}
	st, err := s.stateStore.Load()
	if err != nil {
		panic(err)
	}
	// optionally the node already holds a prefix of the chain (restart in the middle of a sync)
	pre := int64(cfg.Int("prefill"))
	for h := c.init; h < c.init+pre && h < s.n-2; h++ {
		s.bs.SaveBlock(c.ch.Blocks[h], c.ch.Parts[h], c.ch.Commits[h])
		if st, _, err = s.blockExec.ApplyBlock(st, c.blockID(h), c.ch.Blocks[h]); err != nil {
			panic(err)
		}
		s.prefill = h
	}
	s.checked = s.prefill
	if s.checked < c.init-1 {
		s.checked = c.init - 1
	}
	s.startReactor(st)
	if s.mode == "multi" {
		for i := 0; i < cfg.Int("npeers"); i++ {
			s.join(s.nextIdx, -1, false)
			s.deliverStatus(s.peers[s.nextIdx-1], s.init, s.n)
			env.Settle()
		}
		s.absorb()
	}
	return s
}

// openStores opens the block store and the state store on the given durable images (nil =
// empty) and a fresh application connection, as a starting node does.
func (s *sim) openStores(bimg, simg map[string][]byte) {
	var bdb, sdb dbm.DB
	if s.crashMode {
		s.ctl = &simdisk.Ctl{}
		s.ctl.OnPoint = s.onPoint
		s.bdb = simdisk.NewCrashDB("blockstore", bimg, s.ctl)
		s.sdb = simdisk.NewCrashDB("state", simg, s.ctl)
		bdb, sdb = s.bdb, s.sdb
	} else {
		bdb, sdb = dbm.NewMemDB(), dbm.NewMemDB()
	}
	s.bs = store.NewBlockStore(bdb)
	s.stateStore = sm.NewStore(sdb, sm.StoreOptions{})
	s.proxyApp = proxy.NewAppConns(s.app.ClientCreator())
	s.proxyApp.SetLogger(log.NewNopLogger())
	if err := s.proxyApp.Start(); err != nil {
		panic(err)
	}
	s.blockExec = sm.NewBlockExecutor(s.stateStore, log.NewNopLogger(), s.proxyApp.Consensus(), mempl.Mempool{}, sm.EmptyEvidencePool{})
}

type crashSentinel struct{}

// onPoint is called at every persistence point (database write pre/post, ABCI call
// pre/post on the consensus connection) of the current incarnation.
func (s *sim) onPoint(label string, idx int) {
	s.mu.Lock()
	fire := false
	if s.armK > 0 {
		s.armK--
		fire = s.armK == 0
	}
	hs := s.inHS
	if fire {
		s.crashAt = label
	}
	s.mu.Unlock()
	if !fire {
		return
	}
	s.ctl.Kill() // nothing the dying process does from here on reaches the disk
	if hs {
		panic(crashSentinel{}) // the handshake runs on the simulator's goroutine
	}
	runtime.Goexit() // the pool routine dies in the middle of its save/execute pipeline
}

// handshake does what node.NewNode does between opening the stores and building the
// reactors: load the state (or make the genesis state) and run the real Handshaker.
func (s *sim) handshake() (err error, pv any) {
	st, lerr := s.stateStore.Load()
	if lerr != nil {
		return lerr, nil
	}
	if st.IsEmpty() {
		if st, lerr = sm.MakeGenesisState(s.c.ch.GenDoc); lerr != nil {
			return lerr, nil
		}
		if lerr = s.stateStore.Save(st); lerr != nil {
			return lerr, nil
		}
	}
	s.mu.Lock()
	s.inHS = true
	s.mu.Unlock()
	defer func() {
		s.mu.Lock()
		s.inHS = false
		s.mu.Unlock()
		pv = recover()
	}()
	hs := consensus.NewHandshaker(s.stateStore, st, s.bs, s.c.ch.GenDoc)
	hs.SetLogger(log.NewNopLogger())
	return hs.Handshake(s.proxyApp), nil
}

// startReactor builds switch, blockchain reactor and recorder for the current incarnation.
func (s *sim) startReactor(st sm.State) {
	c := s.c
	nodeKey := p2p.NodeKey{PrivKey: ed25519.GenPrivKeyFromSecret([]byte("syncsim-node"))}
	ni := p2p.DefaultNodeInfo{ProtocolVersion: p2p.NewProtocolVersion(8, 11, 1), DefaultNodeID: nodeKey.ID(), ListenAddr: "127.0.0.1:26656",
		Network: c.chainID, Version: "0.34.24", Channels: []byte{v0.BlockchainChannel}, Moniker: "syncsim"}
	pcfg := config.DefaultP2PConfig()
	s.sw = p2p.NewSwitch(pcfg, p2p.NewMultiplexTransport(ni, nodeKey, p2p.MConnConfig(pcfg)))
	s.sw.SetLogger(log.NewNopLogger())
	s.sw.SetNodeKey(&nodeKey)
	s.sw.SetNodeInfo(ni)
	s.bcR = v0.NewBlockchainReactor(st.Copy(), s.blockExec, s.bs, true)
	s.bcR.SetLogger(log.NewNopLogger())
	s.rec = &recorder{s: s, inc: s.inc}
	s.rec.BaseReactor = *p2p.NewBaseReactor("syncsimRecorder", s.rec)
	s.sw.AddReactor("BLOCKCHAIN", s.bcR)
	s.sw.AddReactor("CONSENSUS", s.rec)
	s.t0 = time.Now()
	s.startH = s.bs.Height()
	if err := s.bcR.Start(); err != nil {
		panic(err)
	}
	s.env.Settle()
	// every action of the simulator happens 5ms off the 10ms grid of the reactor's tickers, so
	// that no timer armed by a stimulus (15s peer timeout, 30s retry) coincides with a ticker
	time.Sleep(5 * time.Millisecond)
	s.env.Settle()
}

// restart: the node process died at a persistence point. What survives is the durable image
// of each database plus a prefix of its unsynced write groups, and the application as of
// its last Commit. The node is started again the way node.NewNode does it; the peers
// reconnect and repeat their status.
func (s *sim) restart() {
	e := s.env
	s.restarting = true
	defer func() { s.restarting = false }()
	op := s.armOp
	s.crashes++
	e.Count("fault.crash")
	switch {
	case strings.HasPrefix(s.crashAt, "abci:"):
		e.Count("fault.crash_at_abci_point")
	case strings.HasPrefix(s.crashAt, "db:blockstore"):
		e.Count("fault.crash_at_blockstore_write")
	default:
		e.Count("fault.crash_at_state_write")
	}
	if s.mode == "strict" {
		e.Logf("crash at %s", s.crashAt)
	}
	hk := op.Int("hk")
	for attempt := 0; ; attempt++ {
		// tear the dead incarnation down
		if s.bcR != nil && s.bcR.IsRunning() {
			_ = s.bcR.Stop()
		}
		for _, p := range s.peers {
			if p.sp.IsRunning() {
				_ = p.sp.Stop()
			}
		}
		if s.proxyApp.IsRunning() {
			_ = s.proxyApp.Stop()
		}
		s.ctl.Kill()
		e.Settle()
		ub, us := s.bdb.Unsynced(), s.sdb.Unsynced()
		kb, ks := (ub*op.Int("kb")+500)/1000, (us*op.Int("ks")+500)/1000
		if ub+us > 0 {
			e.Count("fault.crash_with_unsynced_writes")
		}
		bimg, simg := s.bdb.Image(kb), s.sdb.Image(ks)
		s.app.Crash()
		s.inc++
		s.mu.Lock()
		s.inbox, s.stopq, s.armK = nil, nil, 0
		s.mu.Unlock()
		s.req = map[int64]*reqM{}
		s.newStops = nil
		s.openStores(bimg, simg)
		if attempt == 0 && hk > 0 {
			s.mu.Lock()
			s.armK = hk // a second crash, inside the handshake's replay
			s.mu.Unlock()
		}
		err, pv := s.handshake()
		s.mu.Lock()
		s.armK = 0
		s.mu.Unlock()
		if _, crashed := pv.(crashSentinel); crashed {
			e.Count("fault.crash_in_handshake")
			if s.mode == "strict" {
				e.Logf("crash in handshake at %s", s.crashAt)
			}
			continue
		}
		if err != nil || pv != nil {
			s.dead = true
			s.violP("C05", "restart-handshake-failed", "after a crash at %q (kept %d/%d block-store and %d/%d state-store unsynced write groups) the handshake failed: %v %v", s.crashAt, kb, ub, ks, us, err, pv)
			return
		}
		break
	}
	st, err := s.stateStore.Load()
	if err != nil {
		s.dead = true
		s.violP("C05", "restart-state-load", "state store after restart: %v", err)
		return
	}
	// saved state, block store and application agree on height and application hash
	sh, ah := s.bs.Height(), s.app.CommittedHeight()
	if st.LastBlockHeight != sh || (ah != sh && !(sh == 0 && ah <= s.init-1)) {
		s.violP("C05", "restart-heights-disagree", "after the restart (crash at %q): state height %d, block store height %d, application height %d", s.crashAt, st.LastBlockHeight, sh, ah)
	}
	if sh > 0 {
		want := s.c.ch.States[sh].AppHash
		if !bytes.Equal(st.AppHash, s.app.CommittedHash()) || !bytes.Equal(st.AppHash, want) {
			s.violP("C05", "restart-apphash-disagree", "after the restart at height %d: state app hash %X, application %X, canonical %X", sh, st.AppHash, s.app.CommittedHash(), want)
		}
	}
	s.checkJournal()
	// every stored height loads, the tip has its seen commit
	if sh > 0 {
		for h := s.bs.Base(); h <= sh; h++ {
			if s.bs.LoadBlockMeta(h) == nil || s.bs.LoadBlock(h) == nil {
				s.viol("restart-block-missing", "after the restart the block store claims heights %d..%d but height %d does not load", s.bs.Base(), sh, h)
				break
			}
		}
		if s.bs.LoadSeenCommit(sh) == nil {
			s.viol("restart-tip-seen-commit-missing", "after the restart (crash at %q) the block store is at height %d but holds no seen commit for it", s.crashAt, sh)
		}
		if s.checked > sh {
			s.viol("restart-store-regressed", "block store height %d after the restart, %d had been saved (and synced) before", sh, s.checked)
			s.checked = sh
		}
	}
	s.checkStore()
	if !st.IsEmpty() && st.LastBlockHeight > 0 {
		s.tryConsensusStart(st, "restart_after_crash")
	}
	var pv any
	func() {
		defer func() { pv = recover() }()
		s.startReactor(st)
	}()
	if pv != nil {
		s.dead = true
		s.violP("C05", "restart-reactor-panic", "building the blockchain reactor after the restart panicked: %v", pv)
		return
	}
	// the peers reconnect and repeat what they advertised
	for _, pm := range s.livePeers() {
		pm.sp = newSimPeer(s, pm.idx)
		if err := pm.sp.Start(); err != nil {
			panic(err)
		}
		p2p.AddPeerToSwitchPeerSet(s.sw, pm.sp)
		s.bcR.AddPeer(pm.sp)
		if pm.hasStatus {
			s.receive(pm, &bcproto.StatusResponse{Base: pm.sb, Height: pm.sh})
		}
		e.Settle()
	}
	s.absorb()
	e.Count("probe.restart_completed")
}

// c05state is the automaton over the application's consensus-connection journal: heights
// are begun, delivered, ended and committed in order, each committed exactly once; a block
// in progress may only be cut by a crash (the application forgets it).
type c05state struct {
	pos     int
	last    int64
	inBlock bool
	endSeen bool
	curH    int64
	curInc  int
	curTxs  []string
}

func (s *sim) checkJournal() {
	st := &s.j05
	j := s.app.Journal
	for ; st.pos < len(j); st.pos++ {
		c := j[st.pos]
		if c.Conn != "consensus" {
			continue
		}
		if st.inBlock && c.Inc != st.curInc {
			st.inBlock = false
			s.env.Count("probe.block_cut_by_crash")
		}
		switch c.Name {
		case "InitChain":
			if st.last != 0 {
				s.violP("C05", "initchain-after-commit", "InitChain although the application had committed height %d", st.last)
			}
		case "BeginBlock":
			want := st.last + 1
			if st.last == 0 {
				want = s.init
			}
			if st.inBlock {
				s.violP("C05", "begin-inside-block", "BeginBlock(%d) while block %d is still being executed", c.Height, st.curH)
			}
			if c.Height < want {
				s.violP("C05", "block-reexecuted", "BeginBlock(%d) although the application already committed height %d", c.Height, st.last)
			}
			if c.Height > want {
				s.violP("C05", "height-skipped", "BeginBlock(%d) but the next height is %d", c.Height, want)
			}
			st.inBlock, st.curH, st.curInc, st.curTxs, st.endSeen = true, c.Height, c.Inc, nil, false
		case "DeliverTx":
			if !st.inBlock || st.endSeen {
				s.violP("C05", "delivertx-outside-block", "DeliverTx outside BeginBlock..EndBlock (height %d)", c.Height)
			}
			st.curTxs = append(st.curTxs, c.Tx)
		case "EndBlock":
			if !st.inBlock || st.endSeen || c.Height != st.curH {
				s.violP("C05", "endblock-misplaced", "EndBlock(%d) does not close block %d", c.Height, st.curH)
			}
			st.endSeen = true
		case "Commit":
			if !st.inBlock || !st.endSeen {
				s.violP("C05", "commit-misplaced", "Commit without a complete BeginBlock..EndBlock sequence")
			}
			if blk := s.c.ch.Blocks[st.curH]; blk != nil {
				ok := len(blk.Txs) == len(st.curTxs)
				for i := 0; ok && i < len(blk.Txs); i++ {
					ok = string(blk.Txs[i]) == st.curTxs[i]
				}
				if !ok {
					s.violP("C05", "txs-mismatch", "height %d: the application executed %d transactions, not the canonical block's %d in block order", st.curH, len(st.curTxs), len(blk.Txs))
				}
			}
			st.last, st.inBlock = st.curH, false
		}
	}
}

func (s *sim) noteSent(sp *simPeer, m proto.Message) {
	if sp.inc != s.inc {
		return // a previous incarnation of the node
	}
	r := sentRec{p: sp.idx, kind: "other", at: time.Now()}
	switch msg := m.(type) {
	case *bcproto.BlockRequest:
		r.kind, r.h = "req", msg.Height
	case *bcproto.StatusRequest:
		r.kind = "sreq"
	case *bcproto.StatusResponse:
		r.kind, r.h, r.base = "sres", msg.Height, msg.Base
	}
	s.mu.Lock()
	s.inbox = append(s.inbox, r)
	s.mu.Unlock()
}

func (s *sim) elapsed() time.Duration { return time.Since(s.t0) }

// sleep advances the fake clock. Stimuli are applied 5ms off the reactor's 10ms ticker grid;
// the sync tick that follows a stimulus must not be the instant of the 1s caught-up ticker
// (poolRoutine's select would pick between the two in an order nobody owns), so the
// simulator never rests 5ms before a full second.
func (s *sim) sleep(d time.Duration) {
	time.Sleep(d)
	if s.elapsed()%time.Second == 995*time.Millisecond {
		time.Sleep(10 * time.Millisecond)
	}
}

// viol reports a violation. In multi-eligible mode (outcomes depend on Go map order inside
// the pool) it is reported only if an immediate re-run of the same trace shows it again.
func (s *sim) viol(sig, format string, a ...any) { s.violP("C13", sig, format, a...) }

func (s *sim) violP(prop, sig, format string, a ...any) {
	if s.rerun {
		if s.env.IsKnown(prop, sig) || !s.env.Checking(prop) {
			return
		}
		panic(rerunHit{sig})
	}
	if s.mode != "multi" {
		s.env.Fail(prop, sig, format, a...)
		return
	}
	if s.env.IsKnown(prop, sig) || !s.env.Checking(prop) {
		s.env.Fail(prop, sig, format, a...)
		return
	}
	got := s.reproduce()
	if got == sig {
		got = s.reproduce() // twice in a row
	}
	if got == sig {
		msg := "(multi-eligible mode, reproduced in-process) " + fmt.Sprintf(format, a...)
		if s.inFinish {
			s.env.Fail(prop, sig, "%s", msg)
			return
		}
		// reported at the end of the trace: at which action an alarm appears depends on map
		// order, the event log (the trace) must not
		s.pendProp, s.pendSig, s.pendMsg = prop, sig, msg
		s.dead = true
		panic(deadRun{})
	}
	s.env.Count("probe.unreproduced")
	if os.Getenv("SYNCSIM_DEBUG") != "" {
		fmt.Fprintf(os.Stderr, "UNREPRODUCED seed=%d sig=%s rerun=%q: %s\n", s.env.Seed, sig, got, fmt.Sprintf(format, a...))
	}
	s.env.Note("unreproduced alarm sig=%s (re-run gave %q): %s", sig, got, fmt.Sprintf(format, a...))
	s.dead = true
	panic(deadRun{})
}

type deadRun struct{}

// reproduce replays the applied trace on a fresh node inside the same bubble.
func (s *sim) reproduce() (sig string) {
	r := buildSim(s.env, s.cfg, true)
	defer r.Close()
	defer func() {
		if x := recover(); x != nil {
			if h, ok := x.(rerunHit); ok {
				sig = h.sig
				return
			}
			panic(x)
		}
	}()
	for _, op := range s.applied {
		r.Apply(op)
	}
	if s.inFinish {
		r.Finish()
	}
	return ""
}

// ---------------------------------------------------------------- stimuli

func (s *sim) join(idx, seg int, honest bool) *peerM {
	if _, ok := s.peers[idx]; ok {
		return nil
	}
	sp := newSimPeer(s, idx)
	if err := sp.Start(); err != nil {
		panic(err)
	}
	pm := &peerM{idx: idx, sp: sp, seg: seg, live: true, rb: s.init, rh: s.n, honest: honest}
	if seg >= 0 && seg < len(s.segs) {
		pm.rb, pm.rh = s.segs[seg][0], s.segs[seg][1]
	}
	s.peers[idx] = pm
	if idx >= s.nextIdx {
		s.nextIdx = idx + 1
	}
	p2p.AddPeerToSwitchPeerSet(s.sw, sp)
	s.bcR.AddPeer(sp)
	return pm
}

func encode(m proto.Message) []byte {
	if w, ok := m.(p2p.Wrapper); ok {
		m = w.Wrap()
	}
	bz, err := proto.Marshal(m)
	if err != nil {
		panic(err)
	}
	return bz
}

// receive hands one wire message of a peer to the reactor, the way MConnection's onReceive does.
func (s *sim) receive(pm *peerM, m proto.Message) {
	bz := encode(m)
	var pv any
	func() {
		defer func() { pv = recover() }()
		s.bcR.Receive(v0.BlockchainChannel, pm.sp, bz)
	}()
	if pv != nil {
		s.viol("receive-panic", "reactor.Receive panicked on a %T from peer %d: %v", m, pm.idx, pv)
	}
}

func (s *sim) deliverStatus(pm *peerM, base, height int64) {
	s.receive(pm, &bcproto.StatusResponse{Base: base, Height: height})
	if base >= 0 && height >= 0 && base <= height {
		if pm.hasStatus && height < pm.sh {
			s.lowered = true
			s.env.Count("fault.status_lowered")
		}
		pm.hasStatus, pm.sb, pm.sh = true, base, height
	}
}

// deliverBlock sends the block response of behaviour kind for height h from pm and
// returns what the reference model expects: accepted into the pool, or sender dropped.
func (s *sim) deliverBlock(pm *peerM, h int64, kind string, x int) (expectDrop bool, why string) {
	b := s.c.forge(h, kind, x)
	pb, err := b.ToProto()
	if err != nil {
		panic(err)
	}
	decodable := true
	switch kind {
	case "garbage":
		pb.LastCommit = nil
		decodable = false
	case "inconsistent":
		decodable = h == s.c.init // at the first height forge falls back to a consistent block
	}
	bh := b.Height
	now := time.Now()
	r := s.req[bh]
	switch {
	case !decodable:
		expectDrop, why = true, "undecodable block"
	case r != nil && r.peer == pm.idx && !r.held && now.Sub(r.at) < 30*time.Second:
		r.held, r.heldAt = true, now
		// Commit.Hash covers only the signature slots, so a block can keep its header hash
		// while its LastCommit names another round/height/block: compare the wire form
		cpb, _ := s.c.ch.Blocks[bh].ToProto()
		r.bad = !bytes.Equal(encode(pb), encode(cpb))
		if r.bad {
			s.env.Count("fault.lie_accepted." + kind)
		}
	case r != nil && now.Sub(r.at) < 30*time.Second && s.peers[r.peer] != nil && s.peers[r.peer].live:
		expectDrop, why = true, fmt.Sprintf("block for height %d that is assigned to peer %d (held=%v)", bh, r.peer, r.held)
	}
	s.attempts[h]++
	s.receive(pm, &bcproto.BlockResponse{Block: pb})
	return
}

// ---------------------------------------------------------------- observation at quiescence

func (s *sim) absorb() {
	s.mu.Lock()
	in, stops := s.inbox, s.stopq
	s.inbox, s.stopq = nil, nil
	s.mu.Unlock()
	sort.SliceStable(in, func(i, j int) bool {
		a, b := in[i], in[j]
		if !a.at.Equal(b.at) {
			return a.at.Before(b.at)
		}
		if a.kind != b.kind {
			return a.kind < b.kind
		}
		if a.p != b.p {
			return a.p < b.p
		}
		return a.h < b.h
	})
	for _, m := range in {
		pm := s.peers[m.p]
		if pm == nil {
			continue
		}
		switch m.kind {
		case "req":
			s.req[m.h] = &reqM{peer: m.p, at: m.at}
			s.env.Count("probe.block_request")
		case "sreq":
			s.env.Count("probe.status_request")
		case "sres":
			s.lastNodeSB, s.lastNodeSH, s.sawNodeStat = m.base, m.h, true
		}
	}
	for _, st := range stops {
		pm := s.peers[st.p]
		if pm == nil {
			continue
		}
		pm.live = false
		pm.stopReason = st.reason
		s.newStops = append(s.newStops, st.p)
		s.nstops++
		switch {
		case strings.HasPrefix(st.reason, "sim:"):
			s.env.Count("probe.stop.sim_leave")
		case strings.Contains(st.reason, "validation error"):
			s.env.Count("probe.stop.validation_error")
			if strings.Contains(st.reason, "AppHash") || strings.Contains(st.reason, "block time") {
				s.env.Count("probe.stop.full_validation_rejected") // commit was fine, ValidateBlock refused
			}
		case strings.Contains(st.reason, "did not send us anything"):
			s.env.Count("probe.stop.peer_timeout")
		case strings.Contains(st.reason, "invalid peer"):
			s.env.Count("probe.stop.invalid_peer")
		case strings.Contains(st.reason, "too far ahead"):
			s.env.Count("probe.stop.far_block")
		default:
			s.env.Count("probe.stop.invalid_msg")
		}
	}
	for _, pm := range s.peers {
		if pm.live && !pm.sp.IsRunning() {
			pm.live = false
		}
	}
	sh := s.bs.Height()
	now := time.Now()
	for h, r := range s.req {
		pm := s.peers[r.peer]
		if pm == nil || !pm.live || h <= sh || now.Sub(r.at) >= 30*time.Second {
			delete(s.req, h)
		}
	}
}

func (s *sim) sortedPeers() []*peerM {
	out := make([]*peerM, 0, len(s.peers))
	for _, p := range s.peers {
		out = append(out, p)
	}
	sort.Slice(out, func(i, j int) bool { return out[i].idx < out[j].idx })
	return out
}

func (s *sim) livePeers() []*peerM {
	var out []*peerM
	for _, p := range s.sortedPeers() {
		if p.live {
			out = append(out, p)
		}
	}
	return out
}

// outstanding returns the heights with a request that a live peer has not answered yet.
func (s *sim) outstanding(held bool) []int64 {
	var hs []int64
	for h, r := range s.req {
		if r.held == held {
			hs = append(hs, h)
		}
	}
	sort.Slice(hs, func(i, j int) bool { return hs[i] < hs[j] })
	return hs
}

// checkStore is the safety oracle: whatever the node saved and executed is the canonical
// chain, and every commit it stored is a full, valid commit of the validator set its own
// state prescribes.
func (s *sim) checkStore() {
	sh := s.bs.Height()
	for h := s.checked + 1; h <= sh; h++ {
		want := s.c.ch.Blocks[h]
		got := s.bs.LoadBlock(h)
		if want == nil {
			s.viol("stored-beyond-chain", "node stored a block at height %d, beyond every block that exists", h)
			continue
		}
		if got == nil || !bytes.Equal(got.Hash(), want.Hash()) {
			var gh []byte
			if got != nil {
				gh = got.Hash()
			}
			s.viol("stored-wrong-block", "block stored at height %d is not the canonical block (got %X, want %X)", h, gh, want.Hash())
			continue
		}
		meta := s.bs.LoadBlockMeta(h)
		if meta == nil || !meta.BlockID.Equals(s.c.blockID(h)) {
			s.viol("stored-wrong-blockid", "block meta at height %d names another block id / part-set header", h)
		}
		seen := s.bs.LoadSeenCommit(h)
		power, all, detail := s.c.checkCommit(seen, h)
		if !power {
			s.viol("seen-commit-insufficient", "block %d was saved with a commit that is not a +2/3 commit of its validator set for exactly that block: %s", h, detail)
		} else if !all {
			s.env.Count("probe.seen_commit_bad_sig")
			s.viol("seen-commit-bad-sig", "seen commit stored for height %d has +2/3 valid signatures but also a slot that does not verify (consensus rebuilds its last-commit vote set from it): %s", h, detail)
		}
		if h > s.init {
			bc := s.bs.LoadBlockCommit(h - 1)
			if power, all, detail := s.c.checkCommit(bc, h-1); !power || !all {
				s.viol("block-commit-invalid", "commit stored for height %d (LastCommit of block %d) is not a fully valid commit: %s", h-1, h, detail)
			}
		}
		s.env.Count("probe.block_synced")
	}
	if sh > s.checked {
		s.checked = sh
	}
	// executed == stored: every height begun/delivered/ended/committed once, in order (C05),
	// and at rest the application stands at the block store's height
	s.checkJournal()
	if ah := s.app.CommittedHeight(); ah != sh {
		s.viol("executed-vs-stored", "application committed up to height %d, block store holds up to %d", ah, sh)
	}
	if sh > 0 {
		st, err := s.stateStore.Load()
		if err != nil {
			s.viol("state-load", "state store: %v", err)
			return
		}
		want := s.c.ch.States[sh]
		if st.LastBlockHeight != sh || !bytes.Equal(st.AppHash, want.AppHash) || !st.LastBlockID.Equals(want.LastBlockID) ||
			!bytes.Equal(st.Validators.Hash(), want.Validators.Hash()) || !bytes.Equal(st.NextValidators.Hash(), want.NextValidators.Hash()) {
			s.viol("state-mismatch", "state after height %d differs from the canonical state (height %d, app hash %X vs %X)", sh, st.LastBlockHeight, st.AppHash, want.AppHash)
		}
	}
}

// tryConsensusStart builds the consensus state machine on the node's stores exactly as
// node.createConsensusReactor does; NewState rebuilds the last commit from the stored seen commit.
func (s *sim) tryConsensusStart(st sm.State, ctx string) {
	var pv any
	func() {
		defer func() { pv = recover() }()
		cs := consensus.NewState(config.TestConsensusConfig(), st.Copy(), s.blockExec, s.bs, mempl.Mempool{}, sm.EmptyEvidencePool{})
		if st.LastBlockHeight > 0 && (cs.LastCommit == nil || !cs.LastCommit.HasTwoThirdsMajority()) {
			panic("consensus state built without a +2/3 last commit")
		}
	}()
	s.env.Count("probe.consensus_start." + ctx)
	if pv != nil {
		msg := fmt.Sprint(pv)
		if len(msg) > 300 {
			msg = msg[:300]
		}
		s.viol("consensus-start-panic", "%s: consensus.NewState on the synced stores (height %d) panicked: %s", ctx, st.LastBlockHeight, msg)
	}
}

// checkSwitch evaluates the hand-over once the reactor called SwitchToConsensus.
func (s *sim) checkSwitch() {
	s.mu.Lock()
	rec, twice := s.swRec, s.swTwice
	s.mu.Unlock()
	if rec == nil || s.handedOver {
		return
	}
	s.switched, s.handedOver = true, true
	s.env.Count("probe.switch_to_consensus")
	if twice {
		s.viol("switched-twice", "SwitchToConsensus was called more than once")
	}
	sh := s.bs.Height()
	if rec.state.LastBlockHeight != sh {
		s.viol("handover-state-height", "state handed to consensus is at height %d, block store at %d", rec.state.LastBlockHeight, sh)
	}
	if sh > 0 {
		if want := s.c.ch.States[sh]; !bytes.Equal(rec.state.AppHash, want.AppHash) || !bytes.Equal(rec.state.Validators.Hash(), want.Validators.Hash()) {
			s.viol("handover-state-mismatch", "state handed to consensus at height %d is not the canonical state", sh)
		}
	}
	if want := sh > s.startH; rec.skipWAL != want {
		s.viol("handover-skipwal", "skipWAL=%v although %d blocks were synced by this incarnation", rec.skipWAL, sh-s.startH)
	}
	// the node may only consider itself caught up relative to what connected peers advertise
	var maxAdv int64
	for _, p := range s.livePeers() {
		if p.hasStatus && p.sh > maxAdv {
			maxAdv = p.sh
		}
	}
	last := sh
	if last == 0 {
		last = s.init - 1
	}
	if maxAdv > 0 && last < maxAdv-2 {
		s.viol("premature-switch", "switched to consensus at height %d while a connected peer advertises height %d", last, maxAdv)
	}
	if last == maxAdv-2 {
		s.env.Count("probe.switch_at_tip_minus_2")
	}
	s.tryConsensusStart(rec.state, "handover")
}

// after settles and evaluates the invariants that hold at every quiescent point.
func (s *sim) after() {
	s.env.Settle()
	if s.crashMode && !s.restarting && !s.dead && s.ctl.Dead() {
		s.restart()
		if s.dead {
			panic(deadRun{})
		}
	}
	s.absorb()
	s.checkStore()
	s.checkSwitch()
}

// ---------------------------------------------------------------- behaviour table, op generation

// table is the liar behaviour for the att-th answer given for height h: a pure function of
// the run configuration, independent of which peer happens to be asked.
func (s *sim) table(h int64, att int) (string, int) { return s.tableAt(h, att, false) }

func (s *sim) tableAt(h int64, att int, second bool) (string, int) {
	r := simcore.NewRNG(uint64(s.cfg.Int("bseed"))*1000003 + uint64(h)*7919 + uint64(att)*104729 + 17)
	r.Uint64()
	x := r.Intn(1 << 20)
	if att >= s.cfg.Int("maxlies") {
		return "honest", x
	}
	if h == s.n && att == 0 && r.Intn(100) < s.cfg.Int("tiplie") {
		return []string{"pad_after", "pad_nil", "subset_ok", "nil_flip"}[r.Intn(4)], x
	}
	if r.Intn(100) < s.cfg.Int("lie") {
		kinds := s.cfg.Strs("kinds")
		if len(kinds) > 0 {
			return kinds[r.Intn(len(kinds))], x
		}
	}
	// the answer for the height above an invalid block signed by everybody carries that commit
	if !second && h > s.init {
		switch k, _ := s.tableAt(h-1, att, true); k {
		case "byz_invalid":
			return "byz_commit", x
		case "nil_fab":
			return "nil_carrier", x
		}
	}
	return "honest", x
}

// crashOp arms a crash at the k-th persistence point from now; kb/ks say how much of the
// unsynced tail of each database survives (per mille), hk > 0 adds a second crash at the
// hk-th persistence point of the restart's handshake.
func (s *sim) crashOp(rng *simcore.RNG) simcore.Op {
	op := simcore.Op{"a": "crash", "k": rng.Range(1, 48), "kb": rng.Intn(1001), "ks": rng.Intn(1001), "hk": 0}
	if rng.Bool(0.3) {
		op["kb"] = []int{0, 1000}[rng.Intn(2)]
	}
	if rng.Bool(0.3) {
		op["ks"] = []int{0, 1000}[rng.Intn(2)]
	}
	if rng.Bool(0.3) {
		op["hk"] = rng.Range(1, 24)
	}
	return op
}

func (s *sim) tickOp(rng *simcore.RNG) simcore.Op {
	ds := []int{10, 10, 10, 20, 30, 50, 100, 300, 1000, 1100}
	if s.cfg.Bool("longticks") && s.planned < s.simBudget {
		ds = append(ds, 3000, 15010, 30010)
	}
	ms := ds[rng.Intn(len(ds))]
	s.planned += time.Duration(ms) * time.Millisecond // a function of the trace only, not of the run's state
	return simcore.Op{"a": "tick", "ms": ms}
}

func (s *sim) Next(rng *simcore.RNG) simcore.Op {
	if s.opsLeft <= 0 || ((s.dead || s.switched) && s.mode != "multi") {
		return nil
	}
	s.opsLeft--
	if s.mode == "multi" {
		// nothing of the (map-order dependent) state of the run may influence the trace
		return s.nextMulti(rng)
	}
	live := s.livePeers()
	covered := map[int]bool{}
	var noStatus, withStatus []*peerM
	for _, p := range live {
		covered[p.seg] = true
		if p.hasStatus {
			withStatus = append(withStatus, p)
		} else {
			noStatus = append(noStatus, p)
		}
	}
	var uncovered []int
	sh := s.bs.Height()
	for j, sg := range s.segs {
		if !covered[j] && sg[1] > sh {
			uncovered = append(uncovered, j)
		}
	}
	out := s.outstanding(false)
	held := s.outstanding(true)
	w := []int{0, 0, 0, 8, 0, 0, 0, 1, 0, 0}
	if len(uncovered) > 0 {
		w[0] = 14
	}
	if len(noStatus) > 0 {
		w[1] = 16
	}
	if len(out) > 0 {
		w[2] = 45
		w[4] = 1 // NoBlockResponse
	} else {
		w[3] = 20
	}
	if len(held) > 0 {
		w[5] = 1 // duplicate
	}
	if len(live) > 1 && len(out)+len(held) > 0 {
		w[6] = 1 // block from a peer that was not asked
	}
	if len(live) > 0 {
		w[8] = 1 // leave
	}
	if len(withStatus) > 0 {
		w[9] = 2 // a new status
	}
	if s.crashMode && s.crashPlan < 3 && s.armK == 0 && sh < s.n-1 && rng.Bool(0.05) {
		s.crashPlan++
		return s.crashOp(rng)
	}
	switch rng.Weighted(w) {
	case 0:
		return simcore.Op{"a": "join", "p": s.nextIdx, "seg": uncovered[rng.Intn(len(uncovered))]}
	case 1, 9:
		var p *peerM
		if len(noStatus) > 0 && (len(withStatus) == 0 || rng.Bool(0.8)) {
			p = noStatus[rng.Intn(len(noStatus))]
		} else {
			p = withStatus[rng.Intn(len(withStatus))]
		}
		base, height := p.rb, p.rh
		if rng.Intn(100) < s.cfg.Int("statuslie") {
			switch rng.Intn(5) {
			case 0: // stale
				height = p.rb + int64(rng.Intn(int(p.rh-p.rb)+1))
			case 1: // claims a higher base than it has
				base = p.rb + int64(rng.Intn(int(p.rh-p.rb)+1))
			case 2: // inflated: only the peer of the last segment may, ranges stay disjoint
				if p.seg == len(s.segs)-1 {
					height = p.rh + int64(rng.Range(1, 2))
				}
			case 3:
				base, height = p.rh+1, p.rb // base above height: invalid
			case 4:
				base = -1
			}
		}
		return simcore.Op{"a": "status", "p": p.idx, "base": base, "height": height}
	case 2:
		h := out[0]
		if rng.Bool(0.5) {
			h = out[rng.Intn(len(out))]
		}
		beh, x := s.table(h, s.attempts[h])
		return simcore.Op{"a": "blk", "p": s.req[h].peer, "h": h, "beh": beh, "x": x}
	case 3:
		return s.tickOp(rng)
	case 4:
		h := out[rng.Intn(len(out))]
		return simcore.Op{"a": "noblk", "p": s.req[h].peer, "h": h}
	case 5:
		h := held[rng.Intn(len(held))]
		return simcore.Op{"a": "blk", "p": s.req[h].peer, "h": h, "beh": "honest", "x": 0}
	case 6:
		all := append(append([]int64{}, out...), held...)
		h := all[rng.Intn(len(all))]
		var others []*peerM
		for _, p := range live {
			if p.idx != s.req[h].peer {
				others = append(others, p)
			}
		}
		return simcore.Op{"a": "blk", "p": others[rng.Intn(len(others))].idx, "h": h, "beh": "honest", "x": 0}
	case 7:
		return simcore.Op{"a": "csprobe"}
	default:
		return simcore.Op{"a": "leave", "p": live[rng.Intn(len(live))].idx}
	}
}

// nextMulti draws policy-level actions that do not look at the (map-order dependent) state
// of the run: targets are named by rank and resolved when the action is applied.
func (s *sim) nextMulti(rng *simcore.RNG) simcore.Op {
	if s.cfg.Bool("crash") && s.crashPlan < 3 && rng.Bool(0.04) {
		s.crashPlan++ // a function of the trace only
		return s.crashOp(rng)
	}
	switch rng.Weighted([]int{55, 22, 4, 2, 2, 2, 2}) {
	case 0:
		r := 0
		if rng.Bool(0.4) {
			r = rng.Intn(12)
		}
		return simcore.Op{"a": "mans", "r": r}
	case 1:
		return s.tickOp(rng)
	case 2:
		op := simcore.Op{"a": "mjoin", "dh": 0}
		if rng.Intn(100) < s.cfg.Int("statuslie") {
			op["dh"] = []int{-3, -1, 1, 2}[rng.Intn(4)]
		}
		return op
	case 3:
		return simcore.Op{"a": "mleave", "r": rng.Intn(6)}
	case 4:
		return simcore.Op{"a": "mdup", "r": rng.Intn(6)}
	case 5:
		return simcore.Op{"a": "mnoblk", "r": rng.Intn(6)}
	default:
		return simcore.Op{"a": "csprobe"}
	}
}

// ---------------------------------------------------------------- apply

type heldSnap struct {
	peer int
	bad  bool
}

func (s *sim) snapHeld() map[int64]heldSnap {
	m := map[int64]heldSnap{}
	for h, r := range s.req {
		if r.held {
			m[h] = heldSnap{r.peer, r.bad}
		}
	}
	return m
}

func (s *sim) Apply(op simcore.Op) (ok bool) {
	if s.dead {
		return s.mode == "multi"
	}
	defer func() {
		if x := recover(); x != nil {
			if _, is := x.(deadRun); is {
				ok = true
				return
			}
			panic(x)
		}
	}()
	if !s.rerun {
		s.applied = append(s.applied, op)
	}
	ok = s.apply(op)
	if !ok && !s.rerun {
		s.applied = s.applied[:len(s.applied)-1]
	}
	if s.mode == "multi" {
		return true // whether an action was enabled depends on map order: never visible in the trace
	}
	return ok
}

func (s *sim) apply(op simcore.Op) bool {
	e := s.env
	kind := op.Kind()
	if s.switched && kind != "csprobe" {
		return false
	}
	var dropPeer *peerM
	var dropWhy string
	tick := time.Duration(0)
	s.newStops = nil
	switch kind {
	case "join":
		seg := op.Int("seg")
		if seg < 0 || seg >= len(s.segs) || s.mode != "strict" {
			return false
		}
		for _, p := range s.livePeers() {
			if p.seg == seg {
				return false // ranges must stay disjoint
			}
		}
		if s.join(op.Int("p"), seg, false) == nil {
			return false
		}
		e.Count("op.join")
	case "mjoin":
		if s.mode != "multi" || len(s.livePeers()) >= 8 {
			return false
		}
		pm := s.join(s.nextIdx, -1, false)
		e.Settle()
		s.deliverStatus(pm, s.init, s.n+int64(op.Int("dh")))
		if op.Int("dh") != 0 {
			e.Count("fault.status_lie")
		}
		e.Count("op.join")
	case "status":
		pm := s.peers[op.Int("p")]
		if pm == nil || !pm.live {
			return false
		}
		base, height := op.Int64("base"), op.Int64("height")
		if s.mode == "strict" && !(base < 0 || base > height) {
			// keep advertised ranges disjoint whatever the trace says
			if base < pm.rb {
				base = pm.rb
			}
			lim := pm.rh
			if pm.seg == len(s.segs)-1 {
				lim = pm.rh + 2
			}
			if height > lim {
				height = lim
			}
			if base > height {
				return false
			}
		}
		if base < 0 || height < 0 || base > height {
			dropPeer, dropWhy = pm, "invalid status"
			e.Count("fault.status_invalid")
		} else if base != pm.rb || height != pm.rh {
			e.Count("fault.status_lie")
		}
		s.deliverStatus(pm, base, height)
		e.Count("op.status")
	case "blk":
		pm := s.peers[op.Int("p")]
		h := op.Int64("h")
		if pm == nil || !pm.live || h < s.init || h > s.c.last {
			return false
		}
		beh := op.Str("beh")
		if beh != "honest" {
			e.Count("fault.lie." + beh)
		}
		if drop, why := s.deliverBlock(pm, h, beh, op.Int("x")); drop {
			dropPeer, dropWhy = pm, why
		}
		e.Count("op.blk")
	case "mans", "mdup", "mnoblk":
		if s.mode != "multi" {
			return false
		}
		hs := s.outstanding(kind == "mdup")
		if len(hs) == 0 {
			return false
		}
		h := hs[op.Int("r")%len(hs)]
		pm := s.peers[s.req[h].peer]
		switch kind {
		case "mnoblk":
			s.receive(pm, &bcproto.NoBlockResponse{Height: h})
		case "mdup":
			if drop, why := s.deliverBlock(pm, h, "honest", 0); drop {
				dropPeer, dropWhy = pm, why
			}
			e.Count("fault.duplicate")
		default:
			beh, x := s.table(h, s.attempts[h])
			if beh != "honest" {
				e.Count("fault.lie." + beh)
			}
			if drop, why := s.deliverBlock(pm, h, beh, x); drop {
				dropPeer, dropWhy = pm, why
			}
		}
		e.Count("op.blk")
	case "noblk":
		pm := s.peers[op.Int("p")]
		if pm == nil || !pm.live {
			return false
		}
		s.receive(pm, &bcproto.NoBlockResponse{Height: op.Int64("h")})
		e.Count("fault.noblock")
	case "leave", "mleave":
		var pm *peerM
		if kind == "leave" {
			pm = s.peers[op.Int("p")]
		} else if l := s.livePeers(); len(l) > 0 {
			pm = l[op.Int("r")%len(l)]
		}
		if pm == nil || !pm.live {
			return false
		}
		s.sw.StopPeerForError(pm.sp, "sim: leave")
		e.Count("fault.peer_leaves")
	case "crash":
		k := op.Int("k")
		if !s.crashMode || k <= 0 || s.crashes >= 4 {
			return false
		}
		s.mu.Lock()
		armed := s.armK > 0
		if !armed {
			s.armK, s.armOp = k, op
		}
		s.mu.Unlock()
		if armed {
			return false
		}
		e.Count("op.crash_armed")
	case "tick":
		ms := op.Int("ms")
		if ms <= 0 || ms > 40000 {
			return false
		}
		tick = time.Duration((ms+9)/10*10) * time.Millisecond
		e.Count("op.tick")
	case "csprobe":
		// a restart at this point: node.NewNode builds the consensus state from the stores
		st, err := s.stateStore.Load()
		if err != nil || st.IsEmpty() {
			return false
		}
		s.tryConsensusStart(st, "restart")
		return true
	default:
		return false
	}
	snap := s.snapHeld()
	if tick > 0 {
		s.sleep(tick)
	}
	s.after()
	pooled := func() bool { s.mu.Lock(); defer s.mu.Unlock(); return s.swRec == nil }()
	if dropPeer != nil && dropPeer.live && (pooled || dropWhy == "undecodable block" || dropWhy == "invalid status") {
		s.viol("bad-sender-kept", "peer %d sent %s and is still connected", dropPeer.idx, dropWhy)
	}
	s.checkStops(snap)
	if tick > 0 && pooled {
		s.checkPairStuck(snap)
	}
	if s.mode == "strict" {
		var lv []int
		for _, p := range s.livePeers() {
			lv = append(lv, p.idx)
		}
		e.Logf("q sh=%d live=%v out=%v held=%v stops=%d sw=%v", s.bs.Height(), lv, s.outstanding(false), s.outstanding(true), s.nstops, s.switched)
	}
	e.State(s.mode, s.bs.Height()-s.prefill, len(s.livePeers()), len(s.outstanding(false))/3, len(s.outstanding(true))/3, kind, s.switched)
	return true
}

// checkStops: a peer removed for a validation error must have supplied one block of a
// pair (first, second) of which at least one block was not the canonical one.
func (s *sim) checkStops(snap map[int64]heldSnap) {
	for _, p := range s.newStops {
		pm := s.peers[p]
		if pm == nil || !strings.Contains(pm.stopReason, "validation error") {
			continue
		}
		justified := false
		for h, hs := range snap {
			if hs.peer != p {
				continue
			}
			if hs.bad || (snap[h+1] != heldSnap{} && snap[h+1].bad) || (snap[h-1] != heldSnap{} && snap[h-1].bad) {
				justified = true
			}
		}
		if !justified && s.mode == "multi" {
			// after RedoRequest(first) removed the first block's peer, the requester of the second
			// height may already have been re-assigned to an uninvolved peer, which
			// RedoRequest(second) then removes: an order-dependent collateral drop, not promised against
			s.env.Count("probe.innocent_peer_dropped_with_pair")
			continue
		}
		if !justified {
			s.viol("honest-pair-rejected", "peer %d was stopped for a validation error although every block it supplied and their neighbours were canonical: %s", p, pm.stopReason)
		}
	}
	s.newStops = nil
}

// checkPairStuck: after a sync tick the node never sits on two consecutive received blocks
// at its frontier: a good pair is saved, a bad pair gets its senders dropped (and the
// model forgets blocks of dropped peers).
func (s *sim) checkPairStuck(snap map[int64]heldSnap) {
	sh := s.bs.Height()
	f := sh + 1
	if sh == 0 {
		f = s.init
	}
	r1, r2 := s.req[f], s.req[f+1]
	if r1 == nil || r2 == nil || !r1.held || !r2.held {
		return
	}
	if _, ok := snap[f]; !ok {
		return
	}
	if _, ok := snap[f+1]; !ok {
		return
	}
	now := time.Now()
	// a request older than 30s is re-issued by the requester and its block discarded
	if now.Sub(r1.at) >= 29*time.Second || now.Sub(r2.at) >= 29*time.Second {
		return
	}
	s.viol("pair-not-processed", "blocks %d (from peer %d, bad=%v) and %d (from peer %d, bad=%v) were both delivered before the last sync tick, yet neither was the first one saved nor were the senders dropped",
		f, r1.peer, r1.bad, f+1, r2.peer, r2.bad)
}

// ---------------------------------------------------------------- end of run: liveness and hand-over

// drain: from now on one honest peer holding the whole chain is connected and answers
// every request at once; the node must reach the tip and hand over to consensus.
func (s *sim) drain() {
	e := s.env
	others := 0
	if s.mode == "strict" || s.cfg.Str("drain") == "remove" {
		for _, p := range s.livePeers() {
			s.sw.StopPeerForError(p.sp, "sim: leave")
			e.Settle()
		}
	} else {
		// at most two of them stay connected and silent (each costs up to 2 x 15s of timeouts)
		for i, p := range s.livePeers() {
			if i >= 2 {
				s.sw.StopPeerForError(p.sp, "sim: leave")
				e.Settle()
			}
		}
		s.absorb()
		others = len(s.livePeers())
	}
	s.absorb()
	s.newStops = nil
	hp := s.join(100000, -1, true)
	e.Settle()
	s.deliverStatus(hp, s.init, s.n)
	s.after()
	start := time.Now()
	// generous: a requester that picked a peer in the instant that peer was removed only
	// notices at its 30s retry timer
	bound := 65*time.Second + time.Duration(others)*31*time.Second
	for !s.switched && time.Since(start) < bound {
		if !hp.live {
			// dropped together with a liar whose block was the other half of a failing pair:
			// an honest node reconnects
			e.Count("probe.honest_peer_collateral_drop")
			hp = s.join(s.nextIdx+100000, -1, true)
			e.Settle()
			s.deliverStatus(hp, s.init, s.n)
			s.after()
			continue
		}
		answered := 0
		for _, h := range s.outstanding(false) {
			if s.req[h] != nil && s.req[h].peer == hp.idx && h <= s.n && hp.live {
				s.deliverBlock(hp, h, "honest", 0)
				s.after()
				answered++
			}
		}
		step := 10 * time.Millisecond
		if answered == 0 {
			step = 100 * time.Millisecond
		}
		s.sleep(step)
		s.after()
	}
	sh := s.bs.Height()
	if !s.switched {
		if os.Getenv("SYNCSIM_DEBUG") != "" {
			fmt.Fprintf(os.Stderr, "DEBUG no-switch sh=%d n=%d rerun=%v attempts=%v\n", sh, s.n, s.rerun, s.attempts)
			for h, r := range s.req {
				fmt.Fprintf(os.Stderr, "  req h=%d peer=%d held=%v bad=%v age=%v\n", h, r.peer, r.held, r.bad, time.Since(r.at))
			}
			for _, q := range s.sortedPeers() {
				fmt.Fprintf(os.Stderr, "  peer %d live=%v status=%v [%d,%d] reason=%q\n", q.idx, q.live, q.hasStatus, q.sb, q.sh, q.stopReason)
			}
		}
		sig := "no-switch-with-honest-peer"
		if s.lowered && sh >= s.n-1 {
			sig = "no-switch-after-lowered-status"
		}
		s.viol(sig, "an honest peer with the whole chain (height %d) was connected for %v of simulated time and answered every request, yet the node did not switch to consensus (store height %d, %d other silent peers)", s.n, time.Since(start), sh, others)
		return
	}
	if sh < s.n-2 {
		s.viol("switched-below-tip", "node switched to consensus at store height %d while the honest peer serves up to %d", sh, s.n)
	}
	e.Count("probe.drain_completed")
}

func (s *sim) Finish() {
	if s.pendSig != "" {
		s.env.Fail(s.pendProp, s.pendSig, "%s", s.pendMsg)
	}
	if s.dead {
		return
	}
	defer func() {
		if x := recover(); x != nil {
			if _, is := x.(deadRun); is {
				return
			}
			panic(x)
		}
	}()
	s.inFinish = true
	s.after()
	if !s.switched {
		s.drain()
	}
	s.checkStore()
	if !s.handedOver {
		if st, err := s.stateStore.Load(); err == nil && !st.IsEmpty() {
			s.tryConsensusStart(st, "final")
		}
	}
}

func (s *sim) Close() {
	if s.bcR != nil && s.bcR.IsRunning() {
		_ = s.bcR.Stop()
	}
	for _, p := range s.peers {
		if p.sp.IsRunning() {
			_ = p.sp.Stop()
		}
	}
	if s.proxyApp != nil && s.proxyApp.IsRunning() {
		_ = s.proxyApp.Stop()
	}
}
