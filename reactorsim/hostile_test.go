package reactorsim

import (
	"bytes"
	"context"
	"crypto/sha256"
	"fmt"
	"io"
	"math"
	"os"
	"runtime"
	"strings"
	"time"

	"github.com/gogo/protobuf/proto"

	abcicli "github.com/tendermint/tendermint/abci/client"
	abci "github.com/tendermint/tendermint/abci/types"
	cs "github.com/tendermint/tendermint/consensus"
	"github.com/tendermint/tendermint/crypto"
	"github.com/tendermint/tendermint/crypto/ed25519"
	"github.com/tendermint/tendermint/crypto/merkle"
	tmsync "github.com/tendermint/tendermint/libs/sync"
	"github.com/tendermint/tendermint/light"
	"github.com/tendermint/tendermint/p2p"
	bcproto "github.com/tendermint/tendermint/proto/tendermint/blockchain"
	tmcons "github.com/tendermint/tendermint/proto/tendermint/consensus"
	tmprotobits "github.com/tendermint/tendermint/proto/tendermint/libs/bits"
	protomem "github.com/tendermint/tendermint/proto/tendermint/mempool"
	tmp2p "github.com/tendermint/tendermint/proto/tendermint/p2p"
	ssproto "github.com/tendermint/tendermint/proto/tendermint/statesync"
	tmproto "github.com/tendermint/tendermint/proto/tendermint/types"
	sm "github.com/tendermint/tendermint/state"
	"github.com/tendermint/tendermint/types"

	"verif/simcore"
)

// ---------------------------------------------------------------- application wiring

type creator struct {
	s   *sim
	mtx *tmsync.Mutex
	n   int
}

func newCreator(s *sim) *creator { return &creator{s: s, mtx: new(tmsync.Mutex)} }

// NewABCIClient: the four clients are created in the order query, snapshot, mempool, consensus.
func (c *creator) NewABCIClient() (abcicli.Client, error) {
	names := []string{"query", "snapshot", "mempool", "consensus"}
	name := names[c.n%4]
	c.n++
	return abcicli.NewLocalClient(c.mtx, &snapApp{Application: c.s.app.Conn(name), s: c.s}), nil
}

func (p *stubProvider) aborting() bool {
	p.s.mu.Lock()
	defer p.s.mu.Unlock()
	return p.s.abortSync
}

func (p *stubProvider) AppHash(ctx context.Context, height uint64) ([]byte, error) {
	if p.aborting() {
		return nil, light.ErrNoWitnesses
	}
	if height > 1000 {
		return nil, fmt.Errorf("no header at height %d", height)
	}
	h := sha256.Sum256([]byte(fmt.Sprint("apphash", height)))
	return h[:8], nil
}

func (p *stubProvider) Commit(ctx context.Context, height uint64) (*types.Commit, error) {
	if p.aborting() {
		return nil, light.ErrNoWitnesses
	}
	h := sha256.Sum256([]byte(fmt.Sprint("block", height)))
	bid := types.BlockID{Hash: h[:], PartSetHeader: types.PartSetHeader{Total: 1, Hash: h[:]}}
	return types.NewCommit(int64(height), 0, bid, []types.CommitSig{types.NewCommitSigAbsent(), types.NewCommitSigAbsent()}), nil
}

func (p *stubProvider) State(ctx context.Context, height uint64) (sm.State, error) {
	if p.aborting() {
		return sm.State{}, light.ErrNoWitnesses
	}
	st, err := sm.MakeGenesisState(p.s.node.GenesisDoc())
	if err != nil {
		return sm.State{}, err
	}
	st.LastBlockHeight = int64(height)
	st.Version.Consensus.App = 1
	return st, nil
}

// injectAbortSnapshot puts a snapshot on offer (from a peer that is not part of the switch) so
// that the state sync loop reaches the aborting provider / application and ends.
func (s *sim) injectAbortSnapshot() {
	if s.ssR == nil || !s.ssR.IsRunning() {
		return
	}
	sp := s.newSimPeer(900+s.offered, false, false)
	sp.Start()
	defer sp.Stop()
	func() {
		defer func() { recover() }()
		s.ssR.ReceiveEnvelope(p2pEnvelope(0x60, sp, &ssproto.SnapshotsResponse{Height: uint64(2000 + s.offered + s.applied), Format: 1, Chunks: 1, Hash: []byte("abort-snapshot-hash-0123456789ab")}))
	}()
}

// ---------------------------------------------------------------- symbolic values

// mostly plausible values: a message that fails validation only drops its sender, the
// interesting ones are those that pass
var heightSyms = []string{"cur", "cur", "cur", "cur", "cur", "cur", "cur", "cur", "cur", "cur", "cur-1", "cur-1", "cur+1", "cur+1", "cur-2", "cur+5", "far", "0", "1", "neg", "min", "max"}
var roundSyms = []string{"cur", "cur", "cur", "cur", "cur", "cur", "cur", "cur", "cur+1", "cur+1", "cur-1", "0", "0", "1", "100", "max", "neg", "min"}
var sizeSyms = []string{"n", "n", "n", "n", "n-1", "n-1", "n+1", "n+1", "0", "1", "1", "2", "2", "63", "64", "65", "1601", "1602", "10000", "10001", "big", "big", "huge", "neg"}

func hgt(sym string, cur int64) int64 {
	switch sym {
	case "cur":
		return cur
	case "cur-1":
		return cur - 1
	case "cur+1":
		return cur + 1
	case "cur-2":
		return cur - 2
	case "cur+5":
		return cur + 5
	case "far":
		return cur + 1000000
	case "0":
		return 0
	case "1":
		return 1
	case "neg":
		return -1
	case "min":
		return math.MinInt64
	case "max":
		return math.MaxInt64
	}
	return cur
}

func rnd(sym string, cur int32) int32 {
	if strings.HasPrefix(sym, "+") {
		var n int32
		fmt.Sscanf(sym[1:], "%d", &n)
		return cur + n
	}
	switch sym {
	case "cur":
		return cur
	case "cur+1":
		return cur + 1
	case "cur-1":
		return cur - 1
	case "0":
		return 0
	case "1":
		return 1
	case "100":
		return 100
	case "max":
		return math.MaxInt32
	case "neg":
		return -1
	case "min":
		return math.MinInt32
	case "-2":
		return -2
	}
	return cur
}

// size resolves a symbolic size / index. Attacker-chosen sizes that a receiver might turn into
// an allocation are either at most 2^big (big <= 24) or so large (2^45) that Go refuses the
// allocation outright: the simulation itself must never take the machine down.
func (s *sim) size(sym string, n int64) int64 {
	switch sym {
	case "n":
		return n
	case "n-1":
		return n - 1
	case "n+1":
		return n + 1
	case "big":
		b := s.cfg.Int("big")
		if b < 10 || b > 24 {
			b = 20
		}
		return 1 << uint(b)
	case "huge":
		return 1 << 45
	case "neg":
		return -1
	}
	var v int64
	fmt.Sscanf(sym, "%d", &v)
	return v
}

func clampU32(v int64) uint32 {
	if v < 0 {
		return 0
	}
	if v > 1<<24 {
		return 1 << 24
	}
	return uint32(v)
}

func clampI32(v int64) int32 {
	if v > math.MaxInt32 {
		return math.MaxInt32
	}
	if v < math.MinInt32 {
		return math.MinInt32
	}
	return int32(v)
}

func pick(rng *simcore.RNG, l []string) string { return l[rng.Intn(len(l))] }

// ---------------------------------------------------------------- node context

type nodeCtx struct {
	H       int64
	R       int32
	initial int64
	prop    types.BlockID // block id of the node's current proposal (zero if none)
	last    types.BlockID // last committed block id
	nvals   int64
	nparts  int64
	parts   *types.PartSet
}

func (s *sim) ctx() nodeCtx {
	rs := s.conS.GetRoundState()
	st := s.conS.GetState()
	c := nodeCtx{H: rs.Height, R: rs.Round, initial: st.InitialHeight, last: st.LastBlockID, nvals: 2, nparts: 1}
	if c.H == 0 {
		c.H = st.LastBlockHeight + 1
	}
	if rs.Validators != nil {
		c.nvals = int64(rs.Validators.Size())
	}
	if rs.Proposal != nil {
		c.prop = rs.Proposal.BlockID
	}
	if rs.ProposalBlockParts != nil {
		c.parts = rs.ProposalBlockParts
		c.nparts = int64(rs.ProposalBlockParts.Total())
	}
	return c
}

// ---------------------------------------------------------------- hostile message specs

type hostileMsg struct {
	ch   byte
	bz   []byte
	kind string
	size int    // > 0: size on the wire of a message whose bytes are not materialised
	must string // non-empty: the message is invalid beyond argument, the sender must be dropped
	big  string // non-empty: the message carries an attacker-chosen large size (description)
	adv  bool   // a status response that advertises blocks above the node's store
	vr   int32  // a vote: the round it names
}

func (s *sim) genHostile(rng *simcore.RNG) simcore.Op {
	fams := s.cfg.Strs("fam")
	if len(fams) == 0 {
		fams = families
	}
	w := make([]int, len(fams))
	for i, f := range fams {
		w[i] = 2
		if f == "cons" {
			w[i] = 9
		}
	}
	f := fams[rng.Weighted(w)]
	op := s.genFamily(rng, f)
	op["f"] = f
	op["seed"] = rng.Intn(1 << 30)
	return op
}

func (s *sim) genFamily(rng *simcore.RNG, f string) simcore.Op {
	op := simcore.Op{}
	bid := func() string {
		return []string{"prop", "prop", "last", "rand", "nil", "bighdr", "badhash", "half"}[rng.Weighted([]int{6, 6, 3, 6, 5, 3, 1, 1})]
	}
	sig := func() string {
		// the attacker never holds the node's own validator key (that would be > 2/3 of the power)
		w := []int{8, 1, 1, 0}
		if s.cfg.Bool("byz") {
			w[3] = 9
		}
		return []string{"junk", "none", "long", "val2"}[rng.Weighted(w)]
	}
	vtype := func() int { return []int{1, 2, 1, 2, 1, 2, 1, 2, 1, 2, 1, 2, 0, 32, 99}[rng.Intn(15)] }
	ba := func(prefix string) {
		op[prefix+"bits"] = pick(rng, sizeSyms)
		op[prefix+"elems"] = []string{"match", "match", "none", "short", "long", "ones"}[rng.Intn(6)]
	}
	switch f {
	case "cons":
		k := []string{"nrs", "nvb", "prop", "pol", "part", "vote", "hasvote", "maj23", "vsb", "vburst"}[rng.Weighted([]int{14, 9, 9, 7, 8, 10, 6, 6, 8, 5})]
		op["k"] = k
		op["h"] = pick(rng, heightSyms)
		op["r"] = pick(rng, roundSyms)
		if rng.Bool(0.08) {
			op["wch"] = rng.Intn(4) // send it on this consensus channel instead of its own
		}
		switch k {
		case "nrs":
			op["step"] = []int{1, 2, 3, 4, 5, 6, 7, 8, 1, 3, 6, 8, 1, 2, 3, 4, 5, 6, 7, 8, 0, 9, 255, 256, 70000}[rng.Intn(25)]
			op["ssst"] = []string{"0", "0", "5", "big", "neg", "min", "max"}[rng.Intn(7)]
			op["lcr"] = []string{"auto", "auto", "auto", "auto", "auto", "auto", "-1", "0", "cur", "max", "-2"}[rng.Intn(11)]
			if rng.Bool(0.4) {
				// the plain honest-looking announcement: puts the peer at the node's height and round
				op["h"], op["r"], op["lcr"], op["ssst"] = "cur", "cur", "auto", "0"
				op["step"] = rng.Range(1, 8)
				delete(op, "wch")
			}
		case "nvb":
			op["total"] = pick(rng, sizeSyms)
			op["phash"] = []string{"prop", "prop", "prop", "prop", "rand", "rand", "badlen", "empty"}[rng.Intn(8)]
			op["commit"] = rng.Bool(0.5)
			if rng.Bool(0.6) {
				op["bits"] = "total"
				op["elems"] = []string{"match", "none", "short", "long", "ones"}[rng.Intn(5)]
			} else {
				ba("")
			}
		case "prop":
			op["type"] = []int{32, 32, 32, 32, 32, 32, 32, 32, 32, 1, 0}[rng.Intn(11)]
			op["pol"] = []string{"-1", "-1", "-1", "-1", "0", "cur-1", "cur", "max", "-2"}[rng.Intn(9)]
			op["bid"] = []string{"prop", "rand", "rand", "own", "own", "own", "bighdr", "bighdr", "nil", "half", "badhash"}[rng.Intn(11)]
			op["sig"] = sig()
			op["np"] = []int{1, 2, 3, 7}[rng.Intn(4)]
			op["data"] = []string{"garbage", "block", "oversize", "cflag"}[rng.Intn(4)]
			s.ownSeedMemo = rng.Intn(1 << 30)
			op["own"] = s.ownSeedMemo
			s.ownNpMemo = op.Int("np")
			s.ownDataMemo = op.Str("data")
		case "pol":
			op["pr"] = pick(rng, roundSyms)
			ba("")
		case "part":
			op["src"] = []string{"node", "node", "own", "own", "junk"}[rng.Intn(5)]
			op["np"] = s.ownNpMemo
			op["own"] = s.ownSeedMemo
			op["data"] = s.ownDataMemo
			if op.Int("np") == 0 || rng.Bool(0.2) {
				op["np"] = []int{1, 2, 3, 7}[rng.Intn(4)]
				op["own"] = rng.Intn(1 << 30)
				op["data"] = "garbage"
			}
			op["i"] = rng.Intn(8)
			op["mut"] = []string{"none", "none", "none", "index", "ptotal", "pindex", "aunts_short", "aunts_many", "aunt_badlen", "leaf_badlen", "bytes_over", "bytes_empty", "bytes_flip"}[rng.Intn(13)]
			op["v"] = pick(rng, sizeSyms)
		case "vote":
			op["type"] = vtype()
			op["bid"] = bid()
			op["sig"] = sig()
			op["addr"] = []string{"val2", "val2", "val2", "val2", "val2", "node", "rand", "rand", "short", "empty"}[rng.Intn(10)]
			op["idx"] = []string{"val2", "val2", "val2", "val2", "val2", "node", "n", "big", "max", "neg"}[rng.Intn(10)]
			op["ts"] = []string{"now", "now", "zero", "future"}[rng.Intn(4)]
		case "vburst":
			// many well-formed votes of one peer for the current height, each for another
			// future round: with signatures that do not verify, or with validator 2's
			op["h"], op["r"] = "cur", "cur"
			delete(op, "wch")
			op["n"] = []int{6, 25, 60}[rng.Intn(3)]
			op["r0"] = rng.Range(2, 5)
			op["type"] = []int{1, 2}[rng.Intn(2)]
			op["sig"] = "junk"
			if s.cfg.Bool("byz") && rng.Bool(0.35) {
				op["sig"] = "val2"
			}
			op["bid"] = []string{"rand", "nil", "prop"}[rng.Intn(3)]
		case "hasvote":
			op["type"] = vtype()
			op["idx"] = pick(rng, sizeSyms)
		case "maj23":
			op["type"] = vtype()
			op["bid"] = bid()
		case "vsb":
			op["type"] = vtype()
			op["bid"] = bid()
			ba("")
		}
	case "mem":
		op["k"] = "txs"
		op["n"] = []int{0, 1, 1, 2, 5, 40, 300}[rng.Intn(7)]
		op["sz"] = []string{"small", "small", "mid", "max", "over", "empty"}[rng.Intn(6)]
		op["c"] = []string{"kv", "kv", "same", "bad", "bin"}[rng.Intn(5)]
	case "evid":
		op["k"] = "list"
		n := []int{0, 1, 1, 1, 2, 5}[rng.Intn(6)]
		var items []string
		for i := 0; i < n; i++ {
			items = append(items, []string{"dve", "dve", "dve_badsig", "dve_unknown", "dve_future", "dve_same", "dve_nilvote", "dve_power", "dve_time", "lca_nil", "lca_junk", "lca_flag", "empty", "dve_h0"}[rng.Intn(14)])
		}
		op["items"] = items
		op["eh"] = []string{"cur-1", "cur-2", "1", "cur-1"}[rng.Intn(4)]
	case "bc":
		k := []string{"breq", "bresp", "noblock", "sreq", "sresp"}[rng.Weighted([]int{5, 9, 3, 3, 6})]
		op["k"] = k
		op["h"] = pick(rng, heightSyms)
		switch k {
		case "bresp":
			op["blk"] = []string{"nil", "empty", "stored", "stored", "mutated", "bigtxs", "nolastcommit", "chain", "chain", "cflag", "cflag", "cflag"}[rng.Intn(12)]
			if s.syncing() && rng.Bool(0.5) {
				op["blk"] = []string{"chain", "cflag", "cflag"}[rng.Intn(3)]
			}
			// "chain"/"cflag": an otherwise well-formed block for the height block sync asks for
			// (or the one after it: its LastCommit is what verifies the block before)
			op["bh"] = []string{"next", "next", "next+1", "next+1", "next+1", "next+2"}[rng.Intn(6)]
			if op.Str("blk") == "cflag" {
				op["flag"] = []int{0, 0, 0, 4, 255, 1, 3, 2}[rng.Intn(8)] // 1..3 are the known flags
				op["fa"] = rng.Bool(0.7)                                  // entry carries an address and a signature
				op["fi"] = rng.Intn(3)                                    // entry 0, entry 1, both
			}
		case "sresp":
			op["base"] = pick(rng, heightSyms)
			if s.syncing() {
				// While the pool is running, which requester gets which peer must not be left to
				// the scheduler: one advertising peer (several would make the pool's map-order
				// peer choice visible) and few enough heights that its 20 request slots are
				// never contended (hundreds of requesters waking at the same instant).
				hv := hgt(op.Str("h"), 1)
				if s.advertiser() {
					if rng.Bool(0.6) || hv > 6 {
						op["base"], op["h"] = "0", []string{"cur+1", "cur+5", "cur+5"}[rng.Intn(3)]
					}
				} else if hv > 0 {
					op["h"] = "0"
					op["base"] = "0"
				}
			}
		}
	case "ss":
		k := []string{"snapreq", "snapresp", "chunkreq", "chunkresp"}[rng.Weighted([]int{3, 7, 4, 7})]
		op["k"] = k
		op["sh"] = []string{"0", "1", "3", "3", "5", "7", "big", "max"}[rng.Intn(8)]
		op["fmt"] = []int{0, 1, 1, 1, 2, 9, math.MaxUint32 >> 8}[rng.Intn(7)]
		op["swap"] = rng.Bool(0.1)
		switch k {
		case "snapresp":
			op["chunks"] = []string{"0", "1", "2", "3", "3", "1000", "big"}[rng.Intn(7)]
			op["hash"] = []string{"ok", "ok", "ok", "empty", "long", "served"}[rng.Intn(6)]
			op["meta"] = []int{0, 0, 10, 100000}[rng.Intn(4)]
		case "chunkreq":
			op["ci"] = []string{"0", "1", "2", "3", "big", "max"}[rng.Intn(6)]
		case "chunkresp":
			op["ci"] = []string{"0", "0", "1", "2", "3", "big", "max"}[rng.Intn(7)]
			op["body"] = []string{"data", "data", "reject", "nil", "missing", "missing_data", "large"}[rng.Intn(7)]
		}
	case "pex":
		k := []string{"req", "addrs"}[rng.Weighted([]int{4, 6})]
		op["k"] = k
		if k == "addrs" {
			op["n"] = []int{0, 1, 3, 50, 240, 1000}[rng.Intn(6)]
			op["bad"] = []string{"none", "none", "ip", "port", "id", "self", "private"}[rng.Intn(7)]
		}
	case "raw":
		k := []string{"bytes", "unknown_ch", "oversize", "mut", "mut", "mut", "empty"}[rng.Intn(7)]
		op["k"] = k
		switch k {
		case "bytes":
			op["n"] = []int{1, 2, 3, 8, 20, 64, 300, 5000}[rng.Intn(8)]
			op["chsel"] = rng.Intn(64)
		case "unknown_ch":
			op["chid"] = []int{0x01, 0x1f, 0x24, 0x31, 0x39, 0x41, 0x62, 0x7f, 0xff}[rng.Intn(9)]
			op["n"] = rng.Range(0, 40)
		case "oversize":
			op["chsel"] = rng.Intn(64)
			op["over"] = []int{1, 2, 1000}[rng.Intn(3)]
		case "empty":
			op["chsel"] = rng.Intn(64)
		case "mut":
			fams := []string{"cons", "cons", "cons", "mem", "evid", "bc", "ss", "pex"}
			bf := fams[rng.Intn(len(fams))]
			if bf == "bc" && s.syncing() {
				bf = "evid" // (a bit-flipped status response could advertise any height, see "sresp")
			}
			base := s.genFamily(rng, bf)
			base["f"] = bf
			base["seed"] = rng.Intn(1 << 30)
			op["base"] = base
			if rng.Bool(0.5) {
				op["cut"] = rng.Intn(1000)
			}
			nf := rng.Intn(4)
			if !op.Has("cut") && nf == 0 {
				nf = 1
			}
			var fl []int
			for i := 0; i < nf; i++ {
				fl = append(fl, rng.Intn(1000), rng.Intn(8))
			}
			op["flips"] = fl
		}
	}
	return op
}

func p2pEnvelope(ch byte, src *simPeer, m proto.Message) p2p.Envelope {
	return p2p.Envelope{ChannelID: ch, Src: src, Message: m}
}

func ed25519FromSeed(seed []byte) crypto.PrivKey { return ed25519.GenPrivKeyFromSecret(seed) }

// decodeWAL reads every record of the WAL head file.
func decodeWAL(path string) error {
	f, err := os.Open(path)
	if err != nil {
		return err
	}
	defer f.Close()
	dec := cs.NewWALDecoder(f)
	for {
		_, err := dec.Decode()
		if err == io.EOF {
			return nil
		}
		if err != nil {
			return err
		}
	}
}

// chanFor returns the id of the (sorted) k-th known channel.
func (s *sim) chanFor(k int) byte {
	var ids []int
	for id := range s.chans {
		ids = append(ids, int(id))
	}
	sortInts(ids)
	return byte(ids[k%len(ids)])
}

func sortInts(a []int) {
	for i := 1; i < len(a); i++ {
		for j := i; j > 0 && a[j] < a[j-1]; j-- {
			a[j], a[j-1] = a[j-1], a[j]
		}
	}
}

func (s *sim) blockID(sym string, c nodeCtx, r *simcore.RNG) (types.BlockID, string) {
	switch sym {
	case "prop":
		if !c.prop.IsZero() {
			return c.prop, ""
		}
		if !c.last.IsZero() {
			return c.last, ""
		}
		fallthrough
	case "rand":
		h := r.Bytes(32)
		return types.BlockID{Hash: h, PartSetHeader: types.PartSetHeader{Total: uint32(1 + r.Intn(3)), Hash: r.Bytes(32)}}, ""
	case "last":
		return c.last, ""
	case "nil":
		return types.BlockID{}, ""
	case "bighdr":
		return types.BlockID{Hash: r.Bytes(32), PartSetHeader: types.PartSetHeader{Total: clampU32(s.size("big", 0)), Hash: r.Bytes(32)}}, ""
	case "badhash":
		return types.BlockID{Hash: r.Bytes(31), PartSetHeader: types.PartSetHeader{Total: 1, Hash: r.Bytes(32)}}, "block id hash of 31 bytes"
	case "half":
		return types.BlockID{Hash: r.Bytes(32)}, "block id with a hash but no part set header"
	}
	return types.BlockID{}, ""
}

func (s *sim) bitArray(bitsSym, elemsSym string, n int64, r *simcore.RNG) (tmprotobits.BitArray, int64) {
	bitsN := s.size(bitsSym, n)
	want := int64(0)
	if bitsN > 0 {
		want = (bitsN + 63) / 64
	}
	if want > 1<<12 {
		want = 1 << 12 // never ship more than 32 KiB of bit array words
	}
	var ne int64
	switch elemsSym {
	case "match", "ones":
		ne = want
	case "none":
		ne = 0
	case "short":
		ne = want - 1
		if ne < 0 {
			ne = 0
		}
	case "long":
		ne = want + 3
	}
	el := make([]uint64, ne)
	for i := range el {
		if elemsSym == "ones" {
			el[i] = math.MaxUint64
		} else {
			el[i] = r.Uint64()
		}
	}
	return tmprotobits.BitArray{Bits: bitsN, Elems: el}, bitsN
}

// ownParts is the part set of a block "proposed" by validator 2: a pure function of its spec.
func (s *sim) ownParts(op simcore.Op) *types.PartSet {
	np := op.Int("np")
	if np < 1 || np > 16 {
		np = 1
	}
	r := simcore.NewRNG(uint64(op.Int("own"))*2654435761 + 17)
	switch op.Str("data") {
	case "block":
		// a decodable block: the last stored block (wrong for the current height)
		if h := s.storeHeight(); h > 0 {
			if b := s.node.BlockStore().LoadBlock(h); b != nil {
				if pb, err := b.ToProto(); err == nil {
					if bz, err := proto.Marshal(pb); err == nil {
						sz := uint32(len(bz)/np + 1)
						return types.NewPartSetFromData(bz, sz)
					}
				}
			}
		}
	case "cflag":
		// a block for the node's next height that fits its state, except that entries of its
		// LastCommit carry an unknown block id flag (a pure function of the spec's seed)
		own := op.Int("own")
		o := simcore.Op{"blk": "cflag", "flag": []int{0, 0, 0, 4, 255}[own%5], "fa": own%4 != 0, "fi": (own / 5) % 3, "seed": own}
		b := s.chainBlock(s.storeHeight()+1, o)
		if pb, err := b.ToProto(); err == nil {
			if bz, err := proto.Marshal(pb); err == nil {
				return types.NewPartSetFromData(bz, uint32(len(bz)/np+1))
			}
		}
	case "oversize":
		// parts of the maximum part size
		data := r.Bytes(int(types.BlockPartSizeBytes)*(np-1) + 100)
		return types.NewPartSetFromData(data, types.BlockPartSizeBytes)
	}
	data := r.Bytes(40*np - 7)
	return types.NewPartSetFromData(data, 40)
}

// signBytesOf computes sign bytes; canonicalisation refuses some malformed contents (then
// there is nothing to sign and the signature is junk).
func signBytesOf(f func() []byte) (out []byte) {
	defer func() {
		if recover() != nil {
			out = nil
		}
	}()
	return f()
}

func (s *sim) sign(who string, signBytes []byte, r *simcore.RNG) ([]byte, string) {
	if signBytes == nil && who == "val2" {
		who = "junk"
	}
	if who == "self" {
		who = "junk" // not part of the threat model (older traces may carry it)
	}
	switch who {
	case "none":
		return nil, "no signature"
	case "long":
		return r.Bytes(65 + r.Intn(40)), "signature longer than 64 bytes"
	case "val2":
		sg, err := s.val2Key.Sign(signBytes)
		if err != nil {
			panic(err)
		}
		return sg, ""
	case "self":
		sg, err := s.valKey.Sign(signBytes)
		if err != nil {
			panic(err)
		}
		return sg, ""
	}
	return r.Bytes(64), ""
}

func voteKey(h int64, r int32, t tmproto.SignedMsgType) string { return fmt.Sprintf("%d/%d/%d", h, r, t) }

// buildHostile turns a spec into wire bytes using the node's state at this instant.
func (s *sim) buildHostile(op simcore.Op, pm *peerM) *hostileMsg { return s.buildHostileX(op, pm, false) }

// buildHostileX: dry = called by the generator to look at the message, nothing is recorded.
func (s *sim) buildHostileX(op simcore.Op, pm *peerM, dry bool) *hostileMsg {
	if op.Str("f") == "cons" && op.Str("k") == "vburst" {
		// (the generator looks at the first vote of the burst)
		v := simcore.Op{"f": "cons", "k": "vote", "h": "cur", "r": fmt.Sprintf("+%d", op.Int("r0")), "type": op.Int("type"), "bid": op.Str("bid"),
			"sig": op.Str("sig"), "addr": "val2", "idx": "val2", "ts": "now", "seed": op.Int("seed")}
		h := s.buildHostileX(v, pm, dry)
		if h != nil {
			h.kind = "cons.vburst"
		}
		return h
	}
	c := s.ctx()
	r := simcore.NewRNG(uint64(op.Int("seed"))*0x9e3779b97f4a7c15 + 1)
	f, k := op.Str("f"), op.Str("k")
	hm := &hostileMsg{kind: f + "." + k}
	for _, key := range []string{"bid", "total", "bits", "chunks", "v", "idx", "ci"} {
		if v := op.Str(key); v == "big" || v == "bighdr" {
			hm.big = fmt.Sprintf("%s=%s (2^%d)", key, v, s.cfg.Int("big"))
		}
	}
	must := func(cond bool, why string) {
		if cond && hm.must == "" {
			hm.must = why
		}
	}
	var msg proto.Message
	switch f {
	case "cons":
		H := hgt(op.Str("h"), c.H)
		R := rnd(op.Str("r"), c.R)
		must(H < 0, "negative height")
		// every consensus message with a round field except VoteSetBits (whose round the
		// protocol does not constrain) and ProposalPOL (which has none)
		must(R < 0 && k != "pol" && k != "vsb", "negative round")
		switch k {
		case "nrs":
			hm.ch = 0x20
			step := uint32(op.Int("step"))
			var ssst int64
			switch op.Str("ssst") {
			case "5":
				ssst = 5
			case "big":
				ssst = 1 << 40
			case "neg":
				ssst = -7
			case "min":
				ssst = math.MinInt64
			case "max":
				ssst = math.MaxInt64
			}
			var lcr int32
			switch op.Str("lcr") {
			case "auto":
				lcr = 0
				if H <= c.initial {
					lcr = -1
				}
			case "-1":
				lcr = -1
			case "0":
				lcr = 0
			case "cur":
				lcr = c.R
			case "max":
				lcr = math.MaxInt32
			case "-2":
				lcr = -2
			}
			must(step < 1 || step > 8, "step outside 1..8")
			must(lcr < -1, "last commit round below -1")
			if !op.Has("wch") || op.Int("wch")%4 == 0 {
				// checked against the chain by the state channel's handler only
				must(H >= 0 && H < c.initial, "height below the chain's initial height")
				must(H == c.initial && lcr != -1, "a last commit round at the initial height")
				must(H > c.initial && lcr < 0, "no last commit round above the initial height")
			}
			msg = &tmcons.NewRoundStep{Height: H, Round: R, Step: step, SecondsSinceStartTime: ssst, LastCommitRound: lcr}
		case "nvb":
			hm.ch = 0x20
			total := s.size(op.Str("total"), c.nparts)
			psh := tmproto.PartSetHeader{Total: clampU32(total)}
			switch op.Str("phash") {
			case "prop":
				psh.Hash = c.prop.PartSetHeader.Hash
				if len(psh.Hash) == 0 {
					psh.Hash = r.Bytes(32)
				}
			case "rand":
				psh.Hash = r.Bytes(32)
			case "badlen":
				psh.Hash = r.Bytes(20)
				must(true, "part set hash of 20 bytes")
			}
			bsym := op.Str("bits")
			n := c.nparts
			if bsym == "total" {
				bsym = "n"
				n = int64(psh.Total)
			}
			ba, bitsN := s.bitArray(bsym, op.Str("elems"), n, r)
			must(bitsN == 0, "empty block parts bit array")
			must(bitsN != int64(psh.Total), "bit array size differs from the part set total")
			must(bitsN > 1601, "more block parts than the maximum block size allows")
			msg = &tmcons.NewValidBlock{Height: H, Round: R, BlockPartSetHeader: psh, BlockParts: &ba, IsCommit: op.Bool("commit")}
		case "prop":
			hm.ch = 0x21
			var bid types.BlockID
			var why string
			if op.Str("bid") == "own" {
				ps := s.ownParts(op)
				h := sha256.Sum256(ps.Header().Hash)
				bid = types.BlockID{Hash: h[:], PartSetHeader: ps.Header()}
			} else {
				bid, why = s.blockID(op.Str("bid"), c, r)
			}
			must(why != "", why)
			must(!bid.IsComplete(), "proposal without a complete block id")
			pol := rnd(op.Str("pol"), c.R)
			if op.Str("pol") == "-1" {
				pol = -1
			}
			must(pol < -1, "POL round below -1")
			typ := tmproto.SignedMsgType(op.Int("type"))
			must(typ != tmproto.ProposalType, "proposal with a wrong message type")
			p := &tmproto.Proposal{Type: typ, Height: H, Round: R, PolRound: pol, BlockID: bid.ToProto(), Timestamp: time.Now().UTC()}
			sg, w := s.sign(op.Str("sig"), signBytesOf(func() []byte { return types.ProposalSignBytes(s.chainID, p) }), r)
			must(w != "", w)
			p.Signature = sg
			msg = &tmcons.Proposal{Proposal: *p}
		case "pol":
			hm.ch = 0x21
			pr := rnd(op.Str("pr"), c.R)
			must(pr < 0, "negative POL round")
			ba, bitsN := s.bitArray(op.Str("bits"), op.Str("elems"), c.nvals, r)
			must(bitsN == 0, "empty POL bit array")
			must(bitsN > 10000, "POL bit array larger than the maximum validator count")
			msg = &tmcons.ProposalPOL{Height: H, ProposalPolRound: pr, ProposalPol: ba}
		case "part":
			hm.ch = 0x21
			var part *types.Part
			i := op.Int("i")
			switch op.Str("src") {
			case "node":
				if c.parts != nil && c.parts.Count() > 0 {
					for j := 0; j < int(c.parts.Total()); j++ {
						if p := c.parts.GetPart((i + j) % int(c.parts.Total())); p != nil {
							part = p
							break
						}
					}
				}
			case "own":
				ps := s.ownParts(op)
				part = ps.GetPart(i % int(ps.Total()))
			}
			if part == nil {
				part = &types.Part{Index: uint32(i), Bytes: r.Bytes(1 + r.Intn(200)),
					Proof: merkle.Proof{Total: int64(1 + i), Index: int64(i), LeafHash: r.Bytes(32), Aunts: [][]byte{r.Bytes(32)}}}
			}
			pp, err := part.ToProto()
			if err != nil {
				return nil
			}
			pb := *pp
			pb.Bytes = append([]byte{}, pb.Bytes...)
			pb.Proof.Aunts = append([][]byte{}, pb.Proof.Aunts...)
			v := s.size(op.Str("v"), c.nparts)
			switch op.Str("mut") {
			case "index":
				pb.Index = clampU32(v)
			case "ptotal":
				pb.Proof.Total = v
				must(v < 0, "negative proof total")
			case "pindex":
				pb.Proof.Index = v
				must(v < 0, "negative proof index")
			case "aunts_short":
				if len(pb.Proof.Aunts) > 0 {
					pb.Proof.Aunts = pb.Proof.Aunts[:len(pb.Proof.Aunts)-1]
				} else {
					pb.Proof.Aunts = [][]byte{r.Bytes(32)}
				}
			case "aunts_many":
				for len(pb.Proof.Aunts) < 101 {
					pb.Proof.Aunts = append(pb.Proof.Aunts, r.Bytes(32))
				}
				must(true, "proof with more than 100 aunts")
			case "aunt_badlen":
				pb.Proof.Aunts = append(pb.Proof.Aunts, r.Bytes(31))
				must(true, "proof aunt of 31 bytes")
			case "leaf_badlen":
				pb.Proof.LeafHash = r.Bytes(33)
				must(true, "leaf hash of 33 bytes")
			case "bytes_over":
				pb.Bytes = r.Bytes(int(types.BlockPartSizeBytes) + 1)
				must(true, "block part larger than the part size")
			case "bytes_empty":
				pb.Bytes = nil
			case "bytes_flip":
				if len(pb.Bytes) > 0 {
					pb.Bytes[r.Intn(len(pb.Bytes))] ^= 0x10
				}
			}
			msg = &tmcons.BlockPart{Height: H, Round: R, Part: pb}
		case "vote":
			hm.ch = 0x22
			typ := tmproto.SignedMsgType(op.Int("type"))
			must(typ != tmproto.PrevoteType && typ != tmproto.PrecommitType, "vote type that is neither prevote nor precommit")
			bid, why := s.blockID(op.Str("bid"), c, r)
			must(why != "", why)
			var addr []byte
			switch op.Str("addr") {
			case "val2":
				addr = s.val2Key.PubKey().Address()
			case "node":
				addr = s.valKey.PubKey().Address()
			case "rand":
				addr = r.Bytes(crypto.AddressSize)
			case "short":
				addr = r.Bytes(19)
				must(true, "validator address of 19 bytes")
			case "empty":
				must(true, "empty validator address")
			}
			var idx int32
			switch op.Str("idx") {
			case "val2":
				idx = s.val2Idx
			case "node":
				idx = s.nodeIdx
			case "n":
				idx = int32(c.nvals)
			case "big":
				idx = 1 << 20
			case "max":
				idx = math.MaxInt32
			case "neg":
				idx = -1
				must(true, "negative validator index")
			}
			ts := time.Now().UTC()
			switch op.Str("ts") {
			case "zero":
				ts = time.Time{}
			case "future":
				ts = ts.Add(1000 * time.Hour)
			}
			hm.vr = R
			v := &tmproto.Vote{Type: typ, Height: H, Round: R, BlockID: bid.ToProto(), Timestamp: ts, ValidatorAddress: addr, ValidatorIndex: idx}
			sg, w := s.sign(op.Str("sig"), signBytesOf(func() []byte { return types.VoteSignBytes(s.chainID, v) }), r)
			must(w != "", w)
			v.Signature = sg
			if op.Str("sig") == "val2" && op.Str("addr") == "val2" && op.Str("idx") == "val2" && hm.must == "" && pm.live && !dry {
				key := voteKey(H, R, typ)
				if _, ok := s.val2Sig[key]; !ok {
					s.val2Sig[key] = bid.Key()
				}
			}
			msg = &tmcons.Vote{Vote: v}
		case "hasvote":
			hm.ch = 0x20
			typ := tmproto.SignedMsgType(op.Int("type"))
			must(typ != tmproto.PrevoteType && typ != tmproto.PrecommitType, "vote type that is neither prevote nor precommit")
			idx := s.size(op.Str("idx"), c.nvals)
			must(idx < 0, "negative validator index")
			msg = &tmcons.HasVote{Height: H, Round: R, Type: typ, Index: clampI32(idx)}
		case "maj23":
			hm.ch = 0x20
			typ := tmproto.SignedMsgType(op.Int("type"))
			must(typ != tmproto.PrevoteType && typ != tmproto.PrecommitType, "vote type that is neither prevote nor precommit")
			bid, why := s.blockID(op.Str("bid"), c, r)
			if op.Str("bid") != "half" {
				must(why != "", why)
			}
			msg = &tmcons.VoteSetMaj23{Height: H, Round: R, Type: typ, BlockID: bid.ToProto()}
		case "vsb":
			hm.ch = 0x23
			typ := tmproto.SignedMsgType(op.Int("type"))
			must(typ != tmproto.PrevoteType && typ != tmproto.PrecommitType, "vote type that is neither prevote nor precommit")
			bid, why := s.blockID(op.Str("bid"), c, r)
			if op.Str("bid") != "half" {
				must(why != "", why)
			}
			ba, bitsN := s.bitArray(op.Str("bits"), op.Str("elems"), c.nvals, r)
			must(bitsN > 10000, "vote bit array larger than the maximum validator count")
			msg = &tmcons.VoteSetBits{Height: H, Round: R, Type: typ, BlockID: bid.ToProto(), Votes: ba}
		default:
			return nil
		}
		if op.Has("wch") {
			hm.ch = 0x20 + byte(op.Int("wch")%4)
		}
	case "mem":
		hm.ch = 0x30
		max := s.config.Mempool.MaxTxBytes
		n := op.Int("n")
		var txs [][]byte
		same := []byte(fmt.Sprintf("same%d=1", op.Int("seed")%5))
		for i := 0; i < n; i++ {
			var sz int
			switch op.Str("sz") {
			case "small":
				sz = 8 + r.Intn(24)
			case "mid":
				sz = max / 3
			case "max":
				sz = max
			case "over":
				sz = max + 1
			case "empty":
				sz = 0
			}
			var tx []byte
			switch op.Str("c") {
			case "kv":
				tx = []byte(fmt.Sprintf("h%dx%d=%d", pm.idx, op.Int("seed"), i))
			case "same":
				tx = same
			case "bad":
				tx = []byte(fmt.Sprintf("bad%d", i))
			case "bin":
				tx = r.Bytes(8)
			}
			if sz == 0 {
				tx = []byte{}
			} else if len(tx) < sz {
				tx = append(tx, bytes.Repeat([]byte{'z'}, sz-len(tx))...)
			} else if op.Str("sz") != "small" {
				tx = tx[:sz]
			}
			txs = append(txs, tx)
			if n > 3 && len(txs)*sz > max {
				break // stay within the channel's capacity: several transactions, one message
			}
		}
		msg = &protomem.Txs{Txs: txs}
	case "evid":
		hm.ch = 0x38
		el := &tmproto.EvidenceList{}
		for j, it := range op.Strs("items") {
			ev, why := s.buildEvidence(it, hgt(op.Str("eh"), c.H), c, r, j)
			must(why != "", why)
			el.Evidence = append(el.Evidence, ev)
		}
		msg = el
	case "bc":
		hm.ch = 0x40
		H := hgt(op.Str("h"), c.H)
		switch k {
		case "breq":
			must(H < 0, "negative height")
			msg = &bcproto.BlockRequest{Height: H}
		case "noblock":
			must(H < 0, "negative height")
			msg = &bcproto.NoBlockResponse{Height: H}
		case "sreq":
			msg = &bcproto.StatusRequest{}
		case "sresp":
			B := hgt(op.Str("base"), c.H)
			must(H < 0 || B < 0, "negative height or base")
			must(B > H, "base above height")
			hm.adv = hm.must == "" && H > s.storeHeight()
			msg = &bcproto.StatusResponse{Base: B, Height: H}
		case "bresp":
			var pb *tmproto.Block
			if sh := s.storeHeight(); sh > 0 {
				lh := sh - int64(r.Intn(3))
				if lh < 1 {
					lh = 1
				}
				if b := s.node.BlockStore().LoadBlock(lh); b != nil {
					pb, _ = b.ToProto()
				}
			}
			switch op.Str("blk") {
			case "nil":
				pb = nil
				must(true, "block response without a block")
			case "empty":
				pb = &tmproto.Block{}
			case "mutated":
				if pb != nil {
					pb.Header.Height = H
					pb.Header.AppHash = r.Bytes(8)
				}
			case "bigtxs":
				if pb != nil {
					for i := 0; i < 200; i++ {
						pb.Data.Txs = append(pb.Data.Txs, r.Bytes(500))
					}
				}
			case "nolastcommit":
				if pb != nil {
					pb.LastCommit = nil
				}
			case "chain", "cflag":
				bh := s.storeHeight() + 1
				switch op.Str("bh") {
				case "next+1":
					bh++
				case "next+2":
					bh += 2
				}
				b := s.chainBlock(bh, op)
				pb, _ = b.ToProto()
				if op.Str("blk") == "cflag" && bh-1 >= 1 {
					f := op.Int("flag")
					must(f < 1 || f > 3, fmt.Sprintf("commit signature entry with block id flag %d", f))
				}
			}
			if pb == nil && op.Str("blk") != "nil" {
				pb = &tmproto.Block{Header: tmproto.Header{Height: H, ChainID: s.chainID}}
			}
			msg = &bcproto.BlockResponse{Block: pb}
		default:
			return nil
		}
	case "ss":
		var sh uint64
		switch op.Str("sh") {
		case "big":
			sh = 1 << 40
		case "max":
			sh = math.MaxUint64
		default:
			fmt.Sscanf(op.Str("sh"), "%d", &sh)
		}
		format := uint32(op.Int64("fmt"))
		ci := func() uint32 {
			switch op.Str("ci") {
			case "big":
				return uint32(s.size("big", 0))
			case "max":
				return math.MaxUint32
			}
			var v uint32
			fmt.Sscanf(op.Str("ci"), "%d", &v)
			return v
		}
		must(sh == 0 && k != "snapreq", "height 0")
		switch k {
		case "snapreq":
			hm.ch = 0x60
			msg = &ssproto.SnapshotsRequest{}
		case "snapresp":
			hm.ch = 0x60
			var chunks uint32
			switch op.Str("chunks") {
			case "big":
				b := s.cfg.Int("big")
				if b > 20 {
					b = 20 // four maps are sized by this number
				}
				if b < 10 {
					b = 10
				}
				chunks = 1 << uint(b)
			default:
				fmt.Sscanf(op.Str("chunks"), "%d", &chunks)
			}
			var hash []byte
			switch op.Str("hash") {
			case "ok":
				hash = r.Bytes(32)
			case "long":
				hash = r.Bytes(100000)
			case "served":
				hash = served[0].hash
			}
			must(len(hash) == 0, "snapshot without a hash")
			must(chunks == 0, "snapshot without chunks")
			msg = &ssproto.SnapshotsResponse{Height: sh, Format: format, Chunks: chunks, Hash: hash, Metadata: r.Bytes(op.Int("meta"))}
		case "chunkreq":
			hm.ch = 0x61
			msg = &ssproto.ChunkRequest{Height: sh, Format: format, Index: ci()}
		case "chunkresp":
			hm.ch = 0x61
			m := &ssproto.ChunkResponse{Height: sh, Format: format, Index: ci()}
			switch op.Str("body") {
			case "data":
				m.Chunk = r.Bytes(1 + r.Intn(300))
				if m.Chunk[0] == 0xee {
					m.Chunk[0] = 1
				}
			case "reject":
				m.Chunk = append([]byte{0xee}, r.Bytes(20)...)
			case "nil":
				must(true, "chunk response that is neither missing nor has a chunk")
			case "missing":
				m.Missing = true
			case "missing_data":
				m.Missing = true
				m.Chunk = r.Bytes(10)
				must(true, "missing chunk with contents")
			case "large":
				m.Chunk = r.Bytes(200000)
			}
			msg = m
		default:
			return nil
		}
		if op.Bool("swap") {
			hm.ch ^= 1
		}
	case "pex":
		hm.ch = 0x00
		if s.chans[0x00] == nil {
			must(true, "message for a channel the node does not have")
		}
		switch k {
		case "req":
			msg = &tmp2p.PexRequest{}
		case "addrs":
			m := &tmp2p.PexAddrs{}
			n := op.Int("n")
			// the address book draws from its own crypto-seeded PRNG once buckets overflow, and its
			// size decides whether outbound peers are asked for addresses (solicited or not): the
			// book is kept below that threshold (1000) so that runs stay reproducible
			if n > 900-s.pexAddrs {
				n = 900 - s.pexAddrs
			}
			if !dry && pm.live {
				s.pexAddrs += n
			}
			for i := 0; i < n; i++ {
				a := tmp2p.NetAddress{ID: fmt.Sprintf("%040x", 5000+r.Intn(100000)), IP: fmt.Sprintf("52.%d.%d.%d", r.Intn(250), r.Intn(250), 1+r.Intn(250)), Port: uint32(1000 + r.Intn(60000))}
				if i == n/2 {
					switch op.Str("bad") {
					case "ip":
						a.IP = "not-an-ip"
						must(s.chans[0x00] != nil, "address with an unparsable IP")
					case "port":
						a.Port = 70000
						must(s.chans[0x00] != nil, "address with port 70000")
					case "id":
						a.ID = "zz"
					case "self":
						a.ID = string(s.sw.NodeInfo().ID())
						a.IP = "127.0.0.1"
						a.Port = 36656
					case "private":
						a.IP = "10.0.0.7"
					}
				}
				m.Addrs = append(m.Addrs, a)
			}
			msg = m
		default:
			return nil
		}
	case "raw":
		switch k {
		case "bytes":
			hm.ch = s.chanFor(op.Int("chsel"))
			hm.bz = r.Bytes(op.Int("n"))
		case "empty":
			hm.ch = s.chanFor(op.Int("chsel"))
			hm.bz = []byte{}
		case "unknown_ch":
			hm.ch = byte(op.Int("chid"))
			if s.chans[hm.ch] != nil {
				hm.ch = 0x7e
			}
			hm.bz = r.Bytes(op.Int("n"))
			must(true, "message for a channel the node does not have")
		case "oversize":
			hm.ch = s.chanFor(op.Int("chsel"))
			hm.size = s.chans[hm.ch].desc.RecvMessageCapacity + op.Int("over")
			hm.bz = []byte{0x0a}
			must(true, "message larger than the channel's receive capacity")
		case "mut":
			base := op.Sub("base")
			if base == nil {
				return nil
			}
			b := s.buildHostileX(base, pm, dry)
			if b == nil {
				return nil
			}
			hm.ch = b.ch
			bz := append([]byte{}, b.bz...)
			if op.Has("cut") && len(bz) > 0 {
				bz = bz[:op.Int("cut")*len(bz)/1000]
			}
			fl := op.Ints("flips")
			for i := 0; i+1 < len(fl) && len(bz) > 0; i += 2 {
				bz[fl[i]*len(bz)/1000] ^= 1 << uint(fl[i+1]&7)
			}
			hm.bz = bz
			hm.adv, hm.vr = b.adv, b.vr
			hm.kind = "raw.mut:" + b.kind
			if len(bz) > s.capOf(hm.ch) {
				must(true, "message larger than the channel's receive capacity")
			}
		default:
			return nil
		}
		return hm
	default:
		return nil
	}
	hm.bz = encode(msg)
	if ci := s.chans[hm.ch]; ci == nil {
		must(true, "message for a channel the node does not have")
	} else if len(hm.bz) > ci.desc.RecvMessageCapacity {
		must(true, "message larger than the channel's receive capacity")
	}
	return hm
}

// syncing: block sync is what the node is doing (its pool asks peers for blocks).
func (s *sim) syncing() bool { return s.mode == "fastsync" && !s.consensusRunning() }

// advertiser: the peer the generator is producing a message for is the one hostile peer that
// may advertise blocks (Next only).
func (s *sim) advertiser() bool {
	lp := s.livePeers(true)
	return len(lp) > 0 && lp[0] == s.genPeer && !s.honestAdv
}

func detHash(parts ...interface{}) []byte {
	h := sha256.Sum256([]byte(fmt.Sprint(parts...)))
	return h[:]
}

// plainBlock is the well-formed block hostile peers serve for height h: a pure function of the
// node's state (header fields as the chain would have them, no transactions).
func (s *sim) plainBlock(h int64, lastCommit *types.Commit, lastID types.BlockID) *types.Block {
	return s.plainBlockAt(h, lastCommit, lastID, s.node.GenesisDoc().GenesisTime.Add(time.Duration(h)*time.Second))
}

func (s *sim) plainBlockAt(h int64, lastCommit *types.Commit, lastID types.BlockID, ts time.Time) *types.Block {
	st := s.conS.GetState()
	b := types.MakeBlock(h, nil, lastCommit, nil)
	b.Header.Populate(st.Version.Consensus, st.ChainID, ts, lastID, st.Validators.Hash(), st.NextValidators.Hash(),
		types.HashConsensusParams(st.ConsensusParams), st.AppHash, st.LastResultsHash, s.valKey.PubKey().Address())
	return b
}

// plainCommit: the commit for height h (naming block id) as a peer without the node's key can
// write it: validator 2 signs for the block, the node's entry is absent.
func (s *sim) plainCommit(h int64, id types.BlockID) *types.Commit {
	ts := s.node.GenesisDoc().GenesisTime.Add(time.Duration(h)*time.Second + time.Millisecond)
	sigs := make([]types.CommitSig, s.genVals.Size())
	for i := range sigs {
		sigs[i] = types.NewCommitSigAbsent()
	}
	v := s.val2Vote(tmproto.PrecommitType, h, 0, id, ts, s.val2Key, s.val2Key.PubKey().Address(), s.val2Idx)
	sigs[s.val2Idx] = types.CommitSig{BlockIDFlag: types.BlockIDFlagCommit, ValidatorAddress: v.ValidatorAddress, Timestamp: ts, Signature: v.Signature}
	return types.NewCommit(h, 0, id, sigs)
}

func (s *sim) blockIDOf(b *types.Block) types.BlockID {
	return types.BlockID{Hash: b.Hash(), PartSetHeader: b.MakePartSet(types.BlockPartSizeBytes).Header()}
}

// servedBlock is the (unmodified) block of height h of the hostile peers' chain: the stored block
// where the node has one, else plainBlock on top of servedBlock(h-1).
func (s *sim) servedBlock(h int64, depth int) (*types.Block, types.BlockID) {
	if h < 1 {
		return nil, types.BlockID{}
	}
	if h <= s.storeHeight() {
		if b := s.node.BlockStore().LoadBlock(h); b != nil {
			return b, s.blockIDOf(b)
		}
	}
	st := s.conS.GetState()
	var lc *types.Commit
	var lastID types.BlockID
	switch {
	case h <= st.InitialHeight:
		lc = types.NewCommit(0, 0, types.BlockID{}, nil)
	case h-1 <= s.storeHeight() && s.node.BlockStore().LoadSeenCommit(h-1) != nil:
		lc = s.node.BlockStore().LoadSeenCommit(h - 1)
		lastID = lc.BlockID
	case depth < 4:
		_, lastID = s.servedBlock(h-1, depth+1)
		lc = s.plainCommit(h-1, lastID)
	default:
		hh := detHash("far-parent", h)
		lastID = types.BlockID{Hash: hh, PartSetHeader: types.PartSetHeader{Total: 1, Hash: hh}}
		lc = s.plainCommit(h-1, lastID)
	}
	b := s.plainBlock(h, lc, lastID)
	return b, s.blockIDOf(b)
}

// honestBlock is the block the honest peer serves for height h while the node (at height 0)
// block-syncs: height 1 is the valid first block of the chain, height 2 carries the full commit
// for it (the honest network holds every validator's precommit, the node's own included).
func (s *sim) honestBlock(h int64) *types.Block {
	st := s.conS.GetState()
	if s.storeHeight() != 0 || st.LastBlockHeight != 0 {
		return nil
	}
	b1 := s.plainBlockAt(st.InitialHeight, types.NewCommit(0, 0, types.BlockID{}, nil), types.BlockID{}, st.LastBlockTime)
	switch h {
	case st.InitialHeight:
		return b1
	case st.InitialHeight + 1:
		id1 := s.blockIDOf(b1)
		ts := st.LastBlockTime.Add(time.Second)
		sigs := make([]types.CommitSig, s.genVals.Size())
		for i, key := range map[int32]crypto.PrivKey{s.nodeIdx: s.valKey, s.val2Idx: s.val2Key} {
			v := s.val2Vote(tmproto.PrecommitType, b1.Height, 0, id1, ts, key, key.PubKey().Address(), i)
			sigs[i] = types.CommitSig{BlockIDFlag: types.BlockIDFlagCommit, ValidatorAddress: v.ValidatorAddress, Timestamp: ts, Signature: v.Signature}
		}
		return s.plainBlockAt(h, types.NewCommit(b1.Height, 0, id1, sigs), id1, ts)
	}
	return nil
}

// hostileAdvertising: a connected hostile peer has advertised blocks to the pool.
func (s *sim) hostileAdvertising() bool {
	for _, idx := range s.order {
		if pm := s.peers[idx]; pm.hostile && pm.live && s.advertised[idx] {
			return true
		}
	}
	return false
}

// voteRounds is the structural oracle on the node's vote bookkeeping: beyond the rounds the
// state machine itself opened (0 .. its round+1) a height's vote set may hold at most two
// "catch-up" rounds per peer that sent votes for this height.
func (s *sim) voteRounds(ctx string) {
	if !s.consensusRunning() {
		return
	}
	rs := s.conS.GetRoundState()
	if rs.Votes == nil {
		return
	}
	if rs.Height != s.voteH {
		s.voteH, s.voteSenders, s.voteNamed = rs.Height, map[int]bool{}, map[int32]bool{}
	}
	// rounds beyond the state machine's own exist only as peers' catch-up rounds; the simulator
	// knows every round a vote it delivered has named
	own := int(rs.Votes.Round()) + 1
	extra := 0
	for r := range s.voteNamed {
		if r > rs.Votes.Round() && rs.Votes.Prevotes(r) != nil {
			extra++
		}
	}
	rounds := make([]struct{}, own+extra)
	bound := own + 2*len(s.voteSenders)
	if len(rounds) > s.maxRounds {
		s.maxRounds = len(rounds)
	}
	if extra > 0 {
		s.env.Count("probe.catchup_rounds_present")
	}
	if len(rounds) > bound {
		if s.env.Report("C17", "vote-rounds-unbounded", "%s: the node tracks %d rounds of votes at height %d although its own round is %d (%d rounds of its own) and only %d peer(s) sent votes for this height (2 catch-up rounds each): votes that were refused still left their round behind", ctx, len(rounds), rs.Height, rs.Round, own, len(s.voteSenders)) {
			panic(simStop{})
		}
		s.quarantineAll("vote-rounds")
	}
}

// chainBlock: the block a hostile peer sends for height h. "cflag": entries of its LastCommit get
// the block id flag of the spec.
func (s *sim) chainBlock(h int64, op simcore.Op) *types.Block {
	if h < 1 {
		h = 1
	}
	b, _ := s.servedBlock(h, 0)
	if op.Str("blk") != "cflag" || b.LastCommit == nil || len(b.LastCommit.Signatures) == 0 {
		return b
	}
	// a private copy of the commit with the hostile entries
	lc := b.LastCommit
	sigs := make([]types.CommitSig, len(lc.Signatures))
	copy(sigs, lc.Signatures)
	r := simcore.NewRNG(uint64(op.Int("seed"))*31 + 5)
	for i := range sigs {
		if fi := op.Int("fi"); fi != 2 && fi != i {
			continue
		}
		cs := types.CommitSig{BlockIDFlag: types.BlockIDFlag(op.Int("flag")), Timestamp: sigs[s.val2Idx].Timestamp}
		if op.Bool("fa") {
			cs.ValidatorAddress = s.genVals.Validators[i%s.genVals.Size()].Address
			cs.Signature = r.Bytes(64)
			if cs.Timestamp.IsZero() {
				cs.Timestamp = b.Time
			}
		}
		sigs[i] = cs
	}
	nlc := types.NewCommit(lc.Height, lc.Round, lc.BlockID, sigs)
	nb := s.plainBlock(h, nlc, b.LastBlockID)
	return nb
}

func (s *sim) capOf(ch byte) int {
	if ci := s.chans[ch]; ci != nil {
		return ci.desc.RecvMessageCapacity
	}
	return 0
}

// val2Vote signs a vote of validator 2.
func (s *sim) val2Vote(typ tmproto.SignedMsgType, h int64, r int32, bid types.BlockID, ts time.Time, key crypto.PrivKey, addr []byte, idx int32) *types.Vote {
	v := &types.Vote{Type: typ, Height: h, Round: r, BlockID: bid, Timestamp: ts, ValidatorAddress: addr, ValidatorIndex: idx}
	sg, err := key.Sign(types.VoteSignBytes(s.chainID, v.ToProto()))
	if err != nil {
		panic(err)
	}
	v.Signature = sg
	return v
}

// buildEvidence: one hostile evidence item about height eh.
func (s *sim) buildEvidence(kind string, eh int64, c nodeCtx, r *simcore.RNG, j int) (tmproto.Evidence, string) {
	if eh < 1 {
		eh = 1
	}
	if kind == "dve_h0" {
		eh = 0
	}
	if kind == "dve_future" {
		eh = c.H + 50
	}
	blockTime := time.Now().UTC()
	if m := s.node.BlockStore().LoadBlockMeta(eh); m != nil {
		blockTime = m.Header.Time
	}
	key, addr, idx := s.val2Key, []byte(s.val2Key.PubKey().Address()), s.val2Idx
	if kind == "dve_unknown" {
		key = ed25519FromSeed(r.Bytes(8))
		addr = key.PubKey().Address()
	}
	mk := func(tag string) types.BlockID {
		h := sha256.Sum256([]byte(fmt.Sprint(tag, eh, j, r.Intn(1000))))
		return types.BlockID{Hash: h[:], PartSetHeader: types.PartSetHeader{Total: 1, Hash: h[:]}}
	}
	round := int32(1 + r.Intn(3))
	va := s.val2Vote(tmproto.PrevoteType, eh, round, mk("a"), blockTime, key, addr, idx)
	vb := s.val2Vote(tmproto.PrevoteType, eh, round, mk("b"), blockTime, key, addr, idx)
	if va.BlockID.Key() > vb.BlockID.Key() {
		va, vb = vb, va
	}
	dve := &tmproto.DuplicateVoteEvidence{VoteA: va.ToProto(), VoteB: vb.ToProto(), TotalVotingPower: nodePower + val2Power, ValidatorPower: val2Power, Timestamp: blockTime}
	why := ""
	switch kind {
	case "dve_badsig":
		dve.VoteB.Signature = r.Bytes(64)
	case "dve_same":
		dve.VoteB = dve.VoteA
		why = "duplicate vote evidence whose two votes are the same vote"
	case "dve_nilvote":
		dve.VoteA = nil
		why = "duplicate vote evidence without a vote"
	case "dve_power":
		dve.TotalVotingPower = 1 << 40
	case "dve_time":
		dve.Timestamp = blockTime.Add(time.Hour)
	case "lca_nil":
		return tmproto.Evidence{Sum: &tmproto.Evidence_LightClientAttackEvidence{LightClientAttackEvidence: &tmproto.LightClientAttackEvidence{CommonHeight: eh}}}, "light client attack evidence without a conflicting block"
	case "lca_junk", "lca_flag":
		hdr := tmproto.Header{ChainID: s.chainID, Height: eh, Time: blockTime, ValidatorsHash: r.Bytes(32), ProposerAddress: addr}
		h := r.Bytes(32)
		lb := &tmproto.LightBlock{SignedHeader: &tmproto.SignedHeader{Header: &hdr, Commit: &tmproto.Commit{Height: eh, BlockID: tmproto.BlockID{Hash: h, PartSetHeader: tmproto.PartSetHeader{Total: 1, Hash: h}},
			Signatures: []tmproto.CommitSig{{BlockIdFlag: tmproto.BlockIDFlagCommit, ValidatorAddress: addr, Timestamp: blockTime, Signature: r.Bytes(64)}}}}}
		if vs, err := s.genVals.ToProto(); err == nil {
			lb.ValidatorSet = vs
		}
		lwhy := ""
		if kind == "lca_flag" {
			f := []tmproto.BlockIDFlag{0, 4, 255}[r.Intn(3)]
			lb.SignedHeader.Commit.Signatures[0].BlockIdFlag = f
			lwhy = fmt.Sprintf("commit signature entry with block id flag %d", f)
		}
		return tmproto.Evidence{Sum: &tmproto.Evidence_LightClientAttackEvidence{LightClientAttackEvidence: &tmproto.LightClientAttackEvidence{ConflictingBlock: lb, CommonHeight: eh - 1, TotalVotingPower: nodePower + val2Power, Timestamp: blockTime}}}, lwhy
	case "empty":
		return tmproto.Evidence{}, "evidence of no known kind"
	}
	return tmproto.Evidence{Sum: &tmproto.Evidence_DuplicateVoteEvidence{DuplicateVoteEvidence: dve}}, why
}

// ---------------------------------------------------------------- honest probes (oracle c)

func (s *sim) honestDeliver(m proto.Message, ch byte, what string) bool {
	pm := s.honest
	if !pm.live || pm.pending {
		return false
	}
	m0 := s.memBefore()
	ok := s.deliver(pm, ch, encode(m), "honest."+what)
	s.memAfter(m0, 0, 0, "honest."+what, pm)
	s.env.Count("op.honest." + what)
	if !ok {
		return false
	}
	if in, run := s.connected(pm); !in || !run {
		s.mu.Lock()
		reason := s.reasons[pm.idx]
		s.mu.Unlock()
		s.env.Fail("C17", "honest-peer-dropped:"+what, "the honest peer was disconnected after sending a valid %s: %s", what, reason)
	}
	return true
}

// honestOp: a valid message of the honest peer and the check that the node processed it.
func (s *sim) honestOp(op simcore.Op) bool {
	pm := s.honest
	if !pm.live || pm.pending {
		return false
	}
	c := s.ctx()
	switch op.Str("k") {
	case "status":
		n0 := pm.sp.count("*blockchain.StatusResponse")
		if !s.honestDeliver(&bcproto.StatusRequest{}, 0x40, "status") {
			return true
		}
		resp, _ := pm.sp.lastOf("*blockchain.StatusResponse").(*bcproto.StatusResponse)
		if pm.sp.count("*blockchain.StatusResponse") != n0+1 || resp == nil || resp.Height != s.storeHeight() {
			s.env.Fail("C17", "wedged-blockchain-reactor", "an honest status request was not answered with the store height %d (answers %d -> %d, last %v)", s.storeHeight(), n0, pm.sp.count("*blockchain.StatusResponse"), resp)
		}
	case "tx":
		mp := s.node.Mempool()
		if mp.Size() >= s.config.Mempool.Size || mp.SizeBytes()+64 > s.config.Mempool.MaxTxsBytes {
			return false
		}
		s.txSeq++
		tx := []byte(fmt.Sprintf("hon%d=%d", s.txSeq, op.Int("x")))
		if !s.honestDeliver(&protomem.Txs{Txs: [][]byte{tx}}, 0x30, "tx") {
			return true
		}
		found := false
		for _, t := range mp.ReapMaxTxs(-1) {
			if bytes.Equal(t, tx) {
				found = true
			}
		}
		if !found {
			s.env.Fail("C17", "wedged-mempool-reactor", "a valid transaction from the honest peer did not reach the mempool (size %d of %d)", mp.Size(), s.config.Mempool.Size)
		}
	case "nrs":
		lcr := int32(-1)
		if c.H > c.initial {
			lcr = 0
			if rs := s.conS.GetRoundState(); rs.LastCommit != nil && rs.LastCommit.GetRound() >= 0 {
				lcr = rs.LastCommit.GetRound()
			}
		}
		step := uint32(s.conS.GetRoundState().Step)
		if step < 1 || step > 8 {
			step = 1
		}
		if !s.honestDeliver(&tmcons.NewRoundStep{Height: c.H, Round: c.R, Step: step, LastCommitRound: lcr}, 0x20, "nrs") {
			return true
		}
		ps, _ := pm.sp.Get(types.PeerStateKey).(interface{ GetHeight() int64 })
		if ps == nil || ps.GetHeight() < c.H {
			s.env.Fail("C17", "wedged-consensus-reactor", "the honest peer's round step for height %d was not applied to its peer state", c.H)
		}
	case "vote":
		if !s.consensusRunning() {
			return false
		}
		typ := tmproto.PrevoteType
		if op.Int("x")%3 == 0 {
			typ = tmproto.PrecommitType
		}
		bid := types.BlockID{}
		if op.Int("x")%2 == 0 && !c.prop.IsZero() {
			bid = c.prop
		}
		key := voteKey(c.H, c.R, typ)
		if prev, ok := s.val2Sig[key]; ok && prev != bid.Key() {
			return false // validator 2 already signed something else for this step
		}
		v := s.val2Vote(typ, c.H, c.R, bid, time.Now().UTC(), s.val2Key, s.val2Key.PubKey().Address(), s.val2Idx)
		s.val2Sig[key] = bid.Key()
		if !s.honestDeliver(&tmcons.Vote{Vote: v.ToProto()}, 0x22, "vote") {
			return true
		}
		rs := s.conS.GetRoundState()
		if rs.Height != c.H {
			return true // the node moved on in the same instant
		}
		var got *types.Vote
		if typ == tmproto.PrevoteType {
			if vs := rs.Votes.Prevotes(c.R); vs != nil {
				got = vs.GetByIndex(s.val2Idx)
			}
		} else if vs := rs.Votes.Precommits(c.R); vs != nil {
			got = vs.GetByIndex(s.val2Idx)
		}
		if got == nil {
			s.env.Fail("C17", "wedged-consensus-state", "a valid %v of validator 2 for %d/%d from the honest peer is not in the node's vote set", typ, c.H, c.R)
		}
		s.env.Count("probe.honest_vote_accepted")
	case "evid":
		if !s.consensusRunning() {
			return false
		}
		eh := s.storeHeight() - 1
		for eh >= 1 && s.evDone[eh] {
			eh--
		}
		if eh < 1 {
			return false
		}
		meta := s.node.BlockStore().LoadBlockMeta(eh)
		if meta == nil {
			return false
		}
		s.evDone[eh] = true
		mk := func(tag string) types.BlockID {
			h := sha256.Sum256([]byte(fmt.Sprint("honest", tag, eh)))
			return types.BlockID{Hash: h[:], PartSetHeader: types.PartSetHeader{Total: 1, Hash: h[:]}}
		}
		addr := s.val2Key.PubKey().Address()
		va := s.val2Vote(tmproto.PrecommitType, eh, 7, mk("a"), meta.Header.Time, s.val2Key, addr, s.val2Idx)
		vb := s.val2Vote(tmproto.PrecommitType, eh, 7, mk("b"), meta.Header.Time, s.val2Key, addr, s.val2Idx)
		ev := types.NewDuplicateVoteEvidence(va, vb, meta.Header.Time, s.genVals)
		pev, err := types.EvidenceToProto(ev)
		if err != nil {
			panic(err)
		}
		if !s.honestDeliver(&tmproto.EvidenceList{Evidence: []tmproto.Evidence{*pev}}, 0x38, "evid") {
			return true
		}
		pend, _ := s.evpool.PendingEvidence(-1)
		found := false
		for _, p := range pend {
			if bytes.Equal(p.Hash(), ev.Hash()) {
				found = true
			}
		}
		if !found {
			s.env.Fail("C17", "wedged-evidence-reactor", "valid duplicate-vote evidence for height %d from the honest peer is not pending in the evidence pool", eh)
		}
		s.env.Count("probe.honest_evidence_accepted")
	case "hstatus":
		// the honest peer has the first two blocks of the chain
		if !s.syncing() || s.storeHeight() != 0 || s.honestAdv || s.hostileAdvertising() {
			return false
		}
		st := s.conS.GetState()
		s.honestAdv = true
		if !s.honestDeliver(&bcproto.StatusResponse{Base: st.InitialHeight, Height: st.InitialHeight + 1}, 0x40, "hstatus") {
			return true
		}
	case "hblock":
		// answer the oldest block request the node sent to the honest peer
		h, ok := pm.sp.popReq()
		if !ok {
			return false
		}
		var m proto.Message = &bcproto.NoBlockResponse{Height: h}
		if b := s.honestBlock(h); b != nil && s.syncing() {
			pb, err := b.ToProto()
			if err != nil {
				panic(err)
			}
			m = &bcproto.BlockResponse{Block: pb}
			s.env.Count("probe.honest_block_served")
		}
		if !s.honestDeliver(m, 0x40, "hblock") {
			return true
		}
	case "snapreq":
		n0 := pm.sp.count("*statesync.SnapshotsResponse")
		if !s.honestDeliver(&ssproto.SnapshotsRequest{}, 0x60, "snapreq") {
			return true
		}
		if got := pm.sp.count("*statesync.SnapshotsResponse") - n0; got != len(served) {
			s.env.Fail("C17", "wedged-statesync-reactor", "an honest snapshots request was answered with %d snapshots, the application lists %d", got, len(served))
		}
	case "chunkreq":
		sn := served[op.Int("x")%len(served)]
		ci := uint32(op.Int("x")/7) % sn.chunks
		n0 := pm.sp.count("*statesync.ChunkResponse")
		if !s.honestDeliver(&ssproto.ChunkRequest{Height: sn.h, Format: sn.format, Index: ci}, 0x61, "chunkreq") {
			return true
		}
		resp, _ := pm.sp.lastOf("*statesync.ChunkResponse").(*ssproto.ChunkResponse)
		if pm.sp.count("*statesync.ChunkResponse") != n0+1 || resp == nil || !bytes.Equal(resp.Chunk, chunkBytes(sn.h, sn.format, ci)) {
			s.env.Fail("C17", "wedged-statesync-reactor", "an honest chunk request (%d/%d/%d) was not answered with the chunk", sn.h, sn.format, ci)
		}
	case "pexreq":
		if s.chans[0x00] == nil {
			return false
		}
		if s.pexCount >= 2 && time.Since(s.lastPex) < 35*time.Second {
			return false // an honest peer respects the request interval
		}
		s.pexCount++
		s.lastPex = time.Now()
		n0 := pm.sp.count("*p2p.PexAddrs")
		if !s.honestDeliver(&tmp2p.PexRequest{}, 0x00, "pexreq") {
			return true
		}
		if pm.sp.count("*p2p.PexAddrs") != n0+1 {
			s.env.Fail("C17", "wedged-pex-reactor", "an honest address request was not answered")
		}
	default:
		return false
	}
	return true
}

// ---------------------------------------------------------------- end of run

func (s *sim) finalChecks() {
	e := s.env
	// 1. the hostile peers leave; nothing of theirs may stay behind
	for _, idx := range s.order {
		pm := s.peers[idx]
		if in, run := s.connected(pm); pm.hostile && pm.live && !pm.pending && in && run {
			pm.left = true
			s.sw.StopPeerGracefully(pm.sp)
		}
	}
	e.Settle()
	s.observePeers("final")
	m0 := s.memBefore()
	leftAt := time.Now()
	wait := 2*s.config.Consensus.PeerGossipSleepDuration + 150*time.Millisecond
	muteWait := time.Duration(0)
	for _, idx := range s.order {
		if s.peers[idx].sp.mute {
			// a routine may sit in a send to a peer that never drains its queue for the
			// connection's send timeout (10s)
			muteWait = 10 * time.Second
			break
		}
	}
	h0 := s.storeHeight()
	s.sleep(wait)
	s.memAfter(m0, 0, wait, "final-wait", nil)
	s.afterTick()
	s.checkFailures("final")
	s.observePeers("final")
	for _, idx := range s.order {
		pm := s.peers[idx]
		if pm.pending && time.Since(pm.pendAt) > 5*time.Second {
			e.Fail("C17", "receive-wedged", "a %s delivered by peer %d never returned from the reactor (%v of simulated time)", pm.pendKind, idx, time.Since(pm.pendAt))
		}
	}
	// 2. the honest peer answers what it is still being asked for
	for i := 0; i < 8 && s.honest.live && !s.honest.pending && s.honest.sp.pendingReqs() > 0; i++ {
		s.honestOp(simcore.Op{"k": "hblock"})
		s.checkFailures("final-hblock")
	}
	s.voteRounds("final")
	// 3. honest traffic is still processed by every reactor
	if s.honest.live && !s.honest.pending {
		for i, k := range []string{"status", "tx", "nrs", "snapreq", "chunkreq", "pexreq", "vote", "evid"} {
			s.honestOp(simcore.Op{"k": k, "x": 6 + i})
			s.checkFailures("final-" + k)
		}
	}
	// 4. the node makes progress
	switch {
	case s.mode == "fastsync" && !s.consensusRunning():
		// an honest peer at the node's own height: block sync must hand over to consensus
		s.honestDeliver(&bcproto.StatusResponse{Base: 0, Height: s.storeHeight()}, 0x40, "statusresp")
		for i := 0; i < 40 && !s.consensusRunning(); i++ {
			s.sleep(500*time.Millisecond + 13*time.Microsecond)
		}
		s.checkFailures("final-handover")
		if !s.consensusRunning() {
			e.Fail("C17", "wedged-block-sync", "20s after every hostile peer was removed and an honest peer reported the node's own height %d, block sync has not handed over to consensus: the node stays in fast-sync mode for good", s.storeHeight())
			return // (a listed finding) nothing more to learn from this run
		}
		e.Count("probe.handover_after_hostile_sync")
		h0 = s.storeHeight()
		fallthrough
	case s.consensusRunning():
		bound := 40 * (s.config.Consensus.TimeoutCommit + s.config.Consensus.TimeoutPropose + 2*s.config.Consensus.TimeoutPrevote)
		t := time.Now()
		for s.storeHeight() <= h0 && time.Since(t) < bound {
			s.sleep(s.config.Consensus.TimeoutCommit)
		}
		s.checkFailures("final-progress")
		if s.storeHeight() <= h0 {
			rs := s.conS.GetRoundState()
			e.Fail("C17", "no-progress-after-hostile-input", "the node did not commit a block within %v after the hostile phase: store height %d, consensus at %d/%d/%v", bound+wait, s.storeHeight(), rs.Height, rs.Round, rs.Step)
		}
		e.Count("probe.progress_after_hostile_input")
	case s.mode == "statesync":
		// the sync loop must still be alive and responsive: it ends when told to abort
		e.Count("probe.statesync_run")
	}
	// 5. goroutine census: per-peer routines exist only for connected peers. queryMaj23Routine
	// may sleep five times per iteration before it looks at the peer again.
	if need := 5*s.config.Consensus.PeerQueryMaj23SleepDuration + 2*s.config.Consensus.PeerGossipSleepDuration + 200*time.Millisecond + muteWait; time.Since(leftAt) < need {
		s.sleep(need - time.Since(leftAt))
		s.checkFailures("final-census")
	}
	wait = time.Since(leftAt)
	live := 0
	muteLive := 0
	for _, idx := range s.order {
		if s.peers[idx].live {
			live++
			if s.peers[idx].sp.mute {
				muteLive++
			}
		}
	}
	cen, sample := census()
	for _, k := range []string{"gossipDataRoutine", "gossipVotesRoutine", "queryMaj23Routine", "broadcastTxRoutine", "broadcastEvidenceRoutine"} {
		if cen[k] > live {
			e.Fail("C17", "goroutine-stuck-for-removed-peer", "%d %s goroutines are still alive %v after all but %d peers were removed, e.g.\n%s", cen[k], k, wait, live, firstLines(sample[k], 14))
		}
	}
	e.Count("probe.census")
	// 6. nothing substantial stays buffered on behalf of peers that are gone
	s.checkRetained()
	// 7. stop consensus; the WAL it leaves must be readable (the node can restart)
	if s.consensusRunning() {
		s.checkWAL()
	}
}

// checkRetained: after the hostile peers left (and a collection) the heap may have grown by the
// node's own history only.
func (s *sim) checkRetained() {
	collect()
	var m runtime.MemStats
	runtime.ReadMemStats(&m)
	grown := int64(m.HeapAlloc) - int64(s.memBase.HeapAlloc)
	const bound = 64 << 20
	if grown > bound/2 {
		s.env.Count("probe.retained_over_half_bound")
	}
	if grown > bound {
		sig := "retained-memory"
		if s.lastBig != "" {
			sig += ":after-" + s.lastBig
		}
		s.env.Report("C17", sig, "after every hostile peer was removed the node's heap is %d MiB larger than before the first peer joined (bound %d MiB); last message with an attacker-chosen large size: %s", grown>>20, bound>>20, s.lastBigDesc)
	}
}

func firstLines(s string, n int) string {
	out := 0
	for i := range s {
		if s[i] == '\n' {
			out++
			if out >= n {
				return s[:i]
			}
		}
	}
	return s
}

// checkWAL stops the consensus reactor and decodes the WAL it wrote: a record that cannot be
// decoded would keep the node from starting again.
func (s *sim) checkWAL() {
	func() {
		defer func() { recover() }()
		s.conR.Stop()
	}()
	s.env.Settle()
	err := decodeWAL(s.config.Consensus.WalFile())
	if err != nil {
		s.env.Fail("C17", "wal-poisoned", "after the hostile phase the node's consensus WAL cannot be decoded (a restart would fail): %v", err)
	}
	s.env.Count("probe.wal_decoded")
}

var _ = abci.CodeTypeOK
