// Package reactorsim: deterministic simulation of ONE real node's reactors (consensus,
// mempool v0/v1, evidence, blockchain v0, state sync, PEX) fed by simulated hostile and honest
// peers. Decides the second sentence of C17 for the reactors: hostile input (random bytes,
// unknown channels, oversized, undecodable, well-formed-but-hostile protocol messages in any
// peer state) results at worst in that peer being disconnected - it never crashes or wedges
// the node and never makes it allocate far more than the channel's configured capacity.
//
// The node is built by the real node.NewNode (never Start()ed: no sockets); the reactors are
// started individually. Peers are simulator objects implementing p2p.Peer. A delivery
// replicates p2p/peer.go's onReceive (reactor lookup by channel, proto unmarshal into the
// channel's message type, unwrap, ReceiveEnvelope) on a per-peer receive goroutine inside the
// same recover that MConnection.recvRoutine has (panic => StopPeerForError).
//
// One stimulus = one delivery / one join / one leave / one clock advance; then Settle.
package reactorsim

import (
	"bytes"
	"encoding/json"
	"flag"
	"fmt"
	"io"
	"net"
	"os"
	"path/filepath"
	"regexp"
	"runtime"
	"sort"
	"strings"
	"sync"
	"testing"
	"time"

	"github.com/gogo/protobuf/proto"

	abci "github.com/tendermint/tendermint/abci/types"
	cfg "github.com/tendermint/tendermint/config"
	cs "github.com/tendermint/tendermint/consensus"
	"github.com/tendermint/tendermint/crypto"
	"github.com/tendermint/tendermint/crypto/ed25519"
	"github.com/tendermint/tendermint/evidence"
	"github.com/tendermint/tendermint/libs/bits"
	"github.com/tendermint/tendermint/libs/log"
	"github.com/tendermint/tendermint/libs/service"
	nd "github.com/tendermint/tendermint/node"
	"github.com/tendermint/tendermint/p2p"
	tmconn "github.com/tendermint/tendermint/p2p/conn"
	"github.com/tendermint/tendermint/privval"
	bcproto "github.com/tendermint/tendermint/proto/tendermint/blockchain"
	tmcons "github.com/tendermint/tendermint/proto/tendermint/consensus"
	protomem "github.com/tendermint/tendermint/proto/tendermint/mempool"
	tmp2p "github.com/tendermint/tendermint/proto/tendermint/p2p"
	ssproto "github.com/tendermint/tendermint/proto/tendermint/statesync"
	tmproto "github.com/tendermint/tendermint/proto/tendermint/types"
	"github.com/tendermint/tendermint/statesync"
	"github.com/tendermint/tendermint/types"
	dbm "github.com/tendermint/tm-db"

	"verif/simapp"
	"verif/simcore"
)

// A forced collection is requested from a goroutine outside every bubble (runtime.GC called
// from inside a bubble has been seen to hang in "wait for GC cycle"). The channels are created
// outside the bubbles, so blocking on them is not "durable": the fake clock stands still.
var (
	gcReq  = make(chan struct{})
	gcResp = make(chan struct{})
)

func gcServer() {
	for range gcReq {
		runtime.GC()
		gcResp <- struct{}{}
	}
}

func collect() {
	gcReq <- struct{}{}
	<-gcResp
}

func TestMain(m *testing.M) {
	simcore.InitProcess()
	go gcServer()
	profStart()
	if os.Getenv("GOMAXPROCS") == "" {
		// one bubble runs at a time and at most one chain of goroutines is runnable in it:
		// more Ps only add cross-thread wake-ups (the runner parallelises across workers)
		runtime.GOMAXPROCS(1)
	}
	os.Exit(m.Run())
}

func TestSim(t *testing.T) { simcore.Main(t, harness) }

var harness = &simcore.Harness{
	Name:   "reactorsim",
	Props:  []string{"C17"},
	Config: genConfig,
	New:    newSim,
	MaxOps:     400,
	RunTimeout: 60 * time.Second,
	Real: []string{
		"node.NewNode (real wiring of every reactor over MemDB stores, real FilePV, real WAL file on tmpfs, handshake with the recording application); node.Start is never called",
		"consensus.Reactor + consensus.State (receiveRoutine, timeout ticker, WAL, per-peer gossipData/gossipVotes/queryMaj23 routines, peerStatsRoutine, updateRoundStateRoutine) on the bubble's fake clock; consensus.MsgFromProto / ValidateBasic of every message",
		"mempool v0 and v1 reactors + pools (CheckTx through the local ABCI client), evidence.Reactor + evidence.Pool (verification against the real state/block stores), blockchain/v0 reactor (+ BlockPool and poolRoutine in fast-sync mode), statesync.Reactor (+ syncer, snapshot pool, chunk queue in state-sync mode), p2p/pex Reactor + AddrBook (Receive/AddPeer/RemovePeer only)",
		"p2p.Switch (never started): peer set, StopPeerForError / stopAndRemovePeer / StopPeerGracefully, BroadcastEnvelope, reactor table",
		"dispatch of a received message exactly as p2p/peer.go createMConnection.onReceive does (channel lookup, proto.Unmarshal into the channel's MessageType, Unwrap, ReceiveEnvelope) inside the recover of MConnection.recvRoutine (=> Switch.StopPeerForError)",
	},
	Stub: []string{
		"peers: simulator objects implementing p2p.Peer (+ EnvelopeSender); no MConnection / SecretConnection / transport (mconnsim, secconnsim cover those); a message larger than the channel's RecvMessageCapacity is turned into the connection error MConnection raises, without reaching the reactor",
		"PEX reactor is registered and receives, but is not started (its ensurePeersRoutine would dial real sockets)",
		"application: recording app; the snapshot connection is scripted (lists 2 snapshots, serves their chunks, accepts offered snapshots)",
		"state sync state provider: stub returning fixed app hash / state / commit",
		"validator 2 (power 3 of 10) is held by the simulator: it signs honest probe votes / evidence and, through hostile peers, validly signed hostile proposals and votes",
	},
	Assumptions: []string{
		"a panic inside Receive on the peer's receive goroutine is 'peer dropped' (MConnection._recover); a panic anywhere else is a crash. A crash in a goroutine the node spawned itself kills the worker process (exit 2, seed printed): such crashes are predicted one step ahead by probing the peer state the hostile message left behind with the same BitArray operations the gossip routines perform (sig gossip-crash-*); likewise a block response that passed the blockchain reactor's validation is run through the calls poolRoutine makes on a pooled block (Hash, MakePartSet, VerifyCommit of its LastCommit) before the pool's next tick (sig bc-pool-crash:*)",
		"allocation oracle: bytes allocated by the process during one stimulus (runtime.MemStats.TotalAlloc) may exceed a generous budget (24 MiB + 16x message size + 32 MiB per simulated second) only by attacker-chosen amounts; attacker-chosen sizes are capped at 2^24 so that the largest induced allocation stays around 128 MiB",
		"event order inside the node (per-peer gossip goroutines waking at the same fake instant) is not owned by the simulator; the event log contains only the simulator's own actions and the oracle only facts that hold at quiescence",
	},
}

// ---------------------------------------------------------------- configuration

var families = []string{"cons", "mem", "evid", "bc", "ss", "pex", "raw"}

func genConfig(rng *simcore.RNG, env *simcore.Env) simcore.Op {
	c := simcore.Op{}
	c["mode"] = []string{"live", "fastsync", "statesync"}[rng.Weighted([]int{62, 23, 15})]
	c["mempool"] = []string{"v0", "v1"}[rng.Intn(2)]
	c["npeers"] = rng.Range(1, 3)
	c["nops"] = rng.Range(30, 160)
	if env.Thorough() {
		c["nops"] = rng.Range(60, 380)
	}
	c["gossip_ms"] = []int{10, 30, 100}[rng.Intn(3)]
	c["maj23_ms"] = []int{50, 150, 400}[rng.Intn(3)]
	c["commit_ms"] = []int{50, 120, 250}[rng.Intn(3)]
	c["pex"] = rng.Bool(0.7)
	c["max_tx"] = []int{512, 4096, 65536}[rng.Intn(3)]
	c["mp_size"] = []int{5, 50, 500}[rng.Intn(3)]
	c["big"] = []int{14, 18, 20, 22, 24}[rng.Intn(5)] // log2 of the "large but not absurd" attacker-chosen sizes
	var fam []string
	for _, f := range families {
		if rng.Bool(0.55) || (f == "cons" && rng.Bool(0.7)) {
			fam = append(fam, f)
		}
	}
	if len(fam) == 0 {
		fam = append(fam, families[rng.Intn(len(families))])
	}
	c["fam"] = fam
	c["byz"] = rng.Bool(0.6)   // hostile messages validly signed by validator 2
	c["late"] = rng.Bool(0.5)  // deliveries for peers that were already removed
	c["mute"] = rng.Bool(0.08) // a peer whose send queue is always full
	c["tick"] = []int{15, 30, 50}[rng.Intn(3)]
	return c
}

// ---------------------------------------------------------------- logger

type simLogger struct{ s *sim }

var debugLog = os.Getenv("REACTORSIM_DEBUG")

func kvs(kv []interface{}) string {
	var sb strings.Builder
	for i := 0; i+1 < len(kv); i += 2 {
		if k, _ := kv[i].(string); k == "stack" {
			continue
		}
		fmt.Fprintf(&sb, " %v=%v", kv[i], kv[i+1])
	}
	return sb.String()
}

func (l simLogger) Debug(msg string, kv ...interface{}) {
	if debugLog == "2" {
		fmt.Fprintln(os.Stderr, "D", msg, kvs(kv))
	}
}
func (l simLogger) Info(msg string, kv ...interface{}) {
	if debugLog != "" {
		fmt.Fprintln(os.Stderr, "I", msg, kvs(kv))
	}
}
func (l simLogger) Error(msg string, kv ...interface{}) {
	if debugLog != "" {
		fmt.Fprintln(os.Stderr, "E", msg, kvs(kv))
	}
	if strings.HasPrefix(msg, "CONSENSUS FAILURE") || strings.Contains(strings.ToLower(msg), "panic") {
		e, st := "", ""
		for i := 0; i+1 < len(kv); i += 2 {
			switch k, _ := kv[i].(string); k {
			case "err":
				e = fmt.Sprint(kv[i+1])
			case "stack":
				st = fmt.Sprint(kv[i+1])
			}
		}
		l.s.mu.Lock()
		l.s.failures = append(l.s.failures, msg+" "+e+"\n"+st)
		l.s.mu.Unlock()
	}
}
func (l simLogger) With(...interface{}) log.Logger { return l }

// ---------------------------------------------------------------- scripted snapshot connection

// snapApp is the application as seen through the node's connections: the recording app, with
// the snapshot methods scripted.
type snapApp struct {
	abci.Application
	s *sim
}

type snapInfo struct {
	h      uint64
	format uint32
	chunks uint32
	hash   []byte
}

var served = []snapInfo{{h: 3, format: 1, chunks: 3, hash: []byte("snapshot-three-hash-0123456789ab")}, {h: 5, format: 1, chunks: 2, hash: []byte("snapshot-five-hash-0123456789abc")}}

func chunkBytes(h uint64, format, idx uint32) []byte {
	return bytes.Repeat([]byte{byte(h), byte(format), byte(idx), 0x5a}, 64)
}

func (a *snapApp) ListSnapshots(abci.RequestListSnapshots) abci.ResponseListSnapshots {
	var r abci.ResponseListSnapshots
	for _, sn := range served {
		r.Snapshots = append(r.Snapshots, &abci.Snapshot{Height: sn.h, Format: sn.format, Chunks: sn.chunks, Hash: sn.hash})
	}
	return r
}

func (a *snapApp) LoadSnapshotChunk(req abci.RequestLoadSnapshotChunk) abci.ResponseLoadSnapshotChunk {
	for _, sn := range served {
		if sn.h == req.Height && sn.format == req.Format && req.Chunk < sn.chunks {
			return abci.ResponseLoadSnapshotChunk{Chunk: chunkBytes(req.Height, req.Format, req.Chunk)}
		}
	}
	return abci.ResponseLoadSnapshotChunk{}
}

func (a *snapApp) OfferSnapshot(req abci.RequestOfferSnapshot) abci.ResponseOfferSnapshot {
	a.s.mu.Lock()
	abort := a.s.abortSync
	a.s.offered++
	a.s.mu.Unlock()
	if abort {
		return abci.ResponseOfferSnapshot{Result: abci.ResponseOfferSnapshot_ABORT}
	}
	if req.Snapshot != nil && req.Snapshot.Format > 3 {
		return abci.ResponseOfferSnapshot{Result: abci.ResponseOfferSnapshot_REJECT_FORMAT}
	}
	return abci.ResponseOfferSnapshot{Result: abci.ResponseOfferSnapshot_ACCEPT}
}

func (a *snapApp) ApplySnapshotChunk(req abci.RequestApplySnapshotChunk) abci.ResponseApplySnapshotChunk {
	a.s.mu.Lock()
	abort := a.s.abortSync
	a.s.applied++
	a.s.mu.Unlock()
	if abort {
		return abci.ResponseApplySnapshotChunk{Result: abci.ResponseApplySnapshotChunk_ABORT}
	}
	if len(req.Chunk) > 0 && req.Chunk[0] == 0xee {
		return abci.ResponseApplySnapshotChunk{Result: abci.ResponseApplySnapshotChunk_REJECT_SNAPSHOT}
	}
	return abci.ResponseApplySnapshotChunk{Result: abci.ResponseApplySnapshotChunk_ACCEPT}
}

// stubProvider is the state provider of the simulated state sync.
type stubProvider struct{ s *sim }

// ---------------------------------------------------------------- simulated peers

type sentRec struct {
	ch  byte
	msg proto.Message
}

type recvItem struct {
	ch   byte
	bz   []byte
	size int // > 0: the message's size on the wire (its bytes are not materialised)
}

type simPeer struct {
	*service.BaseService
	s     *sim
	idx   int
	id    p2p.ID
	addr  *p2p.NetAddress
	out   bool
	mute  bool
	chans []byte

	mu     sync.Mutex
	kv     map[string]interface{}
	nsent  int
	byType map[string]int
	last   map[string]proto.Message
	reqs   []int64 // block requests the node sent to this peer, not yet answered

	inbox chan recvItem
	done  int // deliveries completed (written by the receive goroutine, read at quiescence)
}

func (s *sim) newSimPeer(idx int, out, mute bool) *simPeer {
	id := p2p.ID(fmt.Sprintf("%040x", idx+1))
	ip := net.IPv4(45, 33, byte(idx>>8), byte(idx+1))
	addr := p2p.NewNetAddressIPPort(ip, 26656)
	addr.ID = id
	sp := &simPeer{s: s, idx: idx, id: id, addr: addr, out: out, mute: mute, kv: map[string]interface{}{},
		byType: map[string]int{}, last: map[string]proto.Message{}, inbox: make(chan recvItem, 1)}
	for ch := range s.chans {
		sp.chans = append(sp.chans, ch)
	}
	sort.Slice(sp.chans, func(i, j int) bool { return sp.chans[i] < sp.chans[j] })
	sp.BaseService = service.NewBaseService(nil, "simPeer", sp)
	return sp
}

func (p *simPeer) FlushStop()           { _ = p.Stop() }
func (p *simPeer) ID() p2p.ID           { return p.id }
func (p *simPeer) RemoteIP() net.IP     { return p.addr.IP }
func (p *simPeer) RemoteAddr() net.Addr { return &net.TCPAddr{IP: p.addr.IP, Port: 26656} }
func (p *simPeer) IsOutbound() bool     { return p.out }
func (p *simPeer) IsPersistent() bool   { return false }
func (p *simPeer) CloseConn() error     { return nil }
func (p *simPeer) NodeInfo() p2p.NodeInfo {
	return p2p.DefaultNodeInfo{ProtocolVersion: p2p.NewProtocolVersion(8, 11, 1), DefaultNodeID: p.id, ListenAddr: p.addr.DialString(),
		Network: p.s.chainID, Version: "0.34.24", Channels: p.chans, Moniker: "simpeer"}
}
func (p *simPeer) Status() tmconn.ConnectionStatus { return tmconn.ConnectionStatus{} }
func (p *simPeer) SocketAddr() *p2p.NetAddress     { return p.addr }
func (p *simPeer) SetRemovalFailed()               {}
func (p *simPeer) GetRemovalFailed() bool          { return false }
func (p *simPeer) Set(k string, v interface{})     { p.mu.Lock(); p.kv[k] = v; p.mu.Unlock() }
func (p *simPeer) Get(k string) interface{}        { p.mu.Lock(); defer p.mu.Unlock(); return p.kv[k] }

func (p *simPeer) record(ch byte, m proto.Message) {
	t := fmt.Sprintf("%T", m)
	p.mu.Lock()
	p.nsent++
	p.byType[t]++
	p.last[t] = m
	if br, ok := m.(*bcproto.BlockRequest); ok {
		p.reqs = append(p.reqs, br.Height)
	}
	p.mu.Unlock()
}

// popReq takes the outstanding block request for the lowest height the node sent to this peer.
func (p *simPeer) popReq() (int64, bool) {
	p.mu.Lock()
	defer p.mu.Unlock()
	if len(p.reqs) == 0 {
		return 0, false
	}
	// the lowest height asked for: several requesters send at the same fake instant, the order
	// in which their requests arrive is not the simulator's
	k := 0
	for i, h := range p.reqs {
		if h < p.reqs[k] {
			k = i
		}
	}
	h := p.reqs[k]
	p.reqs = append(p.reqs[:k], p.reqs[k+1:]...)
	return h, true
}

func (p *simPeer) pendingReqs() int {
	p.mu.Lock()
	defer p.mu.Unlock()
	return len(p.reqs)
}

// Send blocks for the connection's send timeout when the peer never drains its queue.
func (p *simPeer) SendEnvelope(e p2p.Envelope) bool {
	if !p.IsRunning() {
		return false
	}
	if p.mute {
		time.Sleep(10 * time.Second) // defaultSendTimeout of MConnection.Send
		return false
	}
	p.record(e.ChannelID, e.Message)
	return true
}
func (p *simPeer) TrySendEnvelope(e p2p.Envelope) bool {
	if !p.IsRunning() || p.mute {
		return false
	}
	p.record(e.ChannelID, e.Message)
	return true
}
func (p *simPeer) Send(ch byte, bz []byte) bool {
	if !p.IsRunning() {
		return false
	}
	if p.mute {
		time.Sleep(10 * time.Second)
		return false
	}
	p.record(ch, nil)
	return true
}
func (p *simPeer) TrySend(ch byte, bz []byte) bool {
	if !p.IsRunning() || p.mute {
		return false
	}
	p.record(ch, nil)
	return true
}

func (p *simPeer) count(t string) int {
	p.mu.Lock()
	defer p.mu.Unlock()
	return p.byType[t]
}

func (p *simPeer) lastOf(t string) proto.Message {
	p.mu.Lock()
	defer p.mu.Unlock()
	return p.last[t]
}

// recorder is an extra reactor without channels: it learns every peer removal and its reason.
type recorder struct {
	p2p.BaseReactor
	s *sim
}

func (r *recorder) RemovePeer(peer p2p.Peer, reason interface{}) {
	sp, ok := peer.(*simPeer)
	if !ok {
		return
	}
	r.s.mu.Lock()
	r.s.removed[sp.idx]++
	r.s.reasons[sp.idx] = fmt.Sprint(reason)
	r.s.mu.Unlock()
}

// ---------------------------------------------------------------- the simulation

type chanInfo struct {
	name    string
	reactor p2p.Reactor
	desc    *p2p.ChannelDescriptor
}

type peerM struct {
	idx      int
	sp       *simPeer
	hostile  bool
	live     bool // believed connected (no removal observed yet)
	gone     bool // removal observed
	left     bool // removed by the simulator (graceful)
	pending  bool // a delivery has not returned from the reactor yet
	pendAt   time.Time
	pendKind string
	lastCh   byte
	lastBz   []byte
	lastSize int
	lastAdv  bool
	lastVr   int32
	lastKind string
	nrs      bool // sent a NewRoundStep that the reactor accepted
	deliv    int
}

type sim struct {
	env  *simcore.Env
	cfg  simcore.Op
	mode string
	root string

	app      *simapp.RecApp
	node     *nd.Node
	sw       *p2p.Switch
	conR     *cs.Reactor
	conS     *cs.State
	evpool   *evidence.Pool
	ssR      *statesync.Reactor
	rec      *recorder
	names    []string // reactor names in a fixed order
	chans    map[byte]*chanInfo
	chainID  string
	valKey   crypto.PrivKey // the node's validator key
	val2Key  crypto.PrivKey // validator 2, held by the simulator
	val2Idx  int32
	nodeIdx  int32
	genVals  *types.ValidatorSet
	config   *cfg.Config
	t0       time.Time
	budget   time.Duration
	syncDone chan struct{}
	syncErr  error

	mu        sync.Mutex
	failures  []string
	removed   map[int]int
	reasons   map[int]string
	abortSync bool
	offered   int
	applied   int
	crash     string

	peers    map[int]*peerM
	order    []int // peer indices in join order
	nextIdx  int
	honest   *peerM
	opsLeft  int
	txSeq    int
	val2Sig  map[string]string // height/round/type -> block id key validator 2 has signed
	evDone   map[int64]bool
	lastPex  time.Time
	pexCount int
	pexAddrs int // addresses hostile peers have offered so far
	lastBig     string // kind of the last delivered hostile message that carried a large size
	lastBigDesc string
	closed   bool
	dead     bool // a known finding ended the useful part of the run
	switched bool // fast sync handed over to consensus
	quar     int

	trace     []simcore.Op
	tracePath string

	// generator memo (Next only): the last "own" part set validator 2 proposed
	ownSeedMemo int
	ownNpMemo   int
	ownDataMemo string
	genPeer     int // the peer the generator is producing a message for

	script      []simcore.Op // ops the generator has queued (Next only)
	scripted    bool
	advertised  map[int]bool // hostile peers that advertised blocks to the pool
	honestAdv   bool         // the honest peer advertised its two blocks
	voteH       int64        // height the vote senders below belong to
	voteSenders map[int]bool // peers that sent votes for that height
	voteNamed   map[int32]bool // rounds named by those votes
	maxRounds   int

	memBase runtime.MemStats
}

// the node alone holds more than 2/3 of the power (it commits on its own); validator 2 holds
// less than 1/3 and is the proposer of about 3 rounds in 10
const (
	nodePower = 7
	val2Power = 3
)

func newSim(env *simcore.Env, c simcore.Op) simcore.Sim {
	s := &sim{env: env, cfg: c, mode: c.Str("mode"), peers: map[int]*peerM{}, removed: map[int]int{}, reasons: map[int]string{},
		val2Sig: map[string]string{}, evDone: map[int64]bool{}, opsLeft: c.Int("nops"), advertised: map[int]bool{}, voteSenders: map[int]bool{}, voteNamed: map[int32]bool{}}
	if s.mode == "" {
		s.mode = "live"
	}
	s.root = filepath.Join(env.MkScratch(), "node")
	os.MkdirAll(filepath.Join(s.root, "config"), 0o700)
	os.MkdirAll(filepath.Join(s.root, "data"), 0o700)
	s.valKey = ed25519.GenPrivKeyFromSecret([]byte("reactorsim-node-validator"))
	s.val2Key = ed25519.GenPrivKeyFromSecret([]byte("reactorsim-validator-two"))
	s.chainID = "reactorsim-chain"
	s.buildNode()
	s.t0 = time.Now()
	s.budget = 2500 * time.Millisecond
	switch s.mode {
	case "fastsync":
		s.budget = 5 * time.Second
	case "statesync":
		s.budget = 14 * time.Second
	}
	// every action of the simulator happens off the 100us grid of the consensus reactor's
	// round-state ticker
	time.Sleep(37 * time.Microsecond)
	env.Settle()
	s.honest = s.join(0, false, false, false, nil)
	collect()
	runtime.ReadMemStats(&s.memBase)
	return s
}

func (s *sim) nodeConfig() *cfg.Config {
	c := cfg.TestConfig()
	c.SetRoot(s.root)
	c.Consensus.WalPath = filepath.Join("data", "cs.wal", "wal")
	c.Consensus.SkipTimeoutCommit = false
	c.Consensus.CreateEmptyBlocks = true
	c.Consensus.DoubleSignCheckHeight = 0
	us := func(ms int, extra int) time.Duration {
		return time.Duration(ms)*time.Millisecond + time.Duration(extra)*time.Nanosecond
	}
	cm := s.cfg.Int("commit_ms")
	if cm <= 0 {
		cm = 40
	}
	// odd nanosecond parts keep the state machine's timers off the 100us ticker grid
	c.Consensus.TimeoutPropose = us(2*cm, 13370)
	c.Consensus.TimeoutProposeDelta = us(5, 1310)
	c.Consensus.TimeoutPrevote = us(cm/2+1, 7110)
	c.Consensus.TimeoutPrevoteDelta = us(5, 1730)
	c.Consensus.TimeoutPrecommit = us(cm/2+1, 9190)
	c.Consensus.TimeoutPrecommitDelta = us(5, 2110)
	c.Consensus.TimeoutCommit = us(cm, 17770)
	g := s.cfg.Int("gossip_ms")
	if g <= 0 {
		g = 100
	}
	c.Consensus.PeerGossipSleepDuration = us(g, 3330)
	q := s.cfg.Int("maj23_ms")
	if q <= 0 {
		q = 2000
	}
	c.Consensus.PeerQueryMaj23SleepDuration = us(q, 5550)
	c.Mempool.Version = s.cfg.Str("mempool")
	if c.Mempool.Version == "" {
		c.Mempool.Version = "v0"
	}
	c.Mempool.Size = s.cfg.Int("mp_size")
	if c.Mempool.Size <= 0 {
		c.Mempool.Size = 50
	}
	c.Mempool.CacheSize = 200
	c.Mempool.MaxTxBytes = s.cfg.Int("max_tx")
	if c.Mempool.MaxTxBytes <= 0 {
		c.Mempool.MaxTxBytes = 4096
	}
	c.Mempool.MaxTxsBytes = int64(c.Mempool.MaxTxBytes) * 64
	c.TxIndex.Indexer = "null"
	c.P2P.PexReactor = s.cfg.Bool("pex")
	c.P2P.AddrBookStrict = true
	c.P2P.ListenAddress = "tcp://127.0.0.1:36656"
	c.StateSync.Enable = s.mode == "statesync"
	c.StateSync.TempDir = s.root
	c.StateSync.DiscoveryTime = 5 * time.Second
	c.StateSync.ChunkRequestTimeout = 3*time.Second + 7*time.Microsecond
	c.StateSync.ChunkFetchers = 2
	c.FastSyncMode = s.mode == "fastsync"
	c.BaseConfig.DBBackend = "memdb"
	c.Instrumentation.Prometheus = false
	c.RPC.ListenAddress = ""
	return c
}

func (s *sim) buildNode() {
	s.config = s.nodeConfig()
	s.app = simapp.NewRecApp(8)
	keyFile := filepath.Join(s.root, "config", "priv_validator_key.json")
	stateFile := filepath.Join(s.root, "data", "priv_validator_state.json")
	pv := privval.NewFilePV(s.valKey, keyFile, stateFile)
	pv.Save()
	gen := &types.GenesisDoc{
		ChainID:         s.chainID,
		GenesisTime:     time.Now().Add(-time.Second).UTC(),
		InitialHeight:   1,
		ConsensusParams: types.DefaultConsensusParams(),
		Validators: []types.GenesisValidator{
			{Address: s.valKey.PubKey().Address(), PubKey: s.valKey.PubKey(), Power: nodePower, Name: "node"},
			{Address: s.val2Key.PubKey().Address(), PubKey: s.val2Key.PubKey(), Power: val2Power, Name: "val2"},
		},
	}
	var vals []*types.Validator
	for _, gv := range gen.Validators {
		vals = append(vals, types.NewValidator(gv.PubKey, gv.Power))
	}
	s.genVals = types.NewValidatorSet(vals)
	i, _ := s.genVals.GetByAddress(s.val2Key.PubKey().Address())
	s.val2Idx = i
	j, _ := s.genVals.GetByAddress(s.valKey.PubKey().Address())
	s.nodeIdx = j
	nodeKey := &p2p.NodeKey{PrivKey: ed25519.GenPrivKeyFromSecret([]byte("reactorsim-nodekey"))}
	dbp := func(*nd.DBContext) (dbm.DB, error) { return dbm.NewMemDB(), nil }
	genp := func() (*types.GenesisDoc, error) { return gen, nil }
	node, err := nd.NewNode(s.config, pv, nodeKey, newCreator(s), genp, dbp, nd.DefaultMetricsProvider(s.config.Instrumentation), simLogger{s})
	if err != nil {
		panic("NewNode: " + err.Error())
	}
	s.node = node
	s.sw = node.Switch()
	s.conR = node.ConsensusReactor()
	s.conS = node.ConsensusState()
	s.evpool = node.EvidencePool()
	s.ssR, _ = s.sw.Reactor("STATESYNC").(*statesync.Reactor)
	s.rec = &recorder{s: s}
	s.rec.BaseReactor = *p2p.NewBaseReactor("recorder", s.rec)
	s.sw.AddReactor("RECORDER", s.rec)
	for _, n := range []string{"MEMPOOL", "BLOCKCHAIN", "CONSENSUS", "EVIDENCE", "STATESYNC", "PEX", "RECORDER"} {
		if s.sw.Reactor(n) != nil {
			s.names = append(s.names, n)
		}
	}
	s.chans = map[byte]*chanInfo{}
	for _, n := range s.names {
		r := s.sw.Reactor(n)
		for _, d := range r.GetChannels() {
			s.chans[d.ID] = &chanInfo{name: n, reactor: r, desc: d}
		}
	}
	// start what is socket-free: every reactor except PEX (its routine dials)
	for _, n := range s.names {
		if n == "PEX" {
			continue
		}
		if err := s.sw.Reactor(n).Start(); err != nil {
			panic("start " + n + ": " + err.Error())
		}
	}
	s.env.Settle()
	if s.mode == "statesync" {
		s.syncDone = make(chan struct{})
		go func() {
			defer close(s.syncDone)
			_, _, err := s.ssR.Sync(&stubProvider{s}, s.config.StateSync.DiscoveryTime)
			s.mu.Lock()
			s.syncErr = err
			s.mu.Unlock()
		}()
		s.env.Settle()
	}
}

// ---------------------------------------------------------------- peers: join, leave, dispatch

func (s *sim) join(idx int, hostile, out, mute bool, order []int) *peerM {
	if _, ok := s.peers[idx]; ok {
		return nil
	}
	sp := s.newSimPeer(idx, out, mute)
	pm := &peerM{idx: idx, sp: sp, hostile: hostile, live: true}
	s.peers[idx] = pm
	s.order = append(s.order, idx)
	if idx >= s.nextIdx {
		s.nextIdx = idx + 1
	}
	names := s.names
	if len(order) == len(s.names) {
		names = make([]string, 0, len(order))
		seen := map[int]bool{}
		for _, k := range order {
			if k >= 0 && k < len(s.names) && !seen[k] {
				seen[k] = true
				names = append(names, s.names[k])
			}
		}
		if len(names) != len(s.names) {
			names = s.names
		}
	}
	// what Switch.addPeer does (the switch iterates its reactor map: any order)
	var p p2p.Peer = sp
	for _, n := range names {
		p = s.sw.Reactor(n).InitPeer(p)
	}
	if err := sp.Start(); err != nil {
		panic(err)
	}
	go s.recvRoutine(sp)
	p2p.AddPeerToSwitchPeerSet(s.sw, sp)
	for _, n := range names {
		s.sw.Reactor(n).AddPeer(sp)
	}
	s.env.Settle()
	return pm
}

// recvRoutine is the peer's receive goroutine (MConnection.recvRoutine).
func (s *sim) recvRoutine(sp *simPeer) {
	for it := range sp.inbox {
		s.dispatch(sp, it.ch, it.bz, it.size)
		sp.mu.Lock()
		sp.done++
		sp.mu.Unlock()
	}
}

// dispatch is p2p/peer.go's onReceive inside MConnection's recover.
func (s *sim) dispatch(sp *simPeer, chID byte, bz []byte, size int) {
	defer func() {
		// a panic while tearing the peer down is outside any recover in production
		if r := recover(); r != nil {
			s.mu.Lock()
			if s.crash == "" {
				s.crash = fmt.Sprintf("panic while stopping peer %d after a receive error: %v", sp.idx, r)
			}
			s.mu.Unlock()
		}
	}()
	func() {
		defer func() {
			if r := recover(); r != nil {
				s.env.Count("probe.receive_panic_recovered")
				s.sw.StopPeerForError(sp, fmt.Errorf("recovered from panic: %v", r))
			}
		}()
		ci := s.chans[chID]
		if ci == nil {
			panic(fmt.Sprintf("Unknown channel %X", chID))
		}
		if size < len(bz) {
			size = len(bz)
		}
		if size > ci.desc.RecvMessageCapacity {
			// MConnection.recvPacketMsg refuses it before the reactor sees anything
			s.sw.StopPeerForError(sp, fmt.Errorf("received message exceeds available capacity: %v < %v", ci.desc.RecvMessageCapacity, size))
			return
		}
		msg := proto.Clone(ci.desc.MessageType)
		if err := proto.Unmarshal(bz, msg); err != nil {
			panic(fmt.Errorf("unmarshaling message: %s into type: %T", err, ci.desc.MessageType))
		}
		if w, ok := msg.(p2p.Unwrapper); ok {
			var err error
			msg, err = w.Unwrap()
			if err != nil {
				panic(fmt.Errorf("unwrapping message: %s", err))
			}
		}
		if nr, ok := ci.reactor.(p2p.EnvelopeReceiver); ok {
			nr.ReceiveEnvelope(p2p.Envelope{ChannelID: chID, Src: sp, Message: msg})
		} else {
			ci.reactor.Receive(chID, sp, bz)
		}
	}()
}

// deliver hands one message to the peer's receive goroutine and settles. It reports whether
// the reactor call returned.
func (s *sim) deliver(pm *peerM, ch byte, bz []byte, kind string) bool {
	return s.deliverSized(pm, ch, bz, 0, kind)
}

func (s *sim) deliverSized(pm *peerM, ch byte, bz []byte, size int, kind string) bool {
	pm.pending = true
	pm.pendAt = time.Now()
	pm.pendKind = kind
	pm.lastCh, pm.lastBz, pm.lastSize, pm.lastKind = ch, bz, size, kind
	pm.deliv++
	before := pm.sp.doneCount()
	pm.sp.inbox <- recvItem{ch, bz, size}
	s.env.Settle()
	if pm.sp.doneCount() > before {
		pm.pending = false
		return true
	}
	s.env.Count("probe.receive_blocked")
	return false
}

func (p *simPeer) doneCount() int {
	p.mu.Lock()
	defer p.mu.Unlock()
	return p.done
}

func encode(m proto.Message) []byte {
	if w, ok := m.(p2p.Wrapper); ok {
		m = w.Wrap()
	}
	bz, err := proto.Marshal(m)
	if err != nil {
		panic(err)
	}
	return bz
}

// connected reports the peer's position: in the switch's peer set and running.
func (s *sim) connected(pm *peerM) (inSet, running bool) {
	return s.sw.Peers().Has(pm.sp.id), pm.sp.IsRunning()
}

// observePeers is oracle (b): every peer is either connected or completely gone.
func (s *sim) observePeers(ctx string) {
	for _, idx := range s.order {
		pm := s.peers[idx]
		inSet, running := s.connected(pm)
		s.mu.Lock()
		nrem := s.removed[idx]
		reason := s.reasons[idx]
		s.mu.Unlock()
		switch {
		case inSet && running:
			if nrem > 0 && pm.live {
				s.env.Fail("C17", "peer-limbo", "%s: reactors were told that peer %d was removed (%s) but it is still in the peer set and running", ctx, idx, reason)
			}
		case !inSet && !running:
			if pm.live {
				pm.live, pm.gone = false, true
				s.env.Count("probe.peer_dropped")
				if pm.hostile && !pm.left {
					s.env.Count("fault.hostile_peer_dropped")
				}
			}
			if nrem != 1 {
				s.env.Fail("C17", "peer-limbo", "%s: peer %d is gone but RemovePeer was called %d times", ctx, idx, nrem)
			}
		default:
			if pm.pending {
				// the receive goroutine is parked inside the reactor; the teardown may be in progress
				continue
			}
			s.env.Fail("C17", "peer-limbo", "%s: peer %d is neither connected nor removed: in peer set=%v running=%v removals=%d (%s)", ctx, idx, inSet, running, nrem, reason)
		}
	}
}

// checkFailures is oracle (a): nothing outside a peer's receive call may have panicked.
func (s *sim) checkFailures(ctx string) {
	s.mu.Lock()
	f := append([]string{}, s.failures...)
	crash := s.crash
	s.mu.Unlock()
	if crash != "" {
		s.env.Fail("C17", "crash-in-peer-teardown", "%s: %s", ctx, crash)
	}
	if len(f) > 0 {
		first := f[0]
		line := first
		if i := strings.IndexByte(line, '\n'); i > 0 {
			line = line[:i]
		}
		s.mu.Lock()
		s.failures = nil
		s.mu.Unlock()
		sig := "consensus-failure:" + slug(strings.TrimPrefix(line, "CONSENSUS FAILURE!!!"))
		if s.env.Report("C17", sig, "%s: the node's consensus routine died: %s\n%s", ctx, line, trimStack(first)) {
			panic(simStop{})
		}
		// known finding: consensus is dead, nothing further can be learnt from this run
		s.dead = true
		panic(simStop{})
	}
}


type simStop struct{}

var reSlug = regexp.MustCompile(`[^a-zA-Z]+`)

// slug turns a panic message into a stable signature part (no numbers, no addresses).
func slug(m string) string {
	m = strings.Trim(reSlug.ReplaceAllString(m, "-"), "-")
	if len(m) > 48 {
		m = m[:48]
	}
	return m
}

func trimStack(s string) string {
	lines := strings.Split(s, "\n")
	var out []string
	for _, l := range lines {
		if strings.Contains(l, "tendermint/") && !strings.Contains(l, "debug.Stack") {
			out = append(out, strings.TrimSpace(l))
		}
		if len(out) >= 10 {
			break
		}
	}
	return strings.Join(out, " | ")
}

// ---------------------------------------------------------------- memory oracle

const allocBase = 24 << 20

type memMark struct {
	alloc uint64
	at    time.Time
}

func (s *sim) memBefore() memMark {
	var m runtime.MemStats
	runtime.ReadMemStats(&m)
	return memMark{m.TotalAlloc, time.Now()}
}

// memAfter is oracle (d) for one stimulus.
func (s *sim) memAfter(mark memMark, msgLen int, _ time.Duration, ctx string, pm *peerM) {
	var m runtime.MemStats
	runtime.ReadMemStats(&m)
	d := m.TotalAlloc - mark.alloc
	simDur := time.Since(mark.at)
	budget := uint64(allocBase) + 16*uint64(msgLen) + uint64(simDur.Seconds()*float64(32<<20))
	if d > uint64(s.env.Stat("max.alloc_per_op")) {
		s.env.Add("max.alloc_per_op", int64(d)-s.env.Stat("max.alloc_per_op"))
	}
	if d > budget/4 {
		tag := "nobig"
		if s.lastBig != "" {
			tag = "big"
		}
		s.env.Count("probe.alloc_over_quarter_budget." + tag)
		if d > budget/2 {
			s.env.Count("probe.alloc_over_half_budget." + tag)
		}
	}
	if d <= budget {
		return
	}
	who := "?"
	if pm != nil {
		who = fmt.Sprint(pm.idx)
	}
	kind := ctx
	if i := strings.IndexByte(kind, ' '); i > 0 {
		kind = kind[:i]
	}
	if s.lastBig != "" && !strings.HasPrefix(kind, "cons.") && !strings.HasPrefix(kind, "ss.") {
		kind = "after-" + s.lastBig
		ctx += " (last message with an attacker-chosen large size: " + s.lastBigDesc + ")"
	}
	if !s.env.Report("C17", "alloc-amplification:"+kind, "%s (peer %s): the node allocated %d MiB during this stimulus (message of %d bytes, %v simulated); budget %d MiB", ctx, who, d>>20, msgLen, simDur, budget>>20) {
		s.quarantineAll("alloc-amplification")
		return
	}
	panic(simStop{})
}

// quarantineAll disconnects every hostile peer (used after a known finding fired so that the
// run can continue without the poisoned state).
func (s *sim) quarantineAll(why string) {
	for _, idx := range s.order {
		pm := s.peers[idx]
		if in, run := s.connected(pm); pm.hostile && pm.live && !pm.pending && in && run {
			pm.left = true
			s.sw.StopPeerGracefully(pm.sp)
			s.quar++
		}
	}
	s.env.Settle()
	s.env.Count("probe.quarantine")
	s.observePeers("quarantine")
}

// ---------------------------------------------------------------- gossip crash prediction

func cloneBA(b *bits.BitArray) *bits.BitArray {
	if b == nil {
		return nil
	}
	return &bits.BitArray{Bits: b.Bits, Elems: append([]uint64(nil), b.Elems...)}
}

func tryPanic(f func()) (msg string) {
	defer func() {
		if r := recover(); r != nil {
			msg = fmt.Sprint(r)
		}
	}()
	f()
	return ""
}

// probeGossip inspects the state a peer's messages left in its consensus PeerState with the
// operations the reactor's gossip routines apply to it on their next wake-up - outside any
// recover, so a panic there ends the process. It runs while those routines are asleep.
func (s *sim) probeGossip(ctx string) {
	if os.Getenv("REACTORSIM_NOPROBE") != "" {
		return // demonstration mode: let the node's own goroutine reach the poisoned state
	}
	rs := s.conS.GetRoundState()
	nvals := 0
	if rs.Validators != nil {
		nvals = rs.Validators.Size()
	}
	for _, idx := range s.order {
		pm := s.peers[idx]
		if !pm.live {
			continue
		}
		ps, ok := pm.sp.Get(types.PeerStateKey).(*cs.PeerState)
		if !ok || ps == nil {
			continue
		}
		prs := ps.GetRoundState()
		type arr struct {
			name string
			ba   *bits.BitArray
			n    int
		}
		nparts := 1
		if rs.ProposalBlockParts != nil {
			nparts = int(rs.ProposalBlockParts.Total())
		}
		if prs.ProposalBlockParts != nil && prs.ProposalBlockParts.Size() > 0 && prs.ProposalBlockParts.Size() < 4096 && prs.ProposalBlockParts.Size() > nparts {
			nparts = prs.ProposalBlockParts.Size()
		}
		arrs := []arr{{"ProposalBlockParts", prs.ProposalBlockParts, nparts}, {"ProposalPOL", prs.ProposalPOL, nvals}, {"Prevotes", prs.Prevotes, nvals},
			{"Precommits", prs.Precommits, nvals}, {"LastCommit", prs.LastCommit, nvals}, {"CatchupCommit", prs.CatchupCommit, nvals}}
		for _, a := range arrs {
			if a.ba == nil {
				continue
			}
			if a.ba.Size() > 1<<26 || len(a.ba.Elems) > 1<<20 {
				continue // the allocation oracle owns absurd sizes; do not copy them here
			}
			on := a.n
			if on > 2048 {
				on = 2048
			}
			own := bits.NewBitArray(on)
			what, at := "", -1
			msg := tryPanic(func() {
				c := cloneBA(a.ba)
				what = "Copy"
				_ = c.Copy()
				what = "Sub(own).PickRandom"
				if own != nil {
					_, _ = own.Not().Sub(c).PickRandom()
				}
				if a.name == "ProposalBlockParts" {
					what = "Not().PickRandom"
					_, _ = c.Not().PickRandom()
				}
				n := a.n
				if n > 2048 {
					n = 2048
				}
				what = "SetIndex"
				for i := 0; i < n; i++ {
					at = i
					c.SetIndex(i, true)
				}
			})
			if msg == "" {
				continue
			}
			if at >= 0 {
				what = fmt.Sprintf("%s(%d)", what, at)
			}
			s.env.Count("probe.gossip_crash_predicted")
			detail := fmt.Sprintf("%s: peer %d's PeerState.%s is BitArray{Bits:%d, len(Elems):%d} after its last message (%s); %s on it panics (%s). The consensus reactor's gossip routines perform this call outside any recover (gossipDataRoutine/gossipVotesRoutine -> PeerState.SetHas*/PickSendVote/BitArray.PickRandom): the node process would crash",
				ctx, idx, a.name, a.ba.Bits, len(a.ba.Elems), pm.lastKind, what, msg)
			if s.env.Report("C17", "gossip-crash-"+a.name, "%s", detail) {
				// the real goroutine must not reach it: it would take the worker down
				s.sw.StopPeerGracefully(pm.sp)
				s.env.Settle()
				panic(simStop{})
			}
			pm.left = true
			s.sw.StopPeerGracefully(pm.sp)
			s.env.Settle()
			s.quar++
			break
		}
	}
	if s.quar > 0 {
		s.observePeers(ctx + "/quarantine")
	}
}

// ---------------------------------------------------------------- goroutine census

var reRoutine = regexp.MustCompile(`consensus\.\(\*Reactor\)\.(gossipDataRoutine|gossipVotesRoutine|queryMaj23Routine)|\(\*Reactor\)\.(broadcastTxRoutine|broadcastEvidenceRoutine)`)

// census counts, per kind, the per-peer goroutines of the reactors inside this bubble.
func census() (map[string]int, map[string]string) {
	buf := make([]byte, 1<<22)
	n := runtime.Stack(buf, true)
	gs := strings.Split(string(buf[:n]), "\n\n")
	mine := ""
	if len(gs) > 0 {
		if i := strings.Index(gs[0], "synctest bubble "); i >= 0 {
			rest := gs[0][i+len("synctest bubble "):]
			j := 0
			for j < len(rest) && rest[j] >= '0' && rest[j] <= '9' {
				j++
			}
			mine = "synctest bubble " + rest[:j]
		}
	}
	out := map[string]int{}
	sample := map[string]string{}
	for _, g := range gs {
		first := g
		if i := strings.IndexByte(first, '\n'); i > 0 {
			first = first[:i]
		}
		if mine != "" && !strings.Contains(first, mine+"]") && !strings.Contains(first, mine+",") {
			continue
		}
		if m := reRoutine.FindStringSubmatch(g); m != nil {
			k := m[1]
			if k == "" {
				k = m[2]
			}
			out[k]++
			sample[k] = g
		}
	}
	return out, sample
}

// ---------------------------------------------------------------- crash trace

// noteTrace keeps the trace of the current run on disk (replay-file format): if a goroutine of
// the node panics the worker process dies, and this file is what is left to replay.
func (s *sim) noteTrace(op simcore.Op) {
	if f := flag.Lookup("sim.replay"); f != nil && f.Value.String() != "" {
		return
	}
	if s.tracePath == "" {
		dir := "/dev/shm"
		if f := flag.Lookup("sim.replaydir"); f != nil && f.Value.String() != "" {
			dir = f.Value.String()
		}
		os.MkdirAll(dir, 0o755)
		s.tracePath = filepath.Join(dir, fmt.Sprintf("CRASHED-reactorsim-%d.json", s.env.Seed))
	}
	s.trace = append(s.trace, op)
	rf := simcore.ReplayFile{Harness: "reactorsim", Property: "C17", Tier: s.env.Tier, BatchSeed: s.env.BatchSeed, RunIndex: s.env.RunIndex,
		Seed: fmt.Sprint(s.env.Seed), Cfg: s.cfg, Ops: s.trace, OrigOps: len(s.trace),
		Notes: []string{"trace of a run whose worker process died (a goroutine of the node panicked or the run hung): the last op is the one being applied"}}
	if b, err := json.Marshal(rf); err == nil {
		os.WriteFile(s.tracePath, b, 0o644)
	}
}

// ---------------------------------------------------------------- node state helpers

func (s *sim) consensusRunning() bool { return s.conS.IsRunning() }

func (s *sim) elapsed() time.Duration { return time.Since(s.t0) }

func (s *sim) storeHeight() int64 { return s.node.BlockStore().Height() }

// sleep advances the fake clock; the simulator never rests on the 100us ticker grid.
func (s *sim) sleep(d time.Duration) {
	time.Sleep(d)
	s.env.Settle()
}

func (s *sim) livePeers(hostile bool) []int {
	var out []int
	for _, idx := range s.order {
		pm := s.peers[idx]
		if pm.live && !pm.pending && pm.hostile == hostile {
			out = append(out, idx)
		}
	}
	return out
}

func (s *sim) gonePeers() []int {
	var out []int
	for _, idx := range s.order {
		pm := s.peers[idx]
		if !pm.live && pm.hostile && !pm.pending {
			out = append(out, idx)
		}
	}
	return out
}

// ---------------------------------------------------------------- op generation

func (s *sim) Next(rng *simcore.RNG) simcore.Op {
	if s.opsLeft <= 0 || s.closed || s.dead {
		return nil
	}
	if s.elapsed() > s.budget {
		return nil
	}
	s.opsLeft--
	if len(s.script) > 0 {
		op := s.script[0]
		s.script = s.script[1:]
		return op
	}
	if lp := s.livePeers(true); s.syncing() && s.storeHeight() == 0 && !s.honestAdv && !s.scripted && len(lp) > 0 && s.honest.live && rng.Bool(0.06) {
		// the "late answer" pattern: a peer is asked for blocks and removed before it answers, no
		// other peer is there; its answer arrives; then an honest peer joins the sync and answers
		// exactly what it is asked
		only := true
		for _, idx := range lp {
			if s.advertised[idx] && idx != lp[0] {
				only = false
			}
		}
		if only {
			s.scripted = true
			a := lp[0]
			t := func() simcore.Op { return simcore.Op{"a": "tick", "us": []int{10000, 30000, 100000}[rng.Intn(3)] + rng.Intn(90)} }
			s.script = []simcore.Op{
				t(),
				{"a": "leave", "p": a},
				{"a": "x", "p": a, "late": true, "f": "bc", "k": "bresp", "blk": "chain", "bh": "next", "h": "cur", "seed": rng.Intn(1 << 30)},
				{"a": "hon", "k": "hstatus", "x": rng.Intn(1 << 20)},
				t(),
				{"a": "hon", "k": "hblock"},
				{"a": "hon", "k": "hblock"},
				t(),
			}
			return simcore.Op{"a": "x", "p": a, "f": "bc", "k": "sresp", "base": "0", "h": "cur+5", "seed": rng.Intn(1 << 30)}
		}
	}
	if s.honest.live && !s.honest.pending && s.honest.sp.pendingReqs() > 0 && rng.Bool(0.6) {
		// an honest peer answers block requests promptly
		return simcore.Op{"a": "hon", "k": "hblock"}
	}
	hostile := s.livePeers(true)
	gone := s.gonePeers()
	if debugLog == "3" {
		rs := s.conS.GetRoundState()
		fmt.Fprintf(os.Stderr, "NEXT t=%v live=%v gone=%v hrs=%d/%d/%d store=%d\n", s.elapsed(), hostile, gone, rs.Height, rs.Round, rs.Step, s.storeHeight())
	}
	w := make([]int, 8)
	if len(hostile) < s.cfg.Int("npeers") && s.nextIdx < 12 {
		w[0] = 10
		if len(hostile) == 0 {
			w[0] = 60
		}
	}
	if len(hostile) > 0 {
		w[1] = 60
		w[2] = 5
		w[4] = 2
	}
	if len(gone) > 0 && s.cfg.Bool("late") {
		w[3] = 5
	}
	if s.honest.live && !s.honest.pending {
		w[5] = 12
	}
	w[6] = s.cfg.Int("tick")
	switch rng.Weighted(w) {
	case 0:
		op := simcore.Op{"a": "join", "p": s.nextIdx, "out": rng.Bool(0.4), "order": rng.Perm(len(s.names))}
		if s.cfg.Bool("mute") && rng.Bool(0.3) {
			op["mute"] = true
		}
		return op
	case 1:
		pm := s.peers[hostile[rng.Intn(len(hostile))]]
		s.genPeer = pm.idx
		op := s.genHostile(rng)
		if rng.Bool(0.6) {
			// prefer messages that do not get their sender dropped on the spot: peer state builds up
			for try := 0; try < 3; try++ {
				if h := s.buildHostileX(op, pm, true); h != nil && h.must == "" {
					break
				}
				op = s.genHostile(rng)
			}
		}
		op["a"] = "x"
		op["p"] = pm.idx
		return op
	case 2:
		return simcore.Op{"a": "dup", "p": hostile[rng.Intn(len(hostile))], "n": rng.Range(1, 3)}
	case 3:
		s.genPeer = -1
		op := s.genHostile(rng)
		g := gone[rng.Intn(len(gone))]
		if s.syncing() && s.advertised[g] && rng.Bool(0.5) {
			// the answer of a peer that was asked for a block and removed before it arrived
			op = simcore.Op{"f": "bc", "k": "bresp", "blk": "chain", "bh": "next", "h": "cur", "seed": rng.Intn(1 << 30)}
		}
		op["a"] = "x"
		op["p"] = g
		op["late"] = true
		return op
	case 4:
		return simcore.Op{"a": "leave", "p": hostile[rng.Intn(len(hostile))]}
	case 5:
		ks := []string{"status", "tx", "nrs", "snapreq", "chunkreq"}
		if s.syncing() && s.storeHeight() == 0 && !s.honestAdv && !s.hostileAdvertising() {
			ks = append(ks, "hstatus", "hstatus", "hstatus")
		}
		if s.consensusRunning() {
			ks = append(ks, "vote", "vote", "evid", "nrs")
		}
		if s.cfg.Bool("pex") {
			ks = append(ks, "pexreq")
		}
		op := simcore.Op{"a": "hon", "k": ks[rng.Intn(len(ks))], "x": rng.Intn(1 << 20)}
		return op
	default:
		us := []int{300, 1000, 3000, 10000, 30000, 100000, 300000}[rng.Weighted([]int{2, 3, 4, 5, 5, 4, 2})]
		if s.mode == "fastsync" && !s.consensusRunning() && rng.Bool(0.3) {
			us = []int{500000, 1100000}[rng.Intn(2)]
		}
		if s.mode == "statesync" && rng.Bool(0.4) {
			us = []int{1000000, 2500000}[rng.Intn(2)]
		}
		return simcore.Op{"a": "tick", "us": us + rng.Intn(90)}
	}
}

// ---------------------------------------------------------------- apply

func (s *sim) Apply(op simcore.Op) (ok bool) {
	if s.closed || s.dead {
		return false
	}
	s.noteTrace(op)
	defer func() {
		if r := recover(); r != nil {
			if _, is := r.(simStop); is {
				// a violation was recorded by Report on the driver goroutine
				ok = true
				return
			}
			panic(r)
		}
	}()
	e := s.env
	switch op.Kind() {
	case "join":
		idx := op.Int("p")
		if _, dup := s.peers[idx]; dup || idx <= 0 || idx > 64 {
			return false
		}
		m0 := s.memBefore()
		s.join(idx, true, op.Bool("out"), op.Bool("mute"), op.Ints("order"))
		s.memAfter(m0, 0, 0, "join", nil)
		e.Count("op.join")
	case "leave":
		pm := s.peers[op.Int("p")]
		if pm == nil || !pm.live || pm.pending || !pm.hostile {
			return false
		}
		pm.left = true
		s.sw.StopPeerGracefully(pm.sp)
		e.Settle()
		e.Count("op.leave")
	case "x":
		pm := s.peers[op.Int("p")]
		if pm == nil || pm.pending || !pm.hostile {
			return false
		}
		if !pm.live && !op.Bool("late") {
			return false
		}
		if op.Str("f") == "cons" && op.Str("k") == "vburst" {
			n := op.Int("n")
			if n < 1 || n > 100 {
				return false
			}
			for i := 0; i < n && !pm.pending && (pm.live || op.Bool("late")); i++ {
				v := simcore.Op{"f": "cons", "k": "vote", "h": "cur", "r": fmt.Sprintf("+%d", op.Int("r0")+i), "type": op.Int("type"), "bid": op.Str("bid"),
					"sig": op.Str("sig"), "addr": "val2", "idx": "val2", "ts": "now", "seed": op.Int("seed") + i}
				h := s.buildHostile(v, pm)
				if h == nil {
					break
				}
				h.kind = "cons.vburst"
				s.hostileDelivery(pm, h)
			}
			e.Count("op.vburst")
			break
		}
		h := s.buildHostile(op, pm)
		if h == nil {
			return false
		}
		s.hostileDelivery(pm, h)
	case "dup":
		pm := s.peers[op.Int("p")]
		if pm == nil || pm.pending || !pm.hostile || !pm.live || (pm.lastBz == nil && pm.lastSize == 0) {
			return false
		}
		for i := 0; i < op.Int("n") && !pm.pending; i++ {
			s.hostileDelivery(pm, &hostileMsg{ch: pm.lastCh, bz: pm.lastBz, size: pm.lastSize, adv: pm.lastAdv, vr: pm.lastVr, kind: "dup:" + strings.TrimPrefix(pm.lastKind, "dup:")})
		}
		e.Count("op.dup")
	case "hon":
		if !s.honestOp(op) {
			return false
		}
	case "tick":
		d := time.Duration(op.Int("us")) * time.Microsecond
		if d <= 0 || d > 5*time.Second {
			return false
		}
		m0 := s.memBefore()
		s.sleep(d)
		s.memAfter(m0, 0, d, "tick", nil)
		e.Count("op.tick")
		s.afterTick()
	default:
		return false
	}
	s.checkFailures(op.Kind())
	s.observePeers(op.Kind())
	s.probeGossip(op.Kind())
	s.recordState(op)
	return true
}

func r2v() any { return simStop{} }

func (s *sim) recordState(op simcore.Op) {
	rs := s.conS.GetRoundState()
	nl := len(s.livePeers(true))
	s.env.State(s.mode, op.Kind(), op.Str("k"), int(rs.Step), rs.Round > 0, nl, s.consensusRunning())
}

// afterTick: bookkeeping that needs the clock.
func (s *sim) afterTick() {
	for _, idx := range s.order {
		pm := s.peers[idx]
		if pm.pending {
			if pm.sp.doneCount() >= pm.deliv {
				pm.pending = false
				continue
			}
			if time.Since(pm.pendAt) > 20*time.Second {
				s.env.Fail("C17", "receive-wedged", "a %s delivered by peer %d has been inside the reactor for %v of simulated time", pm.pendKind, idx, time.Since(pm.pendAt))
			}
		}
	}
	if s.mode == "fastsync" && !s.switched && s.consensusRunning() {
		s.switched = true
		s.env.Count("probe.switched_to_consensus")
	}
}

// hostileDelivery performs one hostile delivery with all per-stimulus oracles.
func (s *sim) hostileDelivery(pm *peerM, h *hostileMsg) {
	e := s.env
	wasLive := pm.live
	m0 := s.memBefore()
	if h.big != "" {
		// attribution of later allocations: the two message kinds whose sizes the node is known
		// to act on take precedence over whatever came last
		k := strings.TrimPrefix(strings.TrimPrefix(h.kind, "dup:"), "raw.mut:")
		prio := func(x string) int {
			switch x {
			case "cons.prop":
				return 2
			case "ss.snapresp":
				return 1
			}
			return 0
		}
		if prio(k) >= prio(s.lastBig) {
			s.lastBig, s.lastBigDesc = k, fmt.Sprintf("%s from peer %d with %s", h.kind, pm.idx, h.big)
		}
		e.Count("fault.big_size_msg")
	}
	isVote := strings.Contains(h.kind, "cons.vote") || strings.Contains(h.kind, "cons.vburst")
	if isVote {
		if rs := s.conS.GetRoundState(); rs.Height != s.voteH {
			s.voteH, s.voteSenders, s.voteNamed = rs.Height, map[int]bool{}, map[int32]bool{}
		}
		s.voteSenders[pm.idx] = true
		s.voteNamed[h.vr] = true
	}
	if h.adv && wasLive {
		s.advertised[pm.idx] = true
	}
	pm.lastAdv, pm.lastVr = h.adv, h.vr
	returned := s.deliverSized(pm, h.ch, h.bz, h.size, h.kind)
	e.Count("op.hostile")
	e.Count("hostile." + h.kind)
	if !wasLive {
		e.Count("fault.delivery_after_removal")
	}
	s.memAfter(m0, len(h.bz), 0, h.kind, pm)
	if !returned {
		return
	}
	inSet, running := s.connected(pm)
	if wasLive && inSet && running && h.ch == 0x40 {
		// the more severe verdict first: an accepted block that would crash the pool routine
		s.probeBlockSync(pm, h)
		inSet, running = s.connected(pm)
	}
	if wasLive && h.must != "" && inSet && running && os.Getenv("REACTORSIM_NOPROBE") == "" {
		if s.env.Report("C17", "invalid-msg-peer-kept:"+h.kind, "peer %d sent a %s that is invalid (%s) and is still connected", pm.idx, h.kind, h.must) {
			panic(simStop{})
		}
	}
	if h.must != "" {
		e.Count("fault.must_drop_msg")
	}
	if h.kind == "cons.nrs" && inSet {
		pm.nrs = true
	}
	if isVote {
		s.voteRounds(h.kind)
	}
}

// probeBlockSync: a block response that got past the reactor's validation is (when it answers a
// request) kept by the block pool, and the reactor's poolRoutine - a goroutine without recover -
// verifies and stores it on its next 10ms tick: hashes it, splits it into parts and runs
// Validators.VerifyCommit over its LastCommit. The same calls are made here first, on a private
// decode of the same bytes; a panic in them is the crash of the node one tick ahead.
func (s *sim) probeBlockSync(pm *peerM, h *hostileMsg) {
	if os.Getenv("REACTORSIM_NOPROBE") != "" || !s.syncing() {
		return
	}
	m := &bcproto.Message{}
	if proto.Unmarshal(h.bz, m) != nil {
		return
	}
	br := m.GetBlockResponse()
	if br == nil || br.Block == nil {
		return
	}
	b, err := types.BlockFromProto(br.Block)
	if err != nil || b.LastCommit == nil {
		return
	}
	s.env.Count("probe.blocksync_block_past_validation")
	st := s.conS.GetState()
	what := ""
	msg := tryPanic(func() {
		what = "Block.Hash"
		_ = b.Hash()
		what = "Block.MakePartSet"
		_ = b.MakePartSet(types.BlockPartSizeBytes)
		if b.LastCommit.Height >= 1 {
			what = "ValidatorSet.VerifyCommit(LastCommit)"
			_ = st.Validators.VerifyCommit(st.ChainID, b.LastCommit.BlockID, b.LastCommit.Height, b.LastCommit)
		}
	})
	if msg == "" {
		return
	}
	s.env.Count("probe.blocksync_crash_predicted")
	detail := fmt.Sprintf("peer %d's %s (block %d, %d commit entries) passed the blockchain reactor's validation; %s on it panics: %s. poolRoutine makes this call for a pooled block outside any recover: the node process would crash (and again after every restart while the peer serves it)",
		pm.idx, h.kind, b.Height, len(b.LastCommit.Signatures), what, msg)
	rep := s.env.Report("C17", "bc-pool-crash:"+slug(msg), "%s", detail)
	// the pool must not keep it until the next tick: it would take the worker down
	pm.left = true
	s.sw.StopPeerGracefully(pm.sp)
	s.env.Settle()
	s.quar++
	if rep {
		panic(simStop{})
	}
	s.observePeers("blocksync/quarantine")
}

func (s *sim) Finish() {
	defer func() {
		if r := recover(); r != nil {
			if _, is := r.(simStop); is {
				return
			}
			panic(r)
		}
	}()
	if s.dead {
		return
	}
	s.finalChecks()
}

func (s *sim) Close() {
	if s.closed {
		return
	}
	s.closed = true
	s.teardown()
	if s.tracePath != "" {
		os.Remove(s.tracePath)
	}
}

// teardown stops everything the run created.
func (s *sim) teardown() {
	s.mu.Lock()
	s.abortSync = true
	s.mu.Unlock()
	for _, idx := range s.order {
		pm := s.peers[idx]
		if pm.sp.IsRunning() {
			pm.sp.Stop()
		}
	}
	s.env.Settle()
	stop := func(n string) {
		r := s.sw.Reactor(n)
		if r != nil && r.IsRunning() {
			func() {
				defer func() { recover() }()
				r.Stop()
			}()
		}
	}
	for _, n := range s.names {
		if n != "STATESYNC" {
			stop(n)
		}
	}
	s.env.Settle()
	defer stop("STATESYNC")
	if s.syncDone != nil {
		// the state sync loop ends once a snapshot is on offer and the (aborting) provider /
		// application refuse it for good
		for i := 0; i < 60; i++ {
			select {
			case <-s.syncDone:
				i = 1000
			default:
				s.injectAbortSnapshot()
				time.Sleep(5*time.Second + time.Millisecond)
				s.env.Settle()
			}
		}
	}
	if eb := s.node.EventBus(); eb != nil && eb.IsRunning() {
		eb.Stop()
	}
	if pa := s.node.ProxyApp(); pa != nil && pa.IsRunning() {
		pa.Stop()
	}
	s.env.Settle()
	for _, idx := range s.order {
		close(s.peers[idx].sp.inbox)
	}
	time.Sleep(11 * time.Second)
	s.env.Settle()
}

var _ = io.EOF
var _ = tmcons.Message{}
var _ = protomem.Message{}
var _ = bcproto.Message{}
var _ = ssproto.Message{}
var _ = tmp2p.Message{}
var _ = tmproto.Vote{}
