package reactorsim

import (
	"os"
	"runtime/pprof"
	"time"
)

// profStart: development aid (REACTORSIM_PROF=<file>): CPU profile of the first 20 s of real time,
// started outside any bubble.
func profStart() {
	if p := os.Getenv("REACTORSIM_PROF"); p != "" {
		f, err := os.Create(p)
		if err == nil {
			pprof.StartCPUProfile(f)
			go func() {
				time.Sleep(20 * time.Second)
				pprof.StopCPUProfile()
				f.Close()
			}()
		}
	}
}
