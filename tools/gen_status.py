#!/usr/bin/env python3
"""Regenerates the status block of DESIGN.md (between the STATUS markers)."""
import json, os, re, glob, subprocess
V = os.path.dirname(os.path.dirname(os.path.abspath(__file__)))
def sh(c): return subprocess.run(c, shell=True, stdout=subprocess.PIPE, text=True).stdout
fixes = [l for l in sh("git -C /repo log --format='%h %s'").splitlines() if re.match(r"^\w+ fix:", l)]
hooks = [l for l in sh("git -C /repo log --format='%h %s'").splitlines() if "verif hook" in l]
known = [l for l in open(os.path.join(V, "KNOWN_FINDINGS.txt")) if l.startswith("known:")]
fixed = [l for l in open(os.path.join(V, "KNOWN_FINDINGS.txt")) if l.startswith("fixed:")]
metas = [json.load(open(f)) for f in glob.glob(os.path.join(V, "seeded", "*", "meta.json"))]
det = sum(1 for m in metas if any(r.get("detected") for r in (m.get("checks") or {}).values()))
checks = json.load(open(os.path.join(V, "checks.json")))["checks"]
loc = {}
for d in sorted(set(e["harness"] for c in checks.values() for e in c["engines"])):
    n = 0
    for f in glob.glob(os.path.join(V, d, "*.go")):
        n += sum(1 for _ in open(f))
    loc[d] = n
byprop = {}
for l in known:
    m = re.match(r"known: property=(C\d+)", l)
    byprop[m.group(1)] = byprop.get(m.group(1), 0) + 1
out = []
out.append("* %d properties claimed (%s), C07 not applicable." % (len(checks), ", ".join(sorted(checks))))
out.append("* Harnesses (Go lines): " + ", ".join("%s %d" % kv for kv in loc.items()) + "; shared: simcore, simdisk, simapp, chaingen.")
out.append("* /repo: %d hook commits (build tag `verif`, add-only), %d `fix:` commits (each a genuine defect found by a check on the unchanged tree; the repo's test suite passes with them, tag off)." % (len(hooks), len(fixes)))
out.append("* KNOWN_FINDINGS.txt: %d `fixed:` entries, %d `known:` entries (%s) - each printed as KNOWN-FINDING on the runs that meet it." % (len(fixed), len(known), ", ".join("%s %d" % kv for kv in sorted(byprop.items()))))
out.append("* Seeded changes written by sub-agents that saw only the property text: %d verified, %d detected by a registered check within its quick/extended budget (table in 13.5; `C03-commit-step-round-skip` is not a sub-agent's change but the revert of fix b9ebead)." % (len(metas), det))
out.append("")
out.append("| property | engines as registered (quick s / thorough s) | level claimed |")
out.append("|---|---|---|")
for pid in sorted(checks):
    c = checks[pid]
    out.append("| %s | %s | %s |" % (pid, ", ".join("%s (%s/%s)" % (e["harness"], e["quick_s"], e["thorough_s"]) for e in c["engines"]), c.get("level", "")))
d = open(os.path.join(V, "DESIGN.md")).read()
a, b = d.index("<!-- STATUS-BEGIN -->"), d.index("<!-- STATUS-END -->")
d = d[:a] + "<!-- STATUS-BEGIN -->\n" + "\n".join(out) + "\n" + d[b:]
open(os.path.join(V, "DESIGN.md"), "w").write(d)
print("\n".join(out))
