#!/usr/bin/env python3
"""Regenerates the seeded-change table in DESIGN.md (between the SEEDED markers) from seeded/*/meta.json."""
import json, os, re, glob
V = os.path.dirname(os.path.dirname(os.path.abspath(__file__)))
rows = []
for d in sorted(glob.glob(os.path.join(V, "seeded", "*"))):
    mp = os.path.join(d, "meta.json")
    if not os.path.exists(mp):
        continue
    m = json.load(open(mp))
    what = ""
    rp = os.path.join(d, "README.md")
    pd = os.path.join(d, "patch.diff")
    files = sorted(set(re.findall(r"^\+\+\+ b/(\S+)", open(pd).read(), re.M))) if os.path.exists(pd) else []
    det = []
    miss = []
    for c, r in (m.get("checks") or {}).items():
        if r.get("detected"):
            sig = ""
            for l in r.get("violation", []):
                mm = re.search(r"sig=(\S+) harness=(\S+) run=(\d+)", l)
                if mm:
                    sig = "%s `%s` (run %s)" % (mm.group(2), mm.group(1), mm.group(3))
            det.append("%s: %s" % (c, sig or "yes"))
        else:
            miss.append(c)
    note = m.get("note", "")
    first = set()
    for hst in m.get("history", []):
        for c, dd in (hst.get("checks") or {}).items():
            if not dd and (m.get("checks") or {}).get(c, {}).get("detected"):
                first.add(c)
    if first:
        note = ("missed by %s before the check was strengthened. " % ", ".join(sorted(first))) + note
    rows.append((os.path.basename(d), ", ".join(files), "; ".join(det) or "**missed**", ", ".join(miss), note))
out = ["| seeded change (seeded/<name>/) | files touched | detected by (quick tier, <= 60 s) | checks run that did not see it | note |", "|---|---|---|---|---|"]
for r in rows:
    out.append("| %s | %s | %s | %s | %s |" % tuple(x.replace("|", "\\|") for x in r))
nd = sum(1 for r in rows if r[2] != "**missed**")
out.append("")
out.append("%d of %d seeded changes detected by at least one registered check." % (nd, len(rows)))
d = open(os.path.join(V, "DESIGN.md")).read()
a, b = d.index("<!-- SEEDED-BEGIN -->"), d.index("<!-- SEEDED-END -->")
d = d[:a] + "<!-- SEEDED-BEGIN -->\n" + "\n".join(out) + "\n" + d[b:]
open(os.path.join(V, "DESIGN.md"), "w").write(d)
print(nd, "of", len(rows))
