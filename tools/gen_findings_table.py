#!/usr/bin/env python3
"""Regenerates the findings table in DESIGN.md (between the FINDINGS markers) from KNOWN_FINDINGS.txt."""
import re, os
V = os.path.dirname(os.path.dirname(os.path.abspath(__file__)))
rows = []
for line in open(os.path.join(V, "KNOWN_FINDINGS.txt")):
    line = line.strip()
    if line.startswith("fixed:"):
        m = re.match(r"fixed: property=(\S+) (\S+) (.*)", line)
        rows.append((m.group(1), "fixed " + m.group(2), m.group(3)))
    elif line.startswith("known:"):
        m = re.match(r"known: property=(\S+) sig=(\S+) (.*)", line)
        rows.append((m.group(1), "**known** `" + m.group(2) + "`", m.group(3)))
rows.sort(key=lambda r: (r[0], r[1].startswith("**")))
out = ["| property | status | what fails (from KNOWN_FINDINGS.txt) |", "|---|---|---|"]
for p, st, txt in rows:
    txt = txt.replace("|", "\\|")
    if len(txt) > 420:
        txt = txt[:417] + "..."
    out.append("| %s | %s | %s |" % (p, st, txt))
d = open(os.path.join(V, "DESIGN.md")).read()
a, b = d.index("<!-- FINDINGS-BEGIN -->"), d.index("<!-- FINDINGS-END -->")
d = d[:a] + "<!-- FINDINGS-BEGIN -->\n" + "\n".join(out) + "\n" + d[b:]
open(os.path.join(V, "DESIGN.md"), "w").write(d)
print(len(rows), "findings")
