// Package chaingen produces valid chains (real blocks, real commits signed by known keys,
// validator churn, parameter changes, transactions with events) by driving the real
// state.BlockExecutor, store.BlockStore, state.Store and consensus.Handshaker over the
// recording application. Used by the storage and lying-peer simulations as the canonical
// chain; the keys of every validator are known to the simulator so it can also forge.
package chaingen

import (
	"fmt"
	"time"

	"github.com/tendermint/tendermint/consensus"
	"github.com/tendermint/tendermint/crypto"
	"github.com/tendermint/tendermint/crypto/ed25519"
	"github.com/tendermint/tendermint/libs/log"
	mempl "github.com/tendermint/tendermint/mempool/mock"
	tmproto "github.com/tendermint/tendermint/proto/tendermint/types"
	"github.com/tendermint/tendermint/proxy"
	sm "github.com/tendermint/tendermint/state"
	"github.com/tendermint/tendermint/store"
	"github.com/tendermint/tendermint/types"
	dbm "github.com/tendermint/tm-db"

	"verif/simapp"
	"verif/simcore"
)

// Opts configures a chain.
type Opts struct {
	ChainID       string
	InitialHeight int64
	Powers        []int64 // genesis validators (keys Key(0), Key(1), ...)
	Genesis       time.Time
	BlockDB       dbm.DB // nil = fresh MemDB
	StateDB       dbm.DB
	HashLen       int
	MaxBytes      int64 // consensus param block.max_bytes (0 = default)
	EvidenceAge   int64 // max age num blocks (0 = default)
	// EvidenceDuration is the evidence max age duration (0 = default); EvidenceMaxBytes the
	// evidence.max_bytes consensus parameter (0 = default).
	EvidenceDuration time.Duration
	EvidenceMaxBytes int64
	PartSize         uint32
	App              *simapp.RecApp // nil = new
	EvPool           sm.EvidencePool
	Logger           log.Logger
}

// Key returns the deterministic private key number i.
func Key(i int) crypto.PrivKey {
	return ed25519.GenPrivKeyFromSecret([]byte(fmt.Sprintf("verif-validator-%d", i)))
}

// ValTx builds the transaction that sets the power of key i (0 removes it).
func ValTx(i int, power int64) []byte {
	return []byte(fmt.Sprintf("val:%x:%d", Key(i).PubKey().Bytes(), power))
}

// Chain is a generated chain together with everything needed to extend or forge it.
type Chain struct {
	Opts       Opts
	GenDoc     *types.GenesisDoc
	App        *simapp.RecApp
	ProxyApp   proxy.AppConns
	BlockStore *store.BlockStore
	StateStore sm.Store
	Exec       *sm.BlockExecutor
	State      sm.State                  // state after the last block
	Keys       map[string]crypto.PrivKey // address (string(bytes)) -> key
	NKeys      int

	Blocks  map[int64]*types.Block
	Parts   map[int64]*types.PartSet
	Commits map[int64]*types.Commit // commit FOR block h (the seen commit)
	States  map[int64]sm.State      // state after applying block h; States[InitialHeight-1] = genesis state
	Retain  map[int64]int64         // retain height returned when h was applied
}

// New creates the stores, performs the real handshake (InitChain) and returns a chain of
// length zero.
func New(o Opts) *Chain {
	if o.ChainID == "" {
		o.ChainID = "verif-chain"
	}
	if o.InitialHeight == 0 {
		o.InitialHeight = 1
	}
	if o.Genesis.IsZero() {
		o.Genesis = time.Date(2000, 1, 1, 0, 0, 0, 0, time.UTC)
	}
	if o.BlockDB == nil {
		o.BlockDB = dbm.NewMemDB()
	}
	if o.StateDB == nil {
		o.StateDB = dbm.NewMemDB()
	}
	if o.Logger == nil {
		o.Logger = log.NewNopLogger()
	}
	if o.PartSize == 0 {
		o.PartSize = types.BlockPartSizeBytes
	}
	c := &Chain{Opts: o, Keys: map[string]crypto.PrivKey{}, Blocks: map[int64]*types.Block{}, Parts: map[int64]*types.PartSet{},
		Commits: map[int64]*types.Commit{}, States: map[int64]sm.State{}, Retain: map[int64]int64{}}
	gd := &types.GenesisDoc{ChainID: o.ChainID, InitialHeight: o.InitialHeight, GenesisTime: o.Genesis, ConsensusParams: types.DefaultConsensusParams()}
	if o.MaxBytes > 0 {
		gd.ConsensusParams.Block.MaxBytes = o.MaxBytes
	}
	if o.EvidenceAge > 0 {
		gd.ConsensusParams.Evidence.MaxAgeNumBlocks = o.EvidenceAge
	}
	if o.EvidenceDuration > 0 {
		gd.ConsensusParams.Evidence.MaxAgeDuration = o.EvidenceDuration
	}
	if o.EvidenceMaxBytes > 0 {
		gd.ConsensusParams.Evidence.MaxBytes = o.EvidenceMaxBytes
	}
	for i, p := range o.Powers {
		k := c.key(i)
		gd.Validators = append(gd.Validators, types.GenesisValidator{Address: k.PubKey().Address(), PubKey: k.PubKey(), Power: p, Name: fmt.Sprintf("v%d", i)})
	}
	c.GenDoc = gd
	c.App = o.App
	if c.App == nil {
		c.App = simapp.NewRecApp(o.HashLen)
	}
	c.BlockStore = store.NewBlockStore(o.BlockDB)
	c.StateStore = sm.NewStore(o.StateDB, sm.StoreOptions{DiscardABCIResponses: false})
	st, err := sm.MakeGenesisState(gd)
	if err != nil {
		panic(err)
	}
	if err := c.StateStore.Save(st); err != nil {
		panic(err)
	}
	c.ProxyApp = proxy.NewAppConns(c.App.ClientCreator())
	c.ProxyApp.SetLogger(o.Logger)
	if err := c.ProxyApp.Start(); err != nil {
		panic(err)
	}
	hs := consensus.NewHandshaker(c.StateStore, st, c.BlockStore, gd)
	hs.SetLogger(o.Logger)
	if err := hs.Handshake(c.ProxyApp); err != nil {
		panic(err)
	}
	st, err = c.StateStore.Load()
	if err != nil {
		panic(err)
	}
	c.State = st
	c.States[o.InitialHeight-1] = st.Copy()
	evpool := o.EvPool
	if evpool == nil {
		evpool = sm.EmptyEvidencePool{}
	}
	c.Exec = sm.NewBlockExecutor(c.StateStore, o.Logger, c.ProxyApp.Consensus(), mempl.Mempool{}, evpool)
	return c
}

func (c *Chain) key(i int) crypto.PrivKey {
	k := Key(i)
	c.Keys[string(k.PubKey().Address())] = k
	if i >= c.NKeys {
		c.NKeys = i + 1
	}
	return k
}

// KnowKey registers Key(i) so that its validator can sign once it joins the set.
func (c *Chain) KnowKey(i int) { c.key(i) }

// Height returns the height of the last block (InitialHeight-1 when empty).
func (c *Chain) Height() int64 {
	if c.State.LastBlockHeight == 0 {
		return c.Opts.InitialHeight - 1
	}
	return c.State.LastBlockHeight
}

// BlockSpec describes the next block.
type BlockSpec struct {
	Txs      [][]byte
	Evidence []types.Evidence
	Round    int32
	// Absent lists validator indices (in the current set) that do not sign; Nil lists those
	// that precommit nil. The remaining signers must hold > 2/3.
	Absent, Nil map[int]bool
	// VoteDelay is added to the block time for the commit's vote timestamps (default 1s),
	// plus i milliseconds for validator i.
	VoteDelay time.Duration
}

// Next builds, commits (signs), stores and executes the next block.
func (c *Chain) Next(s BlockSpec) *types.Block {
	st := c.State
	h := st.LastBlockHeight + 1
	if st.LastBlockHeight == 0 {
		h = st.InitialHeight
	}
	var lastCommit *types.Commit
	if h == st.InitialHeight {
		lastCommit = types.NewCommit(0, 0, types.BlockID{}, nil)
	} else {
		lastCommit = c.Commits[h-1]
	}
	txs := make([]types.Tx, len(s.Txs))
	for i := range s.Txs {
		txs[i] = s.Txs[i]
	}
	proposer := st.Validators.CopyIncrementProposerPriority(s.Round + 1).GetProposer()
	if s.Round == 0 {
		proposer = st.Validators.GetProposer()
	}
	block, _ := st.MakeBlock(h, txs, lastCommit, s.Evidence, proposer.Address)
	parts := block.MakePartSet(c.Opts.PartSize)
	blockID := types.BlockID{Hash: block.Hash(), PartSetHeader: parts.Header()}
	commit := c.SignCommit(st.ChainID, st.Validators, blockID, h, s.Round, block.Time, s)
	c.BlockStore.SaveBlock(block, parts, commit)
	newState, retain, err := c.Exec.ApplyBlock(st, blockID, block)
	if err != nil {
		panic(fmt.Sprintf("chaingen: ApplyBlock(%d): %v", h, err))
	}
	c.State = newState
	c.Blocks[h], c.Parts[h], c.Commits[h], c.States[h], c.Retain[h] = block, parts, commit, newState.Copy(), retain
	return block
}

// SignCommit produces the commit of the given validator set for blockID.
func (c *Chain) SignCommit(chainID string, vals *types.ValidatorSet, blockID types.BlockID, h int64, round int32, blockTime time.Time, s BlockSpec) *types.Commit {
	delay := s.VoteDelay
	if delay == 0 {
		delay = time.Second
	}
	vs := types.NewVoteSet(chainID, h, round, tmproto.PrecommitType, vals)
	for i, v := range vals.Validators {
		if s.Absent[i] {
			continue
		}
		k, ok := c.Keys[string(v.Address)]
		if !ok {
			panic(fmt.Sprintf("chaingen: no key for validator %X", v.Address))
		}
		vote := &types.Vote{Type: tmproto.PrecommitType, Height: h, Round: round, BlockID: blockID,
			Timestamp: blockTime.Add(delay + time.Duration(i)*time.Millisecond), ValidatorAddress: v.Address, ValidatorIndex: int32(i)}
		if s.Nil[i] {
			vote.BlockID = types.BlockID{}
		}
		sig, err := k.Sign(types.VoteSignBytes(chainID, vote.ToProto()))
		if err != nil {
			panic(err)
		}
		vote.Signature = sig
		if _, err := vs.AddVote(vote); err != nil {
			panic(err)
		}
	}
	if !vs.HasTwoThirdsMajority() {
		panic("chaingen: signers do not hold +2/3")
	}
	return vs.MakeCommit()
}

// LightBlock assembles the light block of height h (h must not be the tip unless its
// commit is known, which it always is here).
func (c *Chain) LightBlock(h int64) *types.LightBlock {
	b := c.Blocks[h]
	if b == nil {
		return nil
	}
	vals := c.States[h-1].Validators
	if h == c.Opts.InitialHeight {
		vals = c.States[c.Opts.InitialHeight-1].Validators
	}
	return &types.LightBlock{SignedHeader: &types.SignedHeader{Header: &b.Header, Commit: c.Commits[h]}, ValidatorSet: vals.Copy()}
}

// Grow appends n blocks with PRNG-drawn contents: plain txs with events, validator churn
// (adds, removals, power changes among keys [0,maxKeys)), occasional parameter changes,
// absent signers (< 1/3), non-zero commit rounds.
func (c *Chain) Grow(rng *simcore.RNG, n int, maxKeys int, churn float64) {
	for i := 0; i < maxKeys; i++ {
		c.KnowKey(i)
	}
	for j := 0; j < n; j++ {
		var s BlockSpec
		h := c.State.LastBlockHeight + 1
		nt := rng.Intn(4)
		for t := 0; t < nt; t++ {
			s.Txs = append(s.Txs, []byte(fmt.Sprintf("k%d-%d=v%d", h, t, rng.Intn(1000))))
		}
		if rng.Bool(churn) {
			ki := rng.Intn(maxKeys)
			pw := int64(0)
			if rng.Bool(0.7) {
				pw = int64(rng.Range(1, 30))
			}
			s.Txs = append(s.Txs, ValTx(ki, pw))
		}
		if rng.Bool(0.05) {
			s.Txs = append(s.Txs, []byte(fmt.Sprintf("param:maxbytes:%d", 1000000+rng.Intn(1000000))))
		}
		if rng.Bool(0.2) {
			s.Round = int32(rng.Intn(3))
		}
		// absent signers while keeping > 2/3
		vals := c.State.Validators
		total := vals.TotalVotingPower()
		var gone int64
		s.Absent = map[int]bool{}
		for i, v := range vals.Validators {
			if rng.Bool(0.15) && (gone+v.VotingPower)*3 < total {
				s.Absent[i] = true
				gone += v.VotingPower
			}
		}
		c.Next(s)
	}
}

// Stop stops the proxy app.
func (c *Chain) Stop() {
	if c.ProxyApp != nil && c.ProxyApp.IsRunning() {
		c.ProxyApp.Stop()
	}
}
