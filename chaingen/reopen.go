package chaingen

import (
	"fmt"

	"github.com/tendermint/tendermint/consensus"
	mempl "github.com/tendermint/tendermint/mempool/mock"
	"github.com/tendermint/tendermint/proxy"
	sm "github.com/tendermint/tendermint/state"
	"github.com/tendermint/tendermint/store"
	"github.com/tendermint/tendermint/types"
	dbm "github.com/tendermint/tm-db"
)

// TryNext is Next for blocks that may be invalid: the block is built and signed, then
// validated the way consensus validates a proposal / a decided block before applying it
// (BlockExecutor.ValidateBlock = validateBlock + EvidencePool.CheckEvidence). When validation
// fails the error is returned and nothing was stored or executed; otherwise the block is
// saved and applied exactly as Next does.
func (c *Chain) TryNext(s BlockSpec) (*types.Block, error) {
	return c.TryNextWith(s, nil)
}

// TryNextWith is TryNext with a hook that may replace the evidence list of the built block
// by what a receiving node would decode from the wire (decode(block) is called before
// validation; it returns the block to validate/apply, or an error = the block cannot even be
// decoded).
func (c *Chain) TryNextWith(s BlockSpec, decode func(*types.Block) (*types.Block, error)) (*types.Block, error) {
	st := c.State
	h := st.LastBlockHeight + 1
	if st.LastBlockHeight == 0 {
		h = st.InitialHeight
	}
	var lastCommit *types.Commit
	if h == st.InitialHeight {
		lastCommit = types.NewCommit(0, 0, types.BlockID{}, nil)
	} else {
		lastCommit = c.Commits[h-1]
	}
	txs := make([]types.Tx, len(s.Txs))
	for i := range s.Txs {
		txs[i] = s.Txs[i]
	}
	proposer := st.Validators.CopyIncrementProposerPriority(s.Round + 1).GetProposer()
	if s.Round == 0 {
		proposer = st.Validators.GetProposer()
	}
	block, _ := st.MakeBlock(h, txs, lastCommit, s.Evidence, proposer.Address)
	if decode != nil {
		b2, err := decode(block)
		if err != nil {
			return nil, err
		}
		block = b2
	}
	if err := c.Exec.ValidateBlock(st, block); err != nil {
		return nil, err
	}
	parts := block.MakePartSet(c.Opts.PartSize)
	blockID := types.BlockID{Hash: block.Hash(), PartSetHeader: parts.Header()}
	commit := c.SignCommit(st.ChainID, st.Validators, blockID, h, s.Round, block.Time, s)
	c.BlockStore.SaveBlock(block, parts, commit)
	newState, retain, err := c.Exec.ApplyBlock(st, blockID, block)
	if err != nil {
		panic(fmt.Sprintf("chaingen: ApplyBlock(%d) after successful ValidateBlock: %v", h, err))
	}
	c.State = newState
	c.Blocks[h], c.Parts[h], c.Commits[h], c.States[h], c.Retain[h] = block, parts, commit, newState.Copy(), retain
	return block, nil
}

// Reopen models a node restart of the chain's owner: new BlockStore / state Store instances
// over the given databases (the same ones, or crash images of them), a new proxy connection
// to the surviving application, the real Handshaker (which replays a block that was saved
// but whose state was not, with an empty evidence pool, like node start-up does), and a new
// BlockExecutor over evpool. Blocks that are in the block store but not yet in the maps of
// old (a crash inside ApplyBlock) are loaded from the store. The old chain must not be used
// afterwards.
func Reopen(old *Chain, blockDB, stateDB dbm.DB, evpool sm.EvidencePool) *Chain {
	old.Stop()
	o := old.Opts
	o.BlockDB, o.StateDB, o.EvPool = blockDB, stateDB, evpool
	c := &Chain{Opts: o, GenDoc: old.GenDoc, App: old.App, Keys: old.Keys, NKeys: old.NKeys,
		Blocks: old.Blocks, Parts: old.Parts, Commits: old.Commits, States: old.States, Retain: old.Retain}
	c.BlockStore = store.NewBlockStore(blockDB)
	c.StateStore = sm.NewStore(stateDB, sm.StoreOptions{DiscardABCIResponses: false})
	st, err := c.StateStore.Load()
	if err != nil {
		panic(err)
	}
	c.ProxyApp = proxy.NewAppConns(c.App.ClientCreator())
	c.ProxyApp.SetLogger(o.Logger)
	if err := c.ProxyApp.Start(); err != nil {
		panic(err)
	}
	hs := consensus.NewHandshaker(c.StateStore, st, c.BlockStore, c.GenDoc)
	hs.SetLogger(o.Logger)
	if err := hs.Handshake(c.ProxyApp); err != nil {
		panic(fmt.Sprintf("chaingen: handshake on reopen: %v", err))
	}
	st, err = c.StateStore.Load()
	if err != nil {
		panic(err)
	}
	c.State = st
	for h := c.BlockStore.Base(); h > 0 && h <= c.BlockStore.Height(); h++ {
		if _, ok := c.Blocks[h]; ok && h != st.LastBlockHeight {
			continue
		}
		b := c.BlockStore.LoadBlock(h)
		if b == nil {
			continue
		}
		c.Blocks[h] = b
		c.Parts[h] = b.MakePartSet(o.PartSize)
		if sc := c.BlockStore.LoadSeenCommit(h); sc != nil {
			c.Commits[h] = sc
		}
		if h == st.LastBlockHeight {
			c.States[h] = st.Copy()
		}
	}
	if evpool == nil {
		evpool = sm.EmptyEvidencePool{}
	}
	c.Exec = sm.NewBlockExecutor(c.StateStore, o.Logger, c.ProxyApp.Consensus(), mempl.Mempool{}, evpool)
	return c
}
