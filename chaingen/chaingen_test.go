package chaingen

import (
	"testing"

	"verif/simcore"
)

func TestGrow(t *testing.T) {
	c := New(Opts{Powers: []int64{10, 7, 5, 1}, InitialHeight: 5})
	defer c.Stop()
	c.Grow(simcore.NewRNG(3), 60, 7, 0.3)
	if c.Height() != 64 {
		t.Fatalf("height %d", c.Height())
	}
	for h := int64(5); h <= 64; h++ {
		lb := c.LightBlock(h)
		if err := lb.ValidateBasic(c.GenDoc.ChainID); err != nil {
			t.Fatalf("h=%d: %v", h, err)
		}
		if err := lb.ValidatorSet.VerifyCommit(c.GenDoc.ChainID, lb.Commit.BlockID, h, lb.Commit); err != nil {
			t.Fatalf("h=%d: %v", h, err)
		}
	}
	t.Logf("final validators: %d, app: %v", c.State.Validators.Size(), c.App.SortedVals())
}
