// Package mempoolsim: deterministic simulation of the real mempools (mempool/v0
// CListMempool and mempool/v1 TxMempool) behind a simulated ABCI mempool connection whose
// requests can be in flight, with a commit actor that runs the real
// state.BlockExecutor.Commit. Decides C12 and the third sentence of C05.
package mempoolsim

import (
	"bytes"
	"errors"
	"fmt"
	"os"
	"reflect"
	"runtime"
	"sort"
	"strings"
	"sync"
	"sync/atomic"
	"testing"
	"testing/synctest"
	"time"

	abcicli "github.com/tendermint/tendermint/abci/client"
	abci "github.com/tendermint/tendermint/abci/types"
	"github.com/tendermint/tendermint/config"
	"github.com/tendermint/tendermint/crypto/ed25519"
	"github.com/tendermint/tendermint/libs/clist"
	"github.com/tendermint/tendermint/libs/log"
	"github.com/tendermint/tendermint/mempool"
	mempoolv0 "github.com/tendermint/tendermint/mempool/v0"
	mempoolv1 "github.com/tendermint/tendermint/mempool/v1"
	"github.com/tendermint/tendermint/proxy"
	sm "github.com/tendermint/tendermint/state"
	"github.com/tendermint/tendermint/types"

	"verif/simcore"
)

func TestMain(m *testing.M) {
	simcore.InitProcess()
	os.Exit(m.Run())
}

func TestSim(t *testing.T) { simcore.Main(t, harness) }

var harness = &simcore.Harness{
	Name:       "mempoolsim",
	Props:      []string{"C12", "C05"},
	Config:     genConfig,
	New:        newSim,
	MaxOps:     400,
	RunTimeout: 40 * time.Second,
	Real: []string{"mempool/v0 CListMempool (CheckTx, callbacks, Update, recheck cursor, Reap*, Flush, RemoveTxByKey, Lock/Unlock/FlushAppConn)",
		"mempool/v1 TxMempool (CheckTx, addNewTransaction/eviction, recheck task group, TTL purge, Reap*, Flush, RemoveTxByKey)",
		"mempool.LRUTxCache / NopTxCache", "libs/clist", "abci/client.ReqRes (callback hand-over)",
		"state.BlockExecutor.Commit (the exported method ApplyBlock calls): Lock, FlushAppConn, CommitSync, Update(TxPreCheck, TxPostCheck), Unlock",
		"state.TxPreCheck / TxPostCheck, mempool.PreCheckMaxBytes / PostCheckMaxGas"},
	Stub: []string{"ABCI mempool connection: FIFO request queue of a socket-like client; every response (CheckTx new / recheck, flush) is delivered as one scheduler step; sync callers park inside CheckTxSync/FlushSync",
		"ABCI consensus connection: only CommitSync (optionally parking before the application executes Commit)",
		"application: verdict table (accept/reject, gas, priority, sender) keyed by (tx, app version), version changes at Commit; optional replay protection",
		"mempool reactor / gossip: submissions are direct CheckTx calls with TxInfo.SenderID", "state store, block store, evidence pool (Commit does not touch them)"},
	Assumptions: []string{"mempool connection answers in request order (socket client); CheckTxSync is modelled as request + wait for its response",
		"mempool.Flush and RemoveTxByKey are only issued while the mempool connection is idle and no commit is running (Flush is documented unsafe otherwise)",
		"at most one caller is blocked on the mempool's RWMutex at any time (the wake-up order of several waiters is not owned by the simulator)",
		"runtime.NumCPU() >= 4 so that all v1 recheck calls of one update (pool size <= 8) are issued at once",
		"gas wanted of a transaction is a function of the transaction only (recheck never changes it); priority may change at recheck"},
}

// ---------------------------------------------------------------- configuration

func genConfig(rng *simcore.RNG, env *simcore.Env) simcore.Op {
	c := simcore.Op{}
	c["ver"] = rng.Intn(2)
	if v := os.Getenv("MEMPOOLSIM_VER"); v == "0" || v == "1" {
		c["ver"] = int(v[0] - '0') // development aid (sensitivity runs against one version); never set by the runner
	}
	size := rng.Range(1, 8)
	c["size"] = size
	switch rng.Intn(5) {
	case 0:
		c["cache"] = 0
	case 1, 2:
		c["cache"] = rng.Range(1, size) // not larger than the pool
	default:
		c["cache"] = rng.Range(size, 2*size)
	}
	nuniv := rng.Range(4, 12)
	lens := make([]int, nuniv)
	total, maxLen := 0, 0
	for i := range lens {
		lens[i] = rng.Range(1, 9)
		if rng.Bool(0.1) {
			lens[i] = rng.Range(10, 30)
		}
		total += lens[i]
		if lens[i] > maxLen {
			maxLen = lens[i]
		}
	}
	c["lens"] = lens
	switch rng.Intn(5) {
	case 0, 1:
		c["max_txs_bytes"] = total + 10 // never binding
	case 2, 3:
		c["max_txs_bytes"] = rng.Range(maxLen, total)
	default:
		c["max_txs_bytes"] = rng.Range(1, maxLen+3) // very tight
	}
	if rng.Bool(0.7) {
		c["max_tx_bytes"] = maxLen
	} else {
		c["max_tx_bytes"] = rng.Range(1, maxLen)
	}
	c["recheck"] = rng.Bool(0.7)
	c["keep_invalid"] = rng.Bool(0.3)
	c["txs_available"] = rng.Bool(0.5)
	c["ttl_blocks"] = 0
	c["ttl_ns"] = 0
	if c["ver"] == 1 {
		if rng.Bool(0.35) {
			c["ttl_blocks"] = rng.Range(1, 3)
		}
		if rng.Bool(0.35) {
			c["ttl_ns"] = []int{3, 10, 40}[rng.Intn(3)]
		}
	}
	// v1 only: mempool.Flush may be called while checks are in flight (v0 documents its Flush
	// as unsafe, there it is only called on an idle connection)
	c["flush_inflight"] = c["ver"] == 1 && rng.Bool(0.4)
	c["maxgas"] = -1
	if rng.Bool(0.3) {
		c["maxgas"] = rng.Range(1, 5)
	}
	// application
	c["vseed"] = rng.Intn(1 << 30)
	c["p_reject"] = []int{0, 10, 30, 60}[rng.Intn(4)]
	c["p_flip"] = []int{0, 20, 50, 80}[rng.Intn(4)]
	c["replay_protect"] = rng.Bool(0.5)
	c["senders"] = rng.Bool(0.4) // v1: application labels some txs with a sender
	c["prios"] = []int{1, 2, 4}[rng.Intn(3)]
	// schedule
	c["commit_park"] = rng.Bool(0.5) // the application executes Commit as a separate scheduler step
	c["batch_new_first"] = rng.Bool(0.5)
	c["peers"] = rng.Range(1, 4)
	c["nops"] = rng.Range(20, 110)
	if env.Thorough() {
		c["nops"] = rng.Range(20, 300)
	}
	return c
}

// ---------------------------------------------------------------- simulated connection

const (
	kNew = iota
	kRecheck
	kFlush
)

type request struct {
	kind   int
	txi    int
	tx     []byte
	rr     *abcicli.ReqRes            // async request (v0)
	ch     chan *abci.ResponseCheckTx // sync request (v1)
	done   chan struct{}              // FlushSync
	tag    string                     // C05: when was it requested: idle | inflush | window
	epoch  int64                      // number of finished commits when it was requested
	arrive int
}

type delivery struct {
	req *request
	res *abci.Response
}

// simConn implements proxy.AppConnMempool. Requests are queued; the simulator delivers the
// responses one by one. No goroutine parks while holding mu.
type simConn struct {
	s         *sim
	mu        sync.Mutex
	arrivals  []*request // enqueued since the last settle, in arrival order
	queue     []*request // FIFO of unanswered requests
	resCb     abcicli.Callback
	nArrive   int
	deliverCh chan delivery // to the receive goroutine (runs the v0 callbacks, like recvResponseRoutine)
}

var _ proxy.AppConnMempool = (*simConn)(nil)

func (c *simConn) SetResponseCallback(cb abcicli.Callback) {
	c.mu.Lock()
	c.resCb = cb
	c.mu.Unlock()
}

func (c *simConn) Error() error { return nil }

func (c *simConn) enqueue(r *request) {
	r.tag = c.s.phaseTag()
	r.epoch = c.s.commitsDone.Load()
	c.mu.Lock()
	r.arrive = c.nArrive
	c.nArrive++
	c.arrivals = append(c.arrivals, r)
	c.mu.Unlock()
}

func (c *simConn) mkCheck(req abci.RequestCheckTx) *request {
	r := &request{kind: kNew, tx: append([]byte{}, req.Tx...), txi: c.s.txIndex(req.Tx)}
	if req.Type == abci.CheckTxType_Recheck {
		r.kind = kRecheck
	}
	return r
}

func (c *simConn) CheckTxAsync(req abci.RequestCheckTx) *abcicli.ReqRes {
	r := c.mkCheck(req)
	r.rr = abcicli.NewReqRes(abci.ToRequestCheckTx(req))
	c.enqueue(r)
	return r.rr
}

func (c *simConn) CheckTxSync(req abci.RequestCheckTx) (*abci.ResponseCheckTx, error) {
	r := c.mkCheck(req)
	r.ch = make(chan *abci.ResponseCheckTx, 1)
	c.enqueue(r)
	res := <-r.ch // parked: no lock may be held here
	if res == nil {
		return nil, errors.New("mempoolsim: connection closed")
	}
	return res, nil
}

// FlushAsync: nobody waits for the answer and both mempools ignore flush responses; it
// is not a scheduling point.
func (c *simConn) FlushAsync() *abcicli.ReqRes {
	rr := abcicli.NewReqRes(abci.ToRequestFlush())
	rr.Response = abci.ToResponseFlush()
	rr.Done()
	return rr
}

func (c *simConn) FlushSync() error {
	r := &request{kind: kFlush, txi: -1, done: make(chan struct{})}
	c.enqueue(r)
	<-r.done // parked (v0: while holding the update lock, exactly as with a socket client)
	return nil
}

// recvLoop runs callbacks of async requests on its own goroutine (as the socket client's
// receive routine does), so that a callback that blocks shows up as a blocked goroutine and
// not as a hung simulator.
func (c *simConn) recvLoop() {
	for d := range c.deliverCh {
		func() {
			defer c.s.recoverActor("recv")
			rr := d.req.rr
			rr.Response = d.res
			rr.Done()
			c.mu.Lock()
			cb := c.resCb
			c.mu.Unlock()
			if cb != nil {
				cb(rr.Request, d.res)
			}
			rr.InvokeCallback()
		}()
	}
}

func (c *simConn) counts() (nNew, nRecheck, nAll int) {
	c.mu.Lock()
	defer c.mu.Unlock()
	for _, l := range [][]*request{c.queue, c.arrivals} {
		for _, r := range l {
			switch r.kind {
			case kNew:
				nNew++
			case kRecheck:
				nRecheck++
			}
			nAll++
		}
	}
	return
}

// consConn implements proxy.AppConnConsensus; BlockExecutor.Commit only uses CommitSync.
type consConn struct{ s *sim }

var _ proxy.AppConnConsensus = (*consConn)(nil)

func (c *consConn) SetResponseCallback(abcicli.Callback) {}
func (c *consConn) Error() error                         { return nil }
func (c *consConn) InitChainSync(abci.RequestInitChain) (*abci.ResponseInitChain, error) {
	return &abci.ResponseInitChain{}, nil
}
func (c *consConn) BeginBlockSync(abci.RequestBeginBlock) (*abci.ResponseBeginBlock, error) {
	return &abci.ResponseBeginBlock{}, nil
}
func (c *consConn) DeliverTxAsync(abci.RequestDeliverTx) *abcicli.ReqRes { return nil }
func (c *consConn) EndBlockSync(abci.RequestEndBlock) (*abci.ResponseEndBlock, error) {
	return &abci.ResponseEndBlock{}, nil
}

// CommitSync: the commit request reaches the application (C05 window opens); with
// commit_park the application executes it only when the simulator says so.
func (c *consConn) CommitSync() (*abci.ResponseCommit, error) {
	s := c.s
	s.commitRequested()
	if s.cfg.Bool("commit_park") && !s.closing.Load() {
		s.commitParked.Store(true)
		<-s.commitGate
		s.commitParked.Store(false)
	}
	s.appCommit()
	return &abci.ResponseCommit{Data: []byte{byte(s.appVer)}}, nil
}

// ---------------------------------------------------------------- simulator state

type verdict struct {
	ok     bool
	gas    int64
	prio   int64
	sender string
}

type subActor struct {
	txi  int
	done atomic.Bool
	err  error
}

type commitActor struct {
	txs   []int
	codes []int
	done  atomic.Bool
	err   error
}

type track struct {
	arr  int
	gas  int64
	prio int64
	// ambig: an accepting response arrived while the tx was in the pool and no second copy
	// shows up: either the response was dropped (pool full, sender conflict) and the old entry
	// stands, or the old entry left (evicted by this very response, expired or committed in an
	// update that could not be observed) and a new one was inserted. Its position in the defined
	// order is unknown until it leaves the pool.
	ambig bool
	com   int64 // finished commits when it was seen entering the pool
	reqEp int64 // finished commits when the admitting CheckTx was requested
}

type sim struct {
	env *simcore.Env
	cfg simcore.Op
	ver int
	vn  string // "v0" / "v1"

	mcfg  *config.MempoolConfig
	mp    mempool.Mempool
	conn  *simConn
	bx    *sm.BlockExecutor
	state sm.State
	univ  [][]byte
	index map[string]int

	// shared with actor goroutines
	mu           sync.Mutex
	appVer       int
	committedOK  map[int]bool
	reqPhase     bool // commit actor running, commit not yet requested at the application
	windowOpen   bool // commit requested at the application, update/recheck not finished
	recheckLeft  int  // -1: not known yet
	panics       []string
	commitGate   chan struct{}
	commitParked atomic.Bool
	closing      atomic.Bool
	commitsDone  atomic.Int64

	// driver only
	risk            bool // some goroutine may be blocked on a mutex: introspective settle
	mutexW          int
	subs            []*subActor
	commit          *commitActor
	height          int64
	commits         int
	opsLeft         int
	lastObs         []int
	seq             int
	tracked         map[int]*track
	admit           []int           // txs with an accepting New response since the last observation, in delivery order
	admitV          map[int]verdict // their verdicts
	admitCom        map[int]bool    // v1: accepting New response delivered while the commit actor held the lock: applied after the update
	delivNew        map[int]bool    // New responses delivered since the last observation
	justCom         []int           // block of the commit that finished since the last observation
	lru             *lruModel
	comRem          map[int]bool  // committed with code OK and still remembered by the reference LRU
	comAt           map[int]int64 // number of finished commits when it was last committed
	admitEp         map[int]int64 // epoch of the request whose accepting response was delivered last
	nUpdates        int
	commitErr       error
	flushedInflight bool  // Flush was called while requests were unanswered
	pendingRm       []int // cache removals of responses that are delivered but possibly not processed yet
}

func newSim(env *simcore.Env, cfg simcore.Op) simcore.Sim {
	s := &sim{env: env, cfg: cfg, ver: cfg.Int("ver"), index: map[string]int{}, committedOK: map[int]bool{},
		tracked: map[int]*track{}, admitV: map[int]verdict{}, admitCom: map[int]bool{}, delivNew: map[int]bool{},
		comRem: map[int]bool{}, comAt: map[int]int64{}, admitEp: map[int]int64{}, opsLeft: cfg.Int("nops"), commitGate: make(chan struct{})}
	s.vn = fmt.Sprintf("v%d", s.ver)
	for i, n := range cfg.Ints("lens") {
		if n < 1 {
			n = 1
		}
		tx := bytes.Repeat([]byte{'x'}, n)
		tx[0] = byte('A' + i)
		if n > 1 {
			tx[1] = byte('a' + i) // distinct even if the first byte were shared
		}
		s.univ = append(s.univ, tx)
		s.index[string(tx)] = i
	}
	if len(s.univ) == 0 {
		s.univ = [][]byte{{'A'}}
		s.index["A"] = 0
	}
	s.lru = &lruModel{cap: cfg.Int("cache")}

	mc := config.DefaultMempoolConfig()
	mc.Size = cfg.Int("size")
	mc.CacheSize = cfg.Int("cache")
	mc.MaxTxsBytes = int64(cfg.Int("max_txs_bytes"))
	mc.MaxTxBytes = cfg.Int("max_tx_bytes")
	mc.Recheck = cfg.Bool("recheck")
	mc.KeepInvalidTxsInCache = cfg.Bool("keep_invalid")
	mc.TTLNumBlocks = int64(cfg.Int("ttl_blocks"))
	mc.TTLDuration = time.Duration(cfg.Int("ttl_ns"))
	s.mcfg = mc

	pk := ed25519.GenPrivKeyFromSecret([]byte("mempoolsim-val")).PubKey()
	cp := *types.DefaultConsensusParams()
	cp.Block.MaxGas = int64(cfg.Int("maxgas"))
	s.state = sm.State{ChainID: "mempoolsim", InitialHeight: 1, ConsensusParams: cp,
		Validators: types.NewValidatorSet([]*types.Validator{types.NewValidator(pk, 10)})}

	s.conn = &simConn{s: s, deliverCh: make(chan delivery)}
	go s.conn.recvLoop()
	if s.ver == 0 {
		mp := mempoolv0.NewCListMempool(mc, s.conn, 0,
			mempoolv0.WithPreCheck(sm.TxPreCheck(s.state)), mempoolv0.WithPostCheck(sm.TxPostCheck(s.state)))
		s.mp = mp
	} else {
		s.mp = mempoolv1.NewTxMempool(log.NewNopLogger(), mc, s.conn, 0,
			mempoolv1.WithPreCheck(sm.TxPreCheck(s.state)), mempoolv1.WithPostCheck(sm.TxPostCheck(s.state)))
	}
	if cfg.Bool("txs_available") {
		s.mp.EnableTxsAvailable()
	}
	s.bx = sm.NewBlockExecutor(nil, log.NewNopLogger(), &consConn{s}, s.mp, sm.EmptyEvidencePool{})
	return s
}

func (s *sim) txIndex(tx []byte) int {
	if i, ok := s.index[string(tx)]; ok {
		return i
	}
	return -1
}

func (s *sim) recoverActor(who string) {
	if r := recover(); r != nil {
		msg := fmt.Sprint(r)
		s.mu.Lock()
		s.panics = append(s.panics, who+": "+msg)
		s.mu.Unlock()
	}
}

// ---------------------------------------------------------------- application model

func mix(a, b, c uint64) uint64 {
	r := simcore.NewRNG(a*0x9e3779b97f4a7c15 ^ b*0xbf58476d1ce4e5b9 ^ c*0x94d049bb133111eb)
	r.Uint64()
	return r.Uint64()
}

// verdictAt: what the application answers to CheckTx(tx i) while its state is version ver.
func (s *sim) verdictAt(i, ver int) verdict {
	seed := uint64(s.cfg.Int("vseed"))
	epoch := 0
	for w := 1; w <= ver; w++ {
		if int(mix(seed, uint64(i), uint64(1000+w))%100) < s.cfg.Int("p_flip") {
			epoch = w
		}
	}
	h := mix(seed, uint64(i), uint64(epoch))
	v := verdict{ok: int(h%100) >= s.cfg.Int("p_reject")}
	v.gas = int64(mix(seed, uint64(i), 7777) % 5) // function of the tx only
	v.prio = int64((h >> 16) % uint64(max(1, s.cfg.Int("prios"))))
	if s.ver == 1 && s.cfg.Bool("senders") {
		v.sender = []string{"", "", "", "a", "b"}[(h>>32)%5]
	}
	s.mu.Lock()
	if s.cfg.Bool("replay_protect") && s.committedOK[i] {
		v.ok = false
	}
	s.mu.Unlock()
	return v
}

func (s *sim) appVersion() int {
	s.mu.Lock()
	defer s.mu.Unlock()
	return s.appVer
}

func (s *sim) phaseTag() string {
	s.mu.Lock()
	defer s.mu.Unlock()
	switch {
	case s.reqPhase:
		return "inflush"
	case s.windowOpen:
		return "window"
	}
	return "idle"
}

// commitRequested runs on the commit actor at the moment the commit request is issued on the
// consensus connection. C05: nothing new may be outstanding on the mempool connection.
func (s *sim) commitRequested() {
	c := s.conn
	c.mu.Lock()
	var tags []string
	for _, l := range [][]*request{c.queue, c.arrivals} {
		for _, r := range l {
			if r.kind == kNew {
				tags = append(tags, fmt.Sprintf("tx%d(requested:%s)", r.txi, r.tag))
			}
		}
	}
	c.mu.Unlock()
	s.mu.Lock()
	s.reqPhase = false
	s.windowOpen = true
	s.recheckLeft = -1
	s.mu.Unlock()
	if len(tags) > 0 {
		when := "preflush"
		if strings.Contains(strings.Join(tags, " "), "inflush") {
			when = "inflush"
		}
		s.env.Count("probe.c05_outstanding_at_commit")
		s.env.Report("C05", s.vn+"-newcheck-outstanding-at-commit-"+when,
			"%s: Commit is requested at the application while CheckTx(New) requests are unanswered on the mempool connection: %v", s.vn, tags)
	}
}

// appCommit: the application executes Commit (its state version changes).
func (s *sim) appCommit() {
	s.mu.Lock()
	s.appVer++
	if c := s.commit; c != nil {
		for k, i := range c.txs {
			if c.codes[k] == 0 {
				s.committedOK[i] = true
			}
		}
	}
	s.mu.Unlock()
}

// ---------------------------------------------------------------- reference LRU

// lruModel: what a least-recently-used set of capacity cap remembers, fed only with the
// events whose effect on the cache is certain (see cacheNote below).
type lruModel struct {
	cap   int
	order []int // least recent first
}

func (l *lruModel) has(x int) bool {
	for _, y := range l.order {
		if y == x {
			return true
		}
	}
	return false
}

func (l *lruModel) remove(x int) {
	for k, y := range l.order {
		if y == x {
			l.order = append(l.order[:k], l.order[k+1:]...)
			return
		}
	}
}

// push returns the evicted element (or -1).
func (l *lruModel) push(x int) int {
	if l.cap <= 0 {
		return -1
	}
	ev := -1
	if l.has(x) {
		l.remove(x)
	} else if len(l.order) >= l.cap {
		ev = l.order[0]
		l.order = l.order[1:]
	}
	l.order = append(l.order, x)
	return ev
}

func (s *sim) lruPush(x int) {
	if ev := s.lru.push(x); ev >= 0 {
		delete(s.comRem, ev)
		if s.tracked[ev] != nil {
			s.env.Count("fault.cache_evicts_live_tx")
		}
	}
}

// ---------------------------------------------------------------- settle

var stackBuf = make([]byte, 1<<17)

// scanBubble classifies the goroutines of the caller's bubble (other than the caller):
// busy = running/runnable/anything not known to be blocked, mutexW = blocked on a sync mutex.
func scanBubble() (busy, mutexW int) {
	var b []byte
	for {
		n := runtime.Stack(stackBuf, true)
		if n < len(stackBuf) {
			b = stackBuf[:n]
			break
		}
		stackBuf = make([]byte, 2*len(stackBuf))
	}
	my := ""
	first := true
	for len(b) > 0 {
		var line []byte
		if k := bytes.IndexByte(b, '\n'); k >= 0 {
			line, b = b[:k], b[k+1:]
		} else {
			line, b = b, nil
		}
		if !bytes.HasPrefix(line, []byte("goroutine ")) || !bytes.HasSuffix(line, []byte("]:")) {
			continue
		}
		lb := bytes.IndexByte(line, '[')
		if lb < 0 {
			continue
		}
		parts := strings.Split(string(line[lb+1:len(line)-2]), ", ")
		tag := ""
		for _, p := range parts[1:] {
			if strings.HasPrefix(p, "synctest bubble ") {
				tag = p
			}
		}
		if first {
			first = false
			my = tag
			continue
		}
		st := parts[0]
		if my == "" || tag != my {
			// A goroutine of the bubble that starts a GC cycle or assists the GC is taken out of
			// its bubble for that time (runtime.gcStart, gcAssistAlloc) and shows up without the
			// tag, runnable or waiting for a runtime semaphore. So a goroutine outside the bubble
			// counts as busy unless it is parked in one of the states the process's idle
			// goroutines (test main, signal loop, watchdog) sit in.
			if tag == "" && !idleOutside(st) {
				busy++
			}
			continue
		}
		switch {
		case strings.HasPrefix(st, "sync.Mutex.Lock"), strings.HasPrefix(st, "sync.RWMutex.RLock"), strings.HasPrefix(st, "sync.RWMutex.Lock"):
			mutexW++
		case strings.HasPrefix(st, "chan receive"), strings.HasPrefix(st, "chan send"), strings.HasPrefix(st, "select"),
			strings.HasPrefix(st, "sync.WaitGroup.Wait"), strings.HasPrefix(st, "sync.Cond.Wait"), strings.HasPrefix(st, "sleep"),
			strings.HasPrefix(st, "synctest.Run"), strings.HasPrefix(st, "synctest.Wait"):
		default:
			// includes "semacquire": a goroutine that starts a GC cycle waits for the world
			// semaphore, which this very stack dump holds
			busy++
		}
	}
	return
}

func idleOutside(st string) bool {
	for _, p := range []string{"chan receive", "chan send", "select", "syscall", "sleep", "IO wait", "sync.Cond.Wait",
		"sync.WaitGroup.Wait", "finalizer wait", "cleanup wait", "GC worker (idle)", "GC sweep wait", "GC scavenge wait",
		"force gc (idle)", "trace reader (blocked)", "synctest.Run", "synctest.Wait"} {
		if strings.HasPrefix(st, p) {
			return true
		}
	}
	return false
}

// settle waits until the goroutine chain woken by the last stimulus has come to rest.
// Normally that is synctest.Wait(). While the commit actor is inside Commit (it may park
// while holding the mempool's RWMutex) a caller can be blocked on that mutex, which
// synctest does not regard as durably blocked; then the bubble's goroutine states are
// inspected instead (a goroutine waiting for a sync mutex counts as at rest).
func (s *sim) settle() {
	if !s.risk {
		synctest.Wait()
		return
	}
	for i := 0; ; i++ {
		runtime.Gosched()
		busy, mw := scanBubble()
		if busy == 0 {
			s.mutexW = mw
			break
		}
		if i > 5_000_000 {
			panic("mempoolsim: bubble does not come to rest")
		}
	}
	if s.mutexW == 0 && (s.commit == nil || s.commit.done.Load()) {
		s.risk = false
	}
}

// advance moves the fake clock (impossible while a goroutine is blocked on a mutex).
func (s *sim) advance(d time.Duration) {
	if s.mutexW > 0 {
		return
	}
	time.Sleep(d)
	s.settle()
}

// lockHeld: is the mempool's lock (possibly) held by the parked commit actor?
func (s *sim) lockHeld() bool {
	if s.commit == nil || s.commit.done.Load() {
		return false
	}
	if s.ver == 1 && !s.commitParked.Load() {
		return false // v1 FlushAppConn releases the lock while it waits
	}
	return true
}

// canFlush: mempool.Flush may be called now.
func (s *sim) canFlush() bool {
	if s.idle() {
		return true
	}
	return s.ver == 1 && s.cfg.Bool("flush_inflight") && s.commit == nil && s.mutexW == 0
}

func (s *sim) idle() bool {
	_, _, n := s.conn.counts()
	return n == 0 && s.commit == nil && s.mutexW == 0 && len(s.subs) == 0
}

// ---------------------------------------------------------------- op generation

func (s *sim) Next(rng *simcore.RNG) simcore.Op {
	if s.opsLeft <= 0 {
		return nil
	}
	s.opsLeft--
	_, _, nq := s.conn.counts()
	commitActive := s.commit != nil
	w := make([]int, 9)
	if s.mutexW == 0 {
		w[0] = 40 // sub
	}
	if nq > 0 && s.canDeliver() {
		w[1] = 30
		if commitActive {
			w[1] = 45
		}
	}
	if !commitActive && s.mutexW == 0 {
		w[2] = 9
	}
	if commitActive && s.commitParked.Load() {
		w[3] = 30
	}
	if !s.lockHeld() && s.mutexW == 0 && s.env.Checking("C12") {
		w[4], w[5] = 6, 6
	}
	if s.idle() {
		w[6], w[7] = 1, 2
	} else if s.canFlush() {
		w[6] = 2
	}
	if s.ver == 1 && s.cfg.Int("ttl_ns") > 0 && s.mutexW == 0 && !s.lockHeld() {
		w[8] = 3
	}
	switch rng.Weighted(w) {
	case 0:
		return simcore.Op{"a": "sub", "tx": rng.Intn(len(s.univ)), "peer": rng.Intn(s.cfg.Int("peers") + 1)}
	case 1:
		n := 1
		if rng.Bool(0.3) {
			n = rng.Range(2, 6)
		}
		return simcore.Op{"a": "del", "n": n}
	case 2:
		var txs, codes []int
		used := map[int]bool{}
		k := rng.Intn(min(len(s.lastObs), 3) + 1)
		if rng.Bool(0.15) {
			k = len(s.lastObs)
		}
		for _, i := range s.lastObs[:k] {
			if !used[i] {
				used[i] = true
				txs = append(txs, i)
			}
		}
		for i := range s.univ {
			if !used[i] && len(txs) < 6 && rng.Bool(0.12) {
				used[i] = true
				txs = append(txs, i)
			}
		}
		for range txs {
			c := 0
			if rng.Bool(0.15) {
				c = 1
			}
			codes = append(codes, c)
		}
		if txs == nil {
			txs, codes = []int{}, []int{}
		}
		return simcore.Op{"a": "commit", "txs": txs, "codes": codes}
	case 3:
		return simcore.Op{"a": "rel"}
	case 4:
		n := rng.Range(-1, len(s.lastObs)+1)
		return simcore.Op{"a": "reap", "n": n}
	case 5:
		op := simcore.Op{"a": "reapbg", "bytes": -1, "gas": -1}
		if rng.Bool(0.8) {
			op["bytes"] = rng.Range(0, 12*(len(s.lastObs)+1))
		}
		if rng.Bool(0.6) {
			op["gas"] = rng.Range(0, 3*(len(s.lastObs)+1))
		}
		return op
	case 6:
		return simcore.Op{"a": "flush"}
	case 7:
		return simcore.Op{"a": "rm", "tx": rng.Intn(len(s.univ))}
	default:
		return simcore.Op{"a": "tick", "ns": rng.Range(1, 30)}
	}
}

// canDeliver: the head of the queue may be answered now. While a goroutine waits for the
// mempool's mutex no response is delivered to a parked sync caller (it would become a second
// waiter).
func (s *sim) canDeliver() bool {
	c := s.conn
	c.mu.Lock()
	defer c.mu.Unlock()
	if len(c.queue) == 0 {
		return false
	}
	h := c.queue[0]
	if h.ch != nil && s.mutexW > 0 {
		return false
	}
	return true
}

// ---------------------------------------------------------------- apply

func (s *sim) Apply(op simcore.Op) bool {
	e := s.env
	switch op.Kind() {
	case "sub":
		i := op.Int("tx")
		if i < 0 || i >= len(s.univ) || s.mutexW > 0 {
			return false
		}
		s.advance(1)
		a := &subActor{txi: i}
		s.subs = append(s.subs, a)
		tx := types.Tx(s.univ[i])
		info := mempool.TxInfo{SenderID: uint16(op.Int("peer"))}
		if s.commit != nil {
			s.risk = true
			e.Count("fault.submit_during_commit")
		}
		go func() {
			defer a.done.Store(true)
			defer s.recoverActor("submit")
			a.err = s.mp.CheckTx(tx, nil, info)
		}()
		s.settle()
		e.Count("op.sub")
		if s.mutexW > 0 {
			e.Count("probe.submit_blocked_on_commit_lock")
		}
	case "del":
		n := op.Int("n")
		did := 0
		for k := 0; k < n; k++ {
			if !s.canDeliver() {
				break
			}
			s.deliverHead()
			did++
			s.after(op)
			if e.Failed() {
				break
			}
		}
		if did == 0 {
			return false
		}
		e.Count("op.del")
		return true
	case "commit":
		if s.commit != nil || s.mutexW > 0 {
			return false
		}
		txs, codes := op.Ints("txs"), op.Ints("codes")
		seen := map[int]bool{}
		for _, i := range txs {
			if i < 0 || i >= len(s.univ) || seen[i] {
				return false
			}
			seen[i] = true
		}
		for len(codes) < len(txs) {
			codes = append(codes, 0)
		}
		s.startCommit(txs, codes[:len(txs)])
		e.Count("op.commit")
	case "rel":
		if s.commit == nil || !s.commitParked.Load() {
			return false
		}
		s.commitGate <- struct{}{}
		s.settle()
		e.Count("op.rel")
	case "reap":
		if s.lockHeld() || s.mutexW > 0 || !e.Checking("C12") {
			return false
		}
		s.checkReapMaxTxs(op.Int("n"))
		e.Count("op.reap")
	case "reapbg":
		if s.lockHeld() || s.mutexW > 0 || !e.Checking("C12") {
			return false
		}
		s.checkReapBytesGas(op.Int64("bytes"), op.Int64("gas"))
		e.Count("op.reapbg")
	case "flush":
		if !s.canFlush() {
			return false
		}
		if _, _, n := s.conn.counts(); n > 0 {
			s.flushedInflight = true
			e.Count("fault.flush_with_checks_in_flight")
		}
		s.mp.Flush()
		s.settle()
		s.lru.order = nil
		s.comRem = map[int]bool{}
		e.Count("op.flush")
		if s.mp.Size() != 0 || s.mp.SizeBytes() != 0 {
			e.Fail("C12", s.vn+"-size-mismatch", "after Flush: Size()=%d SizeBytes()=%d", s.mp.Size(), s.mp.SizeBytes())
		}
	case "rm":
		i := op.Int("tx")
		if i < 0 || i >= len(s.univ) || !s.idle() {
			return false
		}
		err := s.mp.RemoveTxByKey(types.Tx(s.univ[i]).Key())
		s.settle()
		if err == nil {
			e.Count("probe.removed_by_key")
		}
		e.Count("op.rm")
	case "tick":
		if s.mutexW > 0 || s.lockHeld() {
			return false
		}
		s.advance(time.Duration(max(1, op.Int("ns"))))
		e.Count("op.tick")
	default:
		return false
	}
	return s.after(op)
}

func (s *sim) startCommit(txs, codes []int) {
	c := &commitActor{txs: txs, codes: codes}
	s.mu.Lock()
	s.commit = c
	s.reqPhase = true
	s.mu.Unlock()
	s.admitCom = map[int]bool{}
	s.height++
	block := &types.Block{Header: types.Header{Height: s.height}}
	var dtx []*abci.ResponseDeliverTx
	for k, i := range txs {
		block.Data.Txs = append(block.Data.Txs, types.Tx(s.univ[i]))
		dtx = append(dtx, &abci.ResponseDeliverTx{Code: uint32(codes[k])})
	}
	inPool := map[int]bool{}
	for _, i := range s.lastObs {
		inPool[i] = true
	}
	for k, i := range txs {
		if codes[k] != 0 {
			s.env.Count("fault.block_tx_invalid")
		}
		if !inPool[i] {
			s.env.Count("fault.block_tx_not_in_pool")
		}
	}
	st := s.state
	st.LastBlockHeight = s.height
	s.risk = true
	go func() {
		defer c.done.Store(true)
		defer s.recoverActor("commit")
		// the real sequence: Lock, FlushAppConn, CommitSync, Update(pre, post), Unlock
		_, _, c.err = s.bx.Commit(st, block, dtx)
	}()
	s.settle()
}

// deliverHead answers the oldest request: the application executes it now.
func (s *sim) deliverHead() {
	c := s.conn
	c.mu.Lock()
	r := c.queue[0]
	c.queue = c.queue[1:]
	c.mu.Unlock()
	e := s.env
	switch r.kind {
	case kFlush:
		close(r.done)
		e.Logf(" deliver flush")
		e.Count("probe.flush_answered")
		s.settle()
		s.absorb()
		return
	}
	if s.ver == 1 {
		s.advance(1) // v1 stamps the arrival time when the caller resumes
	}
	if s.commit != nil {
		e.Count("fault.response_during_commit")
	}
	recheckRm := false
	ver := s.appVersion()
	v := verdict{}
	if r.txi >= 0 {
		v = s.verdictAt(r.txi, ver)
	}
	s.mu.Lock()
	window := s.windowOpen
	s.mu.Unlock()
	if r.kind == kNew {
		e.Count("probe.new_check_executed")
		if window {
			e.Count("probe.c05_new_in_window")
			e.Report("C05", s.vn+"-newcheck-executed-in-commit-window-"+r.tag,
				"%s: the application executes CheckTx(New, tx%d) (requested: %s) after Commit was requested and before update+recheck of that block finished", s.vn, r.txi, r.tag)
		}
		s.delivNew[r.txi] = true
		accept := v.ok && (s.cfg.Int("maxgas") < 0 || v.gas <= int64(s.cfg.Int("maxgas")))
		if accept {
			pending := false
			for _, j := range s.admit {
				pending = pending || j == r.txi
			}
			if s.tracked[r.txi] != nil || pending {
				// accepted although (as far as the last observation goes) it is in the pool already
				e.Count("probe.accept_while_in_pool")
			}
			s.admit = append(s.admit, r.txi)
			s.admitV[r.txi] = v
			s.admitEp[r.txi] = r.epoch
			if s.ver == 1 && s.commitParked.Load() {
				// the caller will wait for the mempool lock and insert after the update
				s.admitCom[r.txi] = true
			}
		}
		if !v.ok && !s.cfg.Bool("keep_invalid") {
			// certain: an invalid transaction is dropped from the cache (once the response is
			// processed, which in v1 may have to wait for the mempool lock)
			s.pendingRm = append(s.pendingRm, r.txi)
		}
	} else {
		e.Count("probe.recheck_executed")
		if t := s.tracked[r.txi]; t != nil && v.ok {
			t.prio = v.prio
		}
		if !v.ok {
			e.Count("fault.recheck_verdict_reject")
			// A failed recheck drops the tx from the cache only together with its pool entry: if
			// the tx has left the pool meanwhile (evicted, expired, committed) the response is
			// ignored and the cache keeps it. So the removal is certain only if the tx is in the
			// list right now and the response is processed right away (see below).
			if !s.cfg.Bool("keep_invalid") {
				for _, i := range s.listTxs() {
					if i == r.txi {
						recheckRm = true
					}
				}
			}
		}
	}
	code := uint32(0)
	if !v.ok {
		code = 1
	}
	res := &abci.ResponseCheckTx{Code: code, GasWanted: v.gas, Priority: v.prio, Sender: v.sender}
	e.Logf(" deliver kind=%d tx%d requested=%s appver=%d ok=%v gas=%d prio=%d sender=%q window=%v", r.kind, r.txi, r.tag, ver, v.ok, v.gas, v.prio, v.sender, window)
	if r.ch != nil {
		r.ch <- res
	} else {
		c.deliverCh <- delivery{req: r, res: abci.ToResponseCheckTx(*res)}
	}
	s.settle()
	if s.ver == 1 && s.mutexW > 0 {
		// a recheck handler that waits for the lock may find its tx gone after the update:
		// whether the cache drops it is uncertain, the reference keeps it (the safe side)
		e.Count("probe.handler_blocked_on_commit_lock")
	} else {
		// the response has been processed (v0 callbacks take no lock)
		if recheckRm {
			s.pendingRm = append(s.pendingRm, r.txi)
		}
		s.flushPendingRm()
	}
	s.absorb()
	if r.kind == kRecheck {
		s.mu.Lock()
		if s.recheckLeft > 0 {
			s.recheckLeft--
			if s.recheckLeft == 0 {
				s.windowOpen = false
			}
		}
		s.mu.Unlock()
	}
}

func (s *sim) flushPendingRm() {
	for _, i := range s.pendingRm {
		s.lru.remove(i)
		delete(s.comRem, i)
	}
	s.pendingRm = nil
}

// commitFinished: if the commit actor has returned, apply what Update certainly did to the
// cache (in block order, before any request that arrived after the unlock is looked at).
func (s *sim) commitFinished() bool {
	c := s.commit
	if c == nil || !c.done.Load() {
		return false
	}
	if c.err != nil {
		s.commitErr = c.err
	}
	for k, i := range c.txs {
		delete(s.tracked, i)
		if c.codes[k] == 0 {
			s.lruPush(i)
			if s.lru.has(i) {
				s.comRem[i] = true
			}
		} else if !s.cfg.Bool("keep_invalid") {
			s.lru.remove(i)
			delete(s.comRem, i)
		}
	}
	s.justCom = c.txs
	s.mu.Lock()
	s.commit = nil
	s.reqPhase = false
	s.mu.Unlock()
	s.commits++
	s.commitsDone.Add(1)
	for _, i := range c.txs {
		s.comAt[i] = s.commitsDone.Load()
	}
	s.nUpdates++
	s.env.Count("probe.commit_done")
	s.env.Logf(" commit of height %d done, app version %d", s.height, s.appVersion())
	return true
}

// absorb moves the requests that arrived during the last settle into the FIFO. Requests
// issued concurrently by v1's recheck goroutines arrive in an order the simulator does not
// own: they are put into a canonical order (any order is a legal socket arrival order).
func (s *sim) absorb() {
	finished := s.commitFinished()
	if s.mutexW == 0 {
		// a v1 response handler that had to wait for the lock has run by now (after the update)
		s.flushPendingRm()
	}
	defer func() {
		if finished {
			// how many recheck responses belong to this update
			_, nre, _ := s.conn.counts()
			s.mu.Lock()
			s.recheckLeft = nre
			if nre == 0 {
				s.windowOpen = false
			}
			s.mu.Unlock()
			if nre > 0 {
				s.env.Count("probe.update_with_recheck")
			}
		}
	}()
	c := s.conn
	c.mu.Lock()
	arr := c.arrivals
	c.arrivals = nil
	c.mu.Unlock()
	if len(arr) == 0 {
		return
	}
	if s.ver == 1 {
		newFirst := s.cfg.Bool("batch_new_first")
		rank := func(r *request) int {
			switch r.kind {
			case kNew:
				if newFirst {
					return 0
				}
				return 2
			case kRecheck:
				return 1
			}
			return 3 // a FlushSync issued in the same period goes last
		}
		sort.SliceStable(arr, func(a, b int) bool {
			if rank(arr[a]) != rank(arr[b]) {
				return rank(arr[a]) < rank(arr[b])
			}
			return arr[a].txi < arr[b].txi
		})
	}
	for _, r := range arr {
		if r.kind == kNew && r.txi >= 0 {
			s.lruPush(r.txi) // the request exists, so the cache did not know the tx and now does
		}
	}
	c.mu.Lock()
	c.queue = append(c.queue, arr...)
	c.mu.Unlock()
}

// after: bookkeeping and invariants after a settled action.
func (s *sim) after(op simcore.Op) bool {
	e := s.env
	s.mu.Lock()
	pan := s.panics
	s.panics = nil
	s.mu.Unlock()
	for _, p := range pan {
		e.Count("probe.panic")
		prop := "C12"
		if !e.Checking("C12") {
			prop = "C05"
		}
		e.Fail(prop, s.vn+"-panic", "%s: mempool code panicked: %s", s.vn, p)
	}
	// 1. requests that arrived, a commit that finished
	s.absorb()
	if s.commitErr != nil {
		e.Fail("C05", s.vn+"-commit-error", "BlockExecutor.Commit failed: %v", s.commitErr)
	}
	// 2. finished submitters
	var rest []*subActor
	for _, a := range s.subs {
		if !a.done.Load() {
			rest = append(rest, a)
			continue
		}
		e.Logf(" checktx tx%d returned %v", a.txi, a.err)
		switch {
		case a.err == nil:
			e.Count("probe.checktx_sent")
		case errors.Is(a.err, mempool.ErrTxInCache):
			e.Count("probe.checktx_in_cache")
			s.lruPush(a.txi) // a hit refreshes the entry
		default:
			var full mempool.ErrMempoolIsFull
			var large mempool.ErrTxTooLarge
			switch {
			case errors.As(a.err, &full):
				e.Count("probe.checktx_full")
			case errors.As(a.err, &large):
				e.Count("probe.checktx_too_large")
			default:
				e.Count("probe.checktx_other_error")
			}
		}
	}
	s.subs = rest
	// 3. limits hold at every moment
	if n := s.mp.Size(); n > s.mcfg.Size {
		e.Fail("C12", s.vn+"-count-over-limit", "Size()=%d exceeds the configured size %d", n, s.mcfg.Size)
	}
	if b := s.mp.SizeBytes(); b > s.mcfg.MaxTxsBytes {
		e.Fail("C12", s.vn+"-bytes-over-limit", "SizeBytes()=%d exceeds max_txs_bytes %d", b, s.mcfg.MaxTxsBytes)
	}
	// 4. pool contents
	if !s.lockHeld() && s.mutexW == 0 {
		s.observe()
	} else {
		s.listDup()
	}
	_, _, nq := s.conn.counts()
	e.Logf(" queue=%d mutexwaiters=%d phase=%s parked=%v", nq, s.mutexW, s.phaseTag(), s.commitParked.Load())
	e.State(s.ver, s.mcfg.Size, len(s.lastObs), len(s.lru.order), nq, s.phaseTag(), s.commit != nil, s.mutexW, op.Kind())
	return true
}

func (s *sim) reapAll() ([]int, types.Txs) {
	all := s.mp.ReapMaxTxs(-1)
	idx := make([]int, len(all))
	for k, tx := range all {
		idx[k] = s.txIndex(tx)
		if idx[k] < 0 {
			s.env.Fail("C12", s.vn+"-foreign-tx", "the pool holds %x, which was never submitted", []byte(tx))
		}
	}
	return idx, all
}

// observe evaluates the C12 invariants on the pool as ReapMaxTxs(-1) shows it.
func (s *sim) observe() {
	e := s.env
	if !e.Checking("C12") {
		// C05-only run: just keep the workload generator informed
		all := s.mp.ReapMaxTxs(-1)
		s.lastObs = s.lastObs[:0]
		seen := map[int]bool{}
		for _, tx := range all {
			if i := s.txIndex(tx); i >= 0 && !seen[i] {
				seen[i] = true
				s.lastObs = append(s.lastObs, i)
			}
		}
		e.Logf(" pool %v size=%d bytes=%d", s.lastObs, s.mp.Size(), s.mp.SizeBytes())
		s.admit, s.admitV, s.delivNew, s.justCom = nil, map[int]verdict{}, map[int]bool{}, nil
		return
	}
	idx, all := s.reapAll()
	// uniqueness: by evidence only. ReapMaxTxs(-1) shows a second copy in v0; v1 reaps through
	// its key index, so the list itself is walked: a tx twice in the list, or a list element
	// the key index no longer knows (what is left of a duplicate once one copy was removed by
	// key), is a duplicate.
	seen := map[int]bool{}
	dup := false
	for _, i := range idx {
		if seen[i] {
			dup = true
			s.dupFail("%s: ReapMaxTxs(-1) returns tx%d twice: %v (cache=%d size=%d)", s.vn, i, idx, s.mcfg.CacheSize, s.mcfg.Size)
		}
		seen[i] = true
	}
	list := s.listTxs()
	inList := map[int]int{}
	for _, i := range list {
		inList[i]++
		if inList[i] == 2 && !dup {
			dup = true
			s.dupFail("%s: the transaction list holds tx%d twice: list %v, ReapMaxTxs(-1) %v, Size()=%d SizeBytes()=%d (cache=%d size=%d)", s.vn, i, list, idx, s.mp.Size(), s.mp.SizeBytes(), s.mcfg.CacheSize, s.mcfg.Size)
		}
		if !seen[i] && !dup {
			dup = true
			s.dupFail("%s: the transaction list holds tx%d, which the key index does not know (left over from a second copy): list %v, ReapMaxTxs(-1) %v, Size()=%d SizeBytes()=%d (cache=%d size=%d)", s.vn, i, list, idx, s.mp.Size(), s.mp.SizeBytes(), s.mcfg.CacheSize, s.mcfg.Size)
		}
	}
	// Size / SizeBytes equal a recount
	var bytesSum int64
	for _, tx := range all {
		bytesSum += int64(len(tx))
	}
	if n, b := s.mp.Size(), s.mp.SizeBytes(); (n != len(all) || b != bytesSum) && !dup {
		e.Fail("C12", s.vn+"-size-mismatch", "%s: Size()=%d SizeBytes()=%d but ReapMaxTxs(-1) returns %d txs %v with %d bytes (list %v)", s.vn, n, b, len(all), idx, bytesSum, list)
	}
	// a committed tx is gone
	for _, i := range s.justCom {
		if seen[i] {
			if dup {
				// reported above
			} else if s.admitCom[i] {
				e.Fail("C12", s.vn+"-committed-tx-readmitted-inflight", "%s: tx%d was committed at height %d and is in the pool afterwards (its CheckTx was answered while the commit held the lock and was applied after the update)", s.vn, i, s.height)
			} else {
				e.Fail("C12", s.vn+"-committed-tx-present", "%s: tx%d was committed at height %d and is still in the pool", s.vn, i, s.height)
			}
		}
	}
	s.justCom = nil
	// ... and not re-admitted while the cache remembers it
	for _, i := range idx {
		if s.comRem[i] && s.lru.has(i) {
			if ep, ok := s.admitEp[i]; ok && ep < s.comAt[i] {
				e.Fail("C12", s.vn+"-committed-tx-readmitted-inflight", "%s: tx%d was committed, is still within the %d most recently used cache entries %v, and is in the pool again: its CheckTx was requested before that commit finished and answered after the update", s.vn, i, s.lru.cap, s.lru.order)
			} else {
				e.Fail("C12", s.vn+"-committed-tx-readmitted", "%s: tx%d was committed, is still within the %d most recently used cache entries %v, and is in the pool again", s.vn, i, s.lru.cap, s.lru.order)
			}
			delete(s.comRem, i)
		}
	}
	// tracking: arrival sequence, gas, priority of pool members
	for _, i := range s.admit {
		if seen[i] && s.tracked[i] == nil {
			s.seq++
			v := s.admitV[i]
			s.tracked[i] = &track{arr: s.seq, gas: v.gas, prio: v.prio, com: s.commitsDone.Load(), reqEp: s.admitEp[i]}
			e.Count("probe.admitted")
		} else if seen[i] {
			s.tracked[i].ambig = true
			s.tracked[i].com, s.tracked[i].reqEp = s.commitsDone.Load(), s.admitEp[i]
			e.Count("probe.ambiguous_readmission")
		}
	}
	for i := range s.delivNew {
		if !seen[i] {
			// answered but not in the pool: whether the cache still holds it is uncertain
			delete(s.comRem, i)
		}
	}
	s.admit, s.admitV, s.delivNew = nil, map[int]verdict{}, map[int]bool{}
	for i := range s.tracked {
		if !seen[i] {
			delete(s.tracked, i)
		}
	}
	for _, i := range idx {
		if s.tracked[i] == nil {
			e.Fail("C12", s.vn+"-unaccepted-tx", "%s: tx%d is in the pool although no accepting CheckTx response for it was delivered", s.vn, i)
			s.tracked[i] = &track{arr: s.seq}
		}
	}
	// defined order (entries whose position is ambiguous are left out)
	if !dup {
		var ord []int
		for _, i := range idx {
			if !s.tracked[i].ambig {
				ord = append(ord, i)
			}
		}
		for k := 1; k < len(ord); k++ {
			a, b := s.tracked[ord[k-1]], s.tracked[ord[k]]
			bad := a.arr > b.arr
			if s.ver == 1 {
				bad = a.prio < b.prio || a.prio == b.prio && a.arr > b.arr
			}
			if bad {
				e.Fail("C12", s.vn+"-order", "%s: ReapMaxTxs(-1) order %v violates the defined order: tx%d (prio %d, arrival #%d) comes before tx%d (prio %d, arrival #%d)", s.vn, idx, ord[k-1], a.prio, a.arr, ord[k], b.prio, b.arr)
			}
		}
	}
	// after update + recheck only txs the application accepts remain
	s.mu.Lock()
	quiet := !s.windowOpen && !s.reqPhase
	s.mu.Unlock()
	if _, nre, _ := s.conn.counts(); s.mcfg.Recheck && quiet && nre == 0 && s.nUpdates > 0 {
		ver := s.appVersion()
		for _, i := range idx {
			if !s.verdictAt(i, ver).ok {
				e.Count("probe.stale_seen")
				t, done := s.tracked[i], s.commitsDone.Load()
				if t.com >= done && t.reqEp < done {
					// entered the pool after the last update although its check was requested before
					// that commit finished
					e.Fail("C12", s.vn+"-stale-tx-after-recheck-inflight", "%s: recheck is on, update and recheck for height %d are finished, yet tx%d, which the application rejects in its current state (version %d), is in the pool %v: its CheckTx was requested before that commit finished and took effect after the update", s.vn, s.height, i, ver, idx)
				} else {
					e.Fail("C12", s.vn+"-stale-tx-after-recheck", "%s: recheck is on, update and recheck for height %d are finished, yet tx%d, which the application rejects in its current state (version %d), is in the pool %v", s.vn, s.height, i, ver, idx)
				}
			}
		}
	}
	s.lastObs = idx
	e.Logf(" pool %v size=%d bytes=%d lru=%v", idx, s.mp.Size(), s.mp.SizeBytes(), s.lru.order)
	if len(idx) == s.mcfg.Size {
		e.Count("probe.pool_full_count")
	}
	if len(idx) > s.mcfg.CacheSize && s.mcfg.CacheSize > 0 {
		e.Count("probe.pool_larger_than_cache")
	}
}

// dupFail reports the duplicate class (only ever called with a second copy in evidence).
func (s *sim) dupFail(format string, a ...any) {
	s.env.Count("probe.dup_seen")
	s.env.Fail("C12", s.dupSig(), format, a...)
}

type fronter interface{ TxsFront() *clist.CElement }

// listTxs walks the mempool's transaction list (the one the reactor gossips from). It needs
// no lock, so it also works while the commit actor holds the mempool lock.
func (s *sim) listTxs() []int {
	var out []int
	for e := s.mp.(fronter).TxsFront(); e != nil; e = e.Next() {
		f := reflect.ValueOf(e.Value).Elem().FieldByName("tx") // *v0.mempoolTx / *v1.WrappedTx
		out = append(out, s.txIndex(f.Bytes()))
	}
	return out
}

// listDup: a transaction twice in the list (checked after every step, also under the lock:
// in v0 an update that follows would remove one copy again before the pool can be reaped).
func (s *sim) listDup() {
	if !s.env.Checking("C12") {
		return
	}
	list := s.listTxs()
	cnt := map[int]int{}
	for _, i := range list {
		cnt[i]++
		if cnt[i] == 2 {
			s.dupFail("%s: the transaction list holds tx%d twice: list %v, Size()=%d SizeBytes()=%d (cache=%d size=%d)", s.vn, i, list, s.mp.Size(), s.mp.SizeBytes(), s.mcfg.CacheSize, s.mcfg.Size)
		}
	}
}

// dupSig: the class of "same transaction twice in the pool" (the cache is disabled, or the
// LRU forgot a transaction that is still in the pool).
func (s *sim) dupSig() string {
	if s.flushedInflight && s.mcfg.CacheSize > 0 {
		// Flush emptied the cache while a check was in flight: the tx it admitted is unknown to the cache
		return s.vn + "-dup-tx-after-inflight-flush"
	}
	if s.mcfg.CacheSize == 0 {
		return s.vn + "-dup-tx-nocache"
	}
	return s.vn + "-dup-tx-lru-evicted"
}

func protoSize(tx []byte) int64 {
	// repeated bytes field 1 of tendermint.types.Data: tag + varint(len) + len
	n := int64(1)
	for l := uint64(len(tx)); ; l >>= 7 {
		n++
		if l < 0x80 {
			break
		}
	}
	return n + int64(len(tx))
}

func isPrefix(got types.Txs, all types.Txs) bool {
	if len(got) > len(all) {
		return false
	}
	for k := range got {
		if !bytes.Equal(got[k], all[k]) {
			return false
		}
	}
	return true
}

func (s *sim) checkReapMaxTxs(n int) {
	e := s.env
	_, all := s.reapAll()
	got := s.mp.ReapMaxTxs(n)
	want := len(all)
	if n >= 0 && n < want {
		want = n
	}
	if len(got) > want {
		e.Count("probe.reap_over_count")
		e.Fail("C12", s.vn+"-reapmaxtxs-exceeds-max", "%s: ReapMaxTxs(%d) returned %d txs (pool holds %d)", s.vn, n, len(got), len(all))
	}
	if len(got) < want {
		e.Fail("C12", s.vn+"-reapmaxtxs-short", "%s: ReapMaxTxs(%d) returned %d txs (pool holds %d)", s.vn, n, len(got), len(all))
	}
	if !isPrefix(got, all) {
		e.Fail("C12", s.vn+"-reap-not-prefix", "%s: ReapMaxTxs(%d)=%v is not a prefix of the pool order %v", s.vn, n, s.idxOf(got), s.idxOf(all))
	}
}

func (s *sim) idxOf(txs types.Txs) []int {
	out := make([]int, len(txs))
	for k, tx := range txs {
		out[k] = s.txIndex(tx)
	}
	return out
}

func (s *sim) checkReapBytesGas(maxBytes, maxGas int64) {
	e := s.env
	idx, all := s.reapAll()
	got := s.mp.ReapMaxBytesMaxGas(maxBytes, maxGas)
	if !isPrefix(got, all) {
		e.Fail("C12", s.vn+"-reap-not-prefix", "%s: ReapMaxBytesMaxGas(%d,%d)=%v is not a prefix of the pool order %v", s.vn, maxBytes, maxGas, s.idxOf(got), idx)
	}
	var b, g int64
	for k := range got {
		b += protoSize(got[k])
		if t := s.tracked[idx[k]]; t != nil {
			g += t.gas
		}
	}
	if maxBytes >= 0 && b > maxBytes {
		e.Fail("C12", s.vn+"-reap-bytes-exceeded", "%s: ReapMaxBytesMaxGas(%d,%d) returned %v with encoded size %d", s.vn, maxBytes, maxGas, s.idxOf(got), b)
	}
	if maxGas >= 0 && g > maxGas {
		e.Fail("C12", s.vn+"-reap-gas-exceeded", "%s: ReapMaxBytesMaxGas(%d,%d) returned %v with total gas %d", s.vn, maxBytes, maxGas, s.idxOf(got), g)
	}
	if len(got) < len(all) {
		nx := all[len(got)]
		var ng int64
		if t := s.tracked[idx[len(got)]]; t != nil {
			ng = t.gas
		}
		fitsB := maxBytes < 0 || b+protoSize(nx) <= maxBytes
		fitsG := maxGas < 0 || g+ng <= maxGas
		if fitsB && fitsG {
			e.Fail("C12", s.vn+"-reap-not-maximal", "%s: ReapMaxBytesMaxGas(%d,%d) returned %d of %d txs although the next one (size %d, gas %d) fits (used %d bytes, %d gas)", s.vn, maxBytes, maxGas, len(got), len(all), protoSize(nx), ng, b, g)
		}
		e.Count("probe.reap_limited")
	}
}

// ---------------------------------------------------------------- end of run

// drain answers everything outstanding and lets every actor finish.
func (s *sim) drain(check bool) {
	for i := 0; i < 10000; i++ {
		if check && s.env.Failed() {
			return
		}
		progressed := false
		if s.commit != nil && s.commitParked.Load() {
			s.commitGate <- struct{}{}
			s.settle()
			progressed = true
		} else if s.canDeliver() {
			s.deliverHead()
			progressed = true
		}
		if check {
			s.after(simcore.Op{"a": "drain"})
		} else {
			s.absorb()
		}
		if !progressed {
			return
		}
	}
}

func (s *sim) Finish() {
	s.drain(true)
	if s.env.Failed() {
		return
	}
	if !s.lockHeld() && s.mutexW == 0 && s.env.Checking("C12") {
		s.checkReapMaxTxs(-1)
		s.checkReapBytesGas(-1, -1)
		for _, a := range s.subs {
			if !a.done.Load() {
				s.env.Fail("C12", s.vn+"-stuck-checktx", "a CheckTx(tx%d) call never returned although every request was answered", a.txi)
			}
		}
	}
}

func (s *sim) Close() {
	s.closing.Store(true)
	s.risk = true // state-inspecting settle: works whatever state the run was left in
	func() {
		defer func() { recover() }()
		s.drain(false)
	}()
	close(s.conn.deliverCh)
}
