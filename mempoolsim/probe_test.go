package mempoolsim

import (
	"fmt"
	"runtime"
	"sync"
	"testing"
	"testing/synctest"
	"time"
)

func TestProbe(t *testing.T) {
	synctest.Test(t, func(t *testing.T) {
		var mu sync.RWMutex
		mu.Lock()
		ch := make(chan int)
		go func() { mu.RLock(); mu.RUnlock() }()
		go func() { mu.Lock(); mu.Unlock() }()
		go func() { <-ch }()
		
		var wg sync.WaitGroup
		wg.Add(1)
		go func() { wg.Wait() }()
		for i := 0; i < 100; i++ {
			runtime.Gosched()
		}
		buf := make([]byte, 1<<16)
		t0 := time.Now()
		_ = t0
		n := runtime.Stack(buf, true)
		fmt.Println(string(buf[:n]))
		mu.Unlock()
		close(ch)
		wg.Done()
		synctest.Wait()
	})
	buf := make([]byte, 1<<16)
	t0 := time.Now()
	for i := 0; i < 1000; i++ {
		runtime.Stack(buf, true)
	}
	fmt.Println("per stack", time.Since(t0)/1000)
}
