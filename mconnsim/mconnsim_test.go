// Package mconnsim: deterministic simulation of the real p2p/conn.MConnection (channels,
// packetisation, priorities, send queues, flush throttle, ping/pong, flowrate limits) over a
// simulated net.Conn pair on the bubble's fake clock. Decides the connection half of C17:
// exactly-once, unmodified, per-channel-ordered delivery while the connection is up, and
// hostile input that at worst drops the peer and never makes the receiver buffer more than
// the channel's capacity.
//
// One stimulus = one Send/TrySend by one actor, OR delivery of at most one packet's worth of
// bytes to ONE reader (which may release ONE parked writer), OR one clock advance; then Settle.
//
// Modes (drawn per run) are chosen so that MConnection.sendRoutine never reaches its select
// with two ready cases whose order would be observable (Go's select is not seedable):
//
//	free    unbounded pipe, no rate limit, ping/pong on            (sendRoutine never parks)
//	bp      bounded pipe (writer parks), no ping, the clock stands still while a writer is parked
//	stall   bounded pipe, one active channel per side, clock free  (Send time-outs)
//	rl      flowrate-limited, several channels, run shorter than the 2 s stats tick
//	rl1     flowrate-limited, one active channel per side, clock free
//	hostile end 0 is a raw byte writer, end 1 a real MConnection
package mconnsim

import (
	"bytes"
	"encoding/binary"
	"errors"
	"fmt"
	"io"
	"net"
	"os"
	"runtime"
	"strings"
	"sync"
	"testing"
	"time"

	"github.com/gogo/protobuf/proto"

	"github.com/tendermint/tendermint/libs/log"
	"github.com/tendermint/tendermint/libs/protoio"
	"github.com/tendermint/tendermint/p2p/conn"
	tmp2p "github.com/tendermint/tendermint/proto/tendermint/p2p"

	"verif/simcore"
)

func TestMain(m *testing.M) {
	simcore.InitProcess()
	os.Exit(m.Run())
}

func TestSim(t *testing.T) { simcore.Main(t, harness) }

var harness = &simcore.Harness{
	Name:   "mconnsim",
	Props:  []string{"C17"},
	Config: genConfig,
	New:    newSim,
	MaxOps: 700,
	Real: []string{"p2p/conn.MConnection on both ends (one end in hostile mode): Send, TrySend, sendRoutine, recvRoutine, channel send queues, priorities, packetisation / reassembly, capacity check, flush throttle timer, ping/pong timers, Stop, FlushStop",
		"libs/flowrate monitors (send and receive limits) and libs/timer.ThrottleTimer on the bubble's fake clock", "libs/protoio delimited reader/writer, bufio buffers"},
	Stub: []string{"net.Conn: simulated full-duplex pipe; the simulator decides how many bytes each delivery carries (never more than one packet completion per stimulus), optional bound on bytes in flight (writer parks), deadlines are no-ops",
		"the reactors: onReceive / onError record what arrives", "hostile peer: the harness writes protobuf-delimited Packet bytes by hand"},
	Assumptions: []string{"bytes written to the connection arrive unmodified and in order (transport integrity is C16's business)",
		"a run never lets sendRoutine see two ready select cases with observable order: modes restrict which of {bounded pipe, rate limit, ping, several active channels, long clock advances} are combined"},
	MinimizeReps: 2,
}

// ---------------------------------------------------------------- configuration

func genConfig(rng *simcore.RNG, env *simcore.Env) simcore.Op {
	c := simcore.Op{}
	mode := []string{"free", "bp", "stall", "rl", "rl1", "hostile"}[rng.Weighted([]int{32, 20, 8, 12, 6, 22})]
	c["mode"] = mode
	payload := []int{1, 7, 64, 256, 1024}[rng.Weighted([]int{1, 2, 3, 3, 3})]
	c["payload"] = payload
	nch := rng.Range(2, 4)
	ids := map[int]bool{}
	var chs []simcore.Op
	for len(chs) < nch {
		id := rng.Intn(128)
		if rng.Bool(0.05) {
			id = 128 + rng.Intn(128) // two-byte varint on the wire
		}
		if rng.Bool(0.06) {
			id = []int{0, 255, 127, 128, 0, 127}[rng.Intn(6)]
		}
		if ids[id] {
			continue
		}
		ids[id] = true
		ch := simcore.Op{"id": id}
		for side := 0; side < 2; side++ {
			p := fmt.Sprint(side)
			ch["prio"+p] = rng.Range(1, 10)
			ch["sq"+p] = rng.Range(1, 4)
			ch["rbuf"+p] = []int{1, 64, 4096}[rng.Intn(3)]
			rc := payload*[]int{2, 5, 20}[rng.Intn(3)] + rng.Range(-1, 1)
			if rc < 1 {
				rc = 1
			}
			ch["rcap"+p] = rc
		}
		chs = append(chs, ch)
	}
	c["chs"] = chs
	c["flush_ms"] = []int{1, 10, 100}[rng.Intn(3)]
	hour := 3600 * 1000
	if mode == "free" || mode == "hostile" {
		for side := 0; side < 2; side++ {
			p := rng.Range(3000, 30000)
			if rng.Bool(0.15) {
				p = rng.Range(300, 3000) // tight: pong time-outs happen
			}
			c[fmt.Sprint("ping_ms", side)] = p
			c[fmt.Sprint("pong_ms", side)] = p * rng.Range(50, 90) / 100
		}
	} else {
		for side := 0; side < 2; side++ {
			c[fmt.Sprint("ping_ms", side)] = hour
			c[fmt.Sprint("pong_ms", side)] = hour / 2
		}
	}
	if mode == "bp" || mode == "stall" {
		c["wcap"] = []int{16, 100, 1000, 5000}[rng.Intn(4)]
	}
	if mode == "rl" || mode == "rl1" {
		c["send_rate"] = []int{2000, 10000, 50000}[rng.Intn(3)]
		c["recv_rate"] = []int{0, 2000, 10000, 50000}[rng.Intn(4)]
	}
	c["single"] = mode == "stall" || mode == "rl1"
	c["answer_pings"] = rng.Bool(0.85)
	c["bad_pm"] = []int{20, 60, 150}[rng.Intn(3)] // hostile: per mille of raw writes that are not well-formed traffic
	c["nops"] = rng.Range(40, 300)
	if env.Thorough() {
		c["nops"] = rng.Range(40, 650)
	}
	c["stop"] = rng.Bool(0.15)
	c["oversize"] = rng.Bool(0.25)
	// hostile input kinds (swarm)
	var hk []string
	for _, k := range hostileKinds {
		if rng.Bool(0.45) {
			hk = append(hk, k)
		}
	}
	c["hk"] = hk
	return c
}

var hostileKinds = []string{"unk", "big", "frag", "ping", "pong", "rand", "hugelen", "empty", "badproto"}

// ---------------------------------------------------------------- pipe

type req struct {
	buf  []byte
	n    int
	err  error
	done chan struct{}
}

// framer finds the packet boundaries (uvarint length + body) in a byte stream.
type framer struct {
	hdr     []byte
	body    int64
	pos     int64
	garbage bool
}

// half is the byte stream towards one end.
type half struct {
	wire      []byte // written, in flight
	avail     []byte // delivered, not yet read
	wcap      int    // bound on len(wire); 0 = unbounded
	ends      []int64
	starts    []int64
	dTotal    int64
	fr        framer
	pktBuf    []byte // bytes of the packet currently being delivered (for decoding)
	finQueued bool
	finDeliv  bool
	dead      bool // the reader end is closed: whatever is written vanishes
	suspect   [][2]int64 // hostile mode: stream ranges holding input that is not well-formed traffic
}

func (h *half) feed(b []byte) {
	f := &h.fr
	for _, x := range b {
		f.pos++
		if f.garbage {
			continue
		}
		if f.body > 0 {
			f.body--
			if f.body == 0 {
				h.ends = append(h.ends, f.pos)
			}
			continue
		}
		f.hdr = append(f.hdr, x)
		if x < 0x80 {
			l, k := binary.Uvarint(f.hdr)
			f.hdr = f.hdr[:0]
			if k <= 0 || l > 1<<24 {
				f.garbage = true
				continue
			}
			if l == 0 {
				h.ends = append(h.ends, f.pos)
			} else {
				f.body = int64(l)
			}
		} else if len(f.hdr) >= binary.MaxVarintLen64 {
			f.garbage = true
		}
	}
}

type addr struct{ s string }

func (a addr) Network() string { return "sim" }
func (a addr) String() string  { return a.s }

// end implements net.Conn. Blocked calls park on a channel only the simulator closes.
type end struct {
	s      *sim
	id     int
	closed bool
	rst    bool
	rreq   *req
	wreq   *req
}

var errClosed = errors.New("simpipe: use of closed connection")
var errReset = errors.New("simpipe: broken pipe")

func (e *end) Read(p []byte) (int, error) {
	s := e.s
	h := s.h[e.id]
	s.mu.Lock()
	if e.closed {
		s.mu.Unlock()
		return 0, errClosed
	}
	if len(p) == 0 {
		s.mu.Unlock()
		return 0, nil
	}
	if len(h.avail) > 0 {
		n := copy(p, h.avail)
		h.avail = h.avail[n:]
		s.mu.Unlock()
		return n, nil
	}
	if h.finDeliv {
		s.mu.Unlock()
		return 0, io.EOF
	}
	r := &req{buf: p, done: make(chan struct{})}
	e.rreq = r
	s.mu.Unlock()
	<-r.done
	return r.n, r.err
}

// accept moves as much of b as fits into the wire. Caller holds mu.
func (s *sim) accept(h *half, b []byte) int {
	if h.dead {
		return len(b)
	}
	k := len(b)
	if h.wcap > 0 {
		free := h.wcap - len(h.wire)
		if free < 0 {
			free = 0
		}
		if k > free {
			k = free
		}
	}
	h.wire = append(h.wire, b[:k]...)
	h.feed(b[:k])
	return k
}

func (e *end) Write(p []byte) (int, error) {
	s := e.s
	h := s.h[1-e.id]
	s.mu.Lock()
	if e.closed {
		s.mu.Unlock()
		return 0, errClosed
	}
	if e.rst {
		s.mu.Unlock()
		return 0, errReset
	}
	k := s.accept(h, p)
	if k == len(p) {
		s.mu.Unlock()
		return k, nil
	}
	r := &req{buf: append([]byte{}, p[k:]...), n: k, done: make(chan struct{})}
	e.wreq = r
	s.mu.Unlock()
	<-r.done
	return r.n, r.err
}

func (e *end) Close() error {
	s := e.s
	s.mu.Lock()
	defer s.mu.Unlock()
	if e.closed {
		return nil
	}
	e.closed = true
	if e.rreq != nil {
		e.rreq.err = errClosed
		close(e.rreq.done)
		e.rreq = nil
	}
	if e.wreq != nil {
		e.wreq.err = errClosed
		close(e.wreq.done)
		e.wreq = nil
	}
	s.closedNow = append(s.closedNow, e.id)
	return nil
}

func (e *end) LocalAddr() net.Addr                { return addr{fmt.Sprint("sim", e.id)} }
func (e *end) RemoteAddr() net.Addr               { return addr{fmt.Sprint("sim", 1-e.id)} }
func (e *end) SetDeadline(t time.Time) error      { return nil }
func (e *end) SetReadDeadline(t time.Time) error  { return nil }
func (e *end) SetWriteDeadline(t time.Time) error { return nil }

// ---------------------------------------------------------------- simulator state

type chanCfg struct {
	id   byte
	prio int
	sq   int
	rbuf int
	rcap int
}

type msgRec struct {
	data []byte
	res  int // 0 pending, 1 accepted (true), 2 refused (false)
	try  bool
	at   time.Time
}

type actor struct {
	cmd  chan func()
	busy bool
}

type connSt struct {
	mc      *conn.MConnection
	end     *end
	t0      time.Time
	chans   []chanCfg
	issued  [][]*msgRec // per channel, in issue order: what this side offered for sending
	cursor  []int       // per channel: next entry of the PEER's issued list expected here
	recv    [][][]byte  // per channel: what this side received (appended by onReceive)
	checked []int
	unknown int
	acc     []int // per channel: bytes of the incomplete message delivered to this side so far
	errored bool
	errStr  string
	stopped bool // the harness stopped it
	excuse  string
	actors  []*actor
	ctl     *actor
	pktIn   int
	// hostile writer state (end 0 in hostile mode)
	partial [][]byte
}

type sim struct {
	env  *simcore.Env
	cfg  simcore.Op
	mode string
	mu   sync.Mutex
	h    [2]*half // h[i]: stream towards end i
	c    [2]*connSt
	nch  int
	payload  int
	maxPkt   int // largest well-formed packet on the wire (for the framer only)
	closedNow []int
	opsLeft   int
	dead      bool
	firstDown int // side that went down first (-1)
	downWhy   string
	seq       int
	deadline  time.Time // rl mode: no clock advance beyond
	stopDone  bool
	hkinds    []string
	hostileBad bool // a non-benign hostile item was written
	panics    []string
	preWake   func()
	lastMove  int
	over      [2]*overRec
	quiet     bool // Finish: no event-log lines (schedule may be racy there by design)
	wasDown   [2]bool
}

// overRec: the moment the bytes of one incomplete message delivered to a side exceeded
// capacity + one packet.
type overRec struct {
	ch, n int
}

func (s *sim) newActor() *actor {
	a := &actor{cmd: make(chan func())}
	go func() {
		for f := range a.cmd {
			func() {
				defer func() {
					if r := recover(); r != nil {
						s.mu.Lock()
						s.panics = append(s.panics, fmt.Sprint(r))
						s.mu.Unlock()
					}
				}()
				f()
			}()
			s.mu.Lock()
			a.busy = false
			s.mu.Unlock()
		}
	}()
	return a
}

func (s *sim) chanIdx(id byte) int {
	for i, c := range s.c[1].chans {
		if c.id == id {
			return i
		}
	}
	return -1
}

func newSim(env *simcore.Env, cfg simcore.Op) simcore.Sim {
	s := &sim{env: env, cfg: cfg, mode: cfg.Str("mode"), opsLeft: cfg.Int("nops"), payload: cfg.Int("payload"), firstDown: -1}
	s.hkinds = cfg.Strs("hk")
	chs := cfg.Subs("chs")
	s.nch = len(chs)
	for i := 0; i < 2; i++ {
		s.h[i] = &half{wcap: cfg.Int("wcap")}
	}
	if s.mode == "hostile" {
		s.h[0].wcap, s.h[1].wcap = 0, 0
	}
	first := 0
	if s.mode == "hostile" {
		first = 1
	}
	for i := 0; i < 2; i++ {
		c := &connSt{end: &end{s: s, id: i}}
		p := fmt.Sprint(i)
		for _, ch := range chs {
			c.chans = append(c.chans, chanCfg{id: byte(ch.Int("id")), prio: ch.Int("prio" + p), sq: ch.Int("sq" + p), rbuf: ch.Int("rbuf" + p), rcap: ch.Int("rcap" + p)})
		}
		c.issued = make([][]*msgRec, s.nch)
		c.recv = make([][][]byte, s.nch)
		c.cursor = make([]int, s.nch)
		c.checked = make([]int, s.nch)
		c.acc = make([]int, s.nch)
		c.partial = make([][]byte, s.nch)
		s.c[i] = c
	}
	for i := first; i < 2; i++ {
		c := s.c[i]
		var descs []*conn.ChannelDescriptor
		for _, ch := range c.chans {
			descs = append(descs, &conn.ChannelDescriptor{ID: ch.id, Priority: ch.prio, SendQueueCapacity: ch.sq, RecvBufferCapacity: ch.rbuf, RecvMessageCapacity: ch.rcap})
		}
		mcfg := conn.DefaultMConnConfig()
		mcfg.MaxPacketMsgPayloadSize = s.payload
		// odd nanosecond offsets: no two timers of a run ever fire at the same fake instant
		mcfg.FlushThrottle = time.Duration(cfg.Int("flush_ms"))*time.Millisecond + 7 + time.Duration(i)*4
		mcfg.PingInterval = time.Duration(cfg.Int(fmt.Sprint("ping_ms", i)))*time.Millisecond + 13 + time.Duration(i)*16
		mcfg.PongTimeout = time.Duration(cfg.Int(fmt.Sprint("pong_ms", i)))*time.Millisecond + 3 + time.Duration(i)*2
		mcfg.SendRate = int64(cfg.Int("send_rate"))
		mcfg.RecvRate = int64(cfg.Int("recv_rate"))
		idx := i
		onRecv := func(chID byte, msg []byte) {
			cp := append([]byte{}, msg...)
			s.mu.Lock()
			k := -1
			for j, ch := range c.chans {
				if ch.id == chID {
					k = j
				}
			}
			if k < 0 {
				c.unknown++
			} else {
				c.recv[k] = append(c.recv[k], cp)
			}
			s.mu.Unlock()
		}
		onErr := func(r interface{}) {
			s.mu.Lock()
			c.errored = true
			c.errStr = fmt.Sprint(r)
			s.mu.Unlock()
			_ = idx
		}
		c.mc = conn.NewMConnectionWithConfig(c.end, descs, onRecv, onErr, mcfg)
		c.mc.SetLogger(log.NewNopLogger())
		c.t0 = time.Now()
		if err := c.mc.Start(); err != nil {
			panic(err)
		}
		env.Settle()
		for k := 0; k < 3; k++ {
			c.actors = append(c.actors, s.newActor())
		}
		c.ctl = s.newActor()
		// the second connection starts a little later: its tickers never coincide with the first's
		time.Sleep(time.Millisecond + 3)
		env.Settle()
	}
	if s.mode == "rl" {
		s.deadline = s.c[0].t0.Add(1900 * time.Millisecond)
	}
	return s
}

// ---------------------------------------------------------------- op generation

func (s *sim) parked() bool {
	return s.c[0].end.wreq != nil || s.c[1].end.wreq != nil
}

func (s *sim) up(i int) bool {
	c := s.c[i]
	return c.mc != nil && !c.errored && !c.stopped
}

func (s *sim) sizes(rng *simcore.RNG, rcap int) int {
	p := s.payload
	n := 0
	switch k := rng.Intn(12); {
	case k < 2:
		n = rng.Range(1, 9)
	case k < 4:
		n = p + rng.Range(-1, 1)
	case k < 7:
		n = p*rng.Range(2, 5) + rng.Range(-1, 1)
	case k < 9:
		n = rcap - rng.Intn(2)
	case k < 10:
		if s.cfg.Bool("oversize") && rng.Bool(0.3) {
			return rcap + rng.Range(1, p+1)
		}
		n = rcap
	default:
		n = rng.Range(1, rcap)
	}
	if n > rcap {
		n = rcap - rng.Intn(3)
	}
	if n < 1 {
		n = 1
	}
	if rng.Bool(0.02) {
		n = 0 // zero-length message
	}
	return n
}

func (s *sim) genDeliver(rng *simcore.RNG, to int) simcore.Op {
	n := 1 << 20
	switch rng.Intn(6) {
	case 0:
		n = rng.Range(1, 5)
	case 1:
		n = rng.Range(1, s.payload+12)
	}
	rep := 1
	if n == 1<<20 {
		rep = rng.Range(1, 10)
	}
	return simcore.Op{"a": "dlv", "to": to, "n": n, "rep": rep}
}

func (s *sim) Next(rng *simcore.RNG) simcore.Op {
	if s.dead || s.opsLeft <= 0 {
		return nil
	}
	s.opsLeft--
	s.mu.Lock()
	defer s.mu.Unlock()
	var deliv []int
	for i := 0; i < 2; i++ {
		h := s.h[i]
		if len(h.wire) > 0 || (h.finQueued && !h.finDeliv) {
			deliv = append(deliv, i)
		}
	}
	hostile := s.mode == "hostile"
	if !s.up(1) || (!hostile && !s.up(0)) {
		// a side is down: let what is in flight arrive (FIN included), then the run is over
		if len(deliv) > 0 {
			return s.genDeliver(rng, deliv[rng.Intn(len(deliv))])
		}
		return nil
	}
	w := []int{35, 0, 10, 0, 0} // send, deliver, tick, stop, raw
	if len(deliv) > 0 {
		w[1] = 45
	}
	if hostile {
		w[0] = 8
		w[4] = 30
		// the hostile writer consumes whatever the real side sends without delay
	}
	if s.mode == "bp" && s.parked() {
		w[2] = 0
	}
	if s.mode == "rl" && !time.Now().Before(s.deadline) {
		w[2] = 0
	}
	if s.cfg.Bool("stop") && !s.stopDone && s.opsLeft < 15 {
		w[3] = 6
	}
	// a pending ping wants its pong: keep the network moving in most runs
	if len(deliv) > 0 && w[2] > 0 && rng.Bool(0.8) {
		w[2] = 3
	}
	switch rng.Weighted(w) {
	case 0:
		var cand []int
		for i := 0; i < 2; i++ {
			if s.up(i) {
				cand = append(cand, i)
			}
		}
		if len(cand) == 0 {
			if len(deliv) > 0 {
				return s.genDeliver(rng, deliv[rng.Intn(len(deliv))])
			}
			return simcore.Op{"a": "tick", "us": 1000 * rng.Range(1, 200)}
		}
		ci := cand[rng.Intn(len(cand))]
		c := s.c[ci]
		var idle []int
		for k, a := range c.actors {
			if !a.busy {
				idle = append(idle, k)
			}
		}
		if len(idle) == 0 {
			if len(deliv) > 0 {
				return s.genDeliver(rng, deliv[rng.Intn(len(deliv))])
			}
			return simcore.Op{"a": "tick", "us": 1000 * rng.Range(1, 200)}
		}
		ch := rng.Intn(s.nch)
		if s.cfg.Bool("single") {
			ch = ci % s.nch
		}
		n := s.sizes(rng, s.c[1-ci].chans[ch].rcap)
		if n < 0 {
			n = 0
		}
		try := rng.Bool(0.5)
		if s.mode == "rl" || s.mode == "rl1" {
			// A Send that blocks on a full queue is released by sendRoutine itself; whether the
			// wake-up token it then posts survives sendRoutine's own re-arm is a scheduler race, and
			// under a rate limit a surplus token costs one more 100 ms sample (observable flush
			// timing). Rate-limited runs therefore use TrySend only; blocking Sends are exercised
			// in the bp/stall modes where a surplus token has no observable effect.
			try = true
		}
		return simcore.Op{"a": "send", "c": ci, "k": idle[rng.Intn(len(idle))], "ch": ch, "n": n, "try": try, "seed": rng.Intn(1 << 30)}
	case 1:
		return s.genDeliver(rng, deliv[rng.Intn(len(deliv))])
	case 2:
		us := []int{1000, 5000, 20000, 100000, 150000, 1000000, 2500000}[rng.Intn(7)]
		if rng.Bool(0.3) {
			us = rng.Range(100, 300000)
		}
		if len(deliv) > 0 && us > 100000 && s.mode != "stall" && rng.Bool(0.9) {
			us = 100000
		}
		if (s.mode == "stall" || s.mode == "free") && rng.Bool(0.06) {
			us = 11000000
		}
		return simcore.Op{"a": "tick", "us": us}
	case 3:
		return simcore.Op{"a": "stop", "c": rng.Intn(2), "flush": rng.Bool(0.6)}
	default:
		return s.genRaw(rng)
	}
}

func (s *sim) genRaw(rng *simcore.RNG) simcore.Op {
	ch := rng.Intn(s.nch)
	rcap := s.c[1].chans[ch].rcap
	op := simcore.Op{"a": "raw", "ch": ch, "seed": rng.Intn(1 << 30)}
	kind := "msg"
	if len(s.hkinds) > 0 && rng.Intn(1000) < s.cfg.Int("bad_pm") {
		kind = s.hkinds[rng.Intn(len(s.hkinds))]
	}
	op["k"] = kind
	switch kind {
	case "msg":
		op["n"] = s.sizes(rng, rcap)
		f := []int{s.payload, s.payload, rng.Range(0, s.payload), 1}[rng.Intn(4)]
		if n := op.Int("n"); f > 0 && n/f > 400 {
			f = n/400 + 1 // at most ~400 fragments per hostile message: keeps runs short
		}
		op["f"] = f
	case "frag":
		op["f"] = rng.Range(0, s.payload)
		op["cnt"] = rng.Range(1, 12)
		if rng.Bool(0.3) {
			op["cnt"] = rcap/(s.payload) + rng.Range(0, 3)
		}
	case "unk":
		valid := int(s.c[1].chans[ch].id)
		// ids that are unknown as int32 but alias a configured channel when cut to one byte
		op["id"] = []int{rng.Intn(256), 256 + rng.Intn(256), -1 - rng.Intn(200), 1 << 30, 256 + valid, valid - 256, 65536 + valid}[rng.Intn(7)]
		op["n"] = rng.Range(0, s.payload)
	case "big":
		// well clear of the per-packet limit: a payload a few bytes over the sender-side
		// packet size may or may not fit the receiver's frame limit (not a property matter)
		op["n"] = s.payload + rng.Range(16, 2000)
	case "ping", "pong":
		op["cnt"] = rng.Range(1, 30)
	case "rand":
		op["n"] = rng.Range(1, 300)
	case "hugelen":
		op["v"] = rng.Intn(9)
	case "badproto":
		op["n"] = rng.Range(1, s.payload+5)
	}
	return op
}

// ---------------------------------------------------------------- apply

func msgBytes(ci, ch, seq, n, seed int) []byte {
	b := simcore.NewRNG(uint64(seed)*1000003 + uint64(seq)).Bytes(n)
	hdr := []byte{byte(0xA0 + ci), byte(ch), byte(seq >> 8), byte(seq)}
	copy(b, hdr)
	return b
}

func (s *sim) Apply(op simcore.Op) bool {
	if s.dead {
		return false
	}
	e := s.env
	switch op.Kind() {
	case "send":
		if !s.opSend(op) {
			return false
		}
	case "dlv":
		to := op.Int("to") & 1
		n, rep := op.Int("n"), op.Int("rep")
		if n < 1 || rep < 1 {
			return false
		}
		any := false
		for i := 0; i < rep; i++ {
			if !s.step(to, n) {
				break
			}
			any = true
		}
		if !any {
			return false
		}
		e.Count("op.dlv")
		return true
	case "tick":
		if !s.opTick(time.Duration(op.Int("us"))*time.Microsecond, false) {
			return false
		}
	case "stop":
		ci := op.Int("c") & 1
		c := s.c[ci]
		if c.mc == nil || c.stopped || c.ctl.busy {
			return false
		}
		s.mu.Lock()
		c.stopped = true
		c.ctl.busy = true
		s.stopDone = true
		if s.firstDown < 0 {
			s.firstDown, s.downWhy = ci, "stopped by the harness"
		}
		s.mu.Unlock()
		mc := c.mc
		if op.Bool("flush") {
			c.ctl.cmd <- func() { mc.FlushStop() }
			e.Count("fault.flushstop")
		} else {
			c.ctl.cmd <- func() { mc.Stop() }
			e.Count("fault.stop")
		}
	case "raw":
		if s.mode != "hostile" {
			return false
		}
		s.mu.Lock()
		ok := s.opRaw(op)
		s.mu.Unlock()
		if !ok {
			return false
		}
	default:
		return false
	}
	e.Count("op." + op.Kind())
	e.Settle()
	s.after()
	return true
}

func (s *sim) opSend(op simcore.Op) bool {
	ci, k, ch, n := op.Int("c")&1, op.Int("k"), op.Int("ch"), op.Int("n")
	c := s.c[ci]
	if c.mc == nil || k < 0 || k >= len(c.actors) || ch < 0 || ch >= s.nch || n < 0 || n > 1<<22 {
		return false
	}
	s.mu.Lock()
	a := c.actors[k]
	if a.busy || !s.up(ci) {
		s.mu.Unlock()
		return false
	}
	s.seq++
	m := &msgRec{data: msgBytes(ci, ch, s.seq, n, op.Int("seed")), try: op.Bool("try"), at: time.Now()}
	c.issued[ch] = append(c.issued[ch], m)
	a.busy = true
	s.mu.Unlock()
	mc, id := c.mc, c.chans[ch].id
	data := append([]byte{}, m.data...)
	try := m.try
	a.cmd <- func() {
		var ok bool
		if try {
			ok = mc.TrySend(id, data)
		} else {
			ok = mc.Send(id, data)
		}
		s.mu.Lock()
		if ok {
			m.res = 1
		} else {
			m.res = 2
		}
		s.mu.Unlock()
		switch {
		case ok && try:
			s.env.Count("probe.trysend_ok")
		case ok:
			s.env.Count("probe.send_ok")
		case try:
			s.env.Count("probe.trysend_refused")
		default:
			s.env.Count("probe.send_refused")
		}
	}
	return true
}

// opTick advances the fake clock. In bp mode the clock never crosses a 2 s stats-tick of a
// connection while a writer is parked (the tick would stay pending next to the send token).
func (s *sim) opTick(d time.Duration, final bool) bool {
	if d <= 0 {
		return false
	}
	e := s.env
	switch s.mode {
	case "bp":
		if s.parked() {
			return false
		}
		left := d
		for left > 0 {
			now := time.Now()
			nb := time.Duration(1 << 62)
			for i := 0; i < 2; i++ {
				if s.c[i].mc == nil {
					continue
				}
				el := now.Sub(s.c[i].t0)
				next := (el/(2*time.Second) + 1) * 2 * time.Second
				if d := next - el; d < nb {
					nb = d
				}
			}
			if left < nb-1 {
				time.Sleep(left)
				e.Settle()
				break
			}
			if nb > 1 {
				time.Sleep(nb - 1)
				e.Settle()
				left -= nb - 1
			}
			if s.parked() {
				break
			}
			time.Sleep(2)
			e.Settle()
			left -= 2
		}
	case "rl":
		if final {
			// past the end of the trace the rate-limited schedule is allowed to be racy (see Finish)
			time.Sleep(d)
			return true
		}
		now := time.Now()
		if !now.Add(d).Before(s.deadline) {
			d = s.deadline.Sub(now)
			if d <= 0 {
				return false
			}
		}
		time.Sleep(d)
	default:
		time.Sleep(d)
	}
	return true
}

// step is one delivery stimulus: deliver, settle, judge. It also carries the allocation oracle
// of the capacity clause: whatever a peer sends, handling one delivery (at most one packet) must
// not make the node allocate more than a small multiple of the largest channel capacity plus a
// packet. TotalAlloc is process-wide and monotonic; only this run's bubble (and the idle
// watchdog) is alive while it is read.
func (s *sim) step(to, n int) bool {
	e := s.env
	// Only the hostile writer can announce what it does not send; and only runtime.ReadMemStats
	// is exact (it flushes the per-P allocation caches; the cheaper runtime/metrics counter lags
	// by up to a span per size class, which showed as spurious 0.7 MB deltas). It stops the
	// world (very slow on a loaded machine), so it is used in hostile runs only ...
	measure := false
	var a0 uint64
	s.mu.Lock()
	if h := s.h[to]; s.mode == "hostile" && to == 1 && s.c[to].mc != nil && e.Checking("C17") && !s.c[to].end.closed && len(h.suspect) > 0 {
		// ... and only for deliveries that carry bytes of input that is not well-formed traffic
		// (never-ending fragments are well-formed packets; their accumulation is the business of
		// the over-buffer oracle). Decided and read at the last moment before a goroutine of the
		// node is woken: the simulator's own buffer handling is not the node's allocation.
		s.preWake = func() {
			from, upto := h.dTotal-int64(s.lastMove), h.dTotal
			for len(h.suspect) > 0 && h.suspect[0][1] <= from {
				h.suspect = h.suspect[1:]
			}
			if len(h.suspect) > 0 && upto > h.suspect[0][0] && s.lastMove > 0 {
				measure = true
				a0 = heapAllocs()
			}
		}
	}
	s.lastMove = 0
	ok := s.deliver(to, n)
	s.preWake = nil
	s.mu.Unlock()
	if !ok {
		return false
	}
	e.Settle()
	if measure {
		e.Count("probe.alloc_measured")
		d := heapAllocs() - a0
		bound := uint64(512 << 10)
		capMax := 0
		for _, ch := range s.c[to].chans {
			if b := uint64(8*(ch.rcap+s.payload+64)) + 512<<10; b > bound {
				bound, capMax = b, ch.rcap
			}
		}
		if d > bound {
			e.Count("probe.alloc_over_bound")
			e.Fail("C17", "alloc-beyond-capacity", "handling one delivery (at most one packet, %d bytes) made conn %d's process allocate %d bytes; largest channel capacity %d, packet payload %d, allowed %d", s.lastMove, to, d, capMax, s.payload, bound)
		}
	}
	s.after()
	return true
}

// heapAllocs: cumulative bytes allocated on the heap by the process (exact).
func heapAllocs() uint64 {
	var m runtime.MemStats
	runtime.ReadMemStats(&m)
	return m.TotalAlloc
}

// wake is called by deliver right before it lets a goroutine of the node continue.
func (s *sim) wake() {
	if s.preWake != nil {
		s.preWake()
		s.preWake = nil
	}
}

// deliver moves up to n bytes of the wire towards end `to`, never beyond the end of the first
// packet that completes. Caller holds mu.
func (s *sim) deliver(to, n int) bool {
	h := s.h[to]
	e := s.c[to].end
	if len(h.wire) == 0 {
		if h.finQueued && !h.finDeliv {
			h.finDeliv = true
			e.rst = true
			s.wake()
			if e.rreq != nil && len(h.avail) == 0 {
				e.rreq.err = io.EOF
				close(e.rreq.done)
				e.rreq = nil
			}
			if e.wreq != nil {
				e.wreq.err = errReset
				close(e.wreq.done)
				e.wreq = nil
			}
			s.env.Count("probe.fin_delivered")
			return true
		}
		return false
	}
	move := len(h.wire)
	if n < move {
		move = n
	}
	for len(h.ends) > 0 && h.ends[0] <= h.dTotal {
		h.ends = h.ends[1:]
	}
	complete := false
	if len(h.ends) > 0 {
		if lim := int(h.ends[0] - h.dTotal); lim <= move {
			move = lim
			complete = true
		}
	}
	chunk := h.wire[:move]
	s.lastMove = move
	if !h.fr.garbage || len(h.ends) > 0 {
		h.pktBuf = append(h.pktBuf, chunk...)
	}
	if len(h.avail) == 0 {
		h.avail = chunk[:move:move] // shares the wire's array (capacity cut: appends copy); the wire only grows behind it
	} else {
		h.avail = append(h.avail, chunk...)
	}
	h.wire = h.wire[move:]
	h.dTotal += int64(move)
	if complete {
		s.packetDelivered(to, h.pktBuf)
		h.pktBuf = h.pktBuf[:0]
		h.ends = h.ends[1:]
	} else if h.fr.garbage && len(h.ends) == 0 {
		h.pktBuf = h.pktBuf[:0]
	}
	s.wake()
	if e.rreq != nil {
		rq := e.rreq
		rq.n = copy(rq.buf, h.avail)
		h.avail = h.avail[rq.n:]
		e.rreq = nil
		close(rq.done)
	}
	s.refill(to)
	return true
}

// refill lets the writer parked on the stream towards `to` continue. Caller holds mu.
func (s *sim) refill(to int) {
	h := s.h[to]
	w := s.c[1-to].end
	if w.wreq == nil {
		return
	}
	r := w.wreq
	k := s.accept(h, r.buf)
	r.n += k
	r.buf = r.buf[k:]
	if len(r.buf) == 0 {
		w.wreq = nil
		close(r.done)
	}
}

// packetDelivered: the last byte of a delimited packet reached end `to`. Bookkeeping for the
// capacity clause: bytes of the incomplete message per channel.
func (s *sim) packetDelivered(to int, raw []byte) {
	c := s.c[to]
	c.pktIn++
	l, k := binary.Uvarint(raw)
	if k <= 0 || int(l) != len(raw)-k {
		return
	}
	var p tmp2p.Packet
	if err := proto.Unmarshal(raw[k:], &p); err != nil {
		return
	}
	switch m := p.Sum.(type) {
	case *tmp2p.Packet_PacketMsg:
		id := m.PacketMsg.ChannelID
		if id < 0 || id > 255 {
			return
		}
		for j, ch := range c.chans {
			if ch.id == byte(id) {
				c.acc[j] += len(m.PacketMsg.Data)
				if c.acc[j] > ch.rcap+s.payload && s.over[to] == nil {
					s.over[to] = &overRec{ch: j, n: c.acc[j]}
				}
				if m.PacketMsg.EOF {
					c.acc[j] = 0
				}
			}
		}
		s.env.Count("probe.pkt_msg")
	case *tmp2p.Packet_PacketPing:
		s.env.Count("probe.pkt_ping")
	case *tmp2p.Packet_PacketPong:
		s.env.Count("probe.pkt_pong")
	}
}

// ---------------------------------------------------------------- hostile writer

func pkt(m proto.Message) []byte {
	var p tmp2p.Packet
	switch x := m.(type) {
	case *tmp2p.PacketMsg:
		p.Sum = &tmp2p.Packet_PacketMsg{PacketMsg: x}
	case *tmp2p.PacketPing:
		p.Sum = &tmp2p.Packet_PacketPing{PacketPing: x}
	case *tmp2p.PacketPong:
		p.Sum = &tmp2p.Packet_PacketPong{PacketPong: x}
	}
	b, err := protoio.MarshalDelimited(&p)
	if err != nil {
		panic(err)
	}
	return b
}

// opRaw: the hostile end writes bytes by hand. Caller holds mu.
func (s *sim) opRaw(op simcore.Op) bool {
	e := s.env
	ch := op.Int("ch")
	if ch < 0 || ch >= s.nch {
		return false
	}
	hc := s.c[0]
	id := int32(s.c[1].chans[ch].id)
	h := s.h[1]
	if h.finQueued {
		return false
	}
	var out []byte
	kind := op.Str("k")
	rng := simcore.NewRNG(uint64(op.Int("seed")) + 17)
	switch kind {
	case "msg":
		n, f := op.Int("n"), op.Int("f")
		if n < 0 || n > 1<<22 || f < 0 {
			return false
		}
		s.seq++
		data := msgBytes(0, ch, s.seq, n, op.Int("seed"))
		full := append(append([]byte{}, hc.partial[ch]...), data...)
		hc.partial[ch] = nil
		rest := data
		if f == 0 {
			// an empty non-final fragment first, then ordinary ones
			out = append(out, pkt(&tmp2p.PacketMsg{ChannelID: id})...)
			f = s.payload
		}
		for {
			k := len(rest)
			if k > f {
				k = f
			}
			out = append(out, pkt(&tmp2p.PacketMsg{ChannelID: id, EOF: k == len(rest), Data: rest[:k]})...)
			rest = rest[k:]
			if len(rest) == 0 {
				break
			}
		}
		hc.issued[ch] = append(hc.issued[ch], &msgRec{data: full, res: 1})
		if len(full) > s.c[1].chans[ch].rcap {
			s.c[1].excuse = "hostile message larger than the channel capacity"
			e.Count("fault.hostile_oversize_msg")
		}
	case "frag":
		f, cnt := op.Int("f"), op.Int("cnt")
		if f < 0 || f > 1<<20 || cnt < 1 || cnt > 1<<16 {
			return false
		}
		for i := 0; i < cnt; i++ {
			d := rng.Bytes(f)
			out = append(out, pkt(&tmp2p.PacketMsg{ChannelID: id, Data: d})...)
			hc.partial[ch] = append(hc.partial[ch], d...)
		}
		if len(hc.partial[ch]) > s.c[1].chans[ch].rcap {
			s.c[1].excuse = "hostile never-ending message larger than the channel capacity"
		}
		e.Count("fault.hostile_frag")
	case "unk":
		uid := int32(op.Int("id"))
		if uid >= 0 && uid <= 255 && s.chanIdx(byte(uid)) >= 0 {
			return false
		}
		out = pkt(&tmp2p.PacketMsg{ChannelID: uid, EOF: op.Int("n")%2 == 0, Data: rng.Bytes(op.Int("n"))})
		s.hostileBad = true
		e.Count("fault.hostile_unknown_channel")
	case "big":
		n := op.Int("n")
		if n < s.payload+16 || n > 1<<22 {
			return false
		}
		out = pkt(&tmp2p.PacketMsg{ChannelID: id, EOF: true, Data: rng.Bytes(n)})
		s.hostileBad = true
		e.Count("fault.hostile_big_packet")
	case "ping":
		for i := 0; i < op.Int("cnt") && i < 1000; i++ {
			out = append(out, pkt(&tmp2p.PacketPing{})...)
		}
		e.Count("fault.hostile_ping_flood")
	case "pong":
		for i := 0; i < op.Int("cnt") && i < 1000; i++ {
			out = append(out, pkt(&tmp2p.PacketPong{})...)
		}
		e.Count("fault.hostile_pong")
	case "rand":
		out = rng.Bytes(op.Int("n"))
		// Wherever the receiver starts to read a length prefix in these bytes, it is at most four
		// bytes long (< 256 MiB): a receiver that allocates what is announced must not take the
		// test process down with it.
		for i := 3; i < len(out); i++ {
			if out[i-1] >= 0x80 && out[i-2] >= 0x80 && out[i-3] >= 0x80 {
				out[i] &= 0x7f
			}
		}
		s.hostileBad = true
		e.Count("fault.hostile_random_bytes")
	case "hugelen":
		// A bare length prefix announcing far more than a packet may carry. Announced sizes stay
		// at or below 256 MiB (or are beyond what fits an int): were the receiver to allocate what
		// a peer announces, the test process must survive to report it.
		switch v := op.Int("v"); v {
		case 0:
			out = append(bytes.Repeat([]byte{0xff}, 10), 1) // varint overflow
		case 1:
			out = binary.AppendUvarint(nil, 1<<63) // does not fit an int
		case 2:
			out = binary.AppendUvarint(nil, uint64(s.payload+64)) // just above the largest packet
		default:
			sizes := []uint64{70000, 1 << 20, 4 << 20, 4<<20 + 1, 32 << 20, 256 << 20}
			out = binary.AppendUvarint(nil, sizes[(v-3)%len(sizes)])
		}
		s.hostileBad = true
		e.Count("fault.hostile_huge_length")
	case "empty":
		out = []byte{0}
		s.hostileBad = true
		e.Count("fault.hostile_empty_packet")
	case "badproto":
		n := op.Int("n")
		if n < 1 || n > 1<<20 {
			return false
		}
		out = append(binary.AppendUvarint(nil, uint64(n)), rng.Bytes(n)...)
		s.hostileBad = true
		e.Count("fault.hostile_bad_proto")
	default:
		return false
	}
	if kind != "msg" && kind != "ping" && kind != "pong" && kind != "frag" && !h.dead {
		h.suspect = append(h.suspect, [2]int64{h.fr.pos, h.fr.pos + int64(len(out))})
	}
	s.accept(h, out)
	return true
}

// ---------------------------------------------------------------- after each stimulus

func (s *sim) after() {
	e := s.env
	for round := 0; round < 6; round++ {
		s.mu.Lock()
		did := false
		for _, id := range s.closedNow {
			did = true
			h := s.h[id]
			h.dead = true
			h.wire = nil
			h.ends = nil
			s.refill(id) // a writer parked towards the closed end is released (bytes vanish)
			o := s.h[1-id]
			o.finQueued = true
		}
		s.closedNow = nil
		if s.mode == "hostile" {
			// the hostile end swallows whatever the real side sends; it answers pings if configured
			h := s.h[0]
			pos := h.dTotal
			for _, en := range h.ends {
				raw := h.wire[pos-h.dTotal : en-h.dTotal]
				pos = en
				if l, k := binary.Uvarint(raw); k > 0 && int(l) == len(raw)-k {
					var p tmp2p.Packet
					if proto.Unmarshal(raw[k:], &p) == nil {
						if _, ok := p.Sum.(*tmp2p.Packet_PacketPing); ok && s.cfg.Bool("answer_pings") && !s.h[1].finQueued {
							s.accept(s.h[1], pkt(&tmp2p.PacketPong{}))
							e.Count("probe.hostile_answered_ping")
						}
					}
				}
			}
			if pos > h.dTotal {
				h.wire = h.wire[pos-h.dTotal:]
				h.dTotal = pos
				h.ends = h.ends[:0]
			}
		}
		s.mu.Unlock()
		if !did {
			break
		}
		e.Settle()
	}
	s.mu.Lock()
	defer s.mu.Unlock()
	if len(s.panics) > 0 {
		e.Fail("C17", "panic-escaped", "panic on a caller's goroutine: %s", s.panics[0])
	}
	for i := 0; i < 2; i++ {
		c := s.c[i]
		if c.mc == nil {
			continue
		}
		s.checkRecv(i)
		if c.errored && !s.wasDown[i] {
			s.wasDown[i] = true
			e.Count("probe.on_error")
			e.Note("onError conn=%d: %s", i, c.errStr)
			if s.firstDown < 0 {
				s.firstDown, s.downWhy = i, c.errStr
				s.judgeFirstDown(i)
			}
		}
		// capacity clause: the receiver has processed everything delivered, is still up, and
		// the bytes of one incomplete message exceed capacity + one packet
		if o := s.over[i]; o != nil {
			if c.errored || c.stopped || c.end.closed {
				s.over[i] = nil
			} else if len(s.h[i].avail) == 0 && c.end.rreq != nil {
				e.Fail("C17", "over-buffer", "conn %d accepted %d bytes of one message on channel index %d (capacity %d, packet payload %d) without dropping the peer", i, o.n, o.ch, c.chans[o.ch].rcap, s.payload)
			}
		}
	}
	if !s.quiet {
		if s.parked() {
			e.Count("probe.writer_parked")
		}
		if s.busyActors(0)+s.busyActors(1) > 0 {
			e.Count("probe.send_blocked")
		}
		var sb strings.Builder
		for i := 0; i < 2; i++ {
			c := s.c[i]
			fmt.Fprintf(&sb, " c%d[", i)
			for j := 0; j < s.nch; j++ {
				fmt.Fprintf(&sb, "%d/%d ", len(c.recv[j]), len(c.issued[j]))
			}
			acc, ref, pend := 0, 0, 0
			for j := 0; j < s.nch; j++ {
				for _, m := range c.issued[j] {
					switch m.res {
					case 0:
						pend++
					case 1:
						acc++
					default:
						ref++
					}
				}
			}
			fmt.Fprintf(&sb, "acc=%d ref=%d pend=%d err=%v stop=%v w=%d av=%d park=%v]", acc, ref, pend, c.errored, c.stopped, len(s.h[i].wire), len(s.h[i].avail), c.end.wreq != nil)
		}
		e.Logf("st%s", sb.String())
		bucket := func(n int) int {
			switch {
			case n == 0:
				return 0
			case n <= s.payload+12:
				return 1
			case n <= 10*(s.payload+12):
				return 2
			}
			return 3
		}
		pend := func(i int) int {
			n := 0
			for j := 0; j < s.nch; j++ {
				if s.c[i].acc[j] > 0 {
					n++
				}
			}
			return n
		}
		e.State(s.mode, s.payload, s.c[0].errored, s.c[1].errored, s.c[0].stopped, s.c[1].stopped, bucket(len(s.h[0].wire)), bucket(len(s.h[1].wire)),
			bucket(len(s.h[0].avail)), bucket(len(s.h[1].avail)), s.c[0].end.wreq != nil, s.c[1].end.wreq != nil, s.busyActors(0), s.busyActors(1),
			pend(0), pend(1), s.hostileBad, s.over[0] != nil || s.over[1] != nil, s.firstDown)
	}
}

func (s *sim) busyActors(i int) int {
	n := 0
	for _, a := range s.c[i].actors {
		if a.busy {
			n++
		}
	}
	return n
}

// judgeFirstDown: the first connection error of a run must have a cause the simulator
// provided; otherwise accepted messages are lost without any fault.
func (s *sim) judgeFirstDown(i int) {
	c := s.c[i]
	switch {
	case strings.Contains(c.errStr, "pong timeout"):
		s.env.Count("probe.pong_timeout")
	case c.excuse != "":
		s.env.Count("probe.down_oversize")
	case s.mode == "hostile" && s.hostileBad:
		s.env.Count("probe.down_hostile_input")
	case s.c[1-i].stopped:
	default:
		sig := "unexpected-disconnect"
		if strings.Contains(c.errStr, "exceeds max size") {
			sig = "full-packet-rejected"
		}
		s.env.Fail("C17", sig, "conn %d dropped its peer although nothing was wrong with the input: %s", i, c.errStr)
	}
}

// checkRecv: what side r received so far must be, per channel, a prefix of what the peer's
// Send/TrySend calls accepted, in issue order, byte for byte. Caller holds mu.
func (s *sim) checkRecv(r int) {
	e := s.env
	c, peer := s.c[r], s.c[1-r]
	if c.unknown > 0 {
		e.Fail("C17", "phantom-channel", "conn %d received a message on a channel it does not have", r)
	}
	for j := 0; j < s.nch; j++ {
		lst := peer.issued[j]
		for c.checked[j] < len(c.recv[j]) {
			got := c.recv[j][c.checked[j]]
			cur := c.cursor[j]
			for cur < len(lst) && lst[cur].res == 2 {
				cur++
			}
			where := fmt.Sprintf("conn %d channel index %d (id %#x), message #%d received", r, j, c.chans[j].id, c.checked[j])
			if cur >= len(lst) || lst[cur].res != 1 || !bytes.Equal(got, lst[cur].data) {
				fwd, back := -1, -1
				for k := range lst {
					if bytes.Equal(lst[k].data, got) {
						if k < cur && back < 0 {
							back = k
						}
						if k >= cur && fwd < 0 && lst[k].res == 1 {
							fwd = k
						}
					}
				}
				switch {
				case fwd >= 0:
					// accepted messages were skipped
					onlyEmpty, skipped := true, 0
					for k := cur; k < fwd; k++ {
						if lst[k].res == 1 {
							skipped++
							if len(lst[k].data) > 0 {
								onlyEmpty = false
							}
						}
						if lst[k].res == 0 {
							onlyEmpty = false
						}
					}
					if onlyEmpty && skipped > 0 {
						e.Fail("C17", "empty-msg-lost", "%s: it is accepted message #%d of that channel; the %d zero-length message(s) accepted before it were never delivered", where, fwd, skipped)
					} else {
						e.Fail("C17", "lost-or-reordered-msg", "%s: it is accepted message #%d of that channel, expected #%d first", where, fwd, cur)
					}
					// listed known finding: resynchronise behind the message that did arrive
					c.cursor[j] = fwd + 1
					c.checked[j]++
					continue
				case back >= 0 && lst[back].res == 2:
					e.Fail("C17", "refused-msg-delivered", "%s: %d bytes that a Send/TrySend call reported as NOT accepted", where, len(got))
				case back >= 0 && lst[back].res == 0:
					e.Fail("C17", "early-msg", "%s: a message whose Send call has not returned yet", where)
				case back >= 0:
					e.Fail("C17", "duplicate-msg", "%s: accepted message #%d of that channel delivered again", where, back)
				case cur < len(lst) && len(got) < len(lst[cur].data) && bytes.Equal(got, lst[cur].data[:len(got)]):
					e.Fail("C17", "truncated-msg", "%s: only the first %d of %d bytes", where, len(got), len(lst[cur].data))
				default:
					want := -1
					if cur < len(lst) {
						want = len(lst[cur].data)
					}
					e.Fail("C17", "modified-msg", "%s: %d bytes that no Send call offered (next expected message has %d bytes)", where, len(got), want)
				}
				c.checked[j]++
				continue
			}
			if len(got) > c.chans[j].rcap {
				e.Fail("C17", "oversize-delivered", "%s: %d bytes delivered on a channel whose receive capacity is %d", where, len(got), c.chans[j].rcap)
			}
			c.cursor[j] = cur + 1
			c.checked[j]++
		}
	}
	// a message longer than the receiver's capacity will (rightly) bring the connection down
	for j := 0; j < s.nch; j++ {
		for _, m := range peer.issued[j] {
			if m.res == 1 && len(m.data) > c.chans[j].rcap && c.excuse == "" {
				c.excuse = "message larger than the channel capacity"
				peer.excuse = c.excuse
			}
		}
	}
}

// ---------------------------------------------------------------- end of run

func (s *sim) complete() bool {
	for r := 0; r < 2; r++ {
		c, peer := s.c[r], s.c[1-r]
		if c.mc == nil {
			continue
		}
		for j := 0; j < s.nch; j++ {
			for k, m := range peer.issued[j] {
				if m.res == 0 || (m.res == 1 && k >= c.cursor[j]) {
					return false
				}
			}
		}
	}
	return true
}

func (s *sim) Finish() {
	e := s.env
	if s.dead {
		return
	}
	s.quiet = true
	// drain: deliver, let timers fire, until everything accepted has arrived or 150 s passed.
	// The discipline of the mode is kept (bp: the clock stands still while a writer is parked),
	// except in mode rl: there the clock has to pass the 2 s stats tick with a backlog, Go's
	// select may then order {stats tick, send token} either way and the interleaving across
	// channels is not reproducible. The final state of a correct implementation is unique all
	// the same; nothing is written to the event log after this point in that mode.
	e.Logf("finish")
	limit := time.Now().Add(150 * time.Second)
	for round := 0; round < 4000 && time.Now().Before(limit); round++ {
		for i := 0; i < 20000; i++ {
			ok := s.step(0, 1<<20)
			ok = s.step(1, 1<<20) || ok
			if !ok {
				break
			}
		}
		s.mu.Lock()
		done := s.complete() || s.c[0].errored || s.c[1].errored || s.c[0].stopped || s.c[1].stopped
		busy := s.busyActors(0) + s.busyActors(1)
		s.mu.Unlock()
		if done && busy == 0 {
			break
		}
		s.opTick(100*time.Millisecond+1, true)
		e.Settle()
		s.after()
	}
	if s.mode != "rl" {
		s.mu.Lock()
		var sb strings.Builder
		for i := 0; i < 2; i++ {
			for j := 0; j < s.nch; j++ {
				fmt.Fprintf(&sb, " %d", len(s.c[i].recv[j]))
			}
			fmt.Fprintf(&sb, " err=%v;", s.c[i].errored)
		}
		s.mu.Unlock()
		e.Logf("drained%s", sb.String())
	}
	s.mu.Lock()
	fault := s.c[0].errored || s.c[1].errored || s.c[0].stopped || s.c[1].stopped
	var sig, detail string
	if !fault {
		for r := 0; r < 2 && sig == ""; r++ {
			c, peer := s.c[r], s.c[1-r]
			if c.mc == nil {
				continue
			}
			for j := 0; j < s.nch && sig == ""; j++ {
				for k, m := range peer.issued[j] {
					if m.res == 0 && sig == "" {
						sig, detail = "send-wedged", fmt.Sprintf("Send #%d on channel index %d of conn %d never returned (150 s after the last action)", k, j, 1-r)
					}
				}
				missing, nonEmpty := 0, 0
				for _, m := range peer.issued[j][c.cursor[j]:] {
					if m.res == 1 {
						missing++
						if len(m.data) > 0 {
							nonEmpty++
						}
					}
				}
				if missing > 0 && sig == "" {
					sig = "lost-msg"
					if nonEmpty == 0 {
						sig = "empty-msg-lost"
					}
					detail = fmt.Sprintf("conn %d channel index %d (id %#x): %d accepted message(s) (%d of them non-empty) never arrived; both ends are up, everything in flight was delivered and 150 s passed", r, j, c.chans[j].id, missing, nonEmpty)
				}
			}
		}
	}
	s.mu.Unlock()
	if sig != "" {
		e.Fail("C17", sig, "%s", detail)
	}
	// stop both, release blocked senders, and look for wedged goroutines
	for i := 0; i < 2; i++ {
		c := s.c[i]
		if c.mc == nil {
			continue
		}
		s.mu.Lock()
		busy := c.ctl.busy
		if !busy {
			c.ctl.busy = true
		}
		s.mu.Unlock()
		if !busy {
			mc := c.mc
			c.ctl.cmd <- func() { mc.Stop() }
		}
		e.Settle()
		s.after()
	}
	// whatever is still in flight towards a stopped connection is of no interest
	for i := 0; i < 40; i++ {
		s.mu.Lock()
		ok := s.deliver(0, 1<<20)
		ok = s.deliver(1, 1<<20) || ok
		s.mu.Unlock()
		if !ok {
			break
		}
		e.Settle()
		s.after()
	}
	time.Sleep(11 * time.Second)
	e.Settle()
	s.after()
	s.mu.Lock()
	sig, detail = "", ""
	for i := 0; i < 2; i++ {
		c := s.c[i]
		if c.mc == nil {
			continue
		}
		if c.ctl.busy && sig == "" {
			sig, detail = "stop-wedged", fmt.Sprintf("Stop/FlushStop of conn %d did not return", i)
		}
		if n := s.busyActors(i); n > 0 && sig == "" {
			sig, detail = "send-wedged", fmt.Sprintf("%d Send calls of conn %d still blocked 11 s after the connection was stopped", n, i)
		}
	}
	s.mu.Unlock()
	if sig != "" {
		e.Fail("C17", sig, "%s", detail)
	}
	// Stop closes the connection itself; both routines must be gone now
	if n, sample := leaked(); n > 0 {
		e.Fail("C17", "goroutine-wedged", "%d MConnection goroutine(s) still alive 11 s after Stop returned:\n%s", n, sample)
	}
	for i := 0; i < 2; i++ {
		s.c[i].end.Close()
	}
	e.Settle()
}

// leaked counts goroutines still inside MConnection code.
func leaked() (int, string) {
	buf := make([]byte, 1<<20)
	n := runtime.Stack(buf, true)
	cnt := 0
	sample := ""
	for _, g := range strings.Split(string(buf[:n]), "\n\n") {
		if strings.Contains(g, "p2p/conn.(*MConnection)") && !strings.Contains(g, "mconnsim.leaked") {
			cnt++
			if sample == "" {
				sample = g
				if len(sample) > 1500 {
					sample = sample[:1500]
				}
			}
		}
	}
	return cnt, sample
}

func (s *sim) Close() {
	for i := 0; i < 2; i++ {
		c := s.c[i]
		if c == nil {
			continue
		}
		if c.mc != nil && c.mc.IsRunning() {
			mc := c.mc
			go mc.Stop()
		}
		c.end.Close()
	}
	s.env.Settle()
	time.Sleep(11 * time.Second) // blocked Send calls time out
	s.env.Settle()
	for i := 0; i < 2; i++ {
		c := s.c[i]
		if c == nil {
			continue
		}
		for _, a := range c.actors {
			close(a.cmd)
		}
		if c.ctl != nil {
			close(c.ctl.cmd)
		}
	}
	s.env.Settle()
}
