// Package mconnsim: deterministic simulation of the real p2p/conn.MConnection (channels,
// packetisation, priorities, send queues, flush throttle, ping/pong, flowrate limits) over a
// simulated net.Conn pair on the bubble's fake clock. Decides the connection half of C17:
// exactly-once, unmodified, per-channel-ordered delivery while the connection is up, and
// hostile input that at worst drops the peer and never makes the receiver buffer more than
// the channel's capacity.
//
// One stimulus = one Send/TrySend by one actor, OR delivery of at most one packet's worth of
// bytes to ONE reader (which may release ONE parked writer), OR one clock advance; then Settle.
//
// Modes (drawn per run) are chosen so that MConnection.sendRoutine never reaches its select
// with two ready cases whose order would be observable (Go's select is not seedable):
//
//	free    unbounded pipe, no rate limit, ping/pong on            (sendRoutine never parks)
//	bp      bounded pipe (writer parks), no ping, the clock stands still while a writer is parked
//	stall   bounded pipe, one active channel per side, clock free  (Send time-outs)
//	rl      flowrate-limited, several channels, run shorter than the 2 s stats tick
//	rl1     flowrate-limited, one active channel per side, clock free
//	hostile end 0 is a raw byte writer, end 1 a real MConnection
package mconnsim

import (
	"bytes"
	"encoding/binary"
	"errors"
	"fmt"
	"io"
	"net"
	"os"
	"runtime"
	"strings"
	"sync"
	"testing"
	"time"

	"github.com/gogo/protobuf/proto"

	"github.com/tendermint/tendermint/libs/log"
	"github.com/tendermint/tendermint/libs/protoio"
	"github.com/tendermint/tendermint/p2p/conn"
	tmp2p "github.com/tendermint/tendermint/proto/tendermint/p2p"

	"verif/simcore"
)

func TestMain(m *testing.M) {
	simcore.InitProcess()
	os.Exit(m.Run())
}

func TestSim(t *testing.T) { simcore.Main(t, harness) }

var harness = &simcore.Harness{
	Name:   "mconnsim",
	Props:  []string{"C17"},
	Config: genConfig,
	New:    newSim,
	MaxOps: 700,
	Real: []string{"p2p/conn.MConnection on both ends (one end in hostile mode): Send, TrySend, sendRoutine, recvRoutine, channel send queues, priorities, packetisation / reassembly, capacity check, flush throttle timer, ping/pong timers, Stop, FlushStop",
		"libs/flowrate monitors (send and receive limits) and libs/timer.ThrottleTimer on the bubble's fake clock", "libs/protoio delimited reader/writer, bufio buffers"},
	Stub: []string{"net.Conn: simulated full-duplex pipe; the simulator decides how many bytes each delivery carries (never more than one packet completion per stimulus), optional bound on bytes in flight (writer parks), deadlines are no-ops",
		"the reactors: onReceive / onError record what arrives", "hostile peer: the harness writes protobuf-delimited Packet bytes by hand"},
	Assumptions: []string{"bytes written to the connection arrive unmodified and in order (transport integrity is C16's business)",
		"a run never lets sendRoutine see two ready select cases with observable order: modes restrict which of {bounded pipe, rate limit, ping, several active channels, long clock advances} are combined"},
	MinimizeReps: 2,
}

// ---------------------------------------------------------------- configuration

func genConfig(rng *simcore.RNG, env *simcore.Env) simcore.Op {
	c := simcore.Op{}
	mode := []string{"free", "bp", "stall", "rl", "rl1", "hostile"}[rng.Weighted([]int{32, 20, 8, 12, 6, 22})]
	c["mode"] = mode
	payload := []int{1, 7, 64, 256, 1024}[rng.Weighted([]int{1, 2, 3, 3, 3})]
	c["payload"] = payload
	nch := rng.Range(2, 4)
	ids := map[int]bool{}
	var chs []simcore.Op
	for len(chs) < nch {
		id := rng.Intn(256)
		if rng.Bool(0.1) {
			id = []int{0, 255, 127, 128}[rng.Intn(4)]
		}
		if ids[id] {
			continue
		}
		ids[id] = true
		ch := simcore.Op{"id": id}
		for side := 0; side < 2; side++ {
			p := fmt.Sprint(side)
			ch["prio"+p] = rng.Range(1, 10)
			ch["sq"+p] = rng.Range(1, 4)
			ch["rbuf"+p] = []int{1, 64, 4096}[rng.Intn(3)]
			rc := payload*[]int{2, 5, 20}[rng.Intn(3)] + rng.Range(-1, 1)
			if rc < 1 {
				rc = 1
			}
			ch["rcap"+p] = rc
		}
		chs = append(chs, ch)
	}
	c["chs"] = chs
	c["flush_ms"] = []int{1, 10, 100}[rng.Intn(3)]
	hour := 3600 * 1000
	if mode == "free" || mode == "hostile" {
		for side := 0; side < 2; side++ {
			p := rng.Range(300, 3000)
			c[fmt.Sprint("ping_ms", side)] = p
			c[fmt.Sprint("pong_ms", side)] = p * rng.Range(30, 90) / 100
		}
	} else {
		for side := 0; side < 2; side++ {
			c[fmt.Sprint("ping_ms", side)] = hour
			c[fmt.Sprint("pong_ms", side)] = hour / 2
		}
	}
	if mode == "bp" || mode == "stall" {
		c["wcap"] = []int{16, 100, 1000, 5000}[rng.Intn(4)]
	}
	if mode == "rl" || mode == "rl1" {
		c["send_rate"] = []int{2000, 10000, 50000}[rng.Intn(3)]
		c["recv_rate"] = []int{0, 2000, 10000, 50000}[rng.Intn(4)]
	}
	c["single"] = mode == "stall" || mode == "rl1"
	c["nops"] = rng.Range(40, 300)
	if env.Thorough() {
		c["nops"] = rng.Range(40, 650)
	}
	c["stop"] = rng.Bool(0.15)
	c["oversize"] = rng.Bool(0.25)
	// hostile input kinds (swarm)
	var hk []string
	for _, k := range hostileKinds {
		if rng.Bool(0.45) {
			hk = append(hk, k)
		}
	}
	c["hk"] = hk
	return c
}

var hostileKinds = []string{"unk", "big", "frag", "ping", "pong", "rand", "hugelen", "empty", "badproto"}

// ---------------------------------------------------------------- pipe

type req struct {
	buf  []byte
	n    int
	err  error
	done chan struct{}
}

// framer finds the packet boundaries (uvarint length + body) in a byte stream.
type framer struct {
	hdr     []byte
	body    int64
	pos     int64
	garbage bool
}

// half is the byte stream towards one end.
type half struct {
	wire      []byte // written, in flight
	avail     []byte // delivered, not yet read
	wcap      int    // bound on len(wire); 0 = unbounded
	ends      []int64
	starts    []int64
	dTotal    int64
	fr        framer
	pktBuf    []byte // bytes of the packet currently being delivered (for decoding)
	finQueued bool
	finDeliv  bool
	dead      bool // the reader end is closed: whatever is written vanishes
}

func (h *half) feed(b []byte) {
	f := &h.fr
	for _, x := range b {
		f.pos++
		if f.garbage {
			continue
		}
		if f.body > 0 {
			f.body--
			if f.body == 0 {
				h.ends = append(h.ends, f.pos)
			}
			continue
		}
		f.hdr = append(f.hdr, x)
		if x < 0x80 {
			l, k := binary.Uvarint(f.hdr)
			f.hdr = f.hdr[:0]
			if k <= 0 || l > 1<<24 {
				f.garbage = true
				continue
			}
			if l == 0 {
				h.ends = append(h.ends, f.pos)
			} else {
				f.body = int64(l)
			}
		} else if len(f.hdr) >= binary.MaxVarintLen64 {
			f.garbage = true
		}
	}
}

type addr struct{ s string }

func (a addr) Network() string { return "sim" }
func (a addr) String() string  { return a.s }

// end implements net.Conn. Blocked calls park on a channel only the simulator closes.
type end struct {
	s      *sim
	id     int
	closed bool
	rst    bool
	rreq   *req
	wreq   *req
}

var errClosed = errors.New("simpipe: use of closed connection")
var errReset = errors.New("simpipe: broken pipe")

func (e *end) Read(p []byte) (int, error) {
	s := e.s
	h := s.h[e.id]
	s.mu.Lock()
	if e.closed {
		s.mu.Unlock()
		return 0, errClosed
	}
	if len(p) == 0 {
		s.mu.Unlock()
		return 0, nil
	}
	if len(h.avail) > 0 {
		n := copy(p, h.avail)
		h.avail = h.avail[n:]
		s.mu.Unlock()
		return n, nil
	}
	if h.finDeliv {
		s.mu.Unlock()
		return 0, io.EOF
	}
	r := &req{buf: p, done: make(chan struct{})}
	e.rreq = r
	s.mu.Unlock()
	<-r.done
	return r.n, r.err
}

// accept moves as much of b as fits into the wire. Caller holds mu.
func (s *sim) accept(h *half, b []byte) int {
	if h.dead {
		return len(b)
	}
	k := len(b)
	if h.wcap > 0 {
		free := h.wcap - len(h.wire)
		if free < 0 {
			free = 0
		}
		if k > free {
			k = free
		}
	}
	h.wire = append(h.wire, b[:k]...)
	h.feed(b[:k])
	return k
}

func (e *end) Write(p []byte) (int, error) {
	s := e.s
	h := s.h[1-e.id]
	s.mu.Lock()
	if e.closed {
		s.mu.Unlock()
		return 0, errClosed
	}
	if e.rst {
		s.mu.Unlock()
		return 0, errReset
	}
	k := s.accept(h, p)
	if k == len(p) {
		s.mu.Unlock()
		return k, nil
	}
	r := &req{buf: append([]byte{}, p[k:]...), n: k, done: make(chan struct{})}
	e.wreq = r
	s.mu.Unlock()
	<-r.done
	return r.n, r.err
}

func (e *end) Close() error {
	s := e.s
	s.mu.Lock()
	defer s.mu.Unlock()
	if e.closed {
		return nil
	}
	e.closed = true
	if e.rreq != nil {
		e.rreq.err = errClosed
		close(e.rreq.done)
		e.rreq = nil
	}
	if e.wreq != nil {
		e.wreq.err = errClosed
		close(e.wreq.done)
		e.wreq = nil
	}
	s.closedNow = append(s.closedNow, e.id)
	return nil
}

func (e *end) LocalAddr() net.Addr                { return addr{fmt.Sprint("sim", e.id)} }
func (e *end) RemoteAddr() net.Addr               { return addr{fmt.Sprint("sim", 1-e.id)} }
func (e *end) SetDeadline(t time.Time) error      { return nil }
func (e *end) SetReadDeadline(t time.Time) error  { return nil }
func (e *end) SetWriteDeadline(t time.Time) error { return nil }

// ---------------------------------------------------------------- simulator state

type chanCfg struct {
	id   byte
	prio int
	sq   int
	rbuf int
	rcap int
}

type msgRec struct {
	data []byte
	res  int // 0 pending, 1 accepted (true), 2 refused (false)
	try  bool
	at   time.Time
}

type actor struct {
	cmd  chan func()
	busy bool
}

type connSt struct {
	mc      *conn.MConnection
	end     *end
	t0      time.Time
	chans   []chanCfg
	issued  [][]*msgRec // per channel, in issue order: what this side offered for sending
	cursor  []int       // per channel: next entry of the PEER's issued list expected here
	recv    [][][]byte  // per channel: what this side received (appended by onReceive)
	checked []int
	unknown int
	acc     []int // per channel: bytes of the incomplete message delivered to this side so far
	errored bool
	errStr  string
	stopped bool // the harness stopped it
	excuse  string
	actors  []*actor
	ctl     *actor
	pktIn   int
	// hostile writer state (end 0 in hostile mode)
	partial [][]byte
}

type sim struct {
	env  *simcore.Env
	cfg  simcore.Op
	mode string
	mu   sync.Mutex
	h    [2]*half // h[i]: stream towards end i
	c    [2]*connSt
	nch  int
	payload  int
	maxPkt   int // largest well-formed packet on the wire (for the framer only)
	closedNow []int
	opsLeft   int
	dead      bool
	firstDown int // side that went down first (-1)
	downWhy   string
	seq       int
	deadline  time.Time // rl mode: no clock advance beyond
	stopDone  bool
	hkinds    []string
	hostileBad bool // a non-benign hostile item was written
	panics    []string
}

func (s *sim) newActor() *actor {
	a := &actor{cmd: make(chan func())}
	go func() {
		for f := range a.cmd {
			func() {
				defer func() {
					if r := recover(); r != nil {
						s.mu.Lock()
						s.panics = append(s.panics, fmt.Sprint(r))
						s.mu.Unlock()
					}
				}()
				f()
			}()
			s.mu.Lock()
			a.busy = false
			s.mu.Unlock()
		}
	}()
	return a
}

func (s *sim) chanIdx(id byte) int {
	for i, c := range s.c[1].chans {
		if c.id == id {
			return i
		}
	}
	return -1
}

func newSim(env *simcore.Env, cfg simcore.Op) simcore.Sim {
	s := &sim{env: env, cfg: cfg, mode: cfg.Str("mode"), opsLeft: cfg.Int("nops"), payload: cfg.Int("payload"), firstDown: -1}
	s.hkinds = cfg.Strs("hk")
	chs := cfg.Subs("chs")
	s.nch = len(chs)
	for i := 0; i < 2; i++ {
		s.h[i] = &half{wcap: cfg.Int("wcap")}
	}
	if s.mode == "hostile" {
		s.h[0].wcap, s.h[1].wcap = 0, 0
	}
	first := 0
	if s.mode == "hostile" {
		first = 1
	}
	for i := 0; i < 2; i++ {
		c := &connSt{end: &end{s: s, id: i}}
		p := fmt.Sprint(i)
		for _, ch := range chs {
			c.chans = append(c.chans, chanCfg{id: byte(ch.Int("id")), prio: ch.Int("prio" + p), sq: ch.Int("sq" + p), rbuf: ch.Int("rbuf" + p), rcap: ch.Int("rcap" + p)})
		}
		c.issued = make([][]*msgRec, s.nch)
		c.recv = make([][][]byte, s.nch)
		c.cursor = make([]int, s.nch)
		c.checked = make([]int, s.nch)
		c.acc = make([]int, s.nch)
		c.partial = make([][]byte, s.nch)
		s.c[i] = c
	}
	for i := first; i < 2; i++ {
		c := s.c[i]
		var descs []*conn.ChannelDescriptor
		for _, ch := range c.chans {
			descs = append(descs, &conn.ChannelDescriptor{ID: ch.id, Priority: ch.prio, SendQueueCapacity: ch.sq, RecvBufferCapacity: ch.rbuf, RecvMessageCapacity: ch.rcap})
		}
		mcfg := conn.DefaultMConnConfig()
		mcfg.MaxPacketMsgPayloadSize = s.payload
		// odd nanosecond offsets: no two timers of a run ever fire at the same fake instant
		mcfg.FlushThrottle = time.Duration(cfg.Int("flush_ms"))*time.Millisecond + 7 + time.Duration(i)*4
		mcfg.PingInterval = time.Duration(cfg.Int(fmt.Sprint("ping_ms", i)))*time.Millisecond + 13 + time.Duration(i)*16
		mcfg.PongTimeout = time.Duration(cfg.Int(fmt.Sprint("pong_ms", i)))*time.Millisecond + 3 + time.Duration(i)*2
		mcfg.SendRate = int64(cfg.Int("send_rate"))
		mcfg.RecvRate = int64(cfg.Int("recv_rate"))
		idx := i
		onRecv := func(chID byte, msg []byte) {
			cp := append([]byte{}, msg...)
			s.mu.Lock()
			k := -1
			for j, ch := range c.chans {
				if ch.id == chID {
					k = j
				}
			}
			if k < 0 {
				c.unknown++
			} else {
				c.recv[k] = append(c.recv[k], cp)
			}
			s.mu.Unlock()
		}
		onErr := func(r interface{}) {
			s.mu.Lock()
			c.errored = true
			c.errStr = fmt.Sprint(r)
			s.mu.Unlock()
			_ = idx
		}
		c.mc = conn.NewMConnectionWithConfig(c.end, descs, onRecv, onErr, mcfg)
		c.mc.SetLogger(log.NewNopLogger())
		c.t0 = time.Now()
		if err := c.mc.Start(); err != nil {
			panic(err)
		}
		env.Settle()
		for k := 0; k < 3; k++ {
			c.actors = append(c.actors, s.newActor())
		}
		c.ctl = s.newActor()
		// the second connection starts a little later: its tickers never coincide with the first's
		time.Sleep(time.Millisecond + 3)
		env.Settle()
	}
	if s.mode == "rl" {
		s.deadline = s.c[0].t0.Add(1900 * time.Millisecond)
	}
	return s
}

// ---------------------------------------------------------------- op generation

func (s *sim) parked() bool {
	return s.c[0].end.wreq != nil || s.c[1].end.wreq != nil
}

func (s *sim) up(i int) bool {
	c := s.c[i]
	return c.mc != nil && !c.errored && !c.stopped
}

func (s *sim) sizes(rng *simcore.RNG, rcap int) int {
	p := s.payload
	switch k := rng.Intn(12); {
	case k < 2:
		return rng.Range(1, 9)
	case k < 4:
		return p + rng.Range(-1, 1)
	case k < 7:
		return p*rng.Range(2, 5) + rng.Range(-1, 1)
	case k < 9:
		return rcap - rng.Intn(2)
	case k < 10:
		if s.cfg.Bool("oversize") {
			return rcap + rng.Range(1, p+1)
		}
		return rcap
	default:
		return rng.Range(1, rcap)
	}
}

func (s *sim) genDeliver(rng *simcore.RNG, to int) simcore.Op {
	n := 1 << 20
	switch rng.Intn(6) {
	case 0:
		n = rng.Range(1, 5)
	case 1:
		n = rng.Range(1, s.payload+12)
	}
	rep := 1
	if n == 1<<20 {
		rep = rng.Range(1, 10)
	}
	return simcore.Op{"a": "dlv", "to": to, "n": n, "rep": rep}
}

func (s *sim) Next(rng *simcore.RNG) simcore.Op {
	if s.dead || s.opsLeft <= 0 {
		return nil
	}
	s.opsLeft--
	s.mu.Lock()
	defer s.mu.Unlock()
	var deliv []int
	for i := 0; i < 2; i++ {
		h := s.h[i]
		if len(h.wire) > 0 || (h.finQueued && !h.finDeliv) {
			deliv = append(deliv, i)
		}
	}
	hostile := s.mode == "hostile"
	w := []int{35, 0, 14, 0, 0} // send, deliver, tick, stop, raw
	if len(deliv) > 0 {
		w[1] = 45
	}
	if hostile {
		w[0] = 8
		w[4] = 30
		// the hostile writer consumes whatever the real side sends without delay
	}
	if s.mode == "bp" && s.parked() {
		w[2] = 0
	}
	if s.mode == "rl" && !time.Now().Before(s.deadline) {
		w[2] = 0
	}
	if s.cfg.Bool("stop") && !s.stopDone && s.opsLeft < 15 {
		w[3] = 6
	}
	// a pending ping wants its pong: keep the network moving in most runs
	if len(deliv) > 0 && w[2] > 0 && rng.Bool(0.8) {
		w[2] = 3
	}
	switch rng.Weighted(w) {
	case 0:
		var cand []int
		for i := 0; i < 2; i++ {
			if s.up(i) {
				cand = append(cand, i)
			}
		}
		if len(cand) == 0 {
			if len(deliv) > 0 {
				return s.genDeliver(rng, deliv[rng.Intn(len(deliv))])
			}
			return simcore.Op{"a": "tick", "us": 1000 * rng.Range(1, 200)}
		}
		ci := cand[rng.Intn(len(cand))]
		c := s.c[ci]
		var idle []int
		for k, a := range c.actors {
			if !a.busy {
				idle = append(idle, k)
			}
		}
		if len(idle) == 0 {
			if len(deliv) > 0 {
				return s.genDeliver(rng, deliv[rng.Intn(len(deliv))])
			}
			return simcore.Op{"a": "tick", "us": 1000 * rng.Range(1, 200)}
		}
		ch := rng.Intn(s.nch)
		if s.cfg.Bool("single") {
			ch = ci % s.nch
		}
		n := s.sizes(rng, s.c[1-ci].chans[ch].rcap)
		if n < 0 {
			n = 0
		}
		return simcore.Op{"a": "send", "c": ci, "k": idle[rng.Intn(len(idle))], "ch": ch, "n": n, "try": rng.Bool(0.5), "seed": rng.Intn(1 << 30)}
	case 1:
		return s.genDeliver(rng, deliv[rng.Intn(len(deliv))])
	case 2:
		us := []int{1000, 5000, 20000, 100000, 150000, 1000000, 2500000}[rng.Intn(7)]
		if rng.Bool(0.3) {
			us = rng.Range(100, 300000)
		}
		if (s.mode == "stall" || s.mode == "free") && rng.Bool(0.08) {
			us = 11000000
		}
		return simcore.Op{"a": "tick", "us": us}
	case 3:
		return simcore.Op{"a": "stop", "c": rng.Intn(2), "flush": rng.Bool(0.6)}
	default:
		return s.genRaw(rng)
	}
}

func (s *sim) genRaw(rng *simcore.RNG) simcore.Op {
	ch := rng.Intn(s.nch)
	rcap := s.c[1].chans[ch].rcap
	op := simcore.Op{"a": "raw", "ch": ch, "seed": rng.Intn(1 << 30)}
	kind := "msg"
	if len(s.hkinds) > 0 && rng.Bool(0.35) {
		kind = s.hkinds[rng.Intn(len(s.hkinds))]
	}
	op["k"] = kind
	switch kind {
	case "msg":
		op["n"] = s.sizes(rng, rcap)
		op["f"] = []int{s.payload, s.payload, rng.Range(0, s.payload), 1}[rng.Intn(4)]
	case "frag":
		op["f"] = rng.Range(0, s.payload)
		op["cnt"] = rng.Range(1, 12)
		if rng.Bool(0.3) {
			op["cnt"] = rcap/(s.payload) + rng.Range(0, 3)
		}
	case "unk":
		op["id"] = []int{rng.Intn(256), 256 + rng.Intn(256), -1 - rng.Intn(200), 1 << 30}[rng.Intn(4)]
		op["n"] = rng.Range(0, s.payload)
	case "big":
		op["n"] = s.payload + rng.Range(1, 2000)
	case "ping", "pong":
		op["cnt"] = rng.Range(1, 30)
	case "rand":
		op["n"] = rng.Range(1, 300)
	case "hugelen":
		op["v"] = rng.Intn(5)
	case "badproto":
		op["n"] = rng.Range(1, s.payload+5)
	}
	return op
}

// ---------------------------------------------------------------- apply

func msgBytes(ci, ch, seq, n, seed int) []byte {
	b := simcore.NewRNG(uint64(seed)*1000003 + uint64(seq)).Bytes(n)
	hdr := []byte{byte(0xA0 + ci), byte(ch), byte(seq >> 8), byte(seq)}
	copy(b, hdr)
	return b
}

func (s *sim) Apply(op simcore.Op) bool {
	if s.dead {
		return false
	}
	e := s.env
	switch op.Kind() {
	case "send":
		if !s.opSend(op) {
			return false
		}
	case "dlv":
		to := op.Int("to") & 1
		n, rep := op.Int("n"), op.Int("rep")
		if n < 1 || rep < 1 {
			return false
		}
		any := false
		for i := 0; i < rep; i++ {
			s.mu.Lock()
			ok := s.deliver(to, n)
			s.mu.Unlock()
			if !ok {
				break
			}
			any = true
			e.Settle()
			s.after()
		}
		if !any {
			return false
		}
		e.Count("op.dlv")
		return true
	case "tick":
		if !s.opTick(time.Duration(op.Int("us")) * time.Microsecond) {
			return false
		}
	case "stop":
		ci := op.Int("c") & 1
		c := s.c[ci]
		if c.mc == nil || c.stopped || c.ctl.busy {
			return false
		}
		s.mu.Lock()
		c.stopped = true
		c.ctl.busy = true
		s.stopDone = true
		if s.firstDown < 0 {
			s.firstDown, s.downWhy = ci, "stopped by the harness"
		}
		s.mu.Unlock()
		mc := c.mc
		if op.Bool("flush") {
			c.ctl.cmd <- func() { mc.FlushStop() }
			e.Count("fault.flushstop")
		} else {
			c.ctl.cmd <- func() { mc.Stop() }
			e.Count("fault.stop")
		}
	case "raw":
		if s.mode != "hostile" {
			return false
		}
		s.mu.Lock()
		ok := s.opRaw(op)
		s.mu.Unlock()
		if !ok {
			return false
		}
	default:
		return false
	}
	e.Count("op." + op.Kind())
	e.Settle()
	s.after()
	return true
}

func (s *sim) opSend(op simcore.Op) bool {
	ci, k, ch, n := op.Int("c")&1, op.Int("k"), op.Int("ch"), op.Int("n")
	c := s.c[ci]
	if c.mc == nil || k < 0 || k >= len(c.actors) || ch < 0 || ch >= s.nch || n < 0 || n > 1<<22 {
		return false
	}
	s.mu.Lock()
	a := c.actors[k]
	if a.busy || !s.up(ci) {
		s.mu.Unlock()
		return false
	}
	s.seq++
	m := &msgRec{data: msgBytes(ci, ch, s.seq, n, op.Int("seed")), try: op.Bool("try"), at: time.Now()}
	c.issued[ch] = append(c.issued[ch], m)
	a.busy = true
	s.mu.Unlock()
	mc, id := c.mc, c.chans[ch].id
	data := append([]byte{}, m.data...)
	try := m.try
	a.cmd <- func() {
		var ok bool
		if try {
			ok = mc.TrySend(id, data)
		} else {
			ok = mc.Send(id, data)
		}
		s.mu.Lock()
		if ok {
			m.res = 1
		} else {
			m.res = 2
		}
		s.mu.Unlock()
	}
	return true
}

// opTick advances the fake clock. In bp mode the clock never crosses a 2 s stats-tick of a
// connection while a writer is parked (the tick would stay pending next to the send token).
func (s *sim) opTick(d time.Duration) bool {
	if d <= 0 {
		return false
	}
	e := s.env
	switch s.mode {
	case "bp":
		if s.parked() {
			return false
		}
		left := d
		for left > 0 {
			now := time.Now()
			nb := time.Duration(1 << 62)
			for i := 0; i < 2; i++ {
				if s.c[i].mc == nil {
					continue
				}
				el := now.Sub(s.c[i].t0)
				next := (el/(2*time.Second) + 1) * 2 * time.Second
				if d := next - el; d < nb {
					nb = d
				}
			}
			if left < nb-1 {
				time.Sleep(left)
				e.Settle()
				break
			}
			if nb > 1 {
				time.Sleep(nb - 1)
				e.Settle()
				left -= nb - 1
			}
			if s.parked() {
				break
			}
			time.Sleep(2)
			e.Settle()
			left -= 2
		}
	case "rl":
		now := time.Now()
		if !now.Add(d).Before(s.deadline) {
			d = s.deadline.Sub(now)
			if d <= 0 {
				return false
			}
		}
		time.Sleep(d)
	default:
		time.Sleep(d)
	}
	return true
}

// deliver moves up to n bytes of the wire towards end `to`, never beyond the end of the first
// packet that completes. Caller holds mu.
func (s *sim) deliver(to, n int) bool {
	h := s.h[to]
	e := s.c[to].end
	if len(h.wire) == 0 {
		if h.finQueued && !h.finDeliv {
			h.finDeliv = true
			e.rst = true
			if e.rreq != nil && len(h.avail) == 0 {
				e.rreq.err = io.EOF
				close(e.rreq.done)
				e.rreq = nil
			}
			if e.wreq != nil {
				e.wreq.err = errReset
				close(e.wreq.done)
				e.wreq = nil
			}
			s.env.Count("probe.fin_delivered")
			return true
		}
		return false
	}
	move := len(h.wire)
	if n < move {
		move = n
	}
	for len(h.ends) > 0 && h.ends[0] <= h.dTotal {
		h.ends = h.ends[1:]
	}
	complete := false
	if len(h.ends) > 0 {
		if lim := int(h.ends[0] - h.dTotal); lim <= move {
			move = lim
			complete = true
		}
	}
	chunk := h.wire[:move]
	h.pktBuf = append(h.pktBuf, chunk...)
	h.avail = append(h.avail, chunk...)
	h.wire = h.wire[move:]
	h.dTotal += int64(move)
	if complete {
		s.packetDelivered(to, h.pktBuf)
		h.pktBuf = h.pktBuf[:0]
		h.ends = h.ends[1:]
	} else if h.fr.garbage && len(h.ends) == 0 {
		h.pktBuf = h.pktBuf[:0]
	}
	if e.rreq != nil {
		rq := e.rreq
		rq.n = copy(rq.buf, h.avail)
		h.avail = h.avail[rq.n:]
		e.rreq = nil
		close(rq.done)
	}
	s.refill(to)
	return true
}

// refill lets the writer parked on the stream towards `to` continue. Caller holds mu.
func (s *sim) refill(to int) {
	h := s.h[to]
	w := s.c[1-to].end
	if w.wreq == nil {
		return
	}
	r := w.wreq
	k := s.accept(h, r.buf)
	r.n += k
	r.buf = r.buf[k:]
	if len(r.buf) == 0 {
		w.wreq = nil
		close(r.done)
	}
}

// packetDelivered: the last byte of a delimited packet reached end `to`. Bookkeeping for the
// capacity clause: bytes of the incomplete message per channel.
func (s *sim) packetDelivered(to int, raw []byte) {
	c := s.c[to]
	c.pktIn++
	l, k := binary.Uvarint(raw)
	if k <= 0 || int(l) != len(raw)-k {
		return
	}
	var p tmp2p.Packet
	if err := proto.Unmarshal(raw[k:], &p); err != nil {
		return
	}
	switch m := p.Sum.(type) {
	case *tmp2p.Packet_PacketMsg:
		id := m.PacketMsg.ChannelID
		if id < 0 || id > 255 {
			return
		}
		for j, ch := range c.chans {
			if ch.id == byte(id) {
				c.acc[j] += len(m.PacketMsg.Data)
				if c.acc[j] > ch.rcap+s.payload && s.overAt[to] == nil {
					s.overAt[to] = &overRec{ch: j, n: c.acc[j]}
				}
				if m.PacketMsg.EOF {
					c.acc[j] = 0
				}
			}
		}
		s.env.Count("probe.pkt_msg")
	case *tmp2p.Packet_PacketPing:
		s.env.Count("probe.pkt_ping")
	case *tmp2p.Packet_PacketPong:
		s.env.Count("probe.pkt_pong")
	}
}
