// Package walsim: deterministic simulation of the real consensus WAL (BaseWAL +
// autofile.Group + WALEncoder/Decoder + repairWalFile) on a scratch directory, with
// crashes that cut / garble the unsynced tail. Decides C15 (first two sentences).
package walsim

import (
	"bytes"
	"fmt"
	"io"
	"os"
	"path/filepath"
	"sort"
	"testing"
	"time"

	"github.com/gogo/protobuf/proto"

	cs "github.com/tendermint/tendermint/consensus"
	"github.com/tendermint/tendermint/crypto/tmhash"
	auto "github.com/tendermint/tendermint/libs/autofile"
	"github.com/tendermint/tendermint/libs/log"
	tmcons "github.com/tendermint/tendermint/proto/tendermint/consensus"
	tmproto "github.com/tendermint/tendermint/proto/tendermint/types"
	"github.com/tendermint/tendermint/types"
	tmtime "github.com/tendermint/tendermint/types/time"

	"verif/simcore"
)

func TestMain(m *testing.M) {
	simcore.InitProcess()
	os.Exit(m.Run())
}

func TestSim(t *testing.T) { simcore.Main(t, harness) }

var harness = &simcore.Harness{
	Name:   "walsim",
	Props:  []string{"C15"},
	Config: genConfig,
	New:    newSim,
	MaxOps: 400,
	Real: []string{"consensus.BaseWAL (Write, WriteSync, FlushAndSync, SearchForEndHeight, OnStart/OnStop, flush ticker)",
		"libs/autofile Group + AutoFile + GroupReader (rotation, total-size pruning, real files on tmpfs)",
		"consensus.WALEncoder / WALDecoder", "consensus.repairWalFile (via hook H4) in the same open-decode-repair-reopen sequence State.OnStart performs"},
	Stub: []string{"consensus.State (records are written by the simulator, not by the state machine; see consim for the replay half of C15)",
		"file-system crash semantics: modelled as keep synced prefix + PRNG/enumerated cut of the unsynced tail, optional garbage / single byte flip"},
	Assumptions: []string{"disk model: fsynced bytes survive a crash; the unsynced tail of the head file survives up to any byte offset, bytes of the unsynced tail may be garbage; rotated files are fully synced (RotateFile syncs before rename); renames are atomic and durable",
		"bytes still in the process's bufio buffer are lost at a crash"},
}

// ---------------------------------------------------------------- configuration

func genConfig(rng *simcore.RNG, env *simcore.Env) simcore.Op {
	c := simcore.Op{}
	c["head_limit"] = []int{200, 400, 1000, 3000, 50000}[rng.Intn(5)]
	if rng.Bool(0.5) {
		c["total_limit"] = []int{1500, 4000, 12000}[rng.Intn(3)]
	} else {
		c["total_limit"] = 0
	}
	c["check_ms"] = []int{500, 1000, 5000}[rng.Intn(3)]
	c["flush_ms"] = []int{300, 2000, 100000}[rng.Intn(3)]
	c["nops"] = rng.Range(10, 120)
	if env.Thorough() {
		c["nops"] = rng.Range(10, 250)
	}
	// fault mix (swarm)
	c["crash"] = rng.Bool(0.8)
	c["garbage"] = rng.Bool(0.5)
	c["flip"] = rng.Bool(0.15) // single-byte flip anywhere: relaxed oracle, separate configuration
	c["sweep"] = rng.Bool(0.5)
	c["big"] = rng.Bool(0.3) // records larger than the 40 KiB bufio buffer
	// the group may already have a long history: rotated files with 3- and 4-digit indices
	c["start_index"] = []int{0, 0, 0, 7, 996, 9997}[rng.Intn(6)]
	return c
}

// ---------------------------------------------------------------- journal

type rec struct {
	seq    int
	canon  []byte // proto bytes of the TimedWALMessage as written
	synced bool   // acknowledged by a successful synced write
	file   int    // group index of the file it was written to
	endH   int64  // >=0 when it is an end-height marker
	auto   bool   // written by the WAL itself (EndHeight{0} on an empty head)
}

type sim struct {
	env *simcore.Env
	cfg simcore.Op
	dir string
	wal *cs.BaseWAL

	j        []rec // written records, in write order, that may still be on disk
	seq      int
	opsLeft  int
	crashes  int
	headSync int64 // lower bound of the durable length of the current head file
	headIdx  int   // group index of the current head
	lastEndH int64
	flipped  bool // a byte of synced data was flipped: only "never wrong data" is checked
	dead     bool // WAL could not be reopened (allowed only after a flip)
}

func newSim(env *simcore.Env, cfg simcore.Op) simcore.Sim {
	s := &sim{env: env, cfg: cfg, dir: filepath.Join(env.MkScratch(), "wal"), opsLeft: cfg.Int("nops")}
	os.MkdirAll(s.dir, 0o700)
	if si := cfg.Int("start_index"); si > 0 {
		// one rotated file "wal.<si-1>" holding a valid record, as a long-lived group would have
		// (its older files pruned): the head then has index si
		var buf bytes.Buffer
		m := cs.EndHeightMessage{Height: 0}
		r := rec{seq: s.seq, canon: canonOf(tmtime.Now(), m), synced: true, file: si - 1, endH: 0, auto: true}
		s.seq++
		if err := cs.NewWALEncoder(&buf).Encode(&cs.TimedWALMessage{Time: tmtime.Now(), Msg: m}); err != nil {
			panic(err)
		}
		if err := os.WriteFile(filepath.Join(s.dir, fmt.Sprintf("wal.%03d", si-1)), buf.Bytes(), 0o600); err != nil {
			panic(err)
		}
		s.j = append(s.j, r)
		s.headIdx = si
	}
	if err := s.open(s.dir); err != nil {
		panic(err)
	}
	return s
}

func (s *sim) walPath(dir string) string { return filepath.Join(dir, "wal") }

func openWAL(cfg simcore.Op, path string) (*cs.BaseWAL, error) {
	w, err := cs.NewWAL(path,
		auto.GroupHeadSizeLimit(int64(cfg.Int("head_limit"))),
		auto.GroupTotalSizeLimit(int64(cfg.Int("total_limit"))),
		auto.GroupCheckDuration(time.Duration(cfg.Int("check_ms"))*time.Millisecond))
	if err != nil {
		return nil, err
	}
	w.SetLogger(log.NewNopLogger())
	// +7ns: the flush ticker and the group's check ticker must never fire at the same fake
	// instant (two goroutines woken together would run in an order the simulator does not own)
	w.SetFlushInterval(time.Duration(cfg.Int("flush_ms"))*time.Millisecond + 7)
	return w, nil
}

// open performs what State.OnStart does with the WAL: open+start, look for the last end
// height and decode what follows; on a data-corruption error stop, back up, repair the head
// file, reopen. It records the EndHeight{0} the WAL writes itself into an empty head.
func (s *sim) open(dir string) error {
	path := s.walPath(dir)
	for attempt := 0; ; attempt++ {
		st, err := os.Stat(path)
		empty := err != nil || st.Size() == 0
		w, err := openWAL(s.cfg, path)
		if err != nil {
			return err
		}
		if nm := w.Group().MaxIndex(); nm < s.headIdx {
			// all rotated files are gone, the group restarted its numbering
			d := s.headIdx - nm
			for i := range s.j {
				s.j[i].file -= d
			}
			s.headIdx = nm
		}
		if empty && w.Group().ReadGroupInfo().TotalSize == 0 {
			// BaseWAL.OnStart will WriteSync(EndHeightMessage{0}) into a completely empty WAL.
			// (Before the fix recorded in KNOWN_FINDINGS.txt it also did so into an empty head
			// next to rotated files; the reader-side oracle below tolerates that extra record.)
			s.journal(cs.EndHeightMessage{Height: 0}, w.Group().MaxIndex(), true, true)
		}
		if err := w.Start(); err != nil {
			return err
		}
		s.env.Settle()
		s.wal = w
		err = s.catchupScan()
		if err == nil {
			break
		}
		if !cs.IsDataCorruptionError(err) || attempt > 0 {
			w.Stop()
			s.env.Settle()
			s.wal = nil
			return err
		}
		s.env.Count("probe.wal_repair")
		if err := w.Stop(); err != nil {
			return err
		}
		s.env.Settle()
		corrupted := path + ".CORRUPTED"
		b, err := os.ReadFile(path)
		if err != nil {
			return err
		}
		if err := os.WriteFile(corrupted, b, 0o600); err != nil {
			return err
		}
		if err := cs.VerifRepairWalFile(corrupted, path); err != nil {
			return err
		}
		os.Remove(corrupted) // keeps the group's size accounting simple; State leaves it in place
	}
	s.headIdx = s.wal.Group().MaxIndex()
	st, _ := os.Stat(path)
	s.headSync = st.Size() // whatever is on disk after a restart is the durable image
	return nil
}

// catchupScan mimics catchupReplay's use of the WAL: find the last end-height marker
// (ignoring corruption), then decode strictly until EOF.
func (s *sim) catchupScan() error {
	gr, found, err := s.wal.SearchForEndHeight(s.lastEndH, &cs.WALSearchOptions{IgnoreDataCorruptionErrors: true})
	if err != nil {
		return err
	}
	if !found {
		// the marker may have been lost with the unsynced tail or pruned; scan the head only
		g, err := s.wal.Group().NewReader(s.wal.Group().MaxIndex())
		if err != nil {
			return err
		}
		gr = g
	}
	defer gr.Close()
	dec := cs.NewWALDecoder(gr)
	for {
		_, err := dec.Decode()
		if err == io.EOF {
			return nil
		}
		if err != nil {
			return err
		}
	}
}

func canonOf(t time.Time, m cs.WALMessage) []byte {
	pb, err := cs.WALToProto(m)
	if err != nil {
		panic(err)
	}
	b, err := proto.Marshal(&tmcons.TimedWALMessage{Time: t, Msg: pb})
	if err != nil {
		panic(err)
	}
	return b
}

func (s *sim) journal(m cs.WALMessage, file int, synced, auto bool) {
	r := rec{seq: s.seq, canon: canonOf(tmtime.Now(), m), synced: synced, file: file, endH: -1, auto: auto}
	if eh, ok := m.(cs.EndHeightMessage); ok {
		r.endH = eh.Height
	}
	s.seq++
	s.j = append(s.j, r)
}

// ---------------------------------------------------------------- messages

func buildMsg(op simcore.Op) cs.WALMessage {
	n := op.Int("n")
	id := int64(op.Int("id"))
	switch op.Str("m") {
	case "eh":
		return cs.EndHeightMessage{Height: int64(op.Int("h"))}
	case "rs":
		return types.EventDataRoundState{Height: id, Round: int32(n % 7), Step: string(bytes.Repeat([]byte{'s'}, n))}
	case "to":
		return cs.VerifTimeoutInfo{Duration: time.Duration(n) * time.Millisecond, Height: id, Round: int32(n % 5), Step: 3}
	case "vote":
		h := tmhash.Sum([]byte(fmt.Sprint("blk", id)))
		v := &types.Vote{Type: tmproto.PrevoteType, Height: id, Round: int32(n % 5),
			BlockID:          types.BlockID{Hash: h, PartSetHeader: types.PartSetHeader{Total: 1, Hash: h}},
			Timestamp:        time.Unix(1600000000+id, 0).UTC(),
			ValidatorAddress: h[:20], ValidatorIndex: int32(n % 4), Signature: bytes.Repeat([]byte{byte(id)}, 64)}
		return cs.VerifMsgInfo{Msg: &cs.VoteMessage{Vote: v}, PeerID: ""}
	case "part":
		data := simcore.NewRNG(uint64(id)*7919 + 1).Bytes(n)
		ps := types.NewPartSetFromData(data, uint32(n))
		return cs.VerifMsgInfo{Msg: &cs.BlockPartMessage{Height: id, Round: 1, Part: ps.GetPart(0)}, PeerID: "peer1"}
	}
	panic("unknown msg kind " + op.Str("m"))
}

// ---------------------------------------------------------------- op generation

func (s *sim) Next(rng *simcore.RNG) simcore.Op {
	if s.opsLeft <= 0 || s.dead {
		return nil
	}
	s.opsLeft--
	w := []int{40, 18, 6, 10, 6, 6, 0, 0}
	if s.cfg.Bool("crash") && s.crashes < 4 {
		w[6] = 5
		if s.cfg.Bool("sweep") {
			w[7] = 3
		}
	}
	switch rng.Weighted(w) {
	case 0, 1:
		op := simcore.Op{"a": "w", "id": s.seq}
		if rng.Bool(0.3) {
			op["a"] = "ws"
		}
		switch k := rng.Intn(10); {
		case k < 2:
			op["m"] = "eh"
			op["h"] = s.lastEndH + 1
			op["a"] = "ws" // the state machine always writes the marker synced
		case k < 5:
			op["m"] = "rs"
			op["n"] = rng.Range(0, 300)
		case k < 6:
			op["m"] = "to"
			op["n"] = rng.Range(0, 5000)
		case k < 8:
			op["m"] = "vote"
			op["n"] = rng.Range(0, 100)
		default:
			op["m"] = "part"
			op["n"] = rng.Range(1, 2000)
			if s.cfg.Bool("big") && rng.Bool(0.2) {
				op["n"] = rng.Range(30000, 65536)
			}
		}
		return op
	case 2:
		return simcore.Op{"a": "fs"}
	case 3:
		return simcore.Op{"a": "tick", "ms": []int{100, 600, 1100, 2500, 6000}[rng.Intn(5)]}
	case 4:
		h := s.lastEndH + 1 - int64(rng.Intn(4))
		if h < 0 {
			h = 0
		}
		return simcore.Op{"a": "search", "h": h}
	case 5:
		return simcore.Op{"a": "read"}
	case 6:
		op := simcore.Op{"a": "crash", "keep": rng.Intn(1001)}
		if rng.Bool(0.3) {
			op["keep"] = []int{0, 1000}[rng.Intn(2)]
		}
		if rng.Bool(0.4) {
			op["delta"] = rng.Range(1, 9) // cut this many bytes before the end instead
		}
		if rng.Bool(0.6) {
			op["midflush"] = true // the crash falls inside FlushAndSync: data written, fsync not acknowledged
		}
		if s.cfg.Bool("garbage") && rng.Bool(0.4) {
			op["garb_at"] = rng.Intn(1001)
			op["garb_len"] = rng.Range(1, 40)
			op["garb_x"] = rng.Range(1, 255)
		}
		if s.cfg.Bool("flip") && rng.Bool(0.5) {
			op["flip_at"] = rng.Intn(1001)
			op["flip_file"] = rng.Intn(8)
			op["flip_x"] = rng.Range(1, 255)
		}
		return op
	default:
		return simcore.Op{"a": "sweep", "max": []int{40, 200}[rng.Intn(2)], "stride_seed": rng.Intn(1 << 20), "midflush": rng.Bool(0.7)}
	}
}

// ---------------------------------------------------------------- apply

func (s *sim) Apply(op simcore.Op) bool {
	if s.dead {
		return false
	}
	e := s.env
	switch op.Kind() {
	case "w", "ws":
		m := buildMsg(op)
		if eh, ok := m.(cs.EndHeightMessage); ok {
			if eh.Height != s.lastEndH+1 {
				return false
			}
		}
		file := s.curIdx()
		sync := op.Kind() == "ws"
		var err error
		// journal first (time does not advance during the call)
		s.journal(m, file, false, false)
		if sync {
			err = s.wal.WriteSync(m)
		} else {
			err = s.wal.Write(m)
		}
		if err != nil {
			e.Fail("C15", "write-error", "write of a well-formed record failed: %v", err)
		}
		e.Count("op.write")
		if sync {
			e.Count("op.write_sync")
			s.ackSync()
		}
		if eh, ok := m.(cs.EndHeightMessage); ok {
			s.lastEndH = eh.Height
		}
	case "fs":
		if err := s.wal.FlushAndSync(); err != nil {
			e.Fail("C15", "flush-error", "FlushAndSync failed: %v", err)
		}
		s.ackSync()
		e.Count("op.flush_sync")
	case "tick":
		before := s.wal.Group().MaxIndex()
		time.Sleep(time.Duration(op.Int("ms")) * time.Millisecond)
		e.Settle()
		after := s.wal.Group().MaxIndex()
		if after != before {
			e.Add("probe.rotation", int64(after-before))
			s.headIdx, s.headSync = after, 0
		}
		s.observePrune()
		e.Count("op.tick")
	case "search":
		s.checkSearch(s.wal, op.Int64("h"), s.j, "live")
		e.Count("op.search")
	case "read":
		s.checkRead(s.wal, s.j, s.flipped, "live")
		e.Count("op.read")
	case "crash":
		s.crash(op)
	case "sweep":
		s.sweep(op)
	default:
		return false
	}
	if s.dead {
		return true
	}
	e.State(len(s.j)%7, s.curIdx()-s.wal.Group().MinIndex(), s.crashes, op.Kind(), s.flipped)
	return true
}

func (s *sim) curIdx() int { return s.wal.Group().MaxIndex() }

// ackSync: a synced write returned success, so everything written so far is acknowledged.
func (s *sim) ackSync() {
	for i := range s.j {
		s.j[i].synced = true
	}
	if s.curIdx() != s.headIdx {
		s.headIdx = s.curIdx()
	}
	st, err := os.Stat(s.walPath(s.dir))
	if err == nil {
		s.headSync = st.Size()
	}
}

// observePrune synchronises the journal with the files on disk: records of files that the
// size limit removed are dropped, after checking that only whole oldest files disappeared,
// that the head survived, and that the limit was really exceeded before each removal.
func (s *sim) observePrune() {
	if s.flipped {
		return
	}
	cur := s.curIdx()
	present := s.fileIndices(s.dir) // non-empty rotated files
	for i := 1; i < len(present); i++ {
		if present[i] != present[i-1]+1 {
			s.env.Fail("C15", "prune-hole", "rotated files are not contiguous after pruning: %v", present)
		}
	}
	lo := cur
	if len(present) > 0 {
		lo = present[0]
		if present[len(present)-1] != cur-1 {
			s.env.Fail("C15", "prune-hole", "newest rotated file %d is not adjacent to head index %d", present[len(present)-1], cur)
		}
	}
	k := 0
	for k < len(s.j) && s.j[k].file < lo {
		k++
	}
	if k == 0 {
		return
	}
	limit := int64(s.cfg.Int("total_limit"))
	if limit == 0 {
		s.env.Fail("C15", "prune-without-limit", "records of files below index %d disappeared although no total size limit is set", lo)
	}
	// upper bound of what the pruner saw: every journalled record at full frame size
	var total int64
	perFile := map[int]int64{}
	for _, r := range s.j {
		fsz := int64(8 + len(r.canon))
		total += fsz
		perFile[r.file] += fsz
	}
	for f := s.j[0].file; f < lo; f++ {
		if total < limit {
			s.env.Fail("C15", "over-prune", "file %d was removed although the group (at most %d bytes) was below the limit %d", f, total, limit)
		}
		total -= perFile[f]
	}
	s.env.Add("probe.pruned_records", int64(k))
	s.j = s.j[k:]
}

func (s *sim) fileIndices(dir string) []int {
	ents, _ := os.ReadDir(dir)
	var idx []int
	for _, en := range ents {
		var i int
		if n, _ := fmt.Sscanf(en.Name(), "wal.%d", &i); n == 1 {
			if fi, err := en.Info(); err == nil && fi.Size() > 0 {
				idx = append(idx, i)
			}
		}
	}
	sort.Ints(idx)
	return idx
}

// readAll decodes every record from the oldest retained file.
func readAll(w *cs.BaseWAL) (canon [][]byte, endHs []int64, err error) {
	g := w.Group()
	gr, err := g.NewReader(g.MinIndex())
	if err != nil {
		return nil, nil, err
	}
	defer gr.Close()
	dec := cs.NewWALDecoder(gr)
	for {
		m, err := dec.Decode()
		if err == io.EOF {
			return canon, endHs, nil
		}
		if err != nil {
			return canon, endHs, err
		}
		canon = append(canon, canonOf(m.Time, m.Msg))
		if eh, ok := m.Msg.(cs.EndHeightMessage); ok {
			endHs = append(endHs, eh.Height)
		} else {
			endHs = append(endHs, -1)
		}
	}
}

// checkRead is the main oracle. The reader must return a contiguous run j[a:b] of the
// written records, byte-identical and in write order; a must be the first record of a
// file (only whole oldest files may be missing); b must lie beyond the last acknowledged
// synced record. It returns b-a... the run it found as (a,b).
func (s *sim) checkRead(w *cs.BaseWAL, j []rec, relaxed bool, ctx string) (int, int) {
	return s.checkReadTail(w, j, nil, relaxed, ctx)
}

// checkReadTail: as checkRead, but the run j[a:b] must be followed by exactly the records
// in tail (records the WAL wrote itself while reopening after a crash).
func (s *sim) checkReadTail(w *cs.BaseWAL, j []rec, tail []rec, relaxed bool, ctx string) (int, int) {
	if w == s.wal && len(j) == len(s.j) && tail == nil {
		s.observePrune()
		j = s.j
	}
	got, endHs, err := readAll(w)
	// An initial-height marker that the WAL wrote by itself and the journal does not know
	// (shipped behaviour before the fix in KNOWN_FINDINGS.txt: one per empty head) is not a
	// phantom record; drop it from the comparison.
	known := map[string]bool{}
	for i := range j {
		if j[i].endH == 0 {
			known[string(j[i].canon)] = true
		}
	}
	for i := range tail {
		known[string(tail[i].canon)] = true
	}
	kept := got[:0:0]
	for k := range got {
		if endHs[k] == 0 && !known[string(got[k])] {
			s.env.Count("probe.extra_initial_marker")
			continue
		}
		kept = append(kept, got[k])
	}
	got = kept
	if len(tail) > 0 {
		if len(got) < len(tail) {
			if relaxed {
				return 0, len(j)
			}
			s.env.Fail("C15", "lost-synced-record", "%s: the %d record(s) the WAL synced while reopening are not returned (reader error: %v)", ctx, len(tail), err)
		}
		for k := range tail {
			if !bytes.Equal(got[len(got)-len(tail)+k], tail[k].canon) {
				if relaxed {
					return 0, len(j)
				}
				s.env.Fail("C15", "lost-synced-record", "%s: the record the WAL synced while reopening is not the last one returned (reader error: %v)", ctx, err)
			}
		}
		got = got[:len(got)-len(tail)]
	}
	if err != nil && !relaxed && !cs.IsDataCorruptionError(err) {
		s.env.Fail("C15", "read-error", "%s: reader failed: %v", ctx, err)
	}
	if relaxed {
		// after a byte flip in durable data only "never a record that was not written, never
		// out of order" is required: got must be a subsequence of the journal.
		p := 0
		for k := range got {
			for p < len(j) && !bytes.Equal(j[p].canon, got[k]) {
				p++
			}
			if p == len(j) {
				s.env.Fail("C15", "phantom-record", "%s: after a byte flip the reader returned record #%d (len %d) that was never written or is out of order", ctx, k, len(got[k]))
			}
			p++
		}
		return 0, len(j)
	}
	a := 0
	if len(got) > 0 {
		a = -1
		for i := range j {
			if bytes.Equal(j[i].canon, got[0]) {
				a = i
				break
			}
		}
		if a < 0 {
			s.env.Fail("C15", "phantom-record", "%s: reader returned a first record that was never written (len %d)", ctx, len(got[0]))
		}
	}
	for k := range got {
		if a+k >= len(j) || !bytes.Equal(j[a+k].canon, got[k]) {
			s.env.Fail("C15", "phantom-record", "%s: reader returned record #%d that is not the next written record (journal pos %d of %d)", ctx, k, a+k, len(j))
		}
	}
	b := a + len(got)
	// only whole oldest files may be missing
	if a > 0 && len(got) > 0 && j[a].file == j[a-1].file {
		s.env.Fail("C15", "partial-file-loss", "%s: reader starts inside file %d (journal pos %d) - records before it in the same file are missing", ctx, j[a].file, a)
	}
	if a > 0 && s.cfg.Int("total_limit") == 0 {
		s.env.Fail("C15", "lost-prefix", "%s: %d oldest records missing although no size limit is configured", ctx, a)
	}
	lastSynced := -1
	for i := range j {
		if j[i].synced {
			lastSynced = i
		}
	}
	if lastSynced >= b {
		s.env.Fail("C15", "lost-synced-record", "%s: reader returned journal[%d:%d] but record %d (seq %d) was acknowledged by a synced write (reader error: %v)", ctx, a, b, lastSynced, j[lastSynced].seq, err)
	}
	return a, b
}

// checkSearch: SearchForEndHeight(h) must succeed exactly when the marker for h was
// durably written (acknowledged) and not discarded; it may also find a marker that is
// written but not yet acknowledged if it already reached the files.
func (s *sim) checkSearch(w *cs.BaseWAL, h int64, j []rec, ctx string) {
	if h < 0 {
		return
	}
	if w == s.wal && len(j) == len(s.j) {
		s.observePrune()
		j = s.j
	}
	// While unsynced records exist the file may end in a partially flushed record (bufio
	// overflow); a strict search may then legitimately report corruption at the tail, so
	// the search is made the way catchupReplay makes it. With nothing unsynced any error is
	// a violation.
	opts := &cs.WALSearchOptions{}
	for i := range j {
		if !j[i].synced {
			opts.IgnoreDataCorruptionErrors = true
		}
	}
	gr, found, err := w.SearchForEndHeight(h, opts)
	if gr != nil {
		defer gr.Close()
	}
	if s.flipped {
		return
	}
	if err != nil {
		s.env.Fail("C15", "search-error", "%s: SearchForEndHeight(%d) failed: %v", ctx, h, err)
	}
	must, may := false, false
	at := -1
	for i := range j {
		if j[i].endH == h {
			may = true
			at = i
			if j[i].synced {
				must = true
			}
		}
	}
	if found && !may {
		s.env.Fail("C15", "search-phantom", "%s: SearchForEndHeight(%d) found a marker that is not in the retained log", ctx, h)
	}
	if !found && must {
		s.env.Fail("C15", "search-miss", "%s: SearchForEndHeight(%d) missed the marker durably written at journal pos %d", ctx, h, at)
	}
	if found {
		s.env.Count("probe.search_found")
		// the reader must be positioned right after the marker
		dec := cs.NewWALDecoder(gr)
		m, err := dec.Decode()
		if err == nil {
			c := canonOf(m.Time, m.Msg)
			// last occurrence of the marker (h=0 may occur several times: every empty head gets one)
			ok := false
			for i := range j {
				if j[i].endH == h && i+1 < len(j) && bytes.Equal(j[i+1].canon, c) {
					ok = true
				}
			}
			if !ok {
				s.env.Fail("C15", "search-position", "%s: reader returned by SearchForEndHeight(%d) is not positioned after that marker", ctx, h)
			}
		}
	}
}

// ---------------------------------------------------------------- crash model

type image map[string][]byte

func snapshot(dir string) image {
	img := image{}
	ents, _ := os.ReadDir(dir)
	for _, en := range ents {
		b, err := os.ReadFile(filepath.Join(dir, en.Name()))
		if err == nil {
			img[en.Name()] = b
		}
	}
	return img
}

func restore(dir string, img image) {
	os.RemoveAll(dir)
	os.MkdirAll(dir, 0o700)
	for n, b := range img {
		if err := os.WriteFile(filepath.Join(dir, n), b, 0o600); err != nil {
			panic(err)
		}
	}
}

// cutImage applies a crash to the durable image: head truncated to keep bytes
// (headSync <= keep <= len), optional garbage xor in [headSync, keep).
func cutImage(img image, headSync int64, keep int64, garbAt, garbLen, garbX int) image {
	out := image{}
	for n, b := range img {
		out[n] = append([]byte{}, b...)
	}
	h := out["wal"]
	if keep < int64(len(h)) {
		h = h[:keep]
	}
	if garbLen > 0 && int64(len(h)) > headSync {
		span := int64(len(h)) - headSync
		at := headSync + int64(garbAt)%span
		for i := at; i < at+int64(garbLen) && i < int64(len(h)); i++ {
			h[i] ^= byte(garbX)
		}
	}
	out["wal"] = h
	return out
}

func (s *sim) crash(op simcore.Op) {
	e := s.env
	if op.Bool("midflush") {
		s.wal.FlushAndSync() // reaches the OS, but the crash comes before fsync is acknowledged
		e.Count("fault.crash_mid_flush")
	}
	img := snapshot(s.dir) // what the OS has; the bufio buffer dies with the process
	s.wal.Stop()
	e.Settle()
	head := int64(len(img["wal"]))
	if s.headSync > head {
		s.headSync = head
	}
	span := head - s.headSync
	keep := s.headSync + span*int64(op.Int("keep"))/1000
	if op.Has("delta") {
		keep = head - int64(op.Int("delta"))
		if keep < s.headSync {
			keep = s.headSync
		}
	}
	if keep < head {
		e.Count("fault.torn_tail")
	}
	e.Count("fault.crash")
	glen := 0
	if op.Has("garb_len") && span > 0 {
		glen = op.Int("garb_len")
		e.Count("fault.garbage_tail")
	}
	cut := cutImage(img, s.headSync, keep, op.Int("garb_at")*int(span)/1000, glen, op.Int("garb_x"))
	if op.Has("flip_at") {
		names := make([]string, 0, len(cut))
		for n := range cut {
			names = append(names, n)
		}
		sort.Strings(names)
		n := names[op.Int("flip_file")%len(names)]
		if len(cut[n]) > 0 {
			cut[n][op.Int("flip_at")*len(cut[n])/1001] ^= byte(op.Int("flip_x"))
			s.flipped = true
			e.Count("fault.byte_flip")
		}
	}
	restore(s.dir, cut)
	s.crashes++
	pre := s.j
	if err := s.open(s.dir); err != nil {
		if s.flipped {
			// a flipped byte in synced data may make the WAL unrecoverable by design (node refuses to start)
			e.Count("probe.unrecoverable_after_flip")
			s.dead = true
			return
		}
		e.Fail("C15", "reopen-failed", "WAL cannot be reopened after a crash that only cut/garbled the unsynced tail: %v", err)
	}
	// open() may have journalled an EndHeight{0} that the WAL wrote into an empty head; the
	// reader must return a run of the pre-crash journal followed by exactly that record.
	tail := append([]rec{}, s.j[len(pre):]...)
	a, b := s.checkReadTail(s.wal, pre, tail, s.flipped, "after-crash")
	// what survived is now the durable history; unsynced records beyond b are gone.
	s.j = append(append([]rec{}, pre[:b]...), tail...)
	for i := range s.j {
		s.j[i].synced = true
	}
	_ = a
	// recompute lastEndH from survivors
	s.lastEndH = 0
	for _, r := range s.j {
		if r.endH > s.lastEndH {
			s.lastEndH = r.endH
		}
	}
	if len(s.j) < len(pre) {
		e.Add("probe.lost_unsynced_records", int64(len(pre)-len(s.j)))
	}
}

// sweep enumerates cut offsets of the unsynced tail on copies of the directory: for each
// cut, reopen (with repair), check the reader, append two synced records, reopen again and
// check again (a torn tail must not poison later synced writes).
func (s *sim) sweep(op simcore.Op) {
	e := s.env
	if s.flipped {
		return
	}
	if op.Bool("midflush") {
		// like a crash inside FlushAndSync; on the live WAL this is only an early flush
		s.wal.FlushAndSync()
		hsKeep := s.headSync
		_ = hsKeep
	}
	img := snapshot(s.dir)
	head := int64(len(img["wal"]))
	hs := s.headSync
	if hs > head {
		hs = head
	}
	span := head - hs
	max := int64(op.Int("max"))
	if e.Thorough() {
		max *= 8
	}
	var cuts []int64
	if span+1 <= max {
		for c := hs; c <= head; c++ {
			cuts = append(cuts, c)
		}
		e.Count("probe.sweep_exhaustive")
	} else {
		// every offset near the end plus a stride over the rest
		seen := map[int64]bool{}
		add := func(c int64) {
			if c >= hs && c <= head && !seen[c] {
				seen[c] = true
				cuts = append(cuts, c)
			}
		}
		for d := int64(0); d < 24; d++ {
			add(head - d)
			add(hs + d)
		}
		r := simcore.NewRNG(uint64(op.Int("stride_seed")))
		for int64(len(cuts)) < max {
			add(hs + int64(r.Intn(int(span+1))))
		}
		sort.Slice(cuts, func(i, j int) bool { return cuts[i] < cuts[j] })
	}
	saved := *s
	savedJ := append([]rec{}, s.j...)
	for _, c := range cuts {
		sub := filepath.Join(e.Dir, "sweep")
		restore(sub, cutImage(img, hs, c, 0, 0, 0))
		t := &sim{env: e, cfg: s.cfg, dir: sub, j: append([]rec{}, savedJ...), seq: saved.seq, lastEndH: saved.lastEndH, headIdx: saved.curIdx()}
		ctx := fmt.Sprintf("sweep cut=%d (synced=%d head=%d)", c, hs, head)
		if err := t.open(sub); err != nil {
			e.Fail("C15", "reopen-failed", "%s: WAL cannot be reopened: %v", ctx, err)
		}
		tail := append([]rec{}, t.j[len(savedJ):]...)
		_, b := t.checkReadTail(t.wal, savedJ, tail, false, ctx)
		t.j = append(append([]rec{}, savedJ[:b]...), tail...)
		for i := range t.j {
			t.j[i].synced = true
		}
		// append synced records, then restart cleanly and read again
		for k := 0; k < 2; k++ {
			m := types.EventDataRoundState{Height: int64(1000000 + t.seq), Round: int32(k), Step: "after-crash"}
			t.journal(m, t.wal.Group().MaxIndex(), true, false)
			if err := t.wal.WriteSync(m); err != nil {
				e.Fail("C15", "write-error", "%s: WriteSync after recovery failed: %v", ctx, err)
			}
		}
		t.checkRead(t.wal, t.j, false, ctx+" +2 synced writes")
		t.wal.Stop()
		e.Settle()
		if err := t.open(sub); err != nil {
			e.Fail("C15", "reopen-failed", "%s: second reopen failed: %v", ctx, err)
		}
		t.checkRead(t.wal, t.j, false, ctx+" +2 synced writes, restarted")
		t.wal.Stop()
		e.Settle()
		e.Count("fault.sweep_cut")
	}
	os.RemoveAll(filepath.Join(e.Dir, "sweep"))
	e.Count("op.sweep")
}

func (s *sim) Finish() {
	if s.dead || s.wal == nil {
		return
	}
	s.checkRead(s.wal, s.j, s.flipped, "final")
	// clean stop + reopen: everything written must be there
	if !s.flipped {
		s.wal.Stop()
		s.env.Settle()
		for i := range s.j {
			s.j[i].synced = true // Stop flushes and syncs
		}
		if err := s.open(s.dir); err != nil {
			s.env.Fail("C15", "reopen-failed", "clean reopen failed: %v", err)
		}
		s.checkRead(s.wal, s.j, false, "final-reopen")
		for h := int64(0); h <= s.lastEndH+1; h++ {
			s.checkSearch(s.wal, h, s.j, "final-reopen")
		}
	}
}

func (s *sim) Close() {
	if s.wal != nil && s.wal.IsRunning() {
		s.wal.Stop()
	}
}
