package storesim

import (
	"os"
	"runtime/pprof"
	"time"
)

func init() {
	if p := os.Getenv("STORESIM_PROF"); p != "" {
		f, _ := os.Create(p)
		pprof.StartCPUProfile(f)
		time.AfterFunc(8*time.Second, func() { pprof.StopCPUProfile(); f.Close() })
	}
}
