package storesim

// The C18 oracle: a full audit of what the stores report, written from the property text.

import (
	"bytes"
	"crypto/sha256"
	"fmt"
	"io"
	"math/big"
	"sync"

	"github.com/gogo/protobuf/proto"

	tmproto "github.com/tendermint/tendermint/proto/tendermint/types"
	sm "github.com/tendermint/tendermint/state"
	"github.com/tendermint/tendermint/types"
)

// signature verification is a pure function of (key, message, signature): memoised process-wide.
var (
	sigMu    sync.Mutex
	sigCache = map[[32]byte]bool{}
)

func sigOK(v *types.Validator, msg, sig []byte) bool {
	h := sha256.New()
	h.Write(v.PubKey.Bytes())
	h.Write([]byte{0})
	h.Write(msg)
	h.Write([]byte{0})
	h.Write(sig)
	var k [32]byte
	copy(k[:], h.Sum(nil))
	sigMu.Lock()
	r, ok := sigCache[k]
	sigMu.Unlock()
	if ok {
		return r
	}
	r = v.PubKey.VerifySignature(msg, sig)
	sigMu.Lock()
	if len(sigCache) > 400000 {
		sigCache = map[[32]byte]bool{}
	}
	sigCache[k] = r
	sigMu.Unlock()
	return r
}

// verifyCommitRef: the commit is for (height, id), has one entry per member of vals, every
// present signature is by the member at that index and valid, and the members that signed id
// hold more than two thirds of the total power (unbounded integers).
func verifyCommitRef(chainID string, vals *types.ValidatorSet, id types.BlockID, height int64, c *types.Commit) string {
	if c == nil {
		return "no commit"
	}
	if c.Height != height {
		return fmt.Sprintf("commit is for height %d", c.Height)
	}
	if !c.BlockID.Equals(id) {
		return fmt.Sprintf("commit is for block %v, stored block is %v", c.BlockID, id)
	}
	if len(c.Signatures) != len(vals.Validators) {
		return fmt.Sprintf("commit has %d entries, the validator set of the height has %d members", len(c.Signatures), len(vals.Validators))
	}
	tally, total := new(big.Int), new(big.Int)
	for i, v := range vals.Validators {
		total.Add(total, big.NewInt(v.VotingPower))
		cs := c.Signatures[i]
		if cs.Absent() {
			continue
		}
		if !bytes.Equal(cs.ValidatorAddress, v.Address) {
			return fmt.Sprintf("entry %d is by %X, member %d is %X", i, cs.ValidatorAddress, i, v.Address)
		}
		if !sigOK(v, c.VoteSignBytes(chainID, int32(i)), cs.Signature) {
			return fmt.Sprintf("entry %d: invalid signature", i)
		}
		if cs.ForBlock() {
			tally.Add(tally, big.NewInt(v.VotingPower))
		}
	}
	if new(big.Int).Mul(tally, big.NewInt(3)).Cmp(new(big.Int).Mul(total, big.NewInt(2))) <= 0 {
		return fmt.Sprintf("signers hold %v of %v, not more than two thirds", tally, total)
	}
	return ""
}

func commitEq(a, b *types.Commit) bool {
	if a == nil || b == nil {
		return a == b
	}
	return proto.Equal(a.ToProto(), b.ToProto())
}

// auditHeights chooses the heights to audit: all of them, or (big stores between two
// operations that cannot have touched the middle) both ends plus a stride.
func auditHeights(base, height int64, full bool) []int64 {
	var hs []int64
	if full || height-base < 300 {
		for h := base; h <= height; h++ {
			hs = append(hs, h)
		}
		return hs
	}
	for h := base; h <= height; h++ {
		if h < base+30 || h > height-30 || h%100000 < 3 || h%100000 > 99997 || (h-base)%41 == 0 {
			hs = append(hs, h)
		}
	}
	return hs
}

type skipHeight struct{}

// failer wraps env.Fail for the per-height checks: when Fail returns (known finding) the
// remaining checks of that height, which would dereference what is missing, are skipped.
type failer struct {
	e interface {
		Fail(prop, sig, format string, a ...any)
	}
}

func (f failer) Fail(prop, sig, format string, a ...any) {
	f.e.Fail(prop, sig, format, a...)
	panic(skipHeight{})
}

type auditOpts struct {
	full bool
	post bool // after the handshake: the state store must be level with the block store
	// stateOnly: the block-store part was audited on the very same database contents a moment
	// ago (restart whose handshake wrote nothing): only the range / state checks are repeated
	stateOnly bool
}

// audit checks everything the property says about [Base(), Height()] as the store reports
// them. It never consults the simulator's idea of where base and height should be.
func (s *sim) audit(n *node, ctx string, o auditOpts) {
	if !s.env.Checking("C18") && !s.env.Checking("C08") {
		return
	}
	defer func() {
		if r := recover(); r != nil {
			if s.env.Failed() {
				panic(r)
			}
			s.env.Fail("C18", "load-panic", "%s: loading retained data panicked: %v", ctx, r)
		}
	}()
	e := s.env
	bs, ss := n.bs, n.ss
	base, height := bs.Base(), bs.Height()
	st, err := ss.Load()
	if err != nil {
		e.Fail("C18", "state-load", "%s: state store cannot load the state: %v", ctx, err)
	}
	stH := st.LastBlockHeight
	if stH == 0 {
		stH = s.init - 1
	}
	if height == 0 {
		if base != 0 {
			e.Fail("C18", "range", "%s: empty block store reports base %d", ctx, base)
		}
		if stH != s.init-1 {
			e.Fail("C18", "state-ahead", "%s: block store is empty but the state is at height %d", ctx, stH)
		}
		s.auditState(n, ctx, s.init, s.init-1, stH)
		return
	}
	if base <= 0 || base > height {
		e.Fail("C18", "range", "%s: block store reports base %d height %d", ctx, base, height)
	}
	if stH != height && stH != height-1 {
		e.Fail("C18", "state-out-of-step", "%s: block store height %d, state height %d", ctx, height, stH)
	}
	if o.post && stH != height {
		e.Fail("C18", "state-out-of-step", "%s: after the handshake the state is at %d, the block store at %d", ctx, stH, height)
	}
	baseSig := "base-block-missing"
	if bm := bs.LoadBaseMeta(); bm == nil || bm.Header.Height != base {
		// narrow class: a crash inside a prune from base0 to retain left the base at an
		// intermediate height (only a prune of more than one batch has such a state) whose
		// block is gone although the next one is there
		pc := s.pruneCtx
		if (pc != nil && base > pc.base0 && base < pc.retain && bs.LoadBlockMeta(base+1) != nil) || s.baseHole == base {
			baseSig = "base-deleted-by-intermediate-prune-flush"
			s.baseHole = base
		}
		e.Fail("C18", baseSig, "%s: store reports base %d height %d but the block meta of the base cannot be loaded", ctx, base, height)
	}
	var prevID *types.BlockID
	var prevH int64
	var carried *types.Block // block h loaded as "next" of h-1: every block is loaded once
	var carriedH int64
	hs := auditHeights(base, height, o.full)
	if o.stateOnly {
		hs = nil
	}
	for _, h := range hs {
		func() {
			// a failure that is a listed known finding returns from e.Fail: skip the rest of the height
			defer func() {
				if r := recover(); r != nil {
					if _, ok := r.(skipHeight); !ok {
						panic(r)
					}
				}
			}()
			e := failer{s.env}
			rec := s.blockAt(h)
			if rec == nil {
				e.Fail("C18", "unknown-block", "%s: store range [%d,%d] contains height %d that was never decided", ctx, base, height, h)
			}
			meta := bs.LoadBlockMeta(h)
			if meta == nil {
				sig := "meta-missing"
				if h == base {
					sig = baseSig
				}
				e.Fail("C18", sig, "%s: no block meta for height %d in [%d,%d]", ctx, h, base, height)
			}
			if meta.Header.Height != h {
				e.Fail("C18", "meta-mismatch", "%s: meta of height %d carries a header of height %d", ctx, h, meta.Header.Height)
			}
			psh := meta.BlockID.PartSetHeader
			ps := types.NewPartSetFromHeader(psh)
			for i := 0; i < int(psh.Total); i++ {
				part := bs.LoadBlockPart(h, i)
				if part == nil {
					e.Fail("C18", "part-missing", "%s: part %d/%d of height %d in [%d,%d] cannot be loaded", ctx, i, psh.Total, h, base, height)
				}
				if int(part.Index) != i {
					e.Fail("C18", "part-mismatch", "%s: part %d of height %d carries index %d", ctx, i, h, part.Index)
				}
				if _, err := ps.AddPart(part); err != nil {
					e.Fail("C18", "part-mismatch", "%s: part %d of height %d does not belong to the part set of the meta: %v", ctx, i, h, err)
				}
			}
			if !ps.IsComplete() {
				e.Fail("C18", "part-mismatch", "%s: parts of height %d do not complete the part set", ctx, h)
			}
			block := carried
			if carried == nil || carriedH != h {
				block = bs.LoadBlock(h)
			}
			carried = nil
			if block == nil {
				e.Fail("C18", "block-missing", "%s: block %d in [%d,%d] cannot be loaded although its meta can", ctx, h, base, height)
			}
			if !bytes.Equal(block.Hash(), meta.BlockID.Hash) {
				e.Fail("C18", "hash-mismatch", "%s: block %d hashes to %X, its id says %X", ctx, h, block.Hash(), meta.BlockID.Hash)
			}
			if !bytes.Equal(meta.Header.Hash(), meta.BlockID.Hash) || meta.NumTxs != len(block.Txs) {
				e.Fail("C18", "meta-mismatch", "%s: meta of height %d disagrees with the block (header hash / tx count)", ctx, h)
			}
			raw, _ := io.ReadAll(ps.GetReader())
			pb, err := block.ToProto()
			if err != nil {
				e.Fail("C18", "block-mismatch", "%s: block %d: %v", ctx, h, err)
			}
			enc, _ := proto.Marshal(pb)
			if !bytes.Equal(raw, enc) {
				e.Fail("C18", "part-mismatch", "%s: parts of height %d reassemble to %d bytes that are not the block (%d bytes)", ctx, h, len(raw), len(enc))
			}
			if !bytes.Equal(rec.id.Hash, meta.BlockID.Hash) || !rec.id.PartSetHeader.Equals(psh) {
				e.Fail("C18", "wrong-block", "%s: height %d holds block %X, the decided block was %X", ctx, h, meta.BlockID.Hash, rec.id.Hash)
			}
			byHash := bs.LoadBlockByHash(meta.BlockID.Hash)
			if byHash == nil {
				e.Fail("C18", "hash-index-missing", "%s: block %d (%X) cannot be loaded by hash", ctx, h, meta.BlockID.Hash)
			}
			if byHash.Height != h || !bytes.Equal(byHash.Hash(), meta.BlockID.Hash) {
				e.Fail("C18", "hash-index-mismatch", "%s: hash index of block %d leads to height %d", ctx, h, byHash.Height)
			}
			if prevID != nil && prevH == h-1 && !block.LastBlockID.Equals(*prevID) {
				e.Fail("C18", "chain-broken", "%s: block %d does not refer to the stored block %d", ctx, h, h-1)
			}
			id := meta.BlockID
			prevID, prevH = &id, h

			// the commit for it, verified under the validator set the state store produces
			vals, err := ss.LoadValidators(h)
			if err != nil {
				e.Fail("C18", "validators-missing", "%s: LoadValidators(%d) for a height in [%d,%d]: %v", ctx, h, base, height, err)
			}
			var commit *types.Commit
			what := "commit"
			if h < height {
				commit = bs.LoadBlockCommit(h)
				if commit == nil {
					e.Fail("C18", "commit-missing", "%s: no commit for height %d in [%d,%d)", ctx, h, base, height)
				}
				next := bs.LoadBlock(h + 1)
				carried, carriedH = next, h+1
				if next == nil {
					e.Fail("C18", "block-missing", "%s: block %d in [%d,%d] cannot be loaded", ctx, h+1, base, height)
				}
				if !commitEq(commit, next.LastCommit) {
					e.Fail("C18", "commit-mismatch", "%s: LoadBlockCommit(%d) is not the LastCommit of block %d", ctx, h, h+1)
				}
			} else {
				what = "seen commit"
				commit = bs.LoadSeenCommit(h)
				if commit == nil {
					e.Fail("C18", "seen-commit-missing", "%s: no seen commit for the tip %d", ctx, h)
				}
				if !commitEq(commit, rec.seen) {
					e.Fail("C18", "commit-mismatch", "%s: the seen commit of the tip %d is not the one that was saved with it", ctx, h)
				}
			}
			if msg := verifyCommitRef(s.chainID, vals, meta.BlockID, h, commit); msg != "" {
				e.Fail("C18", "commit-invalid", "%s: %s of height %d does not verify under LoadValidators(%d): %s", ctx, what, h, h, msg)
			}
			if !bytes.Equal(block.ValidatorsHash, vals.Hash()) {
				e.Fail("C18", "validators-mismatch", "%s: LoadValidators(%d) does not hash to the ValidatorsHash of block %d", ctx, h, h)
			}
			// ABCI responses of retained, executed heights (needed to serve block results)
			if h <= stH {
				res, err := ss.LoadABCIResponses(h)
				if err != nil {
					e.Fail("C18", "abci-responses-missing", "%s: LoadABCIResponses(%d) for a height in [%d,%d]: %v", ctx, h, base, height, err)
				}
				if len(res.DeliverTxs) != len(block.Txs) {
					e.Fail("C18", "abci-responses-mismatch", "%s: responses of height %d have %d tx results, the block has %d txs", ctx, h, len(res.DeliverTxs), len(block.Txs))
				}
				if h < height {
					if next := s.blockAt(h + 1); next != nil && !bytes.Equal(sm.ABCIResponsesResultsHash(res), next.block.LastResultsHash) {
						e.Fail("C18", "abci-responses-mismatch", "%s: responses of height %d do not hash to LastResultsHash of block %d", ctx, h, h+1)
					}
				}
			}
		}()
	}
	// a block beyond the tip (a save that a crash interrupted) may be absent, but what is
	// loadable of it must agree: a meta implies the block
	if m := bs.LoadBlockMeta(height + 1); m != nil {
		e.Count("probe.unfinished_save_beyond_tip")
		if bs.LoadBlock(height+1) == nil {
			e.Fail("C18", "meta-without-block", "%s: store range [%d,%d]; the meta of height %d can be loaded but its block cannot", ctx, base, height, height+1)
		}
	}
	s.auditState(n, ctx, base, height, stH)
}

// classifyHistorical names the class of a LoadValidators mismatch. The narrow class
// "historical-set-rescale-skipped": the loaded set has the right members and is the set stored
// at the last change / checkpoint height L rotated the right number of times, but with the
// scaling step applied only before the first rotation, and a later rotation of the real
// history did scale. Everything else is "historical-set-wrong".
func (s *sim) classifyHistorical(h int64, got *types.ValidatorSet) string {
	want := s.vals[h]
	if want == nil || got == nil || !bytes.Equal(got.Hash(), want.Hash()) {
		return "historical-set-wrong"
	}
	key := fmt.Sprintf("%d/%s", h, setString(got))
	if c, ok := s.classMemo[key]; ok {
		return c
	}
	res := "historical-set-wrong"
	for L := h - 1; L >= s.init && s.vals[L] != nil && bytes.Equal(s.vals[L].Hash(), want.Hash()); L-- {
		stored := L == s.init || L%100000 == 0 || s.vals[L-1] == nil || !bytes.Equal(s.vals[L-1].Hash(), want.Hash())
		if !stored {
			continue
		}
		once, _ := refIncrementScaleOnce(refFromReal(s.vals[L]), int(h-L))
		if cmpRefReal(once, got, true) == "" {
			full, _ := refIncrement(refFromReal(s.vals[L]), int(h-L))
			if cmpRefReal(full, want, true) == "" && cmpRefReal(full, got, true) != "" {
				res = "historical-set-rescale-skipped"
			}
		}
		break
	}
	s.classMemo[key] = res
	return res
}

// auditState: validator sets and consensus parameters of every retained height (and of the
// heights the state already determines beyond the tip) can be produced and are exactly the
// ones in force there.
func (s *sim) auditState(n *node, ctx string, base, height, stH int64) {
	e := s.env
	topV, topP := stH+2, stH+1
	full := height-base < 300
	for h := base; h <= topV; h++ {
		if !full && !(h < base+30 || h > height-30 || h%100000 < 3 || h%100000 > 99997 || (h-base)%41 == 0) {
			continue
		}
		want := s.vals[h]
		if want == nil {
			continue
		}
		got, err := n.ss.LoadValidators(h)
		if err != nil {
			sig, prop := "validators-missing", "C18"
			e.Fail(prop, sig, "%s: LoadValidators(%d) with store range [%d,%d], state at %d: %v", ctx, h, base, height, stH, err)
		}
		if msg := equalSets(got, want); msg != "" {
			e.Fail("C08", s.classifyHistorical(h, got), "%s: LoadValidators(%d) is not the set that was in force there: %s | loaded %s | in force %s", ctx, h, msg, setString(got), setString(want))
		}
		if h > topP {
			continue
		}
		wp, ok := s.params[h]
		if !ok {
			continue
		}
		gp, err := n.ss.LoadConsensusParams(h)
		if err != nil {
			e.Fail("C18", "params-missing", "%s: LoadConsensusParams(%d) with store range [%d,%d], state at %d: %v", ctx, h, base, height, stH, err)
		}
		if !gp.Equal(&wp) {
			e.Fail("C18", "params-wrong", "%s: LoadConsensusParams(%d) = %v, in force were %v", ctx, h, gp, wp)
		}
		if b := s.blockAt(h); b != nil && !bytes.Equal(b.block.ConsensusHash, types.HashConsensusParams(gp)) {
			e.Fail("C18", "params-wrong", "%s: LoadConsensusParams(%d) does not hash to the ConsensusHash of block %d", ctx, h, h)
		}
	}
}

// checkPruned: after a completed prune to retain, nothing of [oldBase, retain) is loadable
// through the public API of the block store; the state store has dropped those heights
// except the records still needed to reconstruct retained heights (the height of the last
// change and the last checkpoint, as PruneStates documents).
func (s *sim) checkPruned(n *node, oldBase, retain int64, oldIDs map[int64]types.BlockID) {
	e := s.env
	bs := n.bs
	if bs.Base() != retain {
		e.Fail("C18", "prune-base", "after PruneBlocks(%d) the base is %d", retain, bs.Base())
	}
	lastValChange, lastParamChange := s.lastChange(retain)
	for h := oldBase; h < retain; h++ {
		if retain-oldBase > 300 && !(h < oldBase+20 || h > retain-20 || h%997 == 0 || h%100000 < 2 || h%1000 < 2) {
			continue
		}
		id := oldIDs[h]
		switch {
		case bs.LoadBlockMeta(h) != nil:
			e.Fail("C18", "prune-left-behind", "after pruning to %d the meta of height %d can still be loaded", retain, h)
		case bs.LoadBlock(h) != nil:
			e.Fail("C18", "prune-left-behind", "after pruning to %d block %d can still be loaded", retain, h)
		case bs.LoadBlockPart(h, 0) != nil:
			e.Fail("C18", "prune-left-behind", "after pruning to %d part 0 of height %d can still be loaded", retain, h)
		case bs.LoadBlockCommit(h) != nil:
			e.Fail("C18", "prune-left-behind", "after pruning to %d the commit of height %d can still be loaded", retain, h)
		case bs.LoadSeenCommit(h) != nil:
			e.Fail("C18", "prune-left-behind", "after pruning to %d the seen commit of height %d can still be loaded", retain, h)
		case len(id.Hash) > 0 && bs.LoadBlockByHash(id.Hash) != nil:
			e.Fail("C18", "prune-left-behind", "after pruning to %d block %d can still be loaded by hash", retain, h)
		}
		for i := 1; i < int(id.PartSetHeader.Total); i++ {
			if bs.LoadBlockPart(h, i) != nil {
				e.Fail("C18", "prune-left-behind", "after pruning to %d part %d of height %d can still be loaded", retain, i, h)
			}
		}
		needed := h == lastValChange || h%100000 == 0
		if _, err := n.ss.LoadValidators(h); err == nil && !needed {
			e.Fail("C18", "prune-left-behind", "after pruning states [%d,%d) the validator record of height %d (not a change height, not a checkpoint) is still there", oldBase, retain, h)
		}
		if _, err := n.ss.LoadConsensusParams(h); err == nil && h != lastParamChange {
			e.Fail("C18", "prune-left-behind", "after pruning states [%d,%d) the parameter record of height %d is still there", oldBase, retain, h)
		}
		if _, err := n.ss.LoadABCIResponses(h); err == nil {
			e.Fail("C18", "prune-left-behind", "after pruning states [%d,%d) the ABCI responses of height %d are still there", oldBase, retain, h)
		}
	}
	if c := bs.LoadBlockCommit(oldBase - 1); c != nil {
		e.Count("probe.stale_commit_below_first_base")
	}
	// nothing that the save of a pruned height created is left in the database (observed keys,
	// no knowledge of the key layout). The very first height of the store is exempt: its save
	// also creates the range descriptor and the (empty) commit "for" the height before it.
	for h := oldBase; h < retain; h++ {
		if h != s.init && h > s.leakFloor {
			for _, k := range s.created[h] {
				if has, _ := n.bdb.Has([]byte(k)); has {
					e.Fail("C18", "prune-leak", "after pruning to %d the database still holds key %q that the save of height %d created", retain, k, h)
				}
			}
		}
		delete(s.created, h)
	}
}

// lastChange returns the last heights <= h at which the validator set / the parameters in
// force differ from the ones of the height before (members and powers; per the recorded history).
func (s *sim) lastChange(h int64) (int64, int64) {
	lv, lp := int64(-1), int64(-1)
	for x := h; x >= s.init; x-- {
		a, b := s.vals[x], s.vals[x-1]
		if a == nil {
			continue
		}
		if b == nil || !bytes.Equal(a.Hash(), b.Hash()) {
			lv = x
			break
		}
	}
	for x := h; x >= s.init; x-- {
		a, ok := s.params[x]
		if !ok {
			continue
		}
		b, ok2 := s.params[x-1]
		if !ok2 || !a.Equal(&b) {
			lp = x
			break
		}
	}
	return lv, lp
}

var _ = tmproto.ConsensusParams{}
