// Package storesim: deterministic simulation of the real block store and state store
// (store.BlockStore, state.Store, state.BlockExecutor, consensus.Handshaker) over crashable
// databases, with saves, prunes, crashes at every database write and restarts; plus the
// validator-set update / proposer-rotation / historical-lookup checks. Decides C18 and the
// update, rotation and history parts of C08.
package storesim

import (
	"bytes"
	"encoding/hex"
	"fmt"
	"os"
	"sort"
	"strconv"
	"strings"
	"testing"
	"time"

	abci "github.com/tendermint/tendermint/abci/types"
	"github.com/tendermint/tendermint/consensus"
	"github.com/tendermint/tendermint/crypto"
	"github.com/tendermint/tendermint/crypto/ed25519"
	"github.com/tendermint/tendermint/crypto/secp256k1"
	"github.com/tendermint/tendermint/crypto/tmhash"
	"github.com/tendermint/tendermint/evidence"
	"github.com/tendermint/tendermint/libs/log"
	mempl "github.com/tendermint/tendermint/mempool/mock"
	tmproto "github.com/tendermint/tendermint/proto/tendermint/types"
	"github.com/tendermint/tendermint/proxy"
	sm "github.com/tendermint/tendermint/state"
	"github.com/tendermint/tendermint/store"
	"github.com/tendermint/tendermint/types"

	"verif/chaingen"
	"verif/simapp"
	"verif/simcore"
	"verif/simdisk"
)

func TestMain(m *testing.M) {
	simcore.InitProcess()
	os.Exit(m.Run())
}

func TestSim(t *testing.T) { simcore.Main(t, harness) }

var harness = &simcore.Harness{
	Name:   "storesim",
	Props:  []string{"C18", "C08", "C11"},
	Config: genConfig,
	New:    newSim,
	MaxOps: 400,
	// a sweep over every crash point of a long prune is one op; on a loaded 16-core box it can take minutes
	RunTimeout: 15 * time.Minute,
	Real: []string{"store.BlockStore (SaveBlock, PruneBlocks, all Load*)", "state.Store (Save, SaveABCIResponses, PruneStates, LoadValidators, LoadConsensusParams, LoadABCIResponses)",
		"state.BlockExecutor.ApplyBlock incl. validateBlock and updateState", "consensus.Handshaker (replay of the last block with the real or the mock application after a crash)",
		"evidence.Pool (in a share of runs: NewPool on a crashable evidence DB, AddEvidence, CheckEvidence via BlockExecutor.ValidateBlock, Update inside ApplyBlock, PendingEvidence) with genuine duplicate-vote evidence in the decided blocks",
		"proxy.AppConns with local ABCI clients", "types.ValidatorSet (UpdateWithChangeSet, IncrementProposerPriority, proto round trip)", "types.Block / PartSet / Commit / VoteSet (block and commit construction)"},
	Stub: []string{"consensus.State: blocks are decided by the simulator (valid blocks signed by the known validator keys); a decided block that was lost in a crash is saved again after the restart, as WAL replay would",
		"databases: simdisk.CrashDB (writes applied in order, batches atomic, *Sync makes everything written so far durable, a crash keeps the durable image plus a prefix of the unsynced write groups of each database independently)",
		"application: simapp.RecApp (state durable as of its last Commit)", "mempool, event bus: no-op; evidence pool: no-op unless the run has evpool=true; evidence reactor / gossip: none (evidence is added by the simulator)"},
	Assumptions: []string{"crash model per database: prefix of unsynced write groups survives; the two databases are independent files",
		"the node prunes in the order of consensus.State.pruneBlocks: block store, then state store, skipped when retain <= base",
		"proposer reference: integer division truncates, 1.125*P = P + P/8, scale = ceil(diff/(2P)), the rounding of the centring average is left open (comparison modulo one uniform shift <= 1), ties to the lowest address, new-validator penalty uses the total before the removals of the same batch",
		"state-store leftovers below the retain height that PruneStates documents as needed (height of last change, checkpoint heights) are not counted as pruning failures"},
}

var nopLogger = log.NewNopLogger()

// ---------------------------------------------------------------- configuration

func genConfig(rng *simcore.RNG, env *simcore.Env) simcore.Op {
	c := simcore.Op{}
	switch k := rng.Intn(10); {
	case k < 2:
		c["init"] = 1
	case k < 4:
		c["init"] = rng.Range(2, 5000)
	default:
		// near a multiple of the validator-set checkpoint interval
		c["init"] = 100000*rng.Range(1, 3) - rng.Range(0, 45)
	}
	nv := rng.Range(1, 4)
	pw := make([]int, nv)
	for i := range pw {
		pw[i] = []int{1, 2, 5, 10, 30, 1000, 100000}[rng.Intn(7)]
	}
	c["powers"] = pw
	c["maxkeys"] = nv + rng.Intn(3)
	if c.Int("maxkeys") > 4 {
		c["maxkeys"] = 4
	}
	c["part"] = []int{64, 100, 256, 1024, 65536}[rng.Intn(5)]
	c["hashlen"] = []int{8, 20, 32}[rng.Intn(3)]
	c["nops"] = rng.Range(8, 40)
	c["churn"] = []int{0, 10, 30, 60}[rng.Intn(4)] // percent of blocks with validator txs
	c["pchurn"] = []int{0, 5, 20}[rng.Intn(3)]     // percent of blocks with parameter txs
	c["drops"] = rng.Bool(0.5)                     // large power swings
	c["crash"] = rng.Bool(0.8)
	c["sweep"] = rng.Bool(0.25)
	c["prune"] = []int{0, 5, 12, 25}[rng.Intn(4)]
	c["lab"] = []int{0, 10, 30}[rng.Intn(3)] // weight of the pure validator-set operations
	c["lab_n"] = rng.Range(1, 6)
	c["lab_extreme"] = rng.Bool(0.4)
	c["big"] = 0
	if env.Thorough() {
		c["nops"] = rng.Range(10, 70)
		if rng.Bool(0.3) {
			// a store large enough for a prune of more than one 1000-height batch
			c["big"] = rng.Range(1005, 2400)
			c["powers"] = []int{pw[0]}
			c["maxkeys"] = rng.Range(1, 2)
			c["part"] = []int{1024, 65536}[rng.Intn(2)]
			c["nops"] = rng.Range(6, 24)
			c["prune"] = 30
		}
	}
	// weight of blocks for which a misbehaving application returns an invalid EndBlock batch
	c["badapp"] = []int{0, 3, 8}[rng.Intn(3)]
	// a real evidence pool behind the executor; decided blocks carry duplicate-vote evidence
	c["evpool"] = rng.Bool(0.4)
	c["evrate"] = []int{10, 25, 50}[rng.Intn(3)]
	if env.Prop == "C11" {
		c["evpool"], c["evrate"], c["crash"], c["sweep"] = true, 50, true, true
	}
	// the application answers InitChain with its own validator set (>= 2 members among the
	// keys the simulator holds, different from the genesis document) and possibly parameters
	c["initvals"] = []int{}
	c["initmaxbytes"] = 0
	if c.Int("big") == 0 && rng.Bool(0.3) {
		iv := make([]int, 4)
		choices := []int{1, 2, 3, 5, 10, 30, 31, 1000, 100000}
		for i := range iv {
			if rng.Bool(0.6) {
				iv[i] = choices[rng.Intn(len(choices))]
			}
		}
		p := rng.Perm(4)
		for _, i := range p[:2] {
			if iv[i] == 0 {
				iv[i] = choices[rng.Intn(len(choices))]
			}
		}
		same := true
		for i := range iv {
			g := 0
			if i < len(pw) {
				g = pw[i]
			}
			if iv[i] != g {
				same = false
			}
		}
		if same {
			iv[p[0]] += 7
		}
		c["initvals"] = iv
		c["maxkeys"] = 4
		if rng.Bool(0.3) {
			c["initmaxbytes"] = 1100000 + rng.Intn(4000000)
		}
	}
	return c
}

// ---------------------------------------------------------------- model

type blk struct {
	h     int64
	block *types.Block
	parts *types.PartSet
	seen  *types.Commit
	id    types.BlockID
	txs   []string
	ev    []types.Evidence
}

// node is one incarnation of the storage side of a node.
type node struct {
	ctl      *simdisk.Ctl
	bdb, sdb *simdisk.CrashDB
	edb      *simdisk.CrashDB // evidence database (always there, used when the run has a real pool)
	pool     *evidence.Pool   // nil = no-op evidence pool
	bs       *store.BlockStore
	ss       sm.Store
	proxy    proxy.AppConns
	exec     *sm.BlockExecutor
	state    sm.State
}

func (n *node) stop() {
	if n != nil && n.proxy != nil && n.proxy.IsRunning() {
		n.proxy.Stop()
	}
}

type sim struct {
	env      *simcore.Env
	cfg      simcore.Op
	chainID  string
	init     int64
	genDoc   *types.GenesisDoc
	app      *simapp.RecApp
	kc       *chaingen.Chain
	live     *node
	partSize uint32

	blocks       map[int64]*blk
	vals         map[int64]*types.ValidatorSet
	params       map[int64]tmproto.ConsensusParams
	paramTouched map[int64]bool
	tip          int64
	lastState    sm.State
	appVals      map[string]int64
	decided      *blk // decided (WAL) but possibly not yet stored / executed

	lastPoints map[string]int
	opsLeft    int
	crashes    int
	sweeps     int
	grown      bool
	inSweep    bool

	lab *types.ValidatorSet

	classMemo map[string]string
	created   map[int64][]string // block-db keys that did not exist before the save of height h
	evMode    map[int64]string   // how the evidence-carrying block h was applied: "direct" (ApplyBlock) or "handshake"
	leakFloor int64              // heights up to here may have left garbage behind (interrupted prune)
	pruneCtx  *pruneCtx          // the prune during which the current incarnation crashed
	baseHole  int64              // base height found deleted (known-finding class), until a later prune moves the base
}

type pruneCtx struct{ base0, retain int64 }

var (
	keyCache = map[int]crypto.PrivKey{}
)

func key(i int) crypto.PrivKey {
	if k, ok := keyCache[i]; ok {
		return k
	}
	k := chaingen.Key(i)
	keyCache[i] = k
	return k
}

func newSim(env *simcore.Env, cfg simcore.Op) simcore.Sim {
	s := &sim{env: env, cfg: cfg, chainID: "storesim-chain", init: cfg.Int64("init"), partSize: uint32(cfg.Int("part")),
		blocks: map[int64]*blk{}, vals: map[int64]*types.ValidatorSet{}, params: map[int64]tmproto.ConsensusParams{}, paramTouched: map[int64]bool{},
		lastPoints: map[string]int{"block": 30, "prune": 6}, opsLeft: cfg.Int("nops"), classMemo: map[string]string{}, created: map[int64][]string{}, evMode: map[int64]string{}}
	if s.init <= 0 {
		s.init = 1
	}
	if s.partSize == 0 {
		s.partSize = 65536
	}
	var powers []int64
	for _, p := range cfg.Ints("powers") {
		powers = append(powers, int64(p))
	}
	if len(powers) == 0 {
		powers = []int64{10}
	}
	ctl := &simdisk.Ctl{}
	n := &node{ctl: ctl, bdb: simdisk.NewCrashDB("block", nil, ctl), sdb: simdisk.NewCrashDB("state", nil, ctl), edb: simdisk.NewCrashDB("evidence", nil, ctl)}
	// what the chain starts with: the genesis validators, unless the application replaces them
	// in its answer to InitChain
	app := simapp.NewRecApp(cfg.Int("hashlen"))
	var initial []change
	for i, p := range powers {
		initial = append(initial, change{addr: key(i).PubKey().Address(), power: p})
	}
	if iv := cfg.Ints("initvals"); len(iv) > 0 {
		initial = nil
		for i, p := range iv {
			if p > 0 && i < 16 {
				app.InitVals = append(app.InitVals, abci.Ed25519ValidatorUpdate(key(i).PubKey().Bytes(), int64(p)))
				initial = append(initial, change{addr: key(i).PubKey().Address(), power: int64(p)})
			}
		}
		if len(initial) == 0 {
			app.InitVals, initial = nil, nil
			for i, p := range powers {
				initial = append(initial, change{addr: key(i).PubKey().Address(), power: p})
			}
		} else {
			env.Count("probe.initchain_returns_validators")
		}
	}
	wantParams := *types.DefaultConsensusParams()
	if mb := cfg.Int64("initmaxbytes"); mb > 0 {
		// The version is included and equals the AppVersion the application reports in Info:
		// the handshake takes the application version from Info while the state is at height 0
		// but from these parameters when InitChain returns any, so an application whose two
		// answers differ cannot replay its first block after a crash (seen with a version-less
		// update; an inconsistency of the application, not part of the properties checked here).
		app.InitParams = &abci.ConsensusParams{Block: &abci.BlockParams{MaxBytes: mb, MaxGas: -1}, Version: &tmproto.VersionParams{AppVersion: 1}}
		wantParams.Block.MaxBytes, wantParams.Block.MaxGas, wantParams.Version.AppVersion = mb, -1, 1
		env.Count("probe.initchain_returns_params")
	}
	c := chaingen.New(chaingen.Opts{ChainID: s.chainID, InitialHeight: s.init, Powers: powers, BlockDB: n.bdb, StateDB: n.sdb,
		App: app, PartSize: s.partSize})
	mk := cfg.Int("maxkeys")
	if mk < len(powers) {
		mk = len(powers)
	}
	if l := len(cfg.Ints("initvals")); mk < l && l <= 16 {
		mk = l
	}
	for i := 0; i < mk; i++ {
		c.KnowKey(i)
	}
	s.kc, s.app, s.genDoc = c, c.App, c.GenDoc
	n.bs, n.ss, n.proxy, n.exec, n.state = c.BlockStore, c.StateStore, c.ProxyApp, c.Exec, c.State
	n.mkExec(s)
	s.live = n
	s.tip = s.init - 1
	s.lastState = c.State.Copy()
	s.vals[s.init] = c.State.Validators.Copy()
	s.vals[s.init+1] = c.State.NextValidators.Copy()
	s.params[s.init] = c.State.ConsensusParams
	s.paramTouched[s.init] = true
	s.appVals = s.app.Validators()

	if env.Checking("C08") {
		// The chain starts from the initial member list (genesis, or the application's answer
		// to InitChain): the set of the initial height is the set constructed from that list
		// (the empty set updated with the members, rotated once), the set of the next height is
		// that set advanced by one proposer-selection run, and there is no last set.
		r0, err := refUpdate(refSet{}, initial, types.MaxTotalVotingPower)
		if err != nil {
			panic(err)
		}
		r1, _ := refIncrement(r0, 1)
		if msg := cmpRefReal(r1, c.State.Validators, true); msg != "" {
			env.Fail("C08", "genesis-set-wrong", "validators of the initial height %d: %s | real %s", s.init, msg, setString(c.State.Validators))
		}
		if msg := setInvariants(c.State.Validators, types.MaxTotalVotingPower); msg != "" {
			env.Fail("C08", "set-malformed", "validators of the initial height %d: %s", s.init, msg)
		}
		r2, _ := refIncrement(r1, 1)
		if msg := cmpRefReal(r2, c.State.NextValidators, true); msg != "" {
			env.Fail("C08", "genesis-next-set-wrong", "validators of height %d are not those of the initial height %d advanced by one proposer-selection run: %s | initial %s | next %s", s.init+1, s.init, msg, setString(c.State.Validators), setString(c.State.NextValidators))
		}
		if c.State.LastValidators != nil && len(c.State.LastValidators.Validators) != 0 {
			env.Fail("C08", "genesis-set-wrong", "before the first block the last validator set has %d members", len(c.State.LastValidators.Validators))
		}
		if len(s.appVals) != len(initial) {
			env.Fail("C08", "genesis-set-wrong", "the application starts with %d validators, the chain with %d", len(s.appVals), len(initial))
		}
		// what the node will answer for these heights must be what it runs them with
		for _, h := range []int64{s.init, s.init + 1} {
			got, err := c.StateStore.LoadValidators(h)
			if err != nil {
				env.Fail("C18", "validators-missing", "genesis: LoadValidators(%d): %v", h, err)
			}
			if msg := equalSets(got, s.vals[h]); msg != "" {
				env.Fail("C08", s.classifyHistorical(h, got), "genesis: LoadValidators(%d) is not the set the node runs height %d with: %s | loaded %s | state %s", h, h, msg, setString(got), setString(s.vals[h]))
			}
		}
	}
	if !wantParams.Equal(&c.State.ConsensusParams) {
		env.Fail("C18", "params-wrong", "parameters of the initial height are %v, expected %v", c.State.ConsensusParams, wantParams)
	}

	// the validator-set laboratory
	ln := cfg.Int("lab_n")
	if ln < 1 {
		ln = 1
	}
	var lv []*types.Validator
	lr := simcore.NewRNG(env.Seed ^ 0x51ab)
	for i := 0; i < ln; i++ {
		lv = append(lv, types.NewValidator(key(100+i).PubKey(), labPower(lr, cfg.Bool("lab_extreme"), 1)))
	}
	s.lab = types.NewValidatorSet(lv)
	s.audit(s.live, "genesis", auditOpts{full: true, post: true})
	return s
}

func labPower(r *simcore.RNG, extreme bool, share int64) int64 {
	switch k := r.Intn(10); {
	case k < 5:
		return int64(r.Range(1, 30))
	case k < 8 || !extreme:
		return int64(r.Range(100, 1000000))
	default:
		return types.MaxTotalVotingPower/8 - int64(r.Intn(1000))
	}
}

func (s *sim) blockAt(h int64) *blk {
	if b := s.blocks[h]; b != nil {
		return b
	}
	if s.decided != nil && s.decided.h == h {
		return s.decided
	}
	return nil
}

// ---------------------------------------------------------------- op generation

func (s *sim) Next(rng *simcore.RNG) simcore.Op {
	if s.opsLeft <= 0 {
		return nil
	}
	s.opsLeft--
	if big := s.cfg.Int("big"); big > 0 && !s.grown {
		return simcore.Op{"a": "grow", "n": big, "seed": rng.Intn(1 << 30)}
	}
	size := s.live.bs.Size()
	w := []int{50, 0, 0, 0, 0, 0, 3, s.cfg.Int("lab"), 0}
	if size >= 2 {
		w[1] = s.cfg.Int("prune")
	}
	if s.cfg.Bool("crash") && s.crashes < 6 {
		w[2] = 10
		if size >= 2 {
			w[3] = s.cfg.Int("prune") / 2
		}
	}
	if s.cfg.Bool("sweep") && (s.sweeps < 1 || (s.env.Thorough() && s.sweeps < 3)) {
		w[4] = 3
		if size >= 3 && s.cfg.Int("prune") > 0 {
			w[5] = 3
		}
	}
	if s.cfg.Int("big") > 0 {
		w[0], w[2], w[4] = 20, 4, 1
		if s.sweeps >= 1 {
			w[4], w[5] = 0, 0
		}
	}
	if s.cfg.Int("big") == 0 && s.env.Checking("C08") {
		w[8] = s.cfg.Int("badapp")
	}
	if s.decided != nil {
		// a decided block is outstanding (lost in a crash): the restarted node saves it again
		// before it does anything else to its stores
		w[1], w[3], w[5], w[8] = 0, 0, 0, 0
	}
	switch rng.Weighted(w) {
	case 0:
		return s.genBlock(rng, simcore.Op{"a": "block"})
	case 1:
		return s.genPrune(rng, simcore.Op{"a": "prune"}, false)
	case 2:
		op := s.genBlock(rng, simcore.Op{"a": "crash", "on": "block"})
		return s.genCrash(rng, op, "block")
	case 3:
		op := s.genPrune(rng, simcore.Op{"a": "crash", "on": "prune"}, true)
		return s.genCrash(rng, op, "prune")
	case 4:
		op := s.genBlock(rng, simcore.Op{"a": "sweep", "on": "block"})
		op["keeps"] = []string{"ends", "all"}[rng.Intn(2)]
		return op
	case 5:
		op := s.genPrune(rng, simcore.Op{"a": "sweep", "on": "prune"}, true)
		op["keeps"] = []string{"ends", "all"}[rng.Intn(2)]
		return op
	case 6:
		return simcore.Op{"a": "restart"}
	case 8:
		return s.genBad(rng)
	default:
		return s.genLab(rng)
	}
}

// genBad draws a block whose EndBlock batch mixes acceptable changes (removals, power
// changes, additions) with an entry no batch may contain: a validator with a key type the
// consensus parameters do not allow, or a negative power. The order of the batch is the
// order of the transactions; Apply runs it in that order and reversed.
func (s *sim) genBad(rng *simcore.RNG) simcore.Op {
	h := s.tip + 1
	var txs []string
	if rng.Bool(0.5) {
		txs = append(txs, fmt.Sprintf("k%d-bad=%d", h, rng.Intn(100)))
	}
	// acceptable part: prefer a removal / power change of a member
	var members, others []int
	for i := 0; i < s.kc.NKeys; i++ {
		if _, ok := s.appVals[hex.EncodeToString(key(i).PubKey().Bytes())]; ok {
			members = append(members, i)
		} else {
			others = append(others, i)
		}
	}
	for j, nj := 0, rng.Range(0, 2); j < nj; j++ {
		switch k := rng.Intn(10); {
		case k < 5 && len(members) > 1:
			txs = append(txs, string(chaingen.ValTx(members[rng.Intn(len(members))], 0)))
		case k < 8 && len(members) > 0:
			txs = append(txs, string(chaingen.ValTx(members[rng.Intn(len(members))], int64(rng.Range(1, 50)))))
		case len(others) > 0:
			txs = append(txs, string(chaingen.ValTx(others[rng.Intn(len(others))], int64(rng.Range(1, 50)))))
		}
	}
	// the forbidden entry
	switch rng.Intn(4) {
	case 0:
		txs = append(txs, fmt.Sprintf("valraw:ed25519:%x:%d", key(rng.Intn(s.kc.NKeys+2)).PubKey().Bytes(), -int64(rng.Range(1, 1000))))
	default:
		pk := secp256k1.GenPrivKeySecp256k1([]byte(fmt.Sprintf("storesim-secp-%d", rng.Intn(3)))).PubKey()
		txs = append(txs, fmt.Sprintf("valraw:secp256k1:%x:%d", pk.Bytes(), int64(rng.Range(1, 100000))))
	}
	p := rng.Perm(len(txs))
	out := make([]string, len(txs))
	for i, j := range p {
		out[i] = txs[j]
	}
	op := simcore.Op{"a": "badblock", "txs": out}
	if rng.Bool(0.2) {
		op["round"] = rng.Range(1, 2)
	}
	return op
}

func (s *sim) genCrash(rng *simcore.RNG, op simcore.Op, kind string) simcore.Op {
	op["k"] = rng.Range(1, s.lastPoints[kind]+1)
	for _, f := range []string{"keepb", "keeps", "keepe"} {
		switch rng.Intn(4) {
		case 0:
			op[f] = 0
		case 1:
			op[f] = 1000
		default:
			op[f] = rng.Intn(1001)
		}
	}
	return op
}

func (s *sim) genBlock(rng *simcore.RNG, op simcore.Op) simcore.Op {
	h := s.tip + 1
	var txs []string
	for t, nt := 0, rng.Intn(4); t < nt; t++ {
		txs = append(txs, fmt.Sprintf("k%d-%d=%s", h, t, strings.Repeat("v", rng.Range(1, 120))))
	}
	mk := s.kc.NKeys
	if rng.Intn(100) < s.cfg.Int("churn") {
		for j, nj := 0, rng.Range(1, 3); j < nj; j++ {
			ki := rng.Intn(mk)
			var pw int64
			switch k := rng.Intn(10); {
			case k < 3:
				pw = 0
			case k < 7 || !s.cfg.Bool("drops"):
				pw = int64(rng.Range(1, 30))
			case k < 9:
				pw = int64(rng.Range(1000, 100000))
			default:
				pw = int64(rng.Range(1, 1000)) * 1000000000
			}
			txs = append(txs, string(chaingen.ValTx(ki, pw)))
		}
	}
	if rng.Intn(100) < s.cfg.Int("pchurn") {
		if rng.Bool(0.6) {
			txs = append(txs, fmt.Sprintf("param:maxbytes:%d", 1100000+rng.Intn(4000000)))
		} else {
			txs = append(txs, fmt.Sprintf("param:evage:%d", rng.Range(1, 200000)))
		}
	}
	op["txs"] = txs
	if rng.Bool(0.25) {
		op["round"] = rng.Range(1, 3)
	}
	// who is missing from the seen commit of this block / from the LastCommit it carries;
	// Apply keeps only as many as leave more than two thirds
	nv := len(s.live.state.Validators.Validators)
	var ab, lab, nl []int
	for i := 0; i < nv; i++ {
		if rng.Bool(0.2) {
			ab = append(ab, i)
		} else if rng.Bool(0.1) {
			nl = append(nl, i)
		}
	}
	for i := 0; i < len(s.live.state.LastValidators.Validators); i++ {
		if rng.Bool(0.2) {
			lab = append(lab, i)
		}
	}
	op["absent"], op["nilv"], op["labsent"] = ab, nl, lab
	if s.cfg.Bool("evpool") && s.tip >= s.init && rng.Intn(100) < s.cfg.Int("evrate") {
		var evs []simcore.Op
		for j, nj := 0, rng.Range(1, 2); j < nj; j++ {
			evs = append(evs, simcore.Op{"age": rng.Intn(12), "vi": rng.Intn(4)})
		}
		op["ev"] = evs
	}
	return op
}

func (s *sim) genPrune(rng *simcore.RNG, op simcore.Op, normalOnly bool) simcore.Op {
	base, height := s.live.bs.Base(), s.live.bs.Height()
	k := rng.Intn(20)
	if normalOnly && k < 4 {
		k = 10
	}
	switch {
	case k == 0:
		op["retain"] = base - int64(rng.Range(0, 2))
	case k == 1:
		op["retain"] = base
	case k <= 3:
		op["retain"] = height + int64(rng.Range(1, 3))
	case k <= 6:
		op["retain"] = height
	case k <= 9:
		op["retain"] = base + 1
	default:
		op["retain"] = base + 1 + int64(rng.Intn(int(height-base)))
		if height-base > 1100 && rng.Bool(0.7) {
			op["retain"] = base + 1001 + int64(rng.Intn(int(height-base-1000)))
		}
	}
	return op
}

func (s *sim) genLab(rng *simcore.RNG) simcore.Op {
	switch rng.Weighted([]int{5, 4, 1}) {
	case 1:
		return simcore.Op{"a": "labinc", "times": []int{1, 1, 2, 3, 7, 50, 1000}[rng.Intn(7)]}
	case 2:
		return simcore.Op{"a": "labfair", "n": rng.Range(5, 300)}
	}
	// a batch of changes
	extreme := s.cfg.Bool("lab_extreme")
	cur := s.lab.Validators
	nk := 10
	var ch []simcore.Op
	add := func(k int, p int64) { ch = append(ch, simcore.Op{"k": k, "p": strconv.FormatInt(p, 10)}) }
	member := func() int {
		v := cur[rng.Intn(len(cur))]
		for i := 0; i < nk; i++ {
			if bytes.Equal(key(100+i).PubKey().Address(), v.Address) {
				return i
			}
		}
		return 0
	}
	used := map[int]bool{}
	for j, nj := 0, rng.Range(1, 4); j < nj; j++ {
		k := rng.Intn(nk)
		if used[k] {
			continue
		}
		used[k] = true
		switch rng.Intn(4) {
		case 0:
			add(k, 0) // removal (of a member or of an unknown)
		default:
			add(k, labPower(rng, extreme, 1))
		}
	}
	switch rng.Intn(12) {
	case 0: // duplicate
		if len(ch) > 0 {
			d := ch[rng.Intn(len(ch))]
			add(d.Int("k"), labPower(rng, extreme, 1))
		}
	case 1: // negative
		add(rng.Intn(nk), -int64(rng.Range(1, 1000)))
	case 2: // a single power above the limit
		add(rng.Intn(nk), types.MaxTotalVotingPower+int64(rng.Range(1, 1000)))
	case 3: // total above the limit by a little
		add(rng.Intn(nk), types.MaxTotalVotingPower-int64(rng.Intn(5)))
	case 4: // remove every member
		ch = nil
		for i := 0; i < nk; i++ {
			for _, v := range cur {
				if bytes.Equal(key(100+i).PubKey().Address(), v.Address) {
					add(i, 0)
				}
			}
		}
		if rng.Bool(0.5) {
			add(nk+1, int64(rng.Range(1, 9))) // ... but add a new one: valid
		}
	case 5: // remove a member and add power that only fits once the member is gone
		m := member()
		ch = []simcore.Op{}
		add(m, 0)
		add(nk+2, types.MaxTotalVotingPower-int64(rng.Intn(3)))
	}
	return simcore.Op{"a": "valbatch", "ch": ch, "perm": rng.Intn(1 << 20)}
}

// ---------------------------------------------------------------- apply

func (s *sim) Apply(op simcore.Op) bool {
	e := s.env
	switch op.Kind() {
	case "block":
		s.doBlock(s.live, op)
		s.audit(s.live, "after block", auditOpts{post: true})
	case "grow":
		if s.grown || op.Int("n") <= 0 || op.Int("n") > 5000 {
			return false
		}
		s.grown = true
		r := simcore.NewRNG(uint64(op.Int("seed")))
		for i := 0; i < op.Int("n"); i++ {
			bop := simcore.Op{"txs": []string{}}
			if r.Bool(0.2) {
				bop["txs"] = []string{fmt.Sprintf("g%d=%d", i, r.Intn(1000))}
			}
			if s.kc.NKeys > 1 && r.Bool(0.01) {
				bop["txs"] = []string{string(chaingen.ValTx(1, int64(r.Intn(3))))}
			}
			if r.Bool(0.004) {
				bop["txs"] = []string{fmt.Sprintf("param:maxbytes:%d", 1100000+r.Intn(4000000))}
			}
			s.doBlock(s.live, bop.Normalize())
		}
		s.audit(s.live, "after grow", auditOpts{full: true, post: true})
	case "prune":
		if s.decided != nil {
			return false
		}
		s.doPrune(s.live, op.Int64("retain"), true)
		s.audit(s.live, "after prune", auditOpts{full: true, post: true})
		s.gc()
	case "restart":
		s.restart(s.live.image(-1, -1, -1), "clean restart")
	case "crash":
		kind := op.Str("on")
		if kind != "block" && kind != "prune" {
			return false
		}
		k := op.Int("k")
		if k < 1 || (kind == "prune" && s.decided != nil) {
			return false
		}
		n := s.live
		crashed, pts, label := s.withCrash(n, k, func() { s.perform(n, kind, op, true) })
		if !crashed {
			s.pruneCtx = nil
			s.lastPoints[kind] = pts
			e.Count("probe.crash_point_beyond_op")
			s.audit(n, "after "+kind, auditOpts{full: true, post: true})
			s.gc()
			break
		}
		s.crashes++
		e.Count("fault.crash_in_" + kind)
		ub, us, ue := n.bdb.Unsynced(), n.sdb.Unsynced(), n.edb.Unsynced()
		kb, ks, ke := ub*op.Int("keepb")/1000, us*op.Int("keeps")/1000, ue*op.Int("keepe")/1000
		if ub+us+ue > 0 {
			e.Count("fault.crash_with_unsynced_writes")
			if (kb > 0 && kb < ub) || (ks > 0 && ks < us) || (ke > 0 && ke < ue) {
				e.Count("fault.crash_partial_unsynced_prefix")
			}
		}
		e.Logf("crash at point %d (%s) unsynced block=%d state=%d evidence=%d kept %d/%d/%d", k, label, ub, us, ue, kb, ks, ke)
		s.app.Crash()
		s.restart(n.image(kb, ks, ke), fmt.Sprintf("crash in %s at point %d (%s), kept %d/%d block-db, %d/%d state-db and %d/%d evidence-db unsynced write groups", kind, k, label, kb, ub, ks, us, ke, ue))
		if kind == "prune" {
			// A prune interrupted after the base moved never deletes the rest of its batch: later
			// prunes start at the new base. Not part of the property (the reported range is
			// consistent); counted, and the leak check after later prunes skips those heights.
			if b := s.live.bs.Base(); b > s.leakFloor {
				s.leakFloor = b
			}
			if b := s.live.bs.Base(); b > 1 && s.live.bs.LoadBlockMeta(b-1) != nil {
				e.Count("probe.garbage_below_base_after_prune_crash")
			}
		}
		s.pruneCtx = nil
		s.gc()
	case "sweep":
		kind := op.Str("on")
		if (kind != "block" && kind != "prune") || (kind == "prune" && s.decided != nil) {
			return false
		}
		s.sweep(kind, op)
		s.sweeps++
	case "badblock":
		if s.decided != nil || !s.badBlock(op) {
			return false
		}
	case "valbatch":
		s.valBatch(op)
	case "labinc":
		if op.Int("times") < 1 || op.Int("times") > 100000 {
			return false
		}
		s.labInc(op.Int("times"))
	case "labfair":
		if op.Int("n") < 1 || op.Int("n") > 5000 {
			return false
		}
		s.labFair(op.Int("n"))
	default:
		return false
	}
	e.Count("op." + op.Kind())
	b, h := s.live.bs.Base(), s.live.bs.Height()
	sz := h - b
	switch {
	case sz > 1000:
		sz = 1000
	case sz > 8:
		sz = 8 + sz/16
	}
	e.State(op.Kind(), op.Str("on"), sz, b > s.init, len(s.live.state.Validators.Validators), s.crashes, s.decided != nil, (h+1)%100000 < 50)
	return true
}

func (s *sim) perform(n *node, kind string, op simcore.Op, checks bool) {
	if kind == "block" {
		s.doBlock(n, op)
	} else {
		s.pruneCtx = &pruneCtx{base0: n.bs.Base(), retain: op.Int64("retain")}
		s.doPrune(n, op.Int64("retain"), checks)
	}
}

// gc forgets decided blocks below the base the store reports (after the audit passed).
func (s *sim) gc() {
	if s.inSweep {
		return
	}
	base := s.live.bs.Base()
	for h := range s.blocks {
		if h < base-1 {
			delete(s.blocks, h)
		}
	}
}

// ---------------------------------------------------------------- blocks

func present(vals *types.ValidatorSet, absent, nilv []int) (map[int]bool, map[int]bool) {
	total := vals.TotalVotingPower()
	var gone int64
	a, nl := map[int]bool{}, map[int]bool{}
	take := func(list []int, m map[int]bool) {
		for _, i := range list {
			if i < 0 || i >= len(vals.Validators) || a[i] || nl[i] {
				continue
			}
			p := vals.Validators[i].VotingPower
			if (gone+p)*3 < total {
				m[i] = true
				gone += p
			}
		}
	}
	take(absent, a)
	take(nilv, nl)
	return a, nl
}

// signCommit builds the commit of vals for id directly (no VoteSet): entry i is by member i;
// absent members have an absent entry, nil voters a signed nil vote.
func (s *sim) signCommit(vals *types.ValidatorSet, id types.BlockID, h int64, round int32, blockTime time.Time, delay time.Duration, absent, nilv map[int]bool) *types.Commit {
	sigs := make([]types.CommitSig, len(vals.Validators))
	for i, v := range vals.Validators {
		if absent[i] {
			sigs[i] = types.NewCommitSigAbsent()
			continue
		}
		k, ok := s.kc.Keys[string(v.Address)]
		if !ok {
			panic(fmt.Sprintf("storesim: no key for validator %X", v.Address))
		}
		vote := &types.Vote{Type: tmproto.PrecommitType, Height: h, Round: round, BlockID: id,
			Timestamp: blockTime.Add(delay + time.Duration(i)*time.Millisecond), ValidatorAddress: v.Address, ValidatorIndex: int32(i)}
		if nilv[i] {
			vote.BlockID = types.BlockID{}
		}
		sig, err := k.Sign(types.VoteSignBytes(s.chainID, vote.ToProto()))
		if err != nil {
			panic(err)
		}
		vote.Signature = sig
		sigs[i] = vote.CommitSig()
	}
	return types.NewCommit(h, round, id, sigs)
}

// makeEvidence builds genuine duplicate-vote evidence for the block at height h: two
// conflicting precommits of one validator of an earlier retained height, signed with its
// key, and hands each to the pool (as gossip would) before the block is assembled.
func (s *sim) makeEvidence(n *node, h int64, specs []simcore.Op) []types.Evidence {
	if n.pool == nil || len(specs) > 4 {
		return nil
	}
	var out []types.Evidence
	used := map[string]bool{}
	for j, sp := range specs {
		eh := s.tip - int64(sp.Int("age"))
		if sp.Int("age") < 0 || eh < s.init || eh < n.bs.Base() || s.blocks[eh] == nil || s.vals[eh] == nil {
			continue
		}
		vals := s.vals[eh]
		vi := sp.Int("vi")
		if vi < 0 {
			continue
		}
		v := vals.Validators[vi%len(vals.Validators)]
		k, ok := s.kc.Keys[string(v.Address)]
		if !ok || used[fmt.Sprint(eh, v.Address)] {
			continue
		}
		used[fmt.Sprint(eh, v.Address)] = true
		mk := func(tag string) *types.Vote {
			hash := tmhash.Sum([]byte(fmt.Sprintf("storesim-ev-%s-%d-%d", tag, h, j)))
			vote := &types.Vote{Type: tmproto.PrecommitType, Height: eh, Round: 0,
				BlockID:   types.BlockID{Hash: hash, PartSetHeader: types.PartSetHeader{Total: 1, Hash: hash}},
				Timestamp: s.blocks[eh].block.Time, ValidatorAddress: v.Address, ValidatorIndex: int32(vi % len(vals.Validators))}
			sig, err := k.Sign(types.VoteSignBytes(s.chainID, vote.ToProto()))
			if err != nil {
				panic(err)
			}
			vote.Signature = sig
			return vote
		}
		ev := types.NewDuplicateVoteEvidence(mk("a"), mk("b"), s.blocks[eh].block.Time, vals)
		if ev == nil {
			continue
		}
		if err := n.pool.AddEvidence(ev); err != nil {
			s.env.Fail("C11", "genuine-evidence-rejected", "duplicate-vote evidence of validator %X at retained height %d (store [%d,%d]) was not admitted: %v", v.Address, eh, n.bs.Base(), n.bs.Height(), err)
			continue
		}
		out = append(out, ev)
		s.env.Count("probe.evidence_in_block")
	}
	return out
}

func (s *sim) buildBlock(n *node, op simcore.Op) *blk {
	st := n.state
	h := s.tip + 1
	var last *types.Commit
	if h == s.init {
		last = types.NewCommit(0, 0, types.BlockID{}, nil)
	} else {
		// the proposer of h includes its own collection of precommits for h-1: same block,
		// same round, not necessarily the same signers as the locally seen commit
		prev := s.blocks[h-1]
		ab, _ := present(st.LastValidators, op.Ints("labsent"), nil)
		last = s.signCommit(st.LastValidators, prev.id, h-1, prev.seen.Round, prev.block.Time, 1500*time.Millisecond, ab, nil)
	}
	round := int32(op.Int("round"))
	if round < 0 || round > 1000 {
		round = 0
	}
	proposer := st.Validators.GetProposer()
	if round > 0 {
		proposer = st.Validators.CopyIncrementProposerPriority(round).GetProposer()
	}
	var txs []types.Tx
	var stxs []string
	for _, t := range op.Strs("txs") {
		txs = append(txs, types.Tx(t))
		stxs = append(stxs, t)
	}
	evs := s.makeEvidence(n, h, op.Subs("ev"))
	block, _ := st.MakeBlock(h, txs, last, evs, proposer.Address)
	parts := block.MakePartSet(s.partSize)
	id := types.BlockID{Hash: block.Hash(), PartSetHeader: parts.Header()}
	ab, nl := present(st.Validators, op.Ints("absent"), op.Ints("nilv"))
	seen := s.signCommit(st.Validators, id, h, round, block.Time, time.Second, ab, nl)
	if parts.Total() > 1 {
		s.env.Count("probe.multi_part_block")
	}
	return &blk{h: h, block: block, parts: parts, seen: seen, id: id, txs: stxs, ev: evs}
}

func (s *sim) doBlock(n *node, op simcore.Op) {
	h := s.tip + 1
	b := s.decided
	if b == nil || b.h != h {
		b = s.buildBlock(n, op)
		s.decided = b
	} else {
		s.env.Count("probe.decided_block_saved_again")
	}
	// observe which keys the save of this height creates (for the leak check after pruning)
	var made []string
	if !s.inSweep && n == s.live {
		n.bdb.Trace = func(k string, del bool) {
			if has, _ := n.bdb.Has([]byte(k)); !has && !del {
				made = append(made, k)
			}
		}
	}
	// as consensus does before it commits: full validation, which includes the evidence check
	if err := n.exec.ValidateBlock(n.state, b.block); err != nil {
		panic(fmt.Sprintf("storesim: ValidateBlock(%d): %v", h, err))
	}
	n.bs.SaveBlock(b.block, b.parts, b.seen)
	if n.bdb.Trace != nil {
		n.bdb.Trace = nil
		s.created[h] = made
	}
	prev := n.state
	newState, _, err := n.exec.ApplyBlock(prev, b.id, b.block)
	if err != nil {
		panic(fmt.Sprintf("storesim: ApplyBlock(%d): %v", h, err))
	}
	n.state = newState
	if len(b.ev) > 0 {
		s.evMode[h] = "direct"
	}
	s.commitBlock(b, prev, newState)
	if len(b.ev) > 0 && n.pool != nil && s.env.Checking("C11") {
		// right after a block is applied its evidence is committed: not pending, and not accepted again
		pend, _ := n.pool.PendingEvidence(-1)
		for _, ev := range b.ev {
			for _, p := range pend {
				if bytes.Equal(p.Hash(), ev.Hash()) {
					s.env.Fail("C11", "committed-evidence-still-pending", "evidence %X committed in block %d is still pending after ApplyBlock returned", ev.Hash(), h)
				}
			}
			if err := n.pool.CheckEvidence(types.EvidenceList{ev}); err == nil {
				s.env.Fail("C11", "committed-evidence-accepted-again", "evidence %X committed in block %d passes CheckEvidence again after ApplyBlock returned", ev.Hash(), h)
			}
		}
	}
}

// checkEvidence runs after every restart, on the pool recreated from the surviving evidence
// database: evidence contained in a block the state says is applied has been committed, so it
// must not be pending and a block carrying it again must be refused. The acceptance test is
// made on a throw-away pool over a copy of the evidence database (CheckEvidence writes).
func (s *sim) checkEvidence(n *node, ctx string) {
	e := s.env
	if n.pool == nil || !e.Checking("C11") {
		return
	}
	stH := n.state.LastBlockHeight
	pend, _ := n.pool.PendingEvidence(-1)
	isPending := func(ev types.Evidence) bool {
		for _, p := range pend {
			if bytes.Equal(p.Hash(), ev.Hash()) {
				return true
			}
		}
		return false
	}
	var probe *evidence.Pool
	var hs []int64
	for h := range s.evMode {
		hs = append(hs, h)
	}
	sort.Slice(hs, func(i, j int) bool { return hs[i] < hs[j] })
	for _, h := range hs {
		b := s.blocks[h]
		if b == nil || h > stH || h < n.bs.Base() {
			continue
		}
		for _, ev := range b.ev {
			pending := isPending(ev)
			if probe == nil {
				var err error
				probe, err = evidence.NewPool(simdisk.NewCrashDB("evidence-probe", n.edb.Image(-1), &simdisk.Ctl{}), n.ss, n.bs)
				if err != nil {
					panic(err)
				}
			}
			err := probe.CheckEvidence(types.EvidenceList{ev})
			if !pending && err != nil {
				continue // refused (committed, or no longer verifiable after pruning)
			}
			e.Count("probe.committed_evidence_not_marked_after_restart")
			what := "is neither pending nor marked committed"
			if pending {
				what = "is still pending"
			}
			acc := "and a block carrying it again would be refused only for another reason: " + fmt.Sprint(err)
			if err == nil {
				acc = "and CheckEvidence accepts it in a block again"
			}
			if s.evMode[h] == "handshake" {
				// the handshake replays the block with a no-op evidence pool: listed known findings
				sig := "committed-still-pending-after-apply-crash"
				if !pending {
					sig = "evidence-in-two-blocks-after-apply-crash"
				}
				e.Fail("C11", sig, "%s: evidence %X of block %d (applied by the handshake replay) %s %s", ctx, ev.Hash(), h, what, acc)
				continue
			}
			sig := "committed-evidence-still-pending-after-crash"
			if !pending {
				sig = "committed-evidence-not-marked-after-crash"
			}
			e.Fail("C11", sig, "%s: the state is at height %d and block %d was applied by the node's own ApplyBlock (never replayed), but its evidence %X %s %s", ctx, stH, h, ev.Hash(), what, acc)
		}
	}
}

func expectParams(p tmproto.ConsensusParams, txs []string) (tmproto.ConsensusParams, bool) {
	touched := false
	for _, t := range txs {
		f := strings.Split(t, ":")
		if len(f) < 3 || f[0] != "param" {
			continue
		}
		n, err := strconv.ParseInt(f[2], 10, 64)
		if err != nil || n <= 0 {
			continue
		}
		switch f[1] {
		case "maxbytes":
			p.Block.MaxBytes, p.Block.MaxGas = n, -1
			touched = true
		case "evage":
			p.Evidence.MaxAgeNumBlocks, p.Evidence.MaxAgeDuration, p.Evidence.MaxBytes = n, time.Hour, 10000
			touched = true
		}
	}
	return p, touched
}

func diffVals(before, after map[string]int64) []change {
	var out []change
	add := func(hexpk string, p int64) {
		b, _ := hex.DecodeString(hexpk)
		out = append(out, change{addr: ed25519.PubKey(b).Address(), power: p})
	}
	for k, p := range after {
		if q, ok := before[k]; !ok || q != p {
			add(k, p)
		}
	}
	for k := range before {
		if _, ok := after[k]; !ok {
			add(k, 0)
		}
	}
	sort.Slice(out, func(i, j int) bool { return bytes.Compare(out[i].addr, out[j].addr) < 0 })
	return out
}

// commitBlock records block b as part of the chain together with the state the real code
// derived from it, after checking that state against the references (C08).
func (s *sim) commitBlock(b *blk, prev, st sm.State) {
	e := s.env
	h := b.h
	s.blocks[h], s.tip, s.decided = b, h, nil
	after := s.app.Validators()
	if e.Checking("C08") {
		if msg := equalSets(st.Validators, s.vals[h+1]); msg != "" {
			e.Fail("C08", "set-shift", "after block %d the current set is not the previous next set: %s", h, msg)
		}
		if msg := equalSets(st.LastValidators, s.vals[h]); msg != "" {
			e.Fail("C08", "set-shift", "after block %d the last set is not the previous current set: %s", h, msg)
		}
		batch := diffVals(s.appVals, after)
		if len(batch) > 0 {
			e.Count("probe.validator_batch")
			if len(batch) > 1 {
				e.Count("probe.validator_batch_multi")
			}
		}
		ref, err := refUpdate(refFromReal(prev.NextValidators), batch, types.MaxTotalVotingPower)
		if err != nil {
			e.Fail("C08", "invalid-batch-accepted", "block %d: batch %v is invalid for the reference (%v) but the node applied it", h, batch, err)
		}
		ref, _ = refIncrement(ref, 1)
		if msg := cmpRefReal(ref, st.NextValidators, true); msg != "" {
			e.Fail("C08", "next-set-wrong", "block %d, batch of %d change(s): %s | before %s | after %s", h, len(batch), msg, setString(prev.NextValidators), setString(st.NextValidators))
		}
		if msg := setInvariants(st.NextValidators, types.MaxTotalVotingPower); msg != "" {
			e.Fail("C08", "set-malformed", "block %d: next validators: %s", h, msg)
		}
		for _, v := range st.NextValidators.Validators {
			if !allowedKeyType(st.ConsensusParams, v.PubKey.Type()) {
				e.Fail("C08", "forbidden-key-type-in-set", "block %d: member %X of the next validators has key type %s, allowed are %v", h, v.Address, v.PubKey.Type(), st.ConsensusParams.Validator.PubKeyTypes)
			}
		}
		if len(after) != len(st.NextValidators.Validators) {
			e.Fail("C08", "next-set-wrong", "block %d: application has %d validators, the node %d", h, len(after), len(st.NextValidators.Validators))
		}
		for _, v := range st.NextValidators.Validators {
			if p, ok := after[hex.EncodeToString(v.PubKey.Bytes())]; !ok || p != v.VotingPower {
				e.Fail("C08", "next-set-wrong", "block %d: member %X has power %d, the application says %d (known %v)", h, v.Address, v.VotingPower, p, ok)
			}
		}
		// every round of the next height names the proposer the specification prescribes
		cur := s.vals[h+1]
		for r := 1; r <= 3; r++ {
			real := cur.CopyIncrementProposerPriority(int32(r))
			s.checkIncrement(cur, real, r, fmt.Sprintf("height %d round %d", h+1, r))
			s.checkPaths(cur, r, fmt.Sprintf("height %d", h+1))
		}
	}
	s.vals[h+2] = st.NextValidators.Copy()
	exp, touched := expectParams(s.params[h], b.txs)
	if !exp.Equal(&st.ConsensusParams) {
		e.Fail("C18", "params-wrong", "block %d: parameters after the block are %v, expected %v", h, st.ConsensusParams, exp)
	}
	s.params[h+1] = st.ConsensusParams
	if touched {
		s.paramTouched[h+1] = true
		e.Count("probe.param_change")
	}
	s.appVals = after
	s.lastState = st.Copy()
	if h%100000 == 0 {
		e.Count("probe.checkpoint_height_crossed")
	}
}

// checkIncrement compares real = pre rotated `times` times with the specification (`times`
// complete runs of ProposerSelection). The real IncrementProposerPriority(times) scales and
// centres only before the first election; when that is the only difference and the elected
// proposer is the same, the deviation is internal (priorities only) and merely counted. The
// places where priorities are observable (which proposer a round gets on different paths to
// that round, LoadValidators of a past height) have their own oracles.
func (s *sim) checkIncrement(pre, real *types.ValidatorSet, times int, ctx string) {
	ref, _ := refIncrement(refFromReal(pre), times)
	msg := cmpRefReal(ref, real, true)
	if msg == "" {
		return
	}
	sig := "proposer-wrong"
	if times > 1 {
		if once, _ := refIncrementScaleOnce(refFromReal(pre), times); cmpRefReal(once, real, true) == "" {
			if real.Proposer != nil && bytes.Equal(real.Proposer.Address, ref.proposer) {
				s.env.Count("probe.rescale_skipped_priorities_differ")
				return
			}
			sig = "proposer-path-dependent"
		}
	}
	s.env.Fail("C08", sig, "%s: rotating %d time(s): %s | before %s | real %s", ctx, times, msg, setString(pre), setString(real))
}

// checkPaths: a node reaches round r of a height either round by round or by skipping rounds
// (IncrementProposerPriority(1) r times, or once with r); every path must name the same proposer.
func (s *sim) checkPaths(cur *types.ValidatorSet, r int, ctx string) {
	direct := cur.CopyIncrementProposerPriority(int32(r))
	for split := 1; split < r; split++ {
		two := cur.CopyIncrementProposerPriority(int32(split))
		two.IncrementProposerPriority(int32(r - split))
		if !bytes.Equal(two.Proposer.Address, direct.Proposer.Address) {
			s.env.Fail("C08", "proposer-path-dependent", "%s: round %d reached directly has proposer %X, reached via round %d proposer %X | set %s", ctx, r, direct.Proposer.Address, split, two.Proposer.Address, setString(cur))
		}
		if equalSets(two, direct) != "" {
			s.env.Count("probe.round_path_priorities_differ")
		}
	}
}

// allowedKeyType: the key type is one the consensus parameters list for validators.
func allowedKeyType(p tmproto.ConsensusParams, t string) bool {
	for _, a := range p.Validator.PubKeyTypes {
		if a == t {
			return true
		}
	}
	return false
}

// badBlock: the application answers EndBlock with a batch that contains an entry no batch may
// contain (a key type the parameters forbid, a negative power). The whole batch must be
// refused whatever its order: ApplyBlock fails and leaves the state untouched. A node whose
// application does this halts, so the block is executed on copies of the stores and of the
// application (once per order) and the live node carries on with another block.
func (s *sim) badBlock(op simcore.Op) bool {
	e := s.env
	txs := op.Strs("txs")
	params := s.lastState.ConsensusParams
	bad := ""
	for _, t := range txs {
		f := strings.Split(t, ":")
		if len(f) < 4 || f[0] != "valraw" {
			continue
		}
		pw, err := strconv.ParseInt(f[3], 10, 64)
		if err != nil {
			continue
		}
		if pw < 0 {
			bad = "negative power"
		} else if pw > 0 && !allowedKeyType(params, f[1]) {
			bad = "key type " + f[1] + " not among " + fmt.Sprint(params.Validator.PubKeyTypes)
		}
	}
	if bad == "" || !e.Checking("C08") {
		return false
	}
	rev := make([]string, len(txs))
	for i, t := range txs {
		rev[len(txs)-1-i] = t
	}
	img0 := s.live.image(-1, -1, -1)
	snap0 := s.app.Snapshot()
	m0 := s.mark()
	wasSweep := s.inSweep
	s.inSweep = true
	defer func() { s.inSweep = wasSweep }()
	var verdicts []string
	applied := 0
	for _, order := range [][]string{txs, rev} {
		s.app.Restore(snap0)
		n := s.open(img0, "badblock")
		n.connect(s, s.lastState)
		o := simcore.Op{"txs": order, "round": op.Int("round")}.Normalize()
		b := s.buildBlock(n, o)
		if err := n.exec.ValidateBlock(n.state, b.block); err != nil {
			panic(fmt.Sprintf("storesim: ValidateBlock(%d): %v", b.h, err))
		}
		n.bs.SaveBlock(b.block, b.parts, b.seen)
		st, _, err := n.exec.ApplyBlock(n.state, b.id, b.block)
		if err == nil {
			applied++
			verdicts = append(verdicts, fmt.Sprintf("%v -> applied, next validators %s", order, setString(st.NextValidators)))
			for _, v := range st.NextValidators.Validators {
				if !allowedKeyType(st.ConsensusParams, v.PubKey.Type()) {
					verdicts[len(verdicts)-1] += fmt.Sprintf(" (member %X has forbidden key type %s)", v.Address, v.PubKey.Type())
				}
			}
		} else {
			verdicts = append(verdicts, fmt.Sprintf("%v -> %v", order, err))
			// refused: nothing of the state may have changed
			got, lerr := n.ss.Load()
			if lerr != nil || !bytes.Equal(got.Bytes(), s.lastState.Bytes()) {
				e.Fail("C08", "failed-batch-changed-state", "block %d with an invalid EndBlock batch (%s) was refused (%v) but the saved state changed", b.h, bad, err)
			}
			for _, h := range []int64{s.tip + 1, s.tip + 2} {
				if want := s.vals[h]; want != nil {
					if lv, lerr := n.ss.LoadValidators(h); lerr != nil || equalSets(lv, want) != "" {
						e.Fail("C08", "failed-batch-changed-state", "block %d with an invalid EndBlock batch (%s) was refused (%v) but LoadValidators(%d) changed: %v", b.h, bad, err, h, lerr)
					}
				}
			}
		}
		n.stop()
		s.rewind(m0)
	}
	s.app.Restore(snap0)
	s.rewind(m0)
	e.Count("probe.bad_endblock_batch")
	switch {
	case applied == 1:
		e.Fail("C08", "batch-validation-order-dependent", "EndBlock batch with an inadmissible entry (%s): the outcome depends on the order of the batch: %s | %s", bad, verdicts[0], verdicts[1])
	case applied == 2:
		e.Fail("C08", "inadmissible-batch-applied", "EndBlock batch with an inadmissible entry (%s) was applied in both orders: %s | %s", bad, verdicts[0], verdicts[1])
	}
	return true
}

// ---------------------------------------------------------------- prune

func imagesEqual(a, b map[string][]byte) bool {
	if len(a) != len(b) {
		return false
	}
	for k, v := range a {
		if w, ok := b[k]; !ok || !bytes.Equal(v, w) {
			return false
		}
	}
	return true
}

// doPrune prunes the way consensus.State.pruneBlocks does. With checks it also verifies the
// outcome of a completed call (only meaningful when the call is not interrupted).
func (s *sim) doPrune(n *node, retain int64, checks bool) {
	e := s.env
	base, height := n.bs.Base(), n.bs.Height()
	normal := retain > base && retain <= height
	if !normal {
		// must fail (or, for retain == base, do nothing) and change nothing
		b0, s0 := n.bdb.Image(-1), n.sdb.Image(-1)
		pruned, err := n.bs.PruneBlocks(retain)
		if retain == base && height > 0 && retain > 0 {
			if err != nil || pruned != 0 {
				e.Fail("C18", "prune-noop", "PruneBlocks(base=%d) returned %d, %v", retain, pruned, err)
			}
			e.Count("probe.prune_at_base")
		} else {
			if err == nil {
				e.Fail("C18", "prune-out-of-range", "PruneBlocks(%d) on a store [%d,%d] did not fail", retain, base, height)
			}
			e.Count("probe.prune_out_of_range")
		}
		if n.ctl.Dead() {
			return
		}
		if n.bs.Base() != base || n.bs.Height() != height || !imagesEqual(b0, n.bdb.Image(-1)) || !imagesEqual(s0, n.sdb.Image(-1)) {
			e.Fail("C18", "prune-out-of-range", "PruneBlocks(%d) on a store [%d,%d] changed the store (now [%d,%d])", retain, base, height, n.bs.Base(), n.bs.Height())
		}
		return
	}
	ids := map[int64]types.BlockID{}
	var there int64 // heights of [base, retain) present before (all of them, unless a known finding left base at a deleted height)
	for h := base; h < retain; h++ {
		if b := s.blocks[h]; b != nil {
			ids[h] = b.id
		}
		if h > base || n.bs.LoadBlockMeta(h) != nil {
			there++
		}
	}
	pruned, err := n.bs.PruneBlocks(retain)
	if err != nil {
		e.Fail("C18", "prune-failed", "PruneBlocks(%d) on a store [%d,%d]: %v", retain, base, height, err)
	}
	if err := n.ss.PruneStates(base, retain); err != nil {
		e.Fail("C18", "prune-failed", "PruneStates(%d,%d) with block store [%d,%d]: %v", base, retain, retain, height, err)
	}
	if retain-base > 1000 {
		e.Count("probe.prune_multi_batch")
	}
	if retain/100000 > base/100000 {
		e.Count("probe.prune_across_checkpoint")
	}
	e.Count("probe.prune_normal")
	if !checks {
		return
	}
	if int64(pruned) != there {
		e.Fail("C18", "prune-count", "PruneBlocks(%d) from base %d (%d heights present) reports %d pruned", retain, base, there, pruned)
	}
	if n.bs.Height() != height {
		e.Fail("C18", "prune-base", "pruning changed the height from %d to %d", height, n.bs.Height())
	}
	s.checkPruned(n, base, retain, ids)
}

// ---------------------------------------------------------------- crash, restart, sweep

type crashSentinel struct{ label string }

// withCrash runs f with the node's persistence point number k (counted from the start of f)
// turned into a crash: the incarnation is marked dead (nothing it does afterwards reaches
// the disk) and the driver goroutine unwinds out of the store call.
func (s *sim) withCrash(n *node, k int, f func()) (crashed bool, points int, label string) {
	p0 := n.ctl.Points()
	n.ctl.OnPoint = func(l string, idx int) {
		if idx-p0 == k {
			n.ctl.Kill()
			panic(crashSentinel{l})
		}
	}
	defer func() {
		n.ctl.OnPoint = nil
		if r := recover(); r != nil {
			cs, ok := r.(crashSentinel)
			if !ok {
				panic(r)
			}
			crashed, points, label = true, k, cs.label
		}
	}()
	f()
	return false, n.ctl.Points() - p0, ""
}

// images are the durable contents of the three databases of a node.
type images struct{ b, s, e map[string][]byte }

// image returns what a crash leaves that preserved the given numbers of unsynced write
// groups per database (negative: all).
func (n *node) image(kb, ks, ke int) images {
	return images{b: n.bdb.Image(kb), s: n.sdb.Image(ks), e: n.edb.Image(ke)}
}

// open builds stores on the given durable images, without handshake.
func (s *sim) open(img images, ctx string) *node {
	n := &node{ctl: &simdisk.Ctl{}}
	n.bdb = simdisk.NewCrashDB("block", img.b, n.ctl)
	n.sdb = simdisk.NewCrashDB("state", img.s, n.ctl)
	n.edb = simdisk.NewCrashDB("evidence", img.e, n.ctl)
	func() {
		defer func() {
			if r := recover(); r != nil {
				s.env.Fail("C18", "reopen-failed", "%s: the block store cannot be opened: %v", ctx, r)
			}
		}()
		n.bs = store.NewBlockStore(n.bdb)
	}()
	n.ss = sm.NewStore(n.sdb, sm.StoreOptions{DiscardABCIResponses: false})
	return n
}

func (n *node) connect(s *sim, st sm.State) {
	n.proxy = proxy.NewAppConns(s.app.ClientCreator())
	n.proxy.SetLogger(nopLogger)
	if err := n.proxy.Start(); err != nil {
		panic(err)
	}
	n.state = st
	n.mkExec(s)
}

// mkExec creates the block executor and, when the run has one, the evidence pool on the
// node's evidence database (as node.NewNode does: after the handshake, from the saved state).
func (n *node) mkExec(s *sim) {
	var evp sm.EvidencePool = sm.EmptyEvidencePool{}
	n.pool = nil
	if s.cfg.Bool("evpool") {
		pool, err := evidence.NewPool(n.edb, n.ss, n.bs)
		if err != nil {
			s.env.Fail("C11", "pool-reopen-failed", "the evidence pool cannot be created on the surviving evidence database: %v", err)
			return
		}
		n.pool, evp = pool, pool
	}
	n.exec = sm.NewBlockExecutor(n.ss, nopLogger, n.proxy.Consensus(), mempl.Mempool{}, evp)
}

// boot does what a starting node does with its stores: load the state, handshake with the
// application (which replays the last block when the block store is ahead), and audits
// before and after. It then reconciles the simulator's chain with what survived.
func (s *sim) boot(n *node, ctx string) {
	e := s.env
	s.audit(n, ctx+", before the handshake", auditOpts{full: true})
	st, err := n.ss.LoadFromDBOrGenesisDoc(s.genDoc)
	if err != nil {
		e.Fail("C18", "state-load", "%s: %v", ctx, err)
	}
	n.connect(s, st)
	stBefore := st.LastBlockHeight
	replayed := false
	func() {
		defer func() {
			if r := recover(); r != nil {
				if e.Failed() {
					panic(r)
				}
				e.Fail("C18", "handshake-failed", "%s: the handshake panicked (stores [%d,%d], state at %d, application at %d): %v", ctx, n.bs.Base(), n.bs.Height(), st.LastBlockHeight, s.app.CommittedHeight(), r)
			}
		}()
		hs := consensus.NewHandshaker(n.ss, st, n.bs, s.genDoc)
		hs.SetLogger(nopLogger)
		if err := hs.Handshake(n.proxy); err != nil {
			e.Fail("C18", "handshake-failed", "%s: handshake (stores [%d,%d], state at %d, application at %d): %v", ctx, n.bs.Base(), n.bs.Height(), st.LastBlockHeight, s.app.CommittedHeight(), err)
		}
		if hs.NBlocks() > 0 {
			e.Count("probe.handshake_replayed_block")
			replayed = true
		}
	}()
	st, err = n.ss.Load()
	if err != nil {
		e.Fail("C18", "state-load", "%s: %v", ctx, err)
	}
	n.state = st
	n.mkExec(s) // the evidence pool starts from the state after the handshake
	H := n.bs.Height()
	if H == 0 {
		H = s.init - 1
	}
	switch {
	case s.decided != nil && H == s.decided.h && H == s.tip+1:
		// the block reached the store before the crash; either the node's own ApplyBlock got
		// as far as saving the state, or the handshake executed the block now
		e.Count("probe.block_survived_crash")
		mode := "direct"
		if stBefore < H {
			mode = "handshake"
		}
		if len(s.decided.ev) > 0 {
			s.evMode[H] = mode
			e.Count("probe.evidence_block_survived_crash_" + mode)
		}
		s.commitBlock(s.decided, s.lastState, st)
	case H == s.tip:
		if !bytes.Equal(st.Bytes(), s.lastState.Bytes()) {
			e.Fail("C18", "state-changed-by-restart", "%s: the state loaded after the restart is not the state that was saved (height %d vs %d)", ctx, st.LastBlockHeight, s.lastState.LastBlockHeight)
		}
		if s.decided != nil {
			e.Count("probe.block_lost_in_crash")
		}
	case H < s.tip:
		e.Fail("C18", "lost-block", "%s: the store reports height %d, block %d had been saved and executed", ctx, H, s.tip)
	default:
		e.Fail("C18", "phantom-height", "%s: the store reports height %d, the chain has %d blocks", ctx, H, s.tip)
	}
	// nothing was written since the first audit unless the handshake replayed a block
	s.audit(n, ctx+", after the handshake", auditOpts{full: true, post: true, stateOnly: !replayed})
	s.checkEvidence(n, ctx)
}

// restart replaces the live node by a new incarnation on the given images.
func (s *sim) restart(img images, ctx string) {
	s.live.ctl.Kill()
	s.live.stop()
	n := s.open(img, ctx)
	s.live = n
	s.boot(n, ctx)
}

type modelMark struct {
	tip       int64
	decided   *blk
	lastState sm.State
	appVals   map[string]int64
}

func (s *sim) mark() modelMark {
	return modelMark{tip: s.tip, decided: s.decided, lastState: s.lastState, appVals: s.appVals}
}

func (s *sim) rewind(m modelMark) {
	for h := m.tip + 1; h <= s.tip; h++ {
		delete(s.blocks, h)
		delete(s.vals, h+2)
		delete(s.params, h+1)
		delete(s.paramTouched, h+1)
		delete(s.evMode, h)
	}
	s.tip, s.decided, s.lastState, s.appVals = m.tip, m.decided, m.lastState, m.appVals
}

// sweep enumerates every persistence point of one save (or one prune) as the crash point,
// each on a copy of the images and of the application, with the unsynced write groups kept
// in every prefix length ("all") or none / all of them ("ends"); it audits after each. The
// live node is not touched.
func (s *sim) sweep(kind string, op simcore.Op) {
	e := s.env
	img0 := s.live.image(-1, -1, -1)
	if s.live.bdb.Unsynced()+s.live.sdb.Unsynced() != 0 {
		e.Count("probe.unsynced_at_op_boundary")
	}
	snap0 := s.app.Snapshot()
	m0 := s.mark()
	s.inSweep = true
	defer func() { s.inSweep = false }()
	all := op.Str("keeps") == "all" || e.Thorough()
	for k := 1; k < 100000; k++ {
		s.app.Restore(snap0)
		n := s.open(img0, "sweep")
		n.connect(s, s.lastState)
		crashed, pts, label := s.withCrash(n, k, func() { s.perform(n, kind, op, false) })
		if !crashed {
			// the whole operation ran: k-1 crash points were covered
			s.lastPoints[kind] = pts
			n.stop()
			s.rewind(m0)
			e.Add("probe.sweep_points", int64(k-1))
			break
		}
		snapC := s.app.Snapshot()
		mC := s.mark() // doBlock may have fixed the decided block
		ub, us, ue := n.bdb.Unsynced(), n.sdb.Unsynced(), n.edb.Unsynced()
		type kp struct{ b, s, e int }
		var keeps []kp
		seen := map[kp]bool{}
		add := func(c kp) {
			if !seen[c] {
				seen[c] = true
				keeps = append(keeps, c)
			}
		}
		full := kp{ub, us, ue}
		add(kp{0, 0, 0})
		add(full)
		// each database alone at none / all while the others keep everything / nothing
		add(kp{0, us, ue})
		add(kp{ub, 0, ue})
		add(kp{ub, us, 0})
		add(kp{ub, 0, 0})
		add(kp{0, us, 0})
		add(kp{0, 0, ue})
		if all {
			for x := 1; x < ub; x++ {
				add(kp{x, us, ue})
				add(kp{x, 0, 0})
			}
			for x := 1; x < us; x++ {
				add(kp{ub, x, ue})
				add(kp{0, x, 0})
			}
			for x := 1; x < ue; x++ {
				add(kp{ub, us, x})
				add(kp{0, 0, x})
			}
		} else {
			if ub > 1 {
				add(kp{(k*7 + 1) % ub, us, ue})
			}
			if us > 1 {
				add(kp{ub, (k*7 + 1) % us, ue})
			}
			if ue > 1 {
				add(kp{ub, us, (k*7 + 1) % ue})
			}
		}
		for _, c := range keeps {
			s.app.Restore(snapC)
			s.app.Crash()
			ctx := fmt.Sprintf("sweep: crash in %s at point %d (%s), kept %d/%d block-db, %d/%d state-db and %d/%d evidence-db unsynced write groups", kind, k, label, c.b, ub, c.s, us, c.e, ue)
			n2 := s.open(n.image(c.b, c.s, c.e), ctx)
			s.boot(n2, ctx)
			n2.stop()
			s.rewind(mC)
			e.Count("fault.sweep_crash")
		}
		n.stop()
		s.rewind(m0)
	}
	s.app.Restore(snap0)
	s.rewind(m0)
	s.pruneCtx = nil
	e.Count("probe.sweep_" + kind)
}

// ---------------------------------------------------------------- validator-set laboratory (C08)

func (s *sim) valBatch(op simcore.Op) {
	e := s.env
	if !e.Checking("C08") {
		return
	}
	var batch []change
	var list []*types.Validator
	for _, c := range op.Subs("ch") {
		p, err := strconv.ParseInt(c.Str("p"), 10, 64)
		k := c.Int("k")
		if err != nil || k < 0 || k > 50 {
			continue
		}
		pk := key(100 + k).PubKey()
		batch = append(batch, change{addr: pk.Address(), power: p})
		list = append(list, types.NewValidator(pk, p))
	}
	cp := func(perm []int) []*types.Validator {
		out := make([]*types.Validator, len(list))
		for i := range list {
			j := i
			if perm != nil {
				j = perm[i]
			}
			out[i] = list[j].Copy()
		}
		return out
	}
	perm := simcore.NewRNG(uint64(op.Int("perm"))).Perm(len(list))
	before := s.lab.Copy()
	a, b := s.lab.Copy(), s.lab.Copy()
	apply := func(vs *types.ValidatorSet, l []*types.Validator) (err error) {
		defer func() {
			if r := recover(); r != nil {
				if e.Failed() {
					panic(r)
				}
				e.Fail("C08", "update-panic", "UpdateWithChangeSet panicked on %s with batch %v: %v", setString(before), batch, r)
			}
		}()
		return vs.UpdateWithChangeSet(l)
	}
	errA := apply(a, cp(nil))
	errB := apply(b, cp(perm))
	ref, errR := refUpdate(refFromReal(before), batch, types.MaxTotalVotingPower)
	if (errA == nil) != (errB == nil) {
		e.Fail("C08", "order-dependent", "batch %v on %s: in given order -> %v, permuted %v -> %v", batch, setString(before), errA, perm, errB)
	}
	if (errA == nil) != (errR == nil) {
		e.Fail("C08", "verdict-wrong", "batch %v on %s: real -> %v, reference -> %v", batch, setString(before), errA, errR)
	}
	if errA != nil {
		e.Count("probe.lab_batch_rejected")
		for _, x := range []*types.ValidatorSet{a, b} {
			if msg := equalSets(x, before); msg != "" || x.TotalVotingPower() != before.TotalVotingPower() {
				e.Fail("C08", "failed-update-changed-set", "batch %v failed (%v) but changed the set: %s | before %s | after %s", batch, errA, msg, setString(before), setString(x))
			}
		}
		return
	}
	e.Count("probe.lab_batch_applied")
	if msg := equalSets(a, b); msg != "" {
		e.Fail("C08", "order-dependent", "batch %v on %s gives different sets in different orders: %s", batch, setString(before), msg)
	}
	if msg := setInvariants(a, types.MaxTotalVotingPower); msg != "" {
		e.Fail("C08", "set-malformed", "batch %v on %s: %s | result %s", batch, setString(before), msg, setString(a))
	}
	if msg := cmpRefReal(ref, a, false); msg != "" {
		e.Fail("C08", "update-wrong", "batch %v on %s: %s | result %s", batch, setString(before), msg, setString(a))
	}
	s.lab = a
}

func safeInc(e *simcore.Env, vs *types.ValidatorSet, times int, ctx string) {
	defer func() {
		if r := recover(); r != nil {
			if e.Failed() {
				panic(r)
			}
			e.Fail("C08", "increment-panic", "%s: IncrementProposerPriority(%d) panicked: %v", ctx, times, r)
		}
	}()
	vs.IncrementProposerPriority(int32(times))
}

func (s *sim) labInc(times int) {
	e := s.env
	if !e.Checking("C08") {
		return
	}
	pre := s.lab.Copy()
	safeInc(e, s.lab, times, "lab")
	s.checkIncrement(pre, s.lab, times, "lab")
	s.checkRange(s.lab, times, "lab")
}

// checkRange: priorities never leave the window the specification's scaling step maintains:
// after scaling and centring every priority is within 2P of zero and each election moves a
// priority by less than P.
func (s *sim) checkRange(vs *types.ValidatorSet, times int, ctx string) {
	p := vs.TotalVotingPower()
	for _, v := range vs.Validators {
		a := v.ProposerPriority
		if a < 0 {
			a = -a
		}
		if a < 0 || a/p > int64(2+times) {
			s.env.Fail("C08", "priority-out-of-range", "%s: priority %d of %X with total power %d after %d election(s)", ctx, v.ProposerPriority, v.Address, p, times)
		}
	}
}

func (s *sim) labFair(n int) {
	e := s.env
	if !e.Checking("C08") {
		return
	}
	counts := map[string]int64{}
	start := s.lab.Copy()
	for i := 0; i < n; i++ {
		pre := s.lab.Copy()
		safeInc(e, s.lab, 1, "lab")
		s.checkIncrement(pre, s.lab, 1, fmt.Sprintf("lab election %d of %d", i+1, n))
		counts[string(s.lab.Proposer.Address)]++
	}
	// fairness: with the priorities confined to a window of 2P around zero, the number of
	// turns of v in N elections differs from N*VP(v)/P by at most 4 (plus centring rounding)
	P := start.TotalVotingPower()
	for _, v := range start.Validators {
		c := counts[string(v.Address)]
		// |c*P - n*VP| <= 4P + 2, in 128-bit safe arithmetic via big
		lhs := bigMulSub(c, P, int64(n), v.VotingPower)
		if lhs.CmpAbs(bigMulAdd(4, P, 2)) > 0 {
			e.Fail("C08", "unfair-rotation", "validator %X (power %d of %d) proposed %d times in %d elections from %s", v.Address, v.VotingPower, P, c, n, setString(start))
		}
	}
	e.Count("probe.lab_fair_window")
}

// ---------------------------------------------------------------- end

func (s *sim) Finish() {
	// clean restart at the end: everything saved is there
	s.restart(s.live.image(-1, -1, -1), "final restart")
	if s.env.Checking("C08") {
		s.labFair(20)
	}
}

func (s *sim) Close() {
	s.live.stop()
	if s.kc != nil {
		s.kc.Stop()
	}
}
