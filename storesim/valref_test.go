package storesim

// Reference model of the validator set (C08), written from the property text and from
// /repo/spec/consensus/proposer-selection.md. All arithmetic is done on unbounded integers, so
// any clipping / overflow in the real code shows up as a difference.
//
// Reading of the spec where it leaves a choice (documented in the harness assumptions):
//   - "A(i) = A(i)/scale" and "-1.125 * P" use integer arithmetic ("current computation uses
//     integer division"): quotient truncated towards zero, 1.125*P = P + P/8;
//   - "scale = diff/threshold" must achieve the stated observation "the maximum distance between
//     priorities becomes 2 * P", hence scale = ceil(diff/threshold);
//   - the rounding of avg in the centring step is not fixed by the text (the worked example
//     truncates): real and reference priorities may therefore differ by one uniform shift of at
//     most 1; comparisons are made modulo such a shift;
//   - ties for the highest priority go to the lowest address (types/validator.go doc: "Returns
//     the one with higher ProposerPriority", address as tie breaker);
//   - for a batch that both removes and adds, "P, the total voting power of the set including V"
//     is taken before the removals of the batch take effect (UpdateWithChangeSet doc comment).

import (
	"bytes"
	"fmt"
	"math/big"
	"sort"

	"github.com/tendermint/tendermint/types"
)

type rv struct {
	addr  []byte
	power *big.Int
	prio  *big.Int
}

type refSet struct {
	vals     []rv // canonical order: power descending, then address ascending
	proposer []byte
}

type change struct {
	addr  []byte
	power int64
}

func (c change) String() string { return fmt.Sprintf("%X:%d", c.addr[:3], c.power) }

func refFromReal(vs *types.ValidatorSet) refSet {
	r := refSet{}
	for _, v := range vs.Validators {
		r.vals = append(r.vals, rv{addr: append([]byte{}, v.Address...), power: big.NewInt(v.VotingPower), prio: big.NewInt(v.ProposerPriority)})
	}
	if vs.Proposer != nil {
		r.proposer = append([]byte{}, vs.Proposer.Address...)
	}
	return r
}

func (r refSet) copy() refSet {
	c := refSet{proposer: r.proposer}
	for _, v := range r.vals {
		c.vals = append(c.vals, rv{addr: v.addr, power: new(big.Int).Set(v.power), prio: new(big.Int).Set(v.prio)})
	}
	return c
}

func (r refSet) total() *big.Int {
	t := new(big.Int)
	for _, v := range r.vals {
		t.Add(t, v.power)
	}
	return t
}

func canonicalSort(vals []rv) {
	sort.SliceStable(vals, func(i, j int) bool {
		if c := vals[i].power.Cmp(vals[j].power); c != 0 {
			return c > 0
		}
		return bytes.Compare(vals[i].addr, vals[j].addr) < 0
	})
}

// refScaleCentre: the first two steps of the spec's ProposerSelection.
func refScaleCentre(vals []rv) {
	if len(vals) == 0 {
		return
	}
	p := new(big.Int)
	for _, v := range vals {
		p.Add(p, v.power)
	}
	max, min := new(big.Int).Set(vals[0].prio), new(big.Int).Set(vals[0].prio)
	for _, v := range vals {
		if v.prio.Cmp(max) > 0 {
			max.Set(v.prio)
		}
		if v.prio.Cmp(min) < 0 {
			min.Set(v.prio)
		}
	}
	diff := new(big.Int).Sub(max, min)
	threshold := new(big.Int).Mul(big.NewInt(2), p)
	if threshold.Sign() > 0 && diff.Cmp(threshold) > 0 {
		// scale = ceil(diff/threshold)
		scale := new(big.Int).Add(diff, threshold)
		scale.Sub(scale, big.NewInt(1))
		scale.Quo(scale, threshold)
		for i := range vals {
			vals[i].prio.Quo(vals[i].prio, scale) // truncated
		}
	}
	sum := new(big.Int)
	for _, v := range vals {
		sum.Add(sum, v.prio)
	}
	avg := new(big.Int).Quo(sum, big.NewInt(int64(len(vals))))
	for i := range vals {
		vals[i].prio.Sub(vals[i].prio, avg)
	}
}

// refIncrement runs the spec's ProposerSelection: scale and centre once, then `times` rounds
// of "add power, elect the highest priority, move it back by the total". It returns the new
// set and the proposer of every round.
//
// The specification defines one run of ProposerSelection (scale, centre, elect) and says the
// procedure "runs with the same validator set at each round": refIncrement performs `times`
// complete runs. refIncrementScaleOnce (scale and centre only before the first election) exists
// only to classify a difference.
func refIncrement(r refSet, times int) (refSet, [][]byte) {
	return refInc(r, times, true)
}

func refIncrementScaleOnce(r refSet, times int) (refSet, [][]byte) {
	return refInc(r, times, false)
}

func bigMulSub(a, b, c, d int64) *big.Int {
	x := new(big.Int).Mul(big.NewInt(a), big.NewInt(b))
	return x.Sub(x, new(big.Int).Mul(big.NewInt(c), big.NewInt(d)))
}

func bigMulAdd(a, b, c int64) *big.Int {
	x := new(big.Int).Mul(big.NewInt(a), big.NewInt(b))
	return x.Add(x, big.NewInt(c))
}

func refInc(r refSet, times int, everyRun bool) (refSet, [][]byte) {
	out := r.copy()
	refScaleCentre(out.vals)
	p := out.total()
	var props [][]byte
	for t := 0; t < times; t++ {
		if everyRun && t > 0 {
			refScaleCentre(out.vals)
		}
		for i := range out.vals {
			out.vals[i].prio.Add(out.vals[i].prio, out.vals[i].power)
		}
		best := 0
		for i := 1; i < len(out.vals); i++ {
			c := out.vals[i].prio.Cmp(out.vals[best].prio)
			if c > 0 || (c == 0 && bytes.Compare(out.vals[i].addr, out.vals[best].addr) < 0) {
				best = i
			}
		}
		out.vals[best].prio.Sub(out.vals[best].prio, p)
		out.proposer = out.vals[best].addr
		props = append(props, out.vals[best].addr)
	}
	return out, props
}

// refUpdate applies one batch of changes, all or nothing. The batch is treated as a map from
// address to power, so the result cannot depend on its order.
func refUpdate(r refSet, batch []change, maxTotal int64) (refSet, error) {
	if len(batch) == 0 {
		return r.copy(), nil
	}
	want := map[string]int64{}
	for _, c := range batch {
		if _, dup := want[string(c.addr)]; dup {
			return r, fmt.Errorf("duplicate address %X", c.addr)
		}
		if c.power < 0 {
			return r, fmt.Errorf("negative power %d", c.power)
		}
		want[string(c.addr)] = c.power
	}
	cur := map[string]rv{}
	for _, v := range r.vals {
		cur[string(v.addr)] = v
	}
	// totals: before removals (T) and final (P)
	T := new(big.Int)
	P := new(big.Int)
	for a, v := range cur {
		np, changed := want[a]
		switch {
		case !changed:
			T.Add(T, v.power)
			P.Add(P, v.power)
		case np == 0:
			T.Add(T, v.power) // still a member while the new-validator priorities are computed
		default:
			T.Add(T, big.NewInt(np))
			P.Add(P, big.NewInt(np))
		}
	}
	for a, np := range want {
		if _, known := cur[a]; known {
			continue
		}
		if np == 0 {
			return r, fmt.Errorf("removal of unknown validator %X", []byte(a))
		}
		T.Add(T, big.NewInt(np))
		P.Add(P, big.NewInt(np))
	}
	if P.Cmp(big.NewInt(maxTotal)) > 0 {
		return r, fmt.Errorf("total power %v exceeds the limit", P)
	}
	out := refSet{proposer: r.proposer}
	for a, v := range cur {
		np, changed := want[a]
		if changed && np == 0 {
			continue
		}
		nv := rv{addr: v.addr, power: new(big.Int).Set(v.power), prio: new(big.Int).Set(v.prio)}
		if changed {
			nv.power = big.NewInt(np)
		}
		out.vals = append(out.vals, nv)
	}
	penalty := new(big.Int).Quo(T, big.NewInt(8))
	penalty.Add(penalty, T)
	penalty.Neg(penalty)
	for a, np := range want {
		if _, known := cur[a]; known {
			continue
		}
		out.vals = append(out.vals, rv{addr: []byte(a), power: big.NewInt(np), prio: new(big.Int).Set(penalty)})
	}
	if len(out.vals) == 0 {
		return r, fmt.Errorf("empty set")
	}
	canonicalSort(out.vals) // also makes the map iteration order irrelevant
	refScaleCentre(out.vals)
	return out, nil
}

// cmpRefReal compares members, powers, canonical order and (modulo one uniform shift of at
// most 1) priorities; optionally the proposer.
func cmpRefReal(ref refSet, real *types.ValidatorSet, proposer bool) string {
	if len(ref.vals) != len(real.Validators) {
		return fmt.Sprintf("size: reference %d, real %d", len(ref.vals), len(real.Validators))
	}
	var shift *big.Int
	for i, v := range real.Validators {
		w := ref.vals[i]
		if !bytes.Equal(v.Address, w.addr) {
			return fmt.Sprintf("position %d: reference %X, real %X (powers %v / %d)", i, w.addr, v.Address, w.power, v.VotingPower)
		}
		if w.power.Cmp(big.NewInt(v.VotingPower)) != 0 {
			return fmt.Sprintf("power of %X: reference %v, real %d", w.addr, w.power, v.VotingPower)
		}
		d := new(big.Int).Sub(big.NewInt(v.ProposerPriority), w.prio)
		if shift == nil {
			shift = d
			if d.CmpAbs(big.NewInt(1)) > 0 {
				return fmt.Sprintf("priority of %X: reference %v, real %d (more than a centring rounding apart)", w.addr, w.prio, v.ProposerPriority)
			}
		} else if d.Cmp(shift) != 0 {
			return fmt.Sprintf("priority of %X: reference %v, real %d (shift %v differs from %v of the first member)", w.addr, w.prio, v.ProposerPriority, d, shift)
		}
	}
	if proposer {
		if real.Proposer == nil || !bytes.Equal(real.Proposer.Address, ref.proposer) {
			var got []byte
			if real.Proposer != nil {
				got = real.Proposer.Address
			}
			return fmt.Sprintf("proposer: reference %X, real %X", ref.proposer, got)
		}
	}
	return ""
}

// setInvariants checks the property's well-formedness clause on a real set.
func setInvariants(vs *types.ValidatorSet, maxTotal int64) string {
	if len(vs.Validators) == 0 {
		return "set is empty"
	}
	seen := map[string]bool{}
	tot := new(big.Int)
	for i, v := range vs.Validators {
		if seen[string(v.Address)] {
			return fmt.Sprintf("address %X occurs twice", v.Address)
		}
		seen[string(v.Address)] = true
		if v.VotingPower <= 0 {
			return fmt.Sprintf("member %X has power %d", v.Address, v.VotingPower)
		}
		if v.PubKey == nil || !bytes.Equal(v.PubKey.Address(), v.Address) {
			return fmt.Sprintf("member %X: address does not belong to its public key", v.Address)
		}
		tot.Add(tot, big.NewInt(v.VotingPower))
		if i > 0 {
			u := vs.Validators[i-1]
			if u.VotingPower < v.VotingPower || (u.VotingPower == v.VotingPower && bytes.Compare(u.Address, v.Address) >= 0) {
				return fmt.Sprintf("not in canonical order at position %d", i)
			}
		}
	}
	if tot.Cmp(big.NewInt(maxTotal)) > 0 {
		return fmt.Sprintf("total power %v above the limit", tot)
	}
	return ""
}

// equalSets: exact equality of two real sets (members, order, powers, priorities, proposer).
func equalSets(a, b *types.ValidatorSet) string {
	if a == nil || b == nil {
		return "nil set"
	}
	if len(a.Validators) != len(b.Validators) {
		return fmt.Sprintf("size %d vs %d", len(a.Validators), len(b.Validators))
	}
	for i := range a.Validators {
		x, y := a.Validators[i], b.Validators[i]
		if !bytes.Equal(x.Address, y.Address) || x.VotingPower != y.VotingPower || x.ProposerPriority != y.ProposerPriority || !x.PubKey.Equals(y.PubKey) {
			return fmt.Sprintf("member %d: %X power %d priority %d  vs  %X power %d priority %d", i, x.Address, x.VotingPower, x.ProposerPriority, y.Address, y.VotingPower, y.ProposerPriority)
		}
	}
	switch {
	case a.Proposer == nil && b.Proposer == nil:
	case a.Proposer == nil || b.Proposer == nil:
		return "proposer set on one side only"
	case !bytes.Equal(a.Proposer.Address, b.Proposer.Address):
		return fmt.Sprintf("proposer %X vs %X", a.Proposer.Address, b.Proposer.Address)
	case a.Proposer.VotingPower != b.Proposer.VotingPower || a.Proposer.ProposerPriority != b.Proposer.ProposerPriority:
		return fmt.Sprintf("proposer %X: power %d priority %d vs power %d priority %d", a.Proposer.Address, a.Proposer.VotingPower, a.Proposer.ProposerPriority, b.Proposer.VotingPower, b.Proposer.ProposerPriority)
	}
	return ""
}

func setString(vs *types.ValidatorSet) string {
	if vs == nil {
		return "<nil>"
	}
	s := ""
	for _, v := range vs.Validators {
		s += fmt.Sprintf("%X:%d/%d ", v.Address[:3], v.VotingPower, v.ProposerPriority)
	}
	if vs.Proposer != nil {
		s += fmt.Sprintf("prop=%X", vs.Proposer.Address[:3])
	}
	return s
}
