// Package secconnsim: deterministic simulation of the real p2p/conn SecretConnection
// (MakeSecretConnection handshake, Write, Read) between two endpoints whose byte pipe is
// owned by a simulated man in the middle. Decides C16.
//
// Topologies (drawn per run):
//
//	relay:  A <-> [MITM queue] <-> B        both ends real; the MITM edits what is in flight
//	evil:   A <-> E_A     E_B <-> B         each real end talks to a harness-side protocol
//	                                        implementation that chooses its own ephemeral key,
//	                                        identity, signature and frames (active attacker)
//
// Ephemeral keys of the real ends come from crypto/rand (no seam): the event log contains unit
// numbers, lengths and booleans only, never key or ciphertext values.
package secconnsim

import (
	"bytes"
	"crypto/cipher"
	"crypto/sha256"
	"encoding/binary"
	"errors"
	"fmt"
	"io"
	"net"
	"os"
	"runtime"
	"strings"
	"sync"
	"testing"
	"time"

	gogotypes "github.com/gogo/protobuf/types"
	"github.com/gtank/merlin"
	"golang.org/x/crypto/chacha20poly1305"
	"golang.org/x/crypto/curve25519"
	"golang.org/x/crypto/hkdf"

	"github.com/tendermint/tendermint/crypto"
	"github.com/tendermint/tendermint/crypto/ed25519"
	cryptoenc "github.com/tendermint/tendermint/crypto/encoding"
	"github.com/tendermint/tendermint/crypto/secp256k1"
	"github.com/tendermint/tendermint/libs/protoio"
	"github.com/tendermint/tendermint/p2p"
	"github.com/tendermint/tendermint/p2p/conn"
	tmp2p "github.com/tendermint/tendermint/proto/tendermint/p2p"

	"verif/simcore"
)

func TestMain(m *testing.M) {
	simcore.InitProcess()
	os.Exit(m.Run())
}

func TestSim(t *testing.T) { simcore.Main(t, harness) }

var harness = &simcore.Harness{
	Name:   "secconnsim",
	Props:  []string{"C16"},
	Config: genConfig,
	New:    newSim,
	MaxOps: 1200,
	Real: []string{"p2p/conn.MakeSecretConnection (ephemeral exchange, key derivation, challenge signature and verification) on both ends",
		"p2p/conn.SecretConnection.Write / Read / Close / RemotePubKey (framing, AEAD sealing/opening, nonce counters, receive buffer)",
		"crypto/ed25519 signing and verification, crypto/encoding, libs/protoio, libs/async",
		"mode upgrade: p2p.MultiplexTransport.upgrade on both ends (secret-connection handshake with timeout, NodeInfo exchange, dialled-id / self-reported-id / Validate / self / CompatibleWith checks, cleanup)"},
	Stub: []string{"the network: a simulated full-duplex pipe whose four half-streams are advanced by the simulator (delivery sizes, order, back-pressure window in frames)",
		"the adversary: a man in the middle editing units in flight (relay topology) or a harness-side implementation of the handshake and frame format written from spec/p2p/peer.md with its own ephemeral keys and identity (evil topology)",
		"p2p.MultiplexTransport's listener / dialer / connection filters: upgrade() is entered through hook H6 (VerifUpgrade) on a simulated net.Conn whose deadlines run on the fake clock"},
	Assumptions: []string{"the adversary cannot break X25519, ed25519, HKDF-SHA256 or ChaCha20-Poly1305 and does not know the long-term private keys of A and B",
		"wire format: first unit is a varint-delimited 32-byte ephemeral key, afterwards sealed frames of 1028+16 bytes carrying at most 1024 plaintext bytes each; one Write of n bytes produces ceil(n/1024) frames",
		"ephemeral keys of the real ends are drawn from crypto/rand; runs are replay-exact at the level of units, offsets and lengths, not of ciphertext values"},
}

const (
	frameSize = 1028 + 16 // sealed frame on the wire
	chunkMax  = 1024      // plaintext bytes per frame
	lenField  = 4
)

// low-order points of curve25519 (public list, e.g. https://cr.yp.to/ecdh.html#validate)
var lowOrder = [][]byte{
	mustHex("0000000000000000000000000000000000000000000000000000000000000000"),
	mustHex("0100000000000000000000000000000000000000000000000000000000000000"),
	mustHex("e0eb7a7c3b41b8ae1656e3faf19fc46ada098deb9c32b1fd866205165f49b800"),
	mustHex("5f9c95bca3508c24b1d0b1559c83ef5b04445cc4581c8e86d8224eddd09f1157"),
	mustHex("ecffffffffffffffffffffffffffffffffffffffffffffffffffffffffffff7f"),
	mustHex("edffffffffffffffffffffffffffffffffffffffffffffffffffffffffffff7f"),
	mustHex("eeffffffffffffffffffffffffffffffffffffffffffffffffffffffffffff7f"),
}

func mustHex(s string) []byte {
	b := make([]byte, len(s)/2)
	for i := range b {
		fmt.Sscanf(s[2*i:2*i+2], "%02x", &b[i])
	}
	return b
}

// ---------------------------------------------------------------- configuration

var tamperKinds = []string{"flip", "drop", "dup", "swap", "replay", "inject", "xinj", "trunc"}

func genConfig(rng *simcore.RNG, env *simcore.Env) simcore.Op {
	c := simcore.Op{}
	hs := []string{"none", "eph", "auth", "hsany", "splice", "replay_auth", "id_swap", "low_order", "reflect_self"}
	c["hs"] = hs[rng.Weighted([]int{52, 7, 7, 4, 10, 5, 7, 6, 2})]
	c["var"] = rng.Intn(1 << 16)
	c["maxq"] = []int{0, 0, 1, 2, 4}[rng.Intn(5)]
	c["fill"] = []string{"rand", "uniform", "mixed"}[rng.Intn(3)]
	c["nops"] = rng.Range(20, 160)
	if env.Thorough() {
		c["nops"] = rng.Range(20, 400)
	}
	c["long"] = rng.Bool(0.08)
	if c["long"].(bool) {
		c["fill"] = "uniform"
		c["maxq"] = 0
		c["nops"] = rng.Range(150, 320)
	}
	var tk []string
	if rng.Bool(0.6) && !c["long"].(bool) {
		for _, k := range tamperKinds {
			if rng.Bool(0.4) {
				tk = append(tk, k)
			}
		}
	}
	c["tamper"] = tk
	c["tamper_pm"] = []int{30, 80, 200}[rng.Intn(3)] // per mille of data-phase ops
	c["close"] = rng.Bool(0.2)
	c["wfail"] = rng.Bool(0.35) // the underlying conn.Write fails after k bytes of a sealed frame, the application writes on
	// transport-level family: MultiplexTransport.upgrade on both ends
	c["mode"] = "sc"
	if rng.Bool(0.22) {
		c["mode"] = "upgrade"
		up := []string{"honest", "wrong_dial", "nodeinfo_id", "incompat", "invalid", "self", "reflect", "relay_mitm", "timeout"}[rng.Weighted([]int{22, 12, 14, 10, 12, 8, 8, 16, 6})]
		c["up"] = up
		c["hs"] = "none"
		c["long"] = false
		switch up {
		case "nodeinfo_id":
			c["hs"] = "splice"
		case "reflect":
			c["hs"] = "reflect_self"
		case "relay_mitm":
			c["hs"] = []string{"eph", "auth", "hsany", "ninfo"}[rng.Intn(4)]
		}
		c["dial"] = rng.Bool(0.7) // side 0 passes a dialled address
		c["nops"] = rng.Range(20, 80)
	}
	c["keyA"] = rng.Intn(1 << 30)
	c["keyB"] = rng.Intn(1 << 30)
	c["keyM"] = rng.Intn(1 << 30)
	return c
}

// ---------------------------------------------------------------- pipe

type req struct {
	buf  []byte
	n    int
	err  error
	done chan struct{}
}

// end is the io.ReadWriteCloser handed to a real endpoint. Blocked calls park on a channel
// that only the simulator closes; the mutex is never held while parked.
type end struct {
	s      *sim
	id     int
	avail  []byte
	eof    bool // FIN delivered: Read returns io.EOF once avail is drained
	rst    bool // peer gone: Write fails
	closed bool // closed locally
	rreq   *req
	wreq   *req
	rTotal int64 // bytes handed to Read calls
	// writer-side unit parser
	pend    []byte
	unitIdx int
	// armed write fault: after failSkip more frames the next conn.Write of the data phase puts
	// failK bytes of the sealed frame on the wire and returns os.ErrDeadlineExceeded
	failArmed bool
	failSkip  int
	failK     int
	// deadline on the bubble's fake clock (mode upgrade)
	dlTimer  *time.Timer
	dlGen    int
	timedOut bool
}

type timeoutErr struct{}

func (timeoutErr) Error() string   { return "simpipe: i/o timeout" }
func (timeoutErr) Timeout() bool   { return true }
func (timeoutErr) Temporary() bool { return true }

var errTimeout error = timeoutErr{}

func (e *end) LocalAddr() net.Addr  { return &net.TCPAddr{IP: net.IPv4(127, 0, 0, 1), Port: 26000 + e.id} }
func (e *end) RemoteAddr() net.Addr { return &net.TCPAddr{IP: net.IPv4(127, 0, 0, 1), Port: 26001 - e.id} }

// SetDeadline: a zero time clears it. When the deadline passes (fake clock) parked and later
// calls fail with a timeout. The two ends never time out at the same fake instant.
func (e *end) SetDeadline(t time.Time) error {
	s := e.s
	s.mu.Lock()
	defer s.mu.Unlock()
	if e.closed {
		return errClosed
	}
	e.dlGen++
	gen := e.dlGen
	if e.dlTimer != nil {
		e.dlTimer.Stop()
		e.dlTimer = nil
	}
	e.timedOut = false
	if t.IsZero() {
		return nil
	}
	d := time.Until(t) + time.Duration(5*e.id+1)
	e.dlTimer = time.AfterFunc(d, func() {
		s.mu.Lock()
		defer s.mu.Unlock()
		if e.dlGen != gen || e.closed {
			return
		}
		e.timedOut = true
		s.env.Count("fault.deadline_fired")
		if e.rreq != nil {
			e.rreq.err = errTimeout
			close(e.rreq.done)
			e.rreq = nil
		}
		if e.wreq != nil {
			e.wreq.err = errTimeout
			close(e.wreq.done)
			e.wreq = nil
		}
	})
	return nil
}
func (e *end) SetReadDeadline(t time.Time) error  { return e.SetDeadline(t) }
func (e *end) SetWriteDeadline(t time.Time) error { return e.SetDeadline(t) }

var errClosed = errors.New("simpipe: closed")
var errReset = errors.New("simpipe: connection reset by peer")

func (e *end) Read(p []byte) (int, error) {
	s := e.s
	s.mu.Lock()
	if e.closed {
		s.mu.Unlock()
		return 0, errClosed
	}
	if len(p) == 0 {
		s.mu.Unlock()
		return 0, nil
	}
	if e.timedOut {
		s.mu.Unlock()
		return 0, errTimeout
	}
	if len(e.avail) > 0 {
		n := copy(p, e.avail)
		e.avail = e.avail[n:]
		e.rTotal += int64(n)
		s.mu.Unlock()
		return n, nil
	}
	if e.eof {
		s.mu.Unlock()
		return 0, io.EOF
	}
	r := &req{buf: p, done: make(chan struct{})}
	e.rreq = r
	s.mu.Unlock()
	<-r.done
	return r.n, r.err
}

func (e *end) Write(p []byte) (int, error) {
	s := e.s
	s.mu.Lock()
	if e.closed {
		s.mu.Unlock()
		return 0, errClosed
	}
	if e.rst {
		s.mu.Unlock()
		return 0, errReset
	}
	if e.timedOut {
		s.mu.Unlock()
		return 0, errTimeout
	}
	if e.failArmed && e.unitIdx >= 2 && len(e.pend) == 0 && len(p) > 0 {
		if e.failSkip > 0 {
			e.failSkip--
		} else {
			e.failArmed = false
			k := e.failK % len(p)
			if k > len(p)-8 && len(p) > 8 {
				// with all but the last few tag bytes out, whatever follows on the wire completes
				// the frame with probability 256^-missing: not reproducible
				k = len(p) - 8
			}
			s.partialWrite(e, p[:k])
			s.mu.Unlock()
			return k, os.ErrDeadlineExceeded
		}
	}
	if s.canAccept(e) {
		s.sink(e, p)
		s.mu.Unlock()
		return len(p), nil
	}
	r := &req{buf: append([]byte{}, p...), done: make(chan struct{})}
	e.wreq = r
	s.mu.Unlock()
	<-r.done
	return r.n, r.err
}

func (e *end) Close() error {
	s := e.s
	s.mu.Lock()
	defer s.mu.Unlock()
	if e.closed {
		return nil
	}
	e.closed = true
	if e.dlTimer != nil {
		e.dlTimer.Stop()
		e.dlTimer = nil
	}
	if e.rreq != nil {
		e.rreq.err = errClosed
		close(e.rreq.done)
		e.rreq = nil
	}
	if e.wreq != nil {
		e.wreq.err = errClosed
		close(e.wreq.done)
		e.wreq = nil
	}
	s.closedNow = append(s.closedNow, e.id)
	return nil
}

// ---------------------------------------------------------------- simulator state

type qent struct {
	b    []byte
	orig int // index of the genuine unit (of this stream) the bytes are identical to; -1 otherwise
	fin  bool
	off  int
}

type lay struct {
	n    int
	orig int
}

type readRes struct {
	want   int
	n      int
	err    error
	data   []byte
	rTotal int64
	panicv string
}

// stream is everything that flows towards reader r.
type stream struct {
	q         []*qent
	layout    []lay
	hist      []*qent // fully delivered entries (bounded)
	plain     []byte  // plaintext written into the stream after the handshake
	chunks    []int   // plaintext size of genuine data frame i (unit i+2)
	gen       int     // genuine units emitted so far
	sentPlain int     // plaintext bytes covered by emitted genuine frames
	exp       int     // next genuine unit the reader can accept
	rFrames   int     // frames consumed by the reader so far
	accepted  int     // plaintext bytes of accepted frames (reference model)
	got       int     // plaintext bytes returned by Read so far
	errSeen   bool
	tampered  bool
	finQueued bool
	eofDeliv  bool
	cut       bool // the MITM cut the stream: later writes vanish
	wbroken   bool // a conn.Write of the writer failed mid-frame: nothing behind it can be accepted any more
	ignore    bool // ... and nothing of that frame reached the wire: the reader is not judged any more (see partialWrite)
	ctSeen    map[[32]byte]int
	ksSeen    map[[16]byte]int
}

type actor struct {
	cmd  chan func()
	busy bool
}

func (s *sim) newActor() *actor {
	a := &actor{cmd: make(chan func())}
	go func() {
		for f := range a.cmd {
			f()
			s.mu.Lock()
			a.busy = false
			s.mu.Unlock()
		}
	}()
	return a
}

type side struct {
	priv    ed25519.PrivKey
	end     *end
	sc      *conn.SecretConnection
	hsDone  bool
	hsErr   error
	hsPanic string
	hsSeen  bool // driver has processed the completion
	w, r    *actor
	wIssued int // plaintext bytes handed to Write so far
	wDone   int // plaintext bytes of completed Write calls
	wErr    bool
	results []readRes
	closedH bool       // harness closed this side
	sent    [][]byte   // units written by this side (bounded), for reflection
	out     []byte     // plaintext written by this side (evil topology: checked by the evil endpoint)
	outCh   []int      // chunk model for out
	evil    *evilEnd   // evil topology: the attacker this side talks to
	wq       [][]byte // known plaintext prefix (4-byte length || chunk) of the data frames this side is about to seal, in order
	injected bool     // the current Write call hit an injected conn.Write failure
	// mode upgrade
	mt     *p2p.MultiplexTransport
	info   p2p.DefaultNodeInfo // what this side's transport reports about itself
	dialed *p2p.NetAddress
	upNI   p2p.NodeInfo
}

type sim struct {
	env  *simcore.Env
	cfg  simcore.Op
	mu   sync.Mutex
	sd   [2]*side
	st   [2]*stream // st[r]: stream towards reader r
	privM ed25519.PrivKey
	evilTopo bool
	maxq int

	closedNow []int
	hsChecked bool
	hsOK      bool
	opsLeft   int
	hsOpDone  bool
	dead      bool
	tamperSet map[string]bool
	notes     int
	wfails    int
	wire      map[[32]byte]int // wire observer: first 32 key-stream bytes of every frame (whole or partial) seen so far
	wireN     int
	upgrade   bool
	up        string
	slept     time.Duration // mode upgrade: fake time the simulator let pass
}

func isEvil(hs string) bool {
	switch hs {
	case "splice", "replay_auth", "id_swap", "low_order", "reflect_self":
		return true
	}
	return false
}

func keyFrom(tag string, n int) ed25519.PrivKey {
	return ed25519.GenPrivKeyFromSecret([]byte(fmt.Sprintf("secconnsim-%s-%d", tag, n)))
}

func newSim(env *simcore.Env, cfg simcore.Op) simcore.Sim {
	s := &sim{env: env, cfg: cfg, opsLeft: cfg.Int("nops"), maxq: cfg.Int("maxq"), tamperSet: map[string]bool{}}
	for _, k := range cfg.Strs("tamper") {
		s.tamperSet[k] = true
	}
	s.evilTopo = isEvil(cfg.Str("hs"))
	s.privM = keyFrom("M", cfg.Int("keyM"))
	ct, ks := map[[32]byte]int{}, map[[16]byte]int{}
	s.wire = map[[32]byte]int{}
	for i := 0; i < 2; i++ {
		s.st[i] = &stream{ctSeen: ct, ksSeen: ks} // shared: no two frames of a session, in either direction, may share key and nonce
	}
	for i := 0; i < 2; i++ {
		sd := &side{priv: keyFrom([]string{"A", "B"}[i], cfg.Int([]string{"keyA", "keyB"}[i]))}
		sd.end = &end{s: s, id: i}
		s.sd[i] = sd
	}
	s.upgrade = cfg.Str("mode") == "upgrade"
	s.up = cfg.Str("up")
	if s.upgrade {
		s.setupUpgrade()
	}
	if s.evilTopo {
		for i := 0; i < 2; i++ {
			s.sd[i].evil = newEvil(s, i)
		}
	}
	for i := 0; i < 2; i++ {
		sd := s.sd[i]
		if s.upgrade {
			go func() {
				var sc *conn.SecretConnection
				var ni p2p.NodeInfo
				var err error
				var pv string
				func() {
					defer func() {
						if r := recover(); r != nil {
							pv = fmt.Sprint(r)
						}
					}()
					sc, ni, err = sd.mt.VerifUpgrade(sd.end, sd.dialed)
				}()
				s.mu.Lock()
				sd.sc, sd.upNI, sd.hsErr, sd.hsPanic, sd.hsDone = sc, ni, err, pv, true
				s.mu.Unlock()
			}()
			env.Settle()
			// the two handshake deadlines are set at different fake instants
			time.Sleep(time.Millisecond + 3)
			env.Settle()
			continue
		}
		go func() {
			var sc *conn.SecretConnection
			var err error
			var pv string
			func() {
				defer func() {
					if r := recover(); r != nil {
						pv = fmt.Sprint(r)
					}
				}()
				sc, err = conn.MakeSecretConnection(sd.end, sd.priv)
			}()
			s.mu.Lock()
			sd.sc, sd.hsErr, sd.hsPanic, sd.hsDone = sc, err, pv, true
			s.mu.Unlock()
		}()
		// one stimulus at a time: the second endpoint starts after the first has settled
		env.Settle()
	}
	s.after()
	return s
}

// ---------------------------------------------------------------- writer side: units

// canAccept: back-pressure window in units (0 = unbounded). Caller holds mu.
func (s *sim) canAccept(e *end) bool {
	if s.evilTopo || s.maxq == 0 {
		return true
	}
	st := s.st[1-e.id]
	if st.cut {
		return true
	}
	n := 0
	for _, q := range st.q {
		if !q.fin {
			n++
		}
	}
	return n < s.maxq
}

// sink parses what end e wrote into units. Caller holds mu.
func (s *sim) sink(e *end, p []byte) {
	e.pend = append(e.pend, p...)
	for {
		var n int
		if e.unitIdx == 0 {
			l, k := binary.Uvarint(e.pend)
			if k <= 0 || l > 1<<20 || len(e.pend) < k+int(l) {
				return
			}
			n = k + int(l)
		} else {
			if len(e.pend) < frameSize {
				return
			}
			n = frameSize
		}
		u := append([]byte{}, e.pend[:n]...)
		e.pend = e.pend[n:]
		s.onUnit(e.id, e.unitIdx, u)
		e.unitIdx++
	}
}

// onUnit: side w emitted its unit idx. Caller holds mu.
func (s *sim) onUnit(w, idx int, u []byte) {
	sd := s.sd[w]
	if len(sd.sent) < 8 {
		sd.sent = append(sd.sent, u)
	}
	if idx >= 2 && len(sd.wq) > 0 {
		s.wireWatch(w, u, sd.wq[0])
		sd.wq = sd.wq[1:]
	}
	if s.evilTopo {
		sd.evil.inbox = append(sd.evil.inbox, u)
		return
	}
	st := s.st[1-w]
	if st.wbroken {
		// behind a frame that was lost mid-write: cannot be accepted by the reader any more
		st.gen = idx + 1
		if !st.cut && !st.finQueued {
			st.q = append(st.q, &qent{b: u, orig: -1})
		}
		return
	}
	s.nonceWatch(st, &st.plain, st.chunks, idx, u)
	st.gen = idx + 1
	if st.cut || st.finQueued {
		return
	}
	st.q = append(st.q, &qent{b: u, orig: idx})
}

// partialWrite: an armed write fault fired. k = len(part) bytes of the sealed frame reached the
// wire (the man in the middle, like any wire observer, has them), the writer's conn.Write
// returns an error. Caller holds mu.
func (s *sim) partialWrite(e *end, part []byte) {
	sd := s.sd[e.id]
	sd.injected = true
	s.env.Count("fault.write_error_mid_frame")
	if len(sd.wq) > 0 {
		s.wireWatch(e.id, part, sd.wq[0])
		sd.wq = sd.wq[1:]
	}
	if s.evilTopo {
		return
	}
	st := s.st[1-e.id]
	st.wbroken, st.tampered = true, true
	if len(part) == 0 {
		// Nothing of the frame left the writer. Whether the reader can go on (the writer re-used
		// the counter for the next frame) or not (it moved on) says nothing about C16: the lost
		// chunk was reported as not written. The reader of this direction is not judged further.
		st.ignore = true
		return
	}
	if !st.cut && !st.finQueued {
		st.q = append(st.q, &qent{b: append([]byte{}, part...), orig: -1})
	}
}

// wireWatch is the wire observer's test for key-stream reuse: for every pair of sealed frames
// (whole or partial) one session put on the wire, c1 xor c2 must not equal p1 xor p2 over the
// plaintext the observer could know (4-byte length || chunk; the padding is not known). Done
// with a table of the first 32 key-stream bytes c xor p of every frame.
func (s *sim) wireWatch(w int, ct, plain []byte) {
	n := len(ct)
	if len(plain) < n {
		n = len(plain)
	}
	s.wireN++
	if n < 32 || !s.env.Checking("C16") {
		return
	}
	var ks [32]byte
	for i := range ks {
		ks[i] = ct[i] ^ plain[i]
	}
	if prev, ok := s.wire[ks]; ok {
		s.env.Report("C16", "keystream-reuse", "wire frames #%d and #%d of this session (the later one written by side %d, %d bytes of it on the wire) satisfy c1 xor c2 == p1 xor p2 over at least 32 bytes: they were sealed with the same key and nonce, an observer who knows one plaintext reads the other", prev, s.wireN, w, len(ct))
	}
	s.wire[ks] = s.wireN
}

// nonceWatch: every sealed frame under one key must be distinct, and no two frames may be
// sealed with the same key stream (same nonce), whatever the plaintext.
func (s *sim) nonceWatch(st *stream, plain *[]byte, chunks []int, idx int, u []byte) {
	if idx < 1 || !s.env.Checking("C16") {
		return
	}
	h := sha256.Sum256(u)
	if prev, ok := st.ctSeen[h]; ok {
		s.env.Report("C16", "nonce-reuse", "sealed frames %d and %d of this session are byte-identical on the wire (same key, same nonce, same plaintext)", prev, idx)
	}
	st.ctSeen[h] = idx
	di := idx - 2
	if di < 0 || di >= len(chunks) {
		return
	}
	c := chunks[di]
	off := st.sentPlain
	st.sentPlain += c
	if c < 12 || off+c > len(*plain) {
		return
	}
	// first 16 key-stream bytes = ciphertext xor (4-byte little-endian length || plaintext)
	var ks [16]byte
	var hdr [16]byte
	binary.LittleEndian.PutUint32(hdr[:4], uint32(c))
	copy(hdr[4:], (*plain)[off:off+12])
	for i := range ks {
		ks[i] = u[i] ^ hdr[i]
	}
	if prev, ok := st.ksSeen[ks]; ok {
		s.env.Report("C16", "nonce-reuse", "data frames %d and %d of this session (either direction) were sealed with the same key stream (key and nonce used twice)", prev, idx)
	}
	st.ksSeen[ks] = idx
}

// pump lets a parked writer proceed when the window has room. Caller holds mu.
func (s *sim) pump() {
	for i := 0; i < 2; i++ {
		e := s.sd[i].end
		if e.wreq != nil && s.canAccept(e) {
			r := e.wreq
			e.wreq = nil
			s.sink(e, r.buf)
			r.n = len(r.buf)
			close(r.done)
		}
	}
}

// ---------------------------------------------------------------- evil endpoint

// evilEnd is the attacker's own implementation of the handshake and of the frame format,
// written from spec/p2p/peer.md (merlin transcript, HKDF-SHA256, ChaCha20-Poly1305 with a
// counter nonce). It runs synchronously on the driver goroutine.
type evilEnd struct {
	s        *sim
	r        int // the real side it talks to
	kind     string
	variant  int
	inbox    [][]byte
	nIn      int
	ephPriv  []byte
	ephPub   []byte
	dhZero   bool
	send     cipher.AEAD
	recv     cipher.AEAD
	sendCtr  uint64
	recvCtr  uint64
	chal     []byte
	gotEph   bool
	sentAuth bool
	gotAuth  bool
	remAuth  []byte // plaintext of the real side's auth message
	remPub   crypto.PubKey
	remSig   []byte
	honest   bool
	broken   bool
	eGot     int
	inPlain  []byte // mode upgrade: plaintext received after the handshake
	sentInfo bool
	sentNI   *p2p.DefaultNodeInfo
}

func newEvil(s *sim, r int) *evilEnd {
	e := &evilEnd{s: s, r: r, kind: s.cfg.Str("hs"), variant: s.cfg.Int("var")}
	rng := simcore.NewRNG(uint64(s.cfg.Int("keyM"))*2 + uint64(r) + 77)
	e.ephPriv = rng.Bytes(32)
	pub, err := curve25519.X25519(e.ephPriv, curve25519.Basepoint)
	if err != nil {
		panic(err)
	}
	e.ephPub = pub
	if e.kind == "low_order" {
		e.ephPub = lowOrder[e.variant%len(lowOrder)]
		e.dhZero = true
	}
	msg, err := protoio.MarshalDelimited(&gogotypes.BytesValue{Value: e.ephPub})
	if err != nil {
		panic(err)
	}
	st := s.st[r]
	st.q = append(st.q, &qent{b: msg, orig: 0})
	st.gen = 1
	return e
}

func nonceOf(ctr uint64) []byte {
	n := make([]byte, chacha20poly1305.NonceSize)
	binary.LittleEndian.PutUint64(n[4:], ctr)
	return n
}

func (e *evilEnd) derive(remEph []byte) {
	lo, hi := e.ephPub, remEph
	locIsLeast := true
	if bytes.Compare(lo, hi) > 0 {
		lo, hi = hi, lo
		locIsLeast = false
	}
	dh := make([]byte, 32)
	if !e.dhZero {
		d, err := curve25519.X25519(e.ephPriv, remEph)
		if err != nil {
			e.broken = true
			return
		}
		dh = d
	}
	tr := merlin.NewTranscript("TENDERMINT_SECRET_CONNECTION_TRANSCRIPT_HASH")
	tr.AppendMessage([]byte("EPHEMERAL_LOWER_PUBLIC_KEY"), lo)
	tr.AppendMessage([]byte("EPHEMERAL_UPPER_PUBLIC_KEY"), hi)
	tr.AppendMessage([]byte("DH_SECRET"), dh)
	kdf := hkdf.New(sha256.New, dh, nil, []byte("TENDERMINT_SECRET_CONNECTION_KEY_AND_CHALLENGE_GEN"))
	okm := make([]byte, 64)
	if _, err := io.ReadFull(kdf, okm); err != nil {
		panic(err)
	}
	rk, sk := okm[:32], okm[32:]
	if !locIsLeast {
		rk, sk = sk, rk
	}
	e.chal = tr.ExtractBytes([]byte("SECRET_CONNECTION_MAC"), 32)
	e.send, _ = chacha20poly1305.New(sk)
	e.recv, _ = chacha20poly1305.New(rk)
}

// seal builds one frame with the given length field and payload.
func (e *evilEnd) seal(lenField uint32, payload []byte) []byte {
	fr := make([]byte, 4+chunkMax)
	binary.LittleEndian.PutUint32(fr, lenField)
	copy(fr[4:], payload)
	out := e.send.Seal(nil, nonceOf(e.sendCtr), fr, nil)
	e.sendCtr++
	return out
}

func (e *evilEnd) enqueueFrame(b []byte, genuine bool) {
	st := e.s.st[e.r]
	o := -1
	if genuine {
		o = st.gen
	}
	st.gen++
	st.q = append(st.q, &qent{b: b, orig: o})
}

// poll consumes what the real side wrote and reacts. Driver goroutine, mu held.
func (e *evilEnd) poll() {
	s := e.s
	for len(e.inbox) > 0 {
		u := e.inbox[0]
		e.inbox = e.inbox[1:]
		idx := e.nIn
		e.nIn++
		switch {
		case idx == 0:
			var bv gogotypes.BytesValue
			if err := protoio.UnmarshalDelimited(u, &bv); err != nil || len(bv.Value) != 32 {
				s.env.Report("C16", "interop-eph", "first unit written by a real endpoint is not a delimited 32-byte key (len %d, err %v)", len(bv.Value), err)
				e.broken = true
				return
			}
			e.derive(bv.Value)
			e.gotEph = true
		case e.broken || e.recv == nil:
			return
		case idx == 1:
			pt, err := e.recv.Open(nil, nonceOf(e.recvCtr), u, nil)
			if err != nil {
				s.env.Report("C16", "interop-auth", "auth frame of real side %d does not open under the key derived per spec with counter 0: %v", e.r, err)
				e.broken = true
				return
			}
			e.recvCtr++
			l := binary.LittleEndian.Uint32(pt)
			if l > chunkMax {
				s.env.Report("C16", "interop-auth", "auth frame carries length %d", l)
				e.broken = true
				return
			}
			e.remAuth = append([]byte{}, pt[4:4+l]...)
			var pba tmp2p.AuthSigMessage
			if err := protoio.UnmarshalDelimited(e.remAuth, &pba); err != nil {
				s.env.Report("C16", "interop-auth", "auth message of real side %d undecodable: %v", e.r, err)
				e.broken = true
				return
			}
			pk, err := cryptoenc.PubKeyFromProto(pba.PubKey)
			if err != nil {
				s.env.Report("C16", "interop-auth", "auth message key: %v", err)
				e.broken = true
				return
			}
			e.remPub, e.remSig = pk, pba.Sig
			if !pk.Equals(s.sd[e.r].priv.PubKey()) || !pk.VerifySignature(e.chal, pba.Sig) {
				s.env.Report("C16", "interop-auth", "real side %d did not present its own key with a valid signature over the transcript challenge derived per spec", e.r)
			}
			e.gotAuth = true
		default:
			e.dataFrame(idx, u)
		}
	}
	e.trySendAuth()
	e.trySendInfo()
}

// dataFrame: a frame written by the real side must open with exactly the next counter value
// and carry exactly the next plaintext chunk.
func (e *evilEnd) dataFrame(idx int, u []byte) {
	s := e.s
	sd := s.sd[e.r]
	pt, err := e.recv.Open(nil, nonceOf(e.recvCtr), u, nil)
	if err != nil {
		at := int64(-1)
		for d := int64(-3); d <= 3; d++ {
			c := int64(e.recvCtr) + d
			if c < 0 || d == 0 {
				continue
			}
			if _, err2 := e.recv.Open(nil, nonceOf(uint64(c)), u, nil); err2 == nil {
				at = c
			}
		}
		s.env.Report("C16", "nonce-sequence", "frame %d written by real side %d does not open with counter %d (opens with counter %d; -1 = none nearby)", idx, e.r, e.recvCtr, at)
		e.broken = true
		return
	}
	if e.recvCtr > 0 {
		if _, err2 := e.recv.Open(nil, nonceOf(e.recvCtr-1), u, nil); err2 == nil {
			s.env.Report("C16", "nonce-reuse", "frame %d of real side %d also opens with the previous counter", idx, e.r)
		}
	}
	e.recvCtr++
	l := int(binary.LittleEndian.Uint32(pt))
	if l > chunkMax {
		s.env.Report("C16", "bad-frame-written", "real side %d wrote a frame with length field %d", e.r, l)
		e.broken = true
		return
	}
	if s.upgrade {
		e.inPlain = append(e.inPlain, pt[4:4+l]...)
		return
	}
	if e.eGot+l > len(sd.out) || !bytes.Equal(pt[4:4+l], sd.out[e.eGot:e.eGot+l]) {
		s.env.Report("C16", "altered-plaintext", "frame %d of real side %d carries %d bytes that are not the continuation (offset %d) of what was written", idx, e.r, l, e.eGot)
		e.broken = true
		return
	}
	e.eGot += l
	s.env.Count("probe.evil_frame_opened")
}

func (e *evilEnd) authMsg(pk crypto.PubKey, sig []byte) []byte {
	pb, err := cryptoenc.PubKeyToProto(pk)
	if err != nil {
		panic(err)
	}
	b, err := protoio.MarshalDelimited(&tmp2p.AuthSigMessage{PubKey: pb, Sig: sig})
	if err != nil {
		panic(err)
	}
	return b
}

func (e *evilEnd) trySendAuth() {
	if e.sentAuth || !e.gotEph || e.broken {
		return
	}
	s := e.s
	mpub := s.privM.PubKey()
	goodSig, _ := s.privM.Sign(e.chal)
	var msg []byte
	switch e.kind {
	case "splice", "low_order":
		msg = e.authMsg(mpub, goodSig)
		e.honest = e.kind == "splice"
	case "replay_auth":
		// present the other real endpoint's key with the signature it made in ITS session with us
		o := s.sd[1-e.r].evil
		if e.r == 1 {
			// towards B we are an ordinary peer; B's auth message is what gets replayed to A
			msg = e.authMsg(mpub, goodSig)
			e.honest = true
			break
		}
		if !o.gotAuth {
			return
		}
		msg = e.authMsg(o.remPub, o.remSig)
	case "reflect_self":
		// hand the real side its own auth message back
		if !e.gotAuth {
			return
		}
		msg = e.remAuth
	case "id_swap":
		other := s.sd[1-e.r].priv.PubKey()
		switch e.variant % 7 {
		case 0: // the other endpoint's identity, signed by the attacker's key
			msg = e.authMsg(other, goodSig)
		case 1: // own identity, signature over something else
			sig, _ := s.privM.Sign(append([]byte{1}, e.chal...))
			msg = e.authMsg(mpub, sig)
		case 2: // own identity, one bit of the signature flipped
			sig := append([]byte{}, goodSig...)
			sig[(e.variant/7)%len(sig)] ^= 1 << uint((e.variant/500)%8)
			msg = e.authMsg(mpub, sig)
		case 3: // the victim's own identity, signed by the attacker
			msg = e.authMsg(s.sd[e.r].priv.PubKey(), goodSig)
		case 4: // a key of another type
			sk := secp256k1.GenPrivKeySecp256k1([]byte(fmt.Sprint("secconnsim", e.variant)))
			sig, _ := sk.Sign(e.chal)
			msg = e.authMsg(sk.PubKey(), sig)
		case 5: // empty / short signature
			msg = e.authMsg(other, goodSig[:(e.variant/7)%64])
		default: // the other endpoint's identity with a signature by the attacker over a challenge of a different session
			ch := sha256.Sum256(e.chal)
			sig, _ := s.privM.Sign(ch[:])
			msg = e.authMsg(other, sig)
		}
	}
	e.enqueueFrame(e.seal(uint32(len(msg)), msg), true)
	e.sentAuth = true
}

// ---------------------------------------------------------------- op generation

func (s *sim) hsRunning() bool {
	return !(s.sd[0].hsDone && s.sd[1].hsDone)
}

// editable: first queue index the MITM may still restructure. A unit whose delivery has
// started is fixed. The very first unit of a stream (the delimited ephemeral key) is never
// dropped, moved or preceded by something else: the reader would then parse ciphertext produced
// from crypto/rand as a length prefix and the run would no longer be reproducible. It can be
// replaced (subeph), bit-flipped inside the key, truncated, and duplicated further back.
func (st *stream) editable() int {
	if len(st.q) > 0 && (st.q[0].off > 0 || len(st.layout) == 0) {
		return 1
	}
	return 0
}

func (st *stream) queuedBytes() int {
	n := 0
	for _, q := range st.q {
		n += len(q.b) - q.off
	}
	return n
}

func (st *stream) deliverable() bool {
	return len(st.q) > 0
}

func (s *sim) genDeliver(rng *simcore.RNG, r int) simcore.Op {
	st := s.st[r]
	qb := st.queuedBytes()
	var n int
	switch k := rng.Intn(10); {
	case k < 2:
		n = rng.Range(1, 40)
	case k < 4:
		n = rng.Range(1, frameSize)
	case k < 6:
		n = frameSize
	case k < 8:
		n = frameSize * rng.Range(1, 4)
	default:
		n = qb
	}
	if s.cfg.Bool("long") && rng.Bool(0.8) {
		n = qb
	}
	if n < 1 {
		n = 1
	}
	return simcore.Op{"a": "dlv", "r": r, "n": n}
}

func (s *sim) genTamper(rng *simcore.RNG, r int, kinds []string) simcore.Op {
	st := s.st[r]
	lo := st.editable()
	nq := len(st.q)
	for nq > 0 && st.q[nq-1].fin {
		nq--
	}
	if len(kinds) == 0 {
		return nil
	}
	k := kinds[rng.Intn(len(kinds))]
	switch k {
	case "flip":
		if len(st.layout) == 0 && nq > 0 && st.q[0].off == 0 && rng.Bool(0.4) {
			// a bit of the ephemeral key itself
			return simcore.Op{"a": "flip", "r": r, "k": 0, "off": rng.Intn(frameSize), "bit": rng.Intn(8)}
		}
		if nq <= lo {
			return nil
		}
		return simcore.Op{"a": "flip", "r": r, "k": rng.Range(lo, nq-1), "off": rng.Intn(frameSize), "bit": rng.Intn(8)}
	case "drop":
		if nq <= lo {
			return nil
		}
		return simcore.Op{"a": "drop", "r": r, "k": rng.Range(lo, nq-1)}
	case "dup":
		if nq <= lo {
			return nil
		}
		return simcore.Op{"a": "dup", "r": r, "k": rng.Range(lo, nq-1), "at": rng.Range(lo, nq)}
	case "swap":
		if nq-lo < 2 {
			return nil
		}
		a := rng.Range(lo, nq-2)
		return simcore.Op{"a": "swap", "r": r, "k": a, "j": rng.Range(a+1, nq-1)}
	case "replay":
		if len(st.hist) == 0 {
			return nil
		}
		return simcore.Op{"a": "replay", "r": r, "h": rng.Intn(len(st.hist)), "at": rng.Range(lo, nq)}
	case "inject":
		return simcore.Op{"a": "inject", "r": r, "at": rng.Range(lo, nq), "seed": rng.Intn(1 << 30)}
	case "xinj":
		if len(s.sd[r].sent) == 0 {
			return nil
		}
		return simcore.Op{"a": "xinj", "r": r, "i": rng.Intn(len(s.sd[r].sent)), "at": rng.Range(lo, nq), "repl": rng.Bool(0.5)}
	case "trunc":
		if nq <= lo {
			return nil
		}
		return simcore.Op{"a": "trunc", "r": r, "k": rng.Range(lo, nq-1), "off": rng.Range(0, frameSize-1)}
	}
	return nil
}

func (s *sim) Next(rng *simcore.RNG) simcore.Op {
	if s.dead || s.opsLeft <= 0 {
		return nil
	}
	s.opsLeft--
	s.mu.Lock()
	defer s.mu.Unlock()
	hs := s.cfg.Str("hs")
	if s.hsRunning() {
		// scenario-specific handshake edit, once, while the unit is still untouched in the queue
		if !s.evilTopo && !s.hsOpDone && hs != "none" {
			if op := s.genHsEdit(rng, hs); op != nil {
				return op
			}
		}
		if s.upgrade && s.up == "timeout" && rng.Bool(0.55) {
			// the network stalls: the handshake deadlines (fake clock) run
			return simcore.Op{"a": "tick", "ms": rng.Range(300, 1600)}
		}
		var cand []int
		for r := 0; r < 2; r++ {
			if s.st[r].deliverable() {
				cand = append(cand, r)
			}
		}
		if len(cand) == 0 {
			return simcore.Op{"a": "hsabort"}
		}
		return s.genDeliver(rng, cand[rng.Intn(len(cand))])
	}
	if !s.hsOK {
		return nil
	}
	// data phase
	w := []int{0, 0, 0, 0, 0, 0}
	var idleW, idleR, deliv []int
	for i := 0; i < 2; i++ {
		if !s.sd[i].w.busy && !s.sd[i].closedH && !s.sd[i].wErr {
			idleW = append(idleW, i)
		}
		if !s.sd[i].r.busy && !s.sd[i].closedH {
			idleR = append(idleR, i)
		}
		if s.st[i].deliverable() {
			deliv = append(deliv, i)
		}
	}
	if len(idleW) > 0 {
		w[0] = 25
	}
	if len(idleR) > 0 {
		w[1] = 25
	}
	if len(deliv) > 0 {
		w[2] = 40
	}
	tk := s.cfg.Strs("tamper")
	if len(tk) > 0 && !s.evilTopo {
		w[3] = s.cfg.Int("tamper_pm") / 10
	}
	if s.cfg.Bool("close") && s.opsLeft < 12 {
		w[4] = 4
	}
	if s.evilTopo && hs == "splice" {
		w[5] = 20
	}
	if w[0]+w[1]+w[2]+w[3]+w[4]+w[5] == 0 {
		return nil
	}
	if s.cfg.Bool("wfail") && !s.evilTopo && len(idleW) > 0 && s.wfails < 4 && rng.Bool(0.06) {
		sdi := idleW[rng.Intn(len(idleW))]
		if !s.sd[sdi].end.failArmed {
			k := rng.Range(32, frameSize-8)
			switch rng.Intn(10) {
			case 0:
				k = 0
			case 1:
				k = rng.Range(1, 31)
			case 2:
				k = frameSize - 8
			}
			skip := 0
			if rng.Bool(0.4) {
				skip = rng.Range(1, 3)
			}
			return simcore.Op{"a": "wfail", "s": sdi, "k": k, "skip": skip}
		}
	}
	switch rng.Weighted(w) {
	case 0:
		sdi := idleW[rng.Intn(len(idleW))]
		return s.genWrite(rng, "w", sdi)
	case 1:
		sdi := idleR[rng.Intn(len(idleR))]
		n := []int{0, 1, 7, 100, 1023, 1024, 1025, 4096}[rng.Intn(8)]
		if rng.Bool(0.3) {
			n = rng.Range(1, 2100)
		}
		rep := rng.Range(1, 4)
		if s.cfg.Bool("long") {
			n = 4096
			rep = rng.Range(8, 64)
		}
		return simcore.Op{"a": "r", "s": sdi, "n": n, "rep": rep}
	case 2:
		return s.genDeliver(rng, deliv[rng.Intn(len(deliv))])
	case 3:
		r := rng.Intn(2)
		if op := s.genTamper(rng, r, tk); op != nil {
			return op
		}
		if len(deliv) > 0 {
			return s.genDeliver(rng, deliv[rng.Intn(len(deliv))])
		}
		return simcore.Op{"a": "nop"}
	case 4:
		return simcore.Op{"a": "close", "s": rng.Intn(2)}
	default:
		op := s.genWrite(rng, "ew", rng.Intn(2))
		op["bad"] = []string{"", "", "", "", "biglen", "maxlen", "zerolen", "hugelen"}[rng.Intn(8)]
		return op
	}
}

func (s *sim) genWrite(rng *simcore.RNG, kind string, sdi int) simcore.Op {
	var n int
	switch k := rng.Intn(10); {
	case k == 0:
		n = 0
	case k < 3:
		n = rng.Range(1, 50)
	case k < 5:
		n = chunkMax + rng.Range(-2, 2)
	case k < 7:
		n = chunkMax * rng.Range(1, 4)
	default:
		n = rng.Range(1, 5000)
	}
	if s.cfg.Bool("long") && kind == "w" {
		n = chunkMax * rng.Range(16, 64)
	}
	fill := s.cfg.Str("fill")
	if fill == "mixed" {
		fill = []string{"rand", "uniform"}[rng.Intn(2)]
	}
	return simcore.Op{"a": kind, "s": sdi, "n": n, "fill": fill, "seed": rng.Intn(1 << 30)}
}

// genHsEdit: the handshake edit of the relay scenarios.
func (s *sim) genHsEdit(rng *simcore.RNG, hs string) simcore.Op {
	switch hs {
	case "eph":
		// replace an ephemeral key that has not started to be delivered
		var cand []int
		for r := 0; r < 2; r++ {
			st := s.st[r]
			if len(st.q) > 0 && st.q[0].orig == 0 && st.q[0].off == 0 {
				cand = append(cand, r)
			}
		}
		if len(cand) == 0 {
			return nil
		}
		with := []string{"rand", "mitm", "low", "reflect", "short", "long"}[rng.Weighted([]int{3, 3, 4, 2, 1, 1})]
		return simcore.Op{"a": "subeph", "r": cand[rng.Intn(len(cand))], "with": with, "i": rng.Intn(64), "both": rng.Bool(0.3)}
	case "auth":
		for _, r := range rng.Perm(2) {
			st := s.st[r]
			for k := st.editable(); k < len(st.q); k++ {
				if st.q[k].orig == 1 {
					switch rng.Intn(4) {
					case 0:
						return simcore.Op{"a": "flip", "r": r, "k": k, "off": rng.Intn(frameSize), "bit": rng.Intn(8)}
					case 1:
						return simcore.Op{"a": "inject", "r": r, "at": k, "seed": rng.Intn(1 << 30)}
					case 2:
						if len(s.sd[r].sent) > 1 {
							return simcore.Op{"a": "xinj", "r": r, "i": 1, "at": k, "repl": true}
						}
					default:
						return simcore.Op{"a": "drop", "r": r, "k": k}
					}
				}
			}
		}
		return nil
	case "ninfo":
		// the sealed NodeInfo message (unit 2) while it is in flight
		for _, r := range rng.Perm(2) {
			st := s.st[r]
			for k := st.editable(); k < len(st.q); k++ {
				if st.q[k].orig == 2 {
					switch rng.Intn(6) {
					case 0, 1:
						return simcore.Op{"a": "flip", "r": r, "k": k, "off": rng.Intn(frameSize), "bit": rng.Intn(8)}
					case 2:
						return simcore.Op{"a": "inject", "r": r, "at": k, "seed": rng.Intn(1 << 30)}
					case 3:
						if len(st.hist) > 0 {
							return simcore.Op{"a": "replay", "r": r, "h": rng.Intn(len(st.hist)), "at": k}
						}
					case 4:
						if len(s.sd[r].sent) > 2 {
							return simcore.Op{"a": "xinj", "r": r, "i": 2, "at": k, "repl": true}
						}
					default:
						return simcore.Op{"a": "drop", "r": r, "k": k}
					}
				}
			}
		}
		return nil
	case "hsany":
		if rng.Bool(0.5) {
			return nil
		}
		return s.genTamper(rng, rng.Intn(2), tamperKinds)
	}
	return nil
}

// ---------------------------------------------------------------- apply

func payload(op simcore.Op) []byte {
	n := op.Int("n")
	if op.Str("fill") == "uniform" {
		return bytes.Repeat([]byte{0x55}, n)
	}
	return simcore.NewRNG(uint64(op.Int("seed"))*2654435761 + 11).Bytes(n)
}

func chunkSizes(n int) []int {
	var out []int
	for n > 0 {
		c := n
		if c > chunkMax {
			c = chunkMax
		}
		out = append(out, c)
		n -= c
	}
	return out
}

func (s *sim) Apply(op simcore.Op) bool {
	if s.dead {
		return false
	}
	e := s.env
	if op.Kind() == "tick" {
		d := time.Duration(op.Int("ms")) * time.Millisecond
		if !s.upgrade || d <= 0 || d > time.Minute {
			return false
		}
		time.Sleep(d) // never while holding mu: the deadline timers need it
		s.slept += d
		e.Count("op.tick")
		e.Settle()
		s.after()
		return true
	}
	s.mu.Lock()
	ok := s.apply1(op)
	if ok {
		s.pump()
	}
	s.mu.Unlock()
	if !ok {
		return false
	}
	e.Count("op." + op.Kind())
	e.Settle()
	s.after()
	return true
}

func insertAt(q []*qent, at int, x *qent) []*qent {
	q = append(q, nil)
	copy(q[at+1:], q[at:])
	q[at] = x
	return q
}

// apply1 performs the stimulus. Caller holds mu. No goroutine of the bubble runs user-visible
// code until the lock is released; woken goroutines continue after it.
func (s *sim) apply1(op simcore.Op) bool {
	e := s.env
	r := op.Int("r")
	if r < 0 || r > 1 {
		return false
	}
	st := s.st[r]
	switch op.Kind() {
	case "nop":
		return true
	case "dlv":
		return s.deliver(r, op.Int("n"))
	case "hsabort":
		if !s.hsRunning() {
			return false
		}
		// nothing in flight and a handshake still waits: the MITM hangs up on both
		for i := 0; i < 2; i++ {
			s.finTowards(i)
		}
		e.Count("fault.hs_abort")
		return true
	case "w":
		sd := s.sd[op.Int("s")&1]
		if s.hsRunning() || !s.hsOK || sd.w == nil || sd.w.busy || sd.closedH || sd.wErr {
			return false
		}
		data := payload(op)
		if s.evilTopo {
			sd.out = append(sd.out, data...)
			sd.outCh = append(sd.outCh, chunkSizes(len(data))...)
		} else {
			so := s.st[1-sd.end.id]
			so.plain = append(so.plain, data...)
			so.chunks = append(so.chunks, chunkSizes(len(data))...)
		}
		sd.wIssued += len(data)
		rest := data
		for _, c := range chunkSizes(len(data)) {
			f := make([]byte, lenField+c)
			binary.LittleEndian.PutUint32(f, uint32(c))
			copy(f[lenField:], rest[:c])
			sd.wq = append(sd.wq, f)
			rest = rest[c:]
		}
		sd.w.busy = true
		sd.injected = false
		sc := sd.sc
		sd.w.cmd <- func() {
			n, err := sc.Write(data)
			s.mu.Lock()
			sd.wDone += n
			sd.wq = nil // frames of this call that were not sealed will never be
			if (err != nil || n != len(data)) && !sd.injected {
				sd.wErr = true
			}
			if sd.injected {
				s.env.Count("probe.write_returned_error_then_writes_on")
			}
			s.mu.Unlock()
		}
		return true
	case "wfail":
		sd := s.sd[op.Int("s")&1]
		if s.evilTopo || s.upgrade || s.hsRunning() || !s.hsOK || sd.closedH || sd.wErr || sd.end.failArmed || op.Int("k") < 0 || op.Int("skip") < 0 {
			return false
		}
		sd.end.failArmed, sd.end.failK, sd.end.failSkip = true, op.Int("k"), op.Int("skip")
		s.wfails++
		return true
	case "r":
		sd := s.sd[op.Int("s")&1]
		if s.hsRunning() || !s.hsOK || sd.r == nil || sd.r.busy || sd.closedH {
			return false
		}
		n, rep := op.Int("n"), op.Int("rep")
		if n < 0 || n > 1<<16 || rep < 1 {
			return false
		}
		s.startRead(sd, n, rep)
		return true
	case "ew":
		// the evil endpoint writes frames towards real side s
		sdi := op.Int("s") & 1
		sd := s.sd[sdi]
		if !s.evilTopo || s.hsRunning() || !s.hsOK || sd.evil == nil || sd.evil.send == nil || sd.closedH {
			return false
		}
		ev := sd.evil
		so := s.st[sdi]
		if so.finQueued {
			return false
		}
		switch op.Str("bad") {
		case "":
			data := payload(op)
			for _, c := range chunkSizes(len(data)) {
				so.chunks = append(so.chunks, c)
				ev.enqueueFrame(ev.seal(uint32(c), data[:c]), true)
				so.plain = append(so.plain, data[:c]...)
				data = data[c:]
			}
		case "maxlen":
			data := simcore.NewRNG(uint64(op.Int("seed"))).Bytes(chunkMax)
			so.chunks = append(so.chunks, chunkMax)
			so.plain = append(so.plain, data...)
			ev.enqueueFrame(ev.seal(chunkMax, data), true)
		case "zerolen":
			// a validly sealed frame announcing zero bytes: carries nothing
			so.chunks = append(so.chunks, 0)
			ev.enqueueFrame(ev.seal(0, nil), true)
		case "biglen", "hugelen":
			// validly sealed, but the length field exceeds what a frame can carry: the reader must fail
			l := uint32(chunkMax + 1 + op.Int("seed")%1000)
			if op.Str("bad") == "hugelen" {
				l = uint32(1<<31) + uint32(op.Int("seed"))
			}
			ev.enqueueFrame(ev.seal(l, simcore.NewRNG(uint64(op.Int("seed"))).Bytes(chunkMax)), false)
			so.tampered = true
			s.finTowards(sdi) // the attacker hangs up after the malformed frame
			e.Count("fault.evil_bad_length")
		default:
			return false
		}
		return true
	case "close":
		sd := s.sd[op.Int("s")&1]
		if s.hsRunning() || sd.closedH || sd.sc == nil {
			return false
		}
		sd.closedH = true
		s.mu.Unlock()
		sd.sc.Close()
		s.mu.Lock()
		e.Count("fault.close")
		return true
	}
	// MITM edits (relay topology only)
	if s.evilTopo || st.finQueued && op.Kind() != "flip" {
		return false
	}
	lo := st.editable()
	k := op.Int("k")
	inq := func(i int) bool { return i >= lo && i < len(st.q) && !st.q[i].fin }
	at := op.Int("at")
	atOK := at >= lo && at <= len(st.q)
	switch op.Kind() {
	case "flip":
		ephUnit := k == 0 && len(st.q) > 0 && st.q[0].off == 0 && len(st.layout) == 0 && !st.q[0].fin && len(st.q[0].b) > 3
		if !inq(k) && !ephUnit || len(st.q[k].b) == 0 {
			return false
		}
		q := st.q[k]
		nb := append([]byte{}, q.b...)
		off := op.Int("off") % len(nb)
		if ephUnit {
			off = 3 + op.Int("off")%(len(nb)-3) // inside the key, not in the protobuf framing
		}
		nb[off] ^= 1 << uint(op.Int("bit")%8)
		st.q[k] = &qent{b: nb, orig: -1}
	case "drop":
		if !inq(k) {
			return false
		}
		st.q = append(st.q[:k:k], st.q[k+1:]...)
	case "dup":
		if !inq(k) || !atOK {
			return false
		}
		st.q = insertAt(st.q, at, &qent{b: st.q[k].b, orig: st.q[k].orig})
	case "swap":
		j := op.Int("j")
		if !inq(k) || !inq(j) || j == k {
			return false
		}
		st.q[k], st.q[j] = st.q[j], st.q[k]
	case "replay":
		h := op.Int("h")
		if h < 0 || h >= len(st.hist) || !atOK {
			return false
		}
		st.q = insertAt(st.q, at, &qent{b: st.hist[h].b, orig: st.hist[h].orig})
	case "inject":
		if !atOK {
			return false
		}
		st.q = insertAt(st.q, at, &qent{b: simcore.NewRNG(uint64(op.Int("seed"))+5).Bytes(frameSize), orig: -1})
	case "xinj":
		// a unit the reader itself wrote (reflection / other direction's key)
		i := op.Int("i")
		sent := s.sd[r].sent
		if i < 0 || i >= len(sent) {
			return false
		}
		if op.Bool("repl") {
			if !inq(at) {
				return false
			}
			st.q[at] = &qent{b: sent[i], orig: -1}
		} else {
			if !atOK {
				return false
			}
			st.q = insertAt(st.q, at, &qent{b: sent[i], orig: -1})
		}
	case "trunc":
		// unit k is cut to off bytes, everything behind it is discarded, the MITM hangs up
		if !(inq(k) || k == 0 && len(st.q) > 0 && st.q[0].off == 0 && !st.q[0].fin) || len(st.q[k].b) == 0 {
			return false
		}
		v := st.q[k]
		off := op.Int("off") % len(v.b)
		st.q = st.q[:k:k]
		if off > 0 {
			st.q = append(st.q, &qent{b: v.b[:off], orig: -1})
		}
		st.q = append(st.q, &qent{fin: true})
		st.finQueued = true
		st.cut = true
	case "subeph":
		if len(st.q) == 0 || st.q[0].orig != 0 || st.q[0].off != 0 || !s.hsRunning() {
			return false
		}
		targets := []int{r}
		if op.Bool("both") {
			o := s.st[1-r]
			if len(o.q) > 0 && o.q[0].orig == 0 && o.q[0].off == 0 {
				targets = append(targets, 1-r)
			}
		}
		for _, t := range targets {
			var v []byte
			i := op.Int("i")
			switch op.Str("with") {
			case "rand":
				v = simcore.NewRNG(uint64(i) + 99).Bytes(32)
			case "mitm":
				v, _ = curve25519.X25519(simcore.NewRNG(uint64(i)+7).Bytes(32), curve25519.Basepoint)
			case "low":
				v = lowOrder[i%len(lowOrder)]
			case "reflect":
				// the reader's own ephemeral key
				if len(s.sd[t].sent) == 0 {
					return false
				}
				var bv gogotypes.BytesValue
				if err := protoio.UnmarshalDelimited(s.sd[t].sent[0], &bv); err != nil {
					return false
				}
				v = bv.Value
			case "short":
				v = simcore.NewRNG(uint64(i) + 3).Bytes(31 - i%31)
			case "long":
				v = simcore.NewRNG(uint64(i) + 4).Bytes(33 + i%40)
			default:
				return false
			}
			msg, err := protoio.MarshalDelimited(&gogotypes.BytesValue{Value: v})
			if err != nil {
				return false
			}
			s.st[t].q[0] = &qent{b: msg, orig: -1}
			s.st[t].tampered = true
		}
		s.hsOpDone = true
		e.Count("fault.subeph_" + op.Str("with"))
		return true
	default:
		return false
	}
	st.tampered = true
	if s.hsRunning() {
		s.hsOpDone = true
		e.Count("fault.hs_" + op.Kind())
	} else {
		e.Count("fault." + op.Kind())
	}
	return true
}

// finTowards appends a FIN to the stream towards r (once).
func (s *sim) finTowards(r int) {
	st := s.st[r]
	if st.finQueued {
		return
	}
	st.finQueued = true
	st.q = append(st.q, &qent{fin: true})
}

// deliver moves up to n bytes of the queue head(s) to reader r. Caller holds mu.
func (s *sim) deliver(r, n int) bool {
	st := s.st[r]
	e := s.sd[r].end
	if len(st.q) == 0 || n < 1 {
		return false
	}
	moved := 0
	for len(st.q) > 0 && (n > 0 || st.q[0].fin) {
		q := st.q[0]
		if q.fin {
			st.q = st.q[1:]
			st.eofDeliv = true
			e.eof = true
			// the peer is gone: this end's own writes fail from now on
			e.rst = true
			if e.wreq != nil {
				e.wreq.err = errReset
				close(e.wreq.done)
				e.wreq = nil
			}
			moved++
			continue
		}
		if q.off == 0 {
			st.layout = append(st.layout, lay{n: len(q.b), orig: q.orig})
		}
		take := len(q.b) - q.off
		if take > n {
			take = n
		}
		e.avail = append(e.avail, q.b[q.off:q.off+take]...)
		q.off += take
		n -= take
		moved += take
		if q.off == len(q.b) {
			st.q = st.q[1:]
			if len(st.hist) < 24 {
				st.hist = append(st.hist, &qent{b: q.b, orig: q.orig})
			}
			if s.upgrade {
				// mode upgrade: one protocol unit per stimulus. upgrade() closes the connection
				// itself the moment a read fails; if the failing unit were already available when
				// a phase starts, that close would race with the phase's own writer goroutine.
				break
			}
		}
	}
	if moved == 0 {
		return false
	}
	if e.rreq != nil {
		rq := e.rreq
		if len(e.avail) > 0 {
			rq.n = copy(rq.buf, e.avail)
			e.avail = e.avail[rq.n:]
			e.rTotal += int64(rq.n)
			e.rreq = nil
			close(rq.done)
		} else if e.eof {
			rq.err = io.EOF
			e.rreq = nil
			close(rq.done)
		}
	}
	return true
}

// ---------------------------------------------------------------- after each stimulus

// after runs on the driver once the bubble is quiescent: closes propagate, evil endpoints
// react, handshake results and read results are judged.
func (s *sim) after() {
	e := s.env
	for round := 0; round < 8; round++ {
		again := false
		s.mu.Lock()
		// a locally closed end sends FIN to its peer / attacker
		for _, id := range s.closedNow {
			if !s.evilTopo {
				s.finTowards(1 - id)
			}
			// what is still queued towards a closed end is dropped
			s.st[id].q = nil
			s.st[id].cut = true
		}
		s.closedNow = nil
		if s.evilTopo {
			for i := 0; i < 2; i++ {
				s.sd[i].evil.poll()
			}
		}
		var toClose []*side
		for i := 0; i < 2; i++ {
			sd := s.sd[i]
			if sd.hsDone && !sd.hsSeen {
				sd.hsSeen = true
				ok := sd.hsErr == nil && sd.hsPanic == ""
				e.Logf("hs side=%d ok=%v", i, ok)
				if sd.hsErr != nil {
					e.Note("hs side=%d err=%v", i, sd.hsErr)
				}
				if !ok && !sd.closedH && !s.upgrade {
					// the caller of a failed MakeSecretConnection closes the connection
					sd.closedH = true
					toClose = append(toClose, sd)
				}
			}
		}
		s.pump()
		s.mu.Unlock()
		for _, sd := range toClose {
			sd.end.Close()
			again = true
		}
		if again {
			e.Settle()
			continue
		}
		break
	}
	if e.Failed() {
		s.dead = true
		panicIfFailed(e)
	}
	s.mu.Lock()
	defer s.mu.Unlock()
	if !s.hsRunning() && !s.hsChecked {
		s.hsChecked = true
		s.checkHandshake()
	}
	for i := 0; i < 2; i++ {
		s.judgeReads(i)
	}
	var ql [2]int
	for i := 0; i < 2; i++ {
		ql[i] = len(s.st[i].q)
	}
	e.State(s.cfg.Str("hs"), s.hsRunning(), s.hsOK, ql[0] > 0, ql[1] > 0, s.st[0].errSeen, s.st[1].errSeen, s.st[0].tampered, s.st[1].tampered,
		s.sd[0].end.rreq != nil, s.sd[1].end.rreq != nil, s.sd[0].end.wreq != nil, s.sd[1].end.wreq != nil)
}

func panicIfFailed(e *simcore.Env) {
	// a violation was recorded with Report (possibly from an actor): unwind the driver
	e.Fail("C16", "reported", "see first recorded violation")
}

// checkHandshake: both MakeSecretConnection calls have returned. Caller holds mu.
func (s *sim) checkHandshake() {
	if s.upgrade {
		s.checkUpgrade()
		s.hsOK = false
		return
	}
	e := s.env
	hs := s.cfg.Str("hs")
	okc := 0
	for i := 0; i < 2; i++ {
		sd := s.sd[i]
		if sd.hsPanic != "" {
			e.Fail("C16", "handshake-panic", "MakeSecretConnection of side %d panicked: %s", i, sd.hsPanic)
		}
		ok := sd.hsErr == nil
		if !ok {
			continue
		}
		okc++
		rp := sd.sc.RemotePubKey()
		if s.evilTopo {
			ev := sd.evil
			switch {
			case hs == "low_order":
				e.Fail("C16", "low-order-accepted", "side %d completed a handshake in which the peer's ephemeral key was the low-order point #%d (shared secret is all-zero, session keys are public)", i, ev.variant%len(lowOrder))
			case hs == "reflect_self":
				e.Fail("C16", "self-reflection", "side %d completed a handshake with an attacker who only echoed side %d's own auth message: RemotePubKey()==own key=%v, attacker holds no private key of that identity", i, i, rp.Equals(sd.priv.PubKey()))
			case !ev.honest:
				e.Fail("C16", "auth-bypass", "side %d completed a handshake (scenario %s/%d) although the attacker presented an identity without a valid signature by that identity's key over this session's challenge; RemotePubKey is peer's real key: %v", i, hs, ev.variant%7, rp.Equals(s.sd[1-i].priv.PubKey()))
			case !rp.Equals(s.privM.PubKey()):
				e.Fail("C16", "wrong-remote-key", "side %d authenticated a key that is not the one whose owner signed this session", i)
			}
			continue
		}
		// relay: success requires an untouched exchange as seen by this side
		lr, lo := s.st[i].layout, s.st[1-i].layout
		clean := len(lr) >= 2 && lr[0].orig == 0 && lr[1].orig == 1 && len(lo) >= 1 && lo[0].orig == 0
		if !clean {
			e.Fail("C16", "auth-bypass", "side %d completed a handshake although the man in the middle changed the exchange it saw (scenario %s); RemotePubKey is peer's real key: %v", i, hs, rp.Equals(s.sd[1-i].priv.PubKey()))
		}
		if !rp.Equals(s.sd[1-i].priv.PubKey()) {
			e.Fail("C16", "wrong-remote-key", "side %d: RemotePubKey() is not the peer's long-term key after an untouched handshake", i)
		}
	}
	untouched := !s.evilTopo && !s.st[0].tampered && !s.st[1].tampered && !s.st[0].finQueued && !s.st[1].finQueued
	if (untouched || hs == "splice") && okc != 2 {
		e.Fail("C16", "handshake-failed", "handshake without any interference failed: A err=%v, B err=%v", s.sd[0].hsErr, s.sd[1].hsErr)
	}
	if hs == "replay_auth" && s.sd[1].hsErr != nil {
		e.Fail("C16", "handshake-failed", "side B refused an honest peer: %v", s.sd[1].hsErr)
	}
	e.Count(fmt.Sprintf("probe.hs_%s_ok%d", hs, okc))
	s.hsOK = okc == 2 && (hs == "none" || hs == "splice" || hs == "hsany" || hs == "eph" || hs == "auth")
	if !s.hsOK {
		return
	}
	for i := 0; i < 2; i++ {
		sd := s.sd[i]
		sd.w, sd.r = s.newActor(), s.newActor()
		st := s.st[i]
		st.exp, st.rFrames = 2, 1
	}
}

// framesConsumed: complete frames the reader of stream r has pulled from the pipe.
func (s *sim) framesConsumed(r int, rTotal int64) int {
	st := s.st[r]
	if len(st.layout) == 0 {
		return 0
	}
	off0 := int64(st.layout[0].n)
	if rTotal < off0 {
		return 0
	}
	return int((rTotal - off0) / frameSize)
}

// frameOrig: which genuine unit the j-th frame (0 = auth frame) seen by reader r is. The reader
// cuts its byte stream into frames of frameSize behind the first unit; frame j is genuine unit o
// iff an entry that is a byte-identical copy of unit o (orig == o) and a whole frame long starts
// exactly at the frame's stream offset. Entries of other lengths (a replayed 35-byte key unit,
// the part of a frame that got out before a write error) shift what follows, and further such
// entries can shift it back into alignment: offsets are summed, not guessed.
func (s *sim) frameOrig(r, j int) int {
	st := s.st[r]
	if len(st.layout) == 0 {
		return -1
	}
	want := st.layout[0].n + j*frameSize
	off := st.layout[0].n
	for i := 1; i < len(st.layout) && off <= want; i++ {
		if off == want {
			if st.layout[i].n == frameSize {
				return st.layout[i].orig
			}
			return -1
		}
		off += st.layout[i].n
	}
	return -1
}

// judgeReads applies the reference model to the completed Read calls of side i.
// Reference model of an authenticated stream with a counter nonce: the reader accepts a frame
// iff it is byte-identical to the genuine frame it expects next; anything else is an error and
// yields no plaintext.
func (s *sim) judgeReads(i int) {
	e := s.env
	sd := s.sd[i]
	st := s.st[i]
	for _, res := range sd.results {
		if res.panicv != "" {
			e.Fail("C16", "read-panic", "Read on side %d panicked: %s", i, res.panicv)
		}
		if st.ignore {
			continue
		}
		nf := s.framesConsumed(i, res.rTotal)
		modelErr := false
		for j := st.rFrames; j < nf; j++ {
			o := s.frameOrig(i, j)
			di := st.exp - 2
			if o == st.exp && di >= 0 && di < len(st.chunks) {
				st.accepted += st.chunks[di]
				st.exp++
			} else {
				modelErr = true
			}
		}
		st.rFrames = nf
		e.Logf("rd side=%d want=%d n=%d err=%v frames=%d", i, res.want, res.n, res.err != nil, nf)
		if res.n < 0 || res.n > res.want {
			e.Fail("C16", "read-count", "Read(%d) on side %d returned n=%d", res.want, i, res.n)
		}
		if res.n > 0 {
			if st.got+res.n > len(st.plain) || !bytes.Equal(res.data, st.plain[st.got:st.got+res.n]) {
				at := 0
				for at < res.n && st.got+at < len(st.plain) && res.data[at] == st.plain[st.got+at] {
					at++
				}
				e.Fail("C16", "altered-plaintext", "side %d read %d bytes at stream offset %d that are not the continuation of what the peer wrote (first difference at +%d; tampered=%v)", i, res.n, st.got, at, st.tampered)
			}
			if st.got+res.n > st.accepted {
				e.Fail("C16", "accepted-bad-frame", "side %d was handed plaintext up to offset %d but only %d bytes arrived in genuine, in-order frames (a changed, replayed or misplaced frame was accepted)", i, st.got+res.n, st.accepted)
			}
			st.got += res.n
		}
		if modelErr {
			e.Count("probe.bad_frame_seen")
			if res.err == nil {
				e.Fail("C16", "tamper-not-detected", "a Read on side %d consumed a frame that is not the genuine next frame (edited, injected, replayed, out of position) and returned no error", i)
			}
		}
		if res.err != nil {
			ended := st.eofDeliv || sd.closedH || sd.end.closed
			if !modelErr && !ended && !st.errSeen {
				e.Fail("C16", "spurious-read-error", "Read on side %d failed although every frame it consumed was genuine and in order and the stream is open: %v", i, res.err)
			}
			st.errSeen = true
			e.Count("probe.read_error")
		}
	}
	sd.results = nil
}

// ---------------------------------------------------------------- end of run

func (s *sim) Finish() {
	e := s.env
	if s.dead {
		return
	}
	if s.hsRunning() {
		// run ended mid-handshake: hang up, nobody may report success on a changed exchange
		s.mu.Lock()
		for i := 0; i < 2; i++ {
			s.finTowards(i)
		}
		s.mu.Unlock()
		for round := 0; round < 6 && s.hsRunning(); round++ {
			s.mu.Lock()
			for r := 0; r < 2; r++ {
				s.deliver(r, 1<<30)
			}
			s.pump()
			s.mu.Unlock()
			e.Settle()
			s.after()
		}
		if s.hsRunning() {
			e.Fail("C16", "handshake-wedged", "MakeSecretConnection did not return after the connection was closed")
		}
		return
	}
	if !s.hsOK {
		return
	}
	// drain: wherever nothing interfered, everything written must arrive, in order.
	for round := 0; round < 400; round++ {
		s.mu.Lock()
		progress := false
		for r := 0; r < 2; r++ {
			if s.deliver(r, 1<<30) {
				progress = true
			}
		}
		s.pump()
		for i := 0; i < 2; i++ {
			sd, st := s.sd[i], s.st[i]
			if sd.r.busy || sd.closedH || st.errSeen {
				continue
			}
			// whole frames delivered but not yet consumed, plus plaintext buffered in the connection
			rep := s.framesConsumed(i, sd.end.rTotal+int64(len(sd.end.avail))) - st.rFrames
			if st.got < st.accepted {
				rep++
			}
			if rep > 0 {
				progress = true
				s.startRead(sd, 4096, rep)
			}
		}
		s.mu.Unlock()
		e.Settle()
		s.after()
		if !progress {
			break
		}
	}
	s.mu.Lock()
	defer s.mu.Unlock()
	for i := 0; i < 2; i++ {
		st := s.st[i]
		sd := s.sd[i]
		w := s.sd[1-i]
		if st.tampered || st.cut || sd.closedH || (st.errSeen && !st.eofDeliv) {
			continue
		}
		if s.evilTopo {
			// stream written by the evil endpoint towards i
			if st.got != len(st.plain) {
				e.Fail("C16", "lost-bytes", "side %d read %d of the %d bytes a spec-conformant peer sent", i, st.got, len(st.plain))
			}
			continue
		}
		if w.closedH || w.wErr || st.eofDeliv {
			// the writer stopped: what its completed Write calls accepted must have arrived
			if st.got < st.sentPlainDone(w) {
				e.Fail("C16", "lost-bytes", "side %d read %d bytes, the peer's completed writes cover %d", i, st.got, st.sentPlainDone(w))
			}
			continue
		}
		if w.w.busy {
			e.Fail("C16", "write-wedged", "a Write on side %d never returned although the pipe drained", 1-i)
		}
		if w.wDone != w.wIssued {
			e.Fail("C16", "short-write", "side %d: Write calls accepted %d of %d bytes without error", 1-i, w.wDone, w.wIssued)
		}
		if st.got != len(st.plain) {
			e.Fail("C16", "lost-bytes", "side %d read %d of the %d bytes the peer wrote, nothing interfered with this direction", i, st.got, len(st.plain))
		}
		if st.gen-2 != len(st.chunks) {
			e.Fail("C16", "frame-model", "side %d emitted %d data frames for writes that need %d", 1-i, st.gen-2, len(st.chunks))
		}
	}
	if s.evilTopo {
		for i := 0; i < 2; i++ {
			sd := s.sd[i]
			if sd.closedH || sd.wErr || sd.evil.broken || sd.w == nil || sd.w.busy {
				continue
			}
			if sd.evil.eGot != len(sd.out) {
				e.Fail("C16", "lost-bytes", "the spec-conformant peer of side %d decrypted %d of the %d bytes written", i, sd.evil.eGot, len(sd.out))
			}
		}
	}
}

// startRead makes the reader actor of sd issue up to rep Read calls with an n-byte buffer.
// Caller holds mu.
func (s *sim) startRead(sd *side, n, rep int) {
	sd.r.busy = true
	sc := sd.sc
	sd.r.cmd <- func() {
		for i := 0; i < rep; i++ {
			buf := make([]byte, n)
			var res readRes
			res.want = n
			func() {
				defer func() {
					if p := recover(); p != nil {
						res.panicv = fmt.Sprint(p)
					}
				}()
				res.n, res.err = sc.Read(buf)
			}()
			if res.n >= 0 && res.n <= n {
				res.data = buf[:res.n]
			}
			s.mu.Lock()
			res.rTotal = sd.end.rTotal
			sd.results = append(sd.results, res)
			s.mu.Unlock()
			if res.err != nil || res.panicv != "" {
				return
			}
		}
	}
}

func (st *stream) sentPlainDone(w *side) int {
	if w.wDone < len(st.plain) {
		return w.wDone
	}
	return len(st.plain)
}

func (s *sim) Close() {
	for i := 0; i < 2; i++ {
		s.sd[i].end.Close()
	}
	s.env.Settle()
	s.mu.Lock()
	for i := 0; i < 2; i++ {
		sd := s.sd[i]
		if sd.w != nil {
			close(sd.w.cmd)
			close(sd.r.cmd)
		}
	}
	s.mu.Unlock()
	s.env.Settle()
}

// ---------------------------------------------------------------- mode upgrade (transport level)

func baseInfo(id p2p.ID) p2p.DefaultNodeInfo {
	return p2p.DefaultNodeInfo{ProtocolVersion: p2p.NewProtocolVersion(8, 11, 0), DefaultNodeID: id, ListenAddr: "127.0.0.1:26656",
		Network: "simnet", Version: "0.34.24", Channels: []byte{0x20, 0x30, 0x40}, Moniker: "node"}
}

func idOf(k crypto.PubKey) p2p.ID { return p2p.PubKeyToID(k) }

func addrOf(id p2p.ID) *p2p.NetAddress {
	return &p2p.NetAddress{ID: id, IP: net.IPv4(127, 0, 0, 1), Port: 26656}
}

// liar: the side whose self-description is off in scenarios invalid / incompat.
func (s *sim) liar() int { return s.cfg.Int("var") % 2 }

func (s *sim) setupUpgrade() {
	v := s.cfg.Int("var")
	if s.up == "self" {
		s.sd[1].priv = s.sd[0].priv
	}
	for i := 0; i < 2; i++ {
		s.sd[i].info = baseInfo(idOf(s.sd[i].priv.PubKey()))
	}
	peerOf := func(i int) p2p.ID {
		if s.evilTopo {
			if s.up == "reflect" {
				return idOf(s.sd[1-i].priv.PubKey()) // whom side i believes it is dialling
			}
			return idOf(s.privM.PubKey())
		}
		return idOf(s.sd[1-i].priv.PubKey())
	}
	if s.cfg.Bool("dial") {
		s.sd[0].dialed = addrOf(peerOf(0))
	}
	b := &s.sd[s.liar()].info
	switch s.up {
	case "wrong_dial":
		ids := []p2p.ID{idOf(s.privM.PubKey()), idOf(s.sd[0].priv.PubKey()), p2p.ID(fmt.Sprintf("%040x", v))}
		s.sd[0].dialed = addrOf(ids[(v/2)%3])
	case "incompat":
		switch (v / 2) % 3 {
		case 0:
			b.Network = "othernet"
		case 1:
			b.ProtocolVersion.Block = 12
		default:
			b.Channels = []byte{0x21, 0x31}
		}
	case "invalid":
		switch (v / 2) % 9 {
		case 0:
			b.DefaultNodeID = "deadbeef"
		case 1:
			b.DefaultNodeID = p2p.ID(strings.Repeat("zz", 20))
		case 2:
			b.ListenAddr = "127.0.0.1"
		case 3:
			b.ListenAddr = "127.0.0.1:http"
		case 4:
			b.Channels = []byte{1, 2, 3, 4, 5, 6, 7, 8, 9, 10, 11, 12, 13, 14, 15, 16, 17}
		case 5:
			b.Channels = []byte{0x20, 0x30, 0x20}
		case 6:
			b.Moniker = ""
		case 7:
			b.Version = "\t"
		default:
			b.Other.TxIndex = "maybe"
		}
	}
	for i := 0; i < 2; i++ {
		sd := s.sd[i]
		sd.mt = p2p.NewMultiplexTransport(sd.info, p2p.NodeKey{PrivKey: sd.priv}, conn.DefaultMConnConfig())
	}
}

// refValid / refCompatible: what spec/p2p/peer.md says about an acceptable NodeInfo.
func refValid(ni p2p.DefaultNodeInfo) bool {
	id := string(ni.DefaultNodeID)
	if len(id) != 40 {
		return false
	}
	for _, c := range id {
		if !strings.ContainsRune("0123456789abcdef", c) {
			return false
		}
	}
	host, port, err := net.SplitHostPort(ni.ListenAddr)
	if err != nil || net.ParseIP(host) == nil {
		return false
	}
	for _, c := range port {
		if c < '0' || c > '9' {
			return false
		}
	}
	if len(ni.Channels) > 16 {
		return false
	}
	seen := map[byte]bool{}
	for _, c := range ni.Channels {
		if seen[c] {
			return false
		}
		seen[c] = true
	}
	return strings.TrimSpace(ni.Moniker) != "" && strings.TrimSpace(ni.Version) != "" && (ni.Other.TxIndex == "" || ni.Other.TxIndex == "on" || ni.Other.TxIndex == "off")
}

func refCompatible(a, b p2p.DefaultNodeInfo) bool {
	if a.ProtocolVersion.Block != b.ProtocolVersion.Block || a.Network != b.Network {
		return false
	}
	for _, x := range a.Channels {
		for _, y := range b.Channels {
			if x == y {
				return true
			}
		}
	}
	return false
}

// evilInfo: the NodeInfo the attacker sends in mode upgrade (nil = not yet / nothing).
func (e *evilEnd) upgradeInfo() []byte {
	s := e.s
	v := s.cfg.Int("var")
	mid := idOf(s.privM.PubKey())
	var ni p2p.DefaultNodeInfo
	switch s.up {
	case "nodeinfo_id":
		ids := []p2p.ID{idOf(s.sd[1-e.r].priv.PubKey()), idOf(s.sd[e.r].priv.PubKey()), p2p.ID(fmt.Sprintf("%040x", v)), mid}
		ni = baseInfo(ids[v%4])
	case "reflect":
		if v%2 == 1 {
			ni = baseInfo(mid)
			break
		}
		// echo the victim's own NodeInfo once it has arrived completely
		l, k := binary.Uvarint(e.inPlain)
		if k <= 0 || len(e.inPlain) < k+int(l) {
			return nil
		}
		return append([]byte{}, e.inPlain[:k+int(l)]...)
	default:
		ni = baseInfo(mid)
	}
	e.sentNI = &ni
	b, err := protoio.MarshalDelimited(ni.ToProto())
	if err != nil {
		panic(err)
	}
	return b
}

func (e *evilEnd) trySendInfo() {
	if !e.s.upgrade || e.sentInfo || !e.sentAuth || !e.gotAuth || e.broken {
		return
	}
	b := e.upgradeInfo()
	if b == nil {
		return
	}
	e.sentInfo = true
	for _, c := range chunkSizes(len(b)) {
		e.enqueueFrame(e.seal(uint32(c), b[:c]), true)
		b = b[c:]
	}
}

// checkUpgrade: both VerifUpgrade calls have returned. Caller holds mu.
func (s *sim) checkUpgrade() {
	e := s.env
	hs := s.cfg.Str("hs")
	v := s.cfg.Int("var")
	okc := 0
	for i := 0; i < 2; i++ {
		sd := s.sd[i]
		if sd.hsPanic != "" {
			e.Fail("C16", "upgrade-panic", "upgrade of side %d panicked: %s", i, sd.hsPanic)
		}
		who := fmt.Sprintf("side %d (scenario %s/%s/%d, dialled=%v)", i, s.up, hs, v, sd.dialed != nil)
		if sd.hsErr != nil {
			rej, isRej := sd.hsErr.(p2p.ErrRejected)
			if !isRej {
				e.Fail("C16", "upgrade-error-type", "%s: upgrade failed with %T, not ErrRejected: %v", who, sd.hsErr, sd.hsErr)
			}
			if !sd.end.closed {
				e.Fail("C16", "conn-not-closed", "%s: upgrade failed (%v) but left the connection open", who, sd.hsErr)
			}
			want := ""
			switch {
			case s.up == "honest":
				e.Fail("C16", "upgrade-failed", "%s: upgrade between two honest, compatible nodes failed: %v", who, sd.hsErr)
			case s.up == "wrong_dial" && i == 0:
				want = "auth"
			case s.up == "self":
				want = "self"
			case s.up == "incompat":
				want = "incompat"
			case s.up == "invalid" && i != s.liar():
				want = "invalid"
				if (v/2)%9 < 2 {
					want = "invalid|auth"
				}
			case s.up == "nodeinfo_id" && v%4 != 3:
				want = "auth"
			case s.up == "nodeinfo_id":
				e.Fail("C16", "upgrade-failed", "%s: upgrade with a peer that authenticated its own key and reported the matching id failed: %v", who, sd.hsErr)
			case s.up == "reflect":
				want = "self|auth"
			}
			got := map[string]bool{"auth": rej.IsAuthFailure(), "self": rej.IsSelf(), "incompat": rej.IsIncompatible(), "invalid": rej.IsNodeInfoInvalid()}
			if want != "" && isRej {
				hit := false
				for _, w := range strings.Split(want, "|") {
					hit = hit || got[w]
				}
				if !hit {
					e.Fail("C16", "wrong-reject-reason", "%s: rejected, but not as %s: %v", who, want, sd.hsErr)
				}
			}
			e.Note("upgrade side=%d err=%v", i, sd.hsErr)
			continue
		}
		okc++
		// success: the identity the caller gets must be the one that was authenticated, and it
		// must be the party that really is at the other end
		if sd.sc == nil || sd.upNI == nil {
			e.Fail("C16", "upgrade-nil", "%s: success without connection / node info", who)
		}
		rp := sd.sc.RemotePubKey()
		ni, _ := sd.upNI.(p2p.DefaultNodeInfo)
		if sd.upNI.ID() != idOf(rp) {
			e.Fail("C16", "id-mismatch-accepted", "%s: accepted a peer whose self-reported id %s is not the id of the key the secret connection authenticated", who, sd.upNI.ID())
		}
		if sd.dialed != nil && sd.dialed.ID != idOf(rp) {
			e.Fail("C16", "dialed-mismatch-accepted", "%s: dialled id %s, accepted a peer that authenticated a different key", who, sd.dialed.ID)
		}
		if rp.Equals(sd.priv.PubKey()) {
			e.Fail("C16", "self-accepted", "%s: accepted a connection authenticated with its own key", who)
		}
		if !refValid(ni) {
			e.Fail("C16", "invalid-nodeinfo-accepted", "%s: accepted a malformed NodeInfo", who)
		}
		if !refCompatible(sd.info, ni) {
			e.Fail("C16", "incompatible-accepted", "%s: accepted a peer on another network / block version / without common channels", who)
		}
		if s.evilTopo {
			ev := sd.evil
			if !ev.honest || !rp.Equals(s.privM.PubKey()) {
				e.Fail("C16", "auth-bypass", "%s: upgrade succeeded although the attacker did not prove possession of the key it presented", who)
			}
		} else {
			lr, lo := s.st[i].layout, s.st[1-i].layout
			clean := len(lr) >= 3 && len(lo) >= 1 && lo[0].orig == 0
			for k := 0; clean && k < 3; k++ {
				clean = lr[k].orig == k
			}
			if !clean {
				e.Fail("C16", "auth-bypass", "%s: upgrade succeeded although the man in the middle changed the exchange it saw", who)
			}
			if !rp.Equals(s.sd[1-i].priv.PubKey()) {
				e.Fail("C16", "wrong-remote-key", "%s: authenticated key is not the peer's", who)
			}
		}
		if s.up == "wrong_dial" && i == 1 || s.up == "self" || s.up == "incompat" || s.up == "reflect" || s.up == "invalid" && i != s.liar() {
			e.Fail("C16", "should-have-rejected", "%s: upgrade succeeded", who)
		}
	}
	e.Count(fmt.Sprintf("probe.up_%s_ok%d", s.up, okc))
	if n, sample := leakedP2P(); n > 0 {
		e.Fail("C16", "goroutine-left", "%d goroutine(s) still inside tendermint/p2p after both upgrades returned:\n%s", n, sample)
	}
}

func leakedP2P() (int, string) {
	buf := make([]byte, 1<<20)
	n := runtime.Stack(buf, true)
	cnt, sample := 0, ""
	for _, g := range strings.Split(string(buf[:n]), "\n\n") {
		if strings.Contains(g, "github.com/tendermint/tendermint/p2p") && !strings.Contains(g, "secconnsim.leakedP2P") {
			cnt++
			if sample == "" {
				sample = g
				if len(sample) > 1200 {
					sample = sample[:1200]
				}
			}
		}
	}
	return cnt, sample
}
