#!/usr/bin/env python3
"""Regenerates MANIFEST.json from checks.json + manifest_meta.json (run after editing either)."""
import json, os
V = os.path.dirname(os.path.abspath(__file__))
checks = json.load(open(os.path.join(V, "checks.json")))["checks"]
meta = json.load(open(os.path.join(V, "manifest_meta.json")))
props = [json.loads(l) for l in open(os.path.join(V, "properties.jsonl"))]
out = {
    "version": 1,
    "setup_cmd": "cd /verif && bin/vsim build",
    "hooks": meta["hooks"],
    "engines": meta["engines"],
    "checks": [],
    "not_applicable": [],
    "notes": meta["notes"],
}
for p in props:
    pid = p["id"]
    if pid in checks:
        c = checks[pid]
        m = meta["checks"][pid]
        out["checks"].append({
            "property_id": pid,
            "quick_cmd": "bin/vsim check %s --tier quick" % pid,
            "thorough_cmd": "bin/vsim check %s --tier thorough" % pid,
            "evidence_file": "/verif/evidence/%s.json" % pid,
            "replay_cmd_template": "bin/vsim replay {path}",
            "engine": "+".join(e["harness"] for e in c["engines"]),
            "level_claimed": {"category": c["level"], "text": m["level_text"], "design_ref": m.get("design_ref", "DESIGN.md §6 " + pid)},
            "level_note": m["level_note"],
            "technique": m.get("technique", "deterministic simulation with fault injection: seeded search over schedules and fault sequences, oracle = invariants + reference model over the recorded history"),
        })
    else:
        out["not_applicable"].append({"property_id": pid, "reason": meta["not_applicable"][pid]})
json.dump(out, open(os.path.join(V, "MANIFEST.json"), "w"), indent=1)
print("claimed:", [c["property_id"] for c in out["checks"]])
