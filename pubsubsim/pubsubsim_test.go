// Package pubsubsim: deterministic simulation of the real libs/pubsub Server (optionally under
// the real types.EventBus) with PRNG subscribers / publishers, and of the real kv tx / block
// indexers fed by the real IndexerService through a real EventBus. Decides C19.
//
// Files: pubsubsim_test.go (harness, query AST, reference matcher, generators),
// pubsub_mode_test.go (part A: delivery oracle), index_mode_test.go (part B: index / search oracle).
package pubsubsim

import (
	"fmt"
	"os"
	"regexp"
	"sort"
	"strconv"
	"strings"
	"testing"
	"time"

	"verif/simcore"
)

func TestMain(m *testing.M) {
	simcore.InitProcess()
	os.Exit(m.Run())
}

func TestSim(t *testing.T) { simcore.Main(t, harness) }

var harness = &simcore.Harness{
	Name:         "pubsubsim",
	Props:        []string{"C19"},
	Config:       genConfig,
	New:          newSim,
	MaxOps:       400,
	MinimizeReps: 4,
	Real: []string{"libs/pubsub.Server (loop, state.add/remove/removeClient/removeAll/send, Subscribe, SubscribeUnbuffered, Unsubscribe, UnsubscribeAll, PublishWithEvents, Stop)",
		"libs/pubsub/query.Query (New, Matches, Conditions) - the parser and the matcher",
		"types.EventBus (PublishEventTx / NewBlock / NewBlockHeader / Vote / Publish, validateAndStringifyEvents) in bus runs and in index mode",
		"state/txindex.IndexerService, state/txindex/kv.TxIndex (AddBatch, Get, Search), state/indexer/block/kv.BlockerIndexer (Index, Has, Search) over tm-db MemDB (+PrefixDB as node.go wires it)"},
	Stub: []string{"index mode fault: the index DB (MemDB behind a wrapper) can stall - batch Write/WriteSync parks until the simulator releases it - while the schedule keeps committing (mostly empty) blocks; pubsub mode fault: Subscribe with a context that expires / is already cancelled while the server loop is blocked on an unread unbuffered subscriber, followed by a retry",
		"subscribers and publishers are simulator actors (no RPC/websocket layer); publications are generated attribute maps / ABCI events, not produced by a block executor",
		"index mode: blocks are (height, begin/end events, txs with DeliverTx results) records published in the order state/execution.go fireEvents uses; no consensus, no stores"},
	Assumptions: []string{"query-language semantics taken from rpc/openapi /subscribe, docs/app-dev/indexing-transactions.md and the package docs of libs/pubsub/query: AND of conditions, a condition holds if ANY value of the composite key satisfies it, an operand whose type does not fit a value does not match that value",
		"cases the documentation leaves open (integer operand against a non-integral value, numeric operand against a value that merely contains digits, EXISTS on a key without a dot, two range conditions on one multi-valued key) are accepted either way",
		"relaxed mode, only while the class lost-foreign-type-mismatch is LISTED in KNOWN_FINDINGS: delivery of a publication on which some live subscription's query has an ill-typed operand is treated as unspecified, and index mode publishes three more blocks after an ill-typed bundle and then ends the run",
		"every simulator action ends with the pubsub server idle (unbuffered subscriptions are drained by the simulator), so observations are independent of Go map iteration order in a correct server"},
}

// ---------------------------------------------------------------- configuration

func genConfig(rng *simcore.RNG, env *simcore.Env) simcore.Op {
	c := simcore.Op{}
	if rng.Bool(0.55) {
		c["mode"] = "pubsub"
		c["bus"] = rng.Bool(0.35)
		c["cmdcap"] = []int{0, 0, 1, 3, 100}[rng.Intn(5)]
		c["clients"] = rng.Range(1, 5)
		c["canaries"] = []int{0, 16, 16, 16, 20}[rng.Intn(5)]
		c["nops"] = rng.Range(15, 90)
		if env.Thorough() {
			c["nops"] = rng.Range(15, 250)
		}
		c["poison"] = rng.Bool(0.6)  // bundles of queries whose operand type does not fit the values published
		c["mix"] = rng.Bool(0.5)     // untyped "mix.*" attributes
		c["dotless"] = rng.Bool(0.2) // EXISTS on a key without a dot
		c["share"] = rng.Intn(4)     // 0..3: how often a new subscription reuses an existing query string
		c["burst"] = []int{1, 2, 4, 8}[rng.Intn(4)]
		c["stop"] = rng.Bool(0.3)
	} else {
		c["mode"] = "index"
		c["nops"] = rng.Range(10, 60)
		if env.Thorough() {
			c["nops"] = rng.Range(10, 160)
		}
		c["maxtx"] = []int{0, 1, 3, 6}[rng.Intn(4)]
		c["canaries"] = []int{0, 16, 16}[rng.Intn(3)]
		c["foreign"] = rng.Bool(0.5) // other well-behaved subscribers on the bus
		c["poison"] = rng.Bool(0.4)  // other subscribers with ill-typed queries
		c["noindex"] = rng.Bool(0.5) // some attributes carry Index=false
		// query / value features where implementation and plain reading are suspected to differ
		c["f_hash_and"] = rng.Bool(0.15)
		c["f_dup_bounds"] = rng.Bool(0.15)
		c["f_float"] = rng.Bool(0.15)
		c["f_height_and"] = rng.Bool(0.15)
		c["f_height_str"] = rng.Bool(0.1)
		c["f_slash"] = rng.Bool(0.15)
		c["stall"] = rng.Bool(0.6) // fault: the index DB stalls while (mostly empty) blocks keep being committed
	}
	return c
}

func newSim(env *simcore.Env, cfg simcore.Op) simcore.Sim {
	if cfg.Str("mode") == "index" {
		return newIndexSim(env, cfg)
	}
	return newPubsubSim(env, cfg)
}

// ---------------------------------------------------------------- query AST

// cond is one condition of a query. T is the operand kind: "s" string, "i" integer, "f" float,
// "t" time (RFC3339), "d" date; empty for EXISTS. V is the operand literal without decoration.
type cond struct {
	Key, Op, T, V string
}

func (c cond) op() simcore.Op { return simcore.Op{"k": c.Key, "o": c.Op, "t": c.T, "v": c.V} }

func condsToOps(cs []cond) []simcore.Op {
	out := make([]simcore.Op, len(cs))
	for i, c := range cs {
		out[i] = c.op()
	}
	return out
}

func condsFromOps(ops []simcore.Op) []cond {
	out := make([]cond, 0, len(ops))
	for _, o := range ops {
		out = append(out, cond{o.Str("k"), o.Str("o"), o.Str("t"), o.Str("v")})
	}
	return out
}

func (c cond) render(tight bool) string {
	sp := " "
	if tight {
		sp = ""
	}
	switch c.Op {
	case "EXISTS":
		return c.Key + " EXISTS"
	case "CONTAINS":
		return c.Key + " CONTAINS " + "'" + c.V + "'"
	}
	var lit string
	switch c.T {
	case "s":
		lit = "'" + c.V + "'"
	case "i", "f":
		lit = c.V
	case "t":
		lit = "TIME " + c.V
	case "d":
		lit = "DATE " + c.V
	}
	return c.Key + sp + c.Op + sp + lit
}

func renderQuery(cs []cond, tight bool) string {
	parts := make([]string, len(cs))
	for i, c := range cs {
		parts[i] = c.render(tight)
	}
	return strings.Join(parts, " AND ")
}

// ---------------------------------------------------------------- reference matcher

// tri is the verdict of the reference: no / unspecified by the documentation / yes.
type tri int8

const (
	no tri = iota
	either
	yes
)

func (t tri) String() string { return [...]string{"no", "either", "yes"}[t] }

var (
	cleanNum = regexp.MustCompile(`^[0-9]{1,15}(\.[0-9]{1,9})?$`)
	anyDigit = regexp.MustCompile(`[0-9]`)
)

func parseTimeValue(v string) (time.Time, bool) {
	if t, err := time.Parse(time.RFC3339, v); err == nil {
		return t, true
	}
	if t, err := time.Parse("2006-01-02", v); err == nil {
		return t, true
	}
	return time.Time{}, false
}

func cmpOp(op string, c int) bool {
	switch op {
	case "=":
		return c == 0
	case "<":
		return c < 0
	case "<=":
		return c <= 0
	case ">":
		return c > 0
	case ">=":
		return c >= 0
	}
	return false
}

// evalValue: does value v satisfy condition c (c.Op is not EXISTS)? mism reports that the
// operand's type does not fit the value.
func evalValue(c cond, v string) (r tri, mism bool) {
	switch c.T {
	case "s":
		switch c.Op {
		case "=":
			if v == c.V {
				return yes, false
			}
		case "CONTAINS":
			if strings.Contains(v, c.V) {
				return yes, false
			}
		}
		return no, false
	case "i", "f":
		if !cleanNum.MatchString(v) {
			if anyDigit.MatchString(v) {
				// "10atom", "-5", "1.2.3": whether the number inside counts is not documented
				return either, true
			}
			return no, true
		}
		x, _ := strconv.ParseFloat(v, 64)
		o, _ := strconv.ParseFloat(c.V, 64)
		if c.T == "i" && x != float64(int64(x)) {
			return either, false // integer operand against a non-integral value
		}
		k := 0
		if x < o {
			k = -1
		} else if x > o {
			k = 1
		}
		if cmpOp(c.Op, k) {
			return yes, false
		}
		return no, false
	case "t", "d":
		tv, ok := parseTimeValue(v)
		if !ok {
			return no, true
		}
		var o time.Time
		if c.T == "t" {
			o, _ = time.Parse(time.RFC3339, c.V)
		} else {
			o, _ = time.Parse("2006-01-02", c.V)
		}
		k := 0
		if tv.Before(o) {
			k = -1
		} else if tv.After(o) {
			k = 1
		}
		if cmpOp(c.Op, k) {
			return yes, false
		}
		return no, false
	}
	return no, false
}

// evalCond: a condition holds if any value of its key satisfies it.
func evalCond(c cond, events map[string][]string) (r tri, mism bool) {
	if c.Op == "EXISTS" {
		if strings.Contains(c.Key, ".") {
			if _, ok := events[c.Key]; ok {
				return yes, false
			}
			return no, false
		}
		r = no
		for k := range events {
			if k == c.Key || strings.HasPrefix(k, c.Key+".") {
				return yes, false
			}
			if strings.HasPrefix(k, c.Key) {
				r = either
			}
		}
		return r, false
	}
	vals, ok := events[c.Key]
	if !ok {
		return no, false
	}
	r = no
	for _, v := range vals {
		x, m := evalValue(c, v)
		mism = mism || m
		if x > r {
			r = x
		}
	}
	return r, mism
}

// evalQuery: AND of the conditions.
func evalQuery(cs []cond, events map[string][]string) (r tri, mism bool) {
	if len(events) == 0 {
		return no, false
	}
	r = yes
	for _, c := range cs {
		x, m := evalCond(c, events)
		mism = mism || m
		if x < r {
			r = x
		}
	}
	return r, mism
}

func isRangeOp(op string) bool { return op == "<" || op == "<=" || op == ">" || op == ">=" }

// evalQueryRanged: as evalQuery, but all range conditions on one key must be satisfied by one
// and the same value (the reading under which "k > 1 AND k < 5" denotes an interval).
func evalQueryRanged(cs []cond, events map[string][]string) tri {
	if len(events) == 0 {
		return no
	}
	r := yes
	groups := map[string][]cond{}
	var order []string
	for _, c := range cs {
		if isRangeOp(c.Op) {
			if _, ok := groups[c.Key]; !ok {
				order = append(order, c.Key)
			}
			groups[c.Key] = append(groups[c.Key], c)
			continue
		}
		if x, _ := evalCond(c, events); x < r {
			r = x
		}
	}
	for _, k := range order {
		best := no
		for _, v := range events[k] {
			all := yes
			for _, c := range groups[k] {
				if x, _ := evalValue(c, v); x < all {
					all = x
				}
			}
			if all > best {
				best = all
			}
		}
		if best < r {
			r = best
		}
	}
	return r
}

// ---------------------------------------------------------------- vocabulary and generators

type keySpec struct{ key, flavor string }

var typedKeys = []keySpec{
	{"acc.owner", "name"}, {"acc.balance", "int"}, {"acc.rate", "num"}, {"account.owner", "name"},
	{"transfer.amount", "int"}, {"transfer.sender", "name"}, {"transfer.time", "time"}, {"transfer.date", "date"},
	{"rewards.withdraw.address", "name"}, {"rewards.withdraw.amount", "int"},
}
var mixKeys = []keySpec{{"mix.val", "mix"}, {"mix.note", "mix"}}

var pools = map[string][]string{
	"name":  {"Bob", "bob", "Ivan", "Ulan", "an", "AddrA", "AddrB", "New York", "cosmos1xyz", ""},
	"int":   {"0", "1", "5", "7", "10", "42", "100", "999", "1000", "123456"},
	"float": {"2.5", "7.0", "10.25", "0.5", "99.9"},
	"time":  {"2013-05-03T14:45:00Z", "2019-12-31T23:59:59Z", "2020-01-01T00:00:00+02:00", "2021-06-15T12:00:00-05:00"},
	"date":  {"2013-05-03", "2019-12-31", "2020-01-01", "2021-06-15"},
	"odd":   {"10atom", "a1", "1.2.3", "-5", "5.", "Tx", "T", "x y"},
}
var substrings = []string{"o", "an", "Addr", "B", "1", "0", "-", "T", "xyz", "2020"}
var intOperands = []string{"0", "1", "5", "7", "10", "42", "100", "1000"}
var floatOperands = []string{"1.5", "2.5", "7.0", "10.25", "100.0"}

func pick(rng *simcore.RNG, p []string) string { return p[rng.Intn(len(p))] }

func genValue(rng *simcore.RNG, flavor string) string {
	switch flavor {
	case "num":
		if rng.Bool(0.5) {
			return pick(rng, pools["int"])
		}
		return pick(rng, pools["float"])
	case "mix":
		return pick(rng, pools[[]string{"name", "int", "float", "time", "date", "odd"}[rng.Intn(6)]])
	}
	return pick(rng, pools[flavor])
}

// genEvents draws an attribute map over the vocabulary. want lists keys that should be present
// with high probability (keys of ill-typed subscriptions, so that they are exercised).
func genEvents(rng *simcore.RNG, mix bool, want []string) map[string][]string {
	ev := map[string][]string{}
	keys := append([]keySpec{}, typedKeys...)
	if mix {
		keys = append(keys, mixKeys...)
	}
	n := rng.Range(1, 5)
	for i := 0; i < n; i++ {
		ks := keys[rng.Intn(len(keys))]
		if _, ok := ev[ks.key]; ok {
			continue
		}
		m := 1
		if rng.Bool(0.3) {
			m = rng.Range(2, 3)
		}
		for j := 0; j < m; j++ {
			ev[ks.key] = append(ev[ks.key], genValue(rng, ks.flavor))
		}
	}
	for _, k := range want {
		if _, ok := ev[k]; ok || !rng.Bool(0.7) {
			continue
		}
		for _, ks := range keys {
			if ks.key == k {
				ev[k] = append(ev[k], genValue(rng, ks.flavor))
			}
		}
	}
	return ev
}

func eventsToOp(ev map[string][]string) simcore.Op {
	o := simcore.Op{}
	for k, v := range ev {
		o[k] = v
	}
	return o
}

func eventsFromOp(o simcore.Op) map[string][]string {
	ev := map[string][]string{}
	for k := range o {
		ev[k] = o.Strs(k)
	}
	return ev
}

func sortedKeys(ev map[string][]string) []string {
	ks := make([]string, 0, len(ev))
	for k := range ev {
		ks = append(ks, k)
	}
	sort.Strings(ks)
	return ks
}

// genGoodCond draws a condition that can never make a matcher fail on the vocabulary: the
// operand's type fits the flavor of the key's values (or the operand is a string).
func genGoodCond(rng *simcore.RNG, mix, dotless bool) cond {
	keys := append([]keySpec{}, typedKeys...)
	if mix {
		keys = append(keys, mixKeys...)
	}
	if rng.Bool(0.06) {
		return cond{Key: "ghost.key", Op: []string{"=", "EXISTS", "CONTAINS"}[rng.Intn(3)], T: "s", V: "Bob"}.fix()
	}
	if dotless && rng.Bool(0.15) {
		return cond{Key: []string{"acc", "account", "transfer", "rewards", "rewards.withdraw", "mix"}[rng.Intn(6)], Op: "EXISTS"}
	}
	ks := keys[rng.Intn(len(keys))]
	if rng.Bool(0.12) {
		return cond{Key: ks.key, Op: "EXISTS"}
	}
	rangeOps := []string{"=", "<", "<=", ">", ">="}
	switch ks.flavor {
	case "int", "num":
		switch rng.Intn(6) {
		case 0:
			return cond{ks.key, "=", "s", genValue(rng, ks.flavor)}
		case 1:
			return cond{ks.key, "CONTAINS", "s", pick(rng, substrings)}
		case 2:
			return cond{ks.key, rangeOps[rng.Intn(5)], "f", pick(rng, floatOperands)}
		default:
			return cond{ks.key, rangeOps[rng.Intn(5)], "i", pick(rng, intOperands)}
		}
	case "time", "date":
		switch rng.Intn(5) {
		case 0:
			return cond{ks.key, "=", "s", genValue(rng, ks.flavor)}
		case 1:
			return cond{ks.key, "CONTAINS", "s", pick(rng, substrings)}
		case 2:
			return cond{ks.key, rangeOps[rng.Intn(5)], "d", pick(rng, pools["date"])}
		default:
			return cond{ks.key, rangeOps[rng.Intn(5)], "t", pick(rng, pools["time"])}
		}
	default: // name, mix: string operands only
		if rng.Bool(0.5) {
			return cond{ks.key, "=", "s", strings.ReplaceAll(genValue(rng, ks.flavor), "'", "")}
		}
		return cond{ks.key, "CONTAINS", "s", pick(rng, substrings)}
	}
}

func (c cond) fix() cond {
	if c.Op == "EXISTS" {
		c.T, c.V = "", ""
	}
	return c
}

func genGoodQuery(rng *simcore.RNG, mix, dotless bool) []cond {
	n := []int{1, 1, 1, 2, 2, 3}[rng.Intn(6)]
	cs := make([]cond, 0, n)
	for i := 0; i < n; i++ {
		cs = append(cs, genGoodCond(rng, mix, dotless))
	}
	return cs
}

// genPoisonBase draws a condition whose operand type does not fit (some of) the values
// published under its key. always is a key that every publication carries with a non-numeric,
// non-time value.
func genPoisonBase(rng *simcore.RNG, mix bool, always string) cond {
	var key string
	switch k := rng.Intn(10); {
	case k < 4:
		key = always
	case k < 6:
		key = []string{"acc.owner", "account.owner", "transfer.sender", "rewards.withdraw.address"}[rng.Intn(4)]
	case k < 8 && mix:
		key = mixKeys[rng.Intn(2)].key
	case k < 9:
		key = []string{"acc.balance", "transfer.amount"}[rng.Intn(2)] // numeric values against a time operand
		return cond{key, []string{"=", "<", ">="}[rng.Intn(3)], []string{"t", "d"}[rng.Intn(2)], ""}
	default:
		key = always
	}
	op := []string{"=", "<", "<=", ">", ">="}[rng.Intn(5)]
	return cond{key, op, []string{"i", "i", "f", "t", "d"}[rng.Intn(5)], ""}
}

// poisonVariant returns the j-th member of a bundle of ill-typed conditions (distinct operands
// => distinct query strings => distinct entries in the server's query table).
func poisonVariant(base cond, j int) cond {
	c := base
	switch base.T {
	case "i":
		c.V = strconv.Itoa(3 + j)
	case "f":
		c.V = fmt.Sprintf("%d.5", 3+j)
	case "t":
		c.V = fmt.Sprintf("2020-01-%02dT00:00:00Z", 1+j)
	case "d":
		c.V = fmt.Sprintf("2020-01-%02d", 1+j)
	}
	return c
}
