package pubsubsim

import (
	"context"
	"crypto/sha256"
	"fmt"
	"reflect"
	"strconv"
	"strings"
	"sync"
	"time"

	abci "github.com/tendermint/tendermint/abci/types"
	"github.com/tendermint/tendermint/libs/log"
	"github.com/tendermint/tendermint/libs/pubsub"
	"github.com/tendermint/tendermint/libs/pubsub/query"
	"github.com/tendermint/tendermint/types"

	"verif/simcore"
)

// ---------------------------------------------------------------- seam: plain server or event bus

type subscription interface {
	Out() <-chan pubsub.Message
	Cancelled() <-chan struct{}
	Err() error
}

type backend interface {
	subscribe(ctx context.Context, client string, q pubsub.Query, capacity int) (subscription, error)
	unsubscribe(ctx context.Context, client string, q pubsub.Query) error
	unsubscribeAll(ctx context.Context, client string) error
	publish(p *pubRec) // may block
	stop()
	numClientSubs(client string) int
}

type plainBackend struct{ srv *pubsub.Server }

func (b plainBackend) subscribe(ctx context.Context, client string, q pubsub.Query, capacity int) (subscription, error) {
	if capacity == 0 {
		s, err := b.srv.SubscribeUnbuffered(ctx, client, q)
		if err != nil {
			return nil, err
		}
		return s, nil
	}
	s, err := b.srv.Subscribe(ctx, client, q, capacity)
	if err != nil {
		return nil, err
	}
	return s, nil
}
func (b plainBackend) unsubscribe(ctx context.Context, client string, q pubsub.Query) error {
	return b.srv.Unsubscribe(ctx, client, q)
}
func (b plainBackend) unsubscribeAll(ctx context.Context, client string) error {
	return b.srv.UnsubscribeAll(ctx, client)
}
func (b plainBackend) publish(p *pubRec) {
	_ = b.srv.PublishWithEvents(context.Background(), p.id, p.raw)
}
func (b plainBackend) stop()                           { _ = b.srv.Stop() }
func (b plainBackend) numClientSubs(client string) int { return b.srv.NumClientSubscriptions(client) }

type busBackend struct{ bus *types.EventBus }

func (b busBackend) subscribe(ctx context.Context, client string, q pubsub.Query, capacity int) (subscription, error) {
	if capacity == 0 {
		s, err := b.bus.SubscribeUnbuffered(ctx, client, q)
		if err != nil {
			return nil, err
		}
		return s, nil
	}
	s, err := b.bus.Subscribe(ctx, client, q, capacity)
	if err != nil {
		return nil, err
	}
	return s, nil
}
func (b busBackend) unsubscribe(ctx context.Context, client string, q pubsub.Query) error {
	return b.bus.Unsubscribe(ctx, client, q)
}
func (b busBackend) unsubscribeAll(ctx context.Context, client string) error {
	return b.bus.UnsubscribeAll(ctx, client)
}
func (b busBackend) publish(p *pubRec) {
	id := int64(p.id)
	switch p.kind {
	case "tx":
		_ = b.bus.PublishEventTx(types.EventDataTx{TxResult: abci.TxResult{Height: id, Index: 0, Tx: txBytes(p.id),
			Result: abci.ResponseDeliverTx{Events: p.abciA}}})
	case "hdr":
		_ = b.bus.PublishEventNewBlockHeader(types.EventDataNewBlockHeader{Header: types.Header{Height: id},
			ResultBeginBlock: abci.ResponseBeginBlock{Events: p.abciA}, ResultEndBlock: abci.ResponseEndBlock{Events: p.abciB}})
	case "nb":
		_ = b.bus.PublishEventNewBlock(types.EventDataNewBlock{Block: &types.Block{Header: types.Header{Height: id}},
			ResultBeginBlock: abci.ResponseBeginBlock{Events: p.abciA}, ResultEndBlock: abci.ResponseEndBlock{Events: p.abciB}})
	case "vote":
		_ = b.bus.PublishEventVote(types.EventDataVote{Vote: &types.Vote{Height: id}})
	case "barrier":
		_ = b.bus.Publish("SimBarrier", types.EventDataString(strconv.Itoa(p.id)))
	case "block":
		_ = b.bus.Publish("SimBlock", types.EventDataString(strconv.Itoa(p.id)))
	}
}
func (b busBackend) stop()                           { _ = b.bus.Stop() }
func (b busBackend) numClientSubs(client string) int { return b.bus.NumClientSubscriptions(client) }

func txBytes(id int) []byte { return []byte(fmt.Sprintf("tx-%d", id)) }

func msgID(d interface{}) (int, bool) {
	switch v := d.(type) {
	case int:
		return v, true
	case types.EventDataTx:
		return int(v.Height), true
	case types.EventDataNewBlockHeader:
		return int(v.Header.Height), true
	case types.EventDataNewBlock:
		return int(v.Block.Height), true
	case types.EventDataVote:
		return int(v.Vote.Height), true
	case types.EventDataString:
		n, err := strconv.Atoi(string(v))
		return n, err == nil
	}
	return 0, false
}

// splitKey splits a composite key at its last dot into event type and attribute key.
func splitKey(k string) (string, string) {
	i := strings.LastIndex(k, ".")
	if i < 0 {
		return k, ""
	}
	return k[:i], k[i+1:]
}

// abciEvents turns an attribute map into ABCI events, one event per composite key (so several
// events of one type occur), in sorted key order. junk adds an event with an empty type and an
// attribute with an empty key, both of which must be ignored.
func abciEvents(ev map[string][]string, keys []string, junk bool) []abci.Event {
	var out []abci.Event
	for _, k := range keys {
		typ, attr := splitKey(k)
		e := abci.Event{Type: typ}
		for _, v := range ev[k] {
			e.Attributes = append(e.Attributes, abci.EventAttribute{Key: []byte(attr), Value: []byte(v), Index: true})
		}
		if junk {
			e.Attributes = append(e.Attributes, abci.EventAttribute{Key: nil, Value: []byte("ignored"), Index: true})
		}
		out = append(out, e)
	}
	if junk {
		out = append(out, abci.Event{Type: "", Attributes: []abci.EventAttribute{{Key: []byte("k"), Value: []byte("v"), Index: true}}})
	}
	return out
}

// ---------------------------------------------------------------- records

type pubRec struct {
	id     int
	kind   string              // plain | tx | hdr | nb | vote | barrier
	events map[string][]string // what subscribers must see (reference of the bus' stringification in bus runs)
	raw    map[string][]string // the map handed to PublishWithEvents (plain runs)
	abciA  []abci.Event
	abciB  []abci.Event
}

type expEntry struct {
	id  int
	may bool
}

type subRec struct {
	idx      int
	client   string
	qstr     string
	q        pubsub.Query
	conds    []cond
	capacity int // 0 = unbuffered
	speed    int
	pump     bool
	canary   bool
	sentinel bool
	blocker  bool // unbuffered, read only when the simulator drains: lets an action hold the server loop blocked
	poison   bool
	sub      subscription
	born     int // id of the last publication before the subscription

	// model
	mCancelled bool
	mErr       string // cap | unsub | shutdown
	died       int    // id of the last publication before the model cancelled it
	overflow   int    // id of the publication that found the buffer full
	exp        []expEntry
	imprecise  bool // some expectation is "either", or a known finding desynchronised the model

	// observed
	got    []int
	cur    int // exp[:cur] is settled against got[:walked]
	walked int

	mu      sync.Mutex
	mailbox []pubsub.Message // pump goroutine -> simulator
}

type psim struct {
	env *simcore.Env
	cfg simcore.Op
	be  backend
	bus bool

	subs     []*subRec
	reg      map[string]map[string]bool // client -> query string -> registered at the server
	pubs     map[int]*pubRec
	nextID   int
	sentinel *subRec
	blocker  *subRec
	opsLeft  int
	stopped  bool
	wedged   bool
	poisoned bool // an ill-typed bundle was subscribed: observations may depend on map order (if the defect exists)
	pbundles int
	pkeys    []string
	stopPump chan struct{}
	qpool    [][]cond
}

// canaries and ill-typed bundles are drained by the simulator after every action; the capacity only
// has to hold one action's publications
const canaryCap = 64

func newPubsubSim(env *simcore.Env, cfg simcore.Op) simcore.Sim {
	s := &psim{env: env, cfg: cfg, bus: cfg.Bool("bus"), reg: map[string]map[string]bool{}, pubs: map[int]*pubRec{},
		opsLeft: cfg.Int("nops"), stopPump: make(chan struct{})}
	if s.bus {
		b := types.NewEventBusWithBufferCapacity(cfg.Int("cmdcap"))
		b.SetLogger(log.NewNopLogger())
		if err := b.Start(); err != nil {
			panic(err)
		}
		s.be = busBackend{b}
	} else {
		srv := pubsub.NewServer(pubsub.BufferCapacity(cfg.Int("cmdcap")))
		srv.SetLogger(log.NewNopLogger())
		if err := srv.Start(); err != nil {
			panic(err)
		}
		s.be = plainBackend{srv}
	}
	env.Settle()
	// sentinel: receives only barrier publications
	if s.bus {
		s.sentinel = s.addSub("sim-sentinel", "tm.event = 'SimBarrier'", []cond{{"tm.event", "=", "s", "SimBarrier"}}, 0)
	} else {
		s.sentinel = s.addSub("sim-sentinel", "sim.barrier EXISTS", []cond{{Key: "sim.barrier", Op: "EXISTS"}}, 0)
	}
	s.sentinel.sentinel = true
	if s.bus {
		s.blocker = s.addSub("sim-blocker", "tm.event = 'SimBlock'", []cond{{"tm.event", "=", "s", "SimBlock"}}, 0)
	} else {
		s.blocker = s.addSub("sim-blocker", "sim.block EXISTS", []cond{{Key: "sim.block", Op: "EXISTS"}}, 0)
	}
	s.blocker.blocker = true
	// canaries: distinct query strings that match every publication
	for j := 0; j < cfg.Int("canaries"); j++ {
		pad := strings.Repeat(" ", 1+j/2)
		var qs string
		var cs []cond
		switch {
		case s.bus:
			qs, cs = "tm.event"+strings.Repeat(" ", 1+j)+"EXISTS", []cond{{Key: "tm.event", Op: "EXISTS"}}
		case j%2 == 0:
			qs, cs = "sim.tag"+pad+"EXISTS", []cond{{Key: "sim.tag", Op: "EXISTS"}}
		default:
			qs, cs = "sim.seq >"+pad+"0", []cond{{"sim.seq", ">", "i", "0"}}
		}
		c := s.addSub(fmt.Sprintf("sim-canary-%d", j), qs, cs, canaryCap)
		c.canary = true
	}
	return s
}

func (s *psim) ctx() (context.Context, context.CancelFunc) {
	return context.WithTimeout(context.Background(), time.Second)
}

// trySub calls Subscribe with the given context; on success it settles and records the subscription.
func (s *psim) trySub(ctx context.Context, client, qstr string, conds []cond, capacity int) (*subRec, error) {
	q, err := query.New(qstr)
	if err != nil {
		panic(fmt.Sprintf("generator produced an unparsable query %q: %v", qstr, err))
	}
	sub, err := s.be.subscribe(ctx, client, q, capacity)
	if err != nil {
		return nil, err
	}
	s.env.Settle()
	sr := &subRec{idx: len(s.subs), client: client, qstr: qstr, q: q, conds: conds, capacity: capacity, sub: sub, born: s.nextID, died: -1}
	s.subs = append(s.subs, sr)
	if s.reg[client] == nil {
		s.reg[client] = map[string]bool{}
	}
	s.reg[client][qstr] = true
	return sr, nil
}

// addSub subscribes (the pair must be new) and settles.
func (s *psim) addSub(client, qstr string, conds []cond, capacity int) *subRec {
	ctx, cancel := s.ctx()
	sr, err := s.trySub(ctx, client, qstr, conds, capacity)
	cancel()
	if err != nil {
		s.env.Fail("C19", "subscribe-failed", "Subscribe(%s, %q) of a new (client, query) pair failed: %v", client, qstr, err)
		return nil
	}
	return sr
}

func (s *psim) startPump(sr *subRec) {
	sr.pump = true
	go func() {
		for {
			select {
			case m := <-sr.sub.Out():
				sr.mu.Lock()
				sr.mailbox = append(sr.mailbox, m)
				sr.mu.Unlock()
			case <-s.stopPump:
				return
			}
		}
	}()
}

// ---------------------------------------------------------------- op generation

func (s *psim) Next(rng *simcore.RNG) simcore.Op {
	if s.opsLeft <= 0 || s.stopped || s.wedged {
		return nil
	}
	s.opsLeft--
	nUser := 0
	var readable, users []int
	for _, sr := range s.subs {
		if sr.canary || sr.sentinel || sr.blocker {
			continue
		}
		nUser++
		if !sr.poison { // a bundle leaves only as a whole (unsuball)
			users = append(users, sr.idx)
		}
		if sr.capacity > 0 && sr.speed > 0 {
			for k := 0; k < sr.speed; k++ {
				readable = append(readable, sr.idx)
			}
		}
	}
	w := []int{18, 0, 5, 2, 40, 0, 0, 5}
	if nUser < 3 {
		w[0] = 60
	}
	if s.cfg.Bool("poison") && s.cfg.Int("canaries") > 0 && s.pbundles < 2 {
		w[1] = 5
	}
	if len(readable) > 0 {
		w[5] = 25
	}
	if s.cfg.Bool("stop") && s.opsLeft < 6 {
		w[6] = 6
	}
	nClients := s.cfg.Int("clients")
	mix, dotless := s.cfg.Bool("mix"), s.cfg.Bool("dotless")
	switch rng.Weighted(w) {
	case 0:
		var cs []cond
		if len(s.qpool) > 0 && rng.Intn(4) < s.cfg.Int("share") {
			cs = s.qpool[rng.Intn(len(s.qpool))]
		} else {
			cs = genGoodQuery(rng, mix, dotless)
			if s.bus && rng.Bool(0.4) {
				var c cond
				switch rng.Intn(4) {
				case 0:
					c = cond{"tx.height", []string{"=", "<", "<=", ">", ">="}[rng.Intn(5)], "i", strconv.Itoa(rng.Range(1, 60))}
				default:
					c = cond{"tm.event", "=", "s", []string{"Tx", "NewBlock", "NewBlockHeader", "Vote"}[rng.Intn(4)]}
				}
				cs = append([]cond{c}, cs...)
			}
			s.qpool = append(s.qpool, cs)
		}
		op := simcore.Op{"a": "sub", "c": rng.Intn(nClients), "q": condsToOps(cs), "tight": rng.Bool(0.3),
			"cap": []int{0, 0, 1, 1, 2, 3, 5, 50}[rng.Intn(8)], "speed": []int{0, 1, 1, 3}[rng.Intn(4)]}
		if rng.Bool(0.4) {
			op["pump"] = true
		}
		return op
	case 1:
		always := "sim.tag"
		if s.bus {
			always = "tm.event"
		}
		b := genPoisonBase(rng, mix, always)
		// large capacity: the members of the bundle are never read and must not drop out for capacity
		return simcore.Op{"a": "psub", "c": nClients + s.pbundles, "base": b.op(), "m": 6, "cap": canaryCap}
	case 2:
		if len(users) == 0 {
			return simcore.Op{"a": "unsuball", "c": rng.Intn(nClients)}
		}
		return simcore.Op{"a": "unsub", "s": users[rng.Intn(len(users))]}
	case 3:
		return simcore.Op{"a": "unsuball", "c": rng.Intn(nClients + s.pbundles)}
	case 4:
		n := rng.Range(1, s.cfg.Int("burst"))
		var list []simcore.Op
		for i := 0; i < n; i++ {
			e := simcore.Op{"ev": eventsToOp(genEvents(rng, mix, s.pkeys))}
			if s.bus {
				e["kind"] = []string{"tx", "tx", "tx", "hdr", "nb", "vote"}[rng.Intn(6)]
				e["junk"] = rng.Bool(0.2)
			} else if rng.Bool(0.03) {
				e["empty"] = true // Publish without events
			}
			list = append(list, e)
		}
		return simcore.Op{"a": "pub", "l": list}
	case 5:
		return simcore.Op{"a": "read", "s": readable[rng.Intn(len(readable))], "n": []int{1, 1, 2, 3, 99}[rng.Intn(5)]}
	case 7:
		// Subscribe with a context that expires / is cancelled while the server loop is blocked on an
		// unread unbuffered subscription, then (mostly) a retry by the same client with the same query
		var cs []cond
		if len(s.qpool) > 0 && rng.Bool(0.3) {
			cs = s.qpool[rng.Intn(len(s.qpool))]
		} else {
			cs = genGoodQuery(rng, mix, dotless)
			s.qpool = append(s.qpool, cs)
		}
		return simcore.Op{"a": "subto", "c": rng.Intn(nClients), "q": condsToOps(cs), "tight": rng.Bool(0.3),
			"cap": []int{0, 1, 2, 5, 50}[rng.Intn(5)], "speed": []int{0, 1, 3}[rng.Intn(3)], "pump": rng.Bool(0.4),
			"ms": []int{1, 5000, 10000}[rng.Intn(3)], "cancel": rng.Bool(0.3), "retry": rng.Bool(0.8)}
	default:
		return simcore.Op{"a": "stop"}
	}
}

// ---------------------------------------------------------------- apply

func (s *psim) clientName(i int) string { return fmt.Sprintf("client-%d", i) }

func (s *psim) Apply(op simcore.Op) bool {
	if s.stopped || s.wedged {
		return false
	}
	e := s.env
	switch op.Kind() {
	case "sub":
		cs := condsFromOps(op.Subs("q"))
		if len(cs) == 0 {
			return false
		}
		client := s.clientName(op.Int("c"))
		qstr := renderQuery(cs, op.Bool("tight"))
		capacity := op.Int("cap")
		if capacity < 0 {
			return false
		}
		if s.reg[client][qstr] {
			// documented: an error is returned if the subscription already exists for (client, query)
			q := query.MustParse(qstr)
			ctx, cancel := s.ctx()
			_, err := s.be.subscribe(ctx, client, q, capacity)
			cancel()
			if err != pubsub.ErrAlreadySubscribed {
				e.Fail("C19", "dup-subscribe", "second Subscribe(%s, %q) returned %v, want ErrAlreadySubscribed", client, qstr, err)
			}
			e.Settle()
			e.Count("probe.dup_subscribe")
			break
		}
		sr := s.addSub(client, qstr, cs, capacity)
		if sr == nil {
			break
		}
		sr.speed = op.Int("speed")
		if capacity == 0 && op.Bool("pump") {
			s.startPump(sr)
			e.Settle()
		}
		e.Count("op.sub")
		if capacity == 0 {
			e.Count("op.sub_unbuffered")
		}
	case "subto":
		cs := condsFromOps(op.Subs("q"))
		client := s.clientName(op.Int("c"))
		capacity := op.Int("cap")
		if len(cs) == 0 || capacity < 0 || op.Int("ms") <= 0 {
			return false
		}
		qstr := renderQuery(cs, op.Bool("tight"))
		if s.reg[client][qstr] {
			return false
		}
		before := s.be.numClientSubs(client)
		var sr *subRec
		var err error
		how := fmt.Sprintf("a context that expires after %d ms", op.Int("ms"))
		// one publication that only the blocker matches: the loop blocks sending it until the drain
		s.publishBurst([]*pubRec{s.mkBlock()}, func() {
			var ctx context.Context
			var cancel context.CancelFunc
			if op.Bool("cancel") && s.cfg.Int("cmdcap") == 0 {
				// (with a buffered command queue the outcome of an already cancelled context is a coin flip of select)
				ctx, cancel = context.WithCancel(context.Background())
				cancel()
				how = "an already cancelled context"
			} else {
				ctx, cancel = context.WithTimeout(context.Background(), time.Duration(op.Int("ms"))*time.Millisecond)
			}
			sr, err = s.trySub(ctx, client, qstr, cs, capacity)
			cancel()
		})
		if s.wedged {
			break
		}
		after := s.be.numClientSubs(client)
		if err != nil {
			e.Count("fault.subscribe_ctx_expired")
			if err != context.DeadlineExceeded && err != context.Canceled {
				e.Fail("C19", "subscribe-failed", "Subscribe(%s, %q) with %s while the server was busy failed with %v", client, qstr, how, err)
			}
			// a failed Subscribe leaves the client NOT subscribed
			if after != before {
				e.Fail("C19", "phantom-registration", "Subscribe(%s, %q) with %s failed (%v) while the server loop was blocked on an unread unbuffered subscriber, yet NumClientSubscriptions(%s) went from %d to %d", client, qstr, how, err, client, before, after)
			}
			if op.Bool("retry") {
				ctx, cancel := s.ctx()
				sr, err = s.trySub(ctx, client, qstr, cs, capacity)
				cancel()
				if err != nil {
					e.Fail("C19", "phantom-registration", "Subscribe(%s, %q) failed with %s; the retry by the same client with the same query returned %v (the client is not subscribed: no subscription object, no events)", client, qstr, how, err)
					sr = nil
				} else {
					e.Count("probe.retry_after_failed_subscribe")
				}
			}
		} else {
			e.Count("probe.subscribe_queued_behind_blocked_loop")
			if after != before+1 {
				e.Fail("C19", "subscribe-count", "Subscribe(%s, %q) succeeded but NumClientSubscriptions(%s) went from %d to %d", client, qstr, client, before, after)
			}
		}
		if sr != nil {
			sr.speed = op.Int("speed")
			if capacity == 0 && op.Bool("pump") {
				s.startPump(sr)
				e.Settle()
			}
		}
		e.Count("op.subto")
	case "psub":
		base := condsFromOps([]simcore.Op{op.Sub("base")})
		if len(base) != 1 || base[0].Key == "" || op.Int("m") <= 0 || op.Int("cap") <= 0 {
			return false
		}
		client := s.clientName(op.Int("c"))
		done := false
		for j := 0; j < op.Int("m"); j++ {
			c := poisonVariant(base[0], j)
			qstr := renderQuery([]cond{c}, false)
			if s.reg[client][qstr] {
				continue
			}
			sr := s.addSub(client, qstr, []cond{c}, op.Int("cap"))
			if sr != nil {
				sr.poison = true
				done = true
			}
		}
		if !done {
			return false
		}
		s.poisoned = true
		s.pbundles++
		s.pkeys = append(s.pkeys, base[0].Key)
		e.Count("fault.illtyped_bundle")
	case "unsub":
		i := op.Int("s")
		if i < 0 || i >= len(s.subs) || s.subs[i].sentinel || s.subs[i].canary || s.subs[i].blocker {
			return false
		}
		sr := s.subs[i]
		ctx, cancel := s.ctx()
		err := s.be.unsubscribe(ctx, sr.client, sr.q)
		cancel()
		e.Settle()
		if !s.reg[sr.client][sr.qstr] {
			if err != pubsub.ErrSubscriptionNotFound {
				e.Fail("C19", "unsubscribe-api", "Unsubscribe(%s, %q) of a pair that is not subscribed returned %v, want ErrSubscriptionNotFound", sr.client, sr.qstr, err)
			}
			e.Count("probe.unsub_unknown")
			break
		}
		if err != nil {
			e.Fail("C19", "unsubscribe-api", "Unsubscribe(%s, %q) of a subscribed pair failed: %v", sr.client, sr.qstr, err)
		}
		delete(s.reg[sr.client], sr.qstr)
		if len(s.reg[sr.client]) == 0 {
			delete(s.reg, sr.client)
		}
		// the registration belongs to the newest subscription of that pair
		for k := len(s.subs) - 1; k >= 0; k-- {
			o := s.subs[k]
			if o.client == sr.client && o.qstr == sr.qstr {
				s.modelCancel(o, "unsub")
				break
			}
		}
		e.Count("op.unsub")
	case "unsuball":
		client := s.clientName(op.Int("c"))
		ctx, cancel := s.ctx()
		err := s.be.unsubscribeAll(ctx, client)
		cancel()
		e.Settle()
		if len(s.reg[client]) == 0 {
			if err != pubsub.ErrSubscriptionNotFound {
				e.Fail("C19", "unsubscribe-api", "UnsubscribeAll(%s) of a client without subscriptions returned %v, want ErrSubscriptionNotFound", client, err)
			}
			break
		}
		if err != nil {
			e.Fail("C19", "unsubscribe-api", "UnsubscribeAll(%s) failed: %v", client, err)
		}
		delete(s.reg, client)
		for _, o := range s.subs {
			if o.client == client {
				s.modelCancel(o, "unsub")
			}
		}
		e.Count("op.unsuball")
	case "pub":
		var burst []*pubRec
		for _, it := range op.Subs("l") {
			burst = append(burst, s.mkPub(it))
		}
		if len(burst) == 0 {
			return false
		}
		s.publishBurst(burst, nil)
		e.Add("op.pub", int64(len(burst)))
	case "read":
		i := op.Int("s")
		if i < 0 || i >= len(s.subs) || s.subs[i].capacity == 0 {
			return false
		}
		s.readN(s.subs[i], op.Int("n"))
		e.Count("op.read")
	case "stop":
		s.be.stop()
		e.Settle()
		s.stopped = true
		for _, o := range s.subs {
			s.modelCancel(o, "shutdown")
		}
		e.Count("op.stop")
	default:
		return false
	}
	s.checkAll(false)
	nAct, nCap := 0, 0
	for _, o := range s.subs {
		if !o.mCancelled {
			nAct++
		} else if o.mErr == "cap" {
			nCap++
		}
	}
	e.State(op.Kind(), nAct, nCap, len(s.reg), s.poisoned)
	return true
}

func (s *psim) modelCancel(o *subRec, reason string) {
	if o.mCancelled {
		return
	}
	o.mCancelled, o.mErr, o.died = true, reason, s.nextID
}

func (s *psim) mkPub(it simcore.Op) *pubRec {
	s.nextID++
	p := &pubRec{id: s.nextID, kind: "plain"}
	ev := eventsFromOp(it.Sub("ev"))
	if !s.bus {
		if it.Bool("empty") {
			p.raw = map[string][]string{}
			p.events = p.raw
			return p
		}
		ev["sim.seq"] = []string{strconv.Itoa(p.id)}
		ev["sim.tag"] = []string{"p"}
		p.raw, p.events = ev, ev
		return p
	}
	p.kind = it.Str("kind")
	keys := sortedKeys(ev)
	exp := map[string][]string{}
	switch p.kind {
	case "tx":
		p.abciA = abciEvents(ev, keys, it.Bool("junk"))
		for k, v := range ev {
			exp[k] = v
		}
		exp["tm.event"] = []string{"Tx"}
		exp["tx.hash"] = []string{fmt.Sprintf("%X", sha256.Sum256(txBytes(p.id)))}
		exp["tx.height"] = []string{strconv.Itoa(p.id)}
	case "hdr", "nb":
		h := len(keys) / 2
		p.abciA = abciEvents(ev, keys[:h], it.Bool("junk"))
		p.abciB = abciEvents(ev, keys[h:], false)
		for k, v := range ev {
			exp[k] = v
		}
		exp["tm.event"] = []string{map[string]string{"hdr": "NewBlockHeader", "nb": "NewBlock"}[p.kind]}
	default:
		p.kind = "vote"
		exp["tm.event"] = []string{"Vote"}
	}
	p.events = exp
	return p
}

// mkBlock: a publication that only the blocker subscription matches.
func (s *psim) mkBlock() *pubRec {
	s.nextID++
	p := &pubRec{id: s.nextID, kind: "block"}
	if s.bus {
		p.events = map[string][]string{"tm.event": {"SimBlock"}}
	} else {
		p.events = map[string][]string{"sim.block": {strconv.Itoa(p.id)}}
		p.raw = p.events
	}
	return p
}

func (s *psim) mkBarrier() *pubRec {
	s.nextID++
	p := &pubRec{id: s.nextID, kind: "barrier"}
	if s.bus {
		p.events = map[string][]string{"tm.event": {"SimBarrier"}}
	} else {
		p.events = map[string][]string{"sim.barrier": {strconv.Itoa(p.id)}}
		p.raw = p.events
	}
	return p
}

// modelPub: what the property says must happen to every live subscription for publication p.
//
// Relaxed mode (narrow): only when the class lost-foreign-type-mismatch is a LISTED known finding,
// the delivery of a publication on which some live subscription's query has an ill-typed operand
// is treated as unspecified for every subscription (the known defect drops it for a map-order
// dependent subset). Everything else stays exact.
func (s *psim) modelPub(p *pubRec) {
	s.pubs[p.id] = p
	type verdict struct {
		r tri
		m bool
	}
	vs := make([]verdict, len(s.subs))
	anyMism := false
	for i, o := range s.subs {
		if o.mCancelled {
			continue
		}
		r, m := evalQuery(o.conds, p.events)
		vs[i] = verdict{r, m}
		anyMism = anyMism || m
	}
	if anyMism {
		s.env.Count("probe.publication_with_illtyped_query")
	}
	relax := anyMism && s.env.IsKnown("C19", "lost-foreign-type-mismatch")
	for i, o := range s.subs {
		if o.mCancelled {
			continue
		}
		r := vs[i].r
		if r == yes && (relax || (vs[i].m && s.env.IsKnown("C19", "lost-own-type-mismatch"))) {
			r = either
		}
		switch r {
		case no:
		case either:
			o.imprecise = true
			o.exp = append(o.exp, expEntry{p.id, true})
			if vs[i].r == either {
				s.env.Count("probe.unspecified_match")
			}
		case yes:
			if !o.imprecise && o.capacity > 0 && len(o.exp)-len(o.got) >= o.capacity {
				// buffer full: the subscriber must be told (out of capacity); the message is not delivered
				o.mCancelled, o.mErr, o.died, o.overflow = true, "cap", p.id, p.id
				continue
			}
			o.exp = append(o.exp, expEntry{p.id, false})
		}
	}
}

// publishBurst publishes the burst followed by a barrier from one publisher goroutine, then
// drains unbuffered subscriptions until the sentinel has seen the barrier (server idle). mid, if
// not nil, runs once after the publisher has gone as far as it can and before anything is drained
// (the server loop is then blocked if the burst matches an unbuffered, un-pumped subscription).
func (s *psim) publishBurst(burst []*pubRec, mid func()) {
	bar := s.mkBarrier()
	burst = append(burst, bar)
	for _, p := range burst {
		s.modelPub(p)
	}
	done := make(chan struct{})
	go func() {
		for _, p := range burst {
			s.be.publish(p)
		}
		close(done)
	}()
	seen := func() bool {
		for _, g := range s.sentinel.got {
			if g == bar.id {
				return true
			}
		}
		return false
	}
	blockedOnce := false
	for {
		s.env.Settle()
		if mid != nil {
			mid()
			mid = nil
			s.env.Settle()
		}
		s.collectMailboxes()
		if seen() {
			break
		}
		progress := false
		for _, o := range s.subs {
			if o.capacity != 0 || o.pump {
				continue
			}
			select {
			case m := <-o.sub.Out():
				s.onMsg(o, m)
				progress = true
				if !blockedOnce {
					blockedOnce = true
					s.env.Count("probe.publisher_blocked_on_unbuffered")
				}
			default:
			}
			if progress {
				break
			}
		}
		if !progress {
			break
		}
	}
	select {
	case <-done:
	default:
		s.wedged = true
	}
	if !seen() {
		// the barrier did not reach the sentinel: either it was lost or the server is stuck
		if s.wedged {
			s.env.Fail("C19", "server-stuck", "publisher still blocked and no unbuffered subscription has a message pending after publication %d", bar.id)
		}
		// checkAll reports the sentinel's loss with the right class
	}
}

func (s *psim) collectMailboxes() {
	for _, o := range s.subs {
		if !o.pump {
			continue
		}
		o.mu.Lock()
		mb := o.mailbox
		o.mailbox = nil
		o.mu.Unlock()
		for _, m := range mb {
			s.onMsg(o, m)
		}
	}
}

func (s *psim) onMsg(o *subRec, m pubsub.Message) {
	id, ok := msgID(m.Data())
	if !ok {
		s.env.Fail("C19", "wrong-data", "subscription %d (%s %q) received a message with unexpected data %T", o.idx, o.client, o.qstr, m.Data())
		return
	}
	if p := s.pubs[id]; p == nil {
		s.env.Fail("C19", "phantom-msg", "subscription %d (%s %q) received a message (id %d) that was never published", o.idx, o.client, o.qstr, id)
		return
	} else if !reflect.DeepEqual(m.Events(), p.events) {
		s.env.Fail("C19", "wrong-events", "subscription %d received publication %d (%s) with events %v, published %v", o.idx, id, p.kind, m.Events(), p.events)
	}
	o.got = append(o.got, id)
}

func (s *psim) readN(o *subRec, n int) {
	for k := 0; k < n; k++ {
		select {
		case m := <-o.sub.Out():
			s.onMsg(o, m)
		default:
			return
		}
	}
}

// ---------------------------------------------------------------- oracle

func errName(err error) string {
	switch err {
	case nil:
		return "shutdown"
	case pubsub.ErrOutOfCapacity:
		return "cap"
	case pubsub.ErrUnsubscribed:
		return "unsub"
	}
	return "other:" + err.Error()
}

func isClosed(c <-chan struct{}) bool {
	select {
	case <-c:
		return true
	default:
		return false
	}
}

// lossClass names the violation class of "subscription o did not get publication id although it
// was not (yet) told it was cancelled".
func (s *psim) lossClass(o *subRec, id int) string {
	p := s.pubs[id]
	if p == nil {
		return "lost-msg"
	}
	for _, x := range s.subs {
		if x == o || x.born >= id || (x.died >= 0 && x.died < id) {
			continue
		}
		if _, m := evalQuery(x.conds, p.events); m {
			return "lost-foreign-type-mismatch"
		}
	}
	if _, m := evalQuery(o.conds, p.events); m {
		return "lost-own-type-mismatch" // another value of the same key matches, one value does not fit the operand
	}
	return "lost-msg"
}

func (s *psim) lost(o *subRec, id int, why string) {
	cls := s.lossClass(o, id)
	p := s.pubs[id]
	var ev interface{}
	if p != nil {
		ev = p.events
	}
	culprit := ""
	if cls == "lost-foreign-type-mismatch" {
		for _, x := range s.subs {
			if x == o || x.born >= id || (x.died >= 0 && x.died < id) {
				continue
			}
			if _, m := evalQuery(x.conds, p.events); m {
				culprit = fmt.Sprintf("; another subscriber's query %q has an operand that does not fit a published value", x.qstr)
				break
			}
		}
	}
	s.env.Fail("C19", cls, "subscription (%s, %q, capacity %d) %s publication %d %v which matches its query, and was not told it was cancelled%s",
		o.client, o.qstr, o.capacity, why, id, ev, culprit)
	// listed known finding: carry on with a relaxed model for this subscription
	o.imprecise = true
	s.env.Count("probe.resync_after_known_loss")
}

func (s *psim) checkSub(o *subRec, final bool) {
	e := s.env
	desc := func() string {
		return fmt.Sprintf("subscription %d (%s, %q, capacity %d)", o.idx, o.client, o.qstr, o.capacity)
	}
	cancelled := isClosed(o.sub.Cancelled())
	reason := ""
	if cancelled {
		reason = errName(o.sub.Err())
	} else if err := o.sub.Err(); err != nil {
		e.Fail("C19", "err-before-cancel", "%s: Err()=%v although Cancelled() is not closed", desc(), err)
	}
	pending := len(o.sub.Out())
	// 1. what was read must be the expected sequence, in order, without gaps
	for ; o.walked < len(o.got); o.walked++ {
		g := o.got[o.walked]
		j := o.cur
		for j < len(o.exp) && o.exp[j].id != g {
			j++
		}
		if j == len(o.exp) {
			sig, what := "phantom-msg", "which does not match its query"
			for k := 0; k < o.cur; k++ {
				if o.exp[k].id == g {
					sig, what = "dup-or-reordered-msg", "a second time or out of publication order"
				}
			}
			if p := s.pubs[g]; p != nil {
				e.Fail("C19", sig, "%s received publication %d %v %s", desc(), g, p.events, what)
			}
			continue
		}
		for k := o.cur; k < j; k++ {
			if !o.exp[k].may {
				s.lost(o, o.exp[k].id, fmt.Sprintf("received publication %d but not the earlier", g))
				o.exp[k].may = true
			}
		}
		o.cur = j + 1
	}
	rem := o.exp[o.cur:]
	must := 0
	for _, x := range rem {
		if !x.may {
			must++
		}
	}
	// 2. cancellation
	wasPrecise := !o.imprecise
	if !o.imprecise {
		if cancelled != o.mCancelled || (cancelled && reason != o.mErr) {
			switch {
			case cancelled && !o.mCancelled:
				e.Fail("C19", "unjustified-cancel", "%s was cancelled (%s) although it neither unsubscribed nor had a full buffer (%d of %d unread)", desc(), reason, len(o.exp)-len(o.got), o.capacity)
			case !cancelled:
				if o.mErr != "cap" { // cap: reported below as a loss (not told, so it must not miss anything)
					e.Fail("C19", "missing-cancel", "%s was not told it is cancelled (%s)", desc(), o.mErr)
				}
			default:
				e.Fail("C19", "wrong-cancel-reason", "%s cancelled with reason %s, want %s", desc(), reason, o.mErr)
			}
			o.imprecise = true
		}
	} else {
		switch {
		case cancelled && reason == "cap":
			if o.capacity == 0 {
				e.Fail("C19", "unjustified-cancel", "%s (unbuffered) was cancelled for capacity", desc())
			}
			if !o.mCancelled {
				s.modelCancel(o, "cap")
			}
		case cancelled && !o.mCancelled:
			e.Fail("C19", "unjustified-cancel", "%s was cancelled (%s) although it did not unsubscribe", desc(), reason)
			s.modelCancel(o, reason)
		case !cancelled && o.mCancelled && o.mErr != "cap":
			e.Fail("C19", "missing-cancel", "%s was not told it is cancelled (%s)", desc(), o.mErr)
		}
	}
	// 3. what is still buffered
	if o.capacity == 0 {
		pending = 0
	}
	if pending > len(rem) {
		e.Fail("C19", "phantom-msg", "%s has %d messages buffered but only %d matching publications are outstanding", desc(), pending, len(rem))
	}
	told := cancelled && reason == "cap"
	lo := -1
	switch {
	case wasPrecise:
		lo = len(rem) // exact model: exp holds exactly what fitted into the buffer
		if o.mCancelled && o.mErr == "cap" && !cancelled && o.overflow > 0 {
			s.lost(o, o.overflow, "had a full buffer at")
		}
	case !told:
		lo = must
	}
	if pending < lo {
		// some matching publication is neither read nor buffered
		miss := lo - pending
		for k := len(rem) - 1; k >= 0 && miss > 0; k-- {
			if !rem[k].may {
				s.lost(o, rem[k].id, "did not receive")
				rem[k].may = true
				miss--
			}
		}
	}
	if final && o.imprecise {
		e.Count("probe.imprecise_subscription")
	}
}

func (s *psim) checkAll(final bool) {
	s.collectMailboxes()
	for _, o := range s.subs {
		if o.canary || o.poison {
			s.readN(o, canaryCap)
		}
	}
	for _, o := range s.subs {
		s.checkSub(o, final)
	}
	if !s.poisoned {
		// canonical observation (independent of map order in a correct server): part of the digest
		var sb strings.Builder
		for _, o := range s.subs {
			if o.canary || o.sentinel || o.blocker {
				continue
			}
			c := "-"
			if isClosed(o.sub.Cancelled()) {
				c = errName(o.sub.Err())
			}
			fmt.Fprintf(&sb, " %d:%d+%d%s", o.idx, len(o.got), len(o.sub.Out()), c)
		}
		s.env.Logf("obs%s", sb.String())
	}
}

func (s *psim) Finish() {
	if s.wedged {
		return
	}
	// read everything that is still buffered, then check contents
	for _, o := range s.subs {
		if o.capacity > 0 {
			s.readN(o, len(o.sub.Out()))
		}
	}
	s.checkAll(true)
	if !s.stopped {
		s.be.stop()
		s.env.Settle()
		s.stopped = true
		for _, o := range s.subs {
			s.modelCancel(o, "shutdown")
		}
		s.checkAll(true)
	}
	for _, o := range s.subs {
		if len(o.got) > 0 && !o.canary && !o.sentinel && !o.blocker {
			s.env.Count("probe.subscription_with_deliveries")
		}
		if o.mErr == "cap" {
			s.env.Count("probe.out_of_capacity")
		}
	}
}

func (s *psim) Close() {
	close(s.stopPump)
	if !s.stopped {
		go s.be.stop()
	}
}
