package pubsubsim

import (
	"bytes"
	"context"
	"crypto/sha256"
	"fmt"
	"sort"
	"strconv"
	"strings"
	"sync"

	"github.com/gogo/protobuf/proto"
	dbm "github.com/tendermint/tm-db"

	abci "github.com/tendermint/tendermint/abci/types"
	"github.com/tendermint/tendermint/libs/log"
	"github.com/tendermint/tendermint/libs/pubsub/query"
	blockkv "github.com/tendermint/tendermint/state/indexer/block/kv"
	"github.com/tendermint/tendermint/state/txindex"
	txkv "github.com/tendermint/tendermint/state/txindex/kv"
	"github.com/tendermint/tendermint/types"

	"verif/simcore"
)

// ---------------------------------------------------------------- records

type attrRec struct {
	K, V  string
	Index bool
}
type eventRec struct {
	Type  string
	Attrs []attrRec
}

type txRec struct {
	height int64
	index  uint32
	tx     []byte
	hash   []byte
	code   uint32
	events []eventRec
	attrs  map[string][]string // searchable attributes per the documentation
}

type blockRec struct {
	height     int64
	begin, end []eventRec
	attrs      map[string][]string
}

// guardTx sits between the IndexerService and the real TxIndex: a batch with a nil entry would
// make the real AddBatch dereference nil (process crash); it is reported instead.
type guardTx struct {
	*txkv.TxIndex
	s *isim
}

func (g guardTx) AddBatch(b *txindex.Batch) error {
	for i, r := range b.Ops {
		if r == nil {
			g.s.env.Report("C19", g.s.idxSig("indexer-batch-hole"), "IndexerService built a batch whose entry %d of %d is nil (a tx event of the block never reached it)", i, len(b.Ops))
			g.s.broken = true
			return fmt.Errorf("simulator: batch with a nil entry")
		}
	}
	return g.TxIndex.AddBatch(b)
}

// stallDB is the index database with a fault: while armed (after `passes` more batch writes have
// gone through) every batch Write/WriteSync parks until the simulator releases it - the index DB
// of a node that is slower than block production (block sync, handshake replay, a busy disk).
type stallDB struct {
	dbm.DB
	mu     sync.Mutex
	armed  bool
	passes int
	gate   chan struct{}
	hits   int
}

type stallBatch struct {
	dbm.Batch
	d *stallDB
}

func (d *stallDB) NewBatch() dbm.Batch { return &stallBatch{Batch: d.DB.NewBatch(), d: d} }

func (d *stallDB) wait() {
	var g chan struct{}
	d.mu.Lock()
	if d.armed {
		if d.passes > 0 {
			d.passes--
		} else {
			g = d.gate
			d.hits++
		}
	}
	d.mu.Unlock()
	if g != nil {
		<-g // never parked while holding a lock
	}
}

func (b *stallBatch) Write() error     { b.d.wait(); return b.Batch.Write() }
func (b *stallBatch) WriteSync() error { b.d.wait(); return b.Batch.WriteSync() }

func (d *stallDB) isArmed() bool {
	d.mu.Lock()
	defer d.mu.Unlock()
	return d.armed
}

// blockJob is one committed block handed to the publisher goroutine (the stand-in for the block
// executor, which fires the events of one block after the other).
type blockJob struct {
	b      *blockRec
	txs    []*txRec
	npub   int
	valupd bool
	done   chan struct{}
}

type isim struct {
	env *simcore.Env
	cfg simcore.Op
	bus *types.EventBus
	svc *txindex.IndexerService
	txi *txkv.TxIndex
	bli *blockkv.BlockerIndexer

	height   int64
	txs      []*txRec
	blocks   []*blockRec
	canaries []subscription
	canGot   []int          // events each canary has received so far
	bundle   []subscription // members of ill-typed bundles (drained, never checked)
	npubs    int            // publications every canary must have seen
	others   []subscription
	opsLeft  int
	poisoned bool
	broken   bool // a (known) violation desynchronised the model: the run ends
	wedged   bool
	nsub     int

	db         *stallDB
	jobs       chan *blockJob
	pending    []*blockJob     // published (or queued) blocks whose indexing has not been verified yet
	stallOps   int             // actions since the index DB was armed to stall
	postPoison int             // blocks published after the ill-typed bundle
	slashKeys  map[string]bool // composite keys under which an indexed tx attribute value contains "/"
}

func newIndexSim(env *simcore.Env, cfg simcore.Op) simcore.Sim {
	s := &isim{env: env, cfg: cfg, opsLeft: cfg.Int("nops"), slashKeys: map[string]bool{}}
	s.bus = types.NewEventBus() // as node.go: unbuffered command queue
	s.bus.SetLogger(log.NewNopLogger())
	if err := s.bus.Start(); err != nil {
		panic(err)
	}
	s.db = &stallDB{DB: dbm.NewMemDB()}
	var store dbm.DB = s.db
	s.jobs = make(chan *blockJob, 1024)
	go s.publisher()
	s.txi = txkv.NewTxIndex(store)
	s.bli = blockkv.New(dbm.NewPrefixDB(store, []byte("block_events")))
	s.svc = txindex.NewIndexerService(guardTx{s.txi, s}, s.bli, s.bus, false)
	s.svc.SetLogger(log.NewNopLogger())
	if err := s.svc.Start(); err != nil {
		panic(err)
	}
	env.Settle()
	for j := 0; j < cfg.Int("canaries"); j++ {
		q := query.MustParse("tm.event" + strings.Repeat(" ", 1+j) + "EXISTS")
		ctx, cancel := context.WithTimeout(context.Background(), 1e9)
		sub, err := s.bus.Subscribe(ctx, fmt.Sprintf("sim-canary-%d", j), q, canaryCap)
		cancel()
		if err != nil {
			panic(err)
		}
		env.Settle()
		s.canaries = append(s.canaries, sub)
		s.canGot = append(s.canGot, 0)
	}
	return s
}

// idxSig: while a bundle of ill-typed foreign queries is subscribed, which of the consequences
// (block / tx not indexed, hole in the batch, bus stuck) shows first depends on map order inside the
// pubsub server, so they share one signature; without such subscribers each has its own.
func (s *isim) idxSig(sig string) string {
	if s.poisoned {
		return "indexing-incomplete-foreign-type-mismatch"
	}
	return sig
}

// ---------------------------------------------------------------- generators

var idxKeys = []keySpec{
	{"acc.owner", "name"}, {"acc.balance", "int"}, {"account.owner", "name"}, {"transfer.amount", "int"},
	{"transfer.sender", "name"}, {"rewards.withdraw.address", "name"}, {"rewards.withdraw.amount", "int"}, {"mix.val", "imix"},
}
var slashValues = []string{"Bob/x", "ibc/27A6", "7/1", "an/", "/"}

func (s *isim) genIdxValue(rng *simcore.RNG, flavor string) string {
	if s.cfg.Bool("f_slash") && flavor != "int" && rng.Bool(0.25) { // numeric attributes stay numeric: well-typed foreign queries must stay well-typed
		return pick(rng, slashValues)
	}
	if flavor == "imix" {
		return pick(rng, pools[[]string{"name", "int", "odd"}[rng.Intn(3)]])
	}
	return pick(rng, pools[flavor])
}

func (s *isim) genIdxEvents(rng *simcore.RNG, max int) []simcore.Op {
	var out []simcore.Op
	n := rng.Intn(max + 1)
	for i := 0; i < n; i++ {
		ks := idxKeys[rng.Intn(len(idxKeys))]
		typ, _ := splitKey(ks.key)
		var attrs []simcore.Op
		// the attributes of one event: the drawn key plus possibly others of the same type
		for _, k2 := range idxKeys {
			t2, a2 := splitKey(k2.key)
			if t2 != typ || (k2.key != ks.key && !rng.Bool(0.5)) {
				continue
			}
			m := 1
			if rng.Bool(0.2) {
				m = 2 // repeated key inside one event
			}
			for j := 0; j < m; j++ {
				a := simcore.Op{"k": a2, "v": s.genIdxValue(rng, k2.flavor), "i": true}
				if s.cfg.Bool("noindex") && rng.Bool(0.25) {
					a["i"] = false
				}
				attrs = append(attrs, a)
			}
		}
		if rng.Bool(0.05) {
			attrs = append(attrs, simcore.Op{"k": "", "v": "ignored", "i": true})
		}
		if rng.Bool(0.04) {
			typ = "" // event without type: ignored
		}
		out = append(out, simcore.Op{"t": typ, "at": attrs})
	}
	return out
}

func eventRecs(ops []simcore.Op) []eventRec {
	var out []eventRec
	for _, o := range ops {
		e := eventRec{Type: o.Str("t")}
		for _, a := range o.Subs("at") {
			e.Attrs = append(e.Attrs, attrRec{a.Str("k"), a.Str("v"), a.Bool("i")})
		}
		out = append(out, e)
	}
	return out
}

func toABCI(evs []eventRec) []abci.Event {
	var out []abci.Event
	for _, e := range evs {
		ae := abci.Event{Type: e.Type}
		for _, a := range e.Attrs {
			ae.Attributes = append(ae.Attributes, abci.EventAttribute{Key: []byte(a.K), Value: []byte(a.V), Index: a.Index})
		}
		out = append(out, ae)
	}
	return out
}

// searchable: composite key -> values of the attributes the application asked to index
// (events without type and attributes without key are ignored).
func searchable(dst map[string][]string, evs []eventRec) {
	for _, e := range evs {
		if e.Type == "" {
			continue
		}
		for _, a := range e.Attrs {
			if a.K == "" || !a.Index {
				continue
			}
			k := e.Type + "." + a.K
			dst[k] = append(dst[k], a.V)
		}
	}
}

func (s *isim) genSearch(rng *simcore.RNG, kind string) []cond {
	hkey := "tx.height"
	if kind == "block" {
		hkey = "block.height"
	}
	f := func(name string) bool { return s.cfg.Bool(name) }
	maxH := int(s.height) + 1
	genOne := func() cond {
		switch k := rng.Intn(10); {
		case k < 3: // height condition
			op := []string{"=", "<", "<=", ">", ">=", "EXISTS"}[rng.Intn(6)]
			if op == "EXISTS" {
				return cond{Key: hkey, Op: op}
			}
			return cond{hkey, op, "i", strconv.Itoa(rng.Range(0, maxH))}
		default:
			ks := idxKeys[rng.Intn(len(idxKeys))]
			if rng.Bool(0.06) {
				ks = keySpec{"ghost.key", "name"}
			}
			if rng.Bool(0.12) {
				return cond{Key: ks.key, Op: "EXISTS"}
			}
			if ks.flavor == "int" && rng.Bool(0.7) {
				op := []string{"=", "<", "<=", ">", ">="}[rng.Intn(5)]
				if f("f_float") && rng.Bool(0.4) {
					return cond{ks.key, op, "f", pick(rng, floatOperands)}
				}
				return cond{ks.key, op, "i", pick(rng, intOperands)}
			}
			if rng.Bool(0.5) {
				v := s.genIdxValue(rng, ks.flavor)
				return cond{ks.key, "=", "s", v}
			}
			return cond{ks.key, "CONTAINS", "s", pick(rng, substrings)}
		}
	}
	n := []int{1, 1, 2, 2, 3}[rng.Intn(5)]
	var cs []cond
	for len(cs) < n {
		c := genOne()
		ok := true
		for _, o := range cs {
			if o.Key != c.Key {
				continue
			}
			// core: at most one lower and one upper bound per key, and no height equality next to other conditions
			if isRangeOp(o.Op) && isRangeOp(c.Op) && (o.Op[0] == c.Op[0]) && !f("f_dup_bounds") {
				ok = false
			}
		}
		if ok {
			cs = append(cs, c)
		}
	}
	// a float range operand makes Search panic or not depending on the order in which it visits its
	// (unordered) table of ranges: keep such a query to one range key so that the outcome is a
	// function of the query
	for _, c := range cs {
		if c.T == "f" && isRangeOp(c.Op) {
			var keep []cond
			for _, o := range cs {
				if !isRangeOp(o.Op) || o.Key == c.Key {
					keep = append(keep, o)
				}
			}
			cs = keep
			break
		}
	}
	if !f("f_height_and") && kind == "block" && len(cs) > 1 {
		var keep []cond
		for _, c := range cs {
			if !(c.Key == hkey && c.Op == "=") {
				keep = append(keep, c)
			}
		}
		if len(keep) == 0 {
			keep = cs[:1]
		}
		cs = keep
	}
	if kind == "tx" && len(s.txs) > 0 && rng.Bool(0.12) {
		t := s.txs[rng.Intn(len(s.txs))]
		h := fmt.Sprintf("%X", t.hash)
		if rng.Bool(0.2) {
			h = fmt.Sprintf("%X", sha256.Sum256([]byte("unknown")))
		}
		hc := cond{"tx.hash", "=", "s", h}
		if f("f_hash_and") && rng.Bool(0.7) {
			cs = append([]cond{hc}, cs[:1]...)
			if rng.Bool(0.5) {
				cs[0], cs[1] = cs[1], cs[0]
			}
		} else {
			cs = []cond{hc}
		}
	}
	if f("f_height_str") && rng.Bool(0.3) {
		cs = append(cs, cond{hkey, "=", "s", strconv.Itoa(rng.Range(1, maxH))})
	}
	return cs
}

// featureOf names the input class of a query for which implementation and plain reading are
// suspected to differ; it becomes part of the violation signature.
func (s *isim) featureOf(kind string, cs []cond) string {
	hkey := "tx.height"
	if kind == "block" {
		hkey = "block.height"
	}
	lower, upper := map[string]int{}, map[string]int{}
	for _, c := range cs {
		if c.Key == "tx.hash" && len(cs) > 1 {
			return "-hash-and"
		}
		if c.Key == hkey && c.Op == "=" && c.T == "s" {
			return "-height-string-operand"
		}
	}
	for _, c := range cs {
		if c.T == "f" {
			return "-float-operand"
		}
	}
	for _, c := range cs {
		if kind == "block" && c.Key == hkey && c.Op == "=" && len(cs) > 1 {
			return "-height-eq-and"
		}
		if c.Op == ">" || c.Op == ">=" {
			lower[c.Key]++
		}
		if c.Op == "<" || c.Op == "<=" {
			upper[c.Key]++
		}
	}
	for _, n := range lower {
		if n > 1 {
			return "-dup-bounds"
		}
	}
	for _, n := range upper {
		if n > 1 {
			return "-dup-bounds"
		}
	}
	if kind == "tx" {
		// only queries that touch a key under which some tx carries a value with the key separator
		for _, c := range cs {
			if s.slashKeys[c.Key] || strings.Contains(c.V, "/") {
				return "-slash-values"
			}
		}
	}
	return ""
}

// ---------------------------------------------------------------- op generation

func (s *isim) Next(rng *simcore.RNG) simcore.Op {
	relaxed := s.poisoned && s.env.IsKnown("C19", "lost-foreign-type-mismatch")
	if s.opsLeft <= 0 || ((s.broken || s.wedged) && !relaxed) {
		return nil
	}
	s.opsLeft--
	if s.db.isArmed() {
		// the index DB stalls: the schedule decides how many (mostly empty) blocks are committed meanwhile
		s.stallOps++
		if s.stallOps > 6 || rng.Bool(0.3) {
			return simcore.Op{"a": "release"}
		}
		op := s.genBlock(rng)
		if rng.Bool(0.7) {
			op["txs"] = nil
		}
		return op
	}
	w := []int{30, 35, 4, 0, 0, 0}
	if s.cfg.Bool("stall") && s.height > 0 {
		w[5] = 7
	}
	if s.poisoned && s.env.IsKnown("C19", "lost-foreign-type-mismatch") {
		// what happens after an ill-typed bundle depends on map order once that defect is listed as
		// known (the run carries on): exactly three more blocks, no searches, so that the trace stays
		// a function of the seed
		if s.postPoison >= 3 {
			return nil
		}
		w = []int{1, 0, 0, 0, 0, 0}
	}
	if s.height == 0 {
		w = []int{1, 0, 0, 0, 0, 0}
	}
	if s.cfg.Bool("foreign") && s.nsub < 6 {
		w[3] = 5
	}
	if s.cfg.Bool("poison") && s.cfg.Int("canaries") > 0 && !s.poisoned {
		w[4] = 5
	}
	switch rng.Weighted(w) {
	case 0:
		return s.genBlock(rng)
	case 1:
		kind := []string{"tx", "tx", "block"}[rng.Intn(3)]
		return simcore.Op{"a": "search", "kind": kind, "q": condsToOps(s.genSearch(rng, kind)), "tight": rng.Bool(0.3)}
	case 2:
		op := simcore.Op{"a": "get", "h": rng.Range(0, int(s.height)+2)}
		if len(s.txs) > 0 && rng.Bool(0.8) {
			op["tx"] = rng.Intn(len(s.txs))
		} else {
			op["tx"] = -1
		}
		return op
	case 3:
		cs := genGoodQuery(rng, false, false)
		if rng.Bool(0.5) {
			cs = append([]cond{{"tm.event", "=", "s", []string{"Tx", "NewBlock", "NewBlockHeader"}[rng.Intn(3)]}}, cs...)
		}
		return simcore.Op{"a": "fsub", "q": condsToOps(cs), "cap": []int{1, 2, 100}[rng.Intn(3)]}
	case 4:
		b := genPoisonBase(rng, false, "tm.event")
		return simcore.Op{"a": "psub", "base": b.op(), "m": 6, "cap": canaryCap}
	default:
		// "after": how many batch writes still go through before the DB stalls (0: the block index
		// write of the next block, 1: the tx index write of the next block, ...)
		return simcore.Op{"a": "stall", "after": []int{0, 0, 1, 2}[rng.Intn(4)]}
	}
}

func (s *isim) genBlock(rng *simcore.RNG) simcore.Op {
	op := simcore.Op{"a": "block", "begin": s.genIdxEvents(rng, 2), "end": s.genIdxEvents(rng, 2), "valupd": rng.Bool(0.1)}
	n := rng.Intn(s.cfg.Int("maxtx") + 1)
	if s.poisoned && n == 0 {
		n = 1
	}
	var txs []simcore.Op
	for i := 0; i < n; i++ {
		t := simcore.Op{"ev": s.genIdxEvents(rng, 3), "code": 0}
		if rng.Bool(0.15) {
			t["code"] = rng.Range(1, 5)
		}
		txs = append(txs, t)
	}
	op["txs"] = txs
	return op
}

// ---------------------------------------------------------------- apply

func (s *isim) Apply(op simcore.Op) bool {
	if s.broken || s.wedged {
		// relaxed mode: the remaining forced blocks are no-ops, so that the trace does not depend on
		// which consequence of the known defect showed up
		if s.poisoned && s.env.IsKnown("C19", "lost-foreign-type-mismatch") && op.Kind() == "block" {
			s.postPoison++
			return true
		}
		return false
	}
	e := s.env
	busy := s.db.isArmed() || len(s.pending) > 0 // indexing is (legitimately) behind the chain
	switch op.Kind() {
	case "block":
		s.applyBlock(op)
	case "stall":
		if busy || op.Int("after") < 0 {
			return false
		}
		s.db.mu.Lock()
		s.db.armed, s.db.passes, s.db.gate = true, op.Int("after"), make(chan struct{})
		s.db.mu.Unlock()
		s.stallOps = 0
		e.Count("op.stall")
	case "release":
		if !s.db.isArmed() {
			return false
		}
		s.release()
		s.settleAndVerify()
		e.Count("op.release")
	case "search":
		cs := condsFromOps(op.Subs("q"))
		if len(cs) == 0 || s.height == 0 || busy {
			return false
		}
		if op.Str("kind") == "block" {
			s.searchBlocks(cs, op.Bool("tight"))
		} else {
			s.searchTxs(cs, op.Bool("tight"))
		}
	case "get":
		if busy {
			return false
		}
		s.applyGet(op)
	case "fsub":
		cs := condsFromOps(op.Subs("q"))
		if len(cs) == 0 || op.Int("cap") <= 0 || busy {
			return false
		}
		if !s.subscribe(renderQuery(cs, false), op.Int("cap")) {
			return false
		}
		e.Count("op.foreign_sub")
	case "psub":
		base := condsFromOps([]simcore.Op{op.Sub("base")})
		if len(base) != 1 || base[0].Key == "" || op.Int("m") <= 0 || op.Int("cap") <= 0 || busy {
			return false
		}
		any := false
		for j := 0; j < op.Int("m"); j++ {
			if s.subscribe(renderQuery([]cond{poisonVariant(base[0], j)}, false), op.Int("cap")) {
				any = true
				s.bundle = append(s.bundle, s.others[len(s.others)-1])
			}
		}
		if !any {
			return false
		}
		s.poisoned = true
		e.Count("fault.illtyped_bundle")
	default:
		return false
	}
	e.State(op.Kind(), int(s.height)%5, len(s.txs)%7, s.poisoned, s.nsub, s.db.isArmed(), len(s.pending))
	return true
}

func (s *isim) subscribe(qstr string, capacity int) bool {
	q, err := query.New(qstr)
	if err != nil {
		panic(fmt.Sprintf("generator produced an unparsable query %q: %v", qstr, err))
	}
	ctx, cancel := context.WithTimeout(context.Background(), 1e9)
	sub, err := s.bus.Subscribe(ctx, fmt.Sprintf("foreign-%d", s.nsub), q, capacity)
	cancel()
	if err != nil {
		return false
	}
	s.nsub++
	s.others = append(s.others, sub)
	s.env.Settle()
	return true
}

func (s *isim) applyBlock(op simcore.Op) {
	e := s.env
	s.height++
	h := s.height
	b := &blockRec{height: h, begin: eventRecs(op.Subs("begin")), end: eventRecs(op.Subs("end")), attrs: map[string][]string{}}
	searchable(b.attrs, b.begin)
	searchable(b.attrs, b.end)
	b.attrs["block.height"] = []string{strconv.FormatInt(h, 10)}
	var txs []*txRec
	for i, t := range op.Subs("txs") {
		r := &txRec{height: h, index: uint32(i), tx: []byte(fmt.Sprintf("tx-%d-%d", h, i)), code: uint32(t.Int("code")),
			events: eventRecs(t.Subs("ev")), attrs: map[string][]string{}}
		sum := sha256.Sum256(r.tx)
		r.hash = sum[:]
		searchable(r.attrs, r.events)
		for k, vs := range r.attrs {
			for _, v := range vs {
				if strings.Contains(v, "/") {
					s.slashKeys[k] = true
				}
			}
		}
		r.attrs["tx.height"] = []string{strconv.FormatInt(h, 10)}
		r.attrs["tx.hash"] = []string{fmt.Sprintf("%X", r.hash)}
		txs = append(txs, r)
	}
	job := &blockJob{b: b, txs: txs, npub: 2 + len(txs), valupd: op.Bool("valupd"), done: make(chan struct{})}
	if job.valupd {
		job.npub++
	}
	s.blocks = append(s.blocks, b)
	s.txs = append(s.txs, txs...)
	s.pending = append(s.pending, job)
	e.Count("op.block")
	e.Add("op.tx", int64(len(txs)))
	if len(txs) == 0 {
		e.Count("op.empty_block")
	}
	if s.poisoned {
		s.postPoison++
	}
	if s.db.isArmed() {
		e.Count("probe.block_while_index_db_stalls")
		if len(txs) == 0 {
			e.Count("probe.empty_block_while_index_db_stalls")
		}
	}
	s.jobs <- job
	s.settleAndVerify()
}

// publisher fires the events of one block after the other, in the order state/execution.go
// fireEvents uses. It may park inside a Publish call while the indexer service is busy.
func (s *isim) publisher() {
	for j := range s.jobs {
		h := j.b.height
		begin, end := abci.ResponseBeginBlock{Events: toABCI(j.b.begin)}, abci.ResponseEndBlock{Events: toABCI(j.b.end)}
		hdr := types.Header{Height: h, ChainID: "sim"}
		_ = s.bus.PublishEventNewBlock(types.EventDataNewBlock{Block: &types.Block{Header: hdr}, ResultBeginBlock: begin, ResultEndBlock: end})
		_ = s.bus.PublishEventNewBlockHeader(types.EventDataNewBlockHeader{Header: hdr, NumTxs: int64(len(j.txs)), ResultBeginBlock: begin, ResultEndBlock: end})
		for _, r := range j.txs {
			_ = s.bus.PublishEventTx(types.EventDataTx{TxResult: abci.TxResult{Height: h, Index: r.index, Tx: r.tx,
				Result: abci.ResponseDeliverTx{Code: r.code, Events: toABCI(r.events)}}})
		}
		if j.valupd {
			_ = s.bus.PublishEventValidatorSetUpdates(types.EventDataValidatorSetUpdates{})
		}
		close(j.done)
	}
}

// release ends the stall of the index DB.
func (s *isim) release() {
	s.db.mu.Lock()
	if s.db.armed {
		s.db.armed = false
		close(s.db.gate)
		if s.db.hits > 0 {
			s.env.Add("fault.index_db_write_stalled", int64(s.db.hits))
		}
		s.db.hits = 0
	}
	s.db.mu.Unlock()
}

// settleAndVerify: at quiescence, with the index DB not stalling, every block handed to the
// publisher has been published completely, reached every canary, and is indexed. While the DB is
// armed to stall the publisher and the indexer may legitimately be parked: checks wait for the release.
func (s *isim) settleAndVerify() {
	e := s.env
	e.Settle()
	for _, b := range s.bundle {
		for len(b.Out()) > 0 {
			<-b.Out()
		}
	}
	for j, c := range s.canaries {
		for len(c.Out()) > 0 {
			<-c.Out()
			s.canGot[j]++
		}
	}
	if s.db.isArmed() {
		return
	}
	var stuck *blockJob
	for _, j := range s.pending {
		select {
		case <-j.done:
			s.npubs += j.npub
		default:
			if stuck == nil {
				stuck = j
			}
		}
	}
	// other subscribers must not be affected (same oracle as pubsub mode, counts only): every
	// canary holds every event published so far. (While the publisher is stuck inside a publication
	// the canaries legitimately disagree - the server has visited a map-order dependent part of them.)
	if len(s.canaries) > 0 && stuck == nil {
		lo, hi := s.canGot[0], s.canGot[0]
		for _, n := range s.canGot {
			if n < lo {
				lo = n
			} else if n > hi {
				hi = n
			}
		}
		if lo != hi || lo != s.npubs {
			sig := "lost-msg"
			if s.poisoned {
				sig = "lost-foreign-type-mismatch"
			}
			if hi > s.npubs {
				sig = "phantom-msg"
			}
			e.Fail("C19", sig, "at height %d subscribers with query \"tm.event EXISTS\" (capacity %d) hold between %d and %d of the %d events published and were not told they were cancelled", s.height, canaryCap, lo, hi, s.npubs)
		}
	}
	if stuck != nil {
		s.wedged = true
		e.Fail("C19", s.idxSig("publish-blocked"), "publishing the events of block %d (%d txs) never completes although the index DB is not stalling: the event bus is stuck (the indexer service stopped reading its unbuffered subscriptions)", stuck.b.height, len(stuck.txs))
		return
	}
	if e.Failed() { // reported by the guard from the indexer goroutine: unwind (the first report wins)
		e.Fail("C19", s.idxSig("indexer-batch-hole"), "see the report of the indexer goroutine")
	}
	pend := s.pending
	s.pending = nil
	for _, j := range pend {
		if s.broken {
			return
		}
		s.checkIndexed(j.b, j.txs)
	}
}

func (s *isim) checkIndexed(b *blockRec, txs []*txRec) {
	e := s.env
	ok, err := s.bli.Has(b.height)
	if err != nil || !ok {
		e.Fail("C19", s.idxSig("block-not-indexed"), "block %d was published (NewBlockHeader) but BlockerIndexer.Has says %v, %v", b.height, ok, err)
		s.broken = true
	}
	for _, r := range txs {
		got, err := s.txi.Get(r.hash)
		if err != nil || got == nil {
			e.Fail("C19", s.idxSig("tx-not-indexed"), "tx %d of block %d was published but TxIndex.Get(hash) returns %v, %v", r.index, r.height, got, err)
			s.broken = true
			continue
		}
		s.sameTx("Get", got, r)
	}
}

func (s *isim) sameTx(ctx string, got *abci.TxResult, r *txRec) {
	want := &abci.TxResult{Height: r.height, Index: r.index, Tx: r.tx, Result: abci.ResponseDeliverTx{Code: r.code, Events: toABCI(r.events)}}
	if got.Height != want.Height || got.Index != want.Index || !bytes.Equal(got.Tx, want.Tx) || !proto.Equal(&got.Result, &want.Result) {
		s.env.Fail("C19", "tx-indexed-wrong", "%s: tx %d of block %d is stored as height=%d index=%d tx=%q result=%v", ctx, r.index, r.height, got.Height, got.Index, got.Tx, got.Result)
	}
}

func (s *isim) applyGet(op simcore.Op) {
	e := s.env
	i := op.Int("tx")
	if i >= 0 && i < len(s.txs) {
		r := s.txs[i]
		got, err := s.txi.Get(r.hash)
		if err != nil || got == nil {
			e.Fail("C19", s.idxSig("tx-not-indexed"), "TxIndex.Get of tx %d of block %d returns %v, %v", r.index, r.height, got, err)
		} else {
			s.sameTx("Get", got, r)
		}
	} else {
		sum := sha256.Sum256([]byte(fmt.Sprint("unknown", op.Int("h"))))
		got, err := s.txi.Get(sum[:])
		if err != nil || got != nil {
			e.Fail("C19", "phantom-tx", "TxIndex.Get of a hash that was never committed returns %v, %v", got, err)
		}
	}
	h := int64(op.Int("h"))
	ok, err := s.bli.Has(h)
	want := h >= 1 && h <= s.height
	if err != nil || ok != want {
		e.Fail("C19", "block-has-wrong", "BlockerIndexer.Has(%d) = %v, %v; %d blocks were committed", h, ok, err, s.height)
	}
	e.Count("op.get")
}

// searchSig: core queries keep the kind of failure in the signature; for the input classes where the
// outcome (panic / error / wrong set) may depend on map order inside Search, one signature per class.
func searchSig(kind, feat string) string {
	if feat != "" {
		return "search-wrong" + feat
	}
	return "search-" + kind
}

// refVerdict evaluates a search query over one item's searchable attributes under both
// readings of range conditions; they must agree for the verdict to be binding.
func refVerdict(cs []cond, attrs map[string][]string) tri {
	a, _ := evalQuery(cs, attrs)
	b := evalQueryRanged(cs, attrs)
	if a != b {
		return either
	}
	return a
}

func (s *isim) searchTxs(cs []cond, tight bool) {
	e := s.env
	qstr := renderQuery(cs, tight)
	q, err := query.New(qstr)
	if err != nil {
		panic(fmt.Sprintf("generator produced an unparsable query %q: %v", qstr, err))
	}
	feat := s.featureOf("tx", cs)
	var res []*abci.TxResult
	var pan interface{}
	func() {
		defer func() { pan = recover() }()
		res, err = s.txi.Search(context.Background(), q)
	}()
	e.Count("op.search_tx")
	if pan != nil {
		e.Fail("C19", searchSig("panic", feat), "TxIndex.Search(%q) panicked: %v", qstr, pan)
		return
	}
	if err != nil {
		e.Fail("C19", searchSig("error", feat), "TxIndex.Search(%q) failed: %v", qstr, err)
		return
	}
	byHash := map[string]*txRec{}
	for _, r := range s.txs {
		byHash[string(r.hash)] = r
	}
	seen := map[string]bool{}
	for _, g := range res {
		if g == nil {
			e.Fail("C19", searchSig("mismatch", feat), "TxIndex.Search(%q) returned a nil result", qstr)
			continue
		}
		sum := sha256.Sum256(g.Tx)
		r := byHash[string(sum[:])]
		if r == nil {
			e.Fail("C19", searchSig("mismatch", feat), "TxIndex.Search(%q) returned a tx that was never committed: %q", qstr, g.Tx)
			continue
		}
		if seen[string(r.hash)] {
			e.Fail("C19", searchSig("duplicate", feat), "TxIndex.Search(%q) returned tx %d/%d twice", qstr, r.height, r.index)
		}
		seen[string(r.hash)] = true
		s.sameTx("Search", g, r)
	}
	nYes, nEither := 0, 0
	for _, r := range s.txs {
		v := refVerdict(cs, r.attrs)
		in := seen[string(r.hash)]
		switch {
		case v == yes && !in:
			e.Fail("C19", searchSig("mismatch", feat), "TxIndex.Search(%q) misses tx %d/%d whose indexed attributes %v satisfy the query (returned %d results)", qstr, r.height, r.index, r.attrs, len(res))
		case v == no && in:
			e.Fail("C19", searchSig("mismatch", feat), "TxIndex.Search(%q) returns tx %d/%d whose indexed attributes %v do not satisfy the query", qstr, r.height, r.index, r.attrs)
		}
		if v == yes {
			nYes++
		} else if v == either {
			nEither++
		}
	}
	if nYes > 0 {
		e.Count("probe.search_tx_nonempty")
	}
	if nEither > 0 {
		e.Count("probe.search_unspecified_item")
	}
	if feat != "" {
		e.Count("probe.search_feature" + feat)
	}
	if feat == "" { // for the other input classes the outcome may depend on map order inside Search (known findings)
		e.Logf("txsearch %q -> %d", qstr, len(res))
	}
}

func (s *isim) searchBlocks(cs []cond, tight bool) {
	e := s.env
	qstr := renderQuery(cs, tight)
	q, err := query.New(qstr)
	if err != nil {
		panic(fmt.Sprintf("generator produced an unparsable query %q: %v", qstr, err))
	}
	feat := s.featureOf("block", cs)
	var res []int64
	var pan interface{}
	func() {
		defer func() { pan = recover() }()
		res, err = s.bli.Search(context.Background(), q)
	}()
	e.Count("op.search_block")
	if pan != nil {
		e.Fail("C19", searchSig("panic", feat), "BlockerIndexer.Search(%q) panicked: %v", qstr, pan)
		return
	}
	if err != nil {
		e.Fail("C19", searchSig("error", feat), "BlockerIndexer.Search(%q) failed: %v", qstr, err)
		return
	}
	seen := map[int64]bool{}
	for _, h := range res {
		if h < 1 || h > s.height {
			e.Fail("C19", searchSig("mismatch", feat), "BlockerIndexer.Search(%q) returned height %d that was never committed", qstr, h)
		}
		if seen[h] {
			e.Fail("C19", searchSig("duplicate", feat), "BlockerIndexer.Search(%q) returned height %d twice", qstr, h)
		}
		seen[h] = true
	}
	nYes := 0
	for _, b := range s.blocks {
		v := refVerdict(cs, b.attrs)
		in := seen[b.height]
		switch {
		case v == yes && !in:
			e.Fail("C19", searchSig("mismatch", feat), "BlockerIndexer.Search(%q) misses block %d whose indexed attributes %v satisfy the query (returned %v)", qstr, b.height, b.attrs, res)
		case v == no && in:
			e.Fail("C19", searchSig("mismatch", feat), "BlockerIndexer.Search(%q) returns block %d whose indexed attributes %v do not satisfy the query", qstr, b.height, b.attrs)
		}
		if v == yes {
			nYes++
		}
	}
	if nYes > 0 {
		e.Count("probe.search_block_nonempty")
	}
	if feat != "" {
		e.Count("probe.search_feature" + feat)
	}
	sort.Slice(res, func(i, j int) bool { return res[i] < res[j] })
	if feat == "" {
		e.Logf("blocksearch %q -> %v", qstr, res)
	}
}

func (s *isim) Finish() {
	if s.broken || s.wedged || (s.poisoned && s.env.IsKnown("C19", "lost-foreign-type-mismatch")) {
		return
	}
	// eventually: the DB is released and the service drains
	s.release()
	s.settleAndVerify()
	if s.broken || s.wedged {
		return
	}
	// every committed block and tx is (still) indexed
	for _, b := range s.blocks {
		var txs []*txRec
		for _, r := range s.txs {
			if r.height == b.height {
				txs = append(txs, r)
			}
		}
		s.checkIndexed(b, txs)
	}
	// a full scan finds every tx / block exactly once
	if len(s.txs) > 0 {
		s.searchTxs([]cond{{Key: "tx.height", Op: "EXISTS"}}, false)
		s.searchTxs([]cond{{"tx.height", ">=", "i", "1"}}, false)
	}
	if len(s.blocks) > 0 {
		s.searchBlocks([]cond{{"block.height", ">=", "i", "1"}}, false)
	}
}

func (s *isim) Close() {
	s.release()
	close(s.jobs)
	go func() {
		_ = s.svc.Stop()
		_ = s.bus.Stop()
	}()
}
