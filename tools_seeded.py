#!/usr/bin/env python3
"""tools_seeded.py <property> <name> <srcdir> <demo_pkg> <demo_run_regex> [--checks C05,C15] [--budget 60]

Verifies one seeded change (patch.diff + demo_test.go + README.md in <srcdir>) in a scratch
worktree of /repo's HEAD outside /repo and /verif, runs the registered checks against it with
VSIM_REPO, stores everything under /verif/seeded/<property>-<name>/ and removes the worktree.
"""
import argparse, json, os, shutil, subprocess, sys, time

ap = argparse.ArgumentParser()
ap.add_argument("prop"); ap.add_argument("name"); ap.add_argument("src"); ap.add_argument("pkg"); ap.add_argument("run")
ap.add_argument("--checks"); ap.add_argument("--budget", type=int, default=60); ap.add_argument("--tier", default="quick")
ap.add_argument("--demo-name", default="zz_seeded_demo_test.go"); ap.add_argument("--skip-demo", action="store_true"); ap.add_argument("--tags", default=""); ap.add_argument("--note", default="")
a = ap.parse_args()
ENV = dict(os.environ, GOFLAGS="-mod=mod", GOPROXY="off", GOSUMDB="off")
wt = "/tmp/seedwt-%s-%s" % (a.prop, a.name)
out = "/verif/seeded/%s-%s" % (a.prop, a.name)
os.makedirs(out, exist_ok=True)
for f in ("patch.diff", "README.md", "demo_test.go"):
    if os.path.exists(os.path.join(a.src, f)) and os.path.realpath(a.src) != os.path.realpath(out):
        shutil.copy(os.path.join(a.src, f), os.path.join(out, f))
meta = {"property": a.prop, "name": a.name, "demo_pkg": a.pkg, "demo_run": a.run, "ran": []}
if a.note:
    meta["note"] = a.note
try:
    old = json.load(open(os.path.join(out, "meta.json")))
    meta["history"] = old.get("history", []) + [{"repo_head": old.get("repo_head"), "verif_head": old.get("verif_head"),
                                                  "checks": {c: r.get("detected") for c, r in (old.get("checks") or {}).items()}}]
    if not a.note and old.get("note"):
        meta["note"] = old["note"]
except Exception:
    pass
meta["repo_head"] = subprocess.run("git -C /repo rev-parse --short HEAD", shell=True, stdout=subprocess.PIPE, text=True).stdout.strip()
meta["verif_head"] = subprocess.run("git -C /verif rev-parse --short HEAD", shell=True, stdout=subprocess.PIPE, text=True).stdout.strip()

def sh(cmd, cwd=None, env=ENV, timeout=3600):
    t0 = time.time()
    r = subprocess.run(cmd, shell=True, cwd=cwd, env=env, stdout=subprocess.PIPE, stderr=subprocess.STDOUT, text=True, timeout=timeout)
    meta["ran"].append({"cmd": cmd, "exit": r.returncode, "s": round(time.time() - t0, 1), "tail": r.stdout[-600:]})
    return r.returncode, r.stdout

subprocess.run("git -C /repo worktree remove --force %s" % wt, shell=True, stdout=subprocess.DEVNULL, stderr=subprocess.DEVNULL)
rc, o = sh("git -C /repo worktree add -q %s HEAD" % wt)
assert rc == 0, o
try:
    demo = os.path.join(wt, a.pkg, a.demo_name)
    if not a.skip_demo:
        shutil.copy(os.path.join(out, "demo_test.go"), demo)
        rc0, o0 = sh("go test -count=1 -vet=off %s -run '%s' ./%s/" % (("-tags " + a.tags) if a.tags else "", a.run, a.pkg), cwd=wt)
        meta["demo_without_change"] = "pass" if rc0 == 0 else "FAIL"
    rc, o = sh("git apply %s" % os.path.join(out, "patch.diff"), cwd=wt)
    if rc != 0:
        rc, o = sh("git apply -3 %s" % os.path.join(out, "patch.diff"), cwd=wt)
    meta["patch_applies_to_head"] = rc == 0
    if rc == 0:
        rcb, ob = sh("go build ./...", cwd=wt)
        meta["builds"] = rcb == 0
        if not a.skip_demo:
            rc1, o1 = sh("go test -count=1 -vet=off %s -run '%s' ./%s/" % (("-tags " + a.tags) if a.tags else "", a.run, a.pkg), cwd=wt)
            meta["demo_with_change"] = "pass" if rc1 == 0 else "FAIL"
            os.remove(demo)
        # the package's own tests with the change (the demo removed)
        rct, ot = sh("go test -count=1 -vet=off -p 2 ./%s/" % a.pkg, cwd=wt)
        meta["package_tests_with_change"] = "pass" if rct == 0 else "FAIL"
        checks = (a.checks or a.prop).split(",")
        meta["checks"] = {}
        for c in checks:
            env = dict(ENV, VSIM_REPO=wt)
            rcc, oc = sh("/verif/bin/vsim check %s --tier %s --budget %d" % (c, a.tier, a.budget), cwd="/verif", env=env, timeout=a.budget * 6 + 900)
            viol = [l for l in oc.splitlines() if l.startswith("VIOLATION") or l.startswith("  sig=")]
            summ = [l for l in oc.splitlines() if l.startswith("SUMMARY")]
            meta["checks"][c] = {"exit": rcc, "detected": rcc == 1 and any(l.startswith("VIOLATION") for l in viol), "violation": viol[:2], "summary": summ[-1:] }
            for l in viol[:1]:
                rp = l.split("replay=")[-1].strip()
                if os.path.exists(rp):
                    shutil.copy(rp, os.path.join(out, "detected-by-%s.replay.json" % c))
finally:
    subprocess.run("git -C /repo worktree remove --force %s" % wt, shell=True)
    # build output of the alt repo
    import hashlib
    subprocess.run("rm -rf /verif/.build/alt-" + hashlib.sha1(wt.encode()).hexdigest()[:10], shell=True)
json.dump(meta, open(os.path.join(out, "meta.json"), "w"), indent=1)
print(json.dumps({k: v for k, v in meta.items() if k != "ran"}, indent=1))
