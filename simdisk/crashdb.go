// Package simdisk holds the simulated storage seams: CrashDB (a dbm.DB with a durable
// image, a journal of unsynced write groups and persistence points at which the
// simulator may crash the node).
package simdisk

import (
	"fmt"
	"sort"
	"sync"

	dbm "github.com/tendermint/tm-db"
)

// Ctl is shared by all storage seams of one node incarnation. Every persistence operation
// calls Point before it takes effect ("pre") and after ("post"); OnPoint may crash the
// node (runtime.Goexit on a node goroutine, or a panic the harness recovers). Once Dead is
// set, every seam silently drops writes: nothing a dying process does reaches the disk.
type Ctl struct {
	mu      sync.Mutex
	n       int
	dead    bool
	OnPoint func(label string, index int)
	// FailWrite, if set, is asked before every write whether to return an I/O error instead.
	FailWrite func(label string, index int) error
}

func (c *Ctl) Dead() bool {
	if c == nil {
		return false
	}
	c.mu.Lock()
	defer c.mu.Unlock()
	return c.dead
}

// Kill marks the incarnation dead.
func (c *Ctl) Kill() {
	c.mu.Lock()
	c.dead = true
	c.mu.Unlock()
}

// Points returns the number of persistence points passed so far.
func (c *Ctl) Points() int {
	c.mu.Lock()
	defer c.mu.Unlock()
	return c.n
}

// Point announces a persistence point.
func (c *Ctl) Point(label string) int {
	if c == nil {
		return 0
	}
	c.mu.Lock()
	if c.dead {
		c.mu.Unlock()
		return -1
	}
	c.n++
	i := c.n
	f := c.OnPoint
	c.mu.Unlock()
	if f != nil {
		f(label, i)
	}
	return i
}

type kv struct {
	k   string
	v   []byte
	del bool
}

// CrashDB is a dbm.DB over MemDB with crash semantics of a log-structured store: writes
// are applied in order, a batch is atomic, a *Sync call makes everything written so far
// durable, a crash keeps the durable image plus a prefix of the unsynced write groups.
type CrashDB struct {
	Name string
	ctl  *Ctl
	mu   sync.Mutex
	mem  *dbm.MemDB
	dur  map[string][]byte
	pend [][]kv
	// Writes counts write groups (for statistics).
	Writes int
	// Trace, if set, is told every key a write group is about to set or delete (before the
	// group takes effect, outside the DB lock; it may read the DB).
	Trace func(key string, del bool)
}

var _ dbm.DB = (*CrashDB)(nil)

// NewCrashDB opens a DB on a durable image (nil = empty).
func NewCrashDB(name string, image map[string][]byte, ctl *Ctl) *CrashDB {
	d := &CrashDB{Name: name, ctl: ctl, mem: dbm.NewMemDB(), dur: map[string][]byte{}}
	for k, v := range image {
		d.dur[k] = append([]byte{}, v...)
		d.mem.Set([]byte(k), v)
	}
	return d
}

// Unsynced returns the number of write groups not yet durable.
func (d *CrashDB) Unsynced() int {
	d.mu.Lock()
	defer d.mu.Unlock()
	return len(d.pend)
}

// Image returns the durable image after a crash that preserved the first keep unsynced
// write groups (keep<0 or > len: all).
func (d *CrashDB) Image(keep int) map[string][]byte {
	d.mu.Lock()
	defer d.mu.Unlock()
	img := make(map[string][]byte, len(d.dur))
	for k, v := range d.dur {
		img[k] = v
	}
	if keep < 0 || keep > len(d.pend) {
		keep = len(d.pend)
	}
	for _, g := range d.pend[:keep] {
		for _, e := range g {
			if e.del {
				delete(img, e.k)
			} else {
				img[e.k] = e.v
			}
		}
	}
	return img
}

// Keys returns the sorted keys of the live view (debugging / audits).
func (d *CrashDB) Keys() []string {
	d.mu.Lock()
	defer d.mu.Unlock()
	img := d.imageLocked()
	ks := make([]string, 0, len(img))
	for k := range img {
		ks = append(ks, k)
	}
	sort.Strings(ks)
	return ks
}

func (d *CrashDB) imageLocked() map[string][]byte {
	img := make(map[string][]byte, len(d.dur))
	for k, v := range d.dur {
		img[k] = v
	}
	for _, g := range d.pend {
		for _, e := range g {
			if e.del {
				delete(img, e.k)
			} else {
				img[e.k] = e.v
			}
		}
	}
	return img
}

func (d *CrashDB) apply(label string, g []kv, sync bool) error {
	if d.ctl.Dead() {
		return nil
	}
	if d.ctl != nil && d.ctl.FailWrite != nil {
		if err := d.ctl.FailWrite("db:"+d.Name+":"+label, d.ctl.Points()); err != nil {
			return err
		}
	}
	d.ctl.Point("db:" + d.Name + ":" + label + ":pre")
	if d.ctl.Dead() {
		return nil
	}
	if d.Trace != nil {
		for _, e := range g {
			d.Trace(e.k, e.del)
		}
	}
	d.mu.Lock()
	for _, e := range g {
		if e.del {
			d.mem.Delete([]byte(e.k))
		} else {
			d.mem.Set([]byte(e.k), e.v)
		}
	}
	if len(g) > 0 {
		d.pend = append(d.pend, g)
		d.Writes++
	}
	if sync {
		for _, pg := range d.pend {
			for _, e := range pg {
				if e.del {
					delete(d.dur, e.k)
				} else {
					d.dur[e.k] = e.v
				}
			}
		}
		d.pend = nil
	}
	d.mu.Unlock()
	d.ctl.Point("db:" + d.Name + ":" + label + ":post")
	return nil
}

func (d *CrashDB) Get(k []byte) ([]byte, error) { return d.mem.Get(k) }
func (d *CrashDB) Has(k []byte) (bool, error)   { return d.mem.Has(k) }

func (d *CrashDB) Set(k, v []byte) error {
	if len(k) == 0 || v == nil {
		return d.mem.Set(k, v) // returns the proper error
	}
	return d.apply("Set", []kv{{k: string(k), v: append([]byte{}, v...)}}, false)
}

func (d *CrashDB) SetSync(k, v []byte) error {
	if len(k) == 0 || v == nil {
		return d.mem.Set(k, v)
	}
	return d.apply("SetSync", []kv{{k: string(k), v: append([]byte{}, v...)}}, true)
}

func (d *CrashDB) Delete(k []byte) error {
	if len(k) == 0 {
		return d.mem.Delete(k)
	}
	return d.apply("Delete", []kv{{k: string(k), del: true}}, false)
}

func (d *CrashDB) DeleteSync(k []byte) error {
	if len(k) == 0 {
		return d.mem.Delete(k)
	}
	return d.apply("DeleteSync", []kv{{k: string(k), del: true}}, true)
}

// Iterators are snapshots, as goleveldb's are: MemDB's own iterator keeps the read lock while
// more than 64 items are outstanding, so code that deletes while it iterates (legal on the
// production back end, e.g. evidence.Pool.removeExpiredPendingEvidence) would deadlock on it.
func (d *CrashDB) Iterator(start, end []byte) (dbm.Iterator, error) {
	return d.snapshot(start, end, false)
}

func (d *CrashDB) ReverseIterator(start, end []byte) (dbm.Iterator, error) {
	return d.snapshot(start, end, true)
}

func (d *CrashDB) snapshot(start, end []byte, reverse bool) (dbm.Iterator, error) {
	if (start != nil && len(start) == 0) || (end != nil && len(end) == 0) {
		return nil, fmt.Errorf("empty key")
	}
	var it dbm.Iterator
	var err error
	if reverse {
		it, err = d.mem.ReverseIterator(start, end)
	} else {
		it, err = d.mem.Iterator(start, end)
	}
	if err != nil {
		return nil, err
	}
	sn := &snapIter{start: start, end: end}
	for ; it.Valid(); it.Next() {
		sn.keys = append(sn.keys, append([]byte{}, it.Key()...))
		sn.vals = append(sn.vals, append([]byte{}, it.Value()...))
	}
	if err := it.Close(); err != nil {
		return nil, err
	}
	return sn, nil
}

type snapIter struct {
	start, end []byte
	keys, vals [][]byte
	pos        int
}

func (s *snapIter) Domain() ([]byte, []byte) { return s.start, s.end }
func (s *snapIter) Valid() bool              { return s.pos < len(s.keys) }
func (s *snapIter) Next() {
	if !s.Valid() {
		panic("iterator is invalid")
	}
	s.pos++
}
func (s *snapIter) Key() []byte {
	if !s.Valid() {
		panic("iterator is invalid")
	}
	return s.keys[s.pos]
}
func (s *snapIter) Value() []byte {
	if !s.Valid() {
		panic("iterator is invalid")
	}
	return s.vals[s.pos]
}
func (s *snapIter) Error() error { return nil }
func (s *snapIter) Close() error { return nil }

func (d *CrashDB) Close() error             { return nil }
func (d *CrashDB) Print() error             { return nil }
func (d *CrashDB) Stats() map[string]string { return map[string]string{} }

func (d *CrashDB) NewBatch() dbm.Batch { return &crashBatch{db: d} }

type crashBatch struct {
	db   *CrashDB
	ops  []kv
	done bool
}

func (b *crashBatch) Set(k, v []byte) error {
	b.ops = append(b.ops, kv{k: string(k), v: append([]byte{}, v...)})
	return nil
}

func (b *crashBatch) Delete(k []byte) error {
	b.ops = append(b.ops, kv{k: string(k), del: true})
	return nil
}

func (b *crashBatch) Write() error {
	b.done = true
	return b.db.apply("Batch.Write", b.ops, false)
}

func (b *crashBatch) WriteSync() error {
	b.done = true
	return b.db.apply("Batch.WriteSync", b.ops, true)
}

func (b *crashBatch) Close() error { b.ops = nil; return nil }
