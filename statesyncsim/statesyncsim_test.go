// Package statesyncsim: deterministic simulation of the real statesync.Reactor (syncer, chunk
// queue on a scratch dir, snapshot pool, fetchers) driven by the real light-client state
// provider over in-process RPC servers, simulated snapshot peers and a verdict-scripted
// recording application. Decides C14.
package statesyncsim

import (
	"context"
	"fmt"
	"net"
	"net/http"
	"os"
	"path/filepath"
	"runtime"
	"sort"
	"strings"
	"sync"
	"sync/atomic"
	"testing"
	"time"

	"github.com/gogo/protobuf/proto"

	abci "github.com/tendermint/tendermint/abci/types"
	"github.com/tendermint/tendermint/config"
	"github.com/tendermint/tendermint/libs/log"
	"github.com/tendermint/tendermint/libs/service"
	"github.com/tendermint/tendermint/light"
	"github.com/tendermint/tendermint/p2p"
	tmconn "github.com/tendermint/tendermint/p2p/conn"
	tmstate "github.com/tendermint/tendermint/proto/tendermint/state"
	ssproto "github.com/tendermint/tendermint/proto/tendermint/statesync"
	rpchttp "github.com/tendermint/tendermint/rpc/client/http"
	tmversion "github.com/tendermint/tendermint/proto/tendermint/version"
	sm "github.com/tendermint/tendermint/state"
	"github.com/tendermint/tendermint/statesync"
	"github.com/tendermint/tendermint/types"
	"github.com/tendermint/tendermint/version"

	"verif/chaingen"
	"verif/simcore"
)

func TestMain(m *testing.M) {
	simcore.InitProcess()
	// The first rpc client of the process starts go-metrics' global meter arbiter goroutine,
	// whose ticker was created at package init: start it outside any bubble (inside one it
	// would block on a non-bubble channel and synctest.Wait would never return).
	if _, err := rpchttp.New("http://127.0.0.1:1", "/websocket"); err != nil {
		panic(err)
	}
	os.Exit(m.Run())
}

func TestSim(t *testing.T) { simcore.Main(t, harness) }

var harness = &simcore.Harness{
	Name:   "statesyncsim",
	Props:  []string{"C14"},
	Config: genConfig,
	New:    newSim,
	MaxOps: 320,
	Real: []string{
		"statesync.Reactor (Sync, Receive/ReceiveEnvelope incl. wire decoding, AddPeer/RemovePeer), syncer (SyncAny, Sync, offerSnapshot, applyChunks, fetchChunks, verifyApp), chunkQueue on a tmpfs directory, snapshotPool with its blacklists",
		"statesync.NewLightClientStateProvider: real light.Client (skipping + backwards verification, witness cross-checks, primary replacement), light/provider/http, light/rpc verifying client, rpc/client/http + jsonrpc client",
		"RPC server side: real rpc/core route handlers (commit, validators, consensus_params) served by the real jsonrpc server handler over the canonical chain's BlockStore/StateStore, reached through an in-process http.RoundTripper (hook H7)",
		"p2p.Switch (AddReactor, BroadcastEnvelope, StopPeerForError/stopAndRemovePeer, PeerSet) - never started, no transport",
		"canonical chain: chaingen (real BlockExecutor, stores, signed commits, validator churn)",
	},
	Stub: []string{
		"peers: simulator objects implementing p2p.Peer; Send captures SnapshotsRequest/ChunkRequest, answers are injected with Reactor.Receive",
		"application: harness object implementing proxy.AppConnSnapshot / proxy.AppConnQuery directly; every call blocks until the simulator releases a PRNG-drawn verdict",
		"network between light client and RPC servers: synchronous in-process round trip; faults = down / slow / behind / pruned / one falsified response field",
		"p2p transport: embedded nil interface with a no-op Cleanup",
	},
	Assumptions: []string{
		"fewer than 1/3 of the voting power signs forged headers (RPC liars falsify fields but cannot forge commits)",
		"the trusted height/hash given to the light client is on the canonical chain and within the trusting period",
		"chunk-queue incarnations are recognised by their directory under TMPDIR (NewReactor drops its tempDir argument in this version)",
		"ABCI semantics of reject_senders as documented: chunks already handed to the application may be re-applied by RETRY / RETRY_SNAPSHOT; queued and new chunks of the sender must not be used",
	},
}

// ---------------------------------------------------------------- configuration

func genConfig(rng *simcore.RNG, env *simcore.Env) simcore.Op {
	c := simcore.Op{}
	c["chain_seed"] = fmt.Sprint(rng.Uint64())
	initH := []int{1, 1, 1, 3, 7}[rng.Intn(5)]
	ln := rng.Range(6, 13)
	if env.Thorough() {
		ln = rng.Range(6, 22)
	}
	tip := initH + ln - 1
	c["init_h"], c["len"] = initH, ln
	c["nvals"] = rng.Range(1, 4)
	c["churn"] = []int{0, 30, 60}[rng.Intn(3)]
	c["trust_h"] = initH + rng.Intn(ln)
	mode := []string{"honest", "coop", "wild"}[rng.Weighted([]int{12, 18, 70})]
	c["mode"] = mode
	wild := mode == "wild"
	c["fetchers"] = 1
	if rng.Bool(0.3) {
		c["fetchers"] = rng.Range(2, 4)
	}
	c["retry_ms"] = []int{3000, 10000, 15000}[rng.Intn(3)]
	c["disc_ms"] = []int{3000, 6000, 15000}[rng.Intn(3)]
	if wild && rng.Bool(0.03) {
		c["disc_ms"] = 0
	}
	c["servers"] = 2 + rng.Intn(2)
	flags := map[string]float64{"f_bogus": .6, "f_chunk": .7, "f_churn": .4, "f_verdict": .75, "f_info": .4, "f_rpc": .4, "f_badmsg": .2}
	names := make([]string, 0, len(flags))
	for k := range flags {
		names = append(names, k)
	}
	sort.Strings(names)
	for _, k := range names {
		c[k] = wild && rng.Bool(flags[k])
	}
	np := rng.Range(1, 4)
	c["npeers"] = np
	c["init_peers"] = rng.Intn(np + 1)
	if !wild && c.Int("init_peers") == 0 {
		c["init_peers"] = 1
	}
	// catalogue of snapshots peers may advertise
	var cat []simcore.Op
	used := map[[2]int]bool{}
	add := func(h, f, n int, kind string, twin int) int {
		cat = append(cat, simcore.Op{"h": h, "f": f, "n": n, "hash": simcore.HexStr(rng.Bytes(rng.Range(1, 32))), "meta": simcore.HexStr(rng.Bytes(rng.Intn(6))), "kind": kind, "twin": twin})
		used[[2]int{h, f}] = true
		return len(cat) - 1
	}
	maxN := 6
	if env.Thorough() {
		maxN = 9
	}
	gh := initH + rng.Intn(ln-2)
	g0 := add(gh, 1+rng.Intn(2), rng.Range(1, maxN), "good", -1)
	// validator updates returned exactly in the snapshot block, the one before, the one after
	var forceUpd []int
	for d := -1; d <= 2; d++ {
		if h := gh + d; h >= initH && rng.Bool(0.35) {
			forceUpd = append(forceUpd, h)
		}
	}
	c["force_upd"] = forceUpd
	if rng.Bool(0.5) {
		h2 := initH + rng.Intn(ln-2)
		f2 := 1 + rng.Intn(2)
		if !used[[2]int{h2, f2}] {
			add(h2, f2, rng.Range(1, maxN), "good", -1)
		}
	}
	if wild && c.Bool("f_bogus") {
		if rng.Bool(0.35) {
			t := add(cat[g0].Int("h"), cat[g0].Int("f"), rng.Range(1, maxN), "twin", g0)
			cat[g0]["twin"] = t
		}
		for i, nb := 0, rng.Intn(4); i < nb; i++ {
			var h, f, n int
			kind := []string{"tip", "beyond", "below", "huge", "badfmt"}[rng.Intn(5)]
			f, n = 1+rng.Intn(2), rng.Range(1, maxN)
			switch kind {
			case "tip":
				h = tip - rng.Intn(2)
			case "beyond":
				h = tip + rng.Range(1, 40)
			case "below":
				if initH == 1 {
					continue
				}
				h = initH - 1 - rng.Intn(initH-1)
			case "huge":
				h, f, n = initH+rng.Intn(ln-2), 3, 20000+rng.Intn(30000)
			case "badfmt":
				h, f = initH+rng.Intn(ln-2), 7
			}
			if !used[[2]int{h, f}] {
				add(h, f, n, kind, -1)
			}
		}
	}
	c["cat"] = cat
	var has [][]int
	for p := 0; p < np; p++ {
		var hp []int
		for k := range cat {
			if !wild || rng.Bool(0.6) {
				hp = append(hp, k)
			}
		}
		if len(hp) == 0 {
			hp = []int{rng.Intn(len(cat))}
		}
		has = append(has, hp)
	}
	c["has"] = has
	// RPC servers
	var rpc []simcore.Op
	for i := 0; i < c.Int("servers"); i++ {
		rpc = append(rpc, simcore.Op{"m": "ok"})
	}
	if c.Bool("f_rpc") {
		bad := rng.Intn(len(rpc))
		rpc[bad] = drawRPCMode(rng, initH, tip)
		if len(rpc) == 2 && rng.Bool(0.2) {
			rpc[1-bad] = drawRPCMode(rng, initH, tip)
		}
	}
	c["rpc"] = rpc
	c["rpc_late"] = rng.Bool(0.8)
	c["nops"] = rng.Range(40, 220)
	if !wild {
		c["nops"] = 300
	}
	return c
}

func drawRPCMode(rng *simcore.RNG, initH, tip int) simcore.Op {
	switch rng.Weighted([]int{50, 12, 15, 10, 10}) {
	case 0:
		o := simcore.Op{"m": "lie", "lie": lieKinds[rng.Intn(len(lieKinds))]}
		if rng.Bool(0.4) {
			o["h"] = initH + rng.Intn(tip-initH+1)
		}
		return o
	case 1:
		return simcore.Op{"m": "down"}
	case 2:
		return simcore.Op{"m": "slow", "ms": []int{1013, 7019, 31013, 45007}[rng.Intn(4)]}
	case 3:
		return simcore.Op{"m": "behind", "h": initH + rng.Intn(tip-initH+1)}
	default:
		return simcore.Op{"m": "pruned", "h": initH + rng.Intn(tip-initH+1)}
	}
}

// ---------------------------------------------------------------- simulated parts

type snapSpec struct {
	H          uint64
	F, N       uint32
	Hash, Meta []byte
	Kind       string
	Twin       int
}

func (k snapSpec) key() string { return keyOf(k.H, k.F, k.N, k.Hash, k.Meta) }

// chunkBytes is the genuine content of chunk idx of catalogue entry k.
func chunkBytes(k int, idx uint32) []byte {
	r := simcore.NewRNG(uint64(k)*1000003 + uint64(idx)*7919 + 17)
	return r.Bytes(1 + int((uint32(k)*7+idx*3)%29))
}

func peerID(i int) string { return fmt.Sprintf("%040x", i+1) }

type chunkReq struct {
	peer int
	h    uint64
	f, i uint32
	at   time.Duration // simulated time at which the harness saw the request
}

// Contract of the cooperative modes (honest, coop): the environment owes the reactor an answer
// to every application call, an answer to every chunk request it does not drop (at most
// dropBudget() consecutive drops per chunk), the advertisement of every snapshot a connected
// peer has, and at least one connected peer. Next keeps every debt younger than forceAfter; a
// run (in particular a reduced replay) in which some debt got older than oweLimit is outside
// the contract and is not judged for completeness. Under the contract a correct syncer always
// reaches the next application call (or returns) well within stuckAfter.
const (
	forceAfter = 12 * time.Second
	oweLimit   = 30 * time.Second
	stuckAfter = 150 * time.Second
)

type verdict struct {
	res     int32
	refetch []uint32
	rej     []string
	infoH   int64
	infoHsh []byte
	infoVer uint64
}

type simPeer struct {
	*service.BaseService
	s   *sim
	idx int
	kv  sync.Map
}

func (p *simPeer) FlushStop()           { p.Stop() } //nolint:errcheck
func (p *simPeer) ID() p2p.ID           { return p2p.ID(peerID(p.idx)) }
func (p *simPeer) RemoteIP() net.IP     { return net.IPv4(10, 0, 0, byte(p.idx+1)) }
func (p *simPeer) RemoteAddr() net.Addr { return &net.TCPAddr{IP: p.RemoteIP(), Port: 26656} }
func (p *simPeer) IsOutbound() bool     { return true }
func (p *simPeer) IsPersistent() bool   { return false }
func (p *simPeer) CloseConn() error     { return nil }
func (p *simPeer) NodeInfo() p2p.NodeInfo {
	return p2p.DefaultNodeInfo{DefaultNodeID: p.ID(), ListenAddr: fmt.Sprintf("10.0.0.%d:26656", p.idx+1)}
}
func (p *simPeer) Status() tmconn.ConnectionStatus { return tmconn.ConnectionStatus{} }
func (p *simPeer) SocketAddr() *p2p.NetAddress {
	a := p2p.NewNetAddressIPPort(p.RemoteIP(), 26656)
	a.ID = p.ID()
	return a
}
func (p *simPeer) Send(ch byte, b []byte) bool    { return p.s.capture(p, ch, b) }
func (p *simPeer) TrySend(ch byte, b []byte) bool { return p.s.capture(p, ch, b) }
func (p *simPeer) Set(k string, v interface{})    { p.kv.Store(k, v) }
func (p *simPeer) Get(k string) interface{}       { v, _ := p.kv.Load(k); return v }
func (p *simPeer) SetRemovalFailed()              {}
func (p *simPeer) GetRemovalFailed() bool         { return false }

type stubTransport struct{ p2p.Transport }

func (stubTransport) Cleanup(p2p.Peer) {}

// simLogger counts interesting log lines as coverage probes and, once the run is being
// closed, terminates the state-sync goroutines at their next log call (SyncAny has no
// cancellation and would otherwise keep the bubble alive).
type simLogger struct{ s *sim }

func (l *simLogger) note(msg string) {
	s := l.s
	if s.closing.Load() && !s.onDriver() {
		runtime.Goexit()
	}
	switch {
	case strings.HasPrefix(msg, "Timed out waiting for snapshot chunks"):
		s.env.Count("probe.chunk_timeout")
	case strings.HasPrefix(msg, "Timed out validating snapshot"):
		s.env.Count("probe.validate_deadline")
	case strings.HasPrefix(msg, "Ignoring duplicate chunk"):
		s.env.Count("probe.duplicate_chunk_ignored")
	case strings.HasPrefix(msg, "Failed to add chunk"):
		s.env.Count("probe.chunk_refused")
	case strings.HasPrefix(msg, "failed to fetch and verify app hash"):
		s.env.Count("probe.apphash_unverifiable")
	case strings.HasPrefix(msg, "failed to fetch and verify tendermint state"), strings.HasPrefix(msg, "failed to fetch and verify commit"):
		s.env.Count("probe.state_unverifiable")
	case strings.HasPrefix(msg, "No valid peers found for snapshot"):
		s.env.Count("probe.no_peer_for_chunk")
	case strings.HasPrefix(msg, "Invalid message"):
		s.env.Count("probe.invalid_message")
	case strings.HasPrefix(msg, "Retrying snapshot"):
		s.env.Count("probe.retry_snapshot")
	}
}
func (l *simLogger) Debug(msg string, kv ...interface{}) { l.note(msg) }
func (l *simLogger) Info(msg string, kv ...interface{})  { l.note(msg) }
func (l *simLogger) Error(msg string, kv ...interface{}) { l.note(msg) }
func (l *simLogger) With(kv ...interface{}) log.Logger   { return l }

// the recording application
type snapConn struct{ s *sim }

func (a *snapConn) Error() error { return nil }
func (a *snapConn) ListSnapshotsSync(abci.RequestListSnapshots) (*abci.ResponseListSnapshots, error) {
	return &abci.ResponseListSnapshots{}, nil
}
func (a *snapConn) LoadSnapshotChunkSync(abci.RequestLoadSnapshotChunk) (*abci.ResponseLoadSnapshotChunk, error) {
	return &abci.ResponseLoadSnapshotChunk{}, nil
}
func (a *snapConn) OfferSnapshotSync(req abci.RequestOfferSnapshot) (*abci.ResponseOfferSnapshot, error) {
	c := &appCall{kind: "offer", appHash: append([]byte{}, req.AppHash...)}
	if sn := req.Snapshot; sn != nil {
		c.h, c.f, c.n, c.hash, c.meta = sn.Height, sn.Format, sn.Chunks, append([]byte{}, sn.Hash...), append([]byte{}, sn.Metadata...)
	}
	v := a.s.appCall(c)
	return &abci.ResponseOfferSnapshot{Result: abci.ResponseOfferSnapshot_Result(v.res)}, nil
}
func (a *snapConn) ApplySnapshotChunkSync(req abci.RequestApplySnapshotChunk) (*abci.ResponseApplySnapshotChunk, error) {
	c := &appCall{kind: "apply", idx: req.Index, chunk: append([]byte{}, req.Chunk...), sender: req.Sender}
	v := a.s.appCall(c)
	return &abci.ResponseApplySnapshotChunk{Result: abci.ResponseApplySnapshotChunk_Result(v.res), RefetchChunks: v.refetch, RejectSenders: v.rej}, nil
}

type queryConn struct{ s *sim }

func (a *queryConn) Error() error { return nil }
func (a *queryConn) EchoSync(m string) (*abci.ResponseEcho, error) {
	return &abci.ResponseEcho{Message: m}, nil
}
func (a *queryConn) QuerySync(abci.RequestQuery) (*abci.ResponseQuery, error) {
	return &abci.ResponseQuery{}, nil
}
func (a *queryConn) InfoSync(abci.RequestInfo) (*abci.ResponseInfo, error) {
	v := a.s.appCall(&appCall{kind: "info"})
	return &abci.ResponseInfo{Data: "statesyncsim", LastBlockHeight: v.infoH, LastBlockAppHash: v.infoHsh, AppVersion: v.infoVer}, nil
}

// ---------------------------------------------------------------- the simulation

type sim struct {
	env  *simcore.Env
	cfg  simcore.Op
	mode string
	tmp  string

	chain   *chaingen.Chain
	mux     *http.ServeMux
	cat     []snapSpec
	has     [][]int
	reactor *statesync.Reactor
	sw      *p2p.Switch
	logger  *simLogger
	peers   []*simPeer
	alive   []bool

	mu          sync.Mutex
	captured    []chunkReq
	snapCap     []int
	pending     *appCall
	calls       []*appCall
	done        bool
	resState    sm.State
	resCommit   *types.Commit
	resErr      error
	rpc         []rpcMode
	rpcFaultsOn bool
	release     chan verdict
	exited      chan struct{}
	closing     atomic.Bool
	driverFlag  atomic.Int64

	// harness-side knowledge
	initFailed     bool
	opsLeft        int
	outstanding    []chunkReq
	snapReqs       []int
	arrivals       []*arrival
	nDeliv         int
	curDir         string
	dirEpoch       int
	adverts        []map[string]bool          // per peer index: keys in the pool on behalf of this connection
	advertisers    map[string]map[string]bool // key -> ids of non-rejected peers that advertised it
	everAdvertised map[string]bool
	rejectedPeer   map[string]int
	rejectedSnap   map[string]bool
	rejectedFmt    map[uint32]bool
	lastRefetch    map[uint32]int
	m              model
	doneSeen       bool
	grown          int
	nonAccept      int
	ticks          int
	idleOps        int // consecutive actions without any application call / chunk request

	// contract bookkeeping of the cooperative modes
	lastProgress   time.Duration // last application call arrival / verdict release
	pendSince      time.Duration
	freshSince     time.Duration // -1: every connected peer has advertised what it has
	noPeerSince    time.Duration // -1: some peer is connected
	contractBroken string
	drops          map[[3]uint64]int
	hadRetrySnap   bool            // the current queue incarnation went through RETRY_SNAPSHOT
	reqSinceRetry  map[uint32]bool // chunk indexes requested since the last RETRY_SNAPSHOT
}

// onDriver: the logger must never Goexit the driver goroutine. The driver sets driverFlag
// around its own calls into the reactor.
func (s *sim) onDriver() bool { return s.driverFlag.Load() != 0 }

func (s *sim) simMs() int64 { return time.Since(s.env.Start).Milliseconds() }

func newSim(env *simcore.Env, cfg simcore.Op) simcore.Sim {
	s := &sim{env: env, cfg: cfg, mode: cfg.Str("mode"), opsLeft: cfg.Int("nops"),
		advertisers: map[string]map[string]bool{}, everAdvertised: map[string]bool{}, rejectedPeer: map[string]int{},
		rejectedSnap: map[string]bool{}, rejectedFmt: map[uint32]bool{}, lastRefetch: map[uint32]int{},
		release: make(chan verdict, 1), exited: make(chan struct{}), freshSince: -1, noPeerSince: -1, drops: map[[3]uint64]int{}, reqSinceRetry: map[uint32]bool{}}
	s.m.reset()
	env.Count("mode." + s.mode)
	s.tmp = filepath.Join(env.MkScratch(), "tmp")
	os.MkdirAll(s.tmp, 0o700)
	os.Setenv("TMPDIR", s.tmp) // NewReactor ignores its tempDir argument: the chunk queue uses os.TempDir()

	// canonical chain; block times lie in the past of the bubble's clock
	initH, ln := int64(cfg.Int("init_h")), cfg.Int("len")
	powers := make([]int64, cfg.Int("nvals"))
	for i := range powers {
		powers[i] = 10
	}
	s.chain = chaingen.New(chaingen.Opts{ChainID: "c14-chain", InitialHeight: initH, Powers: powers, Genesis: time.Now().Add(-3 * time.Hour).UTC()})
	force := map[int64]bool{}
	for _, h := range cfg.Ints("force_upd") {
		force[int64(h)] = true
	}
	growChain(s.chain, simcore.NewRNG(cfg.U64("chain_seed")), ln, 5, float64(cfg.Int("churn"))/100, force)
	s.mux = newRPCMux(s.chain)

	for _, o := range cfg.Subs("cat") {
		s.cat = append(s.cat, snapSpec{H: uint64(o.Int("h")), F: uint32(o.Int("f")), N: uint32(o.Int("n")), Hash: o.Hex("hash"), Meta: o.Hex("meta"), Kind: o.Str("kind"), Twin: o.Int("twin")})
	}
	if hs, ok := cfg["has"].([]any); ok {
		for _, x := range hs {
			s.has = append(s.has, simcore.Op{"x": x}.Ints("x"))
		}
	}
	np := cfg.Int("npeers")
	for len(s.has) < np {
		s.has = append(s.has, []int{0})
	}
	s.peers, s.alive, s.snapReqs, s.adverts = make([]*simPeer, np), make([]bool, np), make([]int, np), make([]map[string]bool, np)
	for i := range s.adverts {
		s.adverts[i] = map[string]bool{}
	}
	for _, o := range cfg.Subs("rpc") {
		s.rpc = append(s.rpc, modeFromOp(o))
	}
	s.rpcFaultsOn = !cfg.Bool("rpc_late")

	// the real reactor on a real (never started) switch
	sscfg := config.StateSyncConfig{ChunkFetchers: int32(cfg.Int("fetchers")), ChunkRequestTimeout: time.Duration(cfg.Int("retry_ms"))*time.Millisecond + 7,
		DiscoveryTime: time.Duration(cfg.Int("disc_ms")) * time.Millisecond, TempDir: s.tmp}
	s.logger = &simLogger{s}
	s.reactor = statesync.NewReactor(sscfg, &snapConn{s}, &queryConn{s}, s.tmp)
	s.reactor.SetLogger(s.logger)
	s.sw = p2p.NewSwitch(config.DefaultP2PConfig(), stubTransport{})
	s.sw.SetLogger(log.NewNopLogger())
	s.sw.AddReactor("STATESYNC", s.reactor)
	if err := s.reactor.Start(); err != nil {
		panic(err)
	}

	// the real light-client state provider over in-process RPC
	statesync.VerifHTTPClient = func(server string) *http.Client {
		for i := range s.rpc {
			if strings.Contains(server, fmt.Sprintf("rpc%d:", i)) {
				return &http.Client{Transport: &rpcServer{s: s, idx: i}}
			}
		}
		return nil
	}
	var servers []string
	for i := range s.rpc {
		servers = append(servers, fmt.Sprintf("rpc%d:26657", i))
	}
	th := int64(cfg.Int("trust_h"))
	ver := tmstate.Version{Consensus: tmversion.Consensus{Block: version.BlockProtocol, App: 0}, Software: version.TMCoreSemVer}
	sp, err := statesync.NewLightClientStateProvider(context.Background(), s.chain.State.ChainID, ver, initH, servers,
		light.TrustOptions{Period: 168 * time.Hour, Height: th, Hash: s.chain.Blocks[th].Hash()}, log.NewNopLogger())
	if err != nil {
		if s.rpcFaultsOn {
			env.Count("probe.provider_init_failed")
			env.Logf("provider init failed")
			s.initFailed = true
			close(s.exited)
			return s
		}
		panic(fmt.Sprintf("statesyncsim: light client state provider over honest servers failed: %v", err))
	}
	s.mu.Lock()
	s.rpcFaultsOn = true
	s.mu.Unlock()

	for i := 0; i < cfg.Int("init_peers") && i < np; i++ {
		s.connect(i)
	}
	disc := sscfg.DiscoveryTime
	go func() {
		defer close(s.exited)
		st, c, err := s.reactor.Sync(sp, disc)
		s.mu.Lock()
		s.done, s.resState, s.resCommit, s.resErr = true, st, c, err
		s.mu.Unlock()
	}()
	s.settle()
	return s
}

func (s *sim) result() (bool, sm.State, *types.Commit, error) {
	s.mu.Lock()
	defer s.mu.Unlock()
	return s.done, s.resState, s.resCommit, s.resErr
}

func (s *sim) pendingCall() *appCall {
	s.mu.Lock()
	defer s.mu.Unlock()
	return s.pending
}

// appCall runs on a state-sync goroutine: journal the call, block until the verdict is released.
func (s *sim) appCall(c *appCall) verdict {
	if s.closing.Load() {
		return verdict{res: 2} // ABORT in both enums
	}
	s.mu.Lock()
	c.seq = len(s.calls)
	s.calls = append(s.calls, c)
	s.pending = c
	s.mu.Unlock()
	return <-s.release
}

// capture runs on reactor goroutines (fetchers, broadcast) or on the driver (AddPeer).
func (s *sim) capture(p *simPeer, ch byte, b []byte) bool {
	msg := &ssproto.Message{}
	if err := proto.Unmarshal(b, msg); err != nil {
		panic(err)
	}
	um, err := msg.Unwrap()
	if err != nil {
		panic(err)
	}
	s.mu.Lock()
	defer s.mu.Unlock()
	switch m := um.(type) {
	case *ssproto.SnapshotsRequest:
		s.snapCap = append(s.snapCap, p.idx)
	case *ssproto.ChunkRequest:
		s.captured = append(s.captured, chunkReq{peer: p.idx, h: m.Height, f: m.Format, i: m.Index})
	}
	return true
}

func (s *sim) connect(i int) {
	p := &simPeer{s: s, idx: i}
	p.BaseService = service.NewBaseService(nil, "SimPeer", p)
	if err := p.Start(); err != nil {
		panic(err)
	}
	s.peers[i], s.alive[i], s.snapReqs[i], s.adverts[i] = p, true, 0, map[string]bool{}
	if err := s.sw.Peers().(*p2p.PeerSet).Add(p); err != nil {
		panic(err)
	}
	s.driverFlag.Store(1)
	s.reactor.InitPeer(p)
	s.reactor.AddPeer(p)
	s.driverFlag.Store(0)
}

func (s *sim) markDead(i int) {
	s.alive[i], s.snapReqs[i], s.adverts[i] = false, 0, map[string]bool{}
	out := s.outstanding[:0]
	for _, r := range s.outstanding {
		if r.peer != i {
			out = append(out, r)
		}
	}
	s.outstanding = out
}

func (s *sim) deliver(ch byte, p *simPeer, m p2p.Wrapper) {
	b, err := proto.Marshal(m.Wrap())
	if err != nil {
		panic(err)
	}
	s.driverFlag.Store(1)
	s.reactor.Receive(ch, p, b)
	s.driverFlag.Store(0)
}

func (s *sim) settle() {
	s.env.Settle()
	s.observe()
}

func (s *sim) sampleDir() {
	ents, _ := os.ReadDir(s.tmp)
	var names []string
	for _, en := range ents {
		if strings.HasPrefix(en.Name(), "tm-statesync") {
			names = append(names, en.Name())
		}
	}
	name := ""
	switch len(names) {
	case 0:
	case 1:
		name = names[0]
	default:
		s.env.Count("probe.multi_queue_dir")
		for _, n := range names {
			if n != s.curDir {
				name = n
			}
		}
	}
	if name != "" && name != s.curDir {
		s.dirEpoch++
	}
	s.curDir = name
}

// observe brings the harness's view up to date after the system settled and runs the oracles
// on everything new.
func (s *sim) observe() {
	e := s.env
	prevDir := s.curDir
	s.sampleDir()
	for i, p := range s.peers {
		if p != nil && s.alive[i] && !p.IsRunning() {
			e.Count("probe.peer_stopped_by_reactor")
			s.markDead(i)
		}
	}
	s.mu.Lock()
	capd, snaps := s.captured, s.snapCap
	s.captured, s.snapCap = nil, nil
	s.mu.Unlock()
	if s.curDir != prevDir && len(capd) > 0 {
		// The attempt ended in the very settle in which its fetchers sent these requests (e.g.
		// the light client failed right after the offer was accepted): whether a fetcher got its
		// request out before the queue was closed is a race inside the reactor. Nothing depends on
		// these requests any more; they are dropped to keep the run replayable.
		e.Count("probe.requests_of_ended_attempt_dropped")
		capd = nil
	}
	sort.Ints(snaps)
	for _, p := range snaps {
		if s.alive[p] {
			s.snapReqs[p]++
			e.Logf("snapreq p=%d", p)
		}
	}
	// Canonical pairing: fetcher goroutines woken at the same instant draw their peer and
	// their index in an order the simulator does not own; the reactor does not remember whom it
	// asked for what, so the batch is re-paired (sorted indexes with sorted peers).
	if len(capd) > 1 {
		ps := make([]int, len(capd))
		for i := range capd {
			ps[i] = capd[i].peer
		}
		sort.Ints(ps)
		sort.Slice(capd, func(a, b int) bool {
			if capd[a].h != capd[b].h {
				return capd[a].h < capd[b].h
			}
			if capd[a].f != capd[b].f {
				return capd[a].f < capd[b].f
			}
			return capd[a].i < capd[b].i
		})
		for i := range capd {
			capd[i].peer = ps[i]
		}
	}
	s.idleOps++
	for _, r := range capd {
		s.idleOps = 0
		e.Count("probe.chunk_request")
		e.Logf("req p=%d h=%d f=%d i=%d", r.peer, r.h, r.f, r.i)
		if _, rej := s.rejectedPeer[peerID(r.peer)]; rej {
			e.Fail("C14", "request-to-rejected-sender", "chunk %d of snapshot %d/%d requested from peer %d after the application rejected that sender", r.i, r.h, r.f, r.peer)
		}
		if s.m.live() && r.h == s.m.h && r.f == s.m.f {
			s.reqSinceRetry[r.i] = true
		}
		if lr := s.lastRefetch[r.i]; lr > 0 && s.m.live() && r.h == s.m.h && r.f == s.m.f {
			e.Count("probe.refetch_requested")
		}
		dup := false
		for _, o := range s.outstanding {
			if o.peer == r.peer && o.h == r.h && o.f == r.f && o.i == r.i {
				dup = true // a retry of a request that is still unanswered: one answer is owed
			}
		}
		if s.alive[r.peer] && !dup && len(s.outstanding) < 64 {
			r.at = s.now()
			s.outstanding = append(s.outstanding, r)
		}
	}
	if c := s.pendingCall(); c != nil && !c.seen {
		c.seen = true
		s.idleOps = 0
		s.lastProgress, s.pendSince = s.now(), s.now()
		s.onCall(c)
	}
	if done, _, _, _ := s.result(); done && !s.doneSeen {
		s.doneSeen = true
		s.checkResult()
	}
	nAlive := 0
	for _, a := range s.alive {
		if a {
			nAlive++
		}
	}
	s.judgeContract(nAlive)
	e.State(s.m.phase, len(s.m.returned), len(s.m.spec), nAlive, len(s.rejectedPeer), len(s.rejectedSnap), len(s.rejectedFmt), len(s.outstanding) > 0)
}

func (s *sim) now() time.Duration { return time.Since(s.env.Start) }

// freshOwed: some connected peer was asked for its snapshots and has not advertised all of them.
func (s *sim) freshOwed() bool {
	for p, a := range s.alive {
		if !a || s.snapReqs[p] == 0 {
			continue
		}
		for _, k := range s.advertisable(p) {
			if !s.adverts[p][s.cat[k].key()] {
				return true
			}
		}
	}
	return false
}

func (s *sim) dropBudget() int {
	switch {
	case s.mode != "coop":
		return 0
	case s.cfg.Int("retry_ms") <= 3000:
		return 2
	case s.cfg.Int("retry_ms") <= 10000:
		return 1
	}
	return 0
}

// judgeContract records whether the environment kept its side of the cooperative contract.
func (s *sim) judgeContract(nAlive int) {
	if s.mode == "wild" || s.contractBroken != "" {
		return
	}
	if done, _, _, _ := s.result(); done {
		return
	}
	now := s.now()
	track := func(since *time.Duration, cond bool) bool {
		switch {
		case !cond:
			*since = -1
		case *since < 0:
			*since = now
		}
		return cond && now-*since > oweLimit
	}
	switch {
	case track(&s.noPeerSince, nAlive == 0):
		s.contractBroken = "no peer connected"
	case track(&s.freshSince, s.freshOwed()):
		s.contractBroken = "snapshot advertisement withheld"
	}
	if c := s.pendingCall(); c != nil && c.seen && !c.answered && now-s.pendSince > oweLimit {
		s.contractBroken = "application verdict withheld"
	}
	for _, r := range s.outstanding {
		if now-r.at > oweLimit {
			s.contractBroken = "chunk request unanswered"
		}
	}
	if s.contractBroken != "" {
		s.env.Count("probe.coop_contract_broken")
	}
}

func (s *sim) catIndex(key string) int {
	for k := range s.cat {
		if s.cat[k].key() == key {
			return k
		}
	}
	return -1
}

func errClass(err error) string {
	t := err.Error()
	if i := strings.Index(t, ":"); i > 0 {
		t = t[:i]
	}
	return strings.ReplaceAll(t, " ", "_")
}

// ---------------------------------------------------------------- Finish / Close

func (s *sim) Finish() {
	if s.initFailed || s.mode == "wild" {
		return
	}
	// Completeness, judged on the trace itself: the environment kept the cooperative contract
	// (honest peers that answer in time, honest RPC servers, an application that after a bounded
	// number of retries / refetches accepts and reports the verified values), and yet Sync failed
	// or made no progress for stuckAfter of simulated time.
	if s.contractBroken != "" {
		s.env.Logf("contract broken: %s", s.contractBroken)
		return
	}
	done, _, _, err := s.result()
	switch {
	case done && err != nil:
		s.env.Fail("C14", "honest-sync-failed", "mode %s: Sync failed: %v", s.mode, err)
	case !done && s.now()-s.lastProgress > stuckAfter:
		sig := "honest-sync-incomplete"
		if lo, ok := s.m.lowest(); ok && s.hadRetrySnap && s.m.lax[lo] == nil {
			// After the application asked to restart the snapshot, the chunk it waits for is not
			// held and the reactor has stopped asking for it: never requested again, or requested
			// once by a fetcher left over from before the restart and not retried.
			sig = "chunk-fetch-abandoned-after-retry-snapshot"
			if s.reqSinceRetry[lo] {
				s.env.Count("probe.abandoned_after_single_request")
			}
		}
		s.env.Fail("C14", sig, "mode %s: every request of the reactor was answered in time, yet for %d ms of simulated time (since t=%d ms) Sync has neither called the application nor returned (phase %s, %d/%d chunks applied, %d requests unanswered)",
			s.mode, (s.now() - s.lastProgress).Milliseconds(), s.lastProgress.Milliseconds(), s.m.phase, len(s.m.returned), s.m.n, len(s.outstanding))
	case !done:
		s.env.Count("probe.coop_unfinished")
	}
}

func (s *sim) Close() {
	s.closing.Store(true)
	if c := s.pendingCall(); c != nil && !c.answered {
		c.answered = true
		s.release <- verdict{res: 2}
	}
	for i := 0; i < 8; i++ {
		s.env.Settle()
		select {
		case <-s.exited:
			i = 99
		default:
			time.Sleep(131 * time.Second)
		}
	}
	statesync.VerifHTTPClient = nil
	select {
	case <-s.exited:
	default:
		panic("statesyncsim: state sync goroutine did not end")
	}
	s.closing.Store(false)
	if s.reactor != nil && s.reactor.IsRunning() {
		s.reactor.Stop()
	}
	for _, p := range s.peers {
		if p != nil && p.IsRunning() {
			p.Stop()
		}
	}
	s.chain.Stop()
	s.env.Settle()
}

// growChain is chaingen.Chain.Grow with a block.max_bytes parameter change that always stays
// above the evidence size bound (Grow's own draw can fall below it and make ApplyBlock fail).
// force lists heights whose block must carry a validator update that really changes the set.
func growChain(c *chaingen.Chain, rng *simcore.RNG, n int, maxKeys int, churn float64, force map[int64]bool) {
	for i := 0; i < maxKeys; i++ {
		c.KnowKey(i)
	}
	for j := 0; j < n; j++ {
		var sp chaingen.BlockSpec
		h := c.State.LastBlockHeight + 1
		for t, nt := 0, rng.Intn(4); t < nt; t++ {
			sp.Txs = append(sp.Txs, []byte(fmt.Sprintf("k%d-%d=v%d", h, t, rng.Intn(1000))))
		}
		if rng.Bool(churn) {
			pw := int64(0)
			if rng.Bool(0.7) {
				pw = int64(rng.Range(1, 30))
			}
			sp.Txs = append(sp.Txs, chaingen.ValTx(rng.Intn(maxKeys), pw))
		}
		if force[h] {
			sp.Txs = append(sp.Txs, chaingen.ValTx(int(h)%maxKeys, 31+h)) // a power no other draw produces
		}
		if rng.Bool(0.08) {
			sp.Txs = append(sp.Txs, []byte(fmt.Sprintf("param:maxbytes:%d", 1200000+rng.Intn(1000000))))
		}
		if rng.Bool(0.2) {
			sp.Round = int32(rng.Intn(3))
		}
		vals := c.State.Validators
		total := vals.TotalVotingPower()
		var gone int64
		sp.Absent = map[int]bool{}
		for i, v := range vals.Validators {
			if rng.Bool(0.15) && (gone+v.VotingPower)*3 < total {
				sp.Absent[i] = true
				gone += v.VotingPower
			}
		}
		c.Next(sp)
	}
}
