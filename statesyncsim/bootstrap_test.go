package statesyncsim

// What the node does with the result of a successful state sync, continued: the returned
// state is Bootstrap()ped into a fresh real state store, the following canonical blocks are
// applied with the real BlockExecutor (the application side replays the ABCI responses recorded
// on the canonical chain), and every validator set / consensus params the store then serves
// must be the canonical one. This judges the bookkeeping fields of the restored state
// (LastHeightValidatorsChanged, LastHeightConsensusParamsChanged) by their consequences.

import (
	"bytes"
	"fmt"

	abcicli "github.com/tendermint/tendermint/abci/client"
	abci "github.com/tendermint/tendermint/abci/types"
	"github.com/tendermint/tendermint/libs/log"
	mempl "github.com/tendermint/tendermint/mempool/mock"
	tmstate "github.com/tendermint/tendermint/proto/tendermint/state"
	sm "github.com/tendermint/tendermint/state"
	"github.com/tendermint/tendermint/types"
	dbm "github.com/tendermint/tm-db"

	"verif/simcore"
)

// replayConn is the consensus connection of an application that behaves exactly as the
// canonical chain's application did: it answers from the recorded responses.
type replayConn struct {
	s   *sim
	cb  abcicli.Callback
	h   int64
	rec *tmstate.ABCIResponses
	ntx int
	err error
}

func (r *replayConn) SetResponseCallback(cb abcicli.Callback) { r.cb = cb }
func (r *replayConn) Error() error                            { return r.err }
func (r *replayConn) InitChainSync(abci.RequestInitChain) (*abci.ResponseInitChain, error) {
	return &abci.ResponseInitChain{}, nil
}
func (r *replayConn) BeginBlockSync(req abci.RequestBeginBlock) (*abci.ResponseBeginBlock, error) {
	r.h, r.ntx = req.Header.Height, 0
	rec, err := r.s.chain.StateStore.LoadABCIResponses(r.h)
	if err != nil {
		return nil, err
	}
	r.rec = rec
	return rec.BeginBlock, nil
}
func (r *replayConn) DeliverTxAsync(req abci.RequestDeliverTx) *abcicli.ReqRes {
	rq := abci.ToRequestDeliverTx(req)
	rr := abcicli.NewReqRes(rq)
	if r.rec == nil || r.ntx >= len(r.rec.DeliverTxs) {
		r.err = fmt.Errorf("replay: no recorded DeliverTx %d at height %d", r.ntx, r.h)
		return rr
	}
	res := abci.ToResponseDeliverTx(*r.rec.DeliverTxs[r.ntx])
	r.ntx++
	rr.Response = res
	if r.cb != nil {
		r.cb(rq, res)
	}
	return rr
}
func (r *replayConn) EndBlockSync(abci.RequestEndBlock) (*abci.ResponseEndBlock, error) {
	return r.rec.EndBlock, nil
}
func (r *replayConn) CommitSync() (*abci.ResponseCommit, error) {
	return &abci.ResponseCommit{Data: r.s.chain.States[r.h].AppHash}, nil
}

// checkBootstrap: st is the state Sync returned for snapshot height H (already compared field
// by field with the canonical state).
func (s *sim) checkBootstrap(st sm.State, H int64) {
	e := s.env
	// a few more canonical blocks with validator churn, so that heights behind the stored
	// full sets (H+3...) exist whatever the chain length was
	if ext := int(H+5-s.tip()) + 1; ext > 0 {
		growChain(s.chain, simcore.NewRNG(s.cfg.U64("chain_seed")*31+uint64(H)), ext, 5, 0.5, nil)
	}
	tip := s.tip()
	ss := sm.NewStore(dbm.NewMemDB(), sm.StoreOptions{})
	if err := ss.Bootstrap(st.Copy()); err != nil {
		e.Fail("C14", "bootstrap-failed", "state store refuses the restored state of height %d: %v", H, err)
	}
	exec := sm.NewBlockExecutor(ss, log.NewNopLogger(), &replayConn{s: s}, mempl.Mempool{}, sm.EmptyEvidencePool{})
	cur := st.Copy()
	for h := H + 1; h <= tip; h++ {
		next, err := func() (st sm.State, err error) {
			// the executor panics on inconsistent stored validator sets (commit size mismatch)
			defer func() {
				if r := recover(); r != nil {
					txt := fmt.Sprint(r)
					if len(txt) > 300 {
						txt = txt[:300]
					}
					err = fmt.Errorf("panic: %s", txt)
				}
			}()
			st, _, err = exec.ApplyBlock(cur, s.chain.Commits[h].BlockID, s.chain.Blocks[h])
			return
		}()
		if err != nil {
			e.Fail("C14", "restored-state-rejects-canonical-block", "canonical block %d cannot be applied on the state restored at height %d (after %d blocks): %v", h, H, h-H-1, err)
		}
		cur = next
	}
	e.Count("probe.bootstrap_blocks_applied")
	for h := H; h <= tip+2; h++ {
		want, err := s.chain.StateStore.LoadValidators(h)
		if err != nil {
			continue
		}
		got, err := ss.LoadValidators(h)
		if err != nil {
			e.Fail("C14", "bootstrapped-validators-missing", "after restoring at height %d and applying blocks up to %d, LoadValidators(%d) fails: %v", H, tip, h, err)
		}
		if !bytes.Equal(got.Hash(), want.Hash()) {
			e.Fail("C14", "bootstrapped-validators-wrong", "after restoring at height %d (state says validators last changed at %d; on the chain: %d) and applying blocks up to %d, LoadValidators(%d) is not the canonical set:\n got  %v\n want %v",
				H, st.LastHeightValidatorsChanged, s.chain.States[H].LastHeightValidatorsChanged, tip, h, got, want)
		}
		for i, v := range want.Validators {
			if got.Validators[i].ProposerPriority != v.ProposerPriority {
				e.Fail("C14", "state-validator-priorities", "after restoring at height %d: LoadValidators(%d)[%d] proposer priority %d != canonical %d", H, h, i, got.Validators[i].ProposerPriority, v.ProposerPriority)
				break
			}
		}
	}
	for h := H + 1; h <= tip+1; h++ {
		want, err := s.chain.StateStore.LoadConsensusParams(h)
		if err != nil {
			continue
		}
		got, err := ss.LoadConsensusParams(h)
		if err != nil {
			e.Fail("C14", "bootstrapped-params-missing", "after restoring at height %d and applying blocks up to %d, LoadConsensusParams(%d) fails: %v", H, tip, h, err)
		}
		if !bytes.Equal(types.HashConsensusParams(got), types.HashConsensusParams(want)) {
			e.Fail("C14", "bootstrapped-params-wrong", "after restoring at height %d, LoadConsensusParams(%d) = %v, canonical %v", H, h, got, want)
		}
		if !got.Equal(&want) {
			e.Fail("C14", "state-consensus-params-unhashed", "after restoring at height %d, LoadConsensusParams(%d) = %v, canonical %v", H, h, got, want)
			break
		}
	}
	final := s.chain.States[tip]
	if !bytes.Equal(cur.AppHash, final.AppHash) || !bytes.Equal(cur.Validators.Hash(), final.Validators.Hash()) || !bytes.Equal(cur.NextValidators.Hash(), final.NextValidators.Hash()) ||
		cur.LastHeightValidatorsChanged != final.LastHeightValidatorsChanged && final.LastHeightValidatorsChanged > H+2 {
		e.Fail("C14", "bootstrapped-state-diverges", "state reached from the restored state at height %d differs from the canonical state at %d (vals changed %d vs %d)", H, tip, cur.LastHeightValidatorsChanged, final.LastHeightValidatorsChanged)
	}
}
