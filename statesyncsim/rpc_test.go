package statesyncsim

// In-process JSON-RPC servers for the real light-client state provider (hook H7): every
// "server" is an http.RoundTripper that hands the request to the REAL rpc/core route handlers
// (registered with the real jsonrpc server on an http.ServeMux) over the canonical chain's
// stores, through an httptest.ResponseRecorder. No sockets. A server can be honest, down,
// slow, behind, pruned, or lie by falsifying one field of the responses of one route.

import (
	"bytes"
	"encoding/base64"
	"encoding/json"
	"errors"
	"fmt"
	"io"
	"net/http"
	"net/http/httptest"
	"strconv"
	"strings"
	"time"

	"github.com/tendermint/tendermint/config"
	"github.com/tendermint/tendermint/consensus"
	"github.com/tendermint/tendermint/libs/log"
	"github.com/tendermint/tendermint/rpc/core"
	rpcserver "github.com/tendermint/tendermint/rpc/jsonrpc/server"
	rpctypes "github.com/tendermint/tendermint/rpc/jsonrpc/types"

	"verif/chaingen"
)

// rpcMode is the behaviour of one simulated RPC server.
type rpcMode struct {
	Kind string // ok | down | slow | behind | pruned | lie
	Lie  string // field to falsify (Kind == lie)
	H    int64  // lie: only for this height (0 = every height); behind: tip claimed; pruned: base claimed
	Ms   int    // slow: delay
}

func (m rpcMode) String() string { return fmt.Sprintf("%s/%s/%d/%d", m.Kind, m.Lie, m.H, m.Ms) }

func modeFromOp(o map[string]any) rpcMode {
	get := func(k string) string {
		if v, ok := o[k].(string); ok {
			return v
		}
		return ""
	}
	num := func(k string) int64 {
		if v, ok := o[k].(float64); ok {
			return int64(v)
		}
		if v, ok := o[k].(int); ok {
			return int64(v)
		}
		return 0
	}
	m := rpcMode{Kind: get("m"), Lie: get("lie"), H: num("h"), Ms: int(num("ms"))}
	if m.Kind == "" {
		m.Kind = "ok"
	}
	return m
}

// newRPCMux builds the real RPC handler over the canonical chain.
func newRPCMux(c *chaingen.Chain) *http.ServeMux {
	core.SetEnvironment(&core.Environment{
		BlockStore:       c.BlockStore,
		StateStore:       c.StateStore,
		ConsensusReactor: &consensus.Reactor{}, // only WaitSync() is consulted (false: node is in consensus)
		GenDoc:           c.GenDoc,
		Logger:           log.NewNopLogger(),
		Config:           *config.DefaultRPCConfig(),
	})
	routes := map[string]*rpcserver.RPCFunc{}
	for _, n := range []string{"commit", "validators", "consensus_params", "block", "blockchain", "block_results"} {
		routes[n] = core.Routes[n]
	}
	mux := http.NewServeMux()
	rpcserver.RegisterRPCFuncs(mux, routes, log.NewNopLogger())
	return mux
}

type rpcServer struct {
	s   *sim
	idx int
}

func (r *rpcServer) RoundTrip(req *http.Request) (*http.Response, error) {
	s := r.s
	var body []byte
	if req.Body != nil {
		body, _ = io.ReadAll(req.Body)
		req.Body.Close()
	}
	var rq rpctypes.RPCRequest
	_ = json.Unmarshal(body, &rq)
	var height int64
	var params map[string]json.RawMessage
	if json.Unmarshal(rq.Params, &params) == nil {
		if hv, ok := params["height"]; ok {
			hs := strings.Trim(string(hv), `"`)
			height, _ = strconv.ParseInt(hs, 10, 64)
		}
	}
	s.mu.Lock()
	mode := s.rpc[r.idx]
	if !s.rpcFaultsOn {
		mode = rpcMode{Kind: "ok"}
	}
	s.mu.Unlock()
	s.env.Count("rpc.requests")
	errResp := func(msg string) (*http.Response, error) {
		resp := rpctypes.RPCInternalError(rq.ID, errors.New(msg))
		b, _ := json.Marshal(resp)
		rec := httptest.NewRecorder()
		rec.Header().Set("Content-Type", "application/json")
		rec.WriteHeader(200)
		rec.Write(b)
		return rec.Result(), nil
	}
	switch mode.Kind {
	case "down":
		s.env.Count("fault.rpc_down")
		return nil, errors.New("connection refused (simulated)")
	case "slow":
		s.env.Count("fault.rpc_slow")
		t := time.NewTimer(time.Duration(mode.Ms)*time.Millisecond + 3)
		select {
		case <-t.C:
		case <-req.Context().Done():
			t.Stop()
			s.env.Count("probe.rpc_ctx_expired")
			return nil, req.Context().Err()
		}
	case "behind":
		if height > mode.H {
			s.env.Count("fault.rpc_behind")
			return errResp(fmt.Sprintf("height %d must be less than or equal to the current blockchain height %d", height, mode.H))
		}
	case "pruned":
		if height != 0 && height < mode.H {
			s.env.Count("fault.rpc_pruned")
			return errResp(fmt.Sprintf("height %d is not available, lowest height is %d", height, mode.H))
		}
	}
	rec := httptest.NewRecorder()
	r2 := req.Clone(req.Context())
	r2.Body = io.NopCloser(bytes.NewReader(body))
	r2.RequestURI = ""
	r2.URL.Path = "/"
	s.mux.ServeHTTP(rec, r2)
	resp := rec.Result()
	if mode.Kind == "lie" && (mode.H == 0 || mode.H == height) {
		b, _ := io.ReadAll(resp.Body)
		nb, changed := falsify(b, rq.Method, mode.Lie)
		if changed {
			s.env.Count("fault.rpc_lie_" + mode.Lie)
		}
		resp.Body = io.NopCloser(bytes.NewReader(nb))
		resp.ContentLength = int64(len(nb))
	}
	return resp, nil
}

func flipHex(v any) any {
	s, ok := v.(string)
	if !ok || len(s) == 0 {
		return v
	}
	c := byte('0')
	if s[0] == '0' {
		c = '1'
	}
	return string(c) + s[1:]
}

func bumpNum(v any, d int64) any {
	s, ok := v.(string)
	if !ok {
		return v
	}
	n, err := strconv.ParseInt(s, 10, 64)
	if err != nil {
		return v
	}
	return strconv.FormatInt(n+d, 10)
}

// falsify changes one field of a JSON-RPC response of the route the lie applies to.
func falsify(body []byte, method, lie string) ([]byte, bool) {
	var envl map[string]any
	if json.Unmarshal(body, &envl) != nil {
		return body, false
	}
	res, ok := envl["result"].(map[string]any)
	if !ok {
		return body, false
	}
	changed := false
	switch method {
	case "commit":
		sh, _ := res["signed_header"].(map[string]any)
		hdr, _ := sh["header"].(map[string]any)
		cm, _ := sh["commit"].(map[string]any)
		if hdr == nil || cm == nil {
			return body, false
		}
		switch lie {
		case "apphash":
			hdr["app_hash"], changed = flipHex(hdr["app_hash"]), true
		case "valhash":
			hdr["validators_hash"], changed = flipHex(hdr["validators_hash"]), true
		case "nextvalhash":
			hdr["next_validators_hash"], changed = flipHex(hdr["next_validators_hash"]), true
		case "lastresults":
			hdr["last_results_hash"], changed = flipHex(hdr["last_results_hash"]), true
		case "conshash":
			hdr["consensus_hash"], changed = flipHex(hdr["consensus_hash"]), true
		case "hheight":
			hdr["height"], changed = bumpNum(hdr["height"], 1), true
		case "lastsig":
			// only the last signature: light verification stops counting once +2/3 is reached
			sigs, _ := cm["signatures"].([]any)
			for i := len(sigs) - 1; i >= 0 && !changed; i-- {
				sg, _ := sigs[i].(map[string]any)
				if s64, ok := sg["signature"].(string); ok && s64 != "" {
					if raw, err := base64.StdEncoding.DecodeString(s64); err == nil && len(raw) > 0 {
						raw[len(raw)-1] ^= 0x01
						sg["signature"] = base64.StdEncoding.EncodeToString(raw)
						changed = true
					}
				}
			}
		case "sig":
			if sigs, _ := cm["signatures"].([]any); len(sigs) > 0 {
				for _, x := range sigs {
					sg, _ := x.(map[string]any)
					if s64, ok := sg["signature"].(string); ok && s64 != "" {
						if raw, err := base64.StdEncoding.DecodeString(s64); err == nil && len(raw) > 0 {
							raw[0] ^= 0x55
							sg["signature"] = base64.StdEncoding.EncodeToString(raw)
							changed = true
						}
					}
				}
			}
		}
	case "validators":
		vals, _ := res["validators"].([]any)
		if len(vals) == 0 {
			return body, false
		}
		v0, _ := vals[0].(map[string]any)
		switch lie {
		case "power":
			v0["voting_power"], changed = bumpNum(v0["voting_power"], 1), true
		case "priority":
			v0["proposer_priority"], changed = bumpNum(v0["proposer_priority"], 1), true
		case "dropval":
			if len(vals) > 1 {
				res["validators"] = vals[:len(vals)-1]
				res["count"] = bumpNum(res["count"], -1)
				res["total"] = bumpNum(res["total"], -1)
				changed = true
			}
		}
	case "consensus_params":
		cp, _ := res["consensus_params"].(map[string]any)
		if cp == nil {
			return body, false
		}
		switch lie {
		case "params":
			if blk, _ := cp["block"].(map[string]any); blk != nil {
				blk["max_bytes"], changed = bumpNum(blk["max_bytes"], 1), true
			}
		case "evparams":
			if ev, _ := cp["evidence"].(map[string]any); ev != nil {
				ev["max_age_num_blocks"], changed = bumpNum(ev["max_age_num_blocks"], 1), true
			}
		}
	}
	if !changed {
		return body, false
	}
	nb, err := json.Marshal(envl)
	if err != nil {
		return body, false
	}
	return nb, true
}

var lieKinds = []string{"apphash", "valhash", "nextvalhash", "lastresults", "conshash", "hheight", "sig", "lastsig", "power", "dropval", "params", "priority", "evparams"}
