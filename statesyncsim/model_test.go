package statesyncsim

// Reference model and oracles of C14. The model is driven only by (a) what the harness itself
// delivered to the reactor (snapshot advertisements, chunk responses: bytes + sender), (b) the
// recording application's journal (calls with arguments, verdicts it returned), (c) the
// canonical chain. It never calls statesync code.

import (
	"bytes"
	"fmt"

	abci "github.com/tendermint/tendermint/abci/types"
	sm "github.com/tendermint/tendermint/state"
	"github.com/tendermint/tendermint/types"
)

func keyOf(h uint64, f, n uint32, hash, meta []byte) string {
	return fmt.Sprintf("%d/%d/%d/%x/%x", h, f, n, hash, meta)
}

// arrival is one well-formed chunk response handed to the reactor.
type arrival struct {
	n         int // global delivery counter
	epoch     int // chunk-queue incarnation that existed when it was delivered (0 = none)
	h         uint64
	f, idx    uint32
	data      []byte
	sender    string
	senderRej bool // the sender had been rejected by the application before this arrival
}

func (a *arrival) same(c *appCall) bool {
	return a != nil && bytes.Equal(a.data, c.chunk) && a.sender == c.sender
}

// appCall is one journal entry of the recording application.
type appCall struct {
	seq  int
	kind string // offer | apply | info
	// offer
	h          uint64
	f, n       uint32
	hash, meta []byte
	appHash    []byte
	// apply
	idx    uint32
	chunk  []byte
	sender string
	// bookkeeping
	seen     bool
	answered bool
	// verdict
	res     int32
	refetch []uint32
	rej     []string
	infoH   int64
	infoHsh []byte
	infoVer uint64
}

type model struct {
	phase    string // "" | offered | restoring | retry | verifying | ended
	epoch    int
	key      string
	h        uint64
	f, n     uint32
	k        int // catalogue index of the offered snapshot (-1 unknown)
	spec     map[uint32]*arrival
	lax      map[uint32]*arrival
	dropped  map[uint32][]*arrival // chunks the queue had to discard (refetch / rejected sender)
	returned map[uint32]bool
	aborted  bool
	infoOK   bool
	accepts  int
}

func (m *model) reset() {
	m.spec, m.lax, m.dropped, m.returned = map[uint32]*arrival{}, map[uint32]*arrival{}, map[uint32][]*arrival{}, map[uint32]bool{}
}

func (m *model) live() bool {
	return m.phase == "offered" || m.phase == "restoring" || m.phase == "retry" || m.phase == "verifying"
}

// add mirrors the documented queue rule "Add ignores chunks that already exist"; the spec
// queue additionally refuses new chunks of rejected senders (ABCI: "new chunks ... rejected").
func (m *model) add(a *arrival) {
	if !m.live() || a.epoch != m.epoch || a.h != m.h || a.f != m.f || a.idx >= m.n {
		return
	}
	if m.lax[a.idx] == nil {
		m.lax[a.idx] = a
	}
	if !a.senderRej && m.spec[a.idx] == nil {
		m.spec[a.idx] = a
	}
}

func (m *model) discard(i uint32) {
	if a := m.lax[i]; a != nil {
		m.dropped[i] = append(m.dropped[i], a)
	}
	if a := m.spec[i]; a != nil && a != m.lax[i] {
		m.dropped[i] = append(m.dropped[i], a)
	}
	if m.lax[i] != nil || m.spec[i] != nil {
		delete(m.returned, i)
	}
	delete(m.lax, i)
	delete(m.spec, i)
}

// discardSender: "queued chunks from these senders will be discarded" - chunks already handed
// to the application stay ("Any chunks already applied will not be refetched unless explicitly requested").
func (m *model) discardSender(p string) {
	for i := uint32(0); i < m.n && len(m.lax)+len(m.spec) > 0; i++ {
		if m.returned[i] {
			continue
		}
		if a := m.lax[i]; a != nil && a.sender == p {
			m.dropped[i] = append(m.dropped[i], a)
			delete(m.lax, i)
		}
		if a := m.spec[i]; a != nil && a.sender == p {
			m.dropped[i] = append(m.dropped[i], a)
			delete(m.spec, i)
		}
	}
}

func (m *model) lowest() (uint32, bool) {
	for i := uint32(0); i < m.n; i++ {
		if !m.returned[i] {
			return i, true
		}
	}
	return 0, false
}

func (m *model) complete() bool { _, ok := m.lowest(); return !ok }

// ---------------------------------------------------------------- canonical chain

func (s *sim) tip() int64 { return s.chain.Height() }

// canonAppHash returns the app hash after height h, if h+1 and h+2 exist on the chain.
func (s *sim) canonAppHash(h uint64) ([]byte, bool) {
	// (h may be InitialHeight-1: the header of the first block carries the genesis app hash)
	H := int64(h)
	if H+1 < s.chain.Opts.InitialHeight || H+2 > s.tip() {
		return nil, false
	}
	return s.chain.Blocks[H+1].Header.AppHash, true
}

// ---------------------------------------------------------------- calls

func (s *sim) rejectPeerID(id string) {
	if id == "" {
		return
	}
	if _, ok := s.rejectedPeer[id]; !ok {
		s.rejectedPeer[id] = s.nDeliv
		s.env.Count("probe.sender_rejected")
	}
	for _, set := range s.advertisers {
		delete(set, id)
	}
	for i := range s.adverts {
		if peerID(i) == id {
			s.adverts[i] = map[string]bool{}
		}
	}
}

func (s *sim) onCall(c *appCall) {
	e, m := s.env, &s.m
	if m.aborted {
		e.Fail("C14", "call-after-abort", "application received %s after it aborted state sync", c.kind)
	}
	switch c.kind {
	case "offer":
		key := keyOf(c.h, c.f, c.n, c.hash, c.meta)
		e.Logf("call offer h=%d f=%d n=%d hash=%x apphash=%x t=%d", c.h, c.f, c.n, c.hash, c.appHash, s.simMs())
		e.Count("app.offer")
		if s.rejectedSnap[key] {
			e.Fail("C14", "rejected-snapshot-offered-again", "snapshot %s was rejected by the application and is offered again", key)
		}
		if s.rejectedFmt[c.f] {
			e.Fail("C14", "rejected-format-offered-again", "format %d was rejected by the application, snapshot %s is offered", c.f, key)
		}
		// RETRY_SNAPSHOT is the application's explicit request to be offered this very snapshot
		// again ("Restart this snapshot from OfferSnapshot"), whatever happened to its senders.
		reoffer := m.phase == "retry" && key == m.key
		if len(s.advertisers[key]) == 0 && !reoffer {
			if s.everAdvertised[key] {
				e.Fail("C14", "snapshot-of-rejected-senders-offered", "snapshot %s is offered although every peer that advertised it has been rejected", key)
			}
			e.Fail("C14", "unadvertised-snapshot-offered", "snapshot %s was never advertised in this form by any peer", key)
		}
		want, ok := s.canonAppHash(c.h)
		if !ok {
			e.Fail("C14", "unverifiable-snapshot-offered", "snapshot at height %d offered, but heights %d..%d are not all on the chain (tip %d, initial %d): no light-verified app hash can exist", c.h, c.h, c.h+2, s.tip(), s.chain.Opts.InitialHeight)
		}
		if !bytes.Equal(want, c.appHash) {
			e.Fail("C14", "offer-apphash-not-canonical", "OfferSnapshot(height %d) carries app hash %x, the chain's app hash after that height is %x", c.h, c.appHash, want)
		}
		if s.curDir == "" {
			panic("statesyncsim: no chunk queue directory visible at OfferSnapshot (harness assumption)")
		}
		if m.live() && s.dirEpoch == m.epoch {
			// the queue of the previous attempt is being reused: only legal for the same snapshot after RETRY_SNAPSHOT
			if m.phase != "retry" || key != m.key {
				e.Fail("C14", "queue-reused", "chunk queue of snapshot %s (phase %s) reused for offer of %s", m.key, m.phase, key)
			}
			e.Count("probe.retry_snapshot_reoffer")
		} else {
			m.reset()
			s.hadRetrySnap, s.reqSinceRetry = false, map[uint32]bool{}
			m.epoch, m.key, m.h, m.f, m.n, m.k = s.dirEpoch, key, c.h, c.f, c.n, s.catIndex(key)
			m.phase = "offered"
			for _, a := range s.arrivals {
				m.add(a)
			}
		}
		m.phase = "offered"
	case "apply":
		e.Logf("call apply i=%d len=%d sender=%s t=%d", c.idx, len(c.chunk), short(c.sender), s.simMs())
		e.Count("app.apply")
		if m.phase != "restoring" {
			e.Fail("C14", "apply-without-accepted-offer", "ApplySnapshotChunk(%d) in phase %q", c.idx, m.phase)
		}
		exp, ok := m.lowest()
		if !ok {
			e.Fail("C14", "apply-after-complete", "ApplySnapshotChunk(%d) although all %d chunks are applied", c.idx, m.n)
		}
		if c.idx != exp {
			e.Fail("C14", "chunk-out-of-order", "ApplySnapshotChunk(%d) but the lowest index not applied is %d (of %d)", c.idx, exp, m.n)
		}
		if !m.spec[c.idx].same(c) {
			switch {
			case m.lax[c.idx].same(c):
				a := m.lax[c.idx]
				e.Fail("C14", "chunk-from-rejected-sender-applied", "chunk %d applied with sender %s: it arrived (delivery #%d) after that sender was rejected by the application (at delivery #%d)", c.idx, short(c.sender), a.n, s.rejectedPeer[c.sender])
				m.spec[c.idx] = a
			default:
				for _, d := range m.dropped[c.idx] {
					if d.same(c) {
						e.Fail("C14", "discarded-chunk-applied", "chunk %d (delivery #%d from %s) had to be discarded (refetch / rejected sender) and is applied again", c.idx, d.n, short(d.sender))
					}
				}
				if a := m.spec[c.idx]; a != nil {
					e.Fail("C14", "chunk-bytes-or-sender-mismatch", "chunk %d applied with %d bytes %x from %s; recorded at arrival (delivery #%d): %d bytes %x from %s", c.idx, len(c.chunk), head(c.chunk), short(c.sender), a.n, len(a.data), head(a.data), short(a.sender))
				}
				e.Fail("C14", "chunk-never-arrived", "chunk %d applied (%d bytes %x from %s) but no such chunk is held for this snapshot attempt", c.idx, len(c.chunk), head(c.chunk), short(c.sender))
			}
		}
		if at, rej := s.rejectedPeer[c.sender]; rej && m.spec[c.idx].n <= at {
			// documented: chunks already handed to the app before the rejection are reused by RETRY / RETRY_SNAPSHOT
			e.Count("probe.rejected_sender_chunk_reapplied")
		}
		if m.spec[c.idx].n > s.lastRefetch[c.idx] && s.lastRefetch[c.idx] > 0 {
			e.Count("probe.refetched_chunk_applied")
		}
		m.returned[c.idx] = true
		m.lax[c.idx] = m.spec[c.idx]
	case "info":
		e.Logf("call info t=%d", s.simMs())
		e.Count("app.info")
		if m.phase != "restoring" || !m.complete() {
			e.Fail("C14", "info-before-complete", "Info queried for verification in phase %q with chunks outstanding", m.phase)
		}
		m.phase = "verifying"
	}
}

// onVerdict updates the model with the verdict the application is about to return.
func (s *sim) onVerdict(c *appCall) {
	e, m := s.env, &s.m
	switch c.kind {
	case "offer":
		switch abci.ResponseOfferSnapshot_Result(c.res) {
		case abci.ResponseOfferSnapshot_ACCEPT:
			m.phase = "restoring"
			m.returned = map[uint32]bool{}
			m.accepts++
		case abci.ResponseOfferSnapshot_ABORT:
			m.aborted, m.phase = true, "ended"
		case abci.ResponseOfferSnapshot_REJECT:
			s.rejectedSnap[m.key] = true
			m.phase = "ended"
		case abci.ResponseOfferSnapshot_REJECT_FORMAT:
			s.rejectedFmt[m.f] = true
			m.phase = "ended"
		case abci.ResponseOfferSnapshot_REJECT_SENDER:
			for i := range s.adverts {
				if s.adverts[i][m.key] {
					s.rejectPeerID(peerID(i))
				}
			}
			m.phase = "ended"
		default:
			m.aborted, m.phase = true, "ended" // "Unknown result, abort all snapshot restoration"
			e.Count("probe.unknown_result")
		}
	case "apply":
		for _, i := range c.refetch {
			if i < m.n {
				m.discard(i)
				s.lastRefetch[i] = s.nDeliv
			}
		}
		for _, p := range c.rej {
			if p != "" {
				s.rejectPeerID(p)
				m.discardSender(p)
			}
		}
		switch abci.ResponseApplySnapshotChunk_Result(c.res) {
		case abci.ResponseApplySnapshotChunk_ACCEPT:
		case abci.ResponseApplySnapshotChunk_RETRY:
			delete(m.returned, c.idx)
		case abci.ResponseApplySnapshotChunk_RETRY_SNAPSHOT:
			m.returned = map[uint32]bool{}
			m.phase = "retry"
			s.hadRetrySnap, s.reqSinceRetry = true, map[uint32]bool{}
		case abci.ResponseApplySnapshotChunk_REJECT_SNAPSHOT:
			s.rejectedSnap[m.key] = true
			m.phase = "ended"
		case abci.ResponseApplySnapshotChunk_ABORT:
			m.aborted, m.phase = true, "ended"
		default:
			m.aborted, m.phase = true, "ended"
			e.Count("probe.unknown_result")
		}
	case "info":
		want, ok := s.canonAppHash(m.h)
		ver := uint64(0)
		if ok {
			ver = s.chain.Blocks[int64(m.h)+1].Header.Version.App
		}
		m.infoOK = ok && bytes.Equal(want, c.infoHsh) && c.infoH == int64(m.h) && c.infoVer == ver
	}
}

// afterVerdict runs once the system has settled after a verdict was released.
func (s *sim) afterVerdict(c *appCall) {
	e, m := s.env, &s.m
	done, _, _, err := s.result()
	if m.aborted {
		if !done || err == nil {
			e.Fail("C14", "abort-not-final", "application aborted state sync (%s result %d) but Sync did not end with an error (done=%v err=%v)", c.kind, c.res, done, err)
		}
		return
	}
	if c.kind == "info" {
		if !done {
			e.Fail("C14", "no-result-after-verification", "Sync did not return after the application answered the verification Info")
		}
		if m.infoOK && err != nil {
			e.Fail("C14", "verified-but-failed", "application restored and reported exactly the verified hash/height/version, Sync failed: %v", err)
		}
	}
}

// checkResult judges the value returned by Reactor.Sync.
func (s *sim) checkResult() {
	e, m := s.env, &s.m
	_, st, commit, err := s.result()
	if err != nil {
		e.Logf("done err=%s t=%d", errClass(err), s.simMs())
		e.Count("result.error")
		e.Count("result." + errClass(err))
		return
	}
	e.Logf("done ok h=%d t=%d", st.LastBlockHeight, s.simMs())
	e.Count("result.success")
	e.Count("result.success." + s.mode)
	if m.phase != "verifying" {
		e.Fail("C14", "success-without-restore", "Sync returned state of height %d but the application was not restored and verified (phase %q)", st.LastBlockHeight, m.phase)
	}
	if !m.infoOK {
		last := s.calls[len(s.calls)-1]
		e.Fail("C14", "success-despite-app-mismatch", "Sync succeeded for snapshot height %d although the application reported height=%d hash=%x version=%d", m.h, last.infoH, last.infoHsh, last.infoVer)
	}
	H := int64(m.h)
	if st.LastBlockHeight != H {
		e.Fail("C14", "state-height", "returned state has LastBlockHeight %d, restored snapshot height is %d", st.LastBlockHeight, H)
	}
	cs, ok := s.chain.States[H]
	if !ok || s.chain.Blocks[H+1] == nil || s.chain.Blocks[H] == nil {
		e.Fail("C14", "state-height", "returned state of height %d is not on the canonical chain", H)
	}
	s.compareState(st, cs, H)
	s.compareCommit(commit, H)
	s.checkBootstrap(st, H)
}

func (s *sim) compareState(st, cs sm.State, H int64) {
	e := s.env
	blk := s.chain.Blocks[H]
	canonID := s.chain.Commits[H].BlockID
	switch {
	case st.ChainID != cs.ChainID:
		e.Fail("C14", "state-chainid", "chain id %q != %q", st.ChainID, cs.ChainID)
	case st.InitialHeight != cs.InitialHeight:
		e.Fail("C14", "state-initial-height", "initial height %d != %d", st.InitialHeight, cs.InitialHeight)
	case !st.LastBlockID.Equals(canonID):
		e.Fail("C14", "state-last-block-id", "LastBlockID %v != canonical %v", st.LastBlockID, canonID)
	case !st.LastBlockTime.Equal(blk.Time):
		e.Fail("C14", "state-last-block-time", "LastBlockTime %v != %v", st.LastBlockTime, blk.Time)
	case !bytes.Equal(st.AppHash, cs.AppHash):
		e.Fail("C14", "state-apphash", "AppHash %x != canonical %x (height %d)", st.AppHash, cs.AppHash, H)
	case !bytes.Equal(st.LastResultsHash, cs.LastResultsHash):
		e.Fail("C14", "state-last-results-hash", "LastResultsHash %x != canonical %x", st.LastResultsHash, cs.LastResultsHash)
	case st.Version.Consensus != s.chain.Blocks[H+1].Header.Version:
		e.Fail("C14", "state-version", "consensus version %v != %v", st.Version.Consensus, s.chain.Blocks[H+1].Header.Version)
	}
	// Bookkeeping heights. The provider cannot know when the sets / params last changed before
	// the snapshot; what it claims is safe iff it is not earlier than the true change height (the
	// store resolves later heights through this pointer) and not later than the last height for
	// which Bootstrap stores the value in full (H+2 for validators, H+1 for params).
	if st.LastHeightValidatorsChanged < cs.LastHeightValidatorsChanged || st.LastHeightValidatorsChanged > H+2 {
		e.Fail("C14", "state-last-height-validators-changed", "restored state (height %d) says the validator set last changed at %d; on the chain it last changed at %d; admissible [%d,%d]", H, st.LastHeightValidatorsChanged, cs.LastHeightValidatorsChanged, cs.LastHeightValidatorsChanged, H+2)
	}
	if st.LastHeightConsensusParamsChanged < cs.LastHeightConsensusParamsChanged || st.LastHeightConsensusParamsChanged > H+1 {
		e.Fail("C14", "state-last-height-consensus-params-changed", "restored state (height %d) says the consensus params last changed at %d; on the chain they last changed at %d; admissible [%d,%d]", H, st.LastHeightConsensusParamsChanged, cs.LastHeightConsensusParamsChanged, cs.LastHeightConsensusParamsChanged, H+1)
	}
	cmpVals := func(name string, got, want *types.ValidatorSet) {
		if got == nil || want == nil || !bytes.Equal(got.Hash(), want.Hash()) {
			e.Fail("C14", "state-"+name, "%s of returned state differ from the canonical chain's at height %d:\n got  %v\n want %v", name, H, got, want)
		}
		for i, v := range want.Validators {
			if got.Validators[i].ProposerPriority != v.ProposerPriority {
				e.Fail("C14", "state-validator-priorities", "%s[%d] proposer priority %d != canonical %d (height %d)", name, i, got.Validators[i].ProposerPriority, v.ProposerPriority, H)
			}
		}
		// The Proposer field is rebuilt by types.ValidatorSetFromExistingValidators with a
		// lowest-priority heuristic and can name another validator than the canonical state's;
		// it is derived data outside the property (counted, reported as an observation).
		if !bytes.Equal(got.GetProposer().Address, want.GetProposer().Address) {
			e.Count("probe.proposer_field_differs_" + name)
		}
	}
	cmpVals("validators", st.Validators, cs.Validators)
	cmpVals("next-validators", st.NextValidators, cs.NextValidators)
	cmpVals("last-validators", st.LastValidators, cs.LastValidators)
	if !bytes.Equal(types.HashConsensusParams(st.ConsensusParams), types.HashConsensusParams(cs.ConsensusParams)) {
		e.Fail("C14", "state-consensus-params", "consensus params %v != canonical %v", st.ConsensusParams, cs.ConsensusParams)
	}
	if !st.ConsensusParams.Equal(&cs.ConsensusParams) {
		e.Fail("C14", "state-consensus-params-unhashed", "consensus params %v != canonical %v (fields not covered by the header's consensus hash)", st.ConsensusParams, cs.ConsensusParams)
	}
}

func (s *sim) compareCommit(c *types.Commit, H int64) {
	e := s.env
	canon := s.chain.Commits[H]
	if c == nil {
		e.Fail("C14", "commit-missing", "Sync returned no commit")
	}
	if c.Height != H || !c.BlockID.Equals(canon.BlockID) {
		e.Fail("C14", "commit-wrong-block", "returned commit is for height %d block %v, canonical block at %d is %v", c.Height, c.BlockID, H, canon.BlockID)
	}
	vals := s.chain.LightBlock(H).ValidatorSet
	if err := vals.VerifyCommit(s.chain.State.ChainID, canon.BlockID, H, c); err != nil {
		e.Fail("C14", "commit-invalid", "returned commit does not verify against the canonical validator set of height %d: %v", H, err)
	}
}

func short(id string) string {
	if len(id) > 4 {
		return id[len(id)-4:]
	}
	return id
}

func head(b []byte) []byte {
	if len(b) > 12 {
		return b[:12]
	}
	return b
}
